/-
  Svgdx.Proofs.Unroll — a `<loop count=N>` renders what its manual unrolling renders (model `Svgdx.Ctl.Gen`).

  (0) definitions: `Node.specsFree` / `Nodes.specsFree`, `OrigOK`, `Ok`, `NF`, the statement structures `AllOk`, `AllMono`;
  (1) `allOk`    : `Ok` (not inside `<specs>`, a scope exists, every reuse template specs-free) is kept by all 15
                   functions of the mutual block, for every outcome;
  (A) `allMono`  : FUEL ROBUSTNESS — on `Ok` states and specs-free trees, a result that is not `.error .fuel` is the
                   result (same state, same value) for every larger fuel, for all 15 functions;
  (B) `loop_eq_unroll`, `loop_unroll_fuel_exists`, `loop_eq_unroll_eventually`, `loop_unroll_ok`, `genLoop_eq_unroll`:
                   THE UNROLLING THEOREM — under first-attempt success of every pass, `loopIter` for N passes and
                   `processNodes` on `unroll name [start, start+step, …] ks` from the same state give the same final
                   state (all fields) and the same result (events and bounding box), for all fuels on which neither side
                   reports the fuel error; such fuels exist;
  (C) `UnrollExample` : a concrete instance checked by kernel evaluation.

  WHY `specsFree` / `Ok`: fuel robustness is FALSE as a blanket statement. Inside `<specs>` (`inSpecs = true`) `onePass`
  ignores the result of every tag — including `.error .fuel` — so a fuel error there is swallowed: `genSpecs` returns
  `.ok ([], none)` with whatever was registered before the fuel ran out, and more fuel gives a different state without any
  fuel error having been reported. The exact statement that holds excludes `<specs>` elements WITH content (from the
  tree and from the reuse templates in `originals`); an empty `<specs/>` is harmless.

  WHY `name ≠ "id"`: `registerEarly` looks at the `id` attribute of every tag; `<var id="3"/>` in the unrolled world
  would be registered as a reuse template, which the loop never does (difference in `originals`).

  Scope of (B): the comparison is between `loopIter` and `processNodes` FROM THE SAME STATE, as sibling lists; the
  embedding into a parent tag list (index shift of later siblings, the loop body running one `depth` level deeper than
  the unrolled copies) is not covered here.
-/
import Svgdx.Proofs.CtlInv
import Svgdx.Proofs.Balanced
import Svgdx.Proofs.C16Laws
import Svgdx.Ctl.SimpleEval
namespace Svgdx.Ctl
open Svgdx

variable {ρ : Type}

/-! ## (0) definitions -/

/- no `<specs>` element WITH content anywhere in the tree (an empty `<specs/>` is harmless: `genSpecs` with
    `kids = none` does nothing). Needed for fuel robustness: inside `<specs>` (`inSpecs = true`) `onePass` ignores
    the result of every tag, INCLUDING `.error .fuel`, so a fuel error there is swallowed and the outcome with
    more fuel can differ without any fuel error being reported. -/
mutual
def Node.specsFree : Node → Bool
  | .elem e (some ks) _ => e.name != cs!"specs" && ks.specsFree
  | .elem _ none _ => true
  | .comment _ _ => true
  | .text _ => true
  | .cdata _ => true
def Nodes.specsFree : Nodes → Bool
  | .nil => true
  | .cons n r => n.specsFree && r.specsFree
end

/-- every reuse template in the element table is specs-free -/
def OrigOK (st : St ρ) : Prop :=
  ∀ i e kids, (i, e, kids) ∈ st.originals → (Node.elem e kids none).specsFree = true

/-- the states on which fuel robustness holds: not inside `<specs>`, a scope exists (`AllInv` needs it),
    all templates specs-free -/
structure Ok (st : St ρ) : Prop where
  inSpecs : st.inSpecs = false
  scopes : st.scopes ≠ []
  orig : OrigOK st

/-- "not the fuel error" -/
def NF {α : Type} (x : St ρ × Except CErr α) : Prop := x.2 ≠ .error .fuel

/-- `Ok` is kept by every function of the mutual block, whatever the outcome -/
structure AllOk (ev : Evalr ρ) (fuel : Nat) : Prop where
  genElem : ∀ (st : St ρ) e kids, Ok st → (Node.elem e kids none).specsFree = true → Ok (genElem ev fuel st e kids).1
  dispatch : ∀ (st : St ρ) e kids, Ok st → (Node.elem e kids none).specsFree = true → Ok (dispatch ev fuel st e kids).1
  genSpecs : ∀ (st : St ρ), Ok st → Ok (genSpecs ev fuel st none).1
  genReuse : ∀ (st : St ρ) e, Ok st → Ok (genReuse ev fuel st e).1
  genIf : ∀ (st : St ρ) e kids, Ok st → (Node.elem e kids none).specsFree = true → Ok (genIf ev fuel st e kids).1
  genContainer : ∀ (st : St ρ) e ks, Ok st → (Node.elem e (some ks) none).specsFree = true →
    Ok (genContainer ev fuel st e ks).1
  genGroup : ∀ (st : St ρ) e kids, Ok st → (Node.elem e kids none).specsFree = true → Ok (genGroup ev fuel st e kids).1
  genLoop : ∀ (st : St ρ) e kids, Ok st → (Node.elem e kids none).specsFree = true → Ok (genLoop ev fuel st e kids).1
  loopIter : ∀ (st : St ρ) ks c w u n v s i acc bb, Ok st → ks.specsFree = true →
    Ok (loopIter ev fuel st ks c w u n v s i acc bb).1
  genFor : ∀ (st : St ρ) e kids, Ok st → (Node.elem e kids none).specsFree = true → Ok (genFor ev fuel st e kids).1
  forIter : ∀ (st : St ρ) ks v iv items idx acc bb, Ok st → ks.specsFree = true →
    Ok (forIter ev fuel st ks v iv items idx acc bb).1
  genNode : ∀ (st : St ρ) n, Ok st → n.specsFree = true → Ok (genNode ev fuel st n).1
  onePass : ∀ (st : St ρ) ts outs bb rem, Ok st → (∀ t ∈ ts, t.node.specsFree = true) →
    Ok (onePass ev fuel st ts outs bb rem).1
  retry : ∀ (st : St ρ) ts outs bb, Ok st → (∀ t ∈ ts, t.node.specsFree = true) → Ok (retry ev fuel st ts outs bb).1
  processNodes : ∀ (st : St ρ) ks, Ok st → ks.specsFree = true → Ok (processNodes ev fuel st ks).1

/-- **fuel robustness**: a result that is not the fuel error is the result for every larger fuel -/
structure AllMono (ev : Evalr ρ) (f : Nat) : Prop where
  genElem : ∀ (st : St ρ) e kids f', f ≤ f' → Ok st → (Node.elem e kids none).specsFree = true →
    NF (genElem ev f st e kids) → genElem ev f' st e kids = genElem ev f st e kids
  dispatch : ∀ (st : St ρ) e kids f', f ≤ f' → Ok st → (Node.elem e kids none).specsFree = true →
    NF (dispatch ev f st e kids) → dispatch ev f' st e kids = dispatch ev f st e kids
  genSpecs : ∀ (st : St ρ) f', f ≤ f' → NF (genSpecs ev f st none) → genSpecs ev f' st none = genSpecs ev f st none
  genReuse : ∀ (st : St ρ) e f', f ≤ f' → Ok st → NF (genReuse ev f st e) → genReuse ev f' st e = genReuse ev f st e
  genIf : ∀ (st : St ρ) e kids f', f ≤ f' → Ok st → (Node.elem e kids none).specsFree = true →
    NF (genIf ev f st e kids) → genIf ev f' st e kids = genIf ev f st e kids
  genContainer : ∀ (st : St ρ) e ks f', f ≤ f' → Ok st → (Node.elem e (some ks) none).specsFree = true →
    NF (genContainer ev f st e ks) → genContainer ev f' st e ks = genContainer ev f st e ks
  genGroup : ∀ (st : St ρ) e kids f', f ≤ f' → Ok st → (Node.elem e kids none).specsFree = true →
    NF (genGroup ev f st e kids) → genGroup ev f' st e kids = genGroup ev f st e kids
  genLoop : ∀ (st : St ρ) e kids f', f ≤ f' → Ok st → (Node.elem e kids none).specsFree = true →
    NF (genLoop ev f st e kids) → genLoop ev f' st e kids = genLoop ev f st e kids
  loopIter : ∀ (st : St ρ) ks c w u n v s i acc bb f', f ≤ f' → Ok st → ks.specsFree = true →
    NF (loopIter ev f st ks c w u n v s i acc bb) →
    loopIter ev f' st ks c w u n v s i acc bb = loopIter ev f st ks c w u n v s i acc bb
  genFor : ∀ (st : St ρ) e kids f', f ≤ f' → Ok st → (Node.elem e kids none).specsFree = true →
    NF (genFor ev f st e kids) → genFor ev f' st e kids = genFor ev f st e kids
  forIter : ∀ (st : St ρ) ks v iv items idx acc bb f', f ≤ f' → Ok st → ks.specsFree = true →
    NF (forIter ev f st ks v iv items idx acc bb) →
    forIter ev f' st ks v iv items idx acc bb = forIter ev f st ks v iv items idx acc bb
  genNode : ∀ (st : St ρ) n f', f ≤ f' → Ok st → n.specsFree = true →
    NF (genNode ev f st n) → genNode ev f' st n = genNode ev f st n
  onePass : ∀ (st : St ρ) ts outs bb rem f', f ≤ f' → Ok st → (∀ t ∈ ts, t.node.specsFree = true) →
    NF (onePass ev f st ts outs bb rem) → onePass ev f' st ts outs bb rem = onePass ev f st ts outs bb rem
  retry : ∀ (st : St ρ) ts outs bb f', f ≤ f' → Ok st → (∀ t ∈ ts, t.node.specsFree = true) →
    NF (retry ev f st ts outs bb) → retry ev f' st ts outs bb = retry ev f st ts outs bb
  processNodes : ∀ (st : St ρ) ks f', f ≤ f' → Ok st → ks.specsFree = true →
    NF (processNodes ev f st ks) → processNodes ev f' st ks = processNodes ev f st ks

/-! ## (1) `Ok` is an invariant of the whole mutual block -/

/-! ### element names are untouched by the attribute plumbing of `reuse` -/

@[simp] theorem removeAttrs_name (e : Elem) (ks : List Str) : (e.removeAttrs ks).name = e.name := rfl

@[simp] theorem addClass_name (e : Elem) (c : Str) : (e.addClass c).name = e.name := rfl

@[simp] theorem popAttr_name (e : Elem) (k : Str) : (e.popAttr k).1.name = e.name := by
  unfold Elem.popAttr
  split
  rfl

@[simp] theorem withAttrsFrom_name (a b : Elem) : (a.withAttrsFrom b).name = a.name := rfl

@[simp] theorem expandPair_name (e : Elem) (k k1 k2 : Str) : (e.expandPair k k1 k2).name = e.name := by
  unfold Elem.expandPair
  split
  · rename_i e' v h
    have : e'.name = e.name := by rw [← popAttr_name e k, h]
    split
    exact this
  · rfl

@[simp] theorem expandCompoundSize_name (e : Elem) : e.expandCompoundSize.name = e.name := by
  unfold Elem.expandCompoundSize
  dsimp only
  rw [expandPair_name]
  split
  · rw [expandPair_name, expandPair_name]
  · rw [expandPair_name]

@[simp] theorem expandCompoundPos_name (e : Elem) : e.expandCompoundPos.name = e.name := by
  unfold Elem.expandCompoundPos
  dsimp only
  rw [expandPair_name, expandPair_name, expandPair_name, expandPair_name]
  split
  · rename_i e' v h
    have h1 : e'.name = e.name := by rw [← popAttr_name e (cs!"xy"), h]
    simp only [popAttr_name]
    exact h1
  · rfl

@[simp] theorem lineCoord_name (e : Elem) (k : Str) (v : Rat) (d : Option Rat) : (e.lineCoord k v d).name = e.name := by
  unfold Elem.lineCoord
  split
  · rfl
  · split
    · split <;> rfl
    · rfl

@[simp] theorem positionViaTransform_name (p : Gen.Position) (e : Elem) :
    (Elem.positionViaTransform p e).name = e.name := by
  unfold Elem.positionViaTransform
  dsimp only
  split
  · simp only [setAttr_name, removeAttrs_name]
  · rfl

theorem setPositionAttrs_name (p : Gen.Position) (e : Elem) : (Elem.setPositionAttrs p e).name = e.name := by
  unfold Elem.setPositionAttrs
  split
  · dsimp only
    repeat' split
    all_goals simp only [setAttr_name, removeAttrs_name, lineCoord_name]
  · split
    · exact positionViaTransform_name p e
    · rfl

theorem reuseOverride_name (re inst : Elem) : (reuseOverride re inst).name = inst.name := by
  unfold reuseOverride
  rw [foldl_name]
  intro a b
  split
  · rfl
  · split
    · rfl
    · split <;> rfl

theorem reuseDress_name (re inst : Elem) : (reuseDress re inst).name = inst.name := by
  unfold reuseDress
  split
  rename_i inst' refId h
  have h1 : inst'.name = inst.name := by rw [← popAttr_name inst (cs!"id"), h]
  dsimp only
  have h2 : ∀ a : Elem, a.name = inst.name →
      (re.classes.foldl (fun (a : Elem) c => a.addClass c) a).name = inst.name := by
    intro a ha
    rw [foldl_name (fun (a : Elem) c => a.addClass c) (fun a b => rfl)]
    exact ha
  have h3 : ∀ a : Elem, a.name = inst.name →
      (match re.getAttr cs!"style" with
        | some s => a.setAttr cs!"style" s
        | none => a).name = inst.name := by
    intro a ha
    split
    · exact ha
    · exact ha
  have h4 : (match re.getAttr cs!"id" with
        | some i => inst'.setAttr cs!"id" i
        | none => inst').name = inst.name := by
    split
    · exact h1
    · exact h1
  split
  · rw [addClass_name]
    exact h2 _ (h3 _ h4)
  · exact h2 _ (h3 _ h4)

theorem reuseInstance_name (re inst : Elem) :
    (reuseInstance re inst).name = inst.name ∨ (reuseInstance re inst).name = ['g'] := by
  unfold reuseInstance
  dsimp only
  split
  · right
    rw [withAttrsFrom_name, new_name]
  · left
    rw [reuseDress_name, reuseOverride_name]

/-! ### specs-freeness plumbing -/

theorem specsFree_none (e : Elem) (t : Option Str) : (Node.elem e none t).specsFree = true := by
  simp [Node.specsFree]

theorem specsFree_tail (e : Elem) (kids : Option Nodes) (t t' : Option Str) :
    (Node.elem e kids t).specsFree = (Node.elem e kids t').specsFree := by
  cases kids <;> simp [Node.specsFree]

theorem specsFree_some {e : Elem} {ks : Nodes} {t : Option Str} (h : (Node.elem e (some ks) t).specsFree = true) :
    (e.name != cs!"specs") = true ∧ ks.specsFree = true := by
  simpa [Node.specsFree] using h

theorem specsFree_kids {e : Elem} {kids : Option Nodes} {t : Option Str} (h : (Node.elem e kids t).specsFree = true)
    {ks : Nodes} (hk : kids = some ks) : ks.specsFree = true := by
  subst hk
  exact (specsFree_some h).2

theorem specsFree_single (n : Node) (h : n.specsFree = true) : (Nodes.cons n .nil).specsFree = true := by
  simp [Nodes.specsFree, h]

theorem specsFree_toList : ∀ (ks : Nodes), ks.specsFree = true → ∀ n ∈ ks.toList, n.specsFree = true
  | .nil, _, n, hn => by simp [Nodes.toList] at hn
  | .cons m r, h, n, hn => by
    simp only [Nodes.specsFree, Bool.and_eq_true] at h
    simp only [Nodes.toList, List.mem_cons] at hn
    rcases hn with rfl | hn
    · exact h.1
    · exact specsFree_toList r h.2 n hn

theorem specsFree_tags (ks : Nodes) (h : ks.specsFree = true) :
    ∀ t ∈ (ks.toList.zipIdx.map fun (n, i) => ({ idx := i, node := n } : Tag)), t.node.specsFree = true := by
  intro t ht
  simp only [List.mem_map] at ht
  obtain ⟨⟨n, i⟩, hm, rfl⟩ := ht
  exact specsFree_toList ks h n (List.fst_mem_of_mem_zipIdx hm)

theorem lookupTable_mem {β : Type} : ∀ (t : List (Str × β)) (k : Str) (v : β),
    Attrs.lookupTable t k = some v → ∃ k', (k', v) ∈ t
  | [], _, _, h => by simp [Attrs.lookupTable] at h
  | (k', v') :: rest, k, v, h => by
    simp only [Attrs.lookupTable] at h
    split at h
    · cases h
      exact ⟨k', List.mem_cons_self⟩
    · obtain ⟨k'', hk⟩ := lookupTable_mem rest k v h
      exact ⟨k'', List.mem_cons_of_mem _ hk⟩

/-! ### `OrigOK` through the basic steps -/

theorem orig_of_eq {a b : St ρ} (h : OrigOK a) (h3 : b.originals = a.originals) : OrigOK b := by
  intro i e k hm
  rw [h3] at hm
  exact h i e k hm

theorem orig_cons {a b : St ρ} (h : OrigOK a) (i : Str) (e : Elem) (kids : Option Nodes)
    (hs : (Node.elem e kids none).specsFree = true) (h3 : b.originals = (i, e, kids) :: a.originals) : OrigOK b := by
  intro i' e' k' hm
  rw [h3] at hm
  rcases List.mem_cons.1 hm with h1 | h1
  · cases h1
    exact hs
  · exact h _ _ _ h1

theorem orig_ite {a b : St ρ} (h : OrigOK a) (c : Bool) (i : Str) (e : Elem) (kids : Option Nodes)
    (hs : (Node.elem e kids none).specsFree = true)
    (h3 : b.originals = if c then a.originals else (i, e, kids) :: a.originals) : OrigOK b := by
  cases c
  · exact orig_cons h i e kids hs h3
  · exact orig_of_eq h h3

theorem orig_setVar (a : St ρ) (k v : Str) (h : OrigOK a) : OrigOK (a.setVar k v) := by
  unfold St.setVar
  split <;> exact orig_of_eq h rfl

theorem orig_foldl_setVar (vars : List (Str × Str)) (a : St ρ) (h : OrigOK a) :
    OrigOK (vars.foldl (fun s kv => s.setVar kv.1 kv.2) a) := by
  induction vars generalizing a with
  | nil => exact h
  | cons x xs ih =>
    simp only [List.foldl_cons]
    exact ih _ (orig_setVar a x.1 x.2 h)

theorem orig_updateElement (ev : Evalr ρ) (a : St ρ) (e : Elem) (h : OrigOK a) : OrigOK (updateElement ev a e) := by
  unfold updateElement
  split
  · exact h
  · exact orig_ite h _ _ e none (specsFree_none e none) rfl

theorem orig_registerOriginal (ev : Evalr ρ) (a : St ρ) (e : Elem) (k : Option Nodes) (h : OrigOK a)
    (hs : (Node.elem e k none).specsFree = true) : OrigOK (registerOriginal ev a e k) := by
  unfold registerOriginal
  split
  · exact h
  · exact orig_ite h _ _ e k hs rfl

theorem orig_setPrev (a : St ρ) (e : Elem) (h : OrigOK a) : OrigOK (setPrev a e) := orig_of_eq h rfl

theorem orig_seq {α β : Type} (x : St ρ × Except CErr α) (f : St ρ → α → St ρ × Except CErr β)
    (hx : OrigOK x.1) (hf : ∀ v, x.2 = .ok v → OrigOK (f x.1 v).1) : OrigOK (seq x f).1 := by
  unfold seq
  split
  · exact hx
  · exact hf _ ‹_›

theorem seq_ok {α β : Type} (x : St ρ × Except CErr α) (f : St ρ → α → St ρ × Except CErr β) (b : β)
    (h : (seq x f).2 = .ok b) : ∃ a, x.2 = .ok a ∧ (f x.1 a).2 = .ok b := by
  unfold seq at h
  split at h
  · cases h
  · exact ⟨_, ‹_›, h⟩

theorem orig_withRng {α : Type} (st : St ρ) (r : Except Err (α × ρ)) (h : OrigOK st) : OrigOK (withRng st r).1 := by
  unfold withRng
  split
  · exact orig_of_eq h rfl
  · exact h

theorem withRng_originals {α : Type} (st : St ρ) (r : Except Err (α × ρ)) :
    (withRng st r).1.originals = st.originals := by
  unfold withRng
  split <;> rfl

theorem withRng_ok {α : Type} (st : St ρ) (r : Except Err (α × ρ)) (a : α) (h : (withRng st r).2 = .ok a) :
    ∃ rng, r = .ok (a, rng) := by
  unfold withRng at h
  split at h
  · cases h
    exact ⟨_, rfl⟩
  · cases h

theorem orig_genVar (ev : Evalr ρ) (st : St ρ) (e : Elem) (h : OrigOK st) : OrigOK (genVar ev st e).1 := by
  unfold genVar
  dsimp only
  split
  · exact h
  · exact orig_foldl_setVar _ _ (orig_of_eq h rfl)

theorem orig_elementEvents (ev : Evalr ρ) (st : St ρ) (e : Elem) (h : OrigOK st) :
    OrigOK (elementEvents ev st e).1 := by
  unfold elementEvents
  apply orig_seq
  · unfold commentEvents
    split
    · split
      · exact orig_of_eq h rfl
      · exact h
    · exact h
  · intro evs1 _
    unfold commentEvents
    split
    · split
      · exact orig_of_eq h rfl
      · exact h
    · exact h

theorem orig_genOther (ev : Evalr ρ) (st : St ρ) (e : Elem) (h : OrigOK st) : OrigOK (genOther ev st e).1 := by
  unfold genOther
  apply orig_seq _ _ (orig_withRng st _ h)
  intro e' _
  dsimp only
  have h2 := orig_updateElement ev (withRng st (otherPipeline ev st e)).1 e' (orig_withRng st _ h)
  split
  · exact h2
  · apply orig_seq
    · apply orig_elementEvents
      split
      · exact orig_setPrev _ _ h2
      · exact h2
    · intro evs _
      apply orig_elementEvents
      split
      · exact orig_setPrev _ _ h2
      · exact h2

theorem orig_finishContainer (ev : Evalr ρ) (st : St ρ) ne bb (h : OrigOK st) :
    OrigOK (finishContainer ev st ne bb) := by
  unfold finishContainer
  dsimp only
  have h0 : OrigOK (if bb.isSome then updateElement ev st { ne with contentBBox := bb } else st) := by
    split
    · exact orig_updateElement ev st _ h
    · exact h
  split
  · exact orig_setPrev _ _ h0
  · exact h0

theorem orig_preTest (ev : Evalr ρ) (st : St ρ) c w i (h : OrigOK st) : OrigOK (preTest ev st c w i).1 := by
  unfold preTest
  split
  · exact h
  · exact orig_withRng st _ h
  · exact h

theorem orig_postTest (ev : Evalr ρ) (st : St ρ) u (h : OrigOK st) : OrigOK (postTest ev st u).1 := by
  unfold postTest
  split
  · exact orig_withRng st _ h
  · exact h

theorem orig_bindLoopVar (st : St ρ) n v (h : OrigOK st) : OrigOK (bindLoopVar st n v) := by
  unfold bindLoopVar
  split
  · exact h
  · exact orig_setVar st _ _ h

theorem orig_bindForVars (st : St ρ) v iv item idx (h : OrigOK st) : OrigOK (bindForVars st v iv item idx) := by
  unfold bindForVars
  have h1 := orig_setVar st v item h
  dsimp only
  split
  · exact orig_setVar _ _ _ h1
  · exact h1

theorem orig_registerEarly (ev : Evalr ρ) (st : St ρ) (n : Node) (h : OrigOK st) (hn : n.specsFree = true) :
    OrigOK (registerEarly ev st n) := by
  unfold registerEarly
  split
  · rename_i e kids tail
    exact orig_registerOriginal ev st e kids h (by rw [specsFree_tail e kids none tail]; exact hn)
  · exact h

theorem orig_groupFinish (ev : Evalr ρ) (st : St ρ) e r (h : OrigOK st) : OrigOK (groupFinish ev st e r).1 := by
  unfold groupFinish
  dsimp only
  have hu := orig_updateElement ev st { e with contentBBox := r.2 } h
  have hst : OrigOK (if r.2.isSome then setPrev (updateElement ev st { e with contentBBox := r.2 }) { e with contentBBox := r.2 }
      else updateElement ev st { e with contentBBox := r.2 }) := by
    split
    · exact orig_setPrev _ _ hu
    · exact hu
  split
  · exact hst
  · split <;> exact hst

theorem orig_clipPost (ev : Evalr ρ) (e : Elem) (x : St ρ × Res) (h : OrigOK x.1) : OrigOK (clipPost ev e x).1 := by
  unfold clipPost
  split
  · split
    · split
      · exact h
      · split
        · split
          · exact h
          · exact orig_updateElement ev _ _ h
          · exact h
        · exact h
    · exact h
  · exact h

theorem orig_updateIf (ev : Evalr ρ) (st : St ρ) (re : Elem) (b : Bool) (h : OrigOK st) :
    OrigOK (if b then updateElement ev st re else st) := by
  split
  · exact orig_updateElement ev st re h
  · exact h

theorem orig_reusePrepare (ev : Evalr ρ) (st : St ρ) (re : Elem) (h : OrigOK st) :
    OrigOK (reusePrepare ev st re).1 := by
  unfold reusePrepare
  split
  · exact h
  · split
    · exact h
    · exact orig_of_eq h rfl
    · split
      · exact h
      · rename_i orig kids _
        apply orig_seq _ _ (orig_withRng st _ h)
        intro inst1 _
        have h1 := orig_withRng st (evalAttributes ev st orig.expandCompoundSize) h
        split
        · exact h1
        · dsimp only
          split
          · exact h1
          · exact orig_updateIf ev _ _ _ h1

theorem reuse_final (re inst1 orig : Elem) (kids : Option Nodes) (hn1 : inst1.name = orig.name)
    (hs : (Node.elem orig kids none).specsFree = true) (p : Gen.Position) (e : Elem)
    (he : e.name = (reuseInstance re inst1).name) (ik : Elem × Option Nodes)
    (hik : ik = (Elem.setPositionAttrs p e, kids)) :
    (Node.elem ik.1 ik.2 none).specsFree = true := by
  subst hik
  cases kids with
  | none => exact specsFree_none _ _
  | some ks =>
    have hs' := specsFree_some hs
    have hne : ((reuseInstance re inst1).name != cs!"specs") = true := by
      rcases reuseInstance_name re inst1 with hh | hh
      · rw [hh, hn1]
        exact hs'.1
      · rw [hh]
        decide
    simp only [Node.specsFree, Bool.and_eq_true]
    refine ⟨?_, hs'.2⟩
    rw [setPositionAttrs_name, he]
    exact hne

/-- the instance handed on by `reusePrepare` is specs-free: its content is a registered template's content,
    and its name is the template's name or `g` -/
theorem reusePrepare_specsFree' (ev : Evalr ρ) (st : St ρ) (re : Elem) (ik : Elem × Option Nodes) (h : OrigOK st)
    (hr : (reusePrepare ev st re).2 = .ok ik) : (Node.elem ik.1 ik.2 none).specsFree = true := by
  unfold reusePrepare at hr
  split at hr
  · cases hr
  · split at hr
    · cases hr
    · cases hr
    · split at hr
      · cases hr
      · rename_i i orig kids hl
        obtain ⟨inst1, h1, h2⟩ := seq_ok _ _ _ hr
        clear hr
        obtain ⟨rng, h1⟩ := withRng_ok _ _ _ h1
        have hn1 : inst1.name = orig.name := by
          rw [evalAttributes_name ev st _ _ _ h1, expandCompoundSize_name]
        obtain ⟨i', hm⟩ := lookupTable_mem _ _ _ hl
        have hs := h i' orig kids hm
        split at h2
        · cases h2
        · extract_lets inst2 at h2
          split at h2
          · cases h2
          · extract_lets st' pos cbb pos2 at h2
            clear_value st' pos2
            split at h2
            rename_i inst3 _ _ _ _ pos' inst2' heq
            have hn2 : inst2'.name = (reuseInstance re inst1).name := by
              split at heq
              · split at heq
                · rw [← (Prod.mk.inj heq).2]
                  exact expandCompoundPos_name _
                · rw [← (Prod.mk.inj heq).2]
                  exact expandCompoundPos_name _
              · rw [← (Prod.mk.inj heq).2]
            exact reuse_final re inst1 orig kids hn1 hs _ _ hn2 ik (Except.ok.inj h2).symm

/-- the tags `onePass` leaves pending are among those it was given -/
theorem onePass_remain (ev : Evalr ρ) (P : Tag → Prop) (hP : ∀ (t : Tag) g, P t → P { t with failGen := g }) :
    ∀ (fuel : Nat) (st : St ρ) (ts : List Tag) outs bb rem,
    (∀ t ∈ ts, P t) → (∀ t ∈ rem, P t) → ∀ r, (onePass ev fuel st ts outs bb rem).2 = .ok r → ∀ t ∈ r.2.2, P t := by
  intro fuel
  induction fuel with
  | zero =>
    intro st ts outs bb rem _ _ r hr
    unfold onePass at hr
    cases hr
  | succ fuel ih =>
    intro st ts outs bb rem hts hrem r hr
    cases ts with
    | nil =>
      unfold onePass at hr
      cases hr
      intro t ht
      exact hrem t (List.mem_reverse.1 ht)
    | cons t ts =>
      unfold onePass at hr
      have hts' : ∀ t' ∈ ts, P t' := fun t' ht' => hts t' (List.mem_cons_of_mem _ ht')
      dsimp only at hr
      split at hr
      · exact ih _ _ _ _ _ hts' hrem r hr
      · split at hr
        · exact ih _ _ _ _ _ hts' hrem r hr
        · split at hr
          · cases hr
          · refine ih _ _ _ _ _ hts' ?_ r hr
            intro t' ht'
            rcases List.mem_cons.1 ht' with rfl | h1
            · exact hP _ _ (hts _ List.mem_cons_self)
            · exact hrem _ h1

/-! ### `OrigOK` through the mutual block -/

structure AllOrig (ev : Evalr ρ) (fuel : Nat) : Prop where
  genElem : ∀ (st : St ρ) e kids, OrigOK st → (Node.elem e kids none).specsFree = true →
    OrigOK (genElem ev fuel st e kids).1
  dispatch : ∀ (st : St ρ) e kids, OrigOK st → (Node.elem e kids none).specsFree = true →
    OrigOK (dispatch ev fuel st e kids).1
  genSpecs : ∀ (st : St ρ), OrigOK st → OrigOK (genSpecs ev fuel st none).1
  genReuse : ∀ (st : St ρ) e, OrigOK st → OrigOK (genReuse ev fuel st e).1
  genIf : ∀ (st : St ρ) e kids, OrigOK st → (Node.elem e kids none).specsFree = true →
    OrigOK (genIf ev fuel st e kids).1
  genContainer : ∀ (st : St ρ) e ks, OrigOK st → (Node.elem e (some ks) none).specsFree = true →
    OrigOK (genContainer ev fuel st e ks).1
  genGroup : ∀ (st : St ρ) e kids, OrigOK st → (Node.elem e kids none).specsFree = true →
    OrigOK (genGroup ev fuel st e kids).1
  genLoop : ∀ (st : St ρ) e kids, OrigOK st → (Node.elem e kids none).specsFree = true →
    OrigOK (genLoop ev fuel st e kids).1
  loopIter : ∀ (st : St ρ) ks c w u n v s i acc bb, OrigOK st → ks.specsFree = true →
    OrigOK (loopIter ev fuel st ks c w u n v s i acc bb).1
  genFor : ∀ (st : St ρ) e kids, OrigOK st → (Node.elem e kids none).specsFree = true →
    OrigOK (genFor ev fuel st e kids).1
  forIter : ∀ (st : St ρ) ks v iv items idx acc bb, OrigOK st → ks.specsFree = true →
    OrigOK (forIter ev fuel st ks v iv items idx acc bb).1
  genNode : ∀ (st : St ρ) n, OrigOK st → n.specsFree = true → OrigOK (genNode ev fuel st n).1
  onePass : ∀ (st : St ρ) ts outs bb rem, OrigOK st → (∀ t ∈ ts, t.node.specsFree = true) →
    OrigOK (onePass ev fuel st ts outs bb rem).1
  retry : ∀ (st : St ρ) ts outs bb, OrigOK st → (∀ t ∈ ts, t.node.specsFree = true) →
    OrigOK (retry ev fuel st ts outs bb).1
  processNodes : ∀ (st : St ρ) ks, OrigOK st → ks.specsFree = true → OrigOK (processNodes ev fuel st ks).1

theorem allOrig_zero (ev : Evalr ρ) : AllOrig ev 0 := by
  constructor <;> intros <;> simp only [Ctl.genElem, Ctl.dispatch, Ctl.genSpecs, Ctl.genReuse, Ctl.genIf,
    Ctl.genContainer, Ctl.genGroup, Ctl.genLoop, Ctl.loopIter, Ctl.genFor, Ctl.forIter, Ctl.genNode, Ctl.onePass,
    Ctl.retry, Ctl.processNodes] <;> assumption

section ostep
variable (ev : Evalr ρ) (fuel : Nat) (ih : AllOrig ev fuel)
include ih

theorem genElem_orig (st : St ρ) e kids (h : OrigOK st) (hs : (Node.elem e kids none).specsFree = true) :
    OrigOK (Ctl.genElem ev (fuel + 1) st e kids).1 := by
  unfold Ctl.genElem
  split
  · exact h
  · dsimp only
    apply orig_clipPost
    exact orig_of_eq (ih.dispatch { st with depth := st.depth + 1 } e kids (orig_of_eq h rfl) hs) rfl

theorem dispatch_orig (st : St ρ) e kids (h : OrigOK st) (hs : (Node.elem e kids none).specsFree = true) :
    OrigOK (Ctl.dispatch ev (fuel + 1) st e kids).1 := by
  unfold Ctl.dispatch
  dsimp only
  split; · exact ih.genLoop st e kids h hs
  split
  · split
    · exact orig_of_eq h rfl
    · exact h
  split; · exact ih.genReuse st e h
  split
  · rename_i hn
    cases kids with
    | none => exact ih.genSpecs st h
    | some ks =>
      have := (specsFree_some hs).1
      simp only [bne, hn, Bool.not_true] at this
      cases this
  split; · exact orig_genVar ev st e h
  split; · exact ih.genIf st e kids h hs
  split; · exact orig_of_eq h rfl
  split; · exact ih.genFor st e kids h hs
  split; · exact ih.genGroup st e kids h hs
  split
  · exact ih.genContainer st e _ h hs
  · exact orig_genOther ev st e h

omit ih in
theorem genSpecs_orig (st : St ρ) (h : OrigOK st) : OrigOK (Ctl.genSpecs ev (fuel + 1) st none).1 := by
  unfold Ctl.genSpecs
  split
  · exact h
  · exact h

theorem genReuse_orig (st : St ρ) e (h : OrigOK st) : OrigOK (Ctl.genReuse ev (fuel + 1) st e).1 := by
  unfold Ctl.genReuse
  apply orig_seq _ _ (orig_withRng st _ h)
  intro re _
  have h1 : OrigOK ((withRng st (evalAttributes ev st e)).1.pushElement re) :=
    orig_of_eq (orig_withRng st _ h) rfl
  have hbody : OrigOK
      (seq (reusePrepare ev ((withRng st (evalAttributes ev st e)).1.pushElement re) re) fun st1 ik =>
        match ik.2 with
        | some ks => Ctl.processNodes ev fuel st1 (Nodes.cons (.elem ik.1 (some ks) none) .nil)
        | none => Ctl.genElem ev fuel st1 ik.1 none).1 := by
    have h2 := orig_reusePrepare ev _ re h1
    apply orig_seq _ _ h2
    intro ik hik
    have hsf := reusePrepare_specsFree' ev _ re ik h1 hik
    split
    · rename_i ks hks
      rw [hks] at hsf
      exact ih.processNodes _ _ h2 (specsFree_single _ hsf)
    · exact ih.genElem _ _ _ h2 (specsFree_none _ _)
  exact orig_of_eq hbody rfl

theorem genIf_orig (st : St ρ) e kids (h : OrigOK st) (hs : (Node.elem e kids none).specsFree = true) :
    OrigOK (Ctl.genIf ev (fuel + 1) st e kids).1 := by
  unfold Ctl.genIf
  split
  · exact h
  · split
    · apply orig_seq _ _ (orig_withRng st _ h)
      intro b _
      split
      · exact ih.processNodes _ _ (orig_withRng st _ h) (specsFree_some hs).2
      · exact orig_withRng st _ h
    · exact h

theorem genContainer_orig (st : St ρ) e ks (h : OrigOK st) (hs : (Node.elem e (some ks) none).specsFree = true) :
    OrigOK (Ctl.genContainer ev (fuel + 1) st e ks).1 := by
  unfold Ctl.genContainer
  split
  · split
    · exact h
    · dsimp only
      exact orig_of_eq (ih.genElem { st with depth := st.depth - 1 } (e.setAttr cs!"text" ‹_›) none
        (orig_of_eq h rfl) (specsFree_none _ _)) rfl
  · split
    · exact h
    · apply orig_seq _ _ (orig_withRng st _ h)
      intro ne _
      have h1 := orig_withRng st (evalAttributes ev st e) h
      apply orig_seq
      · split
        · exact h1
        · exact ih.processNodes _ _ h1 (specsFree_some hs).2
      · intro r _
        apply orig_finishContainer
        split
        · exact h1
        · exact ih.processNodes _ _ h1 (specsFree_some hs).2

theorem genGroup_orig (st : St ρ) e kids (h : OrigOK st) (hs : (Node.elem e kids none).specsFree = true) :
    OrigOK (Ctl.genGroup ev (fuel + 1) st e kids).1 := by
  unfold Ctl.genGroup
  apply orig_seq _ _ (orig_withRng st _ h)
  intro ne _
  have hp : OrigOK ((withRng st (evalAttributes ev st e)).1.pushElement e) :=
    orig_of_eq (orig_withRng st _ h) rfl
  have hbody : OrigOK
      (match kids with
        | none => (((withRng st (evalAttributes ev st e)).1.pushElement e), (Except.ok ([Ev.empty (adapt ne)], none) : Res))
        | some ks =>
          seq (Ctl.processNodes ev fuel ((withRng st (evalAttributes ev st e)).1.pushElement e) ks) fun st r =>
            (st, .ok ([Ev.start (adapt ne)] ++ r.1 ++ [Ev.end_ ne.name], r.2))).1 := by
    split
    · exact hp
    · have h2 := ih.processNodes _ _ hp (specsFree_some hs).2
      apply orig_seq _ _ h2
      intro r _
      exact h2
  have hpop : OrigOK (popAfter
      (match kids with
        | none => (((withRng st (evalAttributes ev st e)).1.pushElement e), (Except.ok ([Ev.empty (adapt ne)], none) : Res))
        | some ks =>
          seq (Ctl.processNodes ev fuel ((withRng st (evalAttributes ev st e)).1.pushElement e) ks) fun st r =>
            (st, .ok ([Ev.start (adapt ne)] ++ r.1 ++ [Ev.end_ ne.name], r.2)))).1 := orig_of_eq hbody rfl
  apply orig_seq (popAfter _) _ hpop
  intro r _
  exact orig_groupFinish ev _ e r hpop

theorem loopIter_orig (st : St ρ) ks c w u n v s i acc bb (h : OrigOK st) (hs : ks.specsFree = true) :
    OrigOK (Ctl.loopIter ev (fuel + 1) st ks c w u n v s i acc bb).1 := by
  unfold Ctl.loopIter
  have h1 := orig_preTest ev st c w i h
  apply orig_seq _ _ h1
  intro go _
  split
  · exact h1
  · have h2 := ih.processNodes _ ks (orig_bindLoopVar (preTest ev st c w i).1 n v h1) hs
    apply orig_seq _ _ h2
    intro r _
    split
    · exact h2
    · have h3 := orig_postTest ev _ u h2
      apply orig_seq _ _ h3
      intro stop _
      split
      · exact h3
      · exact ih.loopIter _ _ _ _ _ _ _ _ _ _ _ h3 hs

theorem genLoop_orig (st : St ρ) e kids (h : OrigOK st) (hs : (Node.elem e kids none).specsFree = true) :
    OrigOK (Ctl.genLoop ev (fuel + 1) st e kids).1 := by
  unfold Ctl.genLoop
  dsimp only
  split
  · split
    · exact h
    · exact ih.loopIter _ _ _ _ _ _ _ _ _ _ _ (orig_of_eq h rfl) (specsFree_some hs).2
  all_goals exact h

theorem forIter_orig (st : St ρ) ks v iv items idx acc bb (h : OrigOK st) (hs : ks.specsFree = true) :
    OrigOK (Ctl.forIter ev (fuel + 1) st ks v iv items idx acc bb).1 := by
  cases items with
  | nil => unfold Ctl.forIter; exact h
  | cons item items =>
    unfold Ctl.forIter
    have h2 := ih.processNodes _ ks (orig_bindForVars st v iv item idx h) hs
    apply orig_seq _ _ h2
    intro r _
    split
    · exact h2
    · exact ih.forIter _ _ _ _ _ _ _ _ h2 hs

theorem genFor_orig (st : St ρ) e kids (h : OrigOK st) (hs : (Node.elem e kids none).specsFree = true) :
    OrigOK (Ctl.genFor ev (fuel + 1) st e kids).1 := by
  unfold Ctl.genFor
  split
  · apply orig_seq _ _ (orig_withRng st _ h)
    intro items _
    exact ih.forIter _ _ _ _ _ _ _ _ (orig_withRng st _ h) (specsFree_some hs).2
  all_goals exact h

theorem genNode_orig (st : St ρ) n (h : OrigOK st) (hs : n.specsFree = true) :
    OrigOK (Ctl.genNode ev (fuel + 1) st n).1 := by
  cases n with
  | elem e kids tail =>
    unfold Ctl.genNode
    have h1 := ih.genElem st e kids h (by rw [specsFree_tail e kids none tail]; exact hs)
    apply orig_seq _ _ h1
    intro r _
    exact h1
  | comment c tail => unfold Ctl.genNode; exact h
  | text t => unfold Ctl.genNode; exact h
  | cdata c => unfold Ctl.genNode; exact h

theorem onePass_orig (st : St ρ) ts outs bb rem (h : OrigOK st) (hs : ∀ t ∈ ts, t.node.specsFree = true) :
    OrigOK (Ctl.onePass ev (fuel + 1) st ts outs bb rem).1 := by
  cases ts with
  | nil => unfold Ctl.onePass; exact h
  | cons t ts =>
    unfold Ctl.onePass
    have ht := hs t List.mem_cons_self
    have hts : ∀ t' ∈ ts, t'.node.specsFree = true := fun t' ht' => hs t' (List.mem_cons_of_mem _ ht')
    have hg := ih.genNode _ t.node (orig_registerEarly ev st t.node h ht) ht
    dsimp only
    split
    · exact ih.onePass _ _ _ _ _ hg hts
    · split
      · exact ih.onePass _ _ _ _ _ hg hts
      · split
        · exact hg
        · exact ih.onePass _ _ _ _ _ hg hts

theorem retry_orig (st : St ρ) ts outs bb (h : OrigOK st) (hs : ∀ t ∈ ts, t.node.specsFree = true) :
    OrigOK (Ctl.retry ev (fuel + 1) st ts outs bb).1 := by
  cases ts with
  | nil => unfold Ctl.retry; exact h
  | cons t ts =>
    unfold Ctl.retry
    have h1 := ih.onePass st (t :: ts) outs bb [] h hs
    apply orig_seq _ _ h1
    intro r hr
    have hrem : ∀ t' ∈ r.2.2, t'.node.specsFree = true :=
      onePass_remain ev (fun t => t.node.specsFree = true) (fun _ _ h => h) fuel st (t :: ts) outs bb [] hs
        (fun _ h => by cases h) r hr
    split
    · exact h1
    split
    · split
      · exact h1
      · split
        · exact orig_of_eq h1 rfl
        · exact ih.retry _ _ _ _ (orig_of_eq h1 rfl) hrem
    · exact ih.retry _ _ _ _ h1 hrem

theorem processNodes_orig (st : St ρ) ks (h : OrigOK st) (hs : ks.specsFree = true) :
    OrigOK (Ctl.processNodes ev (fuel + 1) st ks).1 := by
  unfold Ctl.processNodes
  have h1 := ih.retry st _ [] none h (specsFree_tags ks hs)
  apply orig_seq _ _ h1
  intro r _
  exact h1

end ostep

theorem allOrig (ev : Evalr ρ) : ∀ fuel, AllOrig ev fuel
  | 0 => allOrig_zero ev
  | fuel + 1 =>
    let ih := allOrig ev fuel
    { genElem := genElem_orig ev fuel ih
      dispatch := dispatch_orig ev fuel ih
      genSpecs := genSpecs_orig ev fuel
      genReuse := genReuse_orig ev fuel ih
      genIf := genIf_orig ev fuel ih
      genContainer := genContainer_orig ev fuel ih
      genGroup := genGroup_orig ev fuel ih
      genLoop := genLoop_orig ev fuel ih
      loopIter := loopIter_orig ev fuel ih
      genFor := genFor_orig ev fuel ih
      forIter := forIter_orig ev fuel ih
      genNode := genNode_orig ev fuel ih
      onePass := onePass_orig ev fuel ih
      retry := retry_orig ev fuel ih
      processNodes := processNodes_orig ev fuel ih }

/-! ### `Ok` = the state-restoration invariant + `OrigOK` -/

theorem ok_of_inv {a b : St ρ} (h : Ok a) (hi : Inv a b) (ho : OrigOK b) : Ok b :=
  ⟨hi.2.2.2.2.trans h.inSpecs, hi.2.2.1, ho⟩

theorem ok_of_fields {a b : St ρ} (h : Ok a) (h1 : b.inSpecs = a.inSpecs) (h2 : b.scopes = a.scopes)
    (h3 : b.originals = a.originals) : Ok b :=
  ⟨h1.trans h.inSpecs, by rw [h2]; exact h.scopes, orig_of_eq h.orig h3⟩

theorem ok_withRng {α : Type} (st : St ρ) (r : Except Err (α × ρ)) (h : Ok st) : Ok (withRng st r).1 :=
  ok_of_inv h (inv_withRng st r h.scopes) (orig_withRng st r h.orig)

theorem ok_pushElement (st : St ρ) (e : Elem) (h : Ok st) : Ok (st.pushElement e) :=
  ⟨h.inSpecs, by simp [St.pushElement], orig_of_eq h.orig rfl⟩

theorem ok_setVar (st : St ρ) (k v : Str) (h : Ok st) : Ok (st.setVar k v) :=
  ok_of_inv h (inv_setVar st k v h.scopes) (orig_setVar st k v h.orig)

theorem ok_bindLoopVar (st : St ρ) n v (h : Ok st) : Ok (bindLoopVar st n v) :=
  ok_of_inv h (inv_bindLoopVar st n v h.scopes) (orig_bindLoopVar st n v h.orig)

theorem ok_bindForVars (st : St ρ) v iv item idx (h : Ok st) : Ok (bindForVars st v iv item idx) :=
  ok_of_inv h (inv_bindForVars st v iv item idx h.scopes) (orig_bindForVars st v iv item idx h.orig)

theorem ok_preTest (ev : Evalr ρ) (st : St ρ) c w i (h : Ok st) : Ok (preTest ev st c w i).1 :=
  ok_of_inv h (inv_preTest ev st c w i h.scopes) (orig_preTest ev st c w i h.orig)

theorem ok_postTest (ev : Evalr ρ) (st : St ρ) u (h : Ok st) : Ok (postTest ev st u).1 :=
  ok_of_inv h (inv_postTest ev st u h.scopes) (orig_postTest ev st u h.orig)

theorem ok_registerEarly (ev : Evalr ρ) (st : St ρ) (n : Node) (h : Ok st) (hn : n.specsFree = true) :
    Ok (registerEarly ev st n) :=
  ok_of_inv h (inv_registerEarly ev st n h.scopes) (orig_registerEarly ev st n h.orig hn)

theorem ok_reusePrepare (ev : Evalr ρ) (st : St ρ) (re : Elem) (h : Ok st) : Ok (reusePrepare ev st re).1 :=
  ok_of_inv h (inv_reusePrepare ev st re h.scopes) (orig_reusePrepare ev st re h.orig)

theorem reusePrepare_specsFree (ev : Evalr ρ) (st : St ρ) (re : Elem) (ik : Elem × Option Nodes) (h : Ok st)
    (hr : (reusePrepare ev st re).2 = .ok ik) : (Node.elem ik.1 ik.2 none).specsFree = true :=
  reusePrepare_specsFree' ev st re ik h.orig hr

/-- **`Ok` is kept by every function of the mutual block, all fuel, every outcome** -/
theorem allOk (ev : Evalr ρ) : ∀ fuel, AllOk ev fuel := fun fuel =>
  let I := allInv ev fuel
  let O := allOrig ev fuel
  { genElem := fun st e kids h hs => ok_of_inv h (I.genElem st e kids h.scopes) (O.genElem st e kids h.orig hs)
    dispatch := fun st e kids h hs => ok_of_inv h (I.dispatch st e kids h.scopes) (O.dispatch st e kids h.orig hs)
    genSpecs := fun st h => ok_of_inv h (I.genSpecs st none h.scopes) (O.genSpecs st h.orig)
    genReuse := fun st e h => ok_of_inv h (I.genReuse st e h.scopes) (O.genReuse st e h.orig)
    genIf := fun st e kids h hs => ok_of_inv h (I.genIf st e kids h.scopes) (O.genIf st e kids h.orig hs)
    genContainer := fun st e ks h hs =>
      ok_of_inv h (I.genContainer st e ks h.scopes) (O.genContainer st e ks h.orig hs)
    genGroup := fun st e kids h hs => ok_of_inv h (I.genGroup st e kids h.scopes) (O.genGroup st e kids h.orig hs)
    genLoop := fun st e kids h hs => ok_of_inv h (I.genLoop st e kids h.scopes) (O.genLoop st e kids h.orig hs)
    loopIter := fun st ks c w u n v s i acc bb h hs =>
      ok_of_inv h (I.loopIter st ks c w u n v s i acc bb h.scopes) (O.loopIter st ks c w u n v s i acc bb h.orig hs)
    genFor := fun st e kids h hs => ok_of_inv h (I.genFor st e kids h.scopes) (O.genFor st e kids h.orig hs)
    forIter := fun st ks v iv items idx acc bb h hs =>
      ok_of_inv h (I.forIter st ks v iv items idx acc bb h.scopes) (O.forIter st ks v iv items idx acc bb h.orig hs)
    genNode := fun st n h hs => ok_of_inv h (I.genNode st n h.scopes) (O.genNode st n h.orig hs)
    onePass := fun st ts outs bb rem h hs =>
      ok_of_inv h (I.onePass st ts outs bb rem h.scopes) (O.onePass st ts outs bb rem h.orig hs)
    retry := fun st ts outs bb h hs => ok_of_inv h (I.retry st ts outs bb h.scopes) (O.retry st ts outs bb h.orig hs)
    processNodes := fun st ks h hs => ok_of_inv h (I.processNodes st ks h.scopes) (O.processNodes st ks h.orig hs) }

/-! ## (A) fuel robustness -/


theorem nf_seq_left {α β : Type} {x : St ρ × Except CErr α} {g : St ρ → α → St ρ × Except CErr β}
    (hnf : NF (seq x g)) : NF x := by
  intro h
  apply hnf
  unfold seq
  rw [h]

/-- `seq` is compatible with fuel robustness of its two parts -/
theorem seq_mono {α β : Type} {x x' : St ρ × Except CErr α} {g g' : St ρ → α → St ρ × Except CErr β}
    (hnf : NF (seq x g)) (hx : NF x → x' = x)
    (hg : ∀ a, x.2 = .ok a → NF (g x.1 a) → g' x.1 a = g x.1 a) : seq x' g' = seq x g := by
  rw [hx (nf_seq_left hnf)]
  unfold seq at hnf ⊢
  split
  · rfl
  · rename_i a ha
    rw [ha] at hnf
    exact hg a ha hnf

theorem clipPost_fuel (ev : Evalr ρ) (e : Elem) (x : St ρ × Res) (h : x.2 = .error .fuel) :
    (clipPost ev e x).2 = .error .fuel := by
  unfold clipPost
  rw [h]
  exact h

theorem nf_popAfter {α : Type} {x : St ρ × Except CErr α} (h : NF (popAfter x)) : NF x := h

theorem specsFree_kids' {e : Elem} {ks : Nodes} {tail : Option Str}
    (h : (Node.elem e (some ks) tail).specsFree = true) : ks.specsFree = true := by
  simp only [Node.specsFree, Bool.and_eq_true] at h
  exact h.2


section step
variable (ev : Evalr ρ) (fuel : Nat) (ih : AllMono ev fuel)
include ih

theorem genElem_mstep (st : St ρ) e kids f' (hf : fuel + 1 ≤ f') (hok : Ok st)
    (hs : (Node.elem e kids none).specsFree = true) (hnf : NF (Ctl.genElem ev (fuel + 1) st e kids)) :
    Ctl.genElem ev f' st e kids = Ctl.genElem ev (fuel + 1) st e kids := by
  obtain ⟨f0, rfl⟩ : ∃ f0, f' = f0 + 1 := ⟨f' - 1, by omega⟩
  rw [Ctl.genElem] at hnf
  rw [Ctl.genElem, Ctl.genElem]
  by_cases hd : st.depth + 1 > st.cfg.depthLimit
  · simp only [hd, if_true]
  · simp only [hd, if_false] at hnf ⊢
    have hsub := ih.dispatch { st with depth := st.depth + 1 } e kids f0 (by omega)
      (ok_of_fields hok rfl rfl rfl) hs (fun h => hnf (clipPost_fuel _ _ _ h))
    rw [hsub]

theorem dispatch_mstep (st : St ρ) e kids f' (hf : fuel + 1 ≤ f') (hok : Ok st)
    (hs : (Node.elem e kids none).specsFree = true) (hnf : NF (Ctl.dispatch ev (fuel + 1) st e kids)) :
    Ctl.dispatch ev f' st e kids = Ctl.dispatch ev (fuel + 1) st e kids := by
  obtain ⟨f0, rfl⟩ : ∃ f0, f' = f0 + 1 := ⟨f' - 1, by omega⟩
  have hf0 : fuel ≤ f0 := by omega
  unfold Ctl.dispatch at hnf ⊢
  dsimp only at hnf ⊢
  by_cases h1 : (e.name == cs!"loop") = true
  · simp only [h1, if_true] at hnf ⊢
    exact ih.genLoop st e kids f0 hf0 hok hs hnf
  simp only [h1, Bool.false_eq_true, if_false] at hnf ⊢
  by_cases h2 : (e.name == cs!"config") = true
  · simp only [h2, if_true]
  simp only [h2, Bool.false_eq_true, if_false] at hnf ⊢
  by_cases h3 : (e.name == cs!"reuse") = true
  · simp only [h3, if_true] at hnf ⊢
    exact ih.genReuse st e f0 hf0 hok hnf
  simp only [h3, Bool.false_eq_true, if_false] at hnf ⊢
  by_cases h4 : (e.name == cs!"specs") = true
  · simp only [h4, if_true] at hnf ⊢
    cases kids with
    | some ks =>
      simp only [Node.specsFree, Bool.and_eq_true, bne_iff_ne, ne_eq] at hs
      exact absurd (by simpa using h4) hs.1
    | none => exact ih.genSpecs st f0 hf0 hnf
  simp only [h4, Bool.false_eq_true, if_false] at hnf ⊢
  by_cases h5 : (e.name == cs!"var") = true
  · simp only [h5, if_true]
  simp only [h5, Bool.false_eq_true, if_false] at hnf ⊢
  by_cases h6 : (e.name == cs!"if") = true
  · simp only [h6, if_true] at hnf ⊢
    exact ih.genIf st e kids f0 hf0 hok hs hnf
  simp only [h6, Bool.false_eq_true, if_false] at hnf ⊢
  by_cases h7 : (e.name == cs!"defaults") = true
  · simp only [h7, if_true]
  simp only [h7, Bool.false_eq_true, if_false] at hnf ⊢
  by_cases h8 : (e.name == cs!"for") = true
  · simp only [h8, if_true] at hnf ⊢
    exact ih.genFor st e kids f0 hf0 hok hs hnf
  simp only [h8, Bool.false_eq_true, if_false] at hnf ⊢
  by_cases h9 : (e.name == ['g'] || e.name == cs!"symbol") = true
  · simp only [h9, if_true] at hnf ⊢
    exact ih.genGroup st e kids f0 hf0 hok hs hnf
  simp only [h9, Bool.false_eq_true, if_false] at hnf ⊢
  cases kids with
  | some ks => exact ih.genContainer st e ks f0 hf0 hok hs hnf
  | none => rfl

omit ih in
theorem genSpecs_mstep (st : St ρ) f' (hf : fuel + 1 ≤ f') (_hnf : NF (Ctl.genSpecs ev (fuel + 1) st none)) :
    Ctl.genSpecs ev f' st none = Ctl.genSpecs ev (fuel + 1) st none := by
  obtain ⟨f0, rfl⟩ : ∃ f0, f' = f0 + 1 := ⟨f' - 1, by omega⟩
  unfold Ctl.genSpecs
  rfl

theorem genReuse_mstep (st : St ρ) e f' (hf : fuel + 1 ≤ f') (hok : Ok st)
    (hnf : NF (Ctl.genReuse ev (fuel + 1) st e)) :
    Ctl.genReuse ev f' st e = Ctl.genReuse ev (fuel + 1) st e := by
  obtain ⟨f0, rfl⟩ : ∃ f0, f' = f0 + 1 := ⟨f' - 1, by omega⟩
  have hf0 : fuel ≤ f0 := by omega
  unfold Ctl.genReuse at hnf ⊢
  refine seq_mono hnf (fun _ => rfl) ?_
  intro re hre hnf1
  have hnf2 := nf_popAfter hnf1
  unfold popAfter
  rw [seq_mono hnf2 (fun _ => rfl) ?_]
  intro ik hik hnf3
  have hok1 := ok_pushElement _ re (ok_withRng st (evalAttributes ev st e) hok)
  have hok2 := ok_reusePrepare ev _ re hok1
  have hsf := reusePrepare_specsFree ev _ re ik hok1 hik
  cases hk : ik.2 with
  | some ks =>
    rw [hk] at hsf
    simp only [hk] at hnf3 ⊢
    exact ih.processNodes _ _ f0 hf0 hok2 (by simp [Nodes.specsFree, hsf]) hnf3
  | none =>
    simp only [hk] at hnf3 ⊢
    exact ih.genElem _ _ _ f0 hf0 hok2 rfl hnf3

theorem genIf_mstep (st : St ρ) e kids f' (hf : fuel + 1 ≤ f') (hok : Ok st)
    (hs : (Node.elem e kids none).specsFree = true) (hnf : NF (Ctl.genIf ev (fuel + 1) st e kids)) :
    Ctl.genIf ev f' st e kids = Ctl.genIf ev (fuel + 1) st e kids := by
  obtain ⟨f0, rfl⟩ : ∃ f0, f' = f0 + 1 := ⟨f' - 1, by omega⟩
  have hf0 : fuel ≤ f0 := by omega
  revert hnf
  unfold Ctl.genIf
  split
  · intro _; rfl
  · split
    · rename_i ks
      intro hnf
      refine seq_mono hnf (fun _ => rfl) ?_
      intro b hb hnf1
      cases b with
      | false => rfl
      | true =>
        simp only [if_true] at hnf1 ⊢
        exact ih.processNodes _ ks f0 hf0 (ok_withRng st _ hok) (specsFree_kids' hs) hnf1
    · intro _; rfl

theorem genContainer_mstep (st : St ρ) e ks f' (hf : fuel + 1 ≤ f') (hok : Ok st)
    (hs : (Node.elem e (some ks) none).specsFree = true) (hnf : NF (Ctl.genContainer ev (fuel + 1) st e ks)) :
    Ctl.genContainer ev f' st e ks = Ctl.genContainer ev (fuel + 1) st e ks := by
  obtain ⟨f0, rfl⟩ : ∃ f0, f' = f0 + 1 := ⟨f' - 1, by omega⟩
  have hf0 : fuel ≤ f0 := by omega
  revert hnf
  unfold Ctl.genContainer
  split
  · split
    · intro _; rfl
    · intro hnf
      have hsub := fun x => ih.genElem { st with depth := st.depth - 1 } x none f0 hf0
        (ok_of_fields hok rfl rfl rfl) rfl
      dsimp only at hnf ⊢
      rw [hsub _ (fun h => hnf h)]
  · split
    · intro _; rfl
    · intro hnf
      refine seq_mono hnf (fun _ => rfl) ?_
      intro ne hne hnf1
      refine seq_mono hnf1 ?_ (fun _ _ _ => rfl)
      intro hnf2
      split
      · rfl
      · rename_i hin
        simp only [hin] at hnf2
        exact ih.processNodes _ ks f0 hf0 (ok_withRng st _ hok) (specsFree_kids' hs) hnf2

theorem genGroup_mstep (st : St ρ) e kids f' (hf : fuel + 1 ≤ f') (hok : Ok st)
    (hs : (Node.elem e kids none).specsFree = true) (hnf : NF (Ctl.genGroup ev (fuel + 1) st e kids)) :
    Ctl.genGroup ev f' st e kids = Ctl.genGroup ev (fuel + 1) st e kids := by
  obtain ⟨f0, rfl⟩ : ∃ f0, f' = f0 + 1 := ⟨f' - 1, by omega⟩
  have hf0 : fuel ≤ f0 := by omega
  unfold Ctl.genGroup at hnf ⊢
  refine seq_mono hnf (fun _ => rfl) ?_
  intro ne hne hnf1
  refine seq_mono hnf1 ?_ (fun _ _ _ => rfl)
  intro hnf2
  cases kids with
  | none => rfl
  | some ks =>
    have hnf3 := nf_popAfter hnf2
    dsimp only at hnf3 ⊢
    unfold popAfter
    rw [seq_mono hnf3 (fun h => ih.processNodes _ ks f0 hf0
      (ok_pushElement _ e (ok_withRng st _ hok)) (specsFree_kids' hs) h) (fun _ _ _ => rfl)]

theorem genLoop_mstep (st : St ρ) e kids f' (hf : fuel + 1 ≤ f') (hok : Ok st)
    (hs : (Node.elem e kids none).specsFree = true) (hnf : NF (Ctl.genLoop ev (fuel + 1) st e kids)) :
    Ctl.genLoop ev f' st e kids = Ctl.genLoop ev (fuel + 1) st e kids := by
  obtain ⟨f0, rfl⟩ : ∃ f0, f' = f0 + 1 := ⟨f' - 1, by omega⟩
  have hf0 : fuel ≤ f0 := by omega
  revert hnf
  unfold Ctl.genLoop
  dsimp only
  split
  · split
    · intro _; rfl
    · intro hnf
      exact ih.loopIter _ _ _ _ _ _ _ _ _ _ _ f0 hf0 (ok_of_fields hok rfl rfl rfl) (specsFree_kids' hs) hnf
  · intro _; rfl

theorem loopIter_mstep (st : St ρ) ks c w u n v s i acc bb f' (hf : fuel + 1 ≤ f') (hok : Ok st)
    (hs : ks.specsFree = true) (hnf : NF (Ctl.loopIter ev (fuel + 1) st ks c w u n v s i acc bb)) :
    Ctl.loopIter ev f' st ks c w u n v s i acc bb = Ctl.loopIter ev (fuel + 1) st ks c w u n v s i acc bb := by
  obtain ⟨f0, rfl⟩ : ∃ f0, f' = f0 + 1 := ⟨f' - 1, by omega⟩
  have hf0 : fuel ≤ f0 := by omega
  unfold Ctl.loopIter at hnf ⊢
  refine seq_mono hnf (fun _ => rfl) ?_
  intro go hgo hnf1
  cases go with
  | false => rfl
  | true =>
    simp only [Bool.not_true, Bool.false_eq_true, if_false] at hnf1 ⊢
    have hok1 := ok_bindLoopVar _ n v (ok_preTest ev st c w i hok)
    refine seq_mono hnf1 (fun h => ih.processNodes _ ks f0 hf0 hok1 hs h) ?_
    intro r hr hnf2
    have hok2 := (allOk ev fuel).processNodes _ ks hok1 hs
    split
    · rfl
    · rename_i hlim
      simp only [hlim, if_false] at hnf2
      refine seq_mono hnf2 (fun _ => rfl) ?_
      intro stop hstop hnf3
      cases stop with
      | true => rfl
      | false =>
        simp only [Bool.false_eq_true, if_false] at hnf3 ⊢
        exact ih.loopIter _ _ _ _ _ _ _ _ _ _ _ f0 hf0 (ok_postTest ev _ u hok2) hs hnf3

theorem genFor_mstep (st : St ρ) e kids f' (hf : fuel + 1 ≤ f') (hok : Ok st)
    (hs : (Node.elem e kids none).specsFree = true) (hnf : NF (Ctl.genFor ev (fuel + 1) st e kids)) :
    Ctl.genFor ev f' st e kids = Ctl.genFor ev (fuel + 1) st e kids := by
  obtain ⟨f0, rfl⟩ : ∃ f0, f' = f0 + 1 := ⟨f' - 1, by omega⟩
  have hf0 : fuel ≤ f0 := by omega
  revert hnf
  unfold Ctl.genFor
  split
  · intro hnf
    refine seq_mono hnf (fun _ => rfl) ?_
    intro items hitems hnf1
    exact ih.forIter _ _ _ _ _ _ _ _ f0 hf0 (ok_withRng st _ hok) (specsFree_kids' hs) hnf1
  · intro _; rfl

theorem forIter_mstep (st : St ρ) ks v iv items idx acc bb f' (hf : fuel + 1 ≤ f') (hok : Ok st)
    (hs : ks.specsFree = true) (hnf : NF (Ctl.forIter ev (fuel + 1) st ks v iv items idx acc bb)) :
    Ctl.forIter ev f' st ks v iv items idx acc bb = Ctl.forIter ev (fuel + 1) st ks v iv items idx acc bb := by
  obtain ⟨f0, rfl⟩ : ∃ f0, f' = f0 + 1 := ⟨f' - 1, by omega⟩
  have hf0 : fuel ≤ f0 := by omega
  cases items with
  | nil => unfold Ctl.forIter; rfl
  | cons item items =>
    unfold Ctl.forIter at hnf ⊢
    have hok1 := ok_bindForVars st v iv item idx hok
    refine seq_mono hnf (fun h => ih.processNodes _ ks f0 hf0 hok1 hs h) ?_
    intro r hr hnf1
    have hok2 := (allOk ev fuel).processNodes _ ks hok1 hs
    split
    · rfl
    · rename_i hlim
      simp only [hlim, if_false] at hnf1
      exact ih.forIter _ _ _ _ _ _ _ _ f0 hf0 hok2 hs hnf1

theorem genNode_mstep (st : St ρ) n f' (hf : fuel + 1 ≤ f') (hok : Ok st)
    (hs : n.specsFree = true) (hnf : NF (Ctl.genNode ev (fuel + 1) st n)) :
    Ctl.genNode ev f' st n = Ctl.genNode ev (fuel + 1) st n := by
  obtain ⟨f0, rfl⟩ : ∃ f0, f' = f0 + 1 := ⟨f' - 1, by omega⟩
  have hf0 : fuel ≤ f0 := by omega
  cases n with
  | elem e kids tail =>
    unfold Ctl.genNode at hnf ⊢
    have hs' : (Node.elem e kids none).specsFree = true := by
      rw [specsFree_tail e kids none tail]; exact hs
    exact seq_mono hnf (fun h => ih.genElem st e kids f0 hf0 hok hs' h) (fun _ _ _ => rfl)
  | comment c tail => unfold Ctl.genNode; rfl
  | text t => unfold Ctl.genNode; rfl
  | cdata c => unfold Ctl.genNode; rfl

theorem onePass_mstep (st : St ρ) ts outs bb rem f' (hf : fuel + 1 ≤ f') (hok : Ok st)
    (hs : ∀ t ∈ ts, t.node.specsFree = true) (hnf : NF (Ctl.onePass ev (fuel + 1) st ts outs bb rem)) :
    Ctl.onePass ev f' st ts outs bb rem = Ctl.onePass ev (fuel + 1) st ts outs bb rem := by
  obtain ⟨f0, rfl⟩ : ∃ f0, f' = f0 + 1 := ⟨f' - 1, by omega⟩
  have hf0 : fuel ≤ f0 := by omega
  cases ts with
  | nil => unfold Ctl.onePass; rfl
  | cons t ts =>
    have hst : t.node.specsFree = true := hs t List.mem_cons_self
    have hsts : ∀ x ∈ ts, x.node.specsFree = true := fun x hx => hs x (List.mem_cons_of_mem _ hx)
    have hok1 := ok_registerEarly ev st t.node hok hst
    have hok2 := (allOk ev fuel).genNode _ t.node hok1 hst
    unfold Ctl.onePass at hnf ⊢
    dsimp only at hnf ⊢
    have hsub : Ctl.genNode ev f0 (registerEarly ev st t.node) t.node =
        Ctl.genNode ev fuel (registerEarly ev st t.node) t.node := by
      refine ih.genNode _ t.node f0 hf0 hok1 hst ?_
      intro h
      apply hnf
      simp only [hok2.inSpecs, Bool.false_eq_true, if_false, h]
      rfl
    rw [hsub]
    generalize Ctl.genNode ev fuel (registerEarly ev st t.node) t.node = r at hnf hok2 ⊢
    obtain ⟨s1, res⟩ := r
    have hsp : s1.inSpecs = false := hok2.inSpecs
    replace hok2 : Ok s1 := hok2
    simp only [hsp, Bool.false_eq_true, if_false] at hnf ⊢
    cases res with
    | ok a =>
      obtain ⟨evs, b⟩ := a
      exact ih.onePass _ _ _ _ _ f0 hf0 hok2 hsts hnf
    | error er =>
      dsimp only at hnf ⊢
      split
      · rfl
      · rename_i her
        simp only [her] at hnf
        exact ih.onePass _ _ _ _ _ f0 hf0 hok2 hsts hnf

theorem retry_mstep (st : St ρ) ts outs bb f' (hf : fuel + 1 ≤ f') (hok : Ok st)
    (hs : ∀ t ∈ ts, t.node.specsFree = true) (hnf : NF (Ctl.retry ev (fuel + 1) st ts outs bb)) :
    Ctl.retry ev f' st ts outs bb = Ctl.retry ev (fuel + 1) st ts outs bb := by
  obtain ⟨f0, rfl⟩ : ∃ f0, f' = f0 + 1 := ⟨f' - 1, by omega⟩
  have hf0 : fuel ≤ f0 := by omega
  cases ts with
  | nil => unfold Ctl.retry; rfl
  | cons t ts =>
    unfold Ctl.retry at hnf ⊢
    refine seq_mono hnf (fun h => ih.onePass st _ _ _ _ f0 hf0 hok hs h) ?_
    intro r hr hnf1
    have hok1 := (allOk ev fuel).onePass st (t :: ts) outs bb [] hok hs
    have hpend : ∀ x ∈ r.2.2, x.node.specsFree = true :=
      onePass_remain ev (fun t => t.node.specsFree = true) (fun _ _ h => h) fuel st (t :: ts) outs bb [] hs
        (fun _ h => by cases h) r hr
    split
    · rfl
    rename_i hgen
    simp only [hgen] at hnf1
    split
    · rename_i hlen
      simp only [hlen, if_true] at hnf1
      split
      · rfl
      · rename_i hel
        simp only [hel] at hnf1
        split
        · rfl
        · rename_i hidle
          simp only [hidle, if_false] at hnf1
          exact ih.retry _ _ _ _ f0 hf0 (ok_of_fields hok1 rfl rfl rfl) hpend hnf1
    · rename_i hlen
      simp only [hlen] at hnf1
      exact ih.retry _ _ _ _ f0 hf0 hok1 hpend hnf1

theorem processNodes_mstep (st : St ρ) ks f' (hf : fuel + 1 ≤ f') (hok : Ok st)
    (hs : ks.specsFree = true) (hnf : NF (Ctl.processNodes ev (fuel + 1) st ks)) :
    Ctl.processNodes ev f' st ks = Ctl.processNodes ev (fuel + 1) st ks := by
  obtain ⟨f0, rfl⟩ : ∃ f0, f' = f0 + 1 := ⟨f' - 1, by omega⟩
  have hf0 : fuel ≤ f0 := by omega
  unfold Ctl.processNodes at hnf ⊢
  exact seq_mono hnf (fun h => ih.retry st _ _ _ f0 hf0 hok (specsFree_tags ks hs) h) (fun _ _ _ => rfl)

end step

theorem allMono_zero (ev : Evalr ρ) : AllMono ev 0 := by
  constructor <;> intros <;> rename_i h <;> exfalso <;> apply h <;>
    simp only [Ctl.genElem, Ctl.dispatch, Ctl.genSpecs, Ctl.genReuse, Ctl.genIf, Ctl.genContainer,
      Ctl.genGroup, Ctl.genLoop, Ctl.loopIter, Ctl.genFor, Ctl.forIter, Ctl.genNode, Ctl.onePass, Ctl.retry,
      Ctl.processNodes]

/-- **(A) fuel robustness, all 15 functions**: on `Ok` states and specs-free trees, a result that is not the fuel
    error is the result for every larger fuel (same state, same value) -/
theorem allMono (ev : Evalr ρ) : ∀ fuel, AllMono ev fuel
  | 0 => allMono_zero ev
  | fuel + 1 =>
    let ih := allMono ev fuel
    { genElem := genElem_mstep ev fuel ih
      dispatch := dispatch_mstep ev fuel ih
      genSpecs := genSpecs_mstep ev fuel
      genReuse := genReuse_mstep ev fuel ih
      genIf := genIf_mstep ev fuel ih
      genContainer := genContainer_mstep ev fuel ih
      genGroup := genGroup_mstep ev fuel ih
      genLoop := genLoop_mstep ev fuel ih
      loopIter := loopIter_mstep ev fuel ih
      genFor := genFor_mstep ev fuel ih
      forIter := forIter_mstep ev fuel ih
      genNode := genNode_mstep ev fuel ih
      onePass := onePass_mstep ev fuel ih
      retry := retry_mstep ev fuel ih
      processNodes := processNodes_mstep ev fuel ih }

/-- (A) for the entry point, in plain form: once `processNodes` does not run out of fuel, more fuel changes nothing -/
theorem processNodes_fuel_robust (ev : Evalr ρ) (f f' : Nat) (st : St ρ) (ks : Nodes) (h : f ≤ f') (hok : Ok st)
    (hks : ks.specsFree = true) (hnf : NF (processNodes ev f st ks)) :
    processNodes ev f' st ks = processNodes ev f st ks :=
  (allMono ev f).processNodes st ks f' h hok hks hnf

/-! ## (B) the unrolling theorem -/

open Gen Props

/-! ### definitions -/

def varNode (name : Str) (v : Rat) : Node :=
  .elem { name := cs!"var", attrs := [(name, loopVarStr v)] } none none

def loopVals (start step : Rat) : Nat → List Rat
  | 0 => []
  | n + 1 => start :: loopVals (start + step) step n

def unroll (name : Str) (vals : List Rat) (ks : Nodes) : Nodes :=
  Nodes.ofList (vals.flatMap fun v => varNode name v :: ks.toList)

/-- the tags `processNodes` makes -/
def tagsOf (ks : Nodes) : List Tag := ks.toList.zipIdx.map fun (n, i) => ({ idx := i, node := n } : Tag)

def LitEval (ev : Evalr ρ) (vals : List Rat) : Prop :=
  ∀ v ∈ vals, ∀ geo env rng, ev.evalAttr geo env rng (loopVarStr v) = .ok (loopVarStr v, rng)

/-- in each of the `n` remaining passes (pass number `it`, value `v`, state `st` at its start) every tag of the body
    succeeds at its FIRST attempt (one `onePass`, at some fuel `g`, leaves nothing pending), no limit is hit -/
def FirstTryLoop (ev : Evalr ρ) (name : Str) (step : Rat) (ks : Nodes) : Nat → St ρ → Rat → Nat → Prop
  | 0, _, _, _ => True
  | n + 1, st, v, it =>
    st.depth + 1 ≤ st.cfg.depthLimit ∧ (String.ofList (loopVarStr v)).utf8ByteSize ≤ st.cfg.varLimit ∧
    ∃ g st' outs bb, onePass ev g (bindLoopVar st name v) (tagsOf ks) [] none [] = (st', .ok (outs, bb, [])) ∧
      it + 1 ≤ st'.cfg.loopLimit ∧ FirstTryLoop ev name step ks n st' (v + step) (it + 1)

/-! ### small facts -/

theorem unionOpt_none_right (a : Option BoundingBox) : unionOpt a none = a := by
  cases a <;> rfl

theorem toList_ofList (l : List Node) : (Nodes.ofList l).toList = l := by
  induction l with
  | nil => rfl
  | cons n r ih => simp [Nodes.ofList, Nodes.toList, ih]

theorem specsFree_iff : ∀ (ks : Nodes), ks.specsFree = true ↔ ∀ n ∈ ks.toList, n.specsFree = true
  | .nil => by simp [Nodes.specsFree, Nodes.toList]
  | .cons n r => by simp [Nodes.specsFree, Nodes.toList, specsFree_iff r]

/-! ### two fuels that both avoid the fuel error agree -/

theorem genNode_agree (ev : Evalr ρ) (f g : Nat) (st : St ρ) (n : Node) (hok : Ok st) (hn : n.specsFree = true)
    (hf : NF (genNode ev f st n)) (hg : NF (genNode ev g st n)) : genNode ev f st n = genNode ev g st n := by
  rcases Nat.le_total f g with h | h
  · exact ((allMono ev f).genNode st n g h hok hn hf).symm
  · exact (allMono ev g).genNode st n f h hok hn hg

theorem NF_of_ok {α : Type} {x : St ρ × Except CErr α} {s : St ρ} {a : α} (h : x = (s, .ok a)) : NF x := by
  subst h; simp [NF]

/-! ### the fuel-free first-try relation -/

inductive FT (ev : Evalr ρ) : St ρ → List Node → St ρ → List Ev → Option BoundingBox → Prop
  | nil (st : St ρ) : FT ev st [] st [] none
  | cons {g : Nat} {st : St ρ} {n : Node} {s1 : St ρ} {evs : List Ev} {b : Option BoundingBox} {ns : List Node}
      {s2 : St ρ} {evs' : List Ev} {bb : Option BoundingBox} :
      genNode ev g (registerEarly ev st n) n = (s1, .ok (evs, b)) → FT ev s1 ns s2 evs' bb →
      FT ev st (n :: ns) s2 (evs ++ evs') (unionOpt b bb)

theorem FT.cast {ev : Evalr ρ} {st s2 : St ρ} {ns ns' : List Node} {evs evs' : List Ev} {b b' : Option BoundingBox}
    (h : FT ev st ns s2 evs b) (h1 : ns' = ns) (h2 : evs' = evs) (h3 : b' = b) : FT ev st ns' s2 evs' b' := by
  subst h1 h2 h3; exact h

theorem FT_append {ev : Evalr ρ} {st s1 s2 : St ρ} {ns ms : List Node} {e1 e2 : List Ev} {b1 b2 : Option BoundingBox}
    (h1 : FT ev st ns s1 e1 b1) (h2 : FT ev s1 ms s2 e2 b2) :
    FT ev st (ns ++ ms) s2 (e1 ++ e2) (unionOpt b1 b2) := by
  induction h1 with
  | nil st => exact h2.cast (by simp) (by simp) (C16.unionOpt_none_left _)
  | cons hg _ ih =>
    exact (FT.cons hg (ih h2)).cast (by simp) (by simp) (C16.unionOpt_assoc _ _ _)

/-- `Ok` is carried along a first-try run -/
theorem FT_ok {ev : Evalr ρ} {st s2 : St ρ} {ns : List Node} {evs : List Ev} {b : Option BoundingBox}
    (h : FT ev st ns s2 evs b) (hok : Ok st) (hns : ∀ n ∈ ns, n.specsFree = true) : Ok s2 := by
  induction h with
  | nil st => exact hok
  | @cons g st n s1 evs b ns s2 evs' bb hg _ ih =>
    have h1 : Ok (registerEarly ev st n) := ok_registerEarly ev st n hok (hns n (by simp))
    have h2 := (allOk ev g).genNode _ n h1 (hns n (by simp))
    rw [hg] at h2
    exact ih h2 (fun m hm => hns m (by simp [hm]))

/-! ### the pending list only grows -/

theorem onePass_rem_len (ev : Evalr ρ) : ∀ (f : Nat) (ts : List Tag) (st : St ρ) (outs : List (Nat × List Ev))
    (bb : Option BoundingBox) (rem : List Tag) (s : St ρ) (o : List (Nat × List Ev)) (b : Option BoundingBox)
    (rem' : List Tag), onePass ev f st ts outs bb rem = (s, .ok (o, b, rem')) → rem.length ≤ rem'.length := by
  intro f
  induction f with
  | zero => intro ts st outs bb rem s o b rem' h; simp [onePass] at h
  | succ f ih =>
    intro ts st outs bb rem s o b rem' h
    cases ts with
    | nil =>
      simp only [onePass, Prod.mk.injEq, Except.ok.injEq] at h
      rw [← h.2.2.2]; simp
    | cons t ts =>
      rw [onePass] at h
      split at h
      · exact ih _ _ _ _ _ _ _ _ _ h
      · split at h
        · exact ih _ _ _ _ _ _ _ _ _ h
        · split at h
          · simp at h
          · have := ih _ _ _ _ _ _ _ _ _ h
            simp at this; omega

/-- the entry `onePass` appends for a tag that produced `evs` -/
def outOf (idx : Nat) (evs : List Ev) : List (Nat × List Ev) := if evs.isEmpty then [] else [(idx, evs)]

theorem outOf_append (outs : List (Nat × List Ev)) (idx : Nat) (evs : List Ev) :
    (if evs.isEmpty then outs else outs ++ [(idx, evs)]) = outs ++ outOf idx evs := by
  unfold outOf; split <;> simp

theorem outOf_flat (idx : Nat) (evs : List Ev) : (outOf idx evs).flatMap (·.2) = evs := by
  unfold outOf; cases evs <;> simp

theorem outOf_sub (idx : Nat) (evs : List Ev) : ((outOf idx evs).map (·.1)).Sublist [idx] := by
  unfold outOf; split <;> simp

/-! ### from a successful `onePass` to the relation -/

theorem FT_of_onePass (ev : Evalr ρ) : ∀ (ts : List Tag) (g : Nat) (st : St ρ) (outs : List (Nat × List Ev))
    (bb : Option BoundingBox) (st' : St ρ) (outs' : List (Nat × List Ev)) (bb' : Option BoundingBox),
    Ok st → (∀ t ∈ ts, t.node.specsFree = true) →
    onePass ev g st ts outs bb [] = (st', .ok (outs', bb', [])) →
    ∃ evs b, FT ev st (ts.map (·.node)) st' evs b ∧ bb' = unionOpt bb b ∧
      ∃ outs₁, outs' = outs ++ outs₁ ∧ outs₁.flatMap (·.2) = evs := by
  intro ts
  induction ts with
  | nil =>
    intro g st outs bb st' outs' bb' _ _ h
    cases g with
    | zero => simp [onePass] at h
    | succ g =>
      simp only [onePass, Prod.mk.injEq, Except.ok.injEq] at h
      obtain ⟨rfl, rfl, rfl, _⟩ := h
      exact ⟨[], none, FT.nil _, (unionOpt_none_right _).symm, [], by simp, by simp⟩
  | cons t ts ih =>
    intro g st outs bb st' outs' bb' hok hts h
    cases g with
    | zero => simp [onePass] at h
    | succ g =>
      have hn : t.node.specsFree = true := hts t (by simp)
      have h1 : Ok (registerEarly ev st t.node) := ok_registerEarly ev st _ hok hn
      have h2 : Ok (genNode ev g (registerEarly ev st t.node) t.node).1 := (allOk ev g).genNode _ _ h1 hn
      rw [onePass] at h
      rw [if_neg (by rw [h2.inSpecs]; simp)] at h
      cases hr : (genNode ev g (registerEarly ev st t.node) t.node).2 with
      | error er =>
        rw [hr] at h
        dsimp only at h
        split at h
        · simp at h
        · have := onePass_rem_len ev _ _ _ _ _ _ _ _ _ _ h
          simp at this
      | ok r =>
        obtain ⟨evs, b⟩ := r
        rw [hr] at h
        dsimp only at h
        rw [outOf_append] at h
        obtain ⟨evs', b', hft, hbb, outs₁, ho, hfl⟩ :=
          ih g _ _ _ st' outs' bb' h2 (fun t' ht' => hts t' (by simp [ht'])) h
        have hg : genNode ev g (registerEarly ev st t.node) t.node
            = ((genNode ev g (registerEarly ev st t.node) t.node).1, .ok (evs, b)) := by
          rw [← hr]
        refine ⟨evs ++ evs', unionOpt b b', ?_, ?_, outOf t.idx evs ++ outs₁, ?_, ?_⟩
        · exact FT.cons hg hft
        · rw [hbb, C16.unionOpt_assoc]
        · rw [ho, List.append_assoc]
        · rw [List.flatMap_append, outOf_flat, hfl]

/-! ### from the relation to `onePass` at any fuel that does not report the fuel error -/

theorem onePass_of_FT {ev : Evalr ρ} {st st' : St ρ} {ns : List Node} {evs : List Ev} {b : Option BoundingBox}
    (hft : FT ev st ns st' evs b) : ∀ (ts : List Tag) (F : Nat) (outs : List (Nat × List Ev))
    (bb : Option BoundingBox) (rem : List Tag), ts.map (·.node) = ns → Ok st → (∀ n ∈ ns, n.specsFree = true) →
    NF (onePass ev F st ts outs bb rem) →
    ∃ outs₁, onePass ev F st ts outs bb rem = (st', .ok (outs ++ outs₁, unionOpt bb b, rem.reverse)) ∧
      outs₁.flatMap (·.2) = evs ∧ (outs₁.map (·.1)).Sublist (ts.map (·.idx)) := by
  induction hft with
  | nil st =>
    intro ts F outs bb rem hts _ _ hnf
    have : ts = [] := by simpa using hts
    subst this
    cases F with
    | zero => simp [onePass, NF] at hnf
    | succ F => exact ⟨[], by simp [onePass, unionOpt_none_right], by simp, by simp⟩
  | @cons g st n s1 evs b ns s2 evs' b' hg _ ih =>
    intro ts F outs bb rem hts hok hns hnf
    cases ts with
    | nil => simp at hts
    | cons t ts =>
      simp only [List.map_cons, List.cons.injEq] at hts
      obtain ⟨rfl, hts⟩ := hts
      cases F with
      | zero => simp [onePass, NF] at hnf
      | succ F =>
        have hn : t.node.specsFree = true := hns _ (by simp)
        have h1 : Ok (registerEarly ev st t.node) := ok_registerEarly ev st _ hok hn
        have h2 : Ok (genNode ev F (registerEarly ev st t.node) t.node).1 := (allOk ev F).genNode _ _ h1 hn
        have hnfF : NF (genNode ev F (registerEarly ev st t.node) t.node) := by
          intro hfu
          apply hnf
          rw [onePass, if_neg (by rw [h2.inSpecs]; simp), hfu]
          simp
        have hgF : genNode ev F (registerEarly ev st t.node) t.node = (s1, .ok (evs, b)) := by
          rw [genNode_agree ev F g _ _ h1 hn hnfF (NF_of_ok hg), hg]
        have hs1 : Ok s1 := by rw [hgF] at h2; exact h2
        have hstep : onePass ev (F + 1) st (t :: ts) outs bb rem
            = onePass ev F s1 ts (outs ++ outOf t.idx evs) (unionOpt bb b) rem := by
          rw [onePass, hgF, if_neg (by rw [hs1.inSpecs]; simp)]
          dsimp only
          rw [outOf_append]
        rw [hstep] at hnf ⊢
        obtain ⟨outs₁, he, hfl, hsub⟩ := ih ts F _ _ rem hts hs1 (fun m hm => hns m (by simp [hm])) hnf
        refine ⟨outOf t.idx evs ++ outs₁, ?_, ?_, ?_⟩
        · rw [he, List.append_assoc, C16.unionOpt_assoc]
        · rw [List.flatMap_append, outOf_flat, hfl]
        · rw [List.map_append, List.map_cons]
          exact (outOf_sub t.idx evs).append hsub

/-! ### `sortOuts` on a list already in document order -/

theorem partition_all {α : Type} (p : α → Bool) (l : List α) (h : ∀ x ∈ l, p x = true) : l.partition p = (l, []) := by
  rw [List.partition_eq_filter_filter]
  simp only [Prod.mk.injEq, List.filter_eq_self, List.filter_eq_nil_iff]
  exact ⟨h, fun x hx => by simp [h x hx]⟩

theorem sortOuts_fold (l : List (Nat × List Ev)) : ∀ (acc : List (Nat × List Ev)),
    (∀ p ∈ acc, ∀ q ∈ l, p.1 ≤ q.1) → l.Pairwise (fun p q => p.1 ≤ q.1) →
    l.foldl (fun (acc : List (Nat × List Ev)) (o : Nat × List Ev) =>
      let (lo, hi) := acc.partition (fun p => p.1 ≤ o.1)
      lo ++ [o] ++ hi) acc = acc ++ l := by
  induction l with
  | nil => intro acc _ _; simp
  | cons o l ih =>
    intro acc hacc hp
    rw [List.foldl_cons]
    have hpart : acc.partition (fun p => decide (p.1 ≤ o.1)) = (acc, []) :=
      partition_all _ _ (fun x hx => by simpa using hacc x hx o (by simp))
    simp only [hpart, List.append_nil]
    rw [List.pairwise_cons] at hp
    rw [ih (acc ++ [o]) ?_ hp.2]
    · simp
    · intro p hp' q hq
      rcases List.mem_append.1 hp' with h | h
      · exact hacc p h q (by simp [hq])
      · have : p = o := by simpa using h
        subst this; exact hp.1 q hq

theorem sortOuts_sorted (l : List (Nat × List Ev)) (h : l.Pairwise (fun p q => p.1 ≤ q.1)) : sortOuts l = l := by
  unfold sortOuts
  rw [sortOuts_fold l [] (by simp) h]; simp

theorem zipIdx_tags_idx (l : List Node) (k : Nat) :
    ((l.zipIdx k).map fun (n, i) => ({ idx := i, node := n } : Tag)).map (·.idx) = List.range' k l.length := by
  induction l generalizing k with
  | nil => simp
  | cons n l ih => simp [List.zipIdx_cons, List.range'_succ, ih]

theorem zipIdx_tags_node (l : List Node) (k : Nat) :
    ((l.zipIdx k).map fun (n, i) => ({ idx := i, node := n } : Tag)).map (·.node) = l := by
  induction l generalizing k with
  | nil => simp
  | cons n l ih => simp [List.zipIdx_cons, ih]

theorem tagsOf_node (ks : Nodes) : (tagsOf ks).map (·.node) = ks.toList := zipIdx_tags_node _ _

theorem sorted_of_sub_tags (ks : Nodes) (outs : List (Nat × List Ev))
    (h : (outs.map (·.1)).Sublist ((tagsOf ks).map (·.idx))) : outs.Pairwise (fun p q => p.1 ≤ q.1) := by
  have h1 : ((tagsOf ks).map (·.idx)).Pairwise (· ≤ ·) := by
    unfold tagsOf
    rw [zipIdx_tags_idx]
    exact (List.pairwise_lt_range' (s := 0) (n := ks.toList.length)).imp Nat.le_of_lt
  have h2 := h1.sublist h
  rwa [List.pairwise_map] at h2

/-! ### `retry` and `processNodes` from the relation -/

theorem retry_of_FT {ev : Evalr ρ} {st st' : St ρ} {evs : List Ev} {b : Option BoundingBox} (ts : List Tag)
    (hft : FT ev st (ts.map (·.node)) st' evs b) (f : Nat) (outs : List (Nat × List Ev)) (bb : Option BoundingBox)
    (hok : Ok st) (hns : ∀ n ∈ ts.map (·.node), n.specsFree = true) (hnf : NF (retry ev f st ts outs bb)) :
    ∃ outs₁, retry ev f st ts outs bb = (st', .ok (outs ++ outs₁, unionOpt bb b)) ∧
      outs₁.flatMap (·.2) = evs ∧ (outs₁.map (·.1)).Sublist (ts.map (·.idx)) := by
  cases f with
  | zero => simp [retry, NF] at hnf
  | succ f =>
    cases ts with
    | nil =>
      cases hft
      exact ⟨[], by simp [retry, unionOpt_none_right], by simp, by simp⟩
    | cons t ts =>
      have hnf1 : NF (onePass ev f st (t :: ts) outs bb []) := by
        intro hfu; apply hnf; rw [retry]; unfold seq; rw [hfu]
      obtain ⟨outs₁, he, hfl, hsub⟩ := onePass_of_FT hft (t :: ts) f outs bb [] rfl hok hns hnf1
      have hstep : retry ev (f + 1) st (t :: ts) outs bb = retry ev f st' [] (outs ++ outs₁) (unionOpt bb b) := by
        rw [retry]; unfold seq; rw [he]; simp
      rw [hstep] at hnf ⊢
      cases f with
      | zero => simp [retry, NF] at hnf
      | succ f => exact ⟨outs₁, by simp [retry], hfl, hsub⟩

theorem processNodes_of_FT {ev : Evalr ρ} {st st' : St ρ} {evs : List Ev} {b : Option BoundingBox} (ks : Nodes)
    (hft : FT ev st ks.toList st' evs b) (f : Nat) (hok : Ok st) (hks : ks.specsFree = true)
    (hnf : NF (processNodes ev f st ks)) : processNodes ev f st ks = (st', .ok (evs, b)) := by
  cases f with
  | zero => simp [processNodes, NF] at hnf
  | succ f =>
    have hnf1 : NF (retry ev f st (tagsOf ks) [] none) := by
      intro hfu; apply hnf; rw [processNodes]; unfold seq; unfold tagsOf at hfu; rw [hfu]
    have hft' : FT ev st ((tagsOf ks).map (·.node)) st' evs b := by rw [tagsOf_node]; exact hft
    obtain ⟨outs₁, he, hfl, hsub⟩ := retry_of_FT (tagsOf ks) hft' f [] none hok
      (by rw [tagsOf_node]; exact (specsFree_iff ks).1 hks) hnf1
    rw [processNodes]; unfold seq
    unfold tagsOf at he
    rw [he]
    simp only [List.nil_append, C16.unionOpt_none_left]
    rw [sortOuts_sorted _ (sorted_of_sub_tags ks outs₁ hsub), hfl]

/-! ### the `<var>` element of the unrolling -/

theorem varNode_specsFree (name : Str) (v : Rat) : (varNode name v).specsFree = true := rfl

theorem registerEarly_varNode (ev : Evalr ρ) (st : St ρ) (name : Str) (v : Rat) (hid : name ≠ cs!"id") :
    registerEarly ev st (varNode name v) = st := by
  have : (Elem.getAttr { name := cs!"var", attrs := [(name, loopVarStr v)] } cs!"id") = none := by
    simp [Elem.getAttr, Attrs.get, Attrs.lookupTable, hid]
  simp only [registerEarly, varNode, registerOriginal, this]

theorem setVar_depth_roundtrip (st : St ρ) (k v : Str) :
    ({ (({ st with depth := st.depth + 1 } : St ρ).setVar k v) with
        depth := (({ st with depth := st.depth + 1 } : St ρ).setVar k v).depth - 1 } : St ρ) = st.setVar k v := by
  obtain ⟨geo, originals, scopes, elemStack, depth, inSpecs, cfg, rng, outside, idle⟩ := st
  cases scopes <;> simp [St.setVar]

theorem genNode_varNode (ev : Evalr ρ) (g : Nat) (st : St ρ) (name : Str) (v : Rat)
    (hname : name ≠ [] ∧ name ≠ ['_'] ∧ name ≠ cs!"__" ∧ name ≠ cs!"id")
    (hdepth : st.depth + 1 ≤ st.cfg.depthLimit)
    (hvar : (String.ofList (loopVarStr v)).utf8ByteSize ≤ st.cfg.varLimit)
    (hev : ∀ geo env rng, ev.evalAttr geo env rng (loopVarStr v) = .ok (loopVarStr v, rng)) :
    genNode ev (g + 3) st (varNode name v) = (bindLoopVar st name v, .ok ([], none)) := by
  have hd : ¬ (st.depth + 1 > st.cfg.depthLimit) := by omega
  have hgv := C16.var_element_binds_like_loop ev ({ st with depth := st.depth + 1 } : St ρ)
    { name := cs!"var", attrs := [(name, loopVarStr v)] } name (loopVarStr v) st.rng rfl ⟨hname.2.1, hname.2.2.1⟩
    (hev _ _ _) hvar
  have hdisp : dispatch ev (g + 1) ({ st with depth := st.depth + 1 } : St ρ)
      { name := cs!"var", attrs := [(name, loopVarStr v)] } none
      = (({ st with depth := st.depth + 1 } : St ρ).setVar name (loopVarStr v), .ok ([], none)) := by
    rw [dispatch]
    simp only [show (cs!"var" == cs!"loop") = false from by decide, show (cs!"var" == cs!"config") = false from by decide,
      show (cs!"var" == cs!"reuse") = false from by decide, show (cs!"var" == cs!"specs") = false from by decide,
      show (cs!"var" == cs!"var") = true from by decide, Bool.false_eq_true, if_false, if_true]
    exact hgv
  have helem : genElem ev (g + 2) st { name := cs!"var", attrs := [(name, loopVarStr v)] } none
      = (st.setVar name (loopVarStr v), .ok ([], none)) := by
    rw [genElem, if_neg hd]
    simp only [hdisp, clipPost]
    rw [setVar_depth_roundtrip]
  rw [C16.loop_binding st name v hname.1]
  simp only [varNode, genNode, helem, seq, withTail]

/-! ### the fuel-free relation for the whole run -/

inductive Passes (ev : Evalr ρ) (name : Str) (step : Rat) (ks : Nodes) :
    Nat → St ρ → Rat → Nat → St ρ → List Ev → Option BoundingBox → Prop
  | done (st : St ρ) (v : Rat) (it : Nat) : Passes ev name step ks 0 st v it st [] none
  | pass {n : Nat} {st : St ρ} {v : Rat} {it : Nat} {s1 : St ρ} {evs : List Ev} {b : Option BoundingBox}
      {s2 : St ρ} {evs' : List Ev} {bb : Option BoundingBox} :
      st.depth + 1 ≤ st.cfg.depthLimit → (String.ofList (loopVarStr v)).utf8ByteSize ≤ st.cfg.varLimit →
      FT ev (bindLoopVar st name v) ks.toList s1 evs b → it + 1 ≤ s1.cfg.loopLimit →
      Passes ev name step ks n s1 (v + step) (it + 1) s2 evs' bb →
      Passes ev name step ks (n + 1) st v it s2 (evs ++ evs') (unionOpt b bb)

theorem passes_of_firstTry (ev : Evalr ρ) (name : Str) (step : Rat) (ks : Nodes) (hks : ks.specsFree = true) :
    ∀ (n : Nat) (st : St ρ) (v : Rat) (it : Nat), Ok st → FirstTryLoop ev name step ks n st v it →
    ∃ s2 evs bb, Passes ev name step ks n st v it s2 evs bb := by
  intro n
  induction n with
  | zero => intro st v it _ _; exact ⟨st, [], none, Passes.done st v it⟩
  | succ n ih =>
    intro st v it hok h
    obtain ⟨hd, hv, g, st', outs, bb, hone, hlim, hrest⟩ := h
    have hokb : Ok (bindLoopVar st name v) := ok_bindLoopVar st name v hok
    have hts : ∀ t ∈ tagsOf ks, t.node.specsFree = true := by
      intro t ht
      apply (specsFree_iff ks).1 hks
      rw [← tagsOf_node]; exact List.mem_map_of_mem ht
    obtain ⟨evs, b, hft, _, _⟩ := FT_of_onePass ev (tagsOf ks) g _ [] none st' outs bb hokb hts hone
    rw [tagsOf_node] at hft
    have hok' : Ok st' := FT_ok hft hokb ((specsFree_iff ks).1 hks)
    obtain ⟨s2, evs', bb', hp⟩ := ih st' (v + step) (it + 1) hok' hrest
    exact ⟨s2, evs ++ evs', unionOpt b bb', Passes.pass hd hv hft hlim hp⟩

/-- LOOP SIDE -/
theorem loopIter_of_passes {ev : Evalr ρ} {name : Str} {step : Rat} {ks : Nodes} (hks : ks.specsFree = true)
    {n : Nat} {st : St ρ} {v : Rat} {it : Nat} {s2 : St ρ} {evs : List Ev} {bb : Option BoundingBox}
    (hp : Passes ev name step ks n st v it s2 evs bb) :
    ∀ (f : Nat) (acc : List Ev) (bb0 : Option BoundingBox), Ok st →
    NF (loopIter ev f st ks (some (it + n)) none none name v step it acc bb0) →
    loopIter ev f st ks (some (it + n)) none none name v step it acc bb0 = (s2, .ok (acc ++ evs, unionOpt bb0 bb)) := by
  induction hp with
  | done st v it =>
    intro f acc bb0 _ hnf
    cases f with
    | zero => simp [loopIter, NF] at hnf
    | succ f => rw [loopIter]; simp [seq, preTest, unionOpt_none_right]
  | @pass n st v it s1 evs b s2 evs' bb hd hv hft hlim _ ih =>
    intro f acc bb0 hok hnf
    cases f with
    | zero => simp [loopIter, NF] at hnf
    | succ f =>
      have hokb : Ok (bindLoopVar st name v) := ok_bindLoopVar st name v hok
      have hpre : preTest ev st (some (it + (n + 1))) none it = (st, .ok true) := by
        simp [preTest]
      have hnfb : NF (processNodes ev f (bindLoopVar st name v) ks) := by
        intro hfu; apply hnf
        rw [loopIter]; simp only [seq, hpre]; simp [hfu]
      have hbody := processNodes_of_FT ks hft f hokb hks hnfb
      have hok1 : Ok s1 := FT_ok hft hokb ((specsFree_iff ks).1 hks)
      have hstep := C16.loop_iteration ev f st st s1 s1 ks (some (it + (n + 1))) none none name v step it acc bb0
        (evs, b) hpre hbody hlim rfl
      have hidx : it + (n + 1) = it + 1 + n := by omega
      rw [hstep] at hnf ⊢
      rw [hidx] at hnf ⊢
      rw [ih f _ _ hok1 hnf, List.append_assoc, C16.unionOpt_assoc]

theorem unroll_specsFree (name : Str) (vals : List Rat) (ks : Nodes) (hks : ks.specsFree = true) :
    (unroll name vals ks).specsFree = true := by
  rw [specsFree_iff, unroll, toList_ofList]
  intro n hn
  rw [List.mem_flatMap] at hn
  obtain ⟨v, _, hv⟩ := hn
  rcases List.mem_cons.1 hv with h | h
  · rw [h]; rfl
  · exact (specsFree_iff ks).1 hks n h

/-- UNROLL SIDE -/
theorem FT_unroll_of_passes {ev : Evalr ρ} {name : Str} {step : Rat} {ks : Nodes}
    (hname : name ≠ [] ∧ name ≠ ['_'] ∧ name ≠ cs!"__" ∧ name ≠ cs!"id")
    {n : Nat} {st : St ρ} {v : Rat} {it : Nat} {s2 : St ρ} {evs : List Ev} {bb : Option BoundingBox}
    (hp : Passes ev name step ks n st v it s2 evs bb) : LitEval ev (loopVals v step n) →
    FT ev st (unroll name (loopVals v step n) ks).toList s2 evs bb := by
  induction hp with
  | done st v it => intro _; exact (FT.nil st).cast (by simp [unroll, loopVals, toList_ofList]) rfl rfl
  | @pass n st v it s1 evs b s2 evs' bb hd hv hft hlim _ ih =>
    intro hev
    have hev1 := hev v (by simp [loopVals])
    have hev2 : LitEval ev (loopVals (v + step) step n) := fun w hw => hev w (by simp [loopVals, hw])
    have hvar : genNode ev (0 + 3) (registerEarly ev st (varNode name v)) (varNode name v)
        = (bindLoopVar st name v, .ok ([], none)) := by
      rw [registerEarly_varNode ev st name v hname.2.2.2]
      exact genNode_varNode ev 0 st name v hname hd hv hev1
    have h := FT.cons hvar (FT_append hft (ih hev2))
    refine h.cast ?_ (by simp) (C16.unionOpt_none_left _).symm
    simp [unroll, loopVals, toList_ofList]

/-! ### the unrolling theorem -/

/-- **a count loop renders what its manual unrolling renders**: final state and result are the same -/
theorem loop_eq_unroll (ev : Evalr ρ) (name : Str) (start step : Rat) (N : Nat) (ks : Nodes) (st : St ρ)
    (hname : name ≠ [] ∧ name ≠ ['_'] ∧ name ≠ cs!"__" ∧ name ≠ cs!"id")
    (hok : Ok st) (hks : ks.specsFree = true)
    (hev : LitEval ev (loopVals start step N))
    (hfirst : FirstTryLoop ev name step ks N st start 0)
    (fL fU : Nat)
    (hL : NF (loopIter ev fL st ks (some N) none none name start step 0 [] none))
    (hU : NF (processNodes ev fU st (unroll name (loopVals start step N) ks))) :
    loopIter ev fL st ks (some N) none none name start step 0 [] none
      = processNodes ev fU st (unroll name (loopVals start step N) ks) := by
  obtain ⟨s2, evs, bb, hp⟩ := passes_of_firstTry ev name step ks hks N st start 0 hok hfirst
  have hl := loopIter_of_passes hks hp fL [] none hok (by simpa using hL)
  simp only [Nat.zero_add, List.nil_append, C16.unionOpt_none_left] at hl
  have hu := processNodes_of_FT _ (FT_unroll_of_passes hname hp hev) fU hok (unroll_specsFree name _ ks hks) hU
  rw [hl, hu]

/-! ### non-vacuity: enough fuel exists on both sides -/

theorem onePass_NF_of_FT {ev : Evalr ρ} {st st' : St ρ} {ns : List Node} {evs : List Ev} {b : Option BoundingBox}
    (hft : FT ev st ns st' evs b) : Ok st → (∀ n ∈ ns, n.specsFree = true) →
    ∃ G, ∀ f, G ≤ f → ∀ (ts : List Tag) (outs : List (Nat × List Ev)) (bb : Option BoundingBox) (rem : List Tag),
      ts.map (·.node) = ns → NF (onePass ev f st ts outs bb rem) := by
  induction hft with
  | nil st =>
    intro _ _
    refine ⟨1, fun f hf ts outs bb rem hts => ?_⟩
    have : ts = [] := by simpa using hts
    subst this
    obtain ⟨f, rfl⟩ : ∃ f', f = f' + 1 := ⟨f - 1, by omega⟩
    simp [onePass, NF]
  | @cons g st n s1 evs b ns s2 evs' b' hg hrest ih =>
    intro hok hns
    have hn : n.specsFree = true := hns _ (by simp)
    have h1 : Ok (registerEarly ev st n) := ok_registerEarly ev st _ hok hn
    have hs1 : Ok s1 := by
      have h2 := (allOk ev g).genNode _ _ h1 hn
      rw [hg] at h2; exact h2
    obtain ⟨G, hG⟩ := ih hs1 (fun m hm => hns m (by simp [hm]))
    refine ⟨max g G + 1, fun f hf ts outs bb rem hts => ?_⟩
    obtain ⟨f, rfl⟩ : ∃ f', f = f' + 1 := ⟨f - 1, by omega⟩
    cases ts with
    | nil => simp at hts
    | cons t ts =>
      simp only [List.map_cons, List.cons.injEq] at hts
      obtain ⟨rfl, hts⟩ := hts
      have hgF : genNode ev f (registerEarly ev st t.node) t.node = (s1, .ok (evs, b)) := by
        rw [(allMono ev g).genNode _ _ f (by omega) h1 hn (NF_of_ok hg), hg]
      rw [onePass, hgF, if_neg (by rw [hs1.inSpecs]; simp)]
      exact hG f (by omega) ts _ _ rem hts

theorem retry_NF_of_FT {ev : Evalr ρ} {st st' : St ρ} {ns : List Node} {evs : List Ev} {b : Option BoundingBox}
    (hft : FT ev st ns st' evs b) (hok : Ok st) (hns : ∀ n ∈ ns, n.specsFree = true) :
    ∃ G, ∀ f, G ≤ f → ∀ (ts : List Tag) (outs : List (Nat × List Ev)) (bb : Option BoundingBox),
      ts.map (·.node) = ns → NF (retry ev f st ts outs bb) := by
  obtain ⟨G, hG⟩ := onePass_NF_of_FT hft hok hns
  refine ⟨G + 2, fun f hf ts outs bb hts => ?_⟩
  obtain ⟨f, rfl⟩ : ∃ f', f = f' + 2 := ⟨f - 2, by omega⟩
  subst hts
  cases ts with
  | nil => simp [retry, NF]
  | cons t ts =>
    obtain ⟨outs₁, he, _, _⟩ := onePass_of_FT hft (t :: ts) (f + 1) outs bb [] rfl hok hns
      (hG (f + 1) (by omega) _ _ _ _ rfl)
    rw [retry]; unfold seq; rw [he]
    simp [retry, NF]

theorem processNodes_NF_of_FT {ev : Evalr ρ} {st st' : St ρ} {evs : List Ev} {b : Option BoundingBox} (ks : Nodes)
    (hft : FT ev st ks.toList st' evs b) (hok : Ok st) (hks : ks.specsFree = true) :
    ∃ G, ∀ f, G ≤ f → NF (processNodes ev f st ks) := by
  have hns := (specsFree_iff ks).1 hks
  obtain ⟨G, hG⟩ := retry_NF_of_FT hft hok hns
  refine ⟨G + 1, fun f hf => ?_⟩
  obtain ⟨f, rfl⟩ : ∃ f', f = f' + 1 := ⟨f - 1, by omega⟩
  have hnf := hG f (by omega) (tagsOf ks) [] none (tagsOf_node ks)
  have hft' : FT ev st ((tagsOf ks).map (·.node)) st' evs b := by rw [tagsOf_node]; exact hft
  obtain ⟨outs₁, he, _, _⟩ := retry_of_FT (tagsOf ks) hft' f [] none hok (by rw [tagsOf_node]; exact hns) hnf
  rw [processNodes]; unfold seq
  unfold tagsOf at he
  rw [he]; simp [NF]

theorem loopIter_NF_of_passes {ev : Evalr ρ} {name : Str} {step : Rat} {ks : Nodes} (hks : ks.specsFree = true)
    {n : Nat} {st : St ρ} {v : Rat} {it : Nat} {s2 : St ρ} {evs : List Ev} {bb : Option BoundingBox}
    (hp : Passes ev name step ks n st v it s2 evs bb) : Ok st →
    ∃ G, ∀ f, G ≤ f → ∀ (acc : List Ev) (bb0 : Option BoundingBox),
      NF (loopIter ev f st ks (some (it + n)) none none name v step it acc bb0) := by
  induction hp with
  | done st v it =>
    intro _
    refine ⟨1, fun f hf acc bb0 => ?_⟩
    obtain ⟨f, rfl⟩ : ∃ f', f = f' + 1 := ⟨f - 1, by omega⟩
    rw [loopIter]; simp [seq, preTest, NF]
  | @pass n st v it s1 evs b s2 evs' bb hd hv hft hlim _ ih =>
    intro hok
    have hokb : Ok (bindLoopVar st name v) := ok_bindLoopVar st name v hok
    have hok1 : Ok s1 := FT_ok hft hokb ((specsFree_iff ks).1 hks)
    obtain ⟨G1, hG1⟩ := processNodes_NF_of_FT ks hft hokb hks
    obtain ⟨G2, hG2⟩ := ih hok1
    refine ⟨max G1 G2 + 1, fun f hf acc bb0 => ?_⟩
    obtain ⟨f, rfl⟩ : ∃ f', f = f' + 1 := ⟨f - 1, by omega⟩
    have hpre : preTest ev st (some (it + (n + 1))) none it = (st, .ok true) := by
      simp [preTest]
    have hbody := processNodes_of_FT ks hft f hokb hks (hG1 f (by omega))
    have hstep := C16.loop_iteration ev f st st s1 s1 ks (some (it + (n + 1))) none none name v step it acc bb0
      (evs, b) hpre hbody hlim rfl
    have hidx : it + (n + 1) = it + 1 + n := by omega
    rw [hstep, hidx]
    exact hG2 f (by omega) _ _

/-- **the fuel hypotheses of `loop_eq_unroll` can be met**: from some fuel on, neither side reports the fuel error -/
theorem loop_unroll_fuel_exists (ev : Evalr ρ) (name : Str) (start step : Rat) (N : Nat) (ks : Nodes) (st : St ρ)
    (hname : name ≠ [] ∧ name ≠ ['_'] ∧ name ≠ cs!"__" ∧ name ≠ cs!"id")
    (hok : Ok st) (hks : ks.specsFree = true)
    (hev : LitEval ev (loopVals start step N))
    (hfirst : FirstTryLoop ev name step ks N st start 0) :
    ∃ F, ∀ f, F ≤ f → NF (loopIter ev f st ks (some N) none none name start step 0 [] none) ∧
      NF (processNodes ev f st (unroll name (loopVals start step N) ks)) := by
  obtain ⟨s2, evs, bb, hp⟩ := passes_of_firstTry ev name step ks hks N st start 0 hok hfirst
  obtain ⟨G1, hG1⟩ := loopIter_NF_of_passes hks hp hok
  obtain ⟨G2, hG2⟩ := processNodes_NF_of_FT _ (FT_unroll_of_passes hname hp hev) hok (unroll_specsFree name _ ks hks)
  refine ⟨max G1 G2, fun f hf => ⟨?_, hG2 f (by omega)⟩⟩
  simpa using hG1 f (by omega) [] none

/-- the two theorems together: from some fuel on, both sides succeed or fail alike with the same state and result -/
theorem loop_eq_unroll_eventually (ev : Evalr ρ) (name : Str) (start step : Rat) (N : Nat) (ks : Nodes) (st : St ρ)
    (hname : name ≠ [] ∧ name ≠ ['_'] ∧ name ≠ cs!"__" ∧ name ≠ cs!"id")
    (hok : Ok st) (hks : ks.specsFree = true)
    (hev : LitEval ev (loopVals start step N))
    (hfirst : FirstTryLoop ev name step ks N st start 0) :
    ∃ F, ∀ fL fU, F ≤ fL → F ≤ fU →
      loopIter ev fL st ks (some N) none none name start step 0 [] none
        = processNodes ev fU st (unroll name (loopVals start step N) ks) := by
  obtain ⟨F, hF⟩ := loop_unroll_fuel_exists ev name start step N ks st hname hok hks hev hfirst
  exact ⟨F, fun fL fU hL hU =>
    loop_eq_unroll ev name start step N ks st hname hok hks hev hfirst fL fU (hF fL hL).1 (hF fU hU).2⟩

/-! ### corollaries -/

/-- the common value: from some fuel on, both sides SUCCEED, with the same final state, events and box -/
theorem loop_unroll_ok (ev : Evalr ρ) (name : Str) (start step : Rat) (N : Nat) (ks : Nodes) (st : St ρ)
    (hname : name ≠ [] ∧ name ≠ ['_'] ∧ name ≠ cs!"__" ∧ name ≠ cs!"id")
    (hok : Ok st) (hks : ks.specsFree = true)
    (hev : LitEval ev (loopVals start step N))
    (hfirst : FirstTryLoop ev name step ks N st start 0) :
    ∃ F s2 evs bb, ∀ fL fU, F ≤ fL → F ≤ fU →
      loopIter ev fL st ks (some N) none none name start step 0 [] none = (s2, .ok (evs, bb)) ∧
      processNodes ev fU st (unroll name (loopVals start step N) ks) = (s2, .ok (evs, bb)) := by
  obtain ⟨s2, evs, bb, hp⟩ := passes_of_firstTry ev name step ks hks N st start 0 hok hfirst
  obtain ⟨F, hF⟩ := loop_unroll_fuel_exists ev name start step N ks st hname hok hks hev hfirst
  refine ⟨F, s2, evs, bb, fun fL fU hL hU => ⟨?_, ?_⟩⟩
  · have hl := loopIter_of_passes hks hp fL [] none hok (by simpa using (hF fL hL).1)
    simpa only [Nat.zero_add, List.nil_append, C16.unionOpt_none_left] using hl
  · exact processNodes_of_FT _ (FT_unroll_of_passes hname hp hev) fU hok (unroll_specsFree name _ ks hks) (hF fU hU).2

/-- the same at the level of the `<loop>` ELEMENT: when its head evaluates to `count = N`, loop variable `name`,
    `start`, `step` (leaving the random state `rng`), `genLoop` on the element is `processNodes` on the unrolling -/
theorem genLoop_eq_unroll (ev : Evalr ρ) (e : Elem) (name : Str) (start step : Rat) (N : Nat) (ks : Nodes) (st : St ρ)
    (rng : ρ) (hcount : (e.getAttr cs!"count").isSome = true)
    (hhead : loopHead ev st e = .ok (some N, name, start, step, rng))
    (hname : name ≠ [] ∧ name ≠ ['_'] ∧ name ≠ cs!"__" ∧ name ≠ cs!"id")
    (hok : Ok st) (hks : ks.specsFree = true)
    (hev : LitEval ev (loopVals start step N))
    (hfirst : FirstTryLoop ev name step ks N { st with rng := rng } start 0)
    (fL fU : Nat)
    (hL : NF (genLoop ev fL st e (some ks)))
    (hU : NF (processNodes ev fU { st with rng := rng } (unroll name (loopVals start step N) ks))) :
    genLoop ev fL st e (some ks)
      = processNodes ev fU { st with rng := rng } (unroll name (loopVals start step N) ks) := by
  cases fL with
  | zero => simp [genLoop, NF] at hL
  | succ f =>
    have hg : genLoop ev (f + 1) st e (some ks)
        = loopIter ev f { st with rng := rng } ks (some N) none none name start step 0 [] none := by
      have ht : ((e.getAttr cs!"count").isSome || (e.getAttr cs!"while").isSome ||
          (e.getAttr cs!"until").isSome) = true := by rw [hcount]; rfl
      rw [genLoop]
      · simp only [hhead, Option.isSome_some, if_true]
      · exact ht
    rw [hg] at hL ⊢
    exact loop_eq_unroll ev name start step N ks ({ st with rng := rng } : St ρ) hname
      (ok_of_fields hok rfl rfl rfl) hks hev hfirst f fU hL hU

/-! ### a decidable form of the first-attempt hypothesis (for concrete instances) -/

/-- `FirstTryLoop` with one fuel `g` for every pass, as a Boolean -/
def firstTryLoopB (ev : Evalr ρ) (name : Str) (step : Rat) (ks : Nodes) (g : Nat) : Nat → St ρ → Rat → Nat → Bool
  | 0, _, _, _ => true
  | n + 1, st, v, it =>
    decide (st.depth + 1 ≤ st.cfg.depthLimit) &&
    decide ((String.ofList (loopVarStr v)).utf8ByteSize ≤ st.cfg.varLimit) &&
    match onePass ev g (bindLoopVar st name v) (tagsOf ks) [] none [] with
    | (st', .ok (_, _, [])) =>
      decide (it + 1 ≤ st'.cfg.loopLimit) && firstTryLoopB ev name step ks g n st' (v + step) (it + 1)
    | _ => false

theorem firstTryLoop_of_B (ev : Evalr ρ) (name : Str) (step : Rat) (ks : Nodes) (g : Nat) :
    ∀ (n : Nat) (st : St ρ) (v : Rat) (it : Nat), firstTryLoopB ev name step ks g n st v it = true →
      FirstTryLoop ev name step ks n st v it := by
  intro n
  induction n with
  | zero => intro st v it _; trivial
  | succ n ih =>
    intro st v it h
    unfold firstTryLoopB at h
    simp only [Bool.and_eq_true, decide_eq_true_eq] at h
    obtain ⟨⟨hd, hv⟩, hm⟩ := h
    split at hm
    · rename_i st' outs bb heq
      simp only [Bool.and_eq_true, decide_eq_true_eq] at hm
      exact ⟨hd, hv, g, st', outs, bb, heq, hm.1, ih st' _ _ hm.2⟩
    · cases hm

/-! ## (C) non-vacuity: a concrete loop, checked by kernel evaluation

  `<loop count="3" loop-var="i" start="0" step="10"><rect x="$i" y="0" width="5" height="5"/></loop>` with the
  substitution-only evaluator `simpleEvalr`, against
  `<var i="0"/><rect …/><var i="10"/><rect …/><var i="20"/><rect …/>`. -/

namespace UnrollExample

-- (DecidableEq Elem is derived at the definition)
deriving instance DecidableEq for Svgdx.Ctl.Ev

def rect (x : Str) : Elem :=
  { name := cs!"rect", attrs := [(['x'], x), (['y'], ['0']), (cs!"width", ['5']), (cs!"height", ['5'])] }

def body : Nodes := .cons (.elem (rect cs!"$i") none none) .nil
def st0 : St Nat := { rng := 0, scopes := [{}] }
def name : Str := ['i']

theorem name_legal : name ≠ [] ∧ name ≠ ['_'] ∧ name ≠ cs!"__" ∧ name ≠ cs!"id" := by decide

theorem st0_ok : Ok st0 := ⟨rfl, by simp [st0], by intro i e k h; simp [st0] at h⟩

theorem body_specsFree : body.specsFree = true := rfl

theorem vals : (loopVals 0 10 3).map loopVarStr = [['0'], ['1', '0'], ['2', '0']] := by decide +kernel

/-- the evaluator returns the three literals unchanged and leaves the random state alone -/
theorem litEval : LitEval simpleEvalr (loopVals 0 10 3) := by
  have h := vals
  simp only [loopVals, List.map_cons, List.map_nil, List.cons.injEq, and_true] at h
  obtain ⟨h0, h1, h2⟩ := h
  intro v hv geo env rng
  simp only [loopVals, List.mem_cons, List.not_mem_nil, or_false] at hv
  rcases hv with rfl | rfl | rfl
  · rw [h0]; rfl
  · rw [h1]; rfl
  · rw [h2]; rfl

/-- every pass succeeds at the first attempt, no limit is hit -/
theorem firstTry : FirstTryLoop simpleEvalr name 10 body 3 st0 0 0 :=
  firstTryLoop_of_B simpleEvalr name 10 body 8 3 st0 0 0 (by decide +kernel)

/-- neither side reports the fuel error at fuel 20 -/
theorem nf_both : NF (loopIter simpleEvalr 20 st0 body (some 3) none none name 0 10 0 [] none) ∧
    NF (processNodes simpleEvalr 20 st0 (unroll name (loopVals 0 10 3) body)) := by
  unfold NF
  decide +kernel

/-- the theorem applied: same final state, same result -/
theorem loop_is_unrolling :
    loopIter simpleEvalr 20 st0 body (some 3) none none name 0 10 0 [] none
      = processNodes simpleEvalr 20 st0 (unroll name (loopVals 0 10 3) body) :=
  loop_eq_unroll simpleEvalr name 0 10 3 body st0 name_legal st0_ok body_specsFree litEval firstTry 20 20
    nf_both.1 nf_both.2

/-- … and the result, computed by the kernel on each side independently: three rectangles at x = 0, 10, 20 -/
theorem loop_events :
    (loopIter simpleEvalr 20 st0 body (some 3) none none name 0 10 0 [] none).2
      = .ok ([Ev.empty (rect ['0']), Ev.empty (rect cs!"10"), Ev.empty (rect cs!"20")], some ⟨0, 0, 25, 5⟩) := by
  decide +kernel

theorem unrolled_events :
    (processNodes simpleEvalr 20 st0 (unroll name (loopVals 0 10 3) body)).2
      = .ok ([Ev.empty (rect ['0']), Ev.empty (rect cs!"10"), Ev.empty (rect cs!"20")], some ⟨0, 0, 25, 5⟩) := by
  decide +kernel

end UnrollExample

end Svgdx.Ctl

#print axioms Svgdx.Ctl.allOk
#print axioms Svgdx.Ctl.allMono
#print axioms Svgdx.Ctl.processNodes_fuel_robust
#print axioms Svgdx.Ctl.loop_eq_unroll
#print axioms Svgdx.Ctl.loop_unroll_fuel_exists
#print axioms Svgdx.Ctl.loop_eq_unroll_eventually
#print axioms Svgdx.Ctl.loop_unroll_ok
#print axioms Svgdx.Ctl.genLoop_eq_unroll
#print axioms Svgdx.Ctl.firstTryLoop_of_B
#print axioms Svgdx.Ctl.UnrollExample.litEval
#print axioms Svgdx.Ctl.UnrollExample.firstTry
#print axioms Svgdx.Ctl.UnrollExample.nf_both
#print axioms Svgdx.Ctl.UnrollExample.loop_is_unrolling
#print axioms Svgdx.Ctl.UnrollExample.loop_events
#print axioms Svgdx.Ctl.UnrollExample.unrolled_events
