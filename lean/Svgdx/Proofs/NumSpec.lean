/-
  Svgdx.Proofs.NumSpec — the scanners of `Svgdx.Base.Num` against the SVG `number` grammar of
  `Svgdx.Base.NumSpec`.
-/
import Svgdx.Base.NumSpec
namespace Svgdx.NumSpec
open Svgdx Str Num

/-! ### characters -/

theorem char_le_iff {a b : Char} : a ≤ b ↔ a.toNat ≤ b.toNat := by
  rw [Char.le_def, UInt32.le_iff_toNat_le]; rfl

theorem isDigit_iff {c : Char} : isDigit c = true ↔ 48 ≤ c.toNat ∧ c.toNat ≤ 57 := by
  simp only [isDigit, Bool.and_eq_true, decide_eq_true_eq, char_le_iff]
  rfl

theorem digit_lower {c : Char} (h : isDigit c = true) : lower c = c := by
  rw [isDigit_iff] at h
  unfold lower
  rw [if_neg]
  simp only [Bool.and_eq_true, decide_eq_true_eq, char_le_iff]
  have : 'A'.toNat = 65 := rfl
  omega

theorem digit_not_ws {c : Char} (h : isDigit c = true) : isWs c = false := by
  rw [isDigit_iff] at h
  unfold isWs
  simp
  omega

theorem digit_ne {c d : Char} (h : isDigit c = true) (hd : isDigit d = false) : c ≠ d := by
  rintro rfl; rw [h] at hd; cases hd

theorem digit_not_sep {c : Char} (h : isDigit c = true) : isNumSep c = false := by
  unfold isNumSep
  rw [digit_not_ws h]
  have := digit_ne h (d := ',') (by decide)
  simp [this]

/-- the first character satisfies `p` -/
def headSat (p : Char → Bool) (s : Str) : Bool :=
  match s with
  | [] => false
  | c :: _ => p c

@[simp] theorem headSat_nil (p : Char → Bool) : headSat p [] = false := rfl
@[simp] theorem headSat_cons (p : Char → Bool) (c : Char) (t : Str) : headSat p (c :: t) = p c := rfl

theorem headSat_append_of_ne_nil (p : Char → Bool) {l : Str} (t : Str) (h : l ≠ []) :
    headSat p (l ++ t) = headSat p l := by
  cases l with
  | nil => exact absurd rfl h
  | cons c l => rfl

/-- a run of `p`-characters followed by something that does not start with a `p`-character is split
    exactly there by `takeWhile` / `dropWhile` -/
theorem takeWhile_run (p : Char → Bool) (l t : Str) (hl : l.all p = true) (ht : headSat p t = false) :
    (l ++ t).takeWhile p = l ∧ (l ++ t).dropWhile p = t := by
  induction l with
  | nil =>
    cases t with
    | nil => exact ⟨rfl, rfl⟩
    | cons c t =>
      simp only [headSat_cons] at ht
      simp [ht]
  | cons a l ih =>
    simp only [List.all_cons, Bool.and_eq_true] at hl
    obtain ⟨h1, h2⟩ := ih hl.2
    simp [hl.1, h1, h2]

def isSignChar (c : Char) : Bool := c == '+' || c == '-'

theorem takeSign_cons (c : Char) (t : Str) (h : isSignChar c = false) : takeSign (c :: t) = ([], c :: t) := by
  simp only [isSignChar, Bool.or_eq_false_iff, beq_eq_false_iff_ne] at h
  unfold takeSign
  split <;> simp_all

theorem takeSign_render (s : Sign) (x : Str) (hx : s = .absent → headSat isSignChar x = false) :
    takeSign (s.render ++ x) = (s.render, x) := by
  cases s with
  | plus => rfl
  | minus => rfl
  | absent =>
    cases x with
    | nil => rfl
    | cons c t => exact takeSign_cons c t (hx rfl)

theorem takeDigits_run (l t : Str) (hl : allDigits l = true) (ht : headSat isDigit t = false) :
    takeDigits (l ++ t) = (l, t) := by
  obtain ⟨h1, h2⟩ := takeWhile_run isDigit l t hl ht
  unfold takeDigits; rw [h1, h2]

theorem takeFrac_point (l t : Str) (hl : allDigits l = true) (ht : headSat isDigit t = false) :
    takeFrac ('.' :: (l ++ t)) = ('.' :: l, t) := by
  obtain ⟨h1, h2⟩ := takeWhile_run isDigit l t hl ht
  show ('.' :: (l ++ t).takeWhile isDigit, (l ++ t).dropWhile isDigit) = _
  rw [h1, h2]

theorem takeFrac_none (t : Str) (ht : headSat (· == '.') t = false) : takeFrac t = ([], t) := by
  cases t with
  | nil => rfl
  | cons c t =>
    simp only [headSat_cons, beq_eq_false_iff_ne] at ht
    unfold takeFrac
    split <;> simp_all

def isExpChar (c : Char) : Bool := c == 'e' || c == 'E'

theorem takeExp_none (t : Str) (ht : headSat isExpChar t = false) : takeExp t = ([], t) := by
  cases t with
  | nil => rfl
  | cons c t =>
    simp only [headSat_cons, isExpChar] at ht
    simp only [takeExp, ht]
    rfl

theorem digits_head {ds : Str} (hd : allDigits ds = true) (hne : ds.isEmpty = false) (t : Str) :
    headSat isDigit (ds ++ t) = true := by
  cases ds with
  | nil => cases hne
  | cons d ds =>
    simp only [allDigits, List.all_cons, Bool.and_eq_true] at hd
    exact hd.1

theorem digit_not_sign {c : Char} (h : isDigit c = true) : isSignChar c = false := by
  have h1 := digit_ne h (d := '+') (by decide)
  have h2 := digit_ne h (d := '-') (by decide)
  simp [isSignChar, h1, h2]

theorem headSat_mono {p q : Char → Bool} (h : ∀ c, p c = true → q c = false) {s : Str}
    (hs : headSat p s = true) : headSat q s = false := by
  cases s with
  | nil => rfl
  | cons c t => exact h c hs

theorem takeExp_render (e : SvgExp) (t : Str) (hd : allDigits e.digits = true) (hne : e.digits.isEmpty = false)
    (ht : headSat isDigit t = false) : takeExp (e.render ++ t) = (e.render, t) := by
  have hs : takeSign (e.sign.render ++ (e.digits ++ t)) = (e.sign.render, e.digits ++ t) :=
    takeSign_render _ _ (fun _ => headSat_mono (fun _ => digit_not_sign) (digits_head hd hne t))
  obtain ⟨h1, h2⟩ := takeWhile_run isDigit e.digits t hd ht
  have hl : (e.letter == 'e' || e.letter == 'E') = true := by
    unfold SvgExp.letter; cases e.upper <;> rfl
  show takeExp (e.letter :: ((e.sign.render ++ e.digits) ++ t)) = _
  rw [List.append_assoc]
  simp only [takeExp, hl, if_true, hs, h1, h2]
  rfl

/-! ### the scanner reads exactly one number of the grammar -/

theorem wf_iff (n : SvgNumber) : n.wf = true ↔
    allDigits n.int = true ∧ allDigits n.fracDigits = true ∧
    (n.int.isEmpty = false ∨ n.fracDigits.isEmpty = false) ∧
    ∀ e, n.exp = some e → allDigits e.digits = true ∧ e.digits.isEmpty = false := by
  unfold SvgNumber.wf
  cases n.exp with
  | none => simp [and_assoc]
  | some e => simp [and_assoc]

theorem letter_cases (e : SvgExp) : e.letter = 'e' ∨ e.letter = 'E' := by
  unfold SvgExp.letter; cases e.upper
  · exact Or.inl rfl
  · exact Or.inr rfl

theorem headSat_exp_tail (n : SvgNumber) (rest : Str) (p : Char → Bool) (hl : p 'e' = false ∧ p 'E' = false)
    (hr : n.exp = none → headSat p rest = false) : headSat p (n.expRender ++ rest) = false := by
  unfold SvgNumber.expRender
  cases he : n.exp with
  | none => exact hr he
  | some e =>
    show p e.letter = false
    rcases letter_cases e with h | h <;> rw [h]
    · exact hl.1
    · exact hl.2

theorem headSat_frac_tail (n : SvgNumber) (z : Str) (p : Char → Bool) (hp : p '.' = false)
    (hz : n.frac = none → headSat p z = false) : headSat p (n.fracRender ++ z) = false := by
  unfold SvgNumber.fracRender
  cases hf : n.frac with
  | none => exact hz hf
  | some fs => exact hp

/-- the mantissa starts with a digit or with the decimal point -/
theorem headSat_mantissa (n : SvgNumber) (hwf : n.wf = true) (z : Str) :
    headSat (fun c => isDigit c || c == '.') (n.int ++ (n.fracRender ++ z)) = true := by
  obtain ⟨hi, _, hne, _⟩ := (wf_iff n).mp hwf
  cases hint : n.int with
  | cons d ds =>
    rw [hint] at hi
    simp only [allDigits, List.all_cons, Bool.and_eq_true] at hi
    simp [hi.1]
  | nil =>
    have : n.fracDigits.isEmpty = false := by
      rcases hne with h | h
      · rw [hint] at h; cases h
      · exact h
    unfold SvgNumber.fracDigits at this
    unfold SvgNumber.fracRender
    cases hf : n.frac with
    | none => rw [hf] at this; cases this
    | some fs => rfl

theorem continuedBy_eq_false (n : SvgNumber) (rest : Str) : n.continuedBy rest = false ↔
    headSat isDigit rest = false ∧ (n.exp = none → headSat isExpChar rest = false) ∧
    (n.exp = none → n.frac = none → headSat (· == '.') rest = false) := by
  unfold SvgNumber.continuedBy
  cases rest with
  | nil => simp
  | cons c t =>
    cases n.exp <;> cases n.frac <;> simp [isExpChar, and_assoc]

/-- **the scanner cuts a number exactly at the end of its spelling**, whenever what follows is not a
    continuation of it: `rest` does not start with a digit, nor with `e` / `E` unless the number already
    has an exponent, nor with `.` unless the number already has a `.` or an exponent. In particular `rest`
    may be empty, or start with a sign, a comma, whitespace, any letter other than `e` / `E`, and with `.`
    after a number that has a fractional part or an exponent ("M10-20", ".5.5", "1e1 2", "1e-3.5"). -/
theorem scanNumber_render (n : SvgNumber) (hwf : n.wf = true) (rest : Str)
    (hrest : n.continuedBy rest = false) : scanNumber (n.render ++ rest) = (n.render, rest) := by
  obtain ⟨hi, hfd, hne, hexp⟩ := (wf_iff n).mp hwf
  obtain ⟨hr1, hr2, hr3⟩ := (continuedBy_eq_false n rest).mp hrest
  -- what follows the exponent, the fraction, the integer digits
  have hZdig : headSat isDigit (n.expRender ++ rest) = false :=
    headSat_exp_tail n rest isDigit ⟨by decide, by decide⟩ (fun _ => hr1)
  have hYdig : headSat isDigit (n.fracRender ++ (n.expRender ++ rest)) = false :=
    headSat_frac_tail n _ isDigit (by decide) (fun _ => hZdig)
  have hE : takeExp (n.expRender ++ rest) = (n.expRender, rest) := by
    unfold SvgNumber.expRender
    cases he : n.exp with
    | none => exact takeExp_none rest (hr2 he)
    | some e => exact takeExp_render e rest (hexp e he).1 (hexp e he).2 hr1
  have hF : takeFrac (n.fracRender ++ (n.expRender ++ rest)) = (n.fracRender, n.expRender ++ rest) := by
    cases hf : n.frac with
    | none =>
      have := takeFrac_none (n.expRender ++ rest)
        (headSat_exp_tail n rest (· == '.') ⟨by decide, by decide⟩ (fun he => hr3 he hf))
      simpa [SvgNumber.fracRender, hf] using this
    | some fs =>
      have hfs : allDigits fs = true := by simpa [SvgNumber.fracDigits, hf] using hfd
      simpa [SvgNumber.fracRender, hf] using takeFrac_point fs (n.expRender ++ rest) hfs hZdig
  have hD : takeDigits (n.int ++ (n.fracRender ++ (n.expRender ++ rest))) =
      (n.int, n.fracRender ++ (n.expRender ++ rest)) := takeDigits_run _ _ hi hYdig
  have hS : takeSign (n.sign.render ++ (n.int ++ (n.fracRender ++ (n.expRender ++ rest)))) =
      (n.sign.render, n.int ++ (n.fracRender ++ (n.expRender ++ rest))) :=
    takeSign_render _ _ (fun _ => headSat_mono (q := isSignChar)
      (by intro c hc
          simp only [Bool.or_eq_true, beq_iff_eq] at hc
          rcases hc with hc | rfl
          · exact digit_not_sign hc
          · rfl)
      (headSat_mantissa n hwf _))
  have hin : n.render ++ rest = n.sign.render ++ (n.int ++ (n.fracRender ++ (n.expRender ++ rest))) := by
    simp only [SvgNumber.render, List.append_assoc]
  rw [hin]
  unfold scanNumber
  simp only [hS, hD, hF, hE, SvgNumber.render, List.append_assoc]

/-! ### `strp` reads the value written -/

/-- the sign match at the head of `parseF32` (and of `parseExp`), named so that it can be rewritten -/
def signOf (s : Str) : Bool × Str :=
  match s with
  | '-' :: r => (true, r)
  | '+' :: r => (false, r)
  | r => (false, r)

theorem not_special (body : Str) (h : headSat (fun c => isDigit c || c == '.') body = true) :
    (body.map lower == cs!"inf" || body.map lower == cs!"infinity" || body.map lower == cs!"nan") = false := by
  cases body with
  | nil => cases h
  | cons c t =>
    simp only [headSat_cons, Bool.or_eq_true, beq_iff_eq] at h
    have hl : lower c = c := by
      rcases h with h | rfl
      · exact digit_lower h
      · rfl
    have h1 : c ≠ 'i' := by rcases h with h | rfl; exact digit_ne h (by decide); decide
    have h2 : c ≠ 'n' := by rcases h with h | rfl; exact digit_ne h (by decide); decide
    simp [hl, h1, h2]

theorem digitVal_eq (c : Char) : Num.digitVal c = digitValue c := rfl

theorem foldl_digits (ds : Str) (a : Nat) :
    ds.foldl (fun acc c => acc * 10 + Num.digitVal c) a = a * 10 ^ ds.length + decimal ds := by
  induction ds generalizing a with
  | nil => simp [decimal]
  | cons d ds ih =>
    simp only [List.foldl_cons, decimal, List.length_cons, Nat.pow_succ]
    rw [ih, digitVal_eq]
    generalize 10 ^ ds.length = P
    grind

theorem digitsToNat_eq (ds : Str) : digitsToNat ds = decimal ds := by
  unfold digitsToNat; rw [foldl_digits]; simp

theorem decimal_append (a b : Str) : decimal (a ++ b) = decimal a * 10 ^ b.length + decimal b := by
  induction a with
  | nil => simp [decimal]
  | cons d a ih =>
    simp only [List.cons_append, decimal, ih, List.length_append, Nat.pow_add]
    generalize 10 ^ a.length = P
    generalize 10 ^ b.length = Q
    grind

def SvgExp.value (e : SvgExp) : Int := if e.sign.neg then -(decimal e.digits : Int) else (decimal e.digits : Int)

/-- `parseExp` after the letter and the sign; tied to it by `parseExp_cons` (`rfl`) -/
def parseExpTail (neg : Bool) (ds : Str) : Option Int :=
  if ds.isEmpty || !ds.all isDigit then none
  else
    let v : Int := (digitsToNat ds : Int)
    some (if neg then -v else v)

theorem parseExp_cons (c : Char) (rest : Str) : parseExp (c :: rest) =
    if c == 'e' || c == 'E' then parseExpTail (signOf rest).1 (signOf rest).2 else none := rfl

theorem signOf_cons (c : Char) (t : Str) (h : isSignChar c = false) : signOf (c :: t) = (false, c :: t) := by
  simp only [isSignChar, Bool.or_eq_false_iff, beq_eq_false_iff_ne] at h
  unfold signOf
  split <;> simp_all

theorem signOf_render (s : Sign) (x : Str) (hx : s = .absent → headSat isSignChar x = false) :
    signOf (s.render ++ x) = (s.neg, x) := by
  cases s with
  | plus => rfl
  | minus => rfl
  | absent =>
    cases x with
    | nil => rfl
    | cons c t => exact signOf_cons c t (hx rfl)

theorem parseExp_render (e : SvgExp) (hd : allDigits e.digits = true) (hne : e.digits.isEmpty = false) :
    parseExp e.render = some e.value := by
  have hl : (e.letter == 'e' || e.letter == 'E') = true := by
    rcases letter_cases e with h | h <;> rw [h] <;> rfl
  have hall : e.digits.all isDigit = true := hd
  have hs : signOf (e.sign.render ++ e.digits) = (e.sign.neg, e.digits) := by
    have := signOf_render e.sign (e.digits ++ [])
      (fun _ => headSat_mono (fun _ => digit_not_sign) (digits_head hd hne []))
    simpa using this
  unfold SvgExp.render
  rw [parseExp_cons, hl, if_pos rfl, hs]
  simp [parseExpTail, hne, hall, SvgExp.value, digitsToNat_eq]

/-- the fraction match of `parseF32`, named -/
def fracOf (r1 : Str) : Str × Str :=
  match r1 with
  | '.' :: r => (r.takeWhile isDigit, r.dropWhile isDigit)
  | r => ([], r)

/-- `parseF32` after its sign match: a verbatim copy of the rest of its body, tied to it by `parseF32_eq`
    (`rfl` - if the model changes, that proof breaks) -/
def parseUnsigned (neg : Bool) (body : Str) : Parsed :=
  if body.isEmpty then .err
  else
    let lw := body.map lower
    if lw == cs!"inf" || lw == cs!"infinity" || lw == cs!"nan" then .nonfinite
    else
      let ip := body.takeWhile isDigit
      let r1 := body.dropWhile isDigit
      let (fp, r2) := fracOf r1
      if ip.isEmpty && fp.isEmpty then .err
      else
        match parseExp r2 with
        | none => .err
        | some e =>
          let mant : Rat := ((digitsToNat (ip ++ fp) : Nat) : Rat) / pow10 fp.length
          let v : Rat := if e ≥ 0 then mant * pow10 e.toNat else mant / pow10 (-e).toNat
          .num (if neg then -v else v)

theorem parseF32_eq (s : Str) : parseF32 s = parseUnsigned (signOf s).1 (signOf s).2 := rfl

theorem fracOf_point (l t : Str) (hl : allDigits l = true) (ht : headSat isDigit t = false) :
    fracOf ('.' :: (l ++ t)) = (l, t) := by
  obtain ⟨h1, h2⟩ := takeWhile_run isDigit l t hl ht
  show ((l ++ t).takeWhile isDigit, (l ++ t).dropWhile isDigit) = _
  rw [h1, h2]

theorem fracOf_none (t : Str) (ht : headSat (· == '.') t = false) : fracOf t = ([], t) := by
  cases t with
  | nil => rfl
  | cons c t =>
    simp only [headSat_cons, beq_eq_false_iff_ne] at ht
    unfold fracOf
    split <;> simp_all

/-- the value of the exponent part -/
def expValue (n : SvgNumber) : Int :=
  match n.exp with
  | none => 0
  | some e => e.value

/-- the value before the sign is applied -/
def absValue (n : SvgNumber) : Rat :=
  match n.exp with
  | none => n.mantissa
  | some e =>
    if e.sign.neg then n.mantissa / ((10 ^ decimal e.digits : Nat) : Rat)
    else n.mantissa * ((10 ^ decimal e.digits : Nat) : Rat)

theorem denote_eq (n : SvgNumber) : n.denote = if n.sign.neg then -absValue n else absValue n := rfl

theorem pow10_ne_zero (k : Nat) : ((10 ^ k : Nat) : Rat) ≠ 0 := by
  rw [Ne, Rat.natCast_eq_zero_iff]
  exact Nat.ne_of_gt (Nat.pow_pos (by decide))

theorem mantissa_eq (n : SvgNumber) :
    ((digitsToNat (n.int ++ n.fracDigits) : Nat) : Rat) / pow10 n.fracDigits.length = n.mantissa := by
  rw [digitsToNat_eq, decimal_append]
  unfold SvgNumber.mantissa pow10
  have hP := pow10_ne_zero n.fracDigits.length
  rw [Rat.natCast_add, Rat.natCast_mul]
  generalize ((10 ^ n.fracDigits.length : Nat) : Rat) = P at hP ⊢
  grind

theorem scale_eq (n : SvgNumber) (m : Rat) :
    (if expValue n ≥ 0 then m * pow10 (expValue n).toNat else m / pow10 (-(expValue n)).toNat) =
    (match n.exp with
     | none => m
     | some e => if e.sign.neg then m / ((10 ^ decimal e.digits : Nat) : Rat)
                 else m * ((10 ^ decimal e.digits : Nat) : Rat)) := by
  unfold expValue
  cases n.exp with
  | none => simp [pow10, Rat.mul_one]
  | some e =>
    simp only [SvgExp.value]
    by_cases hneg : e.sign.neg = true
    · simp only [hneg, if_true]
      by_cases hz : decimal e.digits = 0
      · simp [hz, pow10, Rat.mul_one, Rat.div_def]
        grind
      · simp [pow10]
        intro h; exact absurd h hz
    · simp [hneg, pow10]

theorem parseExp_expRender (n : SvgNumber) (hwf : n.wf = true) : parseExp n.expRender = some (expValue n) := by
  obtain ⟨_, _, _, hexp⟩ := (wf_iff n).mp hwf
  unfold SvgNumber.expRender expValue
  cases he : n.exp with
  | none => rfl
  | some e => exact parseExp_render e (hexp e he).1 (hexp e he).2

theorem fracOf_render (n : SvgNumber) (hwf : n.wf = true) :
    fracOf (n.fracRender ++ n.expRender) = (n.fracDigits, n.expRender) := by
  obtain ⟨_, hfd, _, _⟩ := (wf_iff n).mp hwf
  have hZdig : headSat isDigit (n.expRender ++ []) = false :=
    headSat_exp_tail n [] isDigit ⟨by decide, by decide⟩ (fun _ => rfl)
  rw [List.append_nil] at hZdig
  cases hf : n.frac with
  | none =>
    have h := fracOf_none (n.expRender ++ [])
      (headSat_exp_tail n [] (· == '.') ⟨by decide, by decide⟩ (fun _ => rfl))
    simpa [SvgNumber.fracRender, SvgNumber.fracDigits, hf] using h
  | some fs =>
    have hfs : allDigits fs = true := by simpa [SvgNumber.fracDigits, hf] using hfd
    simpa [SvgNumber.fracRender, SvgNumber.fracDigits, hf] using fracOf_point fs n.expRender hfs hZdig

/-- Rust's `f32::from_str` (as modelled, exact) reads the spelling of a number as its value -/
theorem parseF32_render (n : SvgNumber) (hwf : n.wf = true) : parseF32 n.render = .num n.denote := by
  obtain ⟨hi, hfd, hne, hexp⟩ := (wf_iff n).mp hwf
  have hbody := headSat_mantissa n hwf n.expRender
  have hS : signOf n.render = (n.sign.neg, n.int ++ (n.fracRender ++ n.expRender)) :=
    signOf_render _ _ (fun _ => headSat_mono (q := isSignChar)
      (by intro c hc
          simp only [Bool.or_eq_true, beq_iff_eq] at hc
          rcases hc with hc | rfl
          · exact digit_not_sign hc
          · rfl) hbody)
  have h0 : (n.int ++ (n.fracRender ++ n.expRender)).isEmpty = false := by
    cases hb : n.int ++ (n.fracRender ++ n.expRender) with
    | nil => rw [hb] at hbody; cases hbody
    | cons _ _ => rfl
  have h1 := not_special _ hbody
  have hYdig : headSat isDigit (n.fracRender ++ n.expRender) = false := by
    have := headSat_frac_tail n (n.expRender ++ []) isDigit (by decide)
      (fun _ => headSat_exp_tail n [] isDigit ⟨by decide, by decide⟩ (fun _ => rfl))
    simpa using this
  obtain ⟨h2, h3⟩ := takeWhile_run isDigit n.int _ hi hYdig
  have h4 := fracOf_render n hwf
  have h5 : (n.int.isEmpty && n.fracDigits.isEmpty) = false := by
    rcases hne with h | h <;> simp [h]
  have h6 := parseExp_expRender n hwf
  rw [parseF32_eq, hS]
  simp only [parseUnsigned, h0, h1, h2, h3, h4, h5, h6, Bool.false_eq_true, if_false]
  rw [mantissa_eq, scale_eq, denote_eq]
  rfl

theorem trim_of_no_ws (s : Str) (h : ∀ c ∈ s, isWs c = false) : trim s = s := by
  have hd : ∀ l : Str, (∀ c ∈ l, isWs c = false) → l.dropWhile isWs = l := by
    intro l hl
    cases l with
    | nil => rfl
    | cons a t => simp [hl a (by simp)]
  unfold trim trimStart trimEnd
  rw [hd s h, hd s.reverse (by intro c hc; exact h c (List.mem_reverse.mp hc)), List.reverse_reverse]

/-- the characters a number is written with -/
def isNumberChar (c : Char) : Bool := isDigit c || c == '.' || c == 'e' || c == 'E' || c == '+' || c == '-'

theorem numberChar_not_ws {c : Char} (h : isNumberChar c = true) : isWs c = false := by
  simp only [isNumberChar, Bool.or_eq_true, beq_iff_eq] at h
  rcases h with ((((h | rfl) | rfl) | rfl) | rfl) | rfl
  · exact digit_not_ws h
  all_goals decide

theorem render_chars (n : SvgNumber) (hwf : n.wf = true) : ∀ c ∈ n.render, isNumberChar c = true := by
  obtain ⟨hi, hfd, _, hexp⟩ := (wf_iff n).mp hwf
  have hdig : ∀ ds : Str, allDigits ds = true → ∀ c ∈ ds, isNumberChar c = true := by
    intro ds hds c hc
    have := List.all_eq_true.mp hds c hc
    simp [isNumberChar, this]
  have hsign : ∀ s : Sign, ∀ c ∈ s.render, isNumberChar c = true := by
    intro s c hc
    cases s <;> simp [Sign.render] at hc <;> subst hc <;> decide
  intro c hc
  simp only [SvgNumber.render, List.mem_append] at hc
  rcases hc with hc | hc | hc | hc
  · exact hsign _ c hc
  · exact hdig _ hi c hc
  · unfold SvgNumber.fracRender at hc
    cases hf : n.frac with
    | none => rw [hf] at hc; cases hc
    | some fs =>
      rw [hf] at hc
      have hfs : allDigits fs = true := by simpa [SvgNumber.fracDigits, hf] using hfd
      rcases List.mem_cons.mp hc with rfl | hc
      · decide
      · exact hdig _ hfs c hc
  · unfold SvgNumber.expRender at hc
    cases he : n.exp with
    | none => rw [he] at hc; cases hc
    | some e =>
      rw [he] at hc
      simp only [SvgExp.render, List.mem_cons, List.mem_append] at hc
      rcases hc with rfl | hc | hc
      · rcases letter_cases e with h | h <;> rw [h] <;> decide
      · exact hsign _ c hc
      · exact hdig _ (hexp e he).1 c hc

/-- **the value read is the value written** - with or without exponent, of any size: the model's `strp`
    computes in exact rationals (DESIGN §3.2), so there is no `strp_render_noexp` special case -/
theorem strp_render (n : SvgNumber) (hwf : n.wf = true) : strp n.render = some n.denote := by
  unfold strp
  rw [trim_of_no_ws _ (fun c hc => numberChar_not_ws (render_chars n hwf c hc)), parseF32_render n hwf]

/-! ### lists of numbers -/

theorem render_ne_nil (n : SvgNumber) (hwf : n.wf = true) : n.render ≠ [] := by
  intro h
  have hb := headSat_mantissa n hwf n.expRender
  have : n.int ++ (n.fracRender ++ n.expRender) = [] := by
    unfold SvgNumber.render at h
    exact (List.append_eq_nil_iff.mp h).2
  rw [this] at hb; cases hb

/-- a spelling starts with a character numbers are written with -/
theorem render_head (n : SvgNumber) (hwf : n.wf = true) (t : Str) :
    headSat isNumberChar (n.render ++ t) = true := by
  cases hr : n.render with
  | nil => exact absurd hr (render_ne_nil n hwf)
  | cons c u => exact render_chars n hwf c (by rw [hr]; simp)

theorem numberChar_not_sep {c : Char} (h : isNumberChar c = true) : isNumSep c = false := by
  simp only [isNumberChar, Bool.or_eq_true, beq_iff_eq] at h
  rcases h with ((((h | rfl) | rfl) | rfl) | rfl) | rfl
  · exact digit_not_sep h
  all_goals decide

/-- whitespace and commas never continue a number -/
theorem not_continuedBy_of_sep (n : SvgNumber) (s : Str) (h : isSepRun s = true) (t : Str)
    (ht : s = [] → n.continuedBy t = false) : n.continuedBy (s ++ t) = false := by
  cases s with
  | nil => exact ht rfl
  | cons c u =>
    simp only [isSepRun, List.all_cons, Bool.and_eq_true] at h
    have hc := h.1
    have hd : isDigit c = false := by
      cases hdc : isDigit c with
      | false => rfl
      | true => rw [digit_not_sep hdc] at hc; cases hc
    have h1 : c ≠ 'e' := by rintro rfl; revert hc; decide
    have h2 : c ≠ 'E' := by rintro rfl; revert hc; decide
    have h3 : c ≠ '.' := by rintro rfl; revert hc; decide
    simp [SvgNumber.continuedBy, hd, h1, h2, h3]

/-- a number that starts with a sign never continues the number before it -/
theorem not_continuedBy_sign (n n' : SvgNumber) (h : n'.startsWithSign = true) (t : Str) :
    n.continuedBy (n'.render ++ t) = false := by
  unfold SvgNumber.startsWithSign at h
  unfold SvgNumber.render
  cases hs : n'.sign with
  | absent => rw [hs] at h; cases h
  | plus => simp [Sign.render, SvgNumber.continuedBy]; decide
  | minus => simp [Sign.render, SvgNumber.continuedBy]; decide

/-- a number that starts with `.` does not continue a number that has a `.` or an exponent -/
theorem not_continuedBy_point (n n' : SvgNumber) (hwf : n'.wf = true) (h : n'.startsWithPoint = true)
    (hn : n.hasPointOrExp = true) (t : Str) : n.continuedBy (n'.render ++ t) = false := by
  obtain ⟨_, _, hne, _⟩ := (wf_iff n').mp hwf
  simp only [SvgNumber.startsWithPoint, Bool.and_eq_true, beq_iff_eq, List.isEmpty_iff] at h
  have hfd : n'.fracDigits.isEmpty = false := by
    rcases hne with h' | h'
    · rw [h.2] at h'; cases h'
    · exact h'
  unfold SvgNumber.render SvgNumber.fracRender
  unfold SvgNumber.fracDigits at hfd
  cases hf : n'.frac with
  | none => rw [hf] at hfd; cases hfd
  | some fs =>
    simp only [h.1, h.2, Sign.render, List.nil_append, List.cons_append, SvgNumber.continuedBy]
    simp only [SvgNumber.hasPointOrExp, Bool.or_eq_true] at hn
    rcases hn with hn | hn
    · cases hfr : n.frac with
      | none => rw [hfr] at hn; cases hn
      | some _ => cases n.exp <;> simp <;> decide
    · cases hex : n.exp with
      | none => rw [hex] at hn; cases hn
      | some _ => simp; decide

theorem itemsLegal_cons {n : SvgNumber} {sep : Str} {r : List NumItem} (h : itemsLegal ((n, sep) :: r) = true) :
    n.wf = true ∧ isSepRun sep = true ∧ itemsLegal r = true ∧
    n.continuedBy (sep ++ renderItems r) = false := by
  cases r with
  | nil =>
    simp only [itemsLegal, Bool.and_eq_true] at h
    refine ⟨h.1, h.2, rfl, ?_⟩
    exact not_continuedBy_of_sep n sep h.2 _ (fun _ => rfl)
  | cons b r =>
    obtain ⟨n', sep'⟩ := b
    simp only [itemsLegal, sepLegal, Bool.and_eq_true, Bool.or_eq_true, Bool.not_eq_true'] at h
    obtain ⟨⟨hwf, hsep, hempty⟩, hrest⟩ := h
    refine ⟨hwf, hsep, hrest, ?_⟩
    have hwf' : n'.wf = true := by
      cases r with
      | nil => simp only [itemsLegal, Bool.and_eq_true] at hrest; exact hrest.1
      | cons _ _ => simp only [itemsLegal, Bool.and_eq_true] at hrest; exact hrest.1.1
    apply not_continuedBy_of_sep n sep hsep
    intro hnil
    show n.continuedBy (n'.render ++ (sep' ++ renderItems r)) = false
    rcases hempty with (he | hs) | hp
    · rw [hnil] at he; cases he
    · exact not_continuedBy_sign n n' hs _
    · exact not_continuedBy_point n n' hwf' hp.1 hp.2 _

/-- **a list of numbers in the SVG grammar is read as the list of their values.**
    `lead` is leading whitespace / commas; every number is followed by its separator, which may be empty
    exactly where `sepLegal` allows it; one unit of fuel per number (and one for the end) is enough. -/
theorem number_list_accepted (items : List NumItem) : ∀ (lead : Str) (fuel : Nat),
    isSepRun lead = true → itemsLegal items = true → items.length < fuel →
    svgNumberList fuel (lead ++ renderItems items) = some (items.map (·.1.denote)) := by
  induction items with
  | nil =>
    intro lead fuel hlead _ hfuel
    obtain ⟨f, rfl⟩ : ∃ f, fuel = f + 1 := ⟨fuel - 1, by simp at hfuel; omega⟩
    have hd := (takeWhile_run isNumSep lead [] hlead rfl).2
    simp only [renderItems, svgNumberList, hd]
    rfl
  | cons it r ih =>
    intro lead fuel hlead hlegal hfuel
    obtain ⟨n, sep⟩ := it
    obtain ⟨hwf, hsep, hr, hcont⟩ := itemsLegal_cons hlegal
    obtain ⟨f, rfl⟩ : ∃ f, fuel = f + 1 := ⟨fuel - 1, by simp at hfuel; omega⟩
    have hhead : headSat isNumSep (n.render ++ (sep ++ renderItems r)) = false :=
      headSat_mono (fun _ => numberChar_not_sep) (render_head n hwf _)
    have hd := (takeWhile_run isNumSep lead _ hlead hhead).2
    have hscan := scanNumber_render n hwf _ hcont
    have hne : (n.render ++ (sep ++ renderItems r)).isEmpty = false := by
      cases hx : n.render ++ (sep ++ renderItems r) with
      | nil => exact absurd (List.append_eq_nil_iff.mp hx).1 (render_ne_nil n hwf)
      | cons _ _ => rfl
    have htok : n.render.isEmpty = false := by
      cases hx : n.render with
      | nil => exact absurd hx (render_ne_nil n hwf)
      | cons _ _ => rfl
    have hrec := ih sep f hsep hr (by simp at hfuel; omega)
    simp only [renderItems, svgNumberList, hd, hne, hscan, htok, strp_render n hwf, hrec,
      Bool.false_eq_true, if_false, Option.map_some, List.map_cons]


/-! ### the side condition of `scanNumber_render` is necessary -/

theorem headSat_dropWhile (p : Char → Bool) (s : Str) : headSat p (s.dropWhile p) = false := by
  induction s with
  | nil => rfl
  | cons c t ih =>
    by_cases h : p c = true
    · simp only [List.dropWhile_cons_of_pos h]; exact ih
    · simp only [List.dropWhile_cons_of_neg h]; simpa using h

/-- what remains after a number never starts with a digit -/
theorem scan_rest_not_digit (s : Str) : headSat isDigit (scanNumber s).2 = false := by
  unfold scanNumber
  simp only
  generalize (takeSign s).2 = a
  have hb : headSat isDigit (takeDigits a).2 = false := headSat_dropWhile isDigit a
  generalize (takeDigits a).2 = b at hb
  have hc : headSat isDigit (takeFrac b).2 = false := by
    unfold takeFrac
    split
    · exact headSat_dropWhile isDigit _
    · exact hb
  generalize (takeFrac b).2 = c at hc
  unfold takeExp
  split
  · split
    · exact headSat_dropWhile isDigit _
    · exact hc
  · rfl

/-- if what remains starts with `e` / `E`, an exponent was read -/
theorem scan_rest_exp (s : Str) (h : headSat isExpChar (scanNumber s).2 = true) :
    ∃ c ∈ (scanNumber s).1, isExpChar c = true := by
  unfold scanNumber at h ⊢
  simp only at h ⊢
  generalize (takeFrac (takeDigits (takeSign s).2).2).2 = x at h ⊢
  generalize (takeSign s).1 ++ (takeDigits (takeSign s).2).1 ++ (takeFrac (takeDigits (takeSign s).2).2).1 = pre
  unfold takeExp at h ⊢
  split at h
  · rename_i c r
    split at h
    · rename_i hc
      simp only [hc, if_true]
      exact ⟨c, by simp, hc⟩
    · rename_i hc
      simp only [headSat_cons, isExpChar] at h
      exact absurd h hc
  · cases h

/-- if what remains starts with `.`, a `.` or an exponent was read -/
theorem scan_rest_point (s : Str) (h : headSat (· == '.') (scanNumber s).2 = true) :
    ∃ c ∈ (scanNumber s).1, (c == '.' || isExpChar c) = true := by
  unfold scanNumber at h ⊢
  simp only at h ⊢
  generalize (takeDigits (takeSign s).2).2 = y at h ⊢
  generalize (takeSign s).1 ++ (takeDigits (takeSign s).2).1 = pre
  -- either the exponent branch was taken, or the fraction branch
  by_cases he : ∃ c r, (takeFrac y).2 = c :: r ∧ isExpChar c = true
  · obtain ⟨c, r, hx, hc⟩ := he
    refine ⟨c, ?_, by simp [hc]⟩
    rw [hx]
    have hc' : (c == 'e' || c == 'E') = true := hc
    simp only [takeExp, hc', if_true]
    simp
  · have hx : takeExp (takeFrac y).2 = ([], (takeFrac y).2) := by
      apply takeExp_none
      cases hx : (takeFrac y).2 with
      | nil => rfl
      | cons c r =>
        cases hc : isExpChar c with
        | false => simpa using hc
        | true => exact absurd ⟨c, r, hx, hc⟩ he
    rw [hx] at h ⊢
    simp only at h
    unfold takeFrac at h ⊢
    split at h
    · exact ⟨'.', by simp, rfl⟩
    · rename_i hy
      exfalso
      cases y with
      | nil => cases h
      | cons c t =>
        simp only [headSat_cons, beq_iff_eq] at h
        exact hy t (by rw [h])

theorem not_expChar_of_digit {c : Char} (h : isDigit c = true) : isExpChar c = false := by
  have h1 := digit_ne h (d := 'e') (by decide)
  have h2 := digit_ne h (d := 'E') (by decide)
  simp [isExpChar, h1, h2]

theorem sign_chars (s : Sign) : ∀ c ∈ s.render, (c == '.' || isExpChar c) = false := by
  intro c hc
  cases s <;> simp [Sign.render] at hc <;> subst hc <;> decide

theorem digits_chars {ds : Str} (hd : allDigits ds = true) : ∀ c ∈ ds, (c == '.' || isExpChar c) = false := by
  intro c hc
  have := List.all_eq_true.mp hd c hc
  have h1 := digit_ne this (d := '.') (by decide)
  simp [not_expChar_of_digit this, h1]

/-! the cases of `continuedBy` that matter in SVG content, spelled out -/

/-- the end of the input does not continue a number -/
theorem not_continuedBy_nil (n : SvgNumber) : n.continuedBy [] = false := rfl

/-- nor does anything but a digit, `e`, `E` or `.` : a sign, a comma, whitespace, a command letter, ... -/
theorem not_continuedBy_other (n : SvgNumber) (c : Char) (t : Str)
    (h : isDigit c = false ∧ c ≠ 'e' ∧ c ≠ 'E' ∧ c ≠ '.') : n.continuedBy (c :: t) = false := by
  simp [SvgNumber.continuedBy, h.1, h.2.1, h.2.2.1, h.2.2.2]

/-- nor `.` after a number that has a `.` or an exponent (".5.5", "1e1.5") -/
theorem not_continuedBy_dot (n : SvgNumber) (t : Str) (h : n.hasPointOrExp = true) :
    n.continuedBy ('.' :: t) = false := by
  simp only [SvgNumber.hasPointOrExp, Bool.or_eq_true] at h
  rcases h with h | h
  · cases hf : n.frac with
    | none => rw [hf] at h; cases h
    | some _ =>
      have hd : isDigit '.' = false := by decide
      cases n.exp <;> simp [SvgNumber.continuedBy, hf, hd]
  · cases he : n.exp with
    | none => rw [he] at h; cases h
    | some _ =>
      have hd : isDigit '.' = false := by decide
      simp [SvgNumber.continuedBy, he, hd]

/-- while a digit always does, `e` / `E` does when there is no exponent, and `.` does when there is
    neither a `.` nor an exponent -/
theorem continuedBy_digit (n : SvgNumber) (c : Char) (t : Str) (h : isDigit c = true) :
    n.continuedBy (c :: t) = true := by
  simp [SvgNumber.continuedBy, h]

/-- **the side condition of `scanNumber_render` is exactly what the scanner needs**: the scanner cuts
    `n.render ++ rest` after `n.render` if and only if `rest` does not continue the number -/
theorem scanNumber_render_iff (n : SvgNumber) (hwf : n.wf = true) (rest : Str) :
    scanNumber (n.render ++ rest) = (n.render, rest) ↔ n.continuedBy rest = false := by
  refine ⟨fun h => ?_, scanNumber_render n hwf rest⟩
  obtain ⟨hi, hfd, _, hexp⟩ := (wf_iff n).mp hwf
  have h1 := scan_rest_not_digit (n.render ++ rest)
  rw [h] at h1
  rw [continuedBy_eq_false]
  refine ⟨h1, ?_, ?_⟩
  · intro he
    cases hr : headSat isExpChar rest with
    | false => rfl
    | true =>
      exfalso
      obtain ⟨c, hc, hcc⟩ := scan_rest_exp (n.render ++ rest) (by rw [h]; exact hr)
      rw [h] at hc
      simp only [SvgNumber.render, SvgNumber.expRender, he, List.append_nil, List.mem_append] at hc
      have hfr : ∀ c ∈ n.fracRender, isExpChar c = false := by
        intro c hc
        unfold SvgNumber.fracRender at hc
        cases hf : n.frac with
        | none => rw [hf] at hc; cases hc
        | some fs =>
          rw [hf] at hc
          have hfs : allDigits fs = true := by simpa [SvgNumber.fracDigits, hf] using hfd
          rcases List.mem_cons.mp hc with rfl | hc
          · rfl
          · have := digits_chars hfs c hc; simp at this; exact this.2
      rcases hc with hc | hc | hc
      · have := sign_chars _ c hc; simp at this; rw [this.2] at hcc; cases hcc
      · have := digits_chars hi c hc; simp at this; rw [this.2] at hcc; cases hcc
      · rw [hfr c hc] at hcc; cases hcc
  · intro he hf
    cases hr : headSat (· == '.') rest with
    | false => rfl
    | true =>
      exfalso
      obtain ⟨c, hc, hcc⟩ := scan_rest_point (n.render ++ rest) (by rw [h]; exact hr)
      rw [h] at hc
      simp only [SvgNumber.render, SvgNumber.expRender, SvgNumber.fracRender, he, hf, List.append_nil,
        List.mem_append] at hc
      rcases hc with hc | hc
      · rw [sign_chars _ c hc] at hcc; cases hcc
      · rw [digits_chars hi c hc] at hcc; cases hcc

theorem items_length_le (items : List NumItem) (h : itemsLegal items = true) :
    items.length ≤ (renderItems items).length := by
  induction items with
  | nil => exact Nat.le_refl _
  | cons it r ih =>
    obtain ⟨n, sep⟩ := it
    obtain ⟨hwf, _, hr, _⟩ := itemsLegal_cons h
    have h1 := List.length_pos_iff.mpr (render_ne_nil n hwf)
    have h2 := ih hr
    simp only [renderItems, List.length_append, List.length_cons]
    omega

/-- the same with the fuel the callers use (`points`, transform arguments): the length of the string -/
theorem number_list_accepted_len (lead : Str) (items : List NumItem) (hlead : isSepRun lead = true)
    (hitems : itemsLegal items = true) :
    svgNumberList ((lead ++ renderItems items).length + 1) (lead ++ renderItems items) =
      some (items.map (·.1.denote)) := by
  apply number_list_accepted items lead _ hlead hitems
  have := items_length_le items hitems
  simp only [List.length_append]
  omega

/-- instances of the hypotheses of `scanNumber_render` / `strp_render`: "1e-3" before ".5", "1." before
    "-2", "+.5e+2" at the end; and "1" IS continued by ".5" -/
example :
    let a : SvgNumber := { int := ['1'], exp := some { sign := .minus, digits := ['3'] } }
    let b : SvgNumber := { int := ['1'], frac := some [] }
    let c : SvgNumber := { sign := .plus, int := [], frac := some ['5'], exp := some { sign := .plus, digits := ['2'] } }
    let d : SvgNumber := { int := ['1'] }
    (a.wf = true ∧ a.render = cs!"1e-3" ∧ a.continuedBy cs!".5" = false ∧ a.denote = 1 / 1000) ∧
    (b.wf = true ∧ b.render = cs!"1." ∧ b.continuedBy cs!"-2" = false ∧ b.denote = 1) ∧
    (c.wf = true ∧ c.render = cs!"+.5e+2" ∧ c.continuedBy [] = false ∧ c.denote = 50) ∧
    (d.wf = true ∧ d.continuedBy cs!".5" = true ∧ d.continuedBy cs!"e1" = true ∧ d.continuedBy cs!"em" = true) := by
  decide +kernel

/-- instance: "10-3,.5.5 1e1 +.5e+2 1.-2" -/
example :
    let items : List NumItem := [
      ({ int := cs!"10" }, []),
      ({ sign := .minus, int := cs!"3" }, [',']),
      ({ int := [], frac := some cs!"5" }, []),
      ({ int := [], frac := some cs!"5" }, [' ']),
      ({ int := cs!"1", exp := some { digits := cs!"1" } }, [' ']),
      ({ sign := .plus, int := [], frac := some cs!"5", exp := some { sign := .plus, digits := cs!"2" } }, [' ']),
      ({ int := cs!"1", frac := some [] }, []),
      ({ sign := .minus, int := cs!"2" }, [])]
    renderItems items = cs!"10-3,.5.5 1e1 +.5e+2 1.-2" ∧ itemsLegal items = true ∧
    items.map (·.1.denote) = [10, -3, 1/2, 1/2, 10, 50, 1, -2] := by decide +kernel

end Svgdx.NumSpec

#print axioms Svgdx.NumSpec.scanNumber_render
#print axioms Svgdx.NumSpec.scanNumber_render_iff
#print axioms Svgdx.NumSpec.parseF32_render
#print axioms Svgdx.NumSpec.strp_render
#print axioms Svgdx.NumSpec.number_list_accepted
#print axioms Svgdx.NumSpec.number_list_accepted_len
