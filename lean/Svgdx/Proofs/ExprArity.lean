/-
  Svgdx.Proofs.ExprArity — a fixed-arity built-in applied to another number of (flattened) arguments
  fails.
-/
import Svgdx.Expr.Spec
namespace Svgdx
namespace Expr
open Str

/-- the number of arguments of the built-ins that take a fixed number -/
def Func.arity : Func → Option Nat
  | .Abs | .Ceil | .Floor | .Fract | .Sign | .Sqrt | .Log | .Exp | .Sin | .Cos | .Tan
  | .Asin | .Acos | .Atan | .Not | .Splitw | .Trim | .Text => some 1
  | .DivMod | .Pow | .RandInt | .Equal | .NotEqual | .LessThan | .LessThanEqual | .GreaterThan
  | .GreaterThanEqual | .And | .Or | .Xor | .Swap | .Rect2Polar | .Polar2Rect | .Split => some 2
  | .Clamp | .Mix | .If => some 3
  | _ => none

section
variable {α σ : Type}

theorem atomsNumbers_length (l : List (Atom α)) (r : List α) (h : Value.atomsNumbers l = some r) :
    r.length = l.length := by
  induction l generalizing r with
  | nil => simp [Value.atomsNumbers] at h; simp [h]
  | cons a t ih =>
    cases a with
    | num x =>
      simp [Value.atomsNumbers] at h
      obtain ⟨r', hr', rfl⟩ := h
      simp [ih r' hr']
    | str s => simp [Value.atomsNumbers] at h
    | text s => simp [Value.atomsNumbers] at h

theorem atomsStrings_length (l : List (Atom α)) (r : List Str) (h : Value.atomsStrings l = some r) :
    r.length = l.length := by
  induction l generalizing r with
  | nil => simp [Value.atomsStrings] at h; simp [h]
  | cons a t ih =>
    cases a with
    | num x => simp [Value.atomsStrings] at h
    | str s =>
      simp [Value.atomsStrings] at h
      obtain ⟨r', hr', rfl⟩ := h
      simp [ih r' hr']
    | text s =>
      simp [Value.atomsStrings] at h
      obtain ⟨r', hr', rfl⟩ := h
      simp [ih r' hr']

theorem numberList_length (v : Value α) (r : List α) (h : v.numberList = .ok r) :
    r.length = v.flatten.length := by
  unfold Value.numberList at h
  split at h
  · rename_i l hl
    cases h
    exact atomsNumbers_length _ _ hl
  · cases h

theorem stringList_length (v : Value α) (r : List Str) (h : v.stringList = .ok r) :
    r.length = v.flatten.length := by
  unfold Value.stringList at h
  split at h
  · rename_i l hl
    cases h
    exact atomsStrings_length _ _ hl
  · cases h

theorem oneNumber_len (v : Value α) (x : α) (h : v.oneNumber = .ok x) : v.flatten.length = 1 := by
  unfold Value.oneNumber at h
  split at h <;> simp_all [Value.flatten]

theorem numberPair_len (v : Value α) (p : α × α) (h : v.numberPair = .ok p) :
    v.flatten.length = 2 := by
  unfold Value.numberPair at h
  split at h
  · rename_i a b hl
    have := numberList_length v _ hl
    simpa using this.symm
  · cases h

theorem numberTriple_len (v : Value α) (p : α × α × α) (h : v.numberTriple = .ok p) :
    v.flatten.length = 3 := by
  unfold Value.numberTriple at h
  split at h
  · rename_i a b c hl
    have := numberList_length v _ hl
    simpa using this.symm
  · cases h

theorem pair_len (v : Value α) (p : Atom α × Atom α) (h : v.pair = .ok p) :
    v.flatten.length = 2 := by
  unfold Value.pair at h
  split at h
  · rename_i a b hl
    simp [hl]
  · cases h

theorem oneString_len (v : Value α) (s : Str) (h : v.oneString = .ok s) : v.flatten.length = 1 := by
  unfold Value.oneString at h
  split at h
  · rename_i a hl
    have := stringList_length v _ hl
    simpa using this.symm
  · cases h

theorem stringPair_len (v : Value α) (p : Str × Str) (h : v.stringPair = .ok p) :
    v.flatten.length = 2 := by
  unfold Value.stringPair at h
  split at h
  · rename_i a b hl
    have := stringList_length v _ hl
    simpa using this.symm
  · cases h

variable (o : Ops α σ)

/-- a successful call of a fixed-arity built-in had exactly that many arguments -/
theorem evalFunction_ok_arity (f : Func) (args : Value α) (st : σ) (r : Value α × σ) (n : Nat)
    (ha : f.arity = some n) (h : evalFunction o f args st = .ok r) : args.flatten.length = n := by
  cases f <;> simp [Func.arity] at ha <;> subst ha <;> simp only [evalFunction] at h <;>
    (split at h) <;>
    first
      | (rename_i hx; first
          | exact oneNumber_len _ _ hx
          | exact numberPair_len _ _ hx
          | exact numberTriple_len _ _ hx
          | exact pair_len _ _ hx
          | exact oneString_len _ _ hx
          | exact stringPair_len _ _ hx)
      | (rename_i hx; simp [hx])
      | cases h
      | skip

end
end Expr
end Svgdx
