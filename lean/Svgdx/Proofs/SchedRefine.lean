/-
  Svgdx.Proofs.SchedRefine — the concrete retry loop on a list of leaf elements computes what the abstract
  scheduler (`Svgdx.Sched`, order independence proved in `Svgdx.Proofs.Sched`) computes; hence order
  independence of the CONCRETE model for a stated class of documents.

  Loop part (generic): `Svgdx.Proofs.SchedLoop` (`LeafSpec`, `processNodes_sim`). This file: the leaf step.
    `IdEval ev`      the evaluator is the identity on attribute strings (documents free of `$`, `{{`);
    `pipe c e`       `otherPipeline` with the evaluator removed (`otherPipeline_id`);
    `itemOfElem`     the abstract item of an element: literal id, `pipe` against the context of the view
                     (`ctxV`: the resolved ids, no previous element); monotone by `Svgdx.Proofs.Monotone`;
    `Tame Shape e`   the side condition on one element; four fields are syntax, three (`prevFree`,
                     `noDepthErr`, `result`) are semantic facts about the geometry pipeline of that ONE
                     element, assumed, not derived from syntax here (PARTIAL in this respect);
    `Plain`, `Init`  documents and initial states;
    `refinement`, `refinement_iff`, `concrete_order_independent`, `success_is_complete`,
    `failure_is_final`; closed instances in `Example` (kernel evaluation, `simpleEvalr`).
  Not covered: the emitted events / bounding box of `processNodes` (only success, the element table and the
  error kind are related to the abstract run).
-/
import Svgdx.Proofs.SchedLoop
import Svgdx.Proofs.Monotone
import Svgdx.Proofs.DefaultsApply
import Svgdx.Ctl.SimpleEval
namespace Svgdx.SchedRefine
open Svgdx Ctl Gen Str SchedLoop

variable {ρ : Type}

/-! ## the evaluator on expression-free attributes -/

/-- the evaluator leaves every attribute string as it is (documents free of `$` and `{{`) -/
def IdEval (ev : Evalr ρ) : Prop := ∀ c env r s, ev.evalAttr c env r s = .ok (s, r)

theorem foldlM_ok {α β : Type} (f : β → α → Except Err β) (g : β → α → β)
    (h : ∀ b a, f b a = .ok (g b a)) (l : List α) (b : β) : l.foldlM f b = .ok (l.foldl g b) := by
  induction l generalizing b with
  | nil => rfl
  | cons a l ih => simp only [List.foldlM_cons, List.foldl_cons, h]; exact ih _

/-- `eval_attributes` under the identity evaluator: every attribute except `__` is written back
    (`AttrMap::insert` re-sorts by priority), every class is removed and re-inserted -/
def idAttrs (e : Elem) : Elem :=
  let e1 := e.attrs.foldl
    (fun (acc : Elem) (kv : Str × Str) => if kv.1 == cs!"__" then acc else acc.setAttr kv.1 kv.2) e
  { e1 with classes := (e1.classes.foldl
      (fun (acc : List Str) (c : Str) => (splitWhitespace c).foldl classInsert (classRemove acc c).1) e1.classes) }

theorem foldl_pair {α β γ : Type} (g : β → α → β) (l : List α) (b : β) (r : γ) :
    l.foldl (fun (acc : β × γ) a => (g acc.1 a, acc.2)) (b, r) = (l.foldl g b, r) := by
  induction l generalizing b with
  | nil => rfl
  | cons a l ih => simp only [List.foldl_cons]; exact ih _

theorem evalAttributes_id {ev : Evalr ρ} (hev : IdEval ev) (st : St ρ) (e : Elem) :
    evalAttributes ev st e = .ok (idAttrs e, st.rng) := by
  unfold evalAttributes
  rw [foldlM_ok _ (fun (acc : Elem × ρ) (kv : Str × Str) =>
      ((if kv.1 == cs!"__" then acc.1 else acc.1.setAttr kv.1 kv.2), acc.2))]
  · rw [foldl_pair (fun (acc : Elem) (kv : Str × Str) => if kv.1 == cs!"__" then acc else acc.setAttr kv.1 kv.2)]
    simp only [bind, Except.bind]
    rw [foldlM_ok _ (fun (acc : List Str × ρ) (c : Str) =>
      ((splitWhitespace c).foldl classInsert (classRemove acc.1 c).1, acc.2))]
    · rw [foldl_pair (fun (acc : List Str) (c : Str) => (splitWhitespace c).foldl classInsert (classRemove acc c).1)]
      rfl
    · intro b a
      simp only [pure, Except.pure]
      rw [hev st.geo st.env b.2 a]
  · intro b a
    simp only [bind, Except.bind, pure, Except.pure]
    split
    · rfl
    · rw [hev st.geo st.env b.2 a.2]


/-! ## the pipeline of one leaf element under the identity evaluator -/

/-- `otherPipeline` with the evaluator removed: evaluate (identity), resolve, connector, dx/dy, evaluate, resolve -/
def pipe (c : Ctx) (e : Elem) : Except Err Elem := do
  let e2 ← (idAttrs e).resolvePosition c
  let e3 ← Conn.transmuteConnector c e2
  let e4 ← e3.transmuteDxDy
  (idAttrs e4).resolvePosition c

theorem otherPipeline_id {ev : Evalr ρ} (hev : IdEval ev) (st : St ρ) (e : Elem) :
    otherPipeline ev st e = (pipe st.geo e).map (fun e' => (e', st.rng)) := by
  unfold otherPipeline pipe
  simp only [evalAttributes_id hev, bind, Except.bind, Except.map]
  cases (idAttrs e).resolvePosition st.geo with
  | error er => rfl
  | ok e2 =>
    simp only []
    cases Conn.transmuteConnector st.geo e2 with
    | error er => rfl
    | ok e3 =>
      simp only []
      cases e3.transmuteDxDy with
      | error er => rfl
      | ok e4 =>
        simp only []
        cases (idAttrs e4).resolvePosition st.geo with
        | error er => rfl
        | ok e6 => rfl

/-- the names `dispatch` treats specially -/
def ctlName (n : Str) : Bool :=
  n == cs!"loop" || n == cs!"config" || n == cs!"reuse" || n == cs!"specs" || n == cs!"var" || n == cs!"if" ||
    n == cs!"defaults" || n == cs!"for" || n == ['g'] || n == cs!"symbol"

theorem dispatch_leaf (ev : Evalr ρ) (fuel : Nat) (st : St ρ) (e : Elem) (h : ctlName e.name = false) :
    dispatch ev (fuel + 1) st e none = genOther ev st e := by
  simp only [ctlName, Bool.or_eq_false_iff] at h
  obtain ⟨⟨⟨⟨⟨⟨⟨⟨⟨h1, h2⟩, h3⟩, h4⟩, h5⟩, h6⟩, h7⟩, h8⟩, h9⟩, h10⟩ := h
  rw [Ctl.dispatch]
  simp [h1, h2, h3, h4, h5, h6, h7, h8, h9, h10]

theorem clipPost_none (ev : Evalr ρ) (e : Elem) (x : St ρ × Res) (h : e.getAttr cs!"clip-path" = none) :
    clipPost ev e x = x := by
  unfold clipPost
  split
  · simp [h]
  · rfl

theorem seq_tail_none (x : St ρ × Res) :
    seq x (fun st r => (st, (.ok (withTail none r.1, r.2) : Res))) = x := by
  obtain ⟨s, r⟩ := x
  cases r with
  | error er => rfl
  | ok v => rfl

theorem registerOriginal_same (ev : Evalr ρ) (st : St ρ) (e : Elem) (kids : Option Nodes) :
    (registerOriginal ev st e kids).geo = st.geo ∧ (registerOriginal ev st e kids).scopes = st.scopes ∧
    (registerOriginal ev st e kids).depth = st.depth ∧ (registerOriginal ev st e kids).cfg = st.cfg ∧
    (registerOriginal ev st e kids).inSpecs = st.inSpecs ∧ (registerOriginal ev st e kids).rng = st.rng ∧
    st.gen ≤ (registerOriginal ev st e kids).gen := by
  unfold registerOriginal
  split
  · exact ⟨rfl, rfl, rfl, rfl, rfl, rfl, Nat.le_refl _⟩
  · refine ⟨rfl, rfl, rfl, rfl, rfl, rfl, ?_⟩
    have : ∀ b : Bool, st.gen ≤ if b = true then st.gen else st.gen + 1 := by
      intro b; cases b <;> simp
    exact this _

/-- the state in which `genOther` runs for a leaf tag -/
def enter (ev : Evalr ρ) (st : St ρ) (e : Elem) : St ρ :=
  { registerOriginal ev st e none with depth := (registerOriginal ev st e none).depth + 1 }

/-- one tag that is a leaf element: early registration, defaults (none in force), depth accounting,
    dispatch to `genOther`, no clip-path -/
theorem tagStep_leaf (ev : Evalr ρ) (fuel : Nat) (st : St ρ) (e : Elem)
    (hname : ctlName e.name = false) (hclip : e.getAttr cs!"clip-path" = none)
    (hdef : defaultsInForce st.scopes = []) (hdepth : ¬ st.depth + 1 > st.cfg.depthLimit) :
    tagStep ev (fuel + 3) st (.elem e none none) =
      ({ (genOther ev (enter ev st e) e).1 with depth := (genOther ev (enter ev st e) e).1.depth - 1 },
        (genOther ev (enter ev st e) e).2) := by
  obtain ⟨hgeo, hsc, hd, hcfg, _, _, _⟩ := registerOriginal_same ev st e none
  have hdepth' : ¬ (registerOriginal ev st e none).depth + 1 > (registerOriginal ev st e none).cfg.depthLimit := by
    rw [hd, hcfg]; exact hdepth
  unfold tagStep registerEarly
  rw [Ctl.genNode]
  simp only [leafDefaults, applyDefaults, hsc, hdef, applyDefaultList_nil]
  rw [seq_tail_none, Ctl.genElem]
  rw [if_neg hdepth']
  simp only [dispatch_leaf ev fuel _ e hname, clipPost_none ev e _ hclip]
  rfl


theorem genOther_err {ev : Evalr ρ} (hev : IdEval ev) (st : St ρ) (e : Elem) (er : Err)
    (hp : pipe st.geo e = .error er) : genOther ev st e = (st, .error (.geom er)) := by
  unfold genOther
  rw [otherPipeline_id hev, hp]
  rfl

theorem filter_of_lookup_none {β : Type} (t : List (Str × β)) (i : Str) (h : Attrs.lookupTable t i = none) :
    t.filter (fun kv => kv.1 != i) = t := by
  induction t with
  | nil => rfl
  | cons x xs ih =>
    obtain ⟨k, v⟩ := x
    simp only [Attrs.lookupTable] at h
    split at h
    · cases h
    · rename_i hk
      have hk' : (k == i) = false := by simpa using hk
      simp only [List.filter_cons, bne, hk', Bool.not_false, if_true]
      exact congrArg _ (ih h)

theorem updateElement_fresh {ev : Evalr ρ} (hev : IdEval ev) (st : St ρ) (e' : Elem) (i : Str)
    (hid : e'.getAttr cs!"id" = some i) (hfresh : Attrs.lookupTable st.geo.elems i = none) :
    (updateElement ev st e').geo = { st.geo with elems := (i, e') :: st.geo.elems } ∧
    (updateElement ev st e').scopes = st.scopes ∧ (updateElement ev st e').inSpecs = st.inSpecs ∧
    (updateElement ev st e').depth = st.depth ∧ (updateElement ev st e').cfg = st.cfg ∧
    (updateElement ev st e').rng = st.rng ∧ st.gen < (updateElement ev st e').gen := by
  unfold updateElement
  simp only [hid, hev st.geo st.env st.rng i, hfresh, filter_of_lookup_none _ _ hfresh]
  simp only [true_and]
  have h1 : decide ((none : Option Elem) = some e') = false := by simp
  rw [h1]
  simp only [Bool.false_eq_true, if_false]
  omega

theorem commentEvents_id {ev : Evalr ρ} (hev : IdEval ev) (st : St ρ) (e : Elem) :
    ∃ evs, commentEvents ev st e = (st, .ok evs) := by
  unfold commentEvents
  split
  · rename_i c _
    rw [hev st.geo st.env st.rng c]
    exact ⟨_, rfl⟩
  · exact ⟨_, rfl⟩

theorem genOther_ok {ev : Evalr ρ} (hev : IdEval ev) (st : St ρ) (e e' : Elem) (i : Str)
    (b : Option BoundingBox) (evs : List Ev)
    (hp : pipe st.geo e = .ok e') (hid : e'.getAttr cs!"id" = some i)
    (hfresh : Attrs.lookupTable st.geo.elems i = none)
    (hbb : ∀ c : Ctx, c.bb e' = .ok b) (hsh : shapeEvents e' = .ok evs) :
    ∃ st' evs', genOther ev st e = (st', .ok (evs', if e'.name == cs!"point" then none else b)) ∧
      st'.geo.elems = (i, e') :: st.geo.elems ∧ st'.scopes = st.scopes ∧ st'.inSpecs = st.inSpecs ∧
      st'.depth = st.depth ∧ st'.cfg = st.cfg ∧ st.gen < st'.gen := by
  obtain ⟨hg, hs, hi, hd, hc, hr, hgen⟩ := updateElement_fresh hev st e' i hid hfresh
  unfold genOther
  rw [otherPipeline_id hev, hp]
  simp only [Except.map, withRng, seq]
  have hst : ({ st with rng := st.rng } : St ρ) = st := rfl
  rw [hst, hbb]
  simp only []
  cases hb : b.isSome with
  | false =>
    simp only [Bool.false_eq_true, if_false, elementEvents, seq]
    obtain ⟨cevs, hce⟩ := commentEvents_id hev (updateElement ev st e') e'
    rw [hce]
    simp only [hsh, Except.map]
    exact ⟨_, _, rfl, by rw [hg], hs, hi, hd, hc, hgen⟩
  | true =>
    simp only [if_true, elementEvents, seq]
    obtain ⟨cevs, hce⟩ := commentEvents_id hev (setPrev (updateElement ev st e') e') e'
    rw [hce]
    simp only [hsh, Except.map]
    refine ⟨_, _, rfl, ?_, hs, hi, hd, hc, ?_⟩
    · simp only [setPrev, hg]
    · have : (updateElement ev st e').gen ≤ (setPrev (updateElement ev st e') e').gen := by
        simp only [setPrev]
        split <;> omega
      omega


/-! ## the abstract item of a leaf element -/

def okOf {α : Type} : Except Err α → Option α
  | .ok a => some a
  | .error _ => none

theorem okOf_some {α : Type} {x : Except Err α} {a : α} : okOf x = some a ↔ x = .ok a := by
  cases x <;> simp [okOf]

theorem okOf_none {α : Type} {x : Except Err α} : okOf x = none ↔ ∃ er, x = .error er := by
  cases x <;> simp [okOf]

/-- the context a view of the resolved elements stands for: the ids of the document that are resolved,
    no previous element -/
def ctxV (ids : List Str) (f : Str → Option Elem) : Ctx :=
  { elems := ids.filterMap (fun i => (f i).map (fun v => (i, v))), prev := none }

def idOf (e : Elem) : Str := (e.getAttr cs!"id").getD []

/-- **the abstract item of a leaf element**: its literal id, and the geometry pipeline against the
    context of the view -/
def itemOfElem (ids : List Str) (e : Elem) : Sched.Item Str Elem :=
  ⟨idOf e, fun f => okOf (pipe (ctxV ids f) e)⟩

def nodeElem : Node → Elem
  | .elem e _ _ => e
  | _ => default

def itemOf (ids : List Str) (n : Node) : Sched.Item Str Elem := itemOfElem ids (nodeElem n)

theorem get_ctxV (ids : List Str) (f : Str → Option Elem) (i : Str) :
    (ctxV ids f).get (.id i) = if i ∈ ids then f i else none := by
  unfold ctxV Ctx.get
  simp only []
  induction ids with
  | nil => rfl
  | cons j ids ih =>
    simp only [List.filterMap_cons]
    cases hj : f j with
    | none =>
      simp only [Option.map_none, ih, List.mem_cons]
      by_cases hij : i = j
      · subst hij; simp [hj]
      · simp [hij]
    | some v =>
      simp only [Option.map_some, Attrs.lookupTable, List.mem_cons]
      by_cases hij : j = i
      · subst hij; simp [hj]
      · have h1 : (j == i) = false := by simpa using hij
        have h2 : ¬ i = j := fun h => hij h.symm
        simp only [h1, Bool.false_eq_true, if_false, ih, h2, false_or]

theorem keys_ctxV_sublist (ids : List Str) (f : Str → Option Elem) :
    ((ctxV ids f).elems.map Prod.fst).Sublist ids := by
  unfold ctxV
  simp only []
  induction ids with
  | nil => simp
  | cons j ids ih =>
    simp only [List.filterMap_cons]
    cases f j with
    | none => exact ih.cons _
    | some v => simpa using ih.cons_cons j

theorem idAttrs_name (e : Elem) : (idAttrs e).name = e.name := by
  unfold idAttrs
  simp only []
  generalize e.attrs = l
  suffices h : ∀ (l : List (Str × Str)) (a : Elem), (l.foldl
      (fun (acc : Elem) (kv : Str × Str) => if kv.1 == cs!"__" then acc else acc.setAttr kv.1 kv.2) a).name = a.name
    from h l e
  intro l
  induction l with
  | nil => intro a; rfl
  | cons x xs ih =>
    intro a
    simp only [List.foldl_cons]
    rw [ih]
    split <;> rfl

open _root_.Svgdx.Monotone in
/-- the leaf pipeline is monotone in the context (from `Svgdx.Proofs.Monotone`) -/
theorem pipe_le {c c' : Ctx} (h : Ctx.Incl c c') (hlen : c.elems.length ≤ c'.elems.length) (e : Elem)
    (hn : NoRelspecName e) : Le (pipe c e) (pipe c' e) := by
  unfold pipe
  have hn1 : NoRelspecName (idAttrs e) := hn.congr (idAttrs_name e)
  refine Le.bind (resolvePosition_mono_le h hlen _ hn1) (fun e2 h2 => ?_)
  have hn2 : NoRelspecName e2 := hn1.congr (resolvePosition_name h2)
  refine Le.bind (transmuteConnector_mono h hlen e2) (fun e3 h3 => ?_)
  have hn3 : NoRelspecName e3 := transmuteConnector_noRelspec hn2 h3
  refine Le.bind (Le.refl _) (fun e4 h4 => ?_)
  have hn4 : NoRelspecName (idAttrs e4) := (hn3.congr (transmuteDxDy_name h4)).congr (idAttrs_name e4)
  exact resolvePosition_mono_le h hlen _ hn4

theorem okOf_le {α : Type} {x y : Except Err α} (h1 : Monotone.Le x y) (h2 : Monotone.Le y x) :
    okOf x = okOf y := by
  cases x with
  | ok a => rw [h1 a rfl]
  | error er =>
    cases y with
    | ok b => have := h2 b rfl; cases this
    | error er' => rfl

/-- the abstract item is monotone in the sense of the scheduler -/
theorem itemOfElem_monotone (ids : List Str) (hids : ids.Nodup) (e : Elem) (hn : Monotone.NoRelspecName e) :
    Sched.Monotone (itemOfElem ids e) := by
  intro f g hfg v hv
  simp only [itemOfElem] at hv ⊢
  rw [okOf_some] at hv ⊢
  have hi : Ctx.Incl (ctxV ids f) (ctxV ids g) := by
    refine ⟨rfl, fun i el hg => ?_⟩
    rw [get_ctxV] at hg ⊢
    split at hg
    · rename_i hm; rw [if_pos hm]; exact hfg i el hg
    · cases hg
  exact pipe_le hi (Monotone.Incl.length_le hi ((keys_ctxV_sublist ids f).nodup hids)) e hn v hv

/-- a context of the concrete loop against the context of its view -/
theorem pipe_ctxV (ids : List Str) (hids : ids.Nodup) (env : List (Str × Elem))
    (hnd : (env.map Prod.fst).Nodup) (hsub : ∀ k ∈ env.map Prod.fst, k ∈ ids) (e : Elem)
    (hn : Monotone.NoRelspecName e) :
    okOf (pipe { elems := env, prev := none } e) = okOf (pipe (ctxV ids (Sched.view env)) e) := by
  have hget : ∀ i, ({ elems := env, prev := none } : Ctx).get (.id i) = Sched.view env i :=
    fun i => Monotone.get_ctxOf none env i
  have h1 : Ctx.Incl { elems := env, prev := none } (ctxV ids (Sched.view env)) := by
    refine ⟨rfl, fun i el hg => ?_⟩
    rw [get_ctxV, if_pos (hsub i (Monotone.mem_of_lookupTable env i el hg)), ← hget]
    exact hg
  have h2 : Ctx.Incl (ctxV ids (Sched.view env)) { elems := env, prev := none } := by
    refine ⟨rfl, fun i el hg => ?_⟩
    rw [get_ctxV] at hg
    split at hg
    · rw [hget]; exact hg
    · cases hg
  exact okOf_le (pipe_le h1 (Monotone.Incl.length_le h1 hnd) e hn)
    (pipe_le h2 (Monotone.Incl.length_le h2 ((keys_ctxV_sublist ids _).nodup hids)) e hn)


/-! ## the class of documents -/

/-- **the side condition on one leaf element**, relative to a predicate `Shape` on resolved elements.
    `name`, `noRelspec`, `noClip`, `hasId` are syntax (decidable). The other three are SEMANTIC facts
    about the geometry pipeline of this one element, stated as hypotheses (see the report):
    `prevFree`  - the element does not refer to the previous element (`^`): over contexts whose registered
                  elements have the `Shape`, the outcome does not depend on `prev`;
    `noDepthErr`- the geometry pipeline does not raise the expression evaluator's depth error;
    `result`    - a resolved element has the `Shape`, keeps its id, has a bounding box that does not
                  depend on the context, and its shape events can be produced (no failing `text`). -/
structure Tame (Shape : Elem → Prop) (e : Elem) : Prop where
  name : ctlName e.name = false
  noRelspec : Monotone.NoRelspecName e
  noClip : e.getAttr cs!"clip-path" = none
  hasId : ∃ i, e.getAttr cs!"id" = some i
  prevFree : ∀ (env : List (Str × Elem)) (p : Option Elem), (∀ kv ∈ env, Shape kv.2) →
    okOf (pipe { elems := env, prev := p } e) = okOf (pipe { elems := env, prev := none } e)
  noDepthErr : ∀ c, pipe c e ≠ .error .exprDepth
  result : ∀ c e', pipe c e = .ok e' → Shape e' ∧ e'.getAttr cs!"id" = e.getAttr cs!"id" ∧
    (∃ b, ∀ c' : Ctx, c'.bb e' = .ok b) ∧ (∃ evs, shapeEvents e' = .ok evs)

/-- a node of the documents considered: a leaf element (`<name …/>`, no tail text) that is `Tame` and
    whose id is one of `ids` -/
def PlainNode (Shape : Elem → Prop) (ids : List Str) (n : Node) : Prop :=
  ∃ e, n = .elem e none none ∧ Tame Shape e ∧ idOf e ∈ ids

/-- the states of the loop -/
structure Good (Shape : Elem → Prop) (ids : List Str) (st : St ρ) : Prop where
  inSpecs : st.inSpecs = false
  defaults : defaultsInForce st.scopes = []
  depth : ¬ st.depth + 1 > st.cfg.depthLimit
  nodup : (st.geo.elems.map Prod.fst).Nodup
  sub : ∀ k ∈ st.geo.elems.map Prod.fst, k ∈ ids
  shape : ∀ kv ∈ st.geo.elems, Shape kv.2

theorem view_eq_lookup (env : List (Str × Elem)) (i : Str) : Sched.view env i = Attrs.lookupTable env i :=
  (Monotone.get_ctxOf none env i).symm

theorem enter_same (ev : Evalr ρ) (st : St ρ) (e : Elem) :
    (enter ev st e).geo = st.geo ∧ (enter ev st e).scopes = st.scopes ∧
    (enter ev st e).depth = st.depth + 1 ∧ (enter ev st e).cfg = st.cfg ∧
    (enter ev st e).inSpecs = st.inSpecs ∧ st.gen ≤ (enter ev st e).gen := by
  obtain ⟨hgeo, hsc, hd, hcfg, his, _, hgen⟩ := registerOriginal_same ev st e none
  unfold enter
  exact ⟨hgeo, hsc, by simp only [hd], hcfg, his, hgen⟩

/-- the pipeline in a state of the loop is the abstract item's evaluation -/
theorem eval_eq {Shape : Elem → Prop} {ids : List Str} (hids : ids.Nodup) {st : St ρ}
    (hg : Good Shape ids st) {e : Elem} (ht : Tame Shape e) :
    (itemOfElem ids e).eval (Sched.view st.geo.elems) = okOf (pipe st.geo e) := by
  simp only [itemOfElem]
  rw [← pipe_ctxV ids hids st.geo.elems hg.nodup hg.sub e ht.noRelspec]
  exact (ht.prevFree st.geo.elems st.geo.prev hg.shape).symm

/-- **one leaf tag behaves like its abstract item** -/
theorem leafSpec {ev : Evalr ρ} (hev : IdEval ev) (Shape : Elem → Prop) (ids : List Str) (hids : ids.Nodup) :
    LeafSpec ev (Good Shape ids) (PlainNode Shape ids) (itemOf ids) 3 where
  notSpecs := fun _ hg => hg.inSpecs
  ok := by
    intro fuel st n v hk hg hP hfresh hev'
    obtain ⟨e, rfl, ht, hmem⟩ := hP
    obtain ⟨fuel, rfl⟩ : ∃ f, fuel = f + 3 := ⟨fuel - 3, by omega⟩
    simp only [itemOf, nodeElem] at hfresh hev' ⊢
    obtain ⟨hgeo, hsc, hd, hcfg, his, hgen⟩ := enter_same ev st e
    rw [eval_eq hids hg ht, okOf_some] at hev'
    obtain ⟨hsh, hid, ⟨b, hbb⟩, ⟨evs, hevs⟩⟩ := ht.result _ _ hev'
    obtain ⟨i, hi⟩ := ht.hasId
    have hidof : (itemOfElem ids e).id = i := by simp [itemOfElem, idOf, hi]
    rw [hidof] at hfresh ⊢
    rw [view_eq_lookup] at hfresh
    rw [tagStep_leaf ev fuel st e ht.name ht.noClip hg.defaults hg.depth]
    obtain ⟨st', evs', hgo, hel, hsc', his', hd', hcfg', hgen'⟩ :=
      genOther_ok hev (enter ev st e) e v i b evs (by rw [hgeo]; exact hev') (hid.trans hi)
        (by rw [hgeo]; exact hfresh) hbb hevs
    rw [hgo]
    rw [hgeo] at hel
    refine ⟨⟨_, _, rfl⟩, hel, ?_, by simp only []; omega⟩
    have hni : i ∉ st.geo.elems.map Prod.fst := by
      intro hm
      obtain ⟨w, hw⟩ := Monotone.lookupTable_of_mem st.geo.elems i hm
      rw [hfresh] at hw; cases hw
    constructor
    · simp only [his', his]; exact hg.inSpecs
    · simp only [hsc', hsc]; exact hg.defaults
    · simp only [hd', hd, hcfg', hcfg]; simpa using hg.depth
    · simp only [hel, List.map_cons, List.nodup_cons]; exact ⟨hni, hg.nodup⟩
    · simp only [hel, List.map_cons, List.mem_cons]
      rintro k (rfl | hk')
      · have : idOf e = k := by simp [idOf, hi]
        rw [← this]; exact hmem
      · exact hg.sub k hk'
    · simp only [hel, List.mem_cons]
      rintro kv (rfl | hk')
      · exact hsh
      · exact hg.shape kv hk'
  fail := by
    intro fuel st n hk hg hP hfresh hev'
    obtain ⟨e, rfl, ht, hmem⟩ := hP
    obtain ⟨fuel, rfl⟩ : ∃ f, fuel = f + 3 := ⟨fuel - 3, by omega⟩
    simp only [itemOf, nodeElem] at hfresh hev' ⊢
    obtain ⟨hgeo, hsc, hd, hcfg, his, hgen⟩ := enter_same ev st e
    rw [eval_eq hids hg ht, okOf_none] at hev'
    obtain ⟨er, her⟩ := hev'
    rw [tagStep_leaf ev fuel st e ht.name ht.noClip hg.defaults hg.depth]
    rw [genOther_err hev (enter ev st e) e er (by rw [hgeo]; exact her)]
    refine ⟨⟨_, rfl, ?_, by simp⟩, by simp only [hgeo], ?_, by simp only []; omega⟩
    · cases er <;> first | rfl | exact absurd her (ht.noDepthErr _)
    · constructor
      · simp only [his]; exact hg.inSpecs
      · simp only [hsc]; exact hg.defaults
      · simp only [hd, hcfg]; simpa using hg.depth
      · simp only [hgeo]; exact hg.nodup
      · simp only [hgeo]; exact hg.sub
      · simp only [hgeo]; exact hg.shape


/-! ## the theorems -/

/-- the literal ids of a sibling list, in document order -/
def docIds (ks : Nodes) : List Str := ks.toList.map (fun n => idOf (nodeElem n))

/-- **the class of documents**: a list of `Tame` leaf elements with pairwise distinct literal ids -/
structure Plain (Shape : Elem → Prop) (ks : Nodes) : Prop where
  nodes : ∀ n ∈ ks.toList, ∃ e, n = .elem e none none ∧ Tame Shape e
  nodup : (docIds ks).Nodup

/-- the abstract items of a document (`ids`: the ids that may be referred to) -/
def items (ids : List Str) (ks : Nodes) : List (Sched.Item Str Elem) := ks.toList.map (itemOf ids)

/-- the initial states: not inside `<specs>`, no defaults in force (e.g. one empty scope), room for one
    more nesting level, nothing registered -/
structure Init (st : St ρ) : Prop where
  inSpecs : st.inSpecs = false
  defaults : defaultsInForce st.scopes = []
  depth : st.depth < st.cfg.depthLimit
  elems : st.geo.elems = []

theorem Init.good {st : St ρ} (h : Init st) (Shape : Elem → Prop) (ids : List Str) : Good Shape ids st where
  inSpecs := h.inSpecs
  defaults := h.defaults
  depth := by have := h.depth; omega
  nodup := by rw [h.elems]; exact List.nodup_nil
  sub := by rw [h.elems]; intro k hk; cases hk
  shape := by rw [h.elems]; intro k hk; cases hk

theorem items_ids (ids : List Str) (ks : Nodes) : (items ids ks).map (·.id) = docIds ks := by
  simp only [items, docIds, List.map_map]
  rfl

theorem Plain.perm {Shape : Elem → Prop} {ks ks' : Nodes} (h : Plain Shape ks)
    (hp : ks.toList.Perm ks'.toList) : Plain Shape ks' where
  nodes := fun n hn => h.nodes n (hp.mem_iff.2 hn)
  nodup := (hp.map _).nodup_iff.1 h.nodup

theorem Plain.monotone {Shape : Elem → Prop} {ks : Nodes} (h : Plain Shape ks) (ids : List Str)
    (hids : ids.Nodup) : ∀ t ∈ items ids ks, Sched.Monotone t := by
  intro t ht
  obtain ⟨n, hn, rfl⟩ := List.mem_map.1 ht
  obtain ⟨e, rfl, hte⟩ := h.nodes n hn
  exact itemOfElem_monotone ids hids e hte.noRelspec

/-- **(1) refinement**, general form (`ids` any duplicate-free list containing the ids of the document) -/
theorem refinement_gen {ev : Evalr ρ} (hev : IdEval ev) {Shape : Elem → Prop} {ks : Nodes}
    (hp : Plain Shape ks) (ids : List Str) (hids : ids.Nodup) (hmem : ∀ i ∈ docIds ks, i ∈ ids)
    {st : St ρ} (hst : Init st) (fuel : Nat) (hf : 2 * ks.toList.length + 5 < fuel) :
    match Sched.run (items ids ks) with
    | some env => (∃ r, (processNodes ev fuel st ks).2 = .ok r) ∧ (processNodes ev fuel st ks).1.geo.elems = env
    | none => ∃ idxs, (processNodes ev fuel st ks).2 = .error (.multi idxs) := by
  have hsim := processNodes_sim (leafSpec hev Shape ids hids) fuel st ks (by omega) (hst.good Shape ids)
    (by
      intro n hn
      obtain ⟨e, rfl, hte⟩ := hp.nodes n hn
      exact ⟨e, rfl, hte, hmem _ (List.mem_map.2 ⟨_, hn, rfl⟩)⟩)
    (by
      have := items_ids ids ks
      simp only [items] at this
      rw [this]; exact hp.nodup) hst.elems
  simp only [items]
  cases h : Sched.run (ks.toList.map (itemOf ids)) with
  | some env => rw [h] at hsim; exact ⟨hsim.1, hsim.2.1⟩
  | none => rw [h] at hsim; exact hsim.1

/-- **(1) refinement**: on a `Plain` document, from an initial state, with enough fuel, the concrete
    `processNodes` succeeds exactly when the abstract scheduler does, and then the element table IS the
    abstract environment (same ids, same resolved elements, same order of registration); otherwise it
    ends in the `MultiError` -/
theorem refinement {ev : Evalr ρ} (hev : IdEval ev) {Shape : Elem → Prop} {ks : Nodes}
    (hp : Plain Shape ks) {st : St ρ} (hst : Init st) (fuel : Nat) (hf : 2 * ks.toList.length + 5 < fuel) :
    match Sched.run (items (docIds ks) ks) with
    | some env => (∃ r, (processNodes ev fuel st ks).2 = .ok r) ∧ (processNodes ev fuel st ks).1.geo.elems = env
    | none => ∃ idxs, (processNodes ev fuel st ks).2 = .error (.multi idxs) :=
  refinement_gen hev hp (docIds ks) hp.nodup (fun _ h => h) hst fuel hf

theorem refinement_iff {ev : Evalr ρ} (hev : IdEval ev) {Shape : Elem → Prop} {ks : Nodes}
    (hp : Plain Shape ks) {st : St ρ} (hst : Init st) (fuel : Nat) (hf : 2 * ks.toList.length + 5 < fuel) :
    (∃ r, (processNodes ev fuel st ks).2 = .ok r) ↔ (Sched.run (items (docIds ks) ks)).isSome = true := by
  have h := refinement hev hp hst fuel hf
  cases hr : Sched.run (items (docIds ks) ks) with
  | some env => rw [hr] at h; simp [h.1]
  | none =>
    rw [hr] at h
    obtain ⟨idxs, hi⟩ := h
    simp [hi]

/-- **(2) order independence of the concrete model**: permuting the siblings of a `Plain` document
    (initial states and fuels may differ) changes neither whether `processNodes` succeeds nor the
    resolved element registered under any id -/
theorem concrete_order_independent {ev : Evalr ρ} (hev : IdEval ev) {Shape : Elem → Prop} {ks ks' : Nodes}
    (hp : Plain Shape ks) (hperm : ks.toList.Perm ks'.toList) {st st' : St ρ} (hst : Init st)
    (hst' : Init st') (fuel fuel' : Nat) (hf : 2 * ks.toList.length + 5 < fuel)
    (hf' : 2 * ks'.toList.length + 5 < fuel') :
    ((∃ r, (processNodes ev fuel st ks).2 = .ok r) ↔ (∃ r, (processNodes ev fuel' st' ks').2 = .ok r)) ∧
    ((∃ r, (processNodes ev fuel st ks).2 = .ok r) → ∀ i,
      (processNodes ev fuel st ks).1.geo.get (.id i) = (processNodes ev fuel' st' ks').1.geo.get (.id i)) := by
  have hp' := hp.perm hperm
  have hmem' : ∀ i ∈ docIds ks', i ∈ docIds ks := fun i hi => ((hperm.map _).mem_iff).2 hi
  have h1 := refinement_gen hev hp (docIds ks) hp.nodup (fun _ h => h) hst fuel hf
  have h2 := refinement_gen hev hp' (docIds ks) hp.nodup hmem' hst' fuel' hf'
  have hpi : (items (docIds ks) ks).Perm (items (docIds ks) ks') := hperm.map _
  have hnd : ((items (docIds ks) ks).map (·.id)).Nodup := by rw [items_ids]; exact hp.nodup
  obtain ⟨hsome, hview⟩ := Sched.run_perm hpi hnd (hp.monotone _ hp.nodup)
  cases hr : Sched.run (items (docIds ks) ks) with
  | some env =>
    cases hr' : Sched.run (items (docIds ks) ks') with
    | some env' =>
      rw [hr] at h1; rw [hr'] at h2
      refine ⟨⟨fun _ => h2.1, fun _ => h1.1⟩, fun _ i => ?_⟩
      show Attrs.lookupTable _ i = Attrs.lookupTable _ i
      rw [h1.2, h2.2, ← view_eq_lookup, ← view_eq_lookup]
      exact hview env env' hr hr' i
    | none => rw [hr, hr'] at hsome; cases hsome
  | none =>
    cases hr' : Sched.run (items (docIds ks) ks') with
    | some env' => rw [hr, hr'] at hsome; cases hsome
    | none =>
      rw [hr] at h1; rw [hr'] at h2
      obtain ⟨i1, e1⟩ := h1
      obtain ⟨i2, e2⟩ := h2
      refine ⟨⟨fun ⟨r, h⟩ => ?_, fun ⟨r, h⟩ => ?_⟩, fun ⟨r, h⟩ => ?_⟩
      · rw [e1] at h; cases h
      · rw [e2] at h; cases h
      · rw [e1] at h; cases h

/-- on success every element of the document is registered, with the element its own pipeline gives in
    the FINAL context: nothing was resolved against a partial view that the complete view contradicts -/
theorem success_is_complete {ev : Evalr ρ} (hev : IdEval ev) {Shape : Elem → Prop} {ks : Nodes}
    (hp : Plain Shape ks) {st : St ρ} (hst : Init st) (fuel : Nat) (hf : 2 * ks.toList.length + 5 < fuel)
    (hok : ∃ r, (processNodes ev fuel st ks).2 = .ok r) :
    ∀ n ∈ ks.toList, ∃ v,
      (processNodes ev fuel st ks).1.geo.get (.id (idOf (nodeElem n))) = some v ∧
      (itemOf (docIds ks) n).eval (Sched.view (processNodes ev fuel st ks).1.geo.elems) = some v := by
  have h1 := refinement hev hp hst fuel hf
  have hnd : ((items (docIds ks) ks).map (·.id)).Nodup := by rw [items_ids]; exact hp.nodup
  cases hr : Sched.run (items (docIds ks) ks) with
  | none =>
    rw [hr] at h1
    obtain ⟨i1, e1⟩ := h1
    obtain ⟨r, h⟩ := hok
    rw [e1] at h; cases h
  | some env =>
    rw [hr] at h1
    intro n hn
    obtain ⟨v, hv1, hv2⟩ := Sched.run_complete hnd (hp.monotone _ hp.nodup) hr (itemOf (docIds ks) n)
      (List.mem_map.2 ⟨n, hn, rfl⟩)
    refine ⟨v, ?_, ?_⟩
    · show Attrs.lookupTable _ _ = _
      rw [h1.2, ← view_eq_lookup]; exact hv1
    · rw [h1.2]; exact hv2

/-- **(3) failure is final**: a `Plain` document that fails, fails with the `MultiError`, fails in every
    sibling order, and contains an element that is unresolved in EVERY environment any order could reach
    (an unknown id, a cycle, a target without a box) - it was not a matter of order, fuel or pass budget -/
theorem failure_is_final {ev : Evalr ρ} (hev : IdEval ev) {Shape : Elem → Prop} {ks : Nodes}
    (hp : Plain Shape ks) {st : St ρ} (hst : Init st) (fuel : Nat) (hf : 2 * ks.toList.length + 5 < fuel)
    (hfail : ¬ ∃ r, (processNodes ev fuel st ks).2 = .ok r) :
    (∃ idxs, (processNodes ev fuel st ks).2 = .error (.multi idxs)) ∧
    (∀ (ks' : Nodes) (st' : St ρ) (fuel' : Nat), ks.toList.Perm ks'.toList → Init st' →
      2 * ks'.toList.length + 5 < fuel' → ∃ idxs, (processNodes ev fuel' st' ks').2 = .error (.multi idxs)) ∧
    (∃ n ∈ ks.toList, ∀ env, Sched.Reach (items (docIds ks) ks) env →
      Sched.view env (idOf (nodeElem n)) = none) := by
  have h1 := refinement hev hp hst fuel hf
  have hnd : ((items (docIds ks) ks).map (·.id)).Nodup := by rw [items_ids]; exact hp.nodup
  cases hr : Sched.run (items (docIds ks) ks) with
  | some env => rw [hr] at h1; exact absurd h1.1 hfail
  | none =>
    rw [hr] at h1
    refine ⟨h1, ?_, ?_⟩
    · intro ks' st' fuel' hperm hst' hf'
      have hp' := hp.perm hperm
      have hmem' : ∀ i ∈ docIds ks', i ∈ docIds ks := fun i hi => ((hperm.map _).mem_iff).2 hi
      have h2 := refinement_gen hev hp' (docIds ks) hp.nodup hmem' hst' fuel' hf'
      have hpi : (items (docIds ks) ks).Perm (items (docIds ks) ks') := hperm.map _
      have hsome := Sched.run_perm_isSome hpi hnd (hp.monotone _ hp.nodup)
      cases hr' : Sched.run (items (docIds ks) ks') with
      | some env' => rw [hr, hr'] at hsome; cases hsome
      | none => rw [hr'] at h2; exact h2
    · obtain ⟨t, ht, hne⟩ := Sched.run_none_witness hnd (hp.monotone _ hp.nodup) hr
      obtain ⟨n, hn, rfl⟩ := List.mem_map.1 ht
      exact ⟨n, hn, hne⟩

end Svgdx.SchedRefine

/-! ## closed instance (kernel evaluation, `simpleEvalr`): a chain of forward references in two orders -/
namespace Svgdx.SchedRefine.Example
open Svgdx Ctl

def rA : Elem := { name := cs!"rect", attrs := [(cs!"id", ['a']), (cs!"xy", cs!"#b|h 5"), (cs!"wh", cs!"10")] }
def rB : Elem := { name := cs!"rect", attrs := [(cs!"id", ['b']), (cs!"xy", cs!"#c|h 5"), (cs!"wh", cs!"10")] }
def rC : Elem := { name := cs!"rect", attrs := [(cs!"id", ['c']), (cs!"xy", cs!"0"), (cs!"wh", cs!"10")] }
def leaf (e : Elem) : Node := .elem e none none
def st0 : St Nat := { rng := 0, scopes := [{}] }
/-- `a` refers to `b`, `b` to `c`, `c` is absolute: the worst order (three passes) … -/
def doc1 : Nodes := Nodes.ofList [leaf rA, leaf rB, leaf rC]
/-- … and another one (two passes) -/
def doc2 : Nodes := Nodes.ofList [leaf rC, leaf rA, leaf rB]

/-- what is registered under `a`, `b`, `c` after a successful run -/
def regs (x : St Nat × Res) : Option (List (Option Elem)) :=
  match x.2 with
  | .ok _ => some ([['a'], ['b'], ['c']].map (fun i => x.1.geo.get (.id i)))
  | .error _ => none

def outA : Elem := { name := cs!"rect", attrs :=
  [(cs!"id", ['a']), (['x'], cs!"30"), (['y'], cs!"0"), (cs!"width", cs!"10"), (cs!"height", cs!"10")] }
def outB : Elem := { name := cs!"rect", attrs :=
  [(cs!"id", ['b']), (['x'], cs!"15"), (['y'], cs!"0"), (cs!"width", cs!"10"), (cs!"height", cs!"10")] }
def outC : Elem := { name := cs!"rect", attrs :=
  [(cs!"id", ['c']), (['x'], cs!"0"), (['y'], cs!"0"), (cs!"width", cs!"10"), (cs!"height", cs!"10")] }

set_option maxRecDepth 100000 in
/-- both orders succeed and register the same geometry under every id -/
theorem three_rects_two_orders :
    regs (processNodes simpleEvalr 30 st0 doc1) = some [some outA, some outB, some outC] ∧
    regs (processNodes simpleEvalr 30 st0 doc2) = some [some outA, some outB, some outC] := by
  decide +kernel

set_option maxRecDepth 100000 in
/-- the abstract scheduler on the abstract items of the two documents, and the concrete element tables:
    the conclusion of `refinement` on this instance, by evaluation (independent of the `Tame` hypotheses) -/
theorem abstract_matches_concrete :
    Sched.run (items (docIds doc1) doc1) = some [(['a'], outA), (['b'], outB), (['c'], outC)] ∧
    (processNodes simpleEvalr 30 st0 doc1).1.geo.elems = [(['a'], outA), (['b'], outB), (['c'], outC)] ∧
    Sched.run (items (docIds doc1) doc2) = some [(['a'], outA), (['b'], outB), (['c'], outC)] ∧
    (processNodes simpleEvalr 30 st0 doc2).1.geo.elems = [(['a'], outA), (['b'], outB), (['c'], outC)] := by
  decide +kernel

def errOf (x : St Nat × Res) : Option CErr :=
  match x.2 with
  | .ok _ => none
  | .error er => some er

set_option maxRecDepth 100000 in
/-- an unsatisfiable document (`c` missing) is the MultiError over both elements in both orders -/
theorem two_rects_unsatisfiable :
    errOf (processNodes simpleEvalr 30 st0 (Nodes.ofList [leaf rA, leaf rB])) = some (.multi [0, 1]) ∧
    errOf (processNodes simpleEvalr 30 st0 (Nodes.ofList [leaf rB, leaf rA])) = some (.multi [0, 1]) := by
  decide +kernel

end Svgdx.SchedRefine.Example

/-! ## statements for the property file -/
namespace Svgdx.Props.C10x
open Svgdx Ctl SchedRefine

variable {ρ : Type}

/-- **the concrete retry loop computes what the abstract scheduler computes** -/
theorem concrete_refines_abstract {ev : Evalr ρ} (hev : IdEval ev) {Shape : Elem → Prop} {ks : Nodes}
    (hp : Plain Shape ks) {st : St ρ} (hst : Init st) (fuel : Nat) (hf : 2 * ks.toList.length + 5 < fuel) :
    match Sched.run (items (docIds ks) ks) with
    | some env => (∃ r, (processNodes ev fuel st ks).2 = .ok r) ∧ (processNodes ev fuel st ks).1.geo.elems = env
    | none => ∃ idxs, (processNodes ev fuel st ks).2 = .error (.multi idxs) :=
  refinement hev hp hst fuel hf

/-- **permuting id-referenced siblings leaves every element's resolved form (hence its coordinates) unchanged** -/
theorem sibling_order_irrelevant {ev : Evalr ρ} (hev : IdEval ev) {Shape : Elem → Prop} {ks ks' : Nodes}
    (hp : Plain Shape ks) (hperm : ks.toList.Perm ks'.toList) {st st' : St ρ} (hst : Init st)
    (hst' : Init st') (fuel fuel' : Nat) (hf : 2 * ks.toList.length + 5 < fuel)
    (hf' : 2 * ks'.toList.length + 5 < fuel') :
    ((∃ r, (processNodes ev fuel st ks).2 = .ok r) ↔ (∃ r, (processNodes ev fuel' st' ks').2 = .ok r)) ∧
    ((∃ r, (processNodes ev fuel st ks).2 = .ok r) → ∀ i,
      (processNodes ev fuel st ks).1.geo.get (.id i) = (processNodes ev fuel' st' ks').1.geo.get (.id i)) :=
  concrete_order_independent hev hp hperm hst hst' fuel fuel' hf hf'

/-- **a failure is final**: MultiError, in every order, with an element no order can resolve -/
theorem failure_in_every_order {ev : Evalr ρ} (hev : IdEval ev) {Shape : Elem → Prop} {ks : Nodes}
    (hp : Plain Shape ks) {st : St ρ} (hst : Init st) (fuel : Nat) (hf : 2 * ks.toList.length + 5 < fuel)
    (hfail : ¬ ∃ r, (processNodes ev fuel st ks).2 = .ok r) :
    (∃ idxs, (processNodes ev fuel st ks).2 = .error (.multi idxs)) ∧
    (∀ (ks' : Nodes) (st' : St ρ) (fuel' : Nat), ks.toList.Perm ks'.toList → Init st' →
      2 * ks'.toList.length + 5 < fuel' → ∃ idxs, (processNodes ev fuel' st' ks').2 = .error (.multi idxs)) ∧
    (∃ n ∈ ks.toList, ∀ env, Sched.Reach (items (docIds ks) ks) env →
      Sched.view env (idOf (nodeElem n)) = none) :=
  failure_is_final hev hp hst fuel hf hfail

end Svgdx.Props.C10x

#print axioms Svgdx.SchedRefine.leafSpec
#print axioms Svgdx.SchedRefine.itemOfElem_monotone
#print axioms Svgdx.SchedRefine.refinement
#print axioms Svgdx.SchedRefine.refinement_iff
#print axioms Svgdx.SchedRefine.concrete_order_independent
#print axioms Svgdx.SchedRefine.success_is_complete
#print axioms Svgdx.SchedRefine.failure_is_final
#print axioms Svgdx.SchedRefine.Example.three_rects_two_orders
#print axioms Svgdx.SchedRefine.Example.abstract_matches_concrete
#print axioms Svgdx.SchedRefine.Example.two_rects_unsatisfiable
#print axioms Svgdx.Props.C10x.concrete_refines_abstract
#print axioms Svgdx.Props.C10x.sibling_order_irrelevant
#print axioms Svgdx.Props.C10x.failure_in_every_order
