/-
  Svgdx.Proofs.ThemeWf — the auto-style block (`write_auto_styles`, model `Svgdx.Theme.Inject`) is
  well-formed XML content: where every character of an emitted CSS rule comes from (`styles_chars`), what that
  means for the CDATA section (`styleCData_noCDEnd`, `style_single_section`, `styleBlock_strict`), and that the
  written `<style>` element is accepted by the recogniser `Xml.Spec.wfContent` whatever the strings are
  (`styleBlock_wellformed`).
-/
import Svgdx.Theme.Inject
import Svgdx.Proofs.ThemeIds
import Svgdx.Proofs.XmlSpec
namespace Svgdx.Theme
open Svgdx Str Xml

/-! ### `format!`: every character of the result comes from the template or from an argument -/

theorem lookup_mem {named : List (Str × Str)} {nm v : Str} (h : named.lookup nm = some v) : (nm, v) ∈ named := by
  induction named with
  | nil => simp [List.lookup] at h
  | cons kv l ih =>
    obtain ⟨k, w⟩ := kv
    simp only [List.lookup] at h
    split at h
    · rename_i heq
      have : nm = k := by simpa using heq
      simp only [Option.some.injEq] at h
      subst h; subst this; simp
    · exact List.mem_cons_of_mem _ (ih h)

theorem getD_mem_or_nil (l : List Str) (i : Nat) : l.getD i [] = [] ∨ l.getD i [] ∈ l := by
  by_cases h : i < l.length
  · right
    simp [List.getD, List.getElem?_eq_getElem h]
  · left
    simp [List.getD, List.getElem?_eq_none (by omega : l.length ≤ i)]

section chars
variable (P : Char → Prop)

theorem fmtArg_chars {named : List (Str × Str)} {pos : List Str}
    (hn : ∀ kv ∈ named, ∀ x ∈ kv.2, P x) (hp : ∀ s ∈ pos, ∀ x ∈ s, P x) (n : Nat) (nm : Str) :
    ∀ x ∈ (fmtArg named pos n nm).1, P x := by
  intro x hx
  unfold fmtArg at hx
  split at hx
  · rcases getD_mem_or_nil pos n with h | h
    · simp only [h] at hx; cases hx
    · exact hp _ h x hx
  · split at hx
    · rcases getD_mem_or_nil pos (Num.digitsToNat nm) with h | h
      · simp only [h] at hx; cases hx
      · exact hp _ h x hx
    · cases hl : named.lookup nm with
      | none => simp [hl] at hx
      | some v =>
        simp only [hl, Option.getD_some] at hx
        exact hn _ (lookup_mem hl) x hx

theorem fmtGo_chars {named : List (Str × Str)} {pos : List Str}
    (hn : ∀ kv ∈ named, ∀ x ∈ kv.2, P x) (hp : ∀ s ∈ pos, ∀ x ∈ s, P x) (hb : P '}') :
    ∀ (tpl : Str) (st : FmtSt) (n : Nat), (∀ x ∈ tpl, P x) → ∀ x ∈ fmtGo named pos tpl st n, P x := by
  intro tpl
  induction tpl with
  | nil => intro st n _ x hx; simp [fmtGo] at hx
  | cons c r ih =>
    intro st n ht x hx
    have hc : P c := ht c (by simp)
    have hr : ∀ x ∈ r, P x := fun x hx => ht x (by simp [hx])
    cases st with
    | lit =>
      simp only [fmtGo] at hx
      split at hx
      · exact ih _ _ hr x hx
      · split at hx
        · exact ih _ _ hr x hx
        · rcases List.mem_cons.mp hx with rfl | hx
          · exact hc
          · exact ih _ _ hr x hx
    | afterOpen =>
      simp only [fmtGo] at hx
      split at hx
      · rename_i h
        have : c = '{' := by simpa using h
        rcases List.mem_cons.mp hx with rfl | hx
        · exact this ▸ hc
        · exact ih _ _ hr x hx
      · split at hx
        · rcases List.mem_append.mp hx with hx | hx
          · exact fmtArg_chars P hn hp _ _ x hx
          · exact ih _ _ hr x hx
        · exact ih _ _ hr x hx
    | inName nm =>
      simp only [fmtGo] at hx
      split at hx
      · rcases List.mem_append.mp hx with hx | hx
        · exact fmtArg_chars P hn hp _ _ x hx
        · exact ih _ _ hr x hx
      · exact ih _ _ hr x hx
    | afterClose =>
      simp only [fmtGo] at hx
      rcases List.mem_cons.mp hx with rfl | hx
      · exact hb
      · exact ih _ _ hr x hx

/-- **characters of `format!`**: a property of all characters of the template and of all arguments (and of `}`)
    is a property of all characters of the result -/
theorem fmt_chars {tpl : Str} {named : List (Str × Str)} {pos : List Str} (hb : P '}') (ht : ∀ x ∈ tpl, P x)
    (hn : ∀ kv ∈ named, ∀ x ∈ kv.2, P x) (hp : ∀ s ∈ pos, ∀ x ∈ s, P x) : ∀ x ∈ fmt tpl named pos, P x :=
  fmtGo_chars P hn hp hb tpl .lit 0 ht

end chars

/-! ### the characters of the generated tables -/

/-- what the CSS tables of themes.rs and the printed numbers consist of: printable ASCII other than
    `<`, `>`, `&`, `]` -/
def cssCh (c : Char) : Bool :=
  decide (0x20 ≤ c.toNat) && decide (c.toNat < 0x7f) && c != '<' && c != '>' && c != '&' && c != ']'

def cssStr (s : Str) : Bool := s.all cssCh

theorem cssStr_iff {s : Str} : cssStr s = true ↔ ∀ x ∈ s, cssCh x = true := by
  simp [cssStr, List.all_eq_true]

theorem cssCh_of_numChar {x : Char} (h : numChar x = true) : cssCh x = true := by
  simp only [numChar, isDigit, Bool.or_eq_true, Bool.and_eq_true, decide_eq_true_eq, beq_iff_eq] at h
  rcases h with (⟨h1, h2⟩ | rfl) | rfl
  · have a : 48 ≤ x.toNat := UInt32.le_iff_toNat_le.mp h1
    have b : x.toNat ≤ 57 := UInt32.le_iff_toNat_le.mp h2
    simp only [cssCh, Bool.and_eq_true, decide_eq_true_eq, bne_iff_ne, ne_eq]
    refine ⟨⟨⟨⟨⟨by omega, by omega⟩, ?_⟩, ?_⟩, ?_⟩, ?_⟩ <;> (rintro rfl; revert a b; decide)
  · decide
  · decide

/-- the templates and literals of `Theme::build` and the `append_*` functions that end up in a style rule -/
theorem table_css :
    (∀ i ∈ [0, 1, 3, 4, 5, 7, 11], cssStr (nth bs i) = true) ∧
    (∀ s ∈ cms, cssStr s = true) ∧
    cssStr (nth sws Gen.Theme.append_stroke_width_styles_table0.length) = true ∧
    (∀ p ∈ Gen.Theme.append_stroke_width_styles_table0, cssStr p.1 = true) ∧
    (∀ p ∈ Gen.Theme.append_text_styles_table0, cssStr p.2 = true) ∧
    (∀ p ∈ Gen.Theme.append_text_styles_table1, cssStr p.1 = true) ∧
    (∀ p ∈ Gen.Theme.append_text_styles_table2, cssStr p.1 = true) ∧
    (∀ i ∈ [1, 3, 4], cssStr (nth ars i) = true) ∧
    (∀ p ∈ flowTable, cssStr (flowRule p.1 p.2) = true) ∧
    (∀ i ∈ [1, 3, 5, 7, 9], cssStr (nth dss (dashBase + i)) = true) ∧
    (∀ p ∈ Gen.Theme.build_table, cssStr (nth (shadowStrings p.2) 0) = true) ∧
    (∀ row ∈ patternRows, cssStr row.cls = true) := by decide +kernel

theorem colour_css : ∀ c ∈ Gen.COLOUR_LIST,
    cssStr (fillRule c) = true ∧ cssStr (fillTextRule c) = true ∧ cssStr (strokeRule c) = true ∧
    cssStr (strokeTextRule c) = true ∧ cssStr (textColRule c) = true ∧ cssStr (textOlColRule c) = true := by
  decide +kernel

theorem theme_css (t : ThemeKind) :
    cssStr (themeFill t) = true ∧ cssStr (themeStroke t) = true ∧ cssStr (themeBackground t) = true ∧
    cssStr (display (themeStrokeWidth t)) = true ∧
    (∀ s ∈ themeStyles t cs!"append_early_styles", cssStr s = true) ∧
    (∀ s ∈ themeStyles t cs!"append_late_styles", cssStr s = true) := by
  cases t <;> decide +kernel

/-! ### printed numbers -/

theorem display_numChar (q : Rat) : ∀ x ∈ display q, numChar x = true := by
  intro x hx
  unfold display at hx
  cases hd : Num.displayExact q with
  | none => rw [hd] at hx; exact fstr_numChar q x hx
  | some s =>
    rw [hd] at hx
    simp only [Option.getD_some] at hx
    unfold Num.displayExact at hd
    split at hd
    · cases hd
    · simp only [Option.some.injEq] at hd
      subst hd
      exact intToStr_numChar _ x hx
    · simp only [Option.some.injEq] at hd
      subst hd
      simp only [List.mem_append] at hx
      rcases hx with ((hx | hx) | hx) | hx
      · split at hx
        · simp at hx; subst hx; decide
        · simp at hx
      · exact natToStr_numChar _ x hx
      · simp at hx; subst hx; decide
      · unfold Num.padLeft at hx
        rcases List.mem_append.mp hx with hx | hx
        · have := List.eq_of_mem_replicate hx
          subst this; decide
        · exact natToStr_numChar _ x hx

/-! ### every character of an emitted rule -/

/-- the three author strings that reach the CSS text -/
structure AuthorOk (P : Char → Prop) (cfg : ThemeCfg) : Prop where
  background : ∀ x ∈ cfg.background, P x
  fontFamily : ∀ x ∈ cfg.fontFamily, P x
  localId : ∀ id, cfg.localId = some id → ∀ x ∈ id, P x

section styles
variable {P : Char → Prop} (hcss : ∀ x, cssCh x = true → P x)
include hcss

theorem css_P {s : Str} (h : cssStr s = true) : ∀ x ∈ s, P x := fun x hx => hcss x (cssStr_iff.mp h x hx)

theorem num_P {s : Str} (h : ∀ x ∈ s, numChar x = true) : ∀ x ∈ s, P x :=
  fun x hx => hcss x (cssCh_of_numChar (h x hx))

theorem brace_P : P '}' := hcss '}' (by decide)

theorem outerSvg_chars {cfg : ThemeCfg} (ha : AuthorOk P cfg) : ∀ x ∈ outerSvg cfg, P x := by
  unfold outerSvg
  cases hid : cfg.localId with
  | none => exact css_P hcss (table_css.1 0 (by simp))
  | some i =>
    apply fmt_chars P (brace_P hcss) (css_P hcss (table_css.1 1 (by simp))) (by simp)
    intro s hs
    simp only [List.mem_singleton] at hs
    rw [hs]
    exact ha.localId i hid

theorem backgroundRule_chars {cfg : ThemeCfg} (ha : AuthorOk P cfg) : ∀ x ∈ backgroundRule cfg, P x := by
  unfold backgroundRule
  split
  · apply fmt_chars P (brace_P hcss) (css_P hcss (table_css.1 3 (by simp))) (by simp)
    intro s hs
    simp only [List.mem_cons, List.not_mem_nil, or_false] at hs
    rcases hs with rfl | rfl
    · exact outerSvg_chars hcss ha
    · exact ha.background
  · apply fmt_chars P (brace_P hcss) (css_P hcss (table_css.1 4 (by simp))) (by simp)
    intro s hs
    simp only [List.mem_cons, List.not_mem_nil, or_false] at hs
    rcases hs with rfl | rfl
    · exact outerSvg_chars hcss ha
    · exact css_P hcss (theme_css cfg.theme).2.2.1

theorem localOpen_chars {cfg : ThemeCfg} (ha : AuthorOk P cfg) : ∀ r ∈ localOpen cfg, ∀ x ∈ r, P x := by
  unfold localOpen
  cases hid : cfg.localId with
  | none => simp
  | some i =>
    intro r hr
    simp only [List.mem_singleton] at hr
    subst hr
    apply fmt_chars P (brace_P hcss) (css_P hcss (table_css.1 5 (by simp))) (by simp)
    intro s hs
    simp only [List.mem_singleton] at hs
    rw [hs]
    exact ha.localId i hid

theorem localClose_chars (cfg : ThemeCfg) : ∀ r ∈ localClose cfg, ∀ x ∈ r, P x := by
  unfold localClose
  cases cfg.localId with
  | none => simp
  | some i =>
    intro r hr
    simp only [List.mem_singleton] at hr
    subst hr
    exact css_P hcss (table_css.1 11 (by simp))

theorem commonStyles_chars {cfg : ThemeCfg} (ha : AuthorOk P cfg) : ∀ r ∈ commonStyles cfg, ∀ x ∈ r, P x := by
  intro r hr
  simp only [commonStyles, List.mem_map] at hr
  obtain ⟨tpl, htpl, rfl⟩ := hr
  have htc : cssStr tpl = true := table_css.2.1 tpl ((List.drop_sublist 2 cms).subset htpl)
  apply fmt_chars P (brace_P hcss) (css_P hcss htc) _ (by simp)
  intro kv hkv
  simp only [List.mem_cons, List.not_mem_nil, or_false] at hkv
  rcases hkv with rfl | rfl | rfl | rfl | rfl | rfl
  · show ∀ x ∈ (match cfg.localId with | some _ => nth cms 0 | none => nth cms 1), P x
    cases cfg.localId with
    | none => exact css_P hcss (table_css.2.1 (nth cms 1) (by decide +kernel))
    | some _ => exact css_P hcss (table_css.2.1 (nth cms 0) (by decide +kernel))
  · exact css_P hcss (theme_css cfg.theme).2.2.2.1
  · exact css_P hcss (theme_css cfg.theme).1
  · exact css_P hcss (theme_css cfg.theme).2.1
  · exact ha.fontFamily
  · exact num_P hcss (display_numChar _)

omit hcss in
theorem append_P {a b : Str} (ha : ∀ x ∈ a, P x) (hb : ∀ x ∈ b, P x) : ∀ x ∈ a ++ b, P x := by
  intro x hx
  rcases List.mem_append.mp hx with h | h
  · exact ha x h
  · exact hb x h

theorem cons_P {a : Char} {b : Str} (ha : cssCh a = true) (hb : ∀ x ∈ b, P x) : ∀ x ∈ a :: b, P x := by
  intro x hx
  rcases List.mem_cons.mp hx with rfl | h
  · exact hcss _ ha
  · exact hb x h

theorem lit_P (s : Str) (h : cssStr s = true := by decide) : ∀ x ∈ s, P x := css_P hcss h

/-- the class of a pattern item and its id -/
theorem rowClass_chars {row : PatternRow} (hrow : row ∈ patternRows) {c : Str} (hc : RowClass row c) :
    (∀ x ∈ c, P x) ∧ ∀ x ∈ ptnId c, P x := by
  obtain ⟨tail, hc1, hid, ht⟩ := rowClass_shape hrow hc
  have hcls : cssStr row.cls = true := table_css.2.2.2.2.2.2.2.2.2.2.2 row hrow
  have hstem : ∀ x ∈ stem row, P x := by
    intro x hx
    exact css_P hcss hcls x ((List.drop_sublist 2 row.cls).subset hx)
  have htail : ∀ x ∈ tail, P x := by
    rcases ht with rfl | ⟨suf, n, rfl, hp⟩
    · simp
    · apply cons_P hcss (by decide)
      intro x hx
      rcases (parseU32_chars hp).2 x hx with rfl | hd
      · exact hcss _ (by decide)
      · exact hcss _ (cssCh_of_numChar (by simp [numChar, hd]))
  have hid' : ∀ x ∈ ptnId c, P x := by rw [hid]; exact append_P hstem htail
  refine ⟨?_, hid'⟩
  rw [hc1]
  exact cons_P hcss (by decide) (cons_P hcss (by decide) (append_P hstem htail))

omit hcss in
theorem guarded_chars {cs : List Str} {k : Str} {rules : List Str} (h : ∀ r ∈ rules, ∀ x ∈ r, P x) :
    ∀ e ∈ guarded cs k rules, ∀ x ∈ e.2, P x := by
  intro e he
  obtain ⟨_, r, hr, rfl⟩ := mem_guarded.mp he
  exact h r hr

omit hcss in
theorem untagged_chars {rules : List Str} (h : ∀ r ∈ rules, ∀ x ∈ r, P x) :
    ∀ e ∈ untagged rules, ∀ x ∈ e.2, P x := by
  intro e he
  obtain ⟨r, hr, rfl⟩ := mem_untagged.mp he
  exact h r hr

omit hcss in
theorem single_P {r : Str} (h : ∀ x ∈ r, P x) : ∀ r' ∈ [r], ∀ x ∈ r', P x := by
  intro r' hr'
  simp only [List.mem_singleton] at hr'
  subst hr'
  exact h

theorem colourStyles_chars (cs : List Str) : ∀ e ∈ colourStyles cs, ∀ x ∈ e.2, P x := by
  intro e he
  simp only [colourStyles, fillStyles, strokeStyles, textColStyles, textOlColStyles, List.mem_append,
    List.mem_flatMap] at he
  rcases he with ((⟨c, hc, he⟩ | ⟨c, hc, he⟩) | ⟨c, hc, he⟩) | ⟨c, hc, he⟩
  all_goals have hf := colour_css c hc
  · refine guarded_chars ?_ e he
    intro r hr
    simp only [List.mem_cons, List.not_mem_nil, or_false] at hr
    rcases hr with rfl | rfl
    · exact css_P hcss hf.1
    · exact css_P hcss hf.2.1
  · refine guarded_chars ?_ e he
    intro r hr
    rcases List.mem_cons.mp hr with rfl | hr
    · exact css_P hcss hf.2.2.1
    · split at hr
      · simp only [List.mem_singleton] at hr
        subst hr
        exact css_P hcss hf.2.2.2.1
      · cases hr
  · exact guarded_chars (single_P (css_P hcss hf.2.2.2.2.1)) e he
  · exact guarded_chars (single_P (css_P hcss hf.2.2.2.2.2)) e he

theorem strokeWidthStyles_chars (cfg : ThemeCfg) (cs : List Str) :
    ∀ e ∈ strokeWidthStyles cfg cs, ∀ x ∈ e.2, P x := by
  intro e he
  simp only [strokeWidthStyles, List.mem_flatMap] at he
  obtain ⟨p, hp, he⟩ := he
  refine guarded_chars (single_P ?_) e he
  rw [strokeWidthRule_eq]
  have hk := css_P hcss (table_css.2.2.2.1 p hp)
  exact cons_P hcss (by decide) (append_P hk (cons_P hcss (by decide) (append_P (lit_P hcss _)
    (append_P (num_P hcss (fstr_numChar _)) (lit_P hcss _)))))

theorem textStyles_chars (cfg : ThemeCfg) (cs es : List Str) : ∀ e ∈ textStyles cfg cs es, ∀ x ∈ e.2, P x := by
  intro e he
  unfold textStyles at he
  split at he
  · simp only [List.mem_append, List.mem_flatMap] at he
    rcases he with (⟨p, hp, he⟩ | ⟨p, hp, he⟩) | ⟨p, hp, he⟩
    · exact guarded_chars (single_P (css_P hcss (table_css.2.2.2.2.1 p hp))) e he
    · refine guarded_chars (single_P ?_) e he
      rw [textSizeRule_eq]
      have hk := css_P hcss (table_css.2.2.2.2.2.1 p hp)
      exact cons_P hcss (by decide) (cons_P hcss (by decide) (cons_P hcss (by decide) (cons_P hcss (by decide)
        (cons_P hcss (by decide) (append_P hk (cons_P hcss (by decide) (append_P (lit_P hcss _)
          (append_P hk (append_P (lit_P hcss _)
            (append_P (num_P hcss (fstr_numChar _)) (lit_P hcss _)))))))))))
    · refine guarded_chars (single_P ?_) e he
      rw [textOlWidthRule_eq]
      have hk := css_P hcss (table_css.2.2.2.2.2.2.1 p hp)
      exact cons_P hcss (by decide) (cons_P hcss (by decide) (cons_P hcss (by decide) (cons_P hcss (by decide)
        (cons_P hcss (by decide) (append_P hk (cons_P hcss (by decide) (append_P (lit_P hcss _)
          (append_P hk (append_P (lit_P hcss _)
            (append_P (num_P hcss (fstr_numChar _)) (lit_P hcss _)))))))))))
  · cases he

theorem arrowStyles_chars (cs : List Str) : ∀ e ∈ arrowStyles cs, ∀ x ∈ e.2, P x := by
  intro e he
  have ht := table_css.2.2.2.2.2.2.2.1
  simp only [arrowStyles, List.mem_append] at he
  rcases he with (he | he) | he
  · exact guarded_chars (single_P (css_P hcss (ht 1 (by simp)))) e he
  · exact guarded_chars (single_P (css_P hcss (ht 3 (by simp)))) e he
  · split at he
    · exact untagged_chars (single_P (css_P hcss (ht 4 (by simp)))) e he
    · cases he

theorem dashStyles_chars (cs : List Str) : ∀ e ∈ dashStyles cs, ∀ x ∈ e.2, P x := by
  intro e he
  have hfl := table_css.2.2.2.2.2.2.2.2.1
  have ht := table_css.2.2.2.2.2.2.2.2.2.1
  simp only [dashStyles, List.mem_append, List.mem_flatMap] at he
  rcases he with ((((⟨p, hp, he⟩ | he) | he) | he) | he) | he
  · exact guarded_chars (single_P (css_P hcss (hfl p hp))) e he
  · split at he
    · exact untagged_chars (single_P (css_P hcss (ht 1 (by simp)))) e he
    · cases he
  · exact guarded_chars (single_P (css_P hcss (ht 3 (by simp)))) e he
  · exact guarded_chars (single_P (css_P hcss (ht 5 (by simp)))) e he
  · exact guarded_chars (single_P (css_P hcss (ht 7 (by simp)))) e he
  · exact guarded_chars (single_P (css_P hcss (ht 9 (by simp)))) e he

theorem patternStyles_chars (order : List Str → List Str) (stroke : Str) (cs : List Str) :
    ∀ e ∈ (patternItems order stroke cs).map (·.1), ∀ x ∈ e.2, P x := by
  intro e he
  obtain ⟨it, hit, rfl⟩ := List.mem_map.mp he
  obtain ⟨row, hrow, c, n, hc, rfl⟩ := patternItems_rowClass hit
  obtain ⟨h1, h2⟩ := rowClass_chars hcss hrow hc
  show ∀ x ∈ patternRule c, P x
  rw [patternRule_eq]
  exact cons_P hcss (by decide) (append_P h1 (cons_P hcss (by decide) (append_P (lit_P hcss _)
    (append_P h2 (lit_P hcss _)))))

theorem shadowStyles_chars (cs : List Str) : ∀ e ∈ shadowStyles cs, ∀ x ∈ e.2, P x := by
  intro e he
  simp only [shadowStyles, List.mem_flatMap] at he
  obtain ⟨p, hp, he⟩ := he
  exact guarded_chars (single_P (css_P hcss (table_css.2.2.2.2.2.2.2.2.2.2.1 p hp))) e he

/-- **where the characters of the CSS come from**: for every theme, class list, element list and visiting order
    of the pattern classes, every character of every emitted rule is a character of the generated tables / a
    printed number (`cssCh`: printable ASCII other than `<`, `>`, `&`, `]`) or a character of one of the three
    author strings `background`, `font_family`, local style id.  Stated for an arbitrary property `P` that holds
    of `cssCh` characters and of the author strings. -/
theorem styles_chars {cfg : ThemeCfg} (ha : AuthorOk P cfg) (order : List Str → List Str) (cs es : List Str) :
    ∀ r ∈ (buildWith order cfg cs es).2, ∀ x ∈ r, P x := by
  intro r hr
  simp only [buildWith, List.mem_map] at hr
  obtain ⟨e, he, rfl⟩ := hr
  simp only [stylesT, List.mem_append] at he
  rcases he with ((((((((((((he | he) | he) | he) | he) | he) | he) | he) | he) | he) | he) | he) | he) | he
  · exact untagged_chars (single_P (backgroundRule_chars hcss ha)) e he
  · exact untagged_chars (localOpen_chars hcss ha) e he
  · exact untagged_chars (fun s hs => css_P hcss ((theme_css cfg.theme).2.2.2.2.1 s hs)) e he
  · exact guarded_chars (single_P (css_P hcss (table_css.1 7 (by simp)))) e he
  · exact untagged_chars (commonStyles_chars hcss ha) e he
  · exact colourStyles_chars hcss cs e he
  · exact strokeWidthStyles_chars hcss cfg cs e he
  · exact textStyles_chars hcss cfg cs es e he
  · exact arrowStyles_chars hcss cs e he
  · exact dashStyles_chars hcss cs e he
  · exact patternStyles_chars hcss order _ cs e he
  · exact shadowStyles_chars hcss cs e he
  · exact untagged_chars (fun s hs => css_P hcss ((theme_css cfg.theme).2.2.2.2.2 s hs)) e he
  · exact untagged_chars (localClose_chars hcss cfg) e he

end styles

/-! ### indentation (`indent_all`) adds blanks and newlines only -/

theorem mem_splitBy_go (f : Char → Bool) : ∀ (s cur p : Str), p ∈ splitBy.go f s cur → ∀ x ∈ p, x ∈ cur ∨ x ∈ s := by
  intro s
  induction s with
  | nil =>
    intro cur p hp x hx
    simp only [splitBy.go, List.mem_singleton] at hp
    subst hp
    left; simpa using hx
  | cons c r ih =>
    intro cur p hp x hx
    simp only [splitBy.go] at hp
    split at hp
    · rcases List.mem_cons.mp hp with rfl | hp
      · left; simpa using hx
      · rcases ih [] p hp x hx with h | h
        · cases h
        · right; simp [h]
    · rcases ih (c :: cur) p hp x hx with h | h
      · rcases List.mem_cons.mp h with rfl | h
        · right; simp
        · left; exact h
      · right; simp [h]

theorem mem_rustLinesOf : ∀ (ps : List Str) (l : Str), l ∈ rustLinesOf ps → ∃ p ∈ ps, ∀ x ∈ l, x ∈ p := by
  intro ps
  induction ps with
  | nil => intro l hl; simp [rustLinesOf] at hl
  | cons p rest ih =>
    intro l hl
    cases rest with
    | nil =>
      simp only [rustLinesOf] at hl
      split at hl
      · cases hl
      · simp only [List.mem_singleton] at hl
        subst hl
        exact ⟨l, by simp, fun _ h => h⟩
    | cons q rest' =>
      simp only [rustLinesOf, List.mem_cons] at hl
      rcases hl with rfl | hl
      · refine ⟨p, by simp, ?_⟩
        intro x hx
        unfold stripCr at hx
        split at hx
        · exact (List.dropLast_sublist p).subset hx
        · exact hx
      · obtain ⟨p', hp', h⟩ := ih l (by simpa [rustLinesOf] using hl)
        exact ⟨p', List.mem_cons_of_mem _ hp', h⟩

theorem mem_intercalate (sep : Str) : ∀ (l : List Str) (x : Char), x ∈ intercalate sep l → x ∈ sep ∨ ∃ p ∈ l, x ∈ p := by
  intro l
  induction l with
  | nil => intro x hx; simp [intercalate] at hx
  | cons a r ih =>
    intro x hx
    cases r with
    | nil => simp only [intercalate] at hx; exact Or.inr ⟨a, by simp, hx⟩
    | cons b r' =>
      simp only [intercalate, List.mem_append] at hx
      rcases hx with (hx | hx) | hx
      · exact Or.inr ⟨a, by simp, hx⟩
      · exact Or.inl hx
      · rcases ih x hx with h | ⟨p, hp, h⟩
        · exact Or.inl h
        · exact Or.inr ⟨p, List.mem_cons_of_mem _ hp, h⟩

theorem indentEntry_chars (n : Nat) (e : Str) : ∀ x ∈ indentEntry n e, x = ' ' ∨ x = '\n' ∨ x ∈ e := by
  intro x hx
  rcases mem_intercalate _ _ x hx with h | ⟨p, hp, h⟩
  · simp only [List.mem_singleton] at h; exact Or.inr (Or.inl h)
  · obtain ⟨l, hl, rfl⟩ := List.mem_map.mp hp
    rcases List.mem_append.mp h with h | h
    · exact Or.inl (List.eq_of_mem_replicate h)
    · obtain ⟨q, hq, hsub⟩ := mem_rustLinesOf _ l hl
      rcases mem_splitBy_go _ e [] q hq x (hsub x h) with h' | h'
      · cases h'
      · exact Or.inr (Or.inr h')

/-- every character of the CDATA text is a blank, a newline or a character of a rule -/
theorem styleCData_chars (styles : List Str) :
    ∀ x ∈ styleCData styles, x = ' ' ∨ x = '\n' ∨ ∃ r ∈ styles, x ∈ r := by
  intro x hx
  unfold styleCData at hx
  rcases List.mem_cons.mp hx with rfl | hx
  · exact Or.inr (Or.inl rfl)
  rcases List.mem_append.mp hx with hx | hx
  · rcases mem_intercalate _ _ x hx with h | ⟨p, hp, h⟩
    · simp only [List.mem_singleton] at h; exact Or.inr (Or.inl h)
    · obtain ⟨r, hr, rfl⟩ := List.mem_map.mp hp
      rcases indentEntry_chars 6 r x h with h | h | h
      · exact Or.inl h
      · exact Or.inr (Or.inl h)
      · exact Or.inr (Or.inr ⟨r, hr, h⟩)
  · rcases List.mem_cons.mp hx with rfl | hx
    · exact Or.inr (Or.inl rfl)
    · exact Or.inl (List.eq_of_mem_replicate hx)

/-- `styles_chars` for the text of the CDATA event -/
theorem styleCData_build_chars {P : Char → Prop} (hcss : ∀ x, cssCh x = true → P x) (hnl : P '\n')
    {cfg : ThemeCfg} (ha : AuthorOk P cfg) (order : List Str → List Str) (cs es : List Str) :
    ∀ x ∈ styleCData (buildWith order cfg cs es).2, P x := by
  intro x hx
  rcases styleCData_chars _ x hx with rfl | rfl | ⟨r, hr, h⟩
  · exact hcss _ (by decide)
  · exact hnl
  · exact styles_chars hcss ha order cs es r hr x h

/-! ### the CDATA section -/

theorem cdataSplit_go_plain : ∀ (s : Str), (∀ x ∈ s, x ≠ ']') → ∀ fuel cur, s.length ≤ fuel →
    cdataSplit.go fuel s cur = [cur.reverse ++ s] := by
  intro s
  induction s with
  | nil => intro _ fuel cur _; cases fuel <;> simp [cdataSplit.go]
  | cons c r ih =>
    intro h fuel cur hf
    obtain ⟨f, rfl⟩ : ∃ f, fuel = f + 1 := ⟨fuel - 1, by simp at hf; omega⟩
    have hc : c ≠ ']' := h c (by simp)
    have := ih (fun x hx => h x (by simp [hx])) f (c :: cur) (by simp at hf; omega)
    unfold cdataSplit.go
    split
    · simp_all
    · simp_all
    · simp_all
    · rename_i hfu hs
      injection hfu with hfu
      injection hs with h1 h2
      subst hfu; subst h1; subst h2
      simpa using this

/-- a text without `]` is written as ONE section, unchanged -/
theorem cdataSplit_plain (s : Str) (h : ∀ x ∈ s, x ≠ ']') : cdataSplit s = [s] := by
  have := cdataSplit_go_plain s h s.length [] (Nat.le_refl _)
  simpa [cdataSplit] using this

theorem noCDEnd_of_no_rb (s : Str) (h : ∀ c ∈ s, c ≠ ']') : Spec.noCDEnd s = true := by
  induction s with
  | nil => rfl
  | cons c r ih =>
    have hs : startsWith cs!"]]>" (c :: r) = false := by
      cases hs : startsWith cs!"]]>" (c :: r) with
      | false => rfl
      | true =>
        obtain ⟨r', hr'⟩ := (Xml.startsWith_iff _ _).mp hs
        exact absurd rfl (h ']' (by rw [hr']; simp))
    simp [Spec.noCDEnd, hs, ih (fun d hd => h d (by simp [hd]))]

/-- **no `]]>` in the generated CSS** when none of the three author strings contains `]` (alternatively: none
    contains `>`): the tables of themes.rs contain neither character -/
theorem styleCData_noCDEnd {cfg : ThemeCfg} (order : List Str → List Str) (cs es : List Str)
    (ha : AuthorOk (· ≠ ']') cfg ∨ AuthorOk (· ≠ '>') cfg) :
    Spec.noCDEnd (styleCData (buildWith order cfg cs es).2) = true := by
  rcases ha with ha | ha
  · apply noCDEnd_of_no_rb
    exact styleCData_build_chars (P := (· ≠ ']')) (by intro x hx; rintro rfl; revert hx; decide) (by decide) ha order cs es
  · apply noCDEnd_of_no_gt
    exact styleCData_build_chars (P := (· ≠ '>')) (by intro x hx; rintro rfl; revert hx; decide) (by decide) ha order cs es

/-- … and then the writer emits exactly one CDATA section holding that text -/
theorem style_single_section {cfg : ThemeCfg} (order : List Str → List Str) (cs es : List Str)
    (ha : AuthorOk (· ≠ ']') cfg) :
    renderEv (.cdata (styleCData (buildWith order cfg cs es).2)) =
      cs!"<![CDATA[" ++ styleCData (buildWith order cfg cs es).2 ++ cs!"]]>" := by
  have h := cdataSplit_plain _ (styleCData_build_chars (P := (· ≠ ']'))
    (by intro x hx; rintro rfl; revert hx; decide) (by decide) ha order cs es)
  simp [renderEv, h]

/-- the CSS text consists of XML `Char`s when the author strings do (the writer's `XmlCharGuard` refuses the
    document otherwise) -/
theorem styleCData_isChar {cfg : ThemeCfg} (order : List Str → List Str) (cs es : List Str)
    (ha : AuthorOk (fun x => Spec.isChar x = true) cfg) :
    (styleCData (buildWith order cfg cs es).2).all Spec.isChar = true := by
  rw [List.all_eq_true]
  refine styleCData_build_chars (P := fun x => Spec.isChar x = true) ?_ (by decide) ha order cs es
  intro x hx
  simp only [cssCh, Bool.and_eq_true, decide_eq_true_eq] at hx
  have h1 : 32 ≤ x.toNat := hx.1.1.1.1.1
  have h2 : x.toNat < 127 := hx.1.1.1.1.2
  simp only [Spec.isChar, Bool.or_eq_true, Bool.and_eq_true, decide_eq_true_eq, beq_iff_eq]
  omega

/-! ### the written `<style>` element -/

theorem styleEvents_balanced (debug : Bool) (styles : List Str) : Ctl.Balanced (styleEvents debug styles) :=
  (Ctl.balanced_iff_check _).mpr (by cases debug <;> rfl)

theorem styleEvents_names (debug : Bool) (styles : List Str) : NamesOk (styleEvents debug styles) := by
  cases debug <;> rfl

theorem styleElem_unique : ElemUnique styleElem := ⟨List.nodup_nil, fun h => absurd rfl h⟩

theorem styleEvents_unique (debug : Bool) (styles : List Str) : AttrsUnique (styleEvents debug styles) := by
  intro e he
  cases debug <;>
    (simp only [styleEvents, List.cons_append, List.nil_append, if_true, Bool.false_eq_true, if_false,
      List.mem_cons, List.not_mem_nil, or_false] at he
     rcases he with rfl | rfl | rfl | rfl | rfl | rfl | rfl | rfl <;>
       first | exact styleElem_unique | trivial)

/-- **the `<style>` element is well-formed whatever the rules are**: the event list `write_auto_styles` builds,
    written by the writer (which splits the CDATA text at every `]]>`), is accepted by the recogniser — for
    arbitrary rule texts, hence for every theme, class list and author string -/
theorem styleBlock_wellformed (debug : Bool) (styles : List Str) :
    Spec.wfContent (write (styleEvents debug styles)) = true :=
  write_wellformed _ (styleEvents_balanced debug styles) (styleEvents_names debug styles)
    (styleEvents_unique debug styles)

/-- … and in the strict sense (every character an XML `Char`) whenever the writer's character guard lets it pass -/
theorem styleBlock_strict (debug : Bool) (styles : List Str) (out : Str)
    (h : writeChecked (styleEvents debug styles) = some out) : Spec.wfContentStrict out = true :=
  writeChecked_wellformed_strict _ out h (styleEvents_balanced debug styles) (styleEvents_names debug styles)
    (styleEvents_unique debug styles)

end Svgdx.Theme
