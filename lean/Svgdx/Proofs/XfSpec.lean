/-
  Svgdx.Proofs.XfSpec — the `transform` attribute parser (`parseXfList`, transform_attr.rs) and the
  `points` scan (`pointsBBox`) against the grammars of `Svgdx.Geom.XfSpec` / `Svgdx.Base.NumSpec`.
-/
import Svgdx.Geom.XfSpec
import Svgdx.Proofs.NumSpec
namespace Svgdx.XfSpec
open Svgdx Str Num NumSpec

/-! ### `points` -/

/-- **a `points` list in the SVG number-list grammar is accepted** -/
theorem points_accepted (lead : Str) (items : List NumItem) (hlead : isSepRun lead = true)
    (hitems : itemsLegal items = true) : ∃ b, pointsBBox (lead ++ renderItems items) = .ok b := by
  unfold pointsBBox
  rw [number_list_accepted_len lead items hlead hitems]
  simp only
  split <;> exact ⟨_, rfl⟩

/-! ### splitting at ")" -/

theorem go_no_paren (s cur : Str) (h : ∀ c ∈ s, c ≠ ')') :
    splitInclusiveParen.go s cur = if (s.reverse ++ cur).isEmpty then [] else [(s.reverse ++ cur).reverse] := by
  induction s generalizing cur with
  | nil => simp [splitInclusiveParen.go]
  | cons c t ih =>
    have hc : (c == ')') = false := by simpa using h c (by simp)
    rw [splitInclusiveParen.go]
    simp only [hc, Bool.false_eq_true, if_false]
    rw [ih (c :: cur) (fun x hx => h x (by simp [hx]))]
    simp

theorem go_paren (pre rest cur : Str) (h : ∀ c ∈ pre, c ≠ ')') :
    splitInclusiveParen.go (pre ++ ')' :: rest) cur =
      (cur.reverse ++ pre ++ [')']) :: splitInclusiveParen.go rest [] := by
  induction pre generalizing cur with
  | nil => simp [splitInclusiveParen.go]
  | cons c t ih =>
    have hc : (c == ')') = false := by simpa using h c (by simp)
    rw [List.cons_append, splitInclusiveParen.go]
    simp only [hc, Bool.false_eq_true, if_false]
    rw [ih (c :: cur) (fun x hx => h x (by simp [hx]))]
    simp

/-! ### trimming a piece -/

theorem dropWhile_append_suffix (p : Char → Bool) (a y : Str) (hy : headSat p y = false) :
    ∃ a', (a ++ y).dropWhile p = a' ++ y ∧ ∀ c ∈ a', c ∈ a := by
  induction a with
  | nil =>
    refine ⟨[], ?_, fun _ h => h⟩
    have := (takeWhile_run p [] y rfl hy).2
    simpa using this
  | cons c t ih =>
    by_cases hc : p c = true
    · obtain ⟨a', h1, h2⟩ := ih
      exact ⟨a', by simp [List.dropWhile_cons_of_pos hc, h1], fun x hx => List.mem_cons_of_mem _ (h2 x hx)⟩
    · exact ⟨c :: t, by simp [List.dropWhile_cons_of_neg hc], fun _ h => h⟩

theorem trimEnd_snoc (s : Str) (c : Char) (hc : isWs c = false) : trimEnd (s ++ [c]) = s ++ [c] := by
  unfold trimEnd
  simp [List.reverse_append, hc]

/-- a piece `separator name(args)` is cleaned to `name(args)` -/
theorem clean_piece (aft body : Str) (haft : aft.all isXfSep = true)
    (hb1 : headSat isWs body = false) (hb2 : headSat isXfSep body = false) (hne : body ≠ []) :
    trim (aft ++ body ++ [')']) ≠ [] ∧ (trim (aft ++ body ++ [')'])).dropWhile isXfSep = body ++ [')'] := by
  have hy1 : headSat isWs (body ++ [')']) = false := by
    rw [headSat_append_of_ne_nil _ _ hne]; exact hb1
  have hy2 : headSat isXfSep (body ++ [')']) = false := by
    rw [headSat_append_of_ne_nil _ _ hne]; exact hb2
  obtain ⟨a', h1, h2⟩ := dropWhile_append_suffix isWs aft (body ++ [')']) hy1
  have ht : trim (aft ++ body ++ [')']) = a' ++ body ++ [')'] := by
    unfold trim trimStart
    rw [List.append_assoc, h1, ← List.append_assoc]
    exact trimEnd_snoc _ _ (by decide)
  rw [ht]
  refine ⟨by simp, ?_⟩
  have ha' : a'.all isXfSep = true := by
    rw [List.all_eq_true] at haft ⊢
    exact fun c hc => haft c (h2 c hc)
  rw [List.append_assoc]
  exact (takeWhile_run isXfSep a' _ ha' hy2).2

/-! ### one transform -/

theorem breakOn_paren (name rest : Str) (h : ∀ c ∈ name, c ≠ '(') :
    breakOn (· == '(') (name ++ '(' :: rest) = (name, some ('(', rest)) := by
  induction name with
  | nil => simp [breakOn]
  | cons c t ih =>
    have hc : (c == '(') = false := by simpa using h c (by simp)
    rw [List.cons_append, breakOn]
    simp only [hc, Bool.false_eq_true, if_false]
    rw [ih (fun x hx => h x (by simp [hx]))]

theorem stripSuffix_paren (x : Str) : stripSuffix [')'] (x ++ [')']) = some x := by
  unfold stripSuffix
  simp [List.reverse_append, stripPrefix]

theorem name_chars (k : Kind) : ∀ c ∈ k.name, c ≠ '(' ∧ c ≠ ')' := by
  cases k <;> decide

theorem name_last (k : Kind) : headSat isWs k.name.reverse = false := by
  cases k <;> decide

/-- `trim` removes the white space between the name and the "(" -/
theorem trim_name_gap (k : Kind) (gap : Str) (hgap : gap.all isWs = true) : trim (k.name ++ gap) = k.name := by
  have hne : k.name ≠ [] := by cases k <;> decide
  have h1 : headSat isWs (k.name ++ gap) = false := by
    rw [headSat_append_of_ne_nil _ _ hne]; cases k <;> decide
  have hs : (k.name ++ gap).dropWhile isWs = k.name ++ gap := by
    have := (takeWhile_run isWs [] (k.name ++ gap) rfl h1).2
    simpa using this
  have hr : gap.reverse.all isWs = true := by simpa using hgap
  have he := (takeWhile_run isWs gap.reverse k.name.reverse hr (name_last k)).2
  unfold trim trimStart trimEnd
  rw [hs, List.reverse_append, he, List.reverse_reverse]

theorem ws_no_paren (s : Str) (h : s.all isWs = true) : ∀ c ∈ s, c ≠ '(' ∧ c ≠ ')' := by
  intro c hc
  have := List.all_eq_true.mp h _ hc
  constructor <;> (rintro rfl; revert this; decide)

theorem name_head (k : Kind) : k.name ≠ [] ∧ headSat isWs k.name = false ∧ headSat isXfSep k.name = false := by
  cases k <;> decide

/-- **one transform `name(numbers)` is read as what it means** -/
theorem parseXf_render (t : Item) (hgap : t.gap.all isWs = true) (hlead : isSepRun t.lead = true)
    (hargs : itemsLegal t.args = true) (hcount : t.kind.argsOk t.args.length = true) :
    parseXf (t.kind.name ++ (t.gap ++ ('(' :: (t.lead ++ renderItems t.args))) ++ [')']) = some t.denote := by
  have hsplit : splitOnce '(' (t.kind.name ++ (t.gap ++ ('(' :: (t.lead ++ renderItems t.args))) ++ [')']) =
      some (t.kind.name ++ t.gap, (t.lead ++ renderItems t.args) ++ [')']) := by
    unfold splitOnce
    rw [List.append_assoc, List.append_assoc, List.cons_append, ← List.append_assoc,
      breakOn_paren (t.kind.name ++ t.gap) _ (fun c hc => by
        rcases List.mem_append.mp hc with hc | hc
        · exact (name_chars t.kind c hc).1
        · exact (ws_no_paren t.gap hgap c hc).1)]
  have hnum := number_list_accepted_len t.lead t.args hlead hargs
  unfold parseXf
  rw [hsplit]
  simp only [stripSuffix_paren, hnum, trim_name_gap t.kind t.gap hgap]
  have hlen : (t.args.map (·.1.denote)).length = t.args.length := List.length_map ..
  unfold Item.denote
  cases hk : t.kind <;> rw [hk] at hcount <;>
    simp only [Kind.argsOk, Bool.or_eq_true, beq_iff_eq] at hcount
  case translate =>
    have hn : asciiLower Kind.translate.name = cs!"translate" := by decide
    rcases hcount with h | h
    · match t.args, h with
      | [a], _ => simp [hn]
    · match t.args, h with
      | [a, b], _ => simp [hn]
  case scale =>
    have hn : asciiLower Kind.scale.name = cs!"scale" := by decide
    rcases hcount with h | h
    · match t.args, h with
      | [a], _ => simp [hn]
    · match t.args, h with
      | [a, b], _ => simp [hn]
  case rotate =>
    have hn : asciiLower Kind.rotate.name = cs!"rotate" := by decide
    rcases hcount with h | h <;> simp [hn, hlen, h]
  case skewX =>
    have hn : asciiLower Kind.skewX.name = cs!"skewx" := by decide
    simp [hn, hlen, hcount]
  case skewY =>
    have hn : asciiLower Kind.skewY.name = cs!"skewy" := by decide
    simp [hn, hlen, hcount]
  case matrix =>
    have hn : asciiLower Kind.matrix.name = cs!"matrix" := by decide
    simp [hn, hlen, hcount]

/-! ### the list -/

theorem renderItems_no_paren (items : List NumItem) (h : itemsLegal items = true) :
    ∀ c ∈ renderItems items, c ≠ ')' := by
  induction items with
  | nil => intro c hc; cases hc
  | cons it r ih =>
    obtain ⟨n, sep⟩ := it
    obtain ⟨hwf, hsep, hr, _⟩ := itemsLegal_cons h
    intro c hc
    simp only [renderItems, List.mem_append] at hc
    rcases hc with hc | hc | hc
    · rintro rfl; have := render_chars n hwf _ hc; revert this; decide
    · rintro rfl; have := List.all_eq_true.mp hsep _ hc; revert this; decide
    · exact ih hr c hc

theorem sepRun_no_paren (s : Str) (h : isSepRun s = true) : ∀ c ∈ s, c ≠ ')' := by
  intro c hc; rintro rfl; have := List.all_eq_true.mp h _ hc; revert this; decide

theorem xfSep_no_paren (s : Str) (h : s.all isXfSep = true) : ∀ c ∈ s, c ≠ ')' := by
  intro c hc; rintro rfl; have := List.all_eq_true.mp h _ hc; revert this; decide

theorem trim_all_ws (s : Str) (h : s.all isWs = true) : trim s = [] := by
  have : s.dropWhile isWs = [] := by
    have := (takeWhile_run isWs s [] h rfl).2
    simpa using this
  unfold trim trimStart trimEnd
  rw [this]; rfl

theorem xfWs_isWs (s : Str) (h : s.all isXfWs = true) : s.all isWs = true := by
  rw [List.all_eq_true] at h ⊢
  intro c hc
  have := h c hc
  simp only [isXfWs, Bool.or_eq_true, beq_iff_eq] at this
  rcases this with ((rfl | rfl) | rfl) | rfl <;> decide

/-- the pieces of `transform`, cleaned and parsed one by one -/
def pieces (s : Str) : List (Option Xf) :=
  (((splitInclusiveParen s).map trim).filter (· ≠ [])).map (fun v => parseXf (v.dropWhile isXfSep))

theorem listLegal_cons {t : Item} {r : List Item} (h : listLegal (t :: r) = true) :
    t.gap.all isWs = true ∧ isSepRun t.lead = true ∧ itemsLegal t.args = true ∧
    t.kind.argsOk t.args.length = true ∧
    t.after.all isXfSep = true ∧ (r = [] → t.after.all isXfWs = true) ∧ listLegal r = true := by
  simp only [listLegal, Bool.and_eq_true, Bool.or_eq_true, Bool.not_eq_true', List.isEmpty_eq_false_iff] at h
  refine ⟨h.1.1.1.1.1.1, h.1.1.1.1.1.2, h.1.1.1.1.2, h.1.1.1.2, h.1.1.2, ?_, h.2⟩
  intro hr
  rcases h.1.2 with h' | h'
  · exact absurd hr h'
  · exact h'

theorem pieces_render (ts : List Item) : ∀ (aft : Str), aft.all isXfSep = true →
    (ts = [] → aft.all isWs = true) → listLegal ts = true →
    pieces (aft ++ renderItemsXf ts) = ts.map (fun t => some t.denote) := by
  induction ts with
  | nil =>
    intro aft haft hws _
    have hg := go_no_paren aft [] (xfSep_no_paren aft haft)
    unfold pieces splitInclusiveParen
    simp only [renderItemsXf, List.append_nil] at hg ⊢
    rw [hg]
    cases aft with
    | nil => rfl
    | cons c u =>
      have := trim_all_ws (c :: u) (hws rfl)
      simp [this]
  | cons t r ih =>
    intro aft haft _ hlegal
    obtain ⟨hgap, hlead, hargs, hcount, hafter, hlast, hr⟩ := listLegal_cons hlegal
    have hpre : ∀ c ∈ aft ++ (t.kind.name ++ (t.gap ++ ('(' :: (t.lead ++ renderItems t.args)))), c ≠ ')' := by
      intro c hc
      simp only [List.mem_append, List.mem_cons] at hc
      rcases hc with hc | hc | hc | rfl | hc | hc
      · exact xfSep_no_paren aft haft c hc
      · exact (name_chars t.kind c hc).2
      · exact (ws_no_paren t.gap hgap c hc).2
      · decide
      · exact sepRun_no_paren t.lead hlead c hc
      · exact renderItems_no_paren t.args hargs c hc
    have hin : aft ++ renderItemsXf (t :: r) =
        (aft ++ (t.kind.name ++ (t.gap ++ ('(' :: (t.lead ++ renderItems t.args))))) ++
          ')' :: (t.after ++ renderItemsXf r) := by
      simp only [renderItemsXf, Item.render, List.append_assoc, List.cons_append]
    have hg := go_paren _ (t.after ++ renderItemsXf r) [] hpre
    obtain ⟨hn1, hn2, hn3⟩ := name_head t.kind
    have hbody : t.kind.name ++ (t.gap ++ ('(' :: (t.lead ++ renderItems t.args))) ≠ [] := by
      intro h; exact hn1 (List.append_eq_nil_iff.mp h).1
    obtain ⟨hc1, hc2⟩ := clean_piece aft (t.kind.name ++ (t.gap ++ ('(' :: (t.lead ++ renderItems t.args)))) haft
      (by rw [headSat_append_of_ne_nil _ _ hn1]; exact hn2)
      (by rw [headSat_append_of_ne_nil _ _ hn1]; exact hn3) hbody
    have hrec := ih t.after hafter (fun h => xfWs_isWs _ (hlast h)) hr
    unfold pieces splitInclusiveParen at hrec ⊢
    rw [hin, hg]
    simp only [List.reverse_nil, List.nil_append, List.map_cons]
    rw [List.filter_cons_of_pos (by simpa using hc1)]
    simp only [List.map_cons, hc2, parseXf_render t hgap hlead hargs hcount, hrec]

theorem allSome_map_some {α β : Type} (f : α → β) (l : List α) :
    allSome (l.map (fun x => some (f x))) = some (l.map f) := by
  induction l with
  | nil => rfl
  | cons a l ih => simp [allSome, ih]

/-- **a transform list in the SVG grammar is read as the list of its transforms**: `lead` is any run of
    whitespace / commas; white space may separate a name from its "("; the arguments of each transform
    are any legal number list of the right length; transforms are separated by any run of whitespace /
    commas (even none), and only whitespace follows the last one -/
theorem transform_list_accepted (lead : Str) (ts : List Item) (hlead : lead.all isXfSep = true)
    (hempty : ts = [] → lead.all isXfWs = true) (hlegal : listLegal ts = true) :
    parseXfList (renderList lead ts) = some (ts.map Item.denote) := by
  have := pieces_render ts lead hlead (fun h => xfWs_isWs _ (hempty h)) hlegal
  unfold pieces at this
  unfold parseXfList renderList
  rw [this]
  exact allSome_map_some Item.denote ts

/-- kernel-checked instances: white space between the name of a transform and its "(", which the SVG
    grammar allows (`"translate" wsp* "(" ...`) and the pinned code rejected (fix b5cfe2b) -/
theorem space_before_paren_accepted :
    parseXfList cs!"translate (10 20)" = some [.translate 10 20] ∧
    parseXfList cs!"translate(10 20)" = some [.translate 10 20] ∧
    parseXfList cs!"scale\n(2) rotate\t (45)" = some [.scale 2 2, .other] := by decide +kernel

/-- instance: `" translate ( 10 , -2 ) , skewX(3)scale\t(.5.5)\nmatrix(1 1 1 1 1 1)  "` -/
example :
    let d : Str → SvgNumber := fun s => { int := s }
    let ts : List Item := [
      { kind := .translate, gap := [' '], lead := [' '], args := [(d cs!"10", cs!" , "), ({ sign := .minus, int := cs!"2" }, [' '])],
        after := cs!" , " },
      { kind := .skewX, args := [(d cs!"3", [])] },
      { kind := .scale, gap := ['\t'], args := [({ int := [], frac := some ['5'] }, []), ({ int := [], frac := some ['5'] }, [])],
        after := cs!"\n" },
      { kind := .matrix, args := [(d ['1'], [' ']), (d ['1'], [' ']), (d ['1'], [' ']), (d ['1'], [' ']),
          (d ['1'], [' ']), (d ['1'], [])], after := cs!"  " }]
    renderList [' '] ts = cs!" translate ( 10 , -2 ) , skewX(3)scale\t(.5.5)\nmatrix(1 1 1 1 1 1)  " ∧
    listLegal ts = true ∧ ts.map Item.denote = [.translate 10 (-2), .other, .scale (1/2) (1/2), .other] := by
  decide +kernel

end Svgdx.XfSpec

#print axioms Svgdx.XfSpec.points_accepted
#print axioms Svgdx.XfSpec.parseXf_render
#print axioms Svgdx.XfSpec.transform_list_accepted
#print axioms Svgdx.XfSpec.space_before_paren_accepted
