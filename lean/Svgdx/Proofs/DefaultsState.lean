/-
  Svgdx.Proofs.DefaultsState — what `<defaults>` does to the state: `set_element_default` touches the
  defaults list of the innermost scope and the generation counter, nothing else. `DefStep a b` collects
  everything the proofs over the mutual block need to know about the step from `a` to `b`.
-/
import Svgdx.Ctl.Gen
namespace Svgdx.Ctl
open Svgdx

variable {ρ : Type}

/-- `b` is `a` after some `set_element_default` calls -/
structure DefStep (a b : St ρ) : Prop where
  geo : b.geo = a.geo
  originals : b.originals = a.originals
  elemStack : b.elemStack = a.elemStack
  depth : b.depth = a.depth
  inSpecs : b.inSpecs = a.inSpecs
  cfg : b.cfg = a.cfg
  rng : b.rng = a.rng
  outside : b.outside = a.outside
  idlePasses : b.idlePasses = a.idlePasses
  gen : a.gen ≤ b.gen
  tail : b.scopes.tail = a.scopes.tail
  ne : a.scopes ≠ [] → b.scopes ≠ []
  len : a.scopes ≠ [] → b.scopes.length = a.scopes.length
  vars : a.scopes ≠ [] → b.scopes.map (·.vars) = a.scopes.map (·.vars)
  env : b.env = a.env

theorem DefStep.refl (a : St ρ) : DefStep a a :=
  ⟨rfl, rfl, rfl, rfl, rfl, rfl, rfl, rfl, rfl, Nat.le_refl _, rfl, id, fun _ => rfl, fun _ => rfl, rfl⟩

theorem DefStep.trans {a b c : St ρ} (h1 : DefStep a b) (h2 : DefStep b c) : DefStep a c where
  geo := h2.geo.trans h1.geo
  originals := h2.originals.trans h1.originals
  elemStack := h2.elemStack.trans h1.elemStack
  depth := h2.depth.trans h1.depth
  inSpecs := h2.inSpecs.trans h1.inSpecs
  cfg := h2.cfg.trans h1.cfg
  rng := h2.rng.trans h1.rng
  outside := h2.outside.trans h1.outside
  idlePasses := h2.idlePasses.trans h1.idlePasses
  gen := Nat.le_trans h1.gen h2.gen
  tail := h2.tail.trans h1.tail
  ne := fun h => h2.ne (h1.ne h)
  len := fun h => (h2.len (h1.ne h)).trans (h1.len h)
  vars := fun h => (h2.vars (h1.ne h)).trans (h1.vars h)
  env := h2.env.trans h1.env

theorem defStep_setElementDefault (st : St ρ) (e : Elem) : DefStep st (st.setElementDefault e) := by
  unfold St.setElementDefault
  cases hs : st.scopes with
  | nil =>
    refine ⟨rfl, rfl, rfl, rfl, rfl, rfl, rfl, rfl, rfl, Nat.le_succ _, ?_, ?_, ?_, ?_, ?_⟩
    · simp [hs]
    · intro h; exact absurd hs h
    · intro h; exact absurd hs h
    · intro h; exact absurd hs h
    · simp [St.env, hs]
  | cons s rest =>
    refine ⟨rfl, rfl, rfl, rfl, rfl, rfl, rfl, rfl, rfl, Nat.le_succ _, ?_, ?_, ?_, ?_, ?_⟩
    · simp [hs]
    · intro _; simp
    · intro _; simp [hs]
    · intro _; simp [hs]
    · simp [St.env, hs]

theorem setElementDefault_scopes_ne (st : St ρ) (e : Elem) : (st.setElementDefault e).scopes ≠ [] := by
  unfold St.setElementDefault
  split <;> simp

theorem defStep_foldl (es : List Elem) (st : St ρ) : DefStep st (es.foldl St.setElementDefault st) := by
  induction es generalizing st with
  | nil => exact DefStep.refl st
  | cons e es ih => exact (defStep_setElementDefault st e).trans (ih _)

theorem defStep_genDefaults (st : St ρ) (kids : Option Nodes) : DefStep st (genDefaults st kids).1 := by
  unfold genDefaults
  cases kids with
  | none => exact DefStep.refl st
  | some ks => exact defStep_foldl _ st

@[simp] theorem genDefaults_snd (st : St ρ) (kids : Option Nodes) : (genDefaults st kids).2 = .ok ([], none) := rfl

theorem DefStep.lookup {a b : St ρ} (h : DefStep a b) (k : Str) : b.lookup k = a.lookup k := by
  by_cases ha : a.scopes = []
  · -- both environments are empty
    have hb := h.env
    have hb' := h.tail
    unfold St.lookup
    rw [ha] at hb' ⊢
    cases hbs : b.scopes with
    | nil => rfl
    | cons s rest =>
      rw [hbs] at hb'
      simp only [List.tail_cons, List.tail_nil] at hb'
      subst hb'
      have : s.vars = [] := by
        have := hb
        simp only [St.env, hbs, ha, List.flatMap_cons, List.flatMap_nil, List.append_nil] at this
        exact this
      simp [getVar, this, Attrs.lookupTable]
  · have hv := h.vars ha
    unfold St.lookup
    generalize a.scopes = as at hv
    generalize b.scopes = bs at hv
    induction bs generalizing as with
    | nil =>
      cases as with
      | nil => rfl
      | cons _ _ => simp at hv
    | cons s rest ih =>
      cases as with
      | nil => simp at hv
      | cons t rest' =>
        simp only [List.map_cons, List.cons.injEq] at hv
        simp only [getVar, hv.1, ih rest' hv.2]

end Svgdx.Ctl

#print axioms Svgdx.Ctl.defStep_genDefaults
#print axioms Svgdx.Ctl.DefStep.lookup
