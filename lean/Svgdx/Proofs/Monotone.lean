/-
  Svgdx.Proofs.Monotone — is the geometry evaluation (`Elem.resolvePosition`, `Elem.process`) monotone
  in the set of resolved elements?  This is the hypothesis `Sched.Monotone` of `Svgdx.Proofs.Sched`.

  `Ctx.Incl c c'` : `prev` is the same and every id resolved in `c` is resolved in `c'` with the same
  element (`c'` may know more ids).

  ANSWER: not in general.  Three things were found.

  (F1) LENIENT STAGE (a real property of the code, `expand_single_relspec` in element.rs): in the
       `points` of a polyline / polygon and the `d` of a path, a word `#id…` whose id is unknown, or whose
       bounding-box query fails, is silently left as written; `resolve_position` SUCCEEDS with the
       reference unexpanded.  With more elements resolved the same input gives a different successful
       result.  Proved counterexamples: `resolvePosition_not_mono_witness` (points, unknown id),
       `resolvePosition_not_mono_witness_path` (d), `resolvePosition_not_mono_witness_bbox` (id known
       but its box fails because ITS `use` target is unknown), `process_not_mono_witness`,
       `resolvePosition_not_mono` (the negated universal statement).
       No other stage is lenient: every other lookup failure is an error (`handle_containment`,
       `eval_size_attr`, `eval_pos_attr`, `eval_text_anchor`, `eval_rel_position`, `place_at`, the `use`
       size step, `Connector::from_element` — `parseEnd` returns `elem none` for an unknown id but every
       later branch throws on it —, `render`, `get_target_element`, `get_element_bbox`, `size`).
  (F2) MODEL FUEL: `Ctx.target` / `bboxOf` / `sizeRaw` take fuel `c.elems.length + 1 (+2)`.  `Ctx.Incl` does
       not bound lengths (shadowed duplicate ids make `c` longer than `c'`), and the fuel counts neither
       `prev` nor the element being resolved, so a chain `e → ^ → #a → rect` with ONE registered element
       runs out of fuel (`CircularRefError` in the model; the code has no such limit).  Hence the extra
       hypothesis `c.elems.length ≤ c'.elems.length` in every theorem; `mono_needs_length_witness` shows it
       cannot be dropped, `target_fuel_short_witness` shows the inadequate fuel, `Incl.length_le` derives it
       from unique ids in `c`.
  (F3) In the real program the leniency (F1) is masked one level up: `OtherElement::generate_events` calls
       `get_element_bbox(&e)?` after the second `resolve_position`, and the box of a polyline / path whose
       text still contains `#…` is a parse error, so the element is retried (checked on the binary: a
       forward reference in `points` is resolved on the retry).  That call is outside `Elem.process`; what
       IS proved here is the result-side criterion `resolvePosition_mono_of_clean`: a result whose
       `points` / `d` contains no `#` / `^` is final.  (The link "box succeeds ⇒ text is clean" is a
       character-level fact about `svgNumberList` / `pathBBox` and is not proved.)

  THEOREMS (all with `h : Ctx.Incl c c'` and `hlen : c.elems.length ≤ c'.elems.length`):
    `resolvePosition_mono`          e not polyline / polygon / path                     (unconditional)
    `resolvePosition_mono_partial`  any e with unique attribute keys whose `points` / `d` words are all
                                    `Settled` in `c` (reference resolved in `c` and its box query not failing)
    `resolvePosition_mono_of_clean` any e with unique attribute keys whose RESULT in `c` is clean
    `process_mono`                  e not polyline / polygon / path, `<line>` connectors included
    `process_mono_partial`          the rest (settledness needed at both `resolve_position` passes)
    `geomEval_mono`                 the corollary on environments of the retry loop (unique ids)
  Excluded real inputs: `<polyline|polygon points="… #id@loc …">`, `<path d="… #id~w …">` (and `^`)
  evaluated while `id` is unresolved or its box unavailable; `<polyline start= end=>` connectors are
  covered only by `process_mono_partial`.

  Method: `Le x y` (= success of `x` is success of `y` with the same value) is a congruence for
  `>>=`, `mapM`, `foldlM`; one `Le` lemma per stage; the frames of `Svgdx.Proofs.PassThrough` carry
  `points` / `d` / name through the stages before the relspec step.
-/
import Svgdx.Geom.Connector
import Svgdx.Proofs.PassThrough
import Svgdx.Proofs.Sched
namespace Svgdx
open Str Attrs Num Gen

def Ctx.Incl (c c' : Ctx) : Prop :=
  c'.prev = c.prev ∧ ∀ i el, c.get (.id i) = some el → c'.get (.id i) = some el

namespace Monotone

/-- `Le x y`: whenever `x` succeeds, `y` succeeds with the same value -/
def Le {α : Type} (x y : Except Err α) : Prop := ∀ a, x = .ok a → y = .ok a

namespace Le
variable {α β : Type}

theorem refl (x : Except Err α) : Le x x := fun _ h => h
theorem error (er : Err) (y : Except Err α) : Le (.error er) y := fun _ h => by cases h
theorem throw (er : Err) (y : Except Err α) : Le (throw er) y := fun _ h => by cases h
theorem of_eq {x y : Except Err α} (h : x = y) : Le x y := h ▸ refl x
theorem trans {x y z : Except Err α} (h₁ : Le x y) (h₂ : Le y z) : Le x z := fun a h => h₂ a (h₁ a h)

theorem bind {x y : Except Err α} {f g : α → Except Err β} (hx : Le x y)
    (hf : ∀ a, x = .ok a → Le (f a) (g a)) : Le (x >>= f) (y >>= g) := by
  intro b hb
  cases x with
  | error er => cases hb
  | ok a =>
    rw [hx a rfl]
    exact hf a rfl b hb

theorem bind_same (x : Except Err α) {f g : α → Except Err β}
    (hf : ∀ a, Le (f a) (g a)) : Le (x >>= f) (x >>= g) := bind (refl x) (fun a _ => hf a)

theorem mapM {f g : α → Except Err β} (hf : ∀ a, Le (f a) (g a)) :
    ∀ l : List α, Le (l.mapM f) (l.mapM g) := by
  intro l
  induction l with
  | nil => exact refl _
  | cons a l ih =>
    simp only [List.mapM_cons]
    exact bind (hf a) (fun b _ => bind ih (fun _ _ => refl _))

theorem foldlM {f g : β → α → Except Err β} (hf : ∀ b a, Le (f b a) (g b a)) :
    ∀ (l : List α) (b : β), Le (l.foldlM f b) (l.foldlM g b) := by
  intro l
  induction l with
  | nil => intro b; exact refl _
  | cons a l ih =>
    intro b
    simp only [List.foldlM_cons]
    exact bind (hf b a) (fun b' _ => ih b')

end Le

variable {c c' : Ctx}

theorem get_mono (h : Ctx.Incl c c') {r : ElRef} {el : Elem} (hg : c.get r = some el) :
    c'.get r = some el := by
  cases r with
  | id i => exact h.2 i el hg
  | prev =>
    simp only [Ctx.get] at hg ⊢
    rw [h.1]; exact hg

theorem target_mono (h : Ctx.Incl c c') :
    ∀ (n m : Nat) (e : Elem), n ≤ m → Le (c.target n e) (c'.target m e) := by
  intro n
  induction n with
  | zero => intro m e _; exact Le.error _ _
  | succ n ih =>
    intro m e hm
    obtain ⟨m, rfl⟩ : ∃ k, m = k + 1 := ⟨m - 1, by omega⟩
    unfold Ctx.target
    split
    · split
      · exact Le.refl _
      · split
        · exact Le.refl _
        · cases hg : c.get _ with
          | none => exact Le.error _ _
          | some t =>
            rw [get_mono h hg]
            exact ih m t (by omega)
    · exact Le.refl _

theorem bboxOf_mono (h : Ctx.Incl c c') (hlen : c.elems.length ≤ c'.elems.length) :
    ∀ (n m : Nat) (seen : List ElRef) (e : Elem), n ≤ m →
      Le (c.bboxOf n seen e) (c'.bboxOf m seen e) := by
  intro n
  induction n with
  | zero => intro m seen e _; exact Le.error _ _
  | succ n ih =>
    intro m seen e hm
    obtain ⟨m, rfl⟩ : ∃ k, m = k + 1 := ⟨m - 1, by omega⟩
    unfold Ctx.bboxOf
    refine Le.bind (target_mono h _ _ e (by omega)) (fun t _ => ?_)
    refine Le.bind_same _ (fun b => ?_)
    refine Le.bind_same _ (fun b => ?_)
    refine Le.bind_same _ (fun b => ?_)
    split
    · split
      · exact Le.refl _
      · split
        · exact Le.refl _
        · cases hg : c.get _ with
          | none => exact Le.error _ _
          | some ce =>
            rw [get_mono h hg]
            simp only []
            split
            · exact Le.bind (ih m _ ce (by omega)) (fun _ _ => Le.refl _)
            · exact Le.refl _
    · exact Le.refl _

theorem bb_mono (h : Ctx.Incl c c') (hlen : c.elems.length ≤ c'.elems.length) (el : Elem) :
    Le (c.bb el) (c'.bb el) :=
  bboxOf_mono h hlen _ _ [] el (by omega)

theorem sizeRaw_mono (h : Ctx.Incl c c') (hlen : c.elems.length ≤ c'.elems.length) :
    ∀ (n m : Nat) (e : Elem), n ≤ m → Le (Elem.sizeRaw c n e) (Elem.sizeRaw c' m e) := by
  intro n
  induction n with
  | zero => intro m e _; exact Le.error _ _
  | succ n ih =>
    intro m e hm
    obtain ⟨m, rfl⟩ : ∃ k, m = k + 1 := ⟨m - 1, by omega⟩
    unfold Elem.sizeRaw
    refine Le.bind_same _ (fun w0 => ?_)
    refine Le.bind_same _ (fun h0 => ?_)
    simp only []
    refine Le.bind ?_ (fun _ _ => Le.refl _)
    split
    · refine Le.bind (target_mono h _ _ e (by omega)) (fun t _ => ?_)
      exact Le.bind (ih m t (by omega)) (fun _ _ => Le.refl _)
    · exact Le.refl _

theorem size_mono (h : Ctx.Incl c c') (hlen : c.elems.length ≤ c'.elems.length) (e : Elem) :
    Le (e.size c) (e.size c') :=
  sizeRaw_mono h hlen _ _ e (by omega)

/-! ### the same in hypothesis form, and fuel independence -/

theorem Incl.refl (c : Ctx) : Ctx.Incl c c := ⟨rfl, fun _ _ h => h⟩

theorem Incl.trans {c₁ c₂ c₃ : Ctx} (h₁ : Ctx.Incl c₁ c₂) (h₂ : Ctx.Incl c₂ c₃) : Ctx.Incl c₁ c₃ :=
  ⟨h₂.1.trans h₁.1, fun i el h => h₂.2 i el (h₁.2 i el h)⟩

/-- once `target` has succeeded, more fuel changes nothing -/
theorem target_fuel_mono (c : Ctx) {n m : Nat} (hnm : n ≤ m) {e t : Elem}
    (ht : c.target n e = .ok t) : c.target m e = .ok t :=
  target_mono (Incl.refl c) n m e hnm t ht

theorem bboxOf_fuel_mono (c : Ctx) {n m : Nat} (hnm : n ≤ m) {seen : List ElRef} {e : Elem}
    {b : Option BoundingBox} (hb : c.bboxOf n seen e = .ok b) : c.bboxOf m seen e = .ok b :=
  bboxOf_mono (Incl.refl c) (Nat.le_refl _) n m seen e hnm b hb

theorem bbox_mono (h : Ctx.Incl c c') (hlen : c.elems.length ≤ c'.elems.length) {el : Elem}
    {b : Option BoundingBox} (hb : c.bb el = .ok b) : c'.bb el = .ok b :=
  bb_mono h hlen el b hb


theorem splitRelspec_mono (h : Ctx.Incl c c') (input : Str) :
    Le (Elem.splitRelspec c input) (Elem.splitRelspec c' input) := by
  unfold Elem.splitRelspec
  split
  · cases hg : c.get _ with
    | none => exact Le.error _ _
    | some el => rw [get_mono h hg]; exact Le.refl _
  · exact Le.refl _

/-- a `match c.bb el with | .ok (some b) => k b | .ok none => throw | .error er => throw er` block -/
theorem bbMatch_mono {α : Type} (h : Ctx.Incl c c') (hlen : c.elems.length ≤ c'.elems.length)
    (el : Elem) (k : BoundingBox → Except Err α) (e1 : Err) :
    Le (match c.bb el with
        | .ok (some b) => k b
        | .ok none => throw e1
        | .error er => throw er)
       (match c'.bb el with
        | .ok (some b) => k b
        | .ok none => throw e1
        | .error er => throw er) := by
  cases hb : c.bb el with
  | error er => exact Le.error _ _
  | ok b =>
    rw [bb_mono h hlen el b hb]
    exact Le.refl _

theorem evalSizeAttr_mono (h : Ctx.Incl c c') (hlen : c.elems.length ≤ c'.elems.length)
    (name value : Str) : Le (Elem.evalSizeAttr c name value) (Elem.evalSizeAttr c' name value) := by
  unfold Elem.evalSizeAttr
  split
  · exact Le.refl _
  · refine Le.bind (splitRelspec_mono h value) (fun p _ => ?_)
    split
    · exact bbMatch_mono h hlen _ _ _
    · exact Le.refl _

theorem evalPosAttr_mono (h : Ctx.Incl c c') (hlen : c.elems.length ≤ c'.elems.length)
    (e : Elem) (name value : Str) :
    Le (Elem.evalPosAttr c e name value) (Elem.evalPosAttr c' e name value) := by
  unfold Elem.evalPosAttr
  split
  · exact Le.refl _
  · refine Le.bind (splitRelspec_mono h value) (fun p _ => ?_)
    split
    · exact bbMatch_mono h hlen _ _ _
    · exact Le.refl _

theorem evalRelAttributes_mono (h : Ctx.Incl c c') (hlen : c.elems.length ≤ c'.elems.length)
    (e : Elem) : Le (e.evalRelAttributes c) (e.evalRelAttributes c') := by
  unfold Elem.evalRelAttributes
  refine Le.foldlM (fun acc kv => ?_) _ _
  split
  · exact Le.bind (evalSizeAttr_mono h hlen _ _) (fun _ _ => Le.refl _)
  · split
    · exact Le.bind (evalPosAttr_mono h hlen _ _ _) (fun _ _ => Le.refl _)
    · exact Le.refl _

/-- the `.ok (some b) => pure b | _ => throw MissingBBox` block of `handle_containment` -/
def needBox (x : Except Err (Option BoundingBox)) : Except Err BoundingBox :=
  match x with
  | .ok (some b) => pure b
  | _ => throw Err.missingBBox

theorem needBox_mono {x y : Except Err (Option BoundingBox)} (hxy : Le x y) :
    Le (needBox x) (needBox y) := by
  cases x with
  | error er => exact Le.throw _ _
  | ok b => rw [hxy b rfl]; exact Le.refl _

theorem handleContainment_mono (h : Ctx.Incl c c') (hlen : c.elems.length ≤ c'.elems.length)
    (e : Elem) : Le (e.handleContainment c) (e.handleContainment c') := by
  unfold Elem.handleContainment
  split
  · exact Le.refl _
  · exact Le.refl _
  · refine Le.bind (Le.mapM (fun r => ?_) _) (fun _ _ => Le.refl _)
    refine Le.bind_same _ (fun r' => ?_)
    cases hg : c.get r' with
    | none => exact Le.throw _ _
    | some el =>
      rw [get_mono h hg]
      simp only []
      refine (needBox_mono ?_ : Le (needBox _) (needBox _))
      split
      · exact bb_mono h hlen el
      · exact Le.refl _

theorem evalTextAnchor_mono (h : Ctx.Incl c c') (e : Elem) :
    Le (e.evalTextAnchor c) (e.evalTextAnchor c') := by
  unfold Elem.evalTextAnchor
  split
  · exact Le.refl _
  · exact Le.bind (splitRelspec_mono h _) (fun _ _ => Le.refl _)

theorem placeAt_mono (h : Ctx.Incl c c') (hlen : c.elems.length ≤ c'.elems.length)
    (e : Elem) (x y : Rat) : Le (e.placeAt c x y) (e.placeAt c' x y) := by
  unfold Elem.placeAt
  split
  · exact Le.bind (target_mono h _ _ e (by omega)) (fun _ _ => Le.refl _)
  · exact Le.refl _

theorem evalRelPosition_mono (h : Ctx.Incl c c') (hlen : c.elems.length ≤ c'.elems.length)
    (e : Elem) : Le (e.evalRelPosition c) (e.evalRelPosition c') := by
  unfold Elem.evalRelPosition
  split
  · exact Le.refl _
  · refine Le.bind (splitRelspec_mono h _) (fun p _ => ?_)
    split
    · exact Le.refl _
    · refine Le.bind (bb_mono h hlen _) (fun bbox _ => ?_)
      split
      · simp only []
        split
        · exact Le.refl _
        · refine Le.bind (size_mono h hlen e) (fun sz _ => ?_)
          refine Le.bind_same _ (fun gap => ?_)
          exact placeAt_mono h hlen _ _ _
      · exact Le.refl _

/-! ## `points` / `d`: the lenient stage -/

/-- the words (`#id…`, `^…`) that `expand_relspec` hands to `expand_single_relspec`, in order -/
def relspecWords (value : Str) : List Str := go value.length value
where
  go : Nat → Str → List Str
  | 0, _ => []
  | fuel + 1, v =>
    match breakOn (fun ch => ch == '#' || ch == '^') v with
    | (_, none) => []
    | (_, some (ch, after)) =>
      let word := after.takeWhile (fun x => !Elem.wordBreak x)
      let rest := after.dropWhile (fun x => !Elem.wordBreak x)
      (ch :: word) :: (if rest.isEmpty then [] else go fuel rest)

theorem expandRelspec_go_congr (c c' : Ctx) :
    ∀ (n : Nat) (v : Str),
      (∀ w ∈ relspecWords.go n v, Elem.expandSingleRelspec c w = Elem.expandSingleRelspec c' w) →
      Elem.expandRelspec.go c n v = Elem.expandRelspec.go c' n v := by
  intro n
  induction n with
  | zero => intro v _; rfl
  | succ n ih =>
    intro v hw
    unfold Elem.expandRelspec.go
    unfold relspecWords.go at hw
    split
    · rfl
    · rename_i pre ch after heq
      simp only [heq] at hw
      simp only []
      rw [hw _ (by simp)]
      split
      · rfl
      · rename_i hne
        rw [ih _ (fun w hm => hw w (by simp [hne, hm]))]

/-- `expand_relspec` consults the context only through `expand_single_relspec` on `relspecWords` -/
theorem expandRelspec_congr (c c' : Ctx) (v : Str)
    (hw : ∀ w ∈ relspecWords v, Elem.expandSingleRelspec c w = Elem.expandSingleRelspec c' w) :
    Elem.expandRelspec c v = Elem.expandRelspec c' v :=
  expandRelspec_go_congr c c' _ v hw

/-- a relspec word is *settled* in `c`: its reference (if it has one) is resolved in `c` and the
    bounding-box query on the referenced element does not fail in `c` -/
def Settled (c : Ctx) (w : Str) : Prop :=
  ∀ r rest, extractElref w = some (r, rest) → ∃ el b, c.get r = some el ∧ c.bb el = .ok b

theorem expandSingleRelspec_settled (h : Ctx.Incl c c') (hlen : c.elems.length ≤ c'.elems.length)
    {w : Str} (hs : Settled c w) :
    Elem.expandSingleRelspec c w = Elem.expandSingleRelspec c' w := by
  unfold Elem.expandSingleRelspec Elem.splitRelspec
  cases hx : extractElref w with
  | none => rfl
  | some p =>
    obtain ⟨r, rest⟩ := p
    obtain ⟨el, b, hg, hb⟩ := hs r rest hx
    simp only [hg, get_mono h hg, hb, bb_mono h hlen el b hb]

/-- the two `expand_relspec` steps of `resolve_position` -/
def relspecStep (c : Ctx) (e : Elem) : Elem :=
  let e := (if e.name == cs!"polyline" || e.name == cs!"polygon" then
      match e.getAttr cs!"points" with
      | some pts => e.setAttr cs!"points" (Elem.expandRelspec c pts)
      | none => e
    else e)
  (if e.name == cs!"path" then
      match e.getAttr ['d'] with
      | some d => e.setAttr ['d'] (Elem.expandRelspec c d)
      | none => e
    else e)

/-- `resolve_position` up to (excluding) the relspec steps -/
def pre (c : Ctx) (e : Elem) : Except Err Elem := do
  let e ← e.handleContainment c
  let e := e.expandCompoundSize
  let e ← e.evalRelAttributes c
  let e := e.resolveSizeDelta
  let e ← (if e.name == cs!"text" && e.hasAttr cs!"text" then e.evalTextAnchor c else pure e)
  let e ← e.evalRelPosition c
  let e := e.expandCompoundPos
  e.evalRelAttributes c

/-- `resolve_position` after the relspec steps -/
def finish (c : Ctx) (e : Elem) : Except Err Elem := do
  let po ← Elem.usePosition c e e.toPosition
  Elem.useWriteBack (Elem.setPositionAttrs po.1 e) po.2

theorem resolvePosition_eq (c : Ctx) (e : Elem) :
    e.resolvePosition c = pre c e >>= fun e8 => finish c (relspecStep c e8) := by
  unfold Elem.resolvePosition pre
  simp only [bind_assoc]
  rfl

theorem pre_mono (h : Ctx.Incl c c') (hlen : c.elems.length ≤ c'.elems.length) (e : Elem) :
    Le (pre c e) (pre c' e) := by
  unfold pre
  refine Le.bind (handleContainment_mono h hlen e) (fun e1 _ => ?_)
  refine Le.bind (evalRelAttributes_mono h hlen _) (fun e3 _ => ?_)
  refine Le.bind ?_ (fun e5 _ => ?_)
  · split
    · exact evalTextAnchor_mono h _
    · exact Le.refl _
  refine Le.bind (evalRelPosition_mono h hlen _) (fun e6 _ => ?_)
  exact evalRelAttributes_mono h hlen _

theorem usePosition_mono (h : Ctx.Incl c c') (hlen : c.elems.length ≤ c'.elems.length) (e : Elem)
    (p : Gen.Position) : Le (Elem.usePosition c e p) (Elem.usePosition c' e p) := by
  unfold Elem.usePosition
  split
  · split
    · refine Le.bind_same _ (fun r => ?_)
      cases hg : c.get r with
      | none => exact Le.throw _ _
      | some el =>
        rw [get_mono h hg]
        simp only []
        refine Le.bind (target_mono h _ _ el (by omega)) (fun t _ => ?_)
        refine Le.bind (size_mono h hlen t) (fun _ _ => ?_)
        exact Le.bind (bb_mono h hlen el) (fun _ _ => Le.refl _)
    · exact Le.refl _
  · exact Le.refl _

theorem finish_mono (h : Ctx.Incl c c') (hlen : c.elems.length ≤ c'.elems.length) (e : Elem) :
    Le (finish c e) (finish c' e) := by
  unfold finish
  exact Le.bind (usePosition_mono h hlen e _) (fun _ _ => Le.refl _)

/-! ## The element name is never changed (no hypothesis on the attribute list needed) -/

theorem popAttr_name (e : Elem) (k : Str) : (e.popAttr k).1.name = e.name := rfl

theorem popAttr_name' {e e1 : Elem} {k : Str} {o : Option Str} (h : e.popAttr k = (e1, o)) :
    e1.name = e.name := by
  have : e1 = (e.popAttr k).1 := by rw [h]
  rw [this]; rfl

theorem expandPair_name (e : Elem) (k k1 k2 : Str) : (e.expandPair k k1 k2).name = e.name := by
  unfold Elem.expandPair
  split
  · rename_i e1 v heq
    rw [← popAttr_name' heq]
  · rfl

theorem expandCompoundSize_name (e : Elem) : e.expandCompoundSize.name = e.name := by
  unfold Elem.expandCompoundSize
  simp only []
  rw [expandPair_name, expandPair_name, expandPair_name]

theorem expandCompoundPos_name (e : Elem) : e.expandCompoundPos.name = e.name := by
  unfold Elem.expandCompoundPos
  simp only []
  rw [popAttr_name, expandPair_name, expandPair_name, expandPair_name, expandPair_name]
  split
  · rename_i e1 v heq
    rw [← popAttr_name' heq]
    rfl
  · rfl

theorem positionFromBBox_name (e : Elem) (b : BoundingBox) (i : Bool) :
    (e.positionFromBBox b i).name = e.name := by
  unfold Elem.positionFromBBox
  simp only []
  split
  · rfl
  · split
    · rfl
    · split <;> rfl

theorem handleContainment_name {e e' : Elem} (h : e.handleContainment c = .ok e') :
    e'.name = e.name := by
  unfold Elem.handleContainment at h
  split at h
  · cases h
  · cases h; rfl
  · obtain ⟨boxes, -, h⟩ := PassThrough.bind_ok h
    obtain ⟨bbox, -, h⟩ := PassThrough.bind_ok h
    have h := PassThrough.pure_ok h
    subst h
    cases bbox with
    | none => rfl
    | some b => exact positionFromBBox_name e b _

theorem foldlM_name (f : Elem → Str × Str → Except Err Elem)
    (hf : ∀ acc kv r, f acc kv = .ok r → r.name = acc.name) :
    ∀ (l : List (Str × Str)) (e r : Elem), l.foldlM f e = .ok r → r.name = e.name := by
  intro l
  induction l with
  | nil => intro e r h; have := PassThrough.pure_ok h; subst this; rfl
  | cons kv l ih =>
    intro e r h
    rw [List.foldlM_cons] at h
    obtain ⟨e1, h1, h2⟩ := PassThrough.bind_ok h
    exact (ih e1 r h2).trans (hf e kv e1 h1)

theorem evalRelAttributes_name {e e' : Elem} (h : e.evalRelAttributes c = .ok e') :
    e'.name = e.name := by
  unfold Elem.evalRelAttributes at h
  refine foldlM_name _ ?_ e.attrs e e' h
  intro acc kv r hr
  split at hr
  · obtain ⟨v, -, hr⟩ := PassThrough.bind_ok hr
    have hr := PassThrough.pure_ok hr
    subst hr
    split <;> rfl
  · split at hr
    · obtain ⟨v, -, hr⟩ := PassThrough.bind_ok hr
      have hr := PassThrough.pure_ok hr
      subst hr
      split <;> rfl
    · have hr := PassThrough.pure_ok hr
      subst hr; rfl

theorem popAdjust_name (e : Elem) (k k' : Str) (w : Option Rat) :
    (match e.popAttr k with
      | (e', some dw) =>
        match parseLength dw, w with
        | some l, some x => e'.setAttr k' (Num.fstr (l.adjust x))
        | _, _ => e'
      | (_, none) => e).name = e.name := by
  split
  · rename_i e1 v heq
    have := popAttr_name' heq
    split
    · exact this
    · exact this
  · rfl

theorem resolveSizeDelta_name (e : Elem) : e.resolveSizeDelta.name = e.name := by
  unfold Elem.resolveSizeDelta
  simp only []
  generalize (if e.name == cs!"circle" then _ else _ : Option Rat × Option Rat) = wh
  obtain ⟨w, h⟩ := wh
  exact (popAdjust_name _ _ _ h).trans (popAdjust_name e _ _ w)

theorem setDefaultAttr_name (e : Elem) (k v : Str) : (e.setDefaultAttr k v).name = e.name := by
  unfold Elem.setDefaultAttr
  split <;> rfl

theorem evalTextAnchor_name {e e' : Elem} (h : e.evalTextAnchor c = .ok e') : e'.name = e.name := by
  unfold Elem.evalTextAnchor at h
  split at h
  · cases h; rfl
  · obtain ⟨p, -, h⟩ := PassThrough.bind_ok h
    simp only [] at h
    split at h
    · split at h
      · cases h
      all_goals (have h := PassThrough.pure_ok h; subst h; exact setDefaultAttr_name _ _ _)
    · split at h
      · split at h
        · cases h
        · have h := PassThrough.pure_ok h; subst h; exact setDefaultAttr_name _ _ _
      · have h := PassThrough.pure_ok h; subst h; rfl

theorem placeAt_name {e e' : Elem} {x y : Rat} (h : e.placeAt c x y = .ok e') : e'.name = e.name := by
  unfold Elem.placeAt at h
  split at h
  · obtain ⟨t, -, h⟩ := PassThrough.bind_ok h
    obtain ⟨b, -, h⟩ := PassThrough.bind_ok h
    split at h
    · have h := PassThrough.pure_ok h; subst h; rfl
    · have h := PassThrough.pure_ok h; subst h; rfl
  · have h := PassThrough.pure_ok h; subst h; rfl

theorem evalRelPosition_name {e e' : Elem} (h : e.evalRelPosition c = .ok e') : e'.name = e.name := by
  unfold Elem.evalRelPosition at h
  split at h
  · cases h; rfl
  · obtain ⟨p, -, h⟩ := PassThrough.bind_ok h
    split at h
    · have h := PassThrough.pure_ok h; subst h; rfl
    · obtain ⟨bbox, -, h⟩ := PassThrough.bind_ok h
      split at h
      · simp only [] at h
        split at h
        · cases h
        · obtain ⟨sz, -, h⟩ := PassThrough.bind_ok h
          obtain ⟨gap, -, h⟩ := PassThrough.bind_ok h
          exact (placeAt_name h).trans (popAttr_name _ _)
      · have h := PassThrough.pure_ok h; subst h; rfl

theorem pre_name {e e8 : Elem} (h : pre c e = .ok e8) : e8.name = e.name := by
  unfold pre at h
  obtain ⟨e1, h1, h⟩ := PassThrough.bind_ok h
  obtain ⟨e3, h3, h⟩ := PassThrough.bind_ok h
  obtain ⟨e5, h5, h⟩ := PassThrough.bind_ok h
  obtain ⟨e6, h6, h⟩ := PassThrough.bind_ok h
  have n5 : e5.name = e3.resolveSizeDelta.name := by
    split at h5
    · exact evalTextAnchor_name h5
    · have h5 := PassThrough.pure_ok h5; subst h5; rfl
  rw [evalRelAttributes_name h, expandCompoundPos_name, evalRelPosition_name h6, n5,
    resolveSizeDelta_name, evalRelAttributes_name h3, expandCompoundSize_name,
    handleContainment_name h1]

theorem relspecIte_name (b : Bool) (e : Elem) (k : Str) (f : Str → Str) :
    (if b = true then
        match e.getAttr k with
        | some v => e.setAttr k (f v)
        | none => e
      else e).name = e.name := by
  split
  · split <;> rfl
  · rfl

theorem relspecStep_name (c : Ctx) (e : Elem) : (relspecStep c e).name = e.name := by
  unfold relspecStep
  simp only []
  exact (relspecIte_name _ _ _ _).trans (relspecIte_name _ _ _ _)

theorem removeAttrs_name (e : Elem) (ks : List Str) : (e.removeAttrs ks).name = e.name := rfl
theorem setAttr_name (e : Elem) (k v : Str) : (e.setAttr k v).name = e.name := rfl

theorem lineCoord_name (e : Elem) (k : Str) (v : Rat) (d : Option Rat) :
    (e.lineCoord k v d).name = e.name := by
  unfold Elem.lineCoord
  split
  · rfl
  · split
    · split <;> rfl
    · rfl

theorem ite_name (b : Bool) (e1 e : Elem) (h : e1.name = e.name) :
    (if b = true then e1 else e).name = e.name := by
  split
  · exact h
  · rfl

theorem positionViaTransform_name (p : Position) (e : Elem) :
    (Elem.positionViaTransform p e).name = e.name := by
  unfold Elem.positionViaTransform
  simp only []
  split
  · rw [removeAttrs_name, setAttr_name]
  · rfl

theorem setPositionAttrs_name (p : Position) (e : Elem) :
    (Elem.setPositionAttrs p e).name = e.name := by
  unfold Elem.setPositionAttrs
  split
  · simp only []
    repeat' split
    all_goals simp only [removeAttrs_name, setAttr_name, lineCoord_name]
  · split
    · exact positionViaTransform_name p e
    · rfl

theorem useWriteBack_name {e e' : Elem} {o : Option (Rat × Rat)} (h : e.useWriteBack o = .ok e') :
    e'.name = e.name := by
  unfold Elem.useWriteBack at h
  split at h
  · have h := PassThrough.pure_ok h; subst h; rfl
  · obtain ⟨ex, h1, h⟩ := PassThrough.bind_ok h
    have hx : ex.name = e.name := by
      split at h1
      · obtain ⟨n, -, h1⟩ := PassThrough.bind_ok h1
        have h1 := PassThrough.pure_ok h1; subst h1; exact setAttr_name _ _ _
      · have h1 := PassThrough.pure_ok h1; subst h1; rfl
    split at h
    · obtain ⟨n, -, h⟩ := PassThrough.bind_ok h
      have h := PassThrough.pure_ok h; subst h; rw [setAttr_name]; exact hx
    · have h := PassThrough.pure_ok h; subst h; exact hx

theorem finish_name {e e' : Elem} (h : finish c e = .ok e') : e'.name = e.name := by
  unfold finish at h
  obtain ⟨p, -, h⟩ := PassThrough.bind_ok h
  rw [useWriteBack_name h]
  exact setPositionAttrs_name _ _

theorem resolvePosition_name {e e' : Elem} (h : e.resolvePosition c = .ok e') : e'.name = e.name := by
  rw [resolvePosition_eq] at h
  obtain ⟨e8, h8, h⟩ := PassThrough.bind_ok h
  rw [finish_name h, relspecStep_name, pre_name h8]

/-! ## The relspec steps under an agreement hypothesis -/

/-- `expand_relspec` gives the same text in `c` and `c'` on the `points` / `d` of `e` (when used) -/
def StepAgree (c c' : Ctx) (e : Elem) : Prop :=
  ((e.name == cs!"polyline" || e.name == cs!"polygon") = true → ∀ v, e.getAttr cs!"points" = some v →
      Elem.expandRelspec c v = Elem.expandRelspec c' v) ∧
  ((e.name == cs!"path") = true → ∀ v, e.getAttr ['d'] = some v →
      Elem.expandRelspec c v = Elem.expandRelspec c' v)

/-- every relspec word in the `points` (polyline / polygon) or `d` (path) of `e` is settled in `c` -/
def StepSettled (c : Ctx) (e : Elem) : Prop :=
  ((e.name == cs!"polyline" || e.name == cs!"polygon") = true → ∀ v, e.getAttr cs!"points" = some v →
      ∀ w ∈ relspecWords v, Settled c w) ∧
  ((e.name == cs!"path") = true → ∀ v, e.getAttr ['d'] = some v →
      ∀ w ∈ relspecWords v, Settled c w)

theorem StepSettled.agree (h : Ctx.Incl c c') (hlen : c.elems.length ≤ c'.elems.length) {e : Elem}
    (hs : StepSettled c e) : StepAgree c c' e :=
  ⟨fun hb v hv => expandRelspec_congr c c' v
      (fun w hw => expandSingleRelspec_settled h hlen (hs.1 hb v hv w hw)),
   fun hb v hv => expandRelspec_congr c c' v
      (fun w hw => expandSingleRelspec_settled h hlen (hs.2 hb v hv w hw))⟩

theorem relspecIte_congr (b : Bool) (e : Elem) (k : Str) (f g : Str → Str)
    (hfg : b = true → ∀ v, e.getAttr k = some v → f v = g v) :
    (if b = true then
        match e.getAttr k with
        | some v => e.setAttr k (f v)
        | none => e
      else e) =
    (if b = true then
        match e.getAttr k with
        | some v => e.setAttr k (g v)
        | none => e
      else e) := by
  split
  · rename_i hb
    cases hv : e.getAttr k with
    | none => rfl
    | some v => simp only [hfg hb v hv]
  · rfl

theorem relspecStep_congr {e : Elem} (ha : StepAgree c c' e) : relspecStep c e = relspecStep c' e := by
  unfold relspecStep
  simp only []
  rw [relspecIte_congr _ e cs!"points" _ _ ha.1]
  refine relspecIte_congr _ _ ['d'] _ _ ?_
  intro hb v hv
  by_cases hp : (e.name == cs!"polyline" || e.name == cs!"polygon") = true
  · exfalso
    rw [relspecIte_name] at hb
    simp only [Bool.or_eq_true, beq_iff_eq] at hp hb
    rcases hp with hp | hp <;> rw [hp] at hb <;> exact absurd hb (by decide)
  · simp only [hp] at hb hv
    exact ha.2 hb v hv

/-! ## `resolve_position` -/

/-- the general form: monotone as soon as the relspec words met at the `points` / `d` step are settled -/
theorem resolvePosition_mono_of_settled (h : Ctx.Incl c c') (hlen : c.elems.length ≤ c'.elems.length)
    (e : Elem) (hs : ∀ e8, pre c e = .ok e8 → StepSettled c e8) :
    Le (e.resolvePosition c) (e.resolvePosition c') := by
  rw [resolvePosition_eq, resolvePosition_eq]
  refine Le.bind (pre_mono h hlen e) (fun e8 h8 => ?_)
  rw [relspecStep_congr ((hs e8 h8).agree h hlen)]
  exact finish_mono h hlen _

/-- the element is none of the three kinds whose `points` / `d` go through `expand_relspec` -/
def NoRelspecName (e : Elem) : Prop :=
  e.name ≠ cs!"polyline" ∧ e.name ≠ cs!"polygon" ∧ e.name ≠ cs!"path"

theorem StepSettled.of_name {e : Elem} (hn : NoRelspecName e) : StepSettled c e := by
  constructor
  · intro hb
    simp only [Bool.or_eq_true, beq_iff_eq] at hb
    rcases hb with hb | hb
    · exact absurd hb hn.1
    · exact absurd hb hn.2.1
  · intro hb
    simp only [beq_iff_eq] at hb
    exact absurd hb hn.2.2

theorem NoRelspecName.congr {e e1 : Elem} (hn : NoRelspecName e) (h : e1.name = e.name) :
    NoRelspecName e1 := by
  unfold NoRelspecName; rw [h]; exact hn

/-- **Main theorem, unconditional part**: for every element that is not a polyline, polygon or path -/
theorem resolvePosition_mono_le (h : Ctx.Incl c c') (hlen : c.elems.length ≤ c'.elems.length)
    (e : Elem) (hn : NoRelspecName e) : Le (e.resolvePosition c) (e.resolvePosition c') :=
  resolvePosition_mono_of_settled h hlen e (fun _ h8 => StepSettled.of_name (hn.congr (pre_name h8)))

/-! ### polyline / polygon / path: hypothesis on the element's own attributes -/

def preKeys : List Str :=
  PassThrough.containKeys ++ PassThrough.compoundSizeKeys ++ PassThrough.compoundPosKeys ++
    PassThrough.relAttrKeys ++ PassThrough.sizeDeltaKeys ++ PassThrough.relPosKeys ++ [cs!"text-loc"]

theorem pre_frame {e e8 : Elem} (hn : NodupKeys e.attrs) (h : pre c e = .ok e8) :
    PassThrough.Frame preKeys { e with classes := PassThrough.containmentClasses e } e8 := by
  unfold pre at h
  obtain ⟨e1, h1, h⟩ := PassThrough.bind_ok h
  have F1 := PassThrough.handleContainment_frame (K := preKeys) (by decide) c hn h1
  have F2 := PassThrough.expandCompoundSize_frame (K := preKeys) (by decide) F1
  obtain ⟨e3, h3, h⟩ := PassThrough.bind_ok h
  have F3 := PassThrough.evalRelAttributes_frame (K := preKeys) (by decide) c F2 h3
  have F4 := PassThrough.resolveSizeDelta_frame (K := preKeys) (by decide) F3
  obtain ⟨e5, h5, h⟩ := PassThrough.bind_ok h
  have F5 : PassThrough.Frame preKeys { e with classes := PassThrough.containmentClasses e } e5 := by
    split at h5
    · exact PassThrough.evalTextAnchor_frame (K := preKeys) (by decide) c F4 h5
    · have h5 := PassThrough.pure_ok h5; subst h5; exact F4
  obtain ⟨e6, h6, h⟩ := PassThrough.bind_ok h
  have F6 := PassThrough.evalRelPosition_frame (K := preKeys) (by decide) c F5 h6
  have F7 := PassThrough.expandCompoundPos_frame (K := preKeys) (by decide) F6
  exact PassThrough.evalRelAttributes_frame (K := preKeys) (by decide) c F7 h

/-- hypothesis of the partial theorem, on the input element: every relspec word of its `points`
    (polyline, polygon) or `d` (path) is settled in `c` -/
abbrev RelspecsSettled (c : Ctx) (e : Elem) : Prop := StepSettled c e

theorem resolvePosition_mono_partial_le (h : Ctx.Incl c c') (hlen : c.elems.length ≤ c'.elems.length)
    (e : Elem) (hn : NodupKeys e.attrs) (hs : RelspecsSettled c e) :
    Le (e.resolvePosition c) (e.resolvePosition c') := by
  refine resolvePosition_mono_of_settled h hlen e (fun e8 h8 => ?_)
  have F := pre_frame hn h8
  have hname : e8.name = e.name := F.name
  have hp : e8.getAttr cs!"points" = e.getAttr cs!"points" := F.get _ (by decide)
  have hd : e8.getAttr ['d'] = e.getAttr ['d'] := F.get _ (by decide)
  unfold StepSettled
  rw [hname, hp, hd]
  exact hs

/-! ## The connector stage -/

theorem needBB_mono (h : Ctx.Incl c c') (hlen : c.elems.length ≤ c'.elems.length) (e : Elem) :
    Le (Conn.needBB c e) (Conn.needBB c' e) := by
  unfold Conn.needBB
  exact Le.bind (bb_mono h hlen e) (fun _ _ => Le.refl _)

/-- `parseEnd` either does not depend on the context at all, or it found an unresolved reference
    (which every later step of `from_element` turns into an error) -/
theorem parseEnd_cases (h : Ctx.Incl c c') (s : Str) :
    Conn.parseEnd c s = Conn.parseEnd c' s ∨ ∃ loc, Conn.parseEnd c s = .ok (.elem none loc) := by
  unfold Conn.parseEnd
  split
  · rename_i r loc _
    cases hg : c.get r with
    | none => exact Or.inr ⟨loc, rfl⟩
    | some el => rw [get_mono h hg]; exact Or.inl rfl
  · exact Or.inl rfl

/-- the endpoint computation of `from_element`, for given parsed ends -/
def endpoints (c : Ctx) (ct : ConnType) (s t : Conn.EndSpec) :
    Except Err (Conn.Endpoint × Conn.Endpoint) :=
  let mk := fun (p : Rat × Rat) (l : Option LocSpec) => (⟨p, l.bind Conn.locToDir⟩ : Conn.Endpoint)
  (match s, t with
    | .point sp, .point ep => pure ((⟨sp, none⟩ : Conn.Endpoint), (⟨ep, none⟩ : Conn.Endpoint))
    | .point sp, .elem eel eloc => do
      let eel ← (match eel with | some x => pure x | none => throw Err.other)
      let bb ← Conn.needBB c eel
      let loc := match eloc with | some l => l | none => Conn.closestLoc bb sp ct
      pure ((⟨sp, none⟩ : Conn.Endpoint), mk (bb.locspec loc) (some loc))
    | .elem sel sloc, .point ep => do
      let sel ← (match sel with | some x => pure x | none => throw Err.other)
      let bb ← Conn.needBB c sel
      let loc := match sloc with | some l => l | none => Conn.closestLoc bb ep ct
      pure (mk (bb.locspec loc) (some loc), (⟨ep, none⟩ : Conn.Endpoint))
    | .elem sel sloc, .elem eel eloc => do
      let sel ← (match sel with | some x => pure x | none => throw Err.other)
      let eel ← (match eel with | some x => pure x | none => throw Err.other)
      match sloc, eloc with
      | none, none => do
        let sb ← Conn.needBB c sel
        let eb ← Conn.needBB c eel
        let (l1, l2) := Conn.shortestLink sb eb ct
        pure (mk (sb.locspec l1) (some l1), mk (eb.locspec l2) (some l2))
      | none, some l2 => do
        let eb ← Conn.needBB c eel
        let ec := eb.locspec l2
        let sb ← Conn.needBB c sel
        let l1 := Conn.closestLoc sb ec ct
        pure (mk (sb.locspec l1) (some l1), mk ec (some l2))
      | some l1, none => do
        let sb ← Conn.needBB c sel
        let sc := sb.locspec l1
        let eb ← Conn.needBB c eel
        let l2 := Conn.closestLoc eb sc ct
        pure (mk sc (some l1), mk (eb.locspec l2) (some l2))
      | some l1, some l2 => do
        let sb ← Conn.needBB c sel
        let eb ← Conn.needBB c eel
        pure (mk (sb.locspec l1) (some l1), mk (eb.locspec l2) (some l2)))

theorem endpoints_mono (h : Ctx.Incl c c') (hlen : c.elems.length ≤ c'.elems.length)
    (ct : ConnType) (s t : Conn.EndSpec) : Le (endpoints c ct s t) (endpoints c' ct s t) := by
  unfold endpoints
  simp only []
  split
  · exact Le.refl _
  · refine Le.bind_same _ (fun eel => ?_)
    exact Le.bind (needBB_mono h hlen _) (fun _ _ => Le.refl _)
  · refine Le.bind_same _ (fun sel => ?_)
    exact Le.bind (needBB_mono h hlen _) (fun _ _ => Le.refl _)
  · refine Le.bind_same _ (fun sel => ?_)
    refine Le.bind_same _ (fun eel => ?_)
    split
    all_goals
      refine Le.bind (needBB_mono h hlen _) (fun _ _ => ?_)
      exact Le.bind (needBB_mono h hlen _) (fun _ _ => Le.refl _)

theorem endpoints_none_left (c : Ctx) (ct : ConnType) (loc : Option LocSpec) (t : Conn.EndSpec) :
    ∃ er, endpoints c ct (.elem none loc) t = .error er := by
  cases t <;> exact ⟨_, rfl⟩

theorem endpoints_none_right (c : Ctx) (ct : ConnType) (loc : Option LocSpec) (s : Conn.EndSpec) :
    ∃ er, endpoints c ct s (.elem none loc) = .error er := by
  cases s with
  | point p => exact ⟨_, rfl⟩
  | elem el l =>
    cases el with
    | none => exact ⟨_, rfl⟩
    | some x => exact ⟨_, rfl⟩

theorem Le.bind_left {α β : Type} {x : Except Err α} {f : α → Except Err β} {y : Except Err β}
    (hf : ∀ a, x = .ok a → Le (f a) y) : Le (x >>= f) y := by
  intro b hb
  cases x with
  | error er => cases hb
  | ok a => exact hf a rfl b hb

theorem Le.bind_error {α β : Type} {x : Except Err α} {f : α → Except Err β} {y : Except Err β}
    (hx : ∃ er, x = .error er) : Le (x >>= f) y := by
  obtain ⟨er, rfl⟩ := hx
  exact Le.error _ _

/-- `Connector::from_element`, literally, with the endpoint block named -/
def fromElement' (c : Ctx) (e : Elem) (ct : ConnType) : Except Err Conn.Connector := do
  let (e, startRef) := e.popAttr cs!"start"
  let (e, endRef) := e.popAttr cs!"end"
  let startRef ← (match startRef with | some s => pure s | none => throw Err.missingAttr)
  let endRef ← (match endRef with | some s => pure s | none => throw Err.missingAttr)
  let (e, off) := e.popAttr cs!"corner-offset"
  let offset ← (match off with
    | some o => (match parseLength o with | some l => pure (some l) | none => throw Err.parse)
    | none => pure none)
  let s ← Conn.parseEnd c startRef
  let t ← Conn.parseEnd c endRef
  let elOf := fun (x : Conn.EndSpec) => (match x with | .elem el _ => el | .point _ => none)
  let (st, en) ← endpoints c ct s t
  pure { source := e, startEl := elOf s, endEl := elOf t, start := st, end_ := en, connType := ct,
         offset := offset }

theorem fromElement_eq (c : Ctx) (e : Elem) (ct : ConnType) :
    Conn.fromElement c e ct = fromElement' c e ct := rfl

theorem fromElement_mono (h : Ctx.Incl c c') (hlen : c.elems.length ≤ c'.elems.length)
    (e : Elem) (ct : ConnType) : Le (Conn.fromElement c e ct) (Conn.fromElement c' e ct) := by
  rw [fromElement_eq, fromElement_eq]
  unfold fromElement'
  simp only []
  refine Le.bind_same _ (fun startRef => ?_)
  refine Le.bind_same _ (fun endRef => ?_)
  refine Le.bind_same _ (fun offset => ?_)
  rcases parseEnd_cases h startRef with heq | ⟨loc, hnone⟩
  · rw [← heq]
    refine Le.bind_same _ (fun s => ?_)
    rcases parseEnd_cases h endRef with heq2 | ⟨loc2, hnone2⟩
    · rw [← heq2]
      refine Le.bind_same _ (fun t => ?_)
      exact Le.bind (endpoints_mono h hlen ct s t) (fun _ _ => Le.refl _)
    · refine Le.bind_left (fun t ht => ?_)
      rw [hnone2] at ht
      cases ht
      exact Le.bind_error (endpoints_none_right c ct loc2 s)
  · refine Le.bind_left (fun s hs => ?_)
    rw [hnone] at hs
    cases hs
    refine Le.bind_left (fun t _ => ?_)
    exact Le.bind_error (endpoints_none_left c ct loc t)

theorem render_mono (h : Ctx.Incl c c') (hlen : c.elems.length ≤ c'.elems.length)
    (k : Conn.Connector) : Le (Conn.render c k) (Conn.render c' k) := by
  unfold Conn.render
  simp only []
  split
  · refine Le.bind ?_ (fun _ _ => Le.refl _)
    split
    · refine Le.bind (needBB_mono h hlen _) (fun _ _ => ?_)
      exact Le.bind (needBB_mono h hlen _) (fun _ _ => Le.refl _)
    · exact Le.refl _
  · refine Le.bind ?_ (fun _ _ => Le.refl _)
    split
    · refine Le.bind (needBB_mono h hlen _) (fun _ _ => ?_)
      exact Le.bind (needBB_mono h hlen _) (fun _ _ => Le.refl _)
    · exact Le.refl _
  · exact Le.refl _
  · exact Le.refl _

theorem Le.map {α β : Type} {x y : Except Err α} (f : α → β) (hxy : Le x y) :
    Le (x.map f) (y.map f) := by
  intro b hb
  cases x with
  | error er => cases hb
  | ok a => rw [hxy a rfl]; exact hb

theorem transmuteConnector_mono (h : Ctx.Incl c c') (hlen : c.elems.length ≤ c'.elems.length)
    (e : Elem) : Le (Conn.transmuteConnector c e) (Conn.transmuteConnector c' e) := by
  unfold Conn.transmuteConnector
  split
  · simp only []
    cases hf : Conn.fromElement c e _ with
    | error er => exact Le.error _ _
    | ok k =>
      rw [fromElement_mono h hlen e _ k hf]
      exact Le.map _ (render_mono h hlen k)
  · exact Le.refl _

theorem lineElem_name (x1 y1 x2 y2 : Rat) (src : Elem) :
    (Conn.lineElem x1 y1 x2 y2 src).name = cs!"line" := rfl

theorem fromElement_connType {e : Elem} {ct : ConnType} {k : Conn.Connector}
    (h : Conn.fromElement c e ct = .ok k) : k.connType = ct := by
  rw [fromElement_eq] at h
  unfold fromElement' at h
  simp only [] at h
  obtain ⟨_, -, h⟩ := PassThrough.bind_ok h
  obtain ⟨_, -, h⟩ := PassThrough.bind_ok h
  obtain ⟨_, -, h⟩ := PassThrough.bind_ok h
  obtain ⟨_, -, h⟩ := PassThrough.bind_ok h
  obtain ⟨_, -, h⟩ := PassThrough.bind_ok h
  obtain ⟨_, -, h⟩ := PassThrough.bind_ok h
  have h := PassThrough.pure_ok h
  subst h
  rfl

theorem render_name {k : Conn.Connector} {r : Elem} (hk : k.connType ≠ .corner)
    (h : Conn.render c k = .ok r) : r.name = cs!"line" := by
  unfold Conn.render at h
  simp only [] at h
  split at h
  · obtain ⟨_, -, h⟩ := PassThrough.bind_ok h
    have h := PassThrough.pure_ok h; subst h; exact lineElem_name _ _ _ _ _
  · obtain ⟨_, -, h⟩ := PassThrough.bind_ok h
    have h := PassThrough.pure_ok h; subst h; exact lineElem_name _ _ _ _ _
  · have h := PassThrough.pure_ok h; subst h; exact lineElem_name _ _ _ _ _
  · rename_i hc; exact absurd hc hk

theorem connTypeOfStr_ne_corner (s : Str) : Conn.connTypeOfStr s ≠ .corner := by
  unfold Conn.connTypeOfStr
  split
  · split
    · exact fun h => by cases h
    · split <;> exact fun h => by cases h
  · exact fun h => by cases h

theorem map_ok {α β : Type} {x : Except Err α} {f : α → β} {b : β} (h : x.map f = .ok b) :
    ∃ a, x = .ok a ∧ f a = b := by
  cases x with
  | error er => cases h
  | ok a => cases h; exact ⟨a, rfl, rfl⟩

/-- the connector stage keeps an element out of the polyline / polygon / path class
    (a `<line>` connector becomes a `<line>`; only a `<polyline>` connector can become a polyline) -/
theorem transmuteConnector_noRelspec {e e2 : Elem} (hn : NoRelspecName e)
    (h : Conn.transmuteConnector c e = .ok e2) : NoRelspecName e2 := by
  unfold Conn.transmuteConnector at h
  split at h
  · rename_i hc
    have hline : e.name = cs!"line" := by
      simp only [Conn.isConnector, Bool.and_eq_true, Bool.or_eq_true, beq_iff_eq] at hc
      rcases hc.2 with hl | hp
      · exact hl
      · exact absurd hp hn.1
    simp only [] at h
    split at h
    · rename_i k hf
      obtain ⟨r, hr, rfl⟩ := map_ok h
      have hct := fromElement_connType hf
      have hne : k.connType ≠ .corner := by
        rw [hct]
        split
        · exact connTypeOfStr_ne_corner _
        · rw [hline]; exact fun h => by cases h
      have hr := render_name hne hr
      have : (r.withoutAttr cs!"edge-type").name = cs!"line" := hr
      unfold NoRelspecName
      rw [this]
      decide
    · cases h
  · cases h; exact hn

/-! ## `process` -/

theorem transmuteDxDy_name {e e' : Elem} (h : e.transmuteDxDy = .ok e') : e'.name = e.name := by
  unfold Elem.transmuteDxDy at h
  split at h
  · cases h; rfl
  · simp only [] at h
    obtain ⟨dx, -, h⟩ := PassThrough.bind_ok h
    obtain ⟨dy, -, h⟩ := PassThrough.bind_ok h
    split at h
    · unfold Elem.translated at h
      refine (foldlM_name _ ?_ _ _ _ h).trans rfl
      intro acc kv r hr
      split at hr
      · obtain ⟨v, -, hr⟩ := PassThrough.bind_ok hr
        have hr := PassThrough.pure_ok hr; subst hr; rfl
      · split at hr
        · obtain ⟨v, -, hr⟩ := PassThrough.bind_ok hr
          have hr := PassThrough.pure_ok hr; subst hr; rfl
        · have hr := PassThrough.pure_ok hr; subst hr; rfl
    · have h := PassThrough.pure_ok h; subst h; rfl

/-- `process` up to (excluding) the second `resolve_position` -/
def processHead (c : Ctx) (e : Elem) : Except Err Elem := do
  let e ← e.resolvePosition c
  let e ← Conn.transmuteConnector c e
  e.transmuteDxDy

theorem process_eq (c : Ctx) (e : Elem) :
    e.process c = processHead c e >>= fun e3 => e3.resolvePosition c := by
  unfold Elem.process processHead
  simp only [bind_assoc]

theorem processHead_noRelspec {e e3 : Elem} (hn : NoRelspecName e) (h : processHead c e = .ok e3) :
    NoRelspecName e3 := by
  unfold processHead at h
  obtain ⟨e1, h1, h⟩ := PassThrough.bind_ok h
  obtain ⟨e2, h2, h⟩ := PassThrough.bind_ok h
  exact (transmuteConnector_noRelspec (hn.congr (resolvePosition_name h1)) h2).congr
    (transmuteDxDy_name h)

/-- general form for `process`: the relspec words met at the `points` / `d` step of BOTH
    `resolve_position` passes are settled in `c` -/
theorem process_mono_of_settled (h : Ctx.Incl c c') (hlen : c.elems.length ≤ c'.elems.length)
    (e : Elem) (hs1 : ∀ e8, pre c e = .ok e8 → StepSettled c e8)
    (hs2 : ∀ e3 e8, processHead c e = .ok e3 → pre c e3 = .ok e8 → StepSettled c e8) :
    Le (e.process c) (e.process c') := by
  rw [process_eq, process_eq]
  refine Le.bind ?_ (fun e3 h3 => resolvePosition_mono_of_settled h hlen e3 (hs2 e3 · h3))
  unfold processHead
  refine Le.bind (resolvePosition_mono_of_settled h hlen e hs1) (fun e1 _ => ?_)
  exact Le.bind (transmuteConnector_mono h hlen e1) (fun _ _ => Le.refl _)

theorem process_mono_le (h : Ctx.Incl c c') (hlen : c.elems.length ≤ c'.elems.length)
    (e : Elem) (hn : NoRelspecName e) : Le (e.process c) (e.process c') :=
  process_mono_of_settled h hlen e
    (fun _ h8 => StepSettled.of_name (hn.congr (pre_name h8)))
    (fun _ _ h3 h8 => StepSettled.of_name ((processHead_noRelspec hn h3).congr (pre_name h8)))

/-! ## Counterexamples -/

/-- a word that is NOT settled is left verbatim by `expand_single_relspec` (and, being a word of
    `relspecWords`, it starts with `#` or `^`) -/
theorem expandSingleRelspec_unsettled {w : Str} {r : ElRef} {rest : Str}
    (hx : extractElref w = some (r, rest))
    (hu : c.get r = none ∨ ∃ el er, c.get r = some el ∧ c.bb el = .error er) :
    Elem.expandSingleRelspec c w = w := by
  unfold Elem.expandSingleRelspec Elem.splitRelspec
  rcases hu with hg | ⟨el, er, hg, hb⟩
  · simp only [hx, hg]
  · simp only [hx, hg, hb]
    repeat' split
    all_goals rfl

def wRect : Elem :=
  { name := cs!"rect",
    attrs := [(['x'], cs!"0"), (['y'], cs!"0"), (cs!"width", cs!"10"), (cs!"height", cs!"20")] }

/-- `<polyline points="#a@br 30 40"/>` -/
def wPoly : Elem := { name := cs!"polyline", attrs := [(cs!"points", cs!"#a@br 30 40")] }
/-- `<path d="M #a@br L 30 40"/>` -/
def wPath : Elem := { name := cs!"path", attrs := [(['d'], cs!"M #a@br L 30 40")] }

def wC0 : Ctx := {}
def wC1 : Ctx := { elems := [(['a'], wRect)] }

def wPolyOut0 : Elem := { name := cs!"polyline", attrs := [(cs!"points", cs!"#a@br 30 40")] }
def wPolyOut1 : Elem := { name := cs!"polyline", attrs := [(cs!"points", cs!"10 20 30 40")] }
def wPathOut0 : Elem := { name := cs!"path", attrs := [(['d'], cs!"M #a@br L 30 40")] }
def wPathOut1 : Elem := { name := cs!"path", attrs := [(['d'], cs!"M 10 20 L 30 40")] }

theorem wIncl01 : Ctx.Incl wC0 wC1 := ⟨rfl, fun i el h => by cases h⟩

set_option maxRecDepth 100000 in
theorem wPoly_c0 : wPoly.resolvePosition wC0 = .ok wPolyOut0 := by with_unfolding_all rfl
set_option maxRecDepth 100000 in
theorem wPoly_c1 : wPoly.resolvePosition wC1 = .ok wPolyOut1 := by with_unfolding_all rfl
set_option maxRecDepth 100000 in
theorem wPath_c0 : wPath.resolvePosition wC0 = .ok wPathOut0 := by with_unfolding_all rfl
set_option maxRecDepth 100000 in
theorem wPath_c1 : wPath.resolvePosition wC1 = .ok wPathOut1 := by with_unfolding_all rfl
set_option maxRecDepth 100000 in
theorem wPoly_process_c0 : wPoly.process wC0 = .ok wPolyOut0 := by with_unfolding_all rfl
set_option maxRecDepth 100000 in
theorem wPoly_process_c1 : wPoly.process wC1 = .ok wPolyOut1 := by with_unfolding_all rfl

theorem wPolyOut_ne : wPolyOut0 ≠ wPolyOut1 := fun h => by
  have := congrArg Elem.attrs h
  revert this
  decide

theorem wPathOut_ne : wPathOut0 ≠ wPathOut1 := fun h => by
  have := congrArg Elem.attrs h
  revert this
  decide

/-- **`resolve_position` is NOT monotone** (lenient `expand_single_relspec`, unknown reference):
    `<polyline points="#a@br 30 40"/>` succeeds in the empty context with `points` left as written,
    and succeeds in the context that knows `a` with `points="10 20 30 40"`. -/
theorem resolvePosition_not_mono_witness :
    Ctx.Incl wC0 wC1 ∧ wC0.elems.length ≤ wC1.elems.length ∧
    wPoly.resolvePosition wC0 = .ok wPolyOut0 ∧ wPoly.resolvePosition wC1 = .ok wPolyOut1 ∧
    wPolyOut0 ≠ wPolyOut1 :=
  ⟨wIncl01, by decide, wPoly_c0, wPoly_c1, wPolyOut_ne⟩

/-- the same for the `d` of a `<path>` -/
theorem resolvePosition_not_mono_witness_path :
    Ctx.Incl wC0 wC1 ∧ wC0.elems.length ≤ wC1.elems.length ∧
    wPath.resolvePosition wC0 = .ok wPathOut0 ∧ wPath.resolvePosition wC1 = .ok wPathOut1 ∧
    wPathOut0 ≠ wPathOut1 :=
  ⟨wIncl01, by decide, wPath_c0, wPath_c1, wPathOut_ne⟩

/-- … and for the whole `process` pipeline -/
theorem process_not_mono_witness :
    Ctx.Incl wC0 wC1 ∧ wC0.elems.length ≤ wC1.elems.length ∧
    wPoly.process wC0 = .ok wPolyOut0 ∧ wPoly.process wC1 = .ok wPolyOut1 ∧
    wPolyOut0 ≠ wPolyOut1 :=
  ⟨wIncl01, by decide, wPoly_process_c0, wPoly_process_c1, wPolyOut_ne⟩

theorem resolvePosition_not_mono :
    ¬ ∀ (c c' : Ctx) (e e' : Elem), Ctx.Incl c c' → c.elems.length ≤ c'.elems.length →
        e.resolvePosition c = .ok e' → e.resolvePosition c' = .ok e' := by
  intro H
  have h1 := H wC0 wC1 wPoly wPolyOut0 wIncl01 (by decide) wPoly_c0
  rw [wPoly_c1] at h1
  exact wPolyOut_ne (by cases h1)

/-- second leniency of the same stage: the reference IS resolved in `c`, but the bounding-box query
    on it fails in `c` (here: `a` is a `<use href="#b"/>` and `b` is not resolved yet); the failure is
    swallowed and the word left as written. -/
def wUseB : Elem := { name := cs!"use", attrs := [(cs!"href", cs!"#b")] }
def wC2 : Ctx := { elems := [(['a'], wUseB)] }
def wC3 : Ctx := { elems := [(['b'], wRect), (['a'], wUseB)] }

theorem wIncl23 : Ctx.Incl wC2 wC3 := by
  refine ⟨rfl, fun i el h => ?_⟩
  simp only [Ctx.get, wC2, wC3, lookupTable] at h ⊢
  split at h
  · rename_i hi
    have hi := eq_of_beq hi
    subst hi
    exact h
  · cases h

set_option maxRecDepth 100000 in
theorem wPoly_c2 : wPoly.resolvePosition wC2 = .ok wPolyOut0 := by with_unfolding_all rfl
set_option maxRecDepth 100000 in
theorem wPoly_c3 : wPoly.resolvePosition wC3 = .ok wPolyOut1 := by with_unfolding_all rfl
set_option maxRecDepth 100000 in
theorem wUseB_bb_c2 : wC2.bb wUseB = .error .reference := by with_unfolding_all rfl

theorem resolvePosition_not_mono_witness_bbox :
    Ctx.Incl wC2 wC3 ∧ wC2.elems.length ≤ wC3.elems.length ∧
    wC2.get (.id ['a']) = some wUseB ∧ wC2.bb wUseB = .error .reference ∧
    wPoly.resolvePosition wC2 = .ok wPolyOut0 ∧ wPoly.resolvePosition wC3 = .ok wPolyOut1 ∧
    wPolyOut0 ≠ wPolyOut1 :=
  ⟨wIncl23, by decide, rfl, wUseB_bb_c2, wPoly_c2, wPoly_c3, wPolyOut_ne⟩

/-- the fuel of `target` is `elems.length + 2`: the element being resolved, `prev` (neither is counted
    by `elems`) and then distinct registered elements. `<use href="^" xy="#a|h"/>` with
    `prev = <use href="#a"/>` needs three `target` steps (itself, `prev`, `a`) and gets them with a
    single registered element. (With `elems.length + 1` the model answered `CircularRefError` here,
    which the code does not: found while proving monotonicity, corrected in the model.)
    The length hypothesis `hlen` of the theorems below is what the fuel argument uses; two contexts
    with the same view of every id can still differ in length through shadowed registrations. -/
def wUsePrev : Elem := { name := cs!"use", attrs := [(cs!"href", cs!"^"), (cs!"xy", cs!"#a|h")] }
def wUseA : Elem := { name := cs!"use", attrs := [(cs!"href", cs!"#a")] }
def wCS : Ctx := { elems := [(['a'], wRect)], prev := some wUseA }

set_option maxRecDepth 100000 in
theorem target_fuel_chain_witness :
    wCS.target (wCS.elems.length + 1) wUsePrev = .error .circular ∧
    wCS.target (wCS.elems.length + 2) wUsePrev = .ok wRect := by
  constructor <;> with_unfolding_all rfl

/-! ## Public statements (in the `… = .ok e' → … = .ok e'` form) -/

/-- **Main theorem.** For every element that is not a `polyline`, `polygon` or `path`,
    `resolve_position` is monotone in the set of resolved elements: success is preserved and the
    result is the same element. -/
theorem resolvePosition_mono {c c' : Ctx} {e e' : Elem} (h : Ctx.Incl c c')
    (hlen : c.elems.length ≤ c'.elems.length) (hn : NoRelspecName e)
    (hr : e.resolvePosition c = .ok e') : e.resolvePosition c' = .ok e' :=
  resolvePosition_mono_le h hlen e hn e' hr

/-- **Partial theorem** for `polyline` / `polygon` / `path` (and everything else): it is enough that
    every `#id…` / `^…` word in the element's own `points` resp. `d` is settled in `c`. -/
theorem resolvePosition_mono_partial {c c' : Ctx} {e e' : Elem} (h : Ctx.Incl c c')
    (hlen : c.elems.length ≤ c'.elems.length) (hk : NodupKeys e.attrs) (hs : RelspecsSettled c e)
    (hr : e.resolvePosition c = .ok e') : e.resolvePosition c' = .ok e' :=
  resolvePosition_mono_partial_le h hlen e hk hs e' hr

/-- **`process`** (resolve; connector; dx/dy; resolve) is monotone for every element that is not a
    `polyline`, `polygon` or `path` — `<line>` connectors included. -/
theorem process_mono {c c' : Ctx} {e e' : Elem} (h : Ctx.Incl c c')
    (hlen : c.elems.length ≤ c'.elems.length) (hn : NoRelspecName e)
    (hr : e.process c = .ok e') : e.process c' = .ok e' :=
  process_mono_le h hlen e hn e' hr

/-- `process` for the remaining elements (`polyline` connectors included): settledness is needed at
    both `resolve_position` passes; for the first pass it can be read off the element itself. -/
theorem process_mono_partial {c c' : Ctx} {e e' : Elem} (h : Ctx.Incl c c')
    (hlen : c.elems.length ≤ c'.elems.length) (hk : NodupKeys e.attrs) (hs : RelspecsSettled c e)
    (hs2 : ∀ e3 e8, processHead c e = .ok e3 → pre c e3 = .ok e8 → StepSettled c e8)
    (hr : e.process c = .ok e') : e.process c' = .ok e' := by
  refine process_mono_of_settled h hlen e (fun e8 h8 => ?_) hs2 e' hr
  have F := pre_frame hk h8
  have hname : e8.name = e.name := F.name
  have hp : e8.getAttr cs!"points" = e.getAttr cs!"points" := F.get _ (by decide)
  have hd : e8.getAttr ['d'] = e.getAttr ['d'] := F.get _ (by decide)
  unfold StepSettled
  rw [hname, hp, hd]
  exact hs

/-! ## A criterion on the OUTPUT: no `#` / `^` left in `points` / `d` -/

/-- no reference character left in the text -/
def Clean (v : Str) : Prop := ∀ ch ∈ v, (ch == '#' || ch == '^') = false

theorem breakOn_some {f : Char → Bool} : ∀ {v pre : Str} {ch : Char} {after : Str},
    breakOn f v = (pre, some (ch, after)) → f ch = true := by
  intro v
  induction v with
  | nil => intro pre ch after h; simp [breakOn] at h
  | cons x xs ih =>
    intro pre ch after h
    unfold breakOn at h
    split at h
    · rename_i hf
      cases h
      exact hf
    · simp only [Prod.mk.injEq] at h
      exact ih (pre := (breakOn f xs).1) (Prod.ext rfl h.2)

/-- if the expanded text is clean, every word met was settled (an unsettled word is left verbatim,
    and it starts with `#` or `^`) -/
theorem settled_of_clean_go (c : Ctx) :
    ∀ (n : Nat) (v : Str), Clean (Elem.expandRelspec.go c n v) →
      ∀ w ∈ relspecWords.go n v, Settled c w := by
  intro n
  induction n with
  | zero => intro v _ w hw; cases hw
  | succ n ih =>
    intro v hcl w hw
    unfold Elem.expandRelspec.go at hcl
    unfold relspecWords.go at hw
    split at hcl
    · rename_i pre heq
      simp only [heq] at hw
      cases hw
    · rename_i pre ch after heq
      simp only [heq] at hw
      simp only [] at hcl
      have hch : (ch == '#' || ch == '^') = true := breakOn_some heq
      have hcl1 : Clean (Elem.expandSingleRelspec c (ch :: after.takeWhile fun x => !Elem.wordBreak x)) :=
        fun x hx => hcl x (by simp [hx])
      rcases List.mem_cons.1 hw with hw | hw
      · subst hw
        intro r rest hx
        cases hg : c.get r with
        | none =>
          rw [expandSingleRelspec_unsettled hx (Or.inl hg)] at hcl1
          have := hcl1 ch (by simp)
          rw [hch] at this; cases this
        | some el =>
          cases hb : c.bb el with
          | error er =>
            rw [expandSingleRelspec_unsettled hx (Or.inr ⟨el, er, hg, hb⟩)] at hcl1
            have := hcl1 ch (by simp)
            rw [hch] at this; cases this
          | ok b => exact ⟨el, b, rfl, hb⟩
      · split at hw
        · cases hw
        · rename_i hne
          refine ih _ (fun x hx => hcl x ?_) w hw
          simp [hne, hx]

theorem settled_of_clean (c : Ctx) (v : Str) (h : Clean (Elem.expandRelspec c v)) :
    ∀ w ∈ relspecWords v, Settled c w :=
  settled_of_clean_go c _ v h

/-- the `points` (polyline, polygon) resp. `d` (path) of `e` carries no `#` / `^` -/
def CleanRelspecAttrs (e : Elem) : Prop :=
  ((e.name == cs!"polyline" || e.name == cs!"polygon") = true → ∀ v, e.getAttr cs!"points" = some v → Clean v) ∧
  ((e.name == cs!"path") = true → ∀ v, e.getAttr ['d'] = some v → Clean v)

theorem relspecIte_true {b : Bool} (hb : b = true) (e : Elem) (k : Str) (f : Str → Str) {v : Str}
    (hv : e.getAttr k = some v) :
    (if b = true then
        match e.getAttr k with
        | some v => e.setAttr k (f v)
        | none => e
      else e) = e.setAttr k (f v) := by
  simp only [hb, if_true, hv]

theorem relspecIte_false {b : Bool} (hb : ¬ b = true) (e : Elem) (k : Str) (f : Str → Str) :
    (if b = true then
        match e.getAttr k with
        | some v => e.setAttr k (f v)
        | none => e
      else e) = e := by
  split
  · rename_i h; exact absurd h hb
  · rfl

theorem stepSettled_of_clean {e8 : Elem} (hk : NodupKeys e8.attrs)
    (hcl : CleanRelspecAttrs (relspecStep c e8)) : StepSettled c e8 := by
  have hname := relspecStep_name c e8
  unfold CleanRelspecAttrs at hcl
  rw [hname] at hcl
  constructor
  · intro hb v hv w hw
    refine settled_of_clean c v (hcl.1 hb _ ?_) w hw
    have hpath : ¬ (e8.name == cs!"path") = true := by
      simp only [Bool.or_eq_true, beq_iff_eq] at hb ⊢
      rcases hb with hb | hb <;> rw [hb] <;> decide
    unfold relspecStep
    simp only []
    rw [relspecIte_true hb e8 _ _ hv, relspecIte_false (by exact hpath)]
    exact get_insert_self hk _ _
  · intro hb v hv w hw
    refine settled_of_clean c v (hcl.2 hb _ ?_) w hw
    have hpoly : ¬ (e8.name == cs!"polyline" || e8.name == cs!"polygon") = true := by
      simp only [Bool.or_eq_true, beq_iff_eq] at hb ⊢
      rw [hb]; decide
    unfold relspecStep
    simp only []
    rw [relspecIte_false hpoly, relspecIte_true hb e8 _ _ hv]
    exact get_insert_self hk _ _

theorem finish_frame {e e' : Elem} (hk : NodupKeys e.attrs) (h : finish c e = .ok e') :
    PassThrough.Frame PassThrough.setPosKeys e e' := by
  unfold finish at h
  obtain ⟨p, -, h⟩ := PassThrough.bind_ok h
  refine PassThrough.useWriteBack_frame (by decide) (by decide) ?_ h
  exact PassThrough.setPositionAttrs_frame (fun _ hm => hm) p.1 (PassThrough.Frame.refl hk)

/-- **Result-side criterion.** If the element `resolve_position` produced in `c` carries no `#` / `^`
    in its `points` resp. `d`, then that result is final: every larger context gives the same. -/
theorem resolvePosition_mono_of_clean {c c' : Ctx} {e e' : Elem} (h : Ctx.Incl c c')
    (hlen : c.elems.length ≤ c'.elems.length) (hk : NodupKeys e.attrs)
    (hr : e.resolvePosition c = .ok e') (hcl : CleanRelspecAttrs e') :
    e.resolvePosition c' = .ok e' := by
  refine resolvePosition_mono_of_settled h hlen e (fun e8 h8 => ?_) e' hr
  rw [resolvePosition_eq] at hr
  obtain ⟨e8', h8', hf⟩ := PassThrough.bind_ok hr
  rw [h8] at h8'
  cases h8'
  have hk8 : NodupKeys e8.attrs := (pre_frame hk h8).nodup
  have F9 : PassThrough.Frame [cs!"points", ['d']] e8 (relspecStep c e8) :=
    PassThrough.relspecStep_frame
      (PassThrough.relspecStep_frame (PassThrough.Frame.refl hk8) (k := cs!"points") (by decide) _ _)
      (k := ['d']) (by decide) _ _
  have Ff := finish_frame F9.nodup hf
  refine stepSettled_of_clean hk8 ?_
  unfold CleanRelspecAttrs at hcl ⊢
  rw [Ff.name, Ff.get _ (by decide), Ff.get _ (by decide)] at hcl
  exact hcl

/-! ## The length hypothesis from unique ids -/

theorem nodup_subset_length {α : Type} [DecidableEq α] :
    ∀ (l l' : List α), l.Nodup → (∀ a ∈ l, a ∈ l') → l.length ≤ l'.length := by
  intro l
  induction l with
  | nil => intro l' _ _; simp
  | cons a l ih =>
    intro l' hnd hsub
    rw [List.nodup_cons] at hnd
    have ha : a ∈ l' := hsub a (by simp)
    have := ih (l'.erase a) hnd.2 (fun b hb =>
      (List.mem_erase_of_ne (fun hba => hnd.1 (by rw [← hba]; exact hb))).2 (hsub b (by simp [hb])))
    rw [List.length_erase_of_mem ha] at this
    have hpos : 0 < l'.length := List.length_pos_of_mem ha
    simp only [List.length_cons]
    omega

theorem lookupTable_of_mem {β : Type} (t : List (Str × β)) (k : Str) (hk : k ∈ t.map Prod.fst) :
    ∃ v, lookupTable t k = some v := by
  induction t with
  | nil => cases hk
  | cons x xs ih =>
    obtain ⟨k', v'⟩ := x
    simp only [lookupTable]
    split
    · exact ⟨v', rfl⟩
    · rename_i hne
      simp only [List.map_cons, List.mem_cons] at hk
      rcases hk with hk | hk
      · exact absurd (by simp [hk]) hne
      · exact ih hk

theorem mem_of_lookupTable {β : Type} (t : List (Str × β)) (k : Str) (v : β)
    (h : lookupTable t k = some v) : k ∈ t.map Prod.fst := by
  induction t with
  | nil => cases h
  | cons x xs ih =>
    obtain ⟨k', v'⟩ := x
    simp only [lookupTable] at h
    split at h
    · rename_i hk
      have := eq_of_beq hk
      simp [this]
    · simp [ih h]

/-- with unique ids in `c` (the program rejects duplicate ids; `Sched` assumes them) the length
    hypothesis follows from inclusion -/
theorem Incl.length_le {c c' : Ctx} (h : Ctx.Incl c c') (hnd : (c.elems.map Prod.fst).Nodup) :
    c.elems.length ≤ c'.elems.length := by
  have := nodup_subset_length (c.elems.map Prod.fst) (c'.elems.map Prod.fst) hnd (fun k hk => by
    obtain ⟨v, hv⟩ := lookupTable_of_mem c.elems k hk
    exact mem_of_lookupTable c'.elems k v (h.2 k v hv))
  simpa using this

/-! ## Towards the scheduler (`Svgdx.Proofs.Sched`) -/

/-- the context an environment of the retry loop stands for (`prev` fixed) -/
def ctxOf (prev : Option Elem) (env : Sched.Env Str Elem) : Ctx := { elems := env, prev := prev }

theorem get_ctxOf (prev : Option Elem) (env : Sched.Env Str Elem) (i : Str) :
    (ctxOf prev env).get (.id i) = Sched.view env i := by
  unfold ctxOf Ctx.get Sched.view
  simp only []
  induction env with
  | nil => rfl
  | cons x xs ih =>
    obtain ⟨k, v⟩ := x
    simp only [lookupTable, List.find?_cons]
    by_cases hk : k = i
    · subst hk; simp
    · have h1 : (k == i) = false := by simpa using hk
      simp only [h1, Bool.false_eq_true, if_false, ih]
      split
      · rename_i hh
        exact absurd (by simpa using hh) hk
      · rfl

theorem incl_ctxOf (prev : Option Elem) {env env' : Sched.Env Str Elem}
    (h : Sched.Incl (Sched.view env) (Sched.view env')) : Ctx.Incl (ctxOf prev env) (ctxOf prev env') :=
  ⟨rfl, fun i el hg => by rw [get_ctxOf] at hg ⊢; exact h i el hg⟩

/-- evaluation of one element against an environment of the retry loop -/
def geomEval (prev : Option Elem) (e : Elem) (env : Sched.Env Str Elem) : Option Elem :=
  match e.process (ctxOf prev env) with
  | .ok e' => some e'
  | .error _ => none

/-- the geometry evaluation is monotone along inclusion of the *environments* of the retry loop
    (unique ids). This is `Sched.Monotone` restricted to views that come from environments; the
    definition in `Sched` quantifies over arbitrary functions `Str → Option Elem`, which a `Ctx`
    (a list) cannot represent, so the corollary is stated on environments. -/
theorem geomEval_mono (prev : Option Elem) (e : Elem) (hn : NoRelspecName e)
    {env env' : Sched.Env Str Elem} (hnd : (env.map Prod.fst).Nodup)
    (h : Sched.Incl (Sched.view env) (Sched.view env')) {v : Elem}
    (hv : geomEval prev e env = some v) : geomEval prev e env' = some v := by
  unfold geomEval at hv ⊢
  split at hv
  · rename_i e' he
    cases hv
    have hi := incl_ctxOf prev h
    rw [process_mono hi (Incl.length_le hi hnd) hn he]
  · cases hv

section Axioms
#print axioms get_mono
#print axioms target_mono
#print axioms bb_mono
#print axioms size_mono
#print axioms splitRelspec_mono
#print axioms evalSizeAttr_mono
#print axioms evalPosAttr_mono
#print axioms evalRelAttributes_mono
#print axioms handleContainment_mono
#print axioms evalRelPosition_mono
#print axioms transmuteConnector_mono
#print axioms resolvePosition_mono
#print axioms resolvePosition_mono_partial
#print axioms process_mono
#print axioms process_mono_partial
#print axioms resolvePosition_not_mono_witness
#print axioms resolvePosition_not_mono_witness_path
#print axioms resolvePosition_not_mono_witness_bbox
#print axioms process_not_mono_witness
#print axioms resolvePosition_not_mono
#print axioms target_fuel_chain_witness
#print axioms target_fuel_mono
#print axioms bbox_mono
#print axioms expandSingleRelspec_unsettled
#print axioms settled_of_clean
#print axioms resolvePosition_mono_of_clean
#print axioms Incl.length_le
#print axioms geomEval_mono
end Axioms

end Monotone
end Svgdx
