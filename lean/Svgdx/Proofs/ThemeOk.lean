/-
  Svgdx.Proofs.ThemeOk — `Ok` for every segment of `stylesT`, hence for all of it.
-/
import Svgdx.Proofs.Theme
namespace Svgdx.Theme
open Svgdx Str

variable {cs es : List Str}

theorem ok_fill : ∀ e ∈ fillStyles cs, Ok cs es e := by
  intro e he
  obtain ⟨c, hc, he⟩ := List.mem_flatMap.mp he
  have hf := fill_facts c hc
  refine ok_guarded ?_ (fun h => absurd h hf.2.2) (colour_reserved hc).1 e he
  intro r hr
  simp only [List.mem_cons, List.not_mem_nil, or_false] at hr
  rcases hr with rfl | rfl
  · exact hf.1
  · exact hf.2.1

theorem ok_stroke : ∀ e ∈ strokeStyles cs, Ok cs es e := by
  intro e he
  obtain ⟨c, hc, he⟩ := List.mem_flatMap.mp he
  have hf := stroke_facts c hc
  refine ok_guarded ?_ (fun h => absurd h hf.2.2) (colour_reserved hc).2.1 e he
  intro r hr
  rcases List.mem_cons.mp hr with rfl | hr
  · exact hf.1
  · split at hr
    · simp only [List.mem_cons, List.not_mem_nil, or_false] at hr
      subst hr
      exact hf.2.1
    · simp at hr

theorem ok_textCol : ∀ e ∈ textColStyles cs, Ok cs es e := by
  intro e he
  obtain ⟨c, hc, he⟩ := List.mem_flatMap.mp he
  have hf := textCol_facts c hc
  refine ok_guarded ?_ (fun h => absurd h hf.2) (colour_reserved hc).2.2.1 e he
  intro r hr
  simp only [List.mem_cons, List.not_mem_nil, or_false] at hr
  subst hr
  exact hf.1

theorem ok_textOlCol : ∀ e ∈ textOlColStyles cs, Ok cs es e := by
  intro e he
  obtain ⟨c, hc, he⟩ := List.mem_flatMap.mp he
  have hf := textOlCol_facts c hc
  refine ok_guarded ?_ (fun h => absurd h hf.2) (colour_reserved hc).2.2.2 e he
  intro r hr
  simp only [List.mem_cons, List.not_mem_nil, or_false] at hr
  subst hr
  exact hf.1

theorem ok_colour : ∀ e ∈ colourStyles cs, Ok cs es e := by
  intro e he
  simp only [colourStyles, List.mem_append] at he
  rcases he with ((he | he) | he) | he
  · exact ok_fill e he
  · exact ok_stroke e he
  · exact ok_textCol e he
  · exact ok_textOlCol e he

theorem ok_surround : ∀ e ∈ surroundStyles cs, Ok cs es e := by
  intro e he
  refine ok_guarded ?_ (fun h => absurd h surround_facts.2.1) surround_facts.2.2 e he
  intro r hr
  simp only [List.mem_cons, List.not_mem_nil, or_false] at hr
  subst hr
  exact surround_facts.1

theorem ok_strokeWidth (cfg : ThemeCfg) : ∀ e ∈ strokeWidthStyles cfg cs, Ok cs es e := by
  intro e he
  obtain ⟨p, hp, he⟩ := List.mem_flatMap.mp he
  have hf := strokeWidth_facts p hp
  refine ok_guarded ?_ (fun h => absurd h hf.2.1) hf.2.2 e he
  intro r hr
  simp only [List.mem_cons, List.not_mem_nil, or_false] at hr
  subst hr
  rw [strokeWidthRule_eq]
  exact keyOf_dot _ _ ' ' hf.1 (by decide)

theorem ok_text (cfg : ThemeCfg) : ∀ e ∈ textStyles cfg cs es, Ok cs es e := by
  intro e he
  unfold textStyles at he
  split at he
  · rename_i ht
    simp only [List.mem_append] at he
    rcases he with (he | he) | he
    · obtain ⟨p, hp, he⟩ := List.mem_flatMap.mp he
      refine ok_guarded ?_ (fun _ => ht) (text0_facts p hp).2 e he
      intro r hr
      simp only [List.mem_cons, List.not_mem_nil, or_false] at hr
      subst hr
      exact (text0_facts p hp).1
    · obtain ⟨p, hp, he⟩ := List.mem_flatMap.mp he
      refine ok_guarded ?_ (fun _ => ht) (text1_facts p hp).2 e he
      intro r hr
      simp only [List.mem_cons, List.not_mem_nil, or_false] at hr
      subst hr
      rw [textSizeRule_eq]
      exact keyOf_text _ _ ',' (text1_facts p hp).1 (by decide)
    · obtain ⟨p, hp, he⟩ := List.mem_flatMap.mp he
      refine ok_guarded ?_ (fun _ => ht) (text2_facts p hp).2 e he
      intro r hr
      simp only [List.mem_cons, List.not_mem_nil, or_false] at hr
      subst hr
      rw [textOlWidthRule_eq]
      exact keyOf_text _ _ ',' (text2_facts p hp).1 (by decide)
  · simp at he

theorem ok_arrow : ∀ e ∈ arrowStyles cs, Ok cs es e := by
  intro e he
  have hf := arrow_facts
  simp only [arrowStyles, List.mem_append] at he
  rcases he with (he | he) | he
  · refine ok_guarded ?_ (fun h => absurd h hf.2.2.2.1) hf.2.2.2.2.2.1 e he
    intro r hr
    simp only [List.mem_cons, List.not_mem_nil, or_false] at hr
    subst hr; exact hf.1
  · refine ok_guarded ?_ (fun h => absurd h hf.2.2.2.2.1) hf.2.2.2.2.2.2 e he
    intro r hr
    simp only [List.mem_cons, List.not_mem_nil, or_false] at hr
    subst hr; exact hf.2.1
  · split at he
    · refine ok_untagged ?_ e he
      intro r hr
      simp only [List.mem_cons, List.not_mem_nil, or_false] at hr
      subst hr; exact hf.2.2.1
    · simp at he

theorem ok_dash : ∀ e ∈ dashStyles cs, Ok cs es e := by
  intro e he
  have hf := dash_facts
  simp only [dashStyles, List.mem_append] at he
  rcases he with ((((he | he) | he) | he) | he) | he
  · obtain ⟨p, hp, he⟩ := List.mem_flatMap.mp he
    have hp' := flow_facts p hp
    refine ok_guarded ?_ (fun h => absurd h hp'.2.1) hp'.2.2 e he
    intro r hr
    simp only [List.mem_cons, List.not_mem_nil, or_false] at hr
    subst hr; exact hp'.1
  · split at he
    · refine ok_untagged ?_ e he
      intro r hr
      simp only [List.mem_cons, List.not_mem_nil, or_false] at hr
      subst hr; exact hf.1
    · simp at he
  · refine ok_guarded ?_ (fun h => absurd h hf.2.2.1) hf.2.2.2.2.2.2.2.2.2.1 e he
    intro r hr
    simp only [List.mem_cons, List.not_mem_nil, or_false] at hr
    subst hr; exact hf.2.1
  · refine ok_guarded ?_ (fun h => absurd h hf.2.2.2.2.1) hf.2.2.2.2.2.2.2.2.2.2.1 e he
    intro r hr
    simp only [List.mem_cons, List.not_mem_nil, or_false] at hr
    subst hr; exact hf.2.2.2.1
  · refine ok_guarded ?_ (fun h => absurd h hf.2.2.2.2.2.2.1) hf.2.2.2.2.2.2.2.2.2.2.2.1 e he
    intro r hr
    simp only [List.mem_cons, List.not_mem_nil, or_false] at hr
    subst hr; exact hf.2.2.2.2.2.1
  · refine ok_guarded ?_ (fun h => absurd h hf.2.2.2.2.2.2.2.2.1) hf.2.2.2.2.2.2.2.2.2.2.2.2 e he
    intro r hr
    simp only [List.mem_cons, List.not_mem_nil, or_false] at hr
    subst hr; exact hf.2.2.2.2.2.2.2.1

theorem ok_shadow : ∀ e ∈ shadowStyles cs, Ok cs es e := by
  intro e he
  obtain ⟨p, hp, he⟩ := List.mem_flatMap.mp he
  have hf := shadow_facts p hp
  refine ok_guarded ?_ (fun h => absurd h hf.2.1) hf.2.2 e he
  intro r hr
  simp only [List.mem_cons, List.not_mem_nil, or_false] at hr
  subst hr; exact hf.1

/-! ### unconditional rules -/

theorem key_background (cfg : ThemeCfg) : keyOf (backgroundRule cfg) = none := by
  unfold backgroundRule
  split <;> (unfold outerSvg; split <;> rfl)

theorem key_localOpen (cfg : ThemeCfg) : ∀ r ∈ localOpen cfg, keyOf r = none := by
  intro r hr
  unfold localOpen at hr
  split at hr
  · simp only [List.mem_cons, List.not_mem_nil, or_false] at hr
    subst hr; rfl
  · simp at hr

theorem key_localClose (cfg : ThemeCfg) : ∀ r ∈ localClose cfg, keyOf r = none := by
  intro r hr
  unfold localClose at hr
  split at hr
  · simp only [List.mem_cons, List.not_mem_nil, or_false] at hr
    subst hr; rfl
  · simp at hr

theorem key_early (cfg : ThemeCfg) : ∀ r ∈ earlyStyles cfg, keyOf r = none :=
  theme_styles_facts cfg.theme (themeKind_mem_all _) _ (by simp)

theorem key_late (cfg : ThemeCfg) : ∀ r ∈ lateStyles cfg, keyOf r = none :=
  theme_styles_facts cfg.theme (themeKind_mem_all _) _ (by simp)

theorem key_common (cfg : ThemeCfg) : ∀ r ∈ commonStyles cfg, keyOf r = none := by
  intro r hr
  unfold commonStyles at hr
  have h4 : cms.drop 2 = [nth cms 2, nth cms 3, nth cms 4, nth cms 5] := by decide +kernel
  rw [h4] at hr
  simp only [List.map_cons, List.map_nil, List.mem_cons, List.not_mem_nil, or_false] at hr
  rcases hr with rfl | rfl | rfl | rfl
  · cases cfg.localId <;> rfl
  · rfl
  · rfl
  · rfl

/-! ### all of `stylesT` -/

theorem stylesT_ok {order : List Str → List Str} (hord : ∀ l x, x ∈ order l → x ∈ l)
    (cfg : ThemeCfg) (cs es : List Str) : ∀ e ∈ stylesT order cfg cs es, Ok cs es e := by
  intro e he
  simp only [stylesT, List.mem_append] at he
  rcases he with ((((((((((((he | he) | he) | he) | he) | he) | he) | he) | he) | he) | he) | he) | he) | he
  · refine ok_untagged ?_ e he
    intro r hr
    simp only [List.mem_cons, List.not_mem_nil, or_false] at hr
    subst hr; exact key_background cfg
  · exact ok_untagged (key_localOpen cfg) e he
  · exact ok_untagged (key_early cfg) e he
  · exact ok_surround e he
  · exact ok_untagged (key_common cfg) e he
  · exact ok_colour e he
  · exact ok_strokeWidth cfg e he
  · exact ok_text cfg e he
  · exact ok_arrow e he
  · exact ok_dash e he
  · exact ok_pattern hord e he
  · exact ok_shadow e he
  · exact ok_untagged (key_late cfg) e he
  · exact ok_untagged (key_localClose cfg) e he

theorem sortU_sub : ∀ (l : List Str) (x : Str), x ∈ sortU l → x ∈ l := fun _ _ h => mem_sortU.mp h

/-- a rule whose text names class `k` is only emitted when `k` is in the class list; a rule of the
    text family only when there is a `text` element as well -/
theorem key_of_mem_styles {order : List Str → List Str} (hord : ∀ l x, x ∈ order l → x ∈ l)
    {cfg : ThemeCfg} {cs es : List Str} {r k : Str}
    (hr : r ∈ (buildWith order cfg cs es).2) (hk : keyOf r = some k) :
    k ∈ cs ∧ (k ∈ textKeys → hasText es = true) ∧ isReserved k = true := by
  simp only [buildWith, List.mem_map] at hr
  obtain ⟨e, he, rfl⟩ := hr
  have hok := stylesT_ok hord cfg cs es e he
  exact hok.2 k (by rw [← hok.1, hk])

end Svgdx.Theme
