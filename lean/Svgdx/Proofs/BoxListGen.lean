/-
  Svgdx.Proofs.BoxListGen — the hand-written list-level box folds (`Elem.unionAll`, `Elem.intersectAll` of
  Svgdx/Geom/Resolve.lean for surround / inside; `Ctl.unionOpt` of Svgdx/Ctl/Gen.lean, folded over the
  optional boxes of children / iterations for group, loop and root extents) equal the code REGENERATED
  from position.rs on every run (`BoundingBox::union`, `BoundingBox::intersection`, `BoundingBoxBuilder`
  in Svgdx/Gen/BoxList.lean), for all lists.
-/
import Svgdx.Geom.Resolve
import Svgdx.Ctl.Gen
import Svgdx.Gen.BoxList

namespace Svgdx.Props.C12g
open Svgdx Gen

/-! ### `BoundingBox::union` -/

/-- `Elem.unionAll` is `BoundingBox::union` (none for no box; every box counts, also an empty one) -/
theorem unionAll_eq_gen (bs : List BoundingBox) : Elem.unionAll bs = BoundingBox.union bs := by
  cases bs <;> rfl

/-! ### `BoundingBox::intersection` -/

theorem foldl_bind_none (bs : List BoundingBox) :
    bs.foldl (fun (acc : Option BoundingBox) o => acc.bind (·.intersect o)) none = none := by
  induction bs with
  | nil => rfl
  | cons b bs ih => simpa using ih

/-- the `while` loop of `BoundingBox::intersection` from state `acc` over the remaining boxes -/
theorem while_loop_eq (bs : List BoundingBox) (acc : Option BoundingBox) :
    BoundingBox.intersection.while_loop acc bs
      = bs.foldl (fun (acc : Option BoundingBox) o => acc.bind (·.intersect o)) acc := by
  induction bs generalizing acc with
  | nil => cases acc <;> rfl
  | cons b bs ih =>
    cases acc with
    | none =>
      rw [List.foldl_cons]
      simp only [Option.bind_none]
      rw [foldl_bind_none]
      rfl
    | some a =>
      rw [List.foldl_cons]
      simp only [Option.bind_some]
      rw [← ih]
      rfl

/-- `Elem.intersectAll` is `BoundingBox::intersection` (none for no box and from the first empty overlap
    on) -/
theorem intersectAll_eq_gen (bs : List BoundingBox) : Elem.intersectAll bs = BoundingBox.intersection bs := by
  cases bs with
  | nil => rfl
  | cons b bs =>
    show _ = BoundingBox.intersection.while_loop (some b) bs
    rw [while_loop_eq]
    rfl

/-! ### `BoundingBoxBuilder` -/

/-- one `extend` is one `unionOpt` with a present box -/
theorem extend_eq (acc : Option BoundingBox) (b : BoundingBox) :
    BoundingBoxBuilder.extend ⟨acc⟩ b = ⟨Ctl.unionOpt acc (some b)⟩ := by
  cases acc <;> rfl

/-- how the code uses the builder (`if let Some(bb) = .. { bbox.extend(bb); }` per child / iteration) -/
def extendOpt (bld : BoundingBoxBuilder) (ob : Option BoundingBox) : BoundingBoxBuilder :=
  match ob with
  | some b => bld.extend b
  | none => bld

theorem builder_from (obs : List (Option BoundingBox)) (acc : Option BoundingBox) :
    (obs.foldl extendOpt ⟨acc⟩).build = obs.foldl Ctl.unionOpt acc := by
  induction obs generalizing acc with
  | nil => rfl
  | cons ob obs ih =>
    cases ob with
    | none =>
      have : Ctl.unionOpt acc none = acc := by cases acc <;> rfl
      simp only [List.foldl_cons, extendOpt, this]
      exact ih acc
    | some b =>
      simp only [List.foldl_cons, extendOpt, extend_eq]
      exact ih _

/-- extending a new builder by the present boxes of a list and building it is the hand model's optional
    union over that list -/
theorem builder_eq_gen (obs : List (Option BoundingBox)) :
    (obs.foldl extendOpt BoundingBoxBuilder.new).build = obs.foldl Ctl.unionOpt none :=
  builder_from obs none

/-- ... and over a list of boxes it is `BoundingBox::union` / `Elem.unionAll` -/
theorem builder_eq_union (bs : List BoundingBox) :
    (bs.foldl BoundingBoxBuilder.extend BoundingBoxBuilder.new).build = Elem.unionAll bs := by
  have h : ∀ (bs : List BoundingBox) (acc : Option BoundingBox),
      (bs.foldl BoundingBoxBuilder.extend ⟨acc⟩).build
        = match acc with
          | none => Elem.unionAll bs
          | some a => some (bs.foldl BoundingBox.combine a) := by
    intro bs
    induction bs with
    | nil => intro acc; cases acc <;> rfl
    | cons b bs ih =>
      intro acc
      rw [List.foldl_cons, extend_eq, ih]
      cases acc <;> rfl
  exact h bs none

end Svgdx.Props.C12g
