/-
  Svgdx.Proofs.Contain — whole-function theorems about `Elem.handleContainment` (the model of
  `handle_containment` / `position_from_bbox` / `inscribed_bbox` of element.rs), for ALL contexts and
  elements. Everything is stated against the model definitions of Svgdx.Geom.Resolve as they stand.

  Vocabulary (all total, all decidable on concrete data):
    `areaOf c e isS r`    the box one listed reference contributes (`none` = it does not resolve)
    `refErr c e isS r`    the error the function reports for a reference that does not resolve
    `parsedMargin e`      the `margin` attribute parsed (absent ⇒ `none`)
    `adjust isS t b`      box grown (surround) / shrunk (inside) by the margin
    `finish e isS bbox`   the tail of the function: geometry from the box (if any), class, three removals
-/
import Svgdx.Props.C12
import Svgdx.Proofs.PassThrough
import Mathlib.Tactic.Ring
import Mathlib.Tactic.Linarith
import Mathlib.Tactic.Positivity
import Mathlib.Tactic.NormNum
import Mathlib.Tactic.FieldSimp
import Mathlib.Tactic.SplitIfs

namespace Svgdx.Props.C12x
open Svgdx Gen Attrs Svgdx.Props.C12

/-! ## Vocabulary -/

/-- the box of the element a reference names: its bounding box (surround) or the area a shape of
    `e`'s kind can take inside it (inside) -/
def elemArea (c : Ctx) (e : Elem) (isSurround : Bool) (el : Elem) : Except Err (Option BoundingBox) :=
  if isSurround then c.bb el else el.inscribedBBox e.name

/-- the box one listed reference contributes; `none` when the reference does not parse, names no
    element of `c`, or that element has no box (or its box is an error) -/
def areaOf (c : Ctx) (e : Elem) (isSurround : Bool) (r : Str) : Option BoundingBox :=
  match parseElref r with
  | .error _ => none
  | .ok ref =>
    match c.get ref with
    | none => none
    | some el =>
      match elemArea c e isSurround el with
      | .ok (some b) => some b
      | _ => none

/-- the error reported for a listed reference without a box -/
def refErr (c : Ctx) (r : Str) : Err :=
  match parseElref r with
  | .error er => er
  | .ok ref =>
    match c.get ref with
    | none => .reference
    | some _ => .missingBBox

/-- the boxes of all listed references (used when every one resolves) -/
def areas (c : Ctx) (e : Elem) (isSurround : Bool) (list : Str) : List BoundingBox :=
  (Str.attrSplit list).filterMap (areaOf c e isSurround)

/-- every listed reference resolves to an element with a box -/
def allResolve (c : Ctx) (e : Elem) (isSurround : Bool) (list : Str) : Bool :=
  (Str.attrSplit list).all fun r => (areaOf c e isSurround r).isSome

/-- `margin`: absent, unparsable (an error), or one to four lengths -/
def parsedMargin (e : Elem) : Except Err (Option TrblLength) :=
  match e.getAttr cs!"margin" with
  | none => .ok none
  | some m =>
    match parseTrbl m with
    | none => .error .parse
    | some t => .ok (some t)

/-- grown (surround) / shrunk (inside) by the margin, if there is one -/
def adjust (isSurround : Bool) (t : Option TrblLength) (b : BoundingBox) : BoundingBox :=
  match t with
  | none => b
  | some t => if isSurround then b.expand_trbl_length t else b.shrink_trbl_length t

/-- union (surround) / intersection (inside) of the listed boxes -/
def gather (isSurround : Bool) (boxes : List BoundingBox) : Option BoundingBox :=
  if isSurround then Elem.unionAll boxes else Elem.intersectAll boxes

def containClass (isSurround : Bool) : Str := if isSurround then cs!"d-surround" else cs!"d-inside"

/-- the tail of `handle_containment`: geometry from the box when there is one, the class, and the
    removal of the three attributes -/
def finish (e : Elem) (isSurround : Bool) (bbox : Option BoundingBox) : Elem :=
  ((match bbox with
    | some b => e.positionFromBBox b (!isSurround)
    | none => e).addClass (containClass isSurround)).removeAttrs [cs!"surround", cs!"inside", cs!"margin"]

/-! ## The loop over the listed references -/

/-- an optional box, or the error -/
def orErr {β : Type} (o : Option β) (er : Err) : Except Err β :=
  match o with
  | some b => .ok b
  | none => .error er

/-- the body of the loop, as `handleContainment` has it -/
def refStep (c : Ctx) (e : Elem) (isSurround : Bool) (r : Str) : Except Err BoundingBox := do
  let r ← parseElref r
  match c.get r with
  | none => throw Err.reference
  | some el =>
    let b := if isSurround then c.bb el else el.inscribedBBox e.name
    match b with
    | .ok (some b) => pure b
    | _ => throw Err.missingBBox

theorem refStep_eq (c : Ctx) (e : Elem) (isS : Bool) (r : Str) :
    refStep c e isS r = orErr (areaOf c e isS r) (refErr c r) := by
  unfold refStep areaOf refErr elemArea orErr
  cases hp : parseElref r with
  | error er => rfl
  | ok ref =>
    simp only [bind, Except.bind]
    cases hg : c.get ref with
    | none => rfl
    | some el =>
      simp only []
      cases hb : (if isS = true then c.bb el else el.inscribedBBox e.name) with
      | error er => rfl
      | ok ob => cases ob <;> rfl

theorem mapM_closed {α β : Type} (f : α → Except Err β) (g : α → Option β) (er : α → Err)
    (hfg : ∀ a, f a = orErr (g a) (er a)) (l : List α) :
    l.mapM f =
      match l.find? (fun a => (g a).isNone) with
      | some a => .error (er a)
      | none => .ok (l.filterMap g) := by
  induction l with
  | nil => rfl
  | cons a l ih =>
    rw [List.mapM_cons, hfg a]
    cases hg : g a with
    | none => simp only [List.find?_cons, hg, Option.isNone_none, orErr]; rfl
    | some b =>
      simp only [List.find?_cons, hg, Option.isNone_some, ih, List.filterMap_cons, orErr]
      cases l.find? (fun a => (g a).isNone) <;> rfl

/-! ## (a) Closed form -/

/-- the function with exactly one of the two attributes, as one expression in the vocabulary above -/
theorem one_attr_form (c : Ctx) (e : Elem) (isS : Bool) (list : Str)
    (hs : e.getAttr cs!"surround" = if isS then some list else none)
    (hi : e.getAttr cs!"inside" = if isS then none else some list) :
    e.handleContainment c =
      (do let boxes ← (Str.attrSplit list).mapM (refStep c e isS)
          let t ← parsedMargin e
          pure (finish e isS ((gather isS boxes).map (adjust isS t)))) := by
  unfold Elem.handleContainment
  cases isS
  · simp only [Bool.false_eq_true, if_false] at hs hi
    simp only [hs, hi]
    show (do let boxes ← (Str.attrSplit list).mapM (refStep c e false); _) = _
    cases (Str.attrSplit list).mapM (refStep c e false) with
    | error er => rfl
    | ok boxes =>
      simp only [bind, Except.bind, parsedMargin]
      cases hm : e.getAttr cs!"margin" with
      | none => cases hb : gather false boxes <;> simp [gather, finish, containClass, adjust] at hb ⊢ <;> simp only [hb] <;> rfl
      | some m =>
        simp only []
        cases parseTrbl m with
        | none => rfl
        | some t => cases hb : gather false boxes <;> simp [gather, finish, containClass, adjust] at hb ⊢ <;> simp only [hb] <;> rfl
  · simp only [if_true] at hs hi
    simp only [hs, hi]
    show (do let boxes ← (Str.attrSplit list).mapM (refStep c e true); _) = _
    cases (Str.attrSplit list).mapM (refStep c e true) with
    | error er => rfl
    | ok boxes =>
      simp only [bind, Except.bind, parsedMargin]
      cases hm : e.getAttr cs!"margin" with
      | none => cases hb : gather true boxes <;> simp [gather, finish, containClass, adjust] at hb ⊢ <;> simp only [hb] <;> rfl
      | some m =>
        simp only []
        cases parseTrbl m with
        | none => rfl
        | some t => cases hb : gather true boxes <;> simp [gather, finish, containClass, adjust] at hb ⊢ <;> simp only [hb] <;> rfl


/-- the first listed reference that does not resolve -/
def firstBad (c : Ctx) (e : Elem) (isSurround : Bool) (list : Str) : Option Str :=
  (Str.attrSplit list).find? fun r => (areaOf c e isSurround r).isNone

theorem firstBad_none_iff (c : Ctx) (e : Elem) (isS : Bool) (list : Str) :
    firstBad c e isS list = none ↔ allResolve c e isS list = true := by
  unfold firstBad allResolve
  rw [List.find?_eq_none, List.all_eq_true]
  constructor
  · intro h r hr
    have := h r hr
    cases hh : areaOf c e isS r <;> simp [hh] at this ⊢
  · intro h r hr
    have := h r hr
    cases hh : areaOf c e isS r <;> simp [hh] at this ⊢

/-- **closed form** of `handleContainment` for an element with exactly one of `surround` / `inside`
    (`isS` says which): the error of the first listed reference that does not resolve; else the
    error of an unparsable margin; else `finish` on the gathered box adjusted by the margin. -/
theorem closed_form (c : Ctx) (e : Elem) (isS : Bool) (list : Str)
    (hs : e.getAttr cs!"surround" = if isS then some list else none)
    (hi : e.getAttr cs!"inside" = if isS then none else some list) :
    e.handleContainment c =
      match firstBad c e isS list with
      | some r => .error (refErr c r)
      | none =>
        match parsedMargin e with
        | .error er => .error er
        | .ok t => .ok (finish e isS ((gather isS (areas c e isS list)).map (adjust isS t))) := by
  rw [one_attr_form c e isS list hs hi,
    mapM_closed (refStep c e isS) (areaOf c e isS) (refErr c) (refStep_eq c e isS)]
  unfold firstBad areas
  cases (Str.attrSplit list).find? (fun r => (areaOf c e isS r).isNone) with
  | some r => rfl
  | none => cases parsedMargin e <;> rfl

/-- neither attribute: the element is returned as it is (also its `margin`, if it has one) -/
theorem neither_unchanged (c : Ctx) (e : Elem)
    (hs : e.getAttr cs!"surround" = none) (hi : e.getAttr cs!"inside" = none) :
    e.handleContainment c = .ok e := by
  simp [Elem.handleContainment, hs, hi]

/-- both attributes: the error, whatever they list (this is `C12.both_is_error`) -/
theorem both_error (c : Ctx) (e : Elem) (s i : Str)
    (hs : e.getAttr cs!"surround" = some s) (hi : e.getAttr cs!"inside" = some i) :
    e.handleContainment c = .error .invalidData := both_is_error c e s i hs hi

/-- **surround**: every listed reference resolves with a bounding box, the margin (if any) parses;
    the result is `positionFromBBox` of the element (still carrying the three attributes, as the model
    has it) on the union of the listed boxes grown by the margin, not inscribed; then the class and
    the removal of the three attributes. -/
theorem surround_closed_form (c : Ctx) (e : Elem) (list : Str) (t : Option TrblLength) (u : BoundingBox)
    (hs : e.getAttr cs!"surround" = some list) (hi : e.getAttr cs!"inside" = none)
    (hall : allResolve c e true list = true) (hm : parsedMargin e = .ok t)
    (hu : Elem.unionAll (areas c e true list) = some u) :
    e.handleContainment c =
      .ok (((e.positionFromBBox (adjust true t u) false).addClass cs!"d-surround").removeAttrs
        [cs!"surround", cs!"inside", cs!"margin"]) := by
  rw [closed_form c e true list (by simpa using hs) (by simpa using hi),
    (firstBad_none_iff c e true list).mpr hall, hm]
  simp [gather, hu, finish, containClass]

/-- … and the union exists as soon as the list is not empty -/
theorem surround_union_exists (c : Ctx) (e : Elem) (list : Str)
    (hall : allResolve c e true list = true) (hne : Str.attrSplit list ≠ []) :
    ∃ u, Elem.unionAll (areas c e true list) = some u := by
  unfold areas allResolve at *
  cases hl : Str.attrSplit list with
  | nil => exact absurd hl hne
  | cons r rs =>
    rw [hl] at hall
    simp only [List.all_cons, Bool.and_eq_true] at hall
    cases ha : areaOf c e true r with
    | none => simp [ha] at hall
    | some b => exact ⟨_, by simp only [List.filterMap_cons, ha]; rfl⟩

/-- **inside**: likewise with the inscribed areas (`inscribedBBox` for `e`'s shape), their
    intersection, shrunk by the margin, and `inscribe = true`. -/
theorem inside_closed_form (c : Ctx) (e : Elem) (list : Str) (t : Option TrblLength) (i : BoundingBox)
    (hs : e.getAttr cs!"surround" = none) (hi : e.getAttr cs!"inside" = some list)
    (hall : allResolve c e false list = true) (hm : parsedMargin e = .ok t)
    (hu : Elem.intersectAll (areas c e false list) = some i) :
    e.handleContainment c =
      .ok (((e.positionFromBBox (adjust false t i) true).addClass cs!"d-inside").removeAttrs
        [cs!"surround", cs!"inside", cs!"margin"]) := by
  rw [closed_form c e false list (by simpa using hs) (by simpa using hi),
    (firstBad_none_iff c e false list).mpr hall, hm]
  simp [gather, hu, finish, containClass]

/-- **no box**: an empty intersection (or an empty list) gives NO error and no geometry: the element
    with the class added and the three attributes removed, nothing else -/
theorem no_box_no_geometry (c : Ctx) (e : Elem) (isS : Bool) (list : Str) (t : Option TrblLength)
    (hs : e.getAttr cs!"surround" = if isS then some list else none)
    (hi : e.getAttr cs!"inside" = if isS then none else some list)
    (hall : allResolve c e isS list = true) (hm : parsedMargin e = .ok t)
    (hu : gather isS (areas c e isS list) = none) :
    e.handleContainment c =
      .ok ((e.addClass (containClass isS)).removeAttrs [cs!"surround", cs!"inside", cs!"margin"]) := by
  rw [closed_form c e isS list hs hi, (firstBad_none_iff c e isS list).mpr hall, hm]
  simp [hu, finish]

/-- **unresolved reference**: the first listed reference without a box decides the outcome, an error;
    no default box is ever used -/
theorem unresolved_is_error (c : Ctx) (e : Elem) (isS : Bool) (list r : Str)
    (hs : e.getAttr cs!"surround" = if isS then some list else none)
    (hi : e.getAttr cs!"inside" = if isS then none else some list)
    (hbad : firstBad c e isS list = some r) :
    e.handleContainment c = .error (refErr c r) := by
  rw [closed_form c e isS list hs hi, hbad]

/-- which error: unparsable reference ⇒ the parser's error (always `parse`); no such element ⇒
    `reference`; element without a box, or whose box is an error ⇒ `missingBBox` -/
theorem refErr_cases (c : Ctx) (r : Str) :
    (parseElref r = .error .parse ∧ refErr c r = .parse) ∨
    (∃ ref, parseElref r = .ok ref ∧ c.get ref = none ∧ refErr c r = .reference) ∨
    (∃ ref el, parseElref r = .ok ref ∧ c.get ref = some el ∧ refErr c r = .missingBBox) := by
  unfold refErr
  cases hp : parseElref r with
  | error er =>
    left
    unfold parseElref at hp
    split at hp <;> cases hp
    exact ⟨rfl, rfl⟩
  | ok ref =>
    right
    cases hg : c.get ref with
    | none => exact Or.inl ⟨ref, rfl, hg, by simp [hg]⟩
    | some el => exact Or.inr ⟨ref, el, rfl, hg, by simp [hg]⟩

/-- an unparsable margin is an error once every reference has resolved -/
theorem bad_margin_is_error (c : Ctx) (e : Elem) (isS : Bool) (list : Str) (er : Err)
    (hs : e.getAttr cs!"surround" = if isS then some list else none)
    (hi : e.getAttr cs!"inside" = if isS then none else some list)
    (hall : allResolve c e isS list = true) (hm : parsedMargin e = .error er) :
    e.handleContainment c = .error er := by
  rw [closed_form c e isS list hs hi, (firstBad_none_iff c e isS list).mpr hall, hm]

/-- the shape of every successful result -/
theorem ok_shape (c : Ctx) (e e' : Elem) (h : e.handleContainment c = .ok e') :
    (e.getAttr cs!"surround" = none ∧ e.getAttr cs!"inside" = none ∧ e' = e) ∨
    ∃ isS list t,
      (e.getAttr cs!"surround" = if isS then some list else none) ∧
      (e.getAttr cs!"inside" = if isS then none else some list) ∧
      allResolve c e isS list = true ∧ parsedMargin e = .ok t ∧
      e' = finish e isS ((gather isS (areas c e isS list)).map (adjust isS t)) := by
  cases hs : e.getAttr cs!"surround" with
  | none =>
    cases hi : e.getAttr cs!"inside" with
    | none =>
      rw [neither_unchanged c e hs hi] at h
      cases h
      exact Or.inl ⟨rfl, rfl, rfl⟩
    | some list =>
      right
      have hc := closed_form c e false list (by simpa using hs) (by simpa using hi)
      rw [hc] at h
      cases hb : firstBad c e false list with
      | some r => rw [hb] at h; cases h
      | none =>
        rw [hb] at h
        cases hm : parsedMargin e with
        | error er => rw [hm] at h; cases h
        | ok t =>
          rw [hm] at h
          cases h
          exact ⟨false, list, t, by simp, by simp, (firstBad_none_iff c e false list).mp hb, rfl, rfl⟩
  | some list =>
    cases hi : e.getAttr cs!"inside" with
    | some i => rw [both_error c e list i hs hi] at h; cases h
    | none =>
      right
      have hc := closed_form c e true list (by simpa using hs) (by simpa using hi)
      rw [hc] at h
      cases hb : firstBad c e true list with
      | some r => rw [hb] at h; cases h
      | none =>
        rw [hb] at h
        cases hm : parsedMargin e with
        | error er => rw [hm] at h; cases h
        | ok t =>
          rw [hm] at h
          cases h
          exact ⟨true, list, t, by simp, by simp, (firstBad_none_iff c e true list).mp hb, rfl, rfl⟩


/-! ## (d) Frame -/

/-- the geometry attributes `positionFromBBox` writes for an element of this name -/
def geomKeys (name : Str) : List Str :=
  if name == cs!"rect" || name == cs!"box" then [['x'], ['y'], cs!"width", cs!"height"]
  else if name == cs!"circle" then [cs!"cx", cs!"cy", ['r']]
  else if name == cs!"ellipse" then [cs!"cx", cs!"cy", cs!"rx", cs!"ry"]
  else []

def removedKeys : List Str := [cs!"surround", cs!"inside", cs!"margin"]

theorem positionFromBBox_frame (e : Elem) (b : BoundingBox) (ins : Bool) (hk : NodupKeys e.attrs) :
    PassThrough.Frame (geomKeys e.name) e (e.positionFromBBox b ins) := by
  unfold Elem.positionFromBBox geomKeys
  simp only []
  by_cases h1 : (e.name == cs!"rect" || e.name == cs!"box") = true
  · rw [if_pos h1, if_pos h1]
    exact ((((PassThrough.Frame.refl hk).set (by decide) _).set (by decide) _).set (by decide) _).set
      (by decide) _
  · rw [if_neg h1, if_neg h1]
    by_cases h2 : (e.name == cs!"circle") = true
    · rw [if_pos h2, if_pos h2]
      exact (((PassThrough.Frame.refl hk).set (by decide) _).set (by decide) _).set (by decide) _
    · rw [if_neg h2, if_neg h2]
      by_cases h3 : (e.name == cs!"ellipse") = true
      · rw [if_pos h3, if_pos h3]
        exact ((((PassThrough.Frame.refl hk).set (by decide) _).set (by decide) _).set (by decide) _).set
          (by decide) _
      · rw [if_neg h3, if_neg h3]
        exact PassThrough.Frame.refl hk

/-- the tail of the function is a frame for the geometry keys of the element's name and the three
    removed keys, relative to the element with the class added -/
theorem finish_frame (e : Elem) (isS : Bool) (bbox : Option BoundingBox) (hk : NodupKeys e.attrs) :
    PassThrough.Frame (geomKeys e.name ++ removedKeys) (e.addClass (containClass isS))
      (finish e isS bbox) := by
  unfold finish
  have F0 : PassThrough.Frame (geomKeys e.name ++ removedKeys) e
      (match bbox with
        | some b => e.positionFromBBox b (!isS)
        | none => e) := by
    cases bbox with
    | none => exact PassThrough.Frame.refl hk
    | some b =>
      exact (positionFromBBox_frame e b (!isS) hk).mono (fun k hk => List.mem_append_left _ hk)
  exact (F0.addClass _).remove (fun k hk => List.mem_append_right _ hk)

theorem finish_removed (e : Elem) (isS : Bool) (bbox : Option BoundingBox) (hk : NodupKeys e.attrs)
    (k : Str) (hmem : k ∈ removedKeys) : (finish e isS bbox).hasAttr k = false := by
  unfold finish
  have F0 : PassThrough.Frame (geomKeys e.name) e
      (match bbox with
        | some b => e.positionFromBBox b (!isS)
        | none => e) := by
    cases bbox with
    | none => exact PassThrough.Frame.refl hk
    | some b => exact positionFromBBox_frame e b (!isS) hk
  exact contains_removeAll (F0.addClass (containClass isS)).nodup _ k hmem

/-- **frame of the whole function**, for every context and every element with unique attribute keys:
    a successful result has unique keys, the same name, content box and emptiness; its classes are the
    old ones plus exactly `d-surround` / `d-inside` (none when neither attribute is present); it has no
    `surround` and no `inside`; it has a `margin` only if neither was present (and is then `e` itself);
    and every attribute that is neither one of the three nor a geometry attribute of the element's
    name (`geomKeys`) has its old value. -/
theorem frame (c : Ctx) (e e' : Elem) (hk : NodupKeys e.attrs) (h : e.handleContainment c = .ok e') :
    NodupKeys e'.attrs ∧ e'.name = e.name ∧ e'.contentBBox = e.contentBBox ∧ e'.isEmpty = e.isEmpty ∧
    e'.classes =
      (if (e.getAttr cs!"surround").isSome then classInsert e.classes cs!"d-surround"
       else if (e.getAttr cs!"inside").isSome then classInsert e.classes cs!"d-inside"
       else e.classes) ∧
    e'.hasAttr cs!"surround" = false ∧ e'.hasAttr cs!"inside" = false ∧
    (e'.hasAttr cs!"margin" = true →
      e.getAttr cs!"surround" = none ∧ e.getAttr cs!"inside" = none ∧ e' = e) ∧
    ∀ k, k ∉ removedKeys → k ∉ geomKeys e.name → e'.getAttr k = e.getAttr k := by
  rcases ok_shape c e e' h with ⟨hs, hi, rfl⟩ | ⟨isS, list, t, hs, hi, -, -, rfl⟩
  · refine ⟨hk, rfl, rfl, rfl, by simp [hs, hi], ?_, ?_, fun _ => ⟨hs, hi, rfl⟩, fun _ _ _ => rfl⟩
    · simp only [Elem.hasAttr, Attrs.contains]; simp only [Elem.getAttr] at hs; rw [hs]; rfl
    · simp only [Elem.hasAttr, Attrs.contains]; simp only [Elem.getAttr] at hi; rw [hi]; rfl
  · have F := finish_frame e isS ((gather isS (areas c e isS list)).map (adjust isS t)) hk
    have R := finish_removed e isS ((gather isS (areas c e isS list)).map (adjust isS t)) hk
    refine ⟨F.nodup, F.name, F.cbb, F.empty, ?_, R _ (by decide), R _ (by decide), ?_, ?_⟩
    · rw [F.classes]
      cases isS <;> simp [hs, hi, Elem.addClass, containClass]
    · intro hm
      rw [R _ (by decide)] at hm
      cases hm
    · intro k h1 h2
      exact F.get k (fun hmem => (List.mem_append.mp hmem).elim h2 h1)

/-- in particular `id` (and `class`, `style`, `fill`, … - any key outside the two lists) is kept -/
theorem id_kept (c : Ctx) (e e' : Elem) (hk : NodupKeys e.attrs) (h : e.handleContainment c = .ok e') :
    e'.getAttr cs!"id" = e.getAttr cs!"id" := by
  refine (frame c e e' hk h).2.2.2.2.2.2.2.2 _ (by decide) ?_
  unfold geomKeys
  split_ifs <;> decide


/-! ## Geometry attributes of the result -/

/-- a key that is not one of the three removed ones reads in the result as `positionFromBBox` left it -/
theorem finish_get (e : Elem) (isS : Bool) (b : BoundingBox) (k : Str) (hkr : k ∉ removedKeys) :
    (finish e isS (some b)).getAttr k = (e.positionFromBBox b (!isS)).getAttr k := by
  unfold finish
  exact PassThrough.get_removeAll_other _ _ k hkr

/-- rect / box: x, y, width, height are the printed corner and size of the box -/
theorem rect_attrs (e : Elem) (b : BoundingBox) (ins : Bool)
    (hn : (e.name == cs!"rect" || e.name == cs!"box") = true) (hk : NodupKeys e.attrs) :
    let e' := e.positionFromBBox b ins
    e'.getAttr ['x'] = some (Num.fstr b.x1) ∧ e'.getAttr ['y'] = some (Num.fstr b.y1) ∧
    e'.getAttr cs!"width" = some (Num.fstr b.width) ∧ e'.getAttr cs!"height" = some (Num.fstr b.height) := by
  simp only [Elem.positionFromBBox, hn, BoundingBox.locspec, BoundingBox.center, Elem.setAttr,
    Elem.getAttr, if_true]
  have h1 := Attrs.insert_nodup hk ['x'] (Num.fstr b.x1)
  have h2 := Attrs.insert_nodup h1 ['y'] (Num.fstr b.y1)
  have h3 := Attrs.insert_nodup h2 cs!"width" (Num.fstr b.width)
  refine ⟨?_, ?_, ?_, ?_⟩
  · rw [Attrs.get_insert_other h3 _ _ _ (by decide), Attrs.get_insert_other h2 _ _ _ (by decide),
      Attrs.get_insert_other h1 _ _ _ (by decide), Attrs.get_insert_self hk]
  · rw [Attrs.get_insert_other h3 _ _ _ (by decide), Attrs.get_insert_other h2 _ _ _ (by decide),
      Attrs.get_insert_self h1]
  · rw [Attrs.get_insert_other h3 _ _ _ (by decide), Attrs.get_insert_self h2]
  · rw [Attrs.get_insert_self h3]

/-- the radius `positionFromBBox` gives a circle -/
def circleR (b : BoundingBox) (ins : Bool) : Rat :=
  if ins then (1 / 2 : Rat) * Rq.min b.width b.height else (1 / 2 : Rat) * Rq.max b.width b.height * Elem.sqrt2

/-- the radii `positionFromBBox` gives an ellipse -/
def ellipseRx (b : BoundingBox) (ins : Bool) : Rat :=
  if ins then (1 / 2 : Rat) * b.width else (1 / 2 : Rat) * b.width * Elem.sqrt2
def ellipseRy (b : BoundingBox) (ins : Bool) : Rat :=
  if ins then (1 / 2 : Rat) * b.height else (1 / 2 : Rat) * b.height * Elem.sqrt2

/-- circle: cx, cy are the printed centre of the box, r the printed `circleR` -/
theorem circle_attrs (e : Elem) (b : BoundingBox) (ins : Bool) (hn : e.name = cs!"circle")
    (hk : NodupKeys e.attrs) :
    let e' := e.positionFromBBox b ins
    e'.getAttr cs!"cx" = some (Num.fstr b.center.1) ∧ e'.getAttr cs!"cy" = some (Num.fstr b.center.2) ∧
    e'.getAttr ['r'] = some (Num.fstr (circleR b ins)) := by
  have hn1 : (e.name == cs!"rect" || e.name == cs!"box") = false := by rw [hn]; decide
  have hn2 : (e.name == cs!"circle") = true := by rw [hn]; decide
  simp only [Elem.positionFromBBox, hn1, hn2, BoundingBox.locspec, Elem.setAttr, Elem.getAttr, if_true,
    Bool.false_eq_true, if_false, circleR]
  have h1 := Attrs.insert_nodup hk cs!"cx" (Num.fstr b.center.1)
  have h2 := Attrs.insert_nodup h1 cs!"cy" (Num.fstr b.center.2)
  refine ⟨?_, ?_, ?_⟩
  · rw [Attrs.get_insert_other h2 _ _ _ (by decide), Attrs.get_insert_other h1 _ _ _ (by decide),
      Attrs.get_insert_self hk]
  · rw [Attrs.get_insert_other h2 _ _ _ (by decide), Attrs.get_insert_self h1]
  · rw [Attrs.get_insert_self h2]

/-- ellipse: cx, cy the printed centre, rx, ry the printed `ellipseRx` / `ellipseRy` -/
theorem ellipse_attrs (e : Elem) (b : BoundingBox) (ins : Bool) (hn : e.name = cs!"ellipse")
    (hk : NodupKeys e.attrs) :
    let e' := e.positionFromBBox b ins
    e'.getAttr cs!"cx" = some (Num.fstr b.center.1) ∧ e'.getAttr cs!"cy" = some (Num.fstr b.center.2) ∧
    e'.getAttr cs!"rx" = some (Num.fstr (ellipseRx b ins)) ∧
    e'.getAttr cs!"ry" = some (Num.fstr (ellipseRy b ins)) := by
  have hn1 : (e.name == cs!"rect" || e.name == cs!"box") = false := by rw [hn]; decide
  have hn2 : (e.name == cs!"circle") = false := by rw [hn]; decide
  have hn3 : (e.name == cs!"ellipse") = true := by rw [hn]; decide
  simp only [Elem.positionFromBBox, hn1, hn2, hn3, BoundingBox.locspec, Elem.setAttr, Elem.getAttr,
    if_true, Bool.false_eq_true, if_false, ellipseRx, ellipseRy]
  have h1 := Attrs.insert_nodup hk cs!"cx" (Num.fstr b.center.1)
  have h2 := Attrs.insert_nodup h1 cs!"cy" (Num.fstr b.center.2)
  have h3 := Attrs.insert_nodup h2 cs!"rx" (Num.fstr (if ins = true then (1 / 2 : Rat) * b.width
    else (1 / 2 : Rat) * b.width * Elem.sqrt2))
  refine ⟨?_, ?_, ?_, ?_⟩
  · rw [Attrs.get_insert_other h3 _ _ _ (by decide), Attrs.get_insert_other h2 _ _ _ (by decide),
      Attrs.get_insert_other h1 _ _ _ (by decide), Attrs.get_insert_self hk]
  · rw [Attrs.get_insert_other h3 _ _ _ (by decide), Attrs.get_insert_other h2 _ _ _ (by decide),
      Attrs.get_insert_self h1]
  · rw [Attrs.get_insert_other h3 _ _ _ (by decide), Attrs.get_insert_self h2]
  · rw [Attrs.get_insert_self h3]


/-! ## (b) Surround, element level -/

/-- a rect whose x / y / width / height are printed numbers that read back exactly has exactly that box -/
theorem rect_bboxRaw (e : Elem) (b : BoundingBox) (hn : e.name = cs!"rect")
    (hx : e.getAttr ['x'] = some (Num.fstr b.x1)) (hy : e.getAttr ['y'] = some (Num.fstr b.y1))
    (hw : e.getAttr cs!"width" = some (Num.fstr b.width))
    (hh : e.getAttr cs!"height" = some (Num.fstr b.height))
    (rx : Num.strp (Num.fstr b.x1) = some b.x1) (ry : Num.strp (Num.fstr b.y1) = some b.y1)
    (rw_ : Num.strp (Num.fstr b.width) = some b.width) (rh : Num.strp (Num.fstr b.height) = some b.height) :
    e.bboxRaw = .ok (some b) := by
  have h1 : (e.name == cs!"point" || e.name == cs!"text") = false := by rw [hn]; decide
  have h2 : (e.name == cs!"box" || e.name == cs!"rect" || e.name == cs!"image" || e.name == cs!"svg"
      || e.name == cs!"foreignObject") = true := by rw [hn]; decide
  simp only [Elem.getAttr] at hx hy hw hh
  unfold Elem.bboxRaw
  simp only [h1, h2, hx, hy, hw, hh, Option.getD_some, passthrough, rx, ry, rw_, rh, Option.isNone_some,
    Bool.false_and, Bool.or_self, Bool.false_eq_true, if_false, if_true, Elem.num, bind, Except.bind,
    pure, Except.pure]
  obtain ⟨x1, y1, x2, y2⟩ := b
  simp only [BoundingBox.width, BoundingBox.height]
  congr 3 <;> ring


/-- the margin moves no side inward (surround: percent of the larger side; inside: of the smaller) -/
def NonnegMargin (isS : Bool) (t : Option TrblLength) (b : BoundingBox) : Prop :=
  match t with
  | none => True
  | some m =>
    0 ≤ m.top.evaluate (if isS then Rq.max b.width b.height else Rq.min b.width b.height) ∧
    0 ≤ m.right.evaluate (if isS then Rq.max b.width b.height else Rq.min b.width b.height) ∧
    0 ≤ m.bottom.evaluate (if isS then Rq.max b.width b.height else Rq.min b.width b.height) ∧
    0 ≤ m.left.evaluate (if isS then Rq.max b.width b.height else Rq.min b.width b.height)

instance (isS : Bool) (t : Option TrblLength) (b : BoundingBox) : Decidable (NonnegMargin isS t b) := by
  unfold NonnegMargin
  cases t <;> infer_instance

theorem adjust_surround_encloses (t : Option TrblLength) (u : BoundingBox) (h : NonnegMargin true t u) :
    Within u (adjust true t u) := by
  cases t with
  | none => exact within_refl u
  | some m =>
    simp only [NonnegMargin, if_true] at h
    simpa [adjust] using expand_encloses u m 0 h.1 h.2.1 h.2.2.1 h.2.2.2

theorem adjust_inside_within (t : Option TrblLength) (i : BoundingBox) (h : NonnegMargin false t i) :
    Within (adjust false t i) i := by
  cases t with
  | none => exact within_refl i
  | some m =>
    simp only [NonnegMargin, Bool.false_eq_true, if_false] at h
    simpa [adjust] using shrink_within i m h.1 h.2.1 h.2.2.1 h.2.2.2

theorem surround_result (c : Ctx) (e : Elem) (list : Str) (t : Option TrblLength) (u : BoundingBox)
    (hs : e.getAttr cs!"surround" = some list) (hi : e.getAttr cs!"inside" = none)
    (hall : allResolve c e true list = true) (hm : parsedMargin e = .ok t)
    (hu : Elem.unionAll (areas c e true list) = some u) :
    e.handleContainment c = .ok (finish e true (some (adjust true t u))) := by
  rw [surround_closed_form c e list t u hs hi hall hm hu]; rfl

theorem inside_result (c : Ctx) (e : Elem) (list : Str) (t : Option TrblLength) (i : BoundingBox)
    (hs : e.getAttr cs!"surround" = none) (hi : e.getAttr cs!"inside" = some list)
    (hall : allResolve c e false list = true) (hm : parsedMargin e = .ok t)
    (hu : Elem.intersectAll (areas c e false list) = some i) :
    e.handleContainment c = .ok (finish e false (some (adjust false t i))) := by
  rw [inside_closed_form c e list t i hs hi hall hm hu]; rfl

/-- the four numbers of a box print to strings that read back as themselves -/
def RoundTrips (g : BoundingBox) : Prop :=
  Num.strp (Num.fstr g.x1) = some g.x1 ∧ Num.strp (Num.fstr g.y1) = some g.y1 ∧
  Num.strp (Num.fstr g.width) = some g.width ∧ Num.strp (Num.fstr g.height) = some g.height

/-- a rect placed by `finish` on box `g`: attributes, raw box, box -/
theorem finish_rect (e : Elem) (isS : Bool) (g : BoundingBox) (hn : e.name = cs!"rect")
    (hk : NodupKeys e.attrs) :
    let e' := finish e isS (some g)
    e'.getAttr ['x'] = some (Num.fstr g.x1) ∧ e'.getAttr ['y'] = some (Num.fstr g.y1) ∧
    e'.getAttr cs!"width" = some (Num.fstr g.width) ∧ e'.getAttr cs!"height" = some (Num.fstr g.height) ∧
    (RoundTrips g → e'.bboxRaw = .ok (some g)) ∧
    (RoundTrips g → e.contentBBox = none → e.getAttr cs!"transform" = none → e'.bbox = .ok (some g)) := by
  intro e'
  have hn' : (e.name == cs!"rect" || e.name == cs!"box") = true := by rw [hn]; decide
  have A := rect_attrs e g (!isS) hn' hk
  have F := finish_frame e isS (some g) hk
  have hx : e'.getAttr ['x'] = some (Num.fstr g.x1) := (finish_get e isS g _ (by decide)).trans A.1
  have hy : e'.getAttr ['y'] = some (Num.fstr g.y1) := (finish_get e isS g _ (by decide)).trans A.2.1
  have hw : e'.getAttr cs!"width" = some (Num.fstr g.width) :=
    (finish_get e isS g _ (by decide)).trans A.2.2.1
  have hh : e'.getAttr cs!"height" = some (Num.fstr g.height) :=
    (finish_get e isS g _ (by decide)).trans A.2.2.2
  have hraw : RoundTrips g → e'.bboxRaw = .ok (some g) := fun r =>
    rect_bboxRaw e' g (F.name.trans hn) hx hy hw hh r.1 r.2.1 r.2.2.1 r.2.2.2
  refine ⟨hx, hy, hw, hh, hraw, ?_⟩
  intro r hc ht
  have hc' : e'.contentBBox = none := F.cbb.trans hc
  have ht' : e'.attrs.get cs!"transform" = none := by
    have := F.get cs!"transform" (by rw [hn]; decide)
    exact this.trans ht
  unfold Elem.bbox
  rw [hc', hraw r, ht']
  rfl

/-- **surround, rect**: the result's x / y / width / height are the printed numbers of the grown box;
    where those four numbers read back exactly, the result's bounding box EQUALS the grown box; with a
    margin that is not negative every listed box lies within it -/
theorem surround_rect (c : Ctx) (e : Elem) (list : Str) (t : Option TrblLength) (u : BoundingBox)
    (hn : e.name = cs!"rect") (hk : NodupKeys e.attrs)
    (hs : e.getAttr cs!"surround" = some list) (hi : e.getAttr cs!"inside" = none)
    (hall : allResolve c e true list = true) (hm : parsedMargin e = .ok t)
    (hu : Elem.unionAll (areas c e true list) = some u) :
    ∃ e', e.handleContainment c = .ok e' ∧
      e'.getAttr ['x'] = some (Num.fstr (adjust true t u).x1) ∧
      e'.getAttr ['y'] = some (Num.fstr (adjust true t u).y1) ∧
      e'.getAttr cs!"width" = some (Num.fstr (adjust true t u).width) ∧
      e'.getAttr cs!"height" = some (Num.fstr (adjust true t u).height) ∧
      (RoundTrips (adjust true t u) → e'.bboxRaw = .ok (some (adjust true t u))) ∧
      (RoundTrips (adjust true t u) → e.contentBBox = none → e.getAttr cs!"transform" = none →
        e'.bbox = .ok (some (adjust true t u))) ∧
      (NonnegMargin true t u → ∀ b ∈ areas c e true list, Within b (adjust true t u)) := by
  have R := finish_rect e true (adjust true t u) hn hk
  refine ⟨_, surround_result c e list t u hs hi hall hm hu, R.1, R.2.1, R.2.2.1, R.2.2.2.1, R.2.2.2.2.1,
    R.2.2.2.2.2, ?_⟩
  intro hnn b hb
  obtain ⟨u', hu', hw⟩ := unionAll_encloses _ b hb
  rw [hu] at hu'
  cases hu'
  exact within_trans hw (adjust_surround_encloses t u hnn)

theorem coord_sq_le (a b p : Rat) (h1 : a ≤ p) (h2 : p ≤ b) :
    (p - (a + (b - a) / 2)) ^ 2 ≤ ((b - a) / 2) ^ 2 := by
  nlinarith [mul_nonneg (sub_nonneg.2 h2) (sub_nonneg.2 h1)]

/-- **surround, circle**: centre = centre of the grown box, r = ½·max(w,h)·SQRT_2 (printed); every
    point of every listed box (its corners included) is within `r·√(1+10⁻⁷)` of that centre -/
theorem surround_circle (c : Ctx) (e : Elem) (list : Str) (t : Option TrblLength) (u : BoundingBox)
    (hn : e.name = cs!"circle") (hk : NodupKeys e.attrs)
    (hs : e.getAttr cs!"surround" = some list) (hi : e.getAttr cs!"inside" = none)
    (hall : allResolve c e true list = true) (hm : parsedMargin e = .ok t)
    (hu : Elem.unionAll (areas c e true list) = some u) :
    let g := adjust true t u
    let r := (1 / 2 : Rat) * Rq.max g.width g.height * Elem.sqrt2
    ∃ e', e.handleContainment c = .ok e' ∧
      e'.getAttr cs!"cx" = some (Num.fstr g.center.1) ∧ e'.getAttr cs!"cy" = some (Num.fstr g.center.2) ∧
      e'.getAttr ['r'] = some (Num.fstr r) ∧
      (NonnegMargin true t u → ∀ b ∈ areas c e true list, ∀ px py : Rat,
        b.x1 ≤ px → px ≤ b.x2 → b.y1 ≤ py → py ≤ b.y2 →
        (px - g.center.1) ^ 2 + (py - g.center.2) ^ 2 ≤ r ^ 2 * (1 + 1 / 10000000)) := by
  intro g r
  have A := circle_attrs e g false hn hk
  refine ⟨_, surround_result c e list t u hs hi hall hm hu,
    (finish_get e true g _ (by decide)).trans A.1, (finish_get e true g _ (by decide)).trans A.2.1,
    (finish_get e true g _ (by decide)).trans A.2.2, ?_⟩
  intro hnn b hb px py hx1 hx2 hy1 hy2
  obtain ⟨u', hu', hw⟩ := unionAll_encloses _ b hb
  rw [hu] at hu'
  cases hu'
  have W : Within b g := within_trans hw (adjust_surround_encloses t u hnn)
  have gx1 : g.x1 ≤ px := le_trans W.1 hx1
  have gx2 : px ≤ g.x2 := le_trans hx2 W.2.2.1
  have gy1 : g.y1 ≤ py := le_trans W.2.1 hy1
  have gy2 : py ≤ g.y2 := le_trans hy2 W.2.2.2
  have hw0 : 0 ≤ g.width := by simp only [BoundingBox.width]; linarith
  have hh0 : 0 ≤ g.height := by simp only [BoundingBox.height]; linarith
  have C := surround_circle_circumscribes g.width g.height hw0 hh0
  have X := coord_sq_le g.x1 g.x2 px gx1 gx2
  have Y := coord_sq_le g.y1 g.y2 py gy1 gy2
  simp only [BoundingBox.center, BoundingBox.width, BoundingBox.height] at C X Y ⊢
  exact le_trans (add_le_add X Y) C

/-- **surround, ellipse**: centre = centre of the grown box, rx = ½·w·SQRT_2, ry = ½·h·SQRT_2
    (printed); every point of every listed box satisfies the ellipse inequality up to `1 + 10⁻⁷` -/
theorem surround_ellipse (c : Ctx) (e : Elem) (list : Str) (t : Option TrblLength) (u : BoundingBox)
    (hn : e.name = cs!"ellipse") (hk : NodupKeys e.attrs)
    (hs : e.getAttr cs!"surround" = some list) (hi : e.getAttr cs!"inside" = none)
    (hall : allResolve c e true list = true) (hm : parsedMargin e = .ok t)
    (hu : Elem.unionAll (areas c e true list) = some u) :
    let g := adjust true t u
    let rx := (1 / 2 : Rat) * g.width * Elem.sqrt2
    let ry := (1 / 2 : Rat) * g.height * Elem.sqrt2
    ∃ e', e.handleContainment c = .ok e' ∧
      e'.getAttr cs!"cx" = some (Num.fstr g.center.1) ∧ e'.getAttr cs!"cy" = some (Num.fstr g.center.2) ∧
      e'.getAttr cs!"rx" = some (Num.fstr rx) ∧ e'.getAttr cs!"ry" = some (Num.fstr ry) ∧
      (NonnegMargin true t u → 0 < g.width → 0 < g.height →
        ∀ b ∈ areas c e true list, ∀ px py : Rat,
        b.x1 ≤ px → px ≤ b.x2 → b.y1 ≤ py → py ≤ b.y2 →
        (px - g.center.1) ^ 2 / rx ^ 2 + (py - g.center.2) ^ 2 / ry ^ 2 ≤ 1 + 1 / 10000000) := by
  intro g rx ry
  have A := ellipse_attrs e g false hn hk
  refine ⟨_, surround_result c e list t u hs hi hall hm hu,
    (finish_get e true g _ (by decide)).trans A.1, (finish_get e true g _ (by decide)).trans A.2.1,
    (finish_get e true g _ (by decide)).trans A.2.2.1,
    (finish_get e true g _ (by decide)).trans A.2.2.2, ?_⟩
  intro hnn hw0 hh0 b hb px py hx1 hx2 hy1 hy2
  obtain ⟨u', hu', hw⟩ := unionAll_encloses _ b hb
  rw [hu] at hu'
  cases hu'
  have W : Within b g := within_trans hw (adjust_surround_encloses t u hnn)
  have gx1 : g.x1 ≤ px := le_trans W.1 hx1
  have gx2 : px ≤ g.x2 := le_trans hx2 W.2.2.1
  have gy1 : g.y1 ≤ py := le_trans W.2.1 hy1
  have gy2 : py ≤ g.y2 := le_trans hy2 W.2.2.2
  have C := surround_ellipse_circumscribes g.width g.height hw0 hh0
  have X := coord_sq_le g.x1 g.x2 px gx1 gx2
  have Y := coord_sq_le g.y1 g.y2 py gy1 gy2
  have X' : (px - g.center.1) ^ 2 / rx ^ 2 ≤ (g.width / 2) ^ 2 / rx ^ 2 :=
    div_le_div_of_nonneg_right (by simpa [BoundingBox.center, BoundingBox.width] using X) (by positivity)
  have Y' : (py - g.center.2) ^ 2 / ry ^ 2 ≤ (g.height / 2) ^ 2 / ry ^ 2 :=
    div_le_div_of_nonneg_right (by simpa [BoundingBox.center, BoundingBox.height] using Y) (by positivity)
  exact le_trans (add_le_add X' Y') C


/-! ## (c) Inside, element level -/

/-- the shrunk intersection lies within the intersection and within every listed area -/
theorem inside_box_within (bs : List BoundingBox) (t : Option TrblLength) (i : BoundingBox)
    (hu : Elem.intersectAll bs = some i) (hnn : NonnegMargin false t i) :
    Within (adjust false t i) i ∧ ∀ a ∈ bs, Within (adjust false t i) a :=
  ⟨adjust_inside_within t i hnn, fun a ha =>
    within_trans (adjust_inside_within t i hnn) (intersectAll_within bs i hu a ha)⟩

/-- **inside, rect**: x / y / width / height are the printed numbers of the intersection of the listed
    inscribed areas shrunk by the margin; where they read back exactly the result's box EQUALS that
    box; with a non-negative margin it lies within the intersection and within every listed area -/
theorem inside_rect (c : Ctx) (e : Elem) (list : Str) (t : Option TrblLength) (i : BoundingBox)
    (hn : e.name = cs!"rect") (hk : NodupKeys e.attrs)
    (hs : e.getAttr cs!"surround" = none) (hi : e.getAttr cs!"inside" = some list)
    (hall : allResolve c e false list = true) (hm : parsedMargin e = .ok t)
    (hu : Elem.intersectAll (areas c e false list) = some i) :
    ∃ e', e.handleContainment c = .ok e' ∧
      e'.getAttr ['x'] = some (Num.fstr (adjust false t i).x1) ∧
      e'.getAttr ['y'] = some (Num.fstr (adjust false t i).y1) ∧
      e'.getAttr cs!"width" = some (Num.fstr (adjust false t i).width) ∧
      e'.getAttr cs!"height" = some (Num.fstr (adjust false t i).height) ∧
      (RoundTrips (adjust false t i) → e'.bboxRaw = .ok (some (adjust false t i))) ∧
      (RoundTrips (adjust false t i) → e.contentBBox = none → e.getAttr cs!"transform" = none →
        e'.bbox = .ok (some (adjust false t i))) ∧
      (NonnegMargin false t i →
        Within (adjust false t i) i ∧ ∀ a ∈ areas c e false list, Within (adjust false t i) a) := by
  have R := finish_rect e false (adjust false t i) hn hk
  exact ⟨_, inside_result c e list t i hs hi hall hm hu, R.1, R.2.1, R.2.2.1, R.2.2.2.1, R.2.2.2.2.1,
    R.2.2.2.2.2, inside_box_within _ t i hu⟩

/-- the square around a centred circle of radius ½·min(w,h) lies within the box (no sign condition) -/
theorem circle_square_within (b : BoundingBox) :
    let r := (1 / 2 : Rat) * Rq.min b.width b.height
    Within ⟨b.center.1 - r, b.center.2 - r, b.center.1 + r, b.center.2 + r⟩ b := by
  intro r
  have h1 : Rq.min b.width b.height ≤ b.width := rq_min_le_left _ _
  have h2 : Rq.min b.width b.height ≤ b.height := rq_min_le_right _ _
  simp only [Within, r, BoundingBox.center, BoundingBox.width, BoundingBox.height] at *
  refine ⟨by linarith, by linarith, by linarith, by linarith⟩

/-- **inside, circle**: centre = centre of the shrunk intersection `g`, r = ½·min(w,h) (printed); the
    square around that circle lies within `g`, hence (non-negative margin) within the intersection and
    within every listed inscribed area -/
theorem inside_circle (c : Ctx) (e : Elem) (list : Str) (t : Option TrblLength) (i : BoundingBox)
    (hn : e.name = cs!"circle") (hk : NodupKeys e.attrs)
    (hs : e.getAttr cs!"surround" = none) (hi : e.getAttr cs!"inside" = some list)
    (hall : allResolve c e false list = true) (hm : parsedMargin e = .ok t)
    (hu : Elem.intersectAll (areas c e false list) = some i) :
    let g := adjust false t i
    let r := (1 / 2 : Rat) * Rq.min g.width g.height
    let sq : BoundingBox := ⟨g.center.1 - r, g.center.2 - r, g.center.1 + r, g.center.2 + r⟩
    ∃ e', e.handleContainment c = .ok e' ∧
      e'.getAttr cs!"cx" = some (Num.fstr g.center.1) ∧ e'.getAttr cs!"cy" = some (Num.fstr g.center.2) ∧
      e'.getAttr ['r'] = some (Num.fstr r) ∧
      Within sq g ∧
      (NonnegMargin false t i → Within sq i ∧ ∀ a ∈ areas c e false list, Within sq a) := by
  intro g r sq
  have A := circle_attrs e g true hn hk
  have S : Within sq g := circle_square_within g
  refine ⟨_, inside_result c e list t i hs hi hall hm hu,
    (finish_get e false g _ (by decide)).trans A.1, (finish_get e false g _ (by decide)).trans A.2.1,
    (finish_get e false g _ (by decide)).trans A.2.2, S, ?_⟩
  intro hnn
  have B := inside_box_within _ t i hu hnn
  exact ⟨within_trans S B.1, fun a ha => within_trans S (B.2 a ha)⟩

/-- **inside, ellipse**: centre = centre of `g`, rx = ½·w, ry = ½·h (printed): the ellipse's box IS `g` -/
theorem inside_ellipse (c : Ctx) (e : Elem) (list : Str) (t : Option TrblLength) (i : BoundingBox)
    (hn : e.name = cs!"ellipse") (hk : NodupKeys e.attrs)
    (hs : e.getAttr cs!"surround" = none) (hi : e.getAttr cs!"inside" = some list)
    (hall : allResolve c e false list = true) (hm : parsedMargin e = .ok t)
    (hu : Elem.intersectAll (areas c e false list) = some i) :
    let g := adjust false t i
    let rx := (1 / 2 : Rat) * g.width
    let ry := (1 / 2 : Rat) * g.height
    ∃ e', e.handleContainment c = .ok e' ∧
      e'.getAttr cs!"cx" = some (Num.fstr g.center.1) ∧ e'.getAttr cs!"cy" = some (Num.fstr g.center.2) ∧
      e'.getAttr cs!"rx" = some (Num.fstr rx) ∧ e'.getAttr cs!"ry" = some (Num.fstr ry) ∧
      (⟨g.center.1 - rx, g.center.2 - ry, g.center.1 + rx, g.center.2 + ry⟩ : BoundingBox) = g ∧
      (NonnegMargin false t i → Within g i ∧ ∀ a ∈ areas c e false list, Within g a) := by
  intro g rx ry
  have A := ellipse_attrs e g true hn hk
  refine ⟨_, inside_result c e list t i hs hi hall hm hu,
    (finish_get e false g _ (by decide)).trans A.1, (finish_get e false g _ (by decide)).trans A.2.1,
    (finish_get e false g _ (by decide)).trans A.2.2.1,
    (finish_get e false g _ (by decide)).trans A.2.2.2, ?_, inside_box_within _ t i hu⟩
  obtain ⟨x1, y1, x2, y2⟩ := g
  simp only [rx, ry, BoundingBox.center, BoundingBox.width, BoundingBox.height]
  congr 1 <;> ring

/-- an element that is not a rect / box / circle / ellipse gets NO geometry from `surround` / `inside`,
    whatever the box: only the class and the removal -/
theorem other_shape_no_geometry (e : Elem) (isS : Bool) (bbox : Option BoundingBox)
    (hn : geomKeys e.name = []) :
    finish e isS bbox =
      (e.addClass (containClass isS)).removeAttrs [cs!"surround", cs!"inside", cs!"margin"] := by
  cases bbox with
  | none => rfl
  | some b =>
    have h : e.positionFromBBox b (!isS) = e := by
      unfold geomKeys at hn
      unfold Elem.positionFromBBox
      simp only []
      split_ifs at hn ⊢
      rfl
    simp only [finish, h]

/-! ## Worked instances on a concrete context -/

namespace Ex
open Str

def a : Elem := { name := cs!"rect", attrs := [(['x'], cs!"0"), (['y'], cs!"0"), (cs!"width", cs!"10"), (cs!"height", cs!"10")] }
def b : Elem := { name := cs!"rect", attrs := [(['x'], cs!"20"), (['y'], cs!"5"), (cs!"width", cs!"10"), (cs!"height", cs!"20")] }
def o : Elem := { name := cs!"circle", attrs := [(cs!"cx", cs!"5"), (cs!"cy", cs!"5"), (['r'], cs!"4")] }
/-- an element without a box -/
def nb : Elem := { name := cs!"rect", attrs := [(['x'], cs!"1")] }
def ctx : Ctx := { elems := [(['a'], a), (['b'], b), (['o'], o), (cs!"nb", nb)] }

def sur : Elem :=
  { name := cs!"rect", attrs := [(cs!"id", cs!"s"), (cs!"surround", cs!"#a #b"), (cs!"margin", cs!"1 2"), (cs!"fill", cs!"none")],
    classes := [cs!"k"] }
def ins : Elem :=
  { name := cs!"circle", attrs := [(cs!"inside", cs!"#a #o"), (cs!"margin", cs!"1")] }
def disjoint : Elem := { name := cs!"rect", attrs := [(cs!"inside", cs!"#a #b"), (cs!"margin", cs!"1"), (['x'], cs!"7")] }
def dangling : Elem := { name := cs!"rect", attrs := [(cs!"surround", cs!"#a #zz #nb")] }
def boxless : Elem := { name := cs!"rect", attrs := [(cs!"surround", cs!"#a #nb #zz")] }
def lone : Elem := { name := cs!"rect", attrs := [(cs!"margin", cs!"3"), (cs!"width", cs!"4")] }

set_option maxRecDepth 100000

/-- hypotheses of `surround_rect` hold here; the grown box is (-2,-1)-(32,26) -/
example : sur.getAttr cs!"surround" = some cs!"#a #b" ∧ sur.getAttr cs!"inside" = none ∧
    allResolve ctx sur true cs!"#a #b" = true ∧
    parsedMargin sur = .ok (some ⟨.Absolute 1, .Absolute 2, .Absolute 1, .Absolute 2⟩) ∧
    Elem.unionAll (areas ctx sur true cs!"#a #b") = some ⟨0, 0, 30, 25⟩ ∧
    adjust true (some ⟨.Absolute 1, .Absolute 2, .Absolute 1, .Absolute 2⟩) ⟨0, 0, 30, 25⟩ = ⟨-2, -1, 32, 26⟩ := by
  decide +kernel

example : NodupKeys sur.attrs ∧
    NonnegMargin true (some ⟨.Absolute 1, .Absolute 2, .Absolute 1, .Absolute 2⟩) ⟨0, 0, 30, 25⟩ := by
  refine ⟨by unfold Attrs.NodupKeys Attrs.keys; decide +kernel, by decide +kernel⟩

example : RoundTrips ⟨-2, -1, 32, 26⟩ := by
  unfold RoundTrips; decide +kernel

/-- … and the function gives: geometry first, `fill` / `id` kept, class appended, three attributes gone -/
example : sur.handleContainment ctx = .ok
    { name := cs!"rect",
      attrs := [(cs!"id", cs!"s"), (['x'], cs!"-2"), (['y'], cs!"-1"), (cs!"width", cs!"34"), (cs!"height", cs!"27"),
                (cs!"fill", cs!"none")],
      classes := [cs!"k", cs!"d-surround"] } := by
  decide +kernel

/-- inside: circle in rect `a` ∩ the square inscribed in circle `o` -/
example : allResolve ctx ins false cs!"#a #o" = true ∧
    (Elem.intersectAll (areas ctx ins false cs!"#a #o")).isSome = true ∧
    (ins.handleContainment ctx).toOption.isSome = true := by
  decide +kernel

/-- an empty intersection: no error, no geometry written (`x` stays 7), class added, attributes removed -/
example : gather false (areas ctx disjoint false cs!"#a #b") = none ∧
    disjoint.handleContainment ctx = .ok
      { name := cs!"rect", attrs := [(['x'], cs!"7")], classes := [cs!"d-inside"] } := by
  decide +kernel

/-- the first unresolved reference decides: `#zz` names nothing, `#nb` has no box -/
example : firstBad ctx dangling true cs!"#a #zz #nb" = some cs!"#zz" ∧
    dangling.handleContainment ctx = .error .reference ∧
    firstBad ctx boxless true cs!"#a #nb #zz" = some cs!"#nb" ∧
    boxless.handleContainment ctx = .error .missingBBox := by
  decide +kernel

/-- DEVIATION witness: `margin` without `surround` / `inside` is returned untouched -/
example : lone.handleContainment ctx = .ok lone ∧ lone.hasAttr cs!"margin" = true := by
  decide +kernel

end Ex

end Svgdx.Props.C12x
