/-
  Svgdx.Proofs.XmlScan — string-level lemmas shared by the round-trip proof (`XmlRoundTrip`) and the
  well-formedness proof (`XmlSpec`): first occurrence of a delimiter, `takeWhile` up to `<`, the sections of
  `cdataSplit` contain no `]]>`, coalesced event lists have no two adjacent text events.
-/
import Svgdx.Xml.Write
import Svgdx.Proofs.XmlEscape
import Svgdx.Proofs.XmlRaw
namespace Svgdx.Xml
open Svgdx Str

/-! ## prefixes and first occurrences -/

theorem stripPrefix_append (p r : Str) : stripPrefix p (p ++ r) = some r := by
  induction p with
  | nil => simp [stripPrefix]
  | cons a p ih => simp [stripPrefix, ih]

theorem startsWith_append (p r : Str) : startsWith p (p ++ r) = true := by
  simp [startsWith, stripPrefix_append]

theorem startsWith_iff (p s : Str) : startsWith p s = true ↔ ∃ r, s = p ++ r := by
  constructor
  · intro h
    simp only [startsWith, Option.isSome_iff_exists] at h
    obtain ⟨r, hr⟩ := h
    exact ⟨r, (stripPrefix_spec p s r hr).symm⟩
  · rintro ⟨r, rfl⟩; exact startsWith_append p r

theorem startsWith_mono (p v s : Str) (h : startsWith p v = true) : startsWith p (v ++ s) = true := by
  obtain ⟨r, rfl⟩ := (startsWith_iff p v).mp h
  rw [List.append_assoc]; exact startsWith_append p _

/-- `pat` does not occur in `a ++ pat ++ b` at a position inside `a` -/
def FirstAt (pat a b : Str) : Prop :=
  ∀ u v, a = u ++ v → v ≠ [] → startsWith pat (v ++ (pat ++ b)) = false

theorem findSub_first (pat a b : Str) (h : FirstAt pat a b) : findSub pat (a ++ (pat ++ b)) = some a.length := by
  induction a with
  | nil =>
    simp only [List.nil_append, List.length_nil]
    cases hs : pat ++ b with
    | nil =>
      have : pat = [] := (List.append_eq_nil_iff.mp hs).1
      simp [findSub, this]
    | cons c cs =>
      have := startsWith_append pat b
      rw [hs] at this
      simp [findSub, this]
  | cons x a ih =>
    have h0 := h [] (x :: a) rfl (by simp)
    have ih' := ih (fun u v huv hv => h (x :: u) v (by simp [huv]) hv)
    simp only [List.cons_append] at h0 ⊢
    simp [findSub, h0, ih']

theorem splitAt_first (pat a b : Str) (h : FirstAt pat a b) : splitAt pat (a ++ (pat ++ b)) = some (a, b) := by
  simp [splitAt, splitOnSub, findSub_first pat a b h]

/-! ## the comment terminator -/

theorem noDD_tail (x : Char) (w : Str) (h : NoDD (x :: w)) : NoDD w := by
  cases w with
  | nil => simp [NoDD]
  | cons y w' =>
    unfold NoDD at h
    split at h
    · exact h.elim
    · rename_i heq; injection heq with _ h2; rw [h2]; exact h
    · rename_i heq; cases heq

theorem noDD_suffix (u v : Str) (h : NoDD (u ++ v)) : NoDD v := by
  induction u with
  | nil => exact h
  | cons x u ih => exact ih (noDD_tail x _ h)

theorem noDD_head (y : Char) (w : Str) (h : NoDD ('-' :: y :: w)) : y ≠ '-' := by
  intro hy; subst hy; simp [NoDD] at h

theorem firstAt_comment (a b : Str) (h1 : NoDD a) (h2 : a.getLast? ≠ some '-') : FirstAt cs!"-->" a b := by
  intro u v huv hv
  subst huv
  have hv1 : NoDD v := noDD_suffix u v h1
  have hv2 : v.getLast? ≠ some '-' := by
    rw [List.getLast?_append] at h2
    cases hvl : v.getLast? with
    | none => exact absurd (List.getLast?_eq_none_iff.mp hvl) hv
    | some x => rw [hvl] at h2; simpa using h2
  cases v with
  | nil => exact absurd rfl hv
  | cons x v' =>
    by_cases hx : x = '-'
    · subst hx
      cases v' with
      | nil => simp at hv2
      | cons y v'' =>
        have hy := noDD_head y v'' hv1
        have : ('-' == y) = false := by simpa using fun e => hy e.symm
        simp [startsWith, stripPrefix, this]
    · have : ('-' == x) = false := by simpa using fun e => hx e.symm
      simp [startsWith, stripPrefix, this]

/-! ## the CDATA terminator -/

/-- no `]]>` anywhere in the string -/
def NoCE (p : Str) : Prop := ∀ u v, p = u ++ v → startsWith cs!"]]>" v = false

theorem startsWith_ce_three (x y z : Char) (r s : Str) :
    startsWith cs!"]]>" (x :: y :: z :: r) = startsWith cs!"]]>" (x :: y :: z :: s) := by
  simp only [startsWith, stripPrefix]
  split <;> (try split) <;> (try split) <;> rfl

theorem firstAt_cdata (p b : Str) (h : NoCE p) : FirstAt cs!"]]>" p b := by
  intro u v huv hv
  have hv0 := h u v huv
  match v, hv with
  | [x], _ => simp [startsWith, stripPrefix]
  | [x, y], _ => simp [startsWith, stripPrefix]
  | x :: y :: z :: r, _ =>
    rw [← hv0]
    exact startsWith_ce_three x y z _ _

theorem suffix_snoc (w u v : Str) (c : Char) (h : w ++ [c] = u ++ v) (hv : v ≠ []) :
    ∃ v0, v = v0 ++ [c] ∧ w = u ++ v0 := by
  rcases List.eq_nil_or_concat v with rfl | ⟨v0, d, rfl⟩
  · exact absurd rfl hv
  · rw [List.concat_eq_append, ← List.append_assoc] at h
    have := List.append_inj' h rfl
    simp only [List.cons.injEq, and_true] at this
    obtain ⟨h1, rfl⟩ := this
    exact ⟨v0, by simp, h1⟩

theorem not_startsWith_ce (c : Char) (rest : Str)
    (h : ∀ r, c :: rest = ']' :: ']' :: '>' :: r → False) : startsWith cs!"]]>" (c :: rest) = false := by
  cases hs : startsWith cs!"]]>" (c :: rest) with
  | false => rfl
  | true =>
    obtain ⟨r, hr⟩ := (startsWith_iff _ _).mp hs
    exact (h r hr).elim

/-- invariant of `cdataSplit.go`: no `]]>` begins inside the current section, looking ahead into the input -/
def CurOk (cur s : Str) : Prop := ∀ u v, cur.reverse = u ++ v → v ≠ [] → startsWith cs!"]]>" (v ++ s) = false

theorem curOk_fin (s cur : Str) (h : CurOk cur s) : NoCE cur.reverse := by
  intro u v huv
  cases v with
  | nil => simp [startsWith, stripPrefix]
  | cons x v' =>
    have := h u (x :: v') huv (by simp)
    cases hs : startsWith cs!"]]>" (x :: v') with
    | false => rfl
    | true => rw [startsWith_mono _ _ s hs] at this; cases this

theorem curOk_nil (s : Str) : CurOk [] s := by
  intro u v huv hv; simp at huv; exact absurd huv.2 hv

theorem cdataSplit_go_noCE (fuel : Nat) (s cur : Str) : CurOk cur s → ∀ p ∈ cdataSplit.go fuel s cur, NoCE p := by
  fun_induction cdataSplit.go fuel s cur with
  | case1 s cur =>
    intro h p hp
    simp only [List.mem_singleton] at hp
    subst hp; exact curOk_fin s cur h
  | case2 fuel cur =>
    intro h p hp
    simp only [List.mem_singleton] at hp
    subst hp; exact curOk_fin _ cur h
  | case3 fuel rest cur ih =>
    intro h p hp
    simp only [List.mem_cons] at hp
    rcases hp with rfl | hp
    · -- the section closed by `]]`
      intro u v huv
      simp only [List.reverse_cons, List.append_assoc, List.cons_append, List.nil_append] at huv
      by_cases hv : v = []
      · subst hv; simp [startsWith, stripPrefix]
      · have e1 : (cur.reverse ++ [']']) ++ [']'] = u ++ v := by simpa using huv
        obtain ⟨v1, rfl, h1⟩ := suffix_snoc _ _ _ _ e1 hv
        by_cases hv1 : v1 = []
        · subst hv1; simp [startsWith, stripPrefix]
        · obtain ⟨v0, rfl, h0⟩ := suffix_snoc _ _ _ _ h1 hv1
          by_cases hv0 : v0 = []
          · subst hv0; simp [startsWith, stripPrefix]
          · have h2 := h u v0 h0 hv0
            cases hs : startsWith cs!"]]>" (v0 ++ [']'] ++ [']']) with
            | false => rfl
            | true =>
              have h3 := startsWith_mono _ _ ('>' :: rest) hs
              simp only [List.append_assoc, List.cons_append, List.nil_append] at h3
              rw [h3] at h2
              cases h2
    · exact ih (curOk_nil _) p hp
  | case4 fuel c rest cur hne ih =>
    intro h
    refine ih ?_
    intro u v huv hv
    simp only [List.reverse_cons] at huv
    obtain ⟨v0, rfl, h0⟩ := suffix_snoc _ _ _ _ huv hv
    by_cases hv0 : v0 = []
    · subst hv0
      simpa using not_startsWith_ce c rest (fun r hr => by injection hr with h1 h2; exact hne r h1 h2)
    · have := h u v0 h0 hv0
      simpa using this

/-- **no section of a split CDATA text contains `]]>`** -/
theorem cdataSplit_noCE (s : Str) : ∀ p ∈ cdataSplit s, NoCE p :=
  cdataSplit_go_noCE _ s [] (curOk_nil s)

theorem cdataSplit_go_ne_nil (fuel : Nat) (s cur : Str) : cdataSplit.go fuel s cur ≠ [] := by
  fun_induction cdataSplit.go fuel s cur <;> simp_all

theorem cdataSplit_ne_nil (s : Str) : cdataSplit s ≠ [] := cdataSplit_go_ne_nil _ _ _

/-! ## character data up to the next `<` -/

def StartsLt (s : Str) : Prop := s = [] ∨ ∃ r, s = '<' :: r

theorem takeWhile_lt (t rest : Str) (ht : ∀ c ∈ t, c ≠ '<') (hr : StartsLt rest) :
    (t ++ rest).takeWhile (· != '<') = t ∧ (t ++ rest).dropWhile (· != '<') = rest := by
  induction t with
  | nil =>
    rcases hr with rfl | ⟨r, rfl⟩ <;> simp
  | cons c t ih =>
    have hc : (c != '<') = true := by simpa using ht c (by simp)
    have := ih (fun d hd => ht d (by simp [hd]))
    simp [hc, this]

/-! ## coalescing -/

def isTextEv : Ctl.Ev → Bool
  | .text _ => true
  | _ => false

/-- no two adjacent text events -/
def NoAdjText : List Ctl.Ev → Prop
  | a :: b :: r => ¬ (isTextEv a = true ∧ isTextEv b = true) ∧ NoAdjText (b :: r)
  | _ => True

theorem coalesce_noAdjText (evs : List Ctl.Ev) : NoAdjText (coalesce evs) := by
  fun_induction coalesce evs with
  | case1 a b rest ih => exact ih
  | case2 e rest hne ih =>
    cases hc : coalesce rest with
    | nil => simp [NoAdjText]
    | cons b r =>
      rw [hc] at ih
      refine ⟨?_, ih⟩
      rintro ⟨ha, hb⟩
      cases e with
      | text a =>
        cases b with
        | text b' =>
          -- the head of `coalesce rest` is a text only if `rest` starts with one
          cases rest with
          | nil => simp [coalesce] at hc
          | cons x rest' =>
            cases x with
            | text x' => exact hne a x' rest' rfl rfl
            | start _ => unfold coalesce at hc; simp at hc
            | empty _ => unfold coalesce at hc; simp at hc
            | end_ _ => unfold coalesce at hc; simp at hc
            | comment _ => unfold coalesce at hc; simp at hc
            | cdata _ => unfold coalesce at hc; simp at hc
        | _ => simp [isTextEv] at hb
      | _ => simp [isTextEv] at ha
  | case3 => simp [NoAdjText]

theorem coalesce_mem (evs : List Ctl.Ev) : ∀ e ∈ coalesce evs, isTextEv e = true ∨ e ∈ evs := by
  fun_induction coalesce evs with
  | case1 a b rest ih =>
    intro e he
    rcases ih e he with h | h
    · exact Or.inl h
    · simp only [List.mem_cons] at h
      rcases h with rfl | h
      · exact Or.inl rfl
      · exact Or.inr (by simp [h])
  | case2 e rest hne ih =>
    intro x hx
    simp only [List.mem_cons] at hx
    rcases hx with rfl | hx
    · exact Or.inr (by simp)
    · rcases ih x hx with h | h
      · exact Or.inl h
      · exact Or.inr (by simp [h])
  | case3 => simp

/-- text events do not take part in nesting, so coalescing does not change the checker's verdict -/
theorem write_eq (evs : List Ctl.Ev) : write evs = (coalesce evs).flatMap renderEv := by
  unfold write
  congr 1
  funext e
  cases e with
  | text t => cases t <;> simp [renderEv, blankLineRemover, blankLineRemover.go, escape]
  | _ => rfl

/-- what a markup event writes begins with `<` -/
theorem renderEv_markup (e : Ctl.Ev) (h : isTextEv e = false) : ∃ r, renderEv e = '<' :: r := by
  cases e with
  | text t => simp [isTextEv] at h
  | cdata c =>
    cases hc : cdataSplit c with
    | nil => exact absurd hc (cdataSplit_ne_nil c)
    | cons p ps => exact ⟨_, by simp only [renderEv, hc, List.flatMap_cons, List.cons_append]; rfl⟩
  | _ => exact ⟨_, by simp only [renderEv, List.cons_append]; rfl⟩

theorem startsLt_flatMap (l : List Ctl.Ev) (h : ∀ e, l.head? = some e → isTextEv e = false) :
    StartsLt (l.flatMap renderEv) := by
  cases l with
  | nil => exact Or.inl rfl
  | cons e l' =>
    obtain ⟨r, hr⟩ := renderEv_markup e (h e rfl)
    exact Or.inr ⟨r ++ l'.flatMap renderEv, by simp [hr]⟩

end Svgdx.Xml
