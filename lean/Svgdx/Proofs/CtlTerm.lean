/-
  Svgdx.Proofs.CtlTerm — TERMINATION of the control skeleton (`Svgdx.Ctl.Gen`): enough fuel always exists, and from
  some fuel on the result no longer changes (property C01 for the control layer: "a transform never loops for ever").

  MAIN RESULTS (section 5)
    processNodes_stable / processNodes_terminates, transformDoc_stable / transformDoc_terminates
        for every evaluator `ev`, every `M`, every state with `Good M st` and every tree with `nodesOk M ks`:
        ∃ F, (processNodes ev F st ks).2 ≠ .error .fuel ∧ ∀ f ≥ F, processNodes ev f st ks = processNodes ev F st ks.
    processNodes_terminates_partial / transformDoc_terminates_partial
        the corollary for trees and templates without any `<config>` element (`_partial`: no-config hypothesis).
    loopIter_last_pass, retry_measure_decreases
        the quantitative by-products: a loop activation runs its body ≤ M + 1 times, a retry activation makes
        ≤ pending.length + M + 1 passes (M = loopLimit when no `<config>` occurs).
    TermExample (closed instance: hypotheses hold, by kernel evaluation), NonTermination (why they are needed).

  THE HYPOTHESES (section 0). `<config>` elements change `depthLimit` / `loopLimit` in mid-run, so the bounds are
  measured against a number `M`:
    `Good M st`    : st.cfg.depthLimit ≤ M, st.cfg.loopLimit ≤ M, and no reuse template stored in `st.originals` is
                     named `config`; the contents of the templates satisfy `nodesOk M`;
    `nodesOk M ks` : every element named `config` in the tree has NO `id` attribute and every literal it gives for
                     `loop-limit` / `depth-limit` is ≤ M (`elemOk`, `cfgAttrOk`; decidable, `decide +kernel`).
  "No `id` on a `<config>`" is not a convenience: a `<config id=…>` is registered as a reuse template by
  `registerEarly` (although it fails itself - `id` is not a configuration key), and `<reuse>` EVALUATES the
  attributes of its template before dispatching the copy, so `loop-limit="$n"` becomes whatever the variable holds.
  `NonTermination.doc` is a document on which the model returns `.error .fuel` for every fuel tried, the loop limit
  in force growing with the fuel, and on which svgdx itself does not return. Hence the theorem without this
  hypothesis is FALSE. (A `<config>` written directly is not evaluated: `loop-limit="$n"` is a parse error there.)
  `<defaults>` (modelled since): `apply_defaults` is run on `<config/>` like on any empty-element tag, so a stored
  default can put a `loop-limit` / `depth-limit` on it. The induction therefore runs on `GoodD` / `nodesOkD` (also the
  stored defaults, and the content of `<defaults>` elements, give limit literals ≤ M); the headline theorems keep
  `Good` / `nodesOk`, because every finite state and document are `…D` for a larger `M` (`exists_D`); the two
  quantitative by-products, whose conclusions mention `M`, are stated with `GoodD` / `nodesOkD` (with `Good` /
  `nodesOk` they are false: a default can raise the limit above `M`).

  WHY IT HOLDS. (1) `allPost`: for all 15 functions, every fuel and every outcome, the returned state is again
  `Good M`, has the depth it started with, and an idle-pass counter that has not decreased (`Post`); this needs that
  no element derived by the geometry pipeline or by `<reuse>` from a non-`config` element is named `config`
  (`Svgdx.Proofs.ElemName`). (2) `Conv X`: the fuel-indexed computation `X` is constant from some fuel on, with a
  value other than the fuel error; `Conv` is closed under `seq`, maps, case distinction and "body at fuel + 1"
  (`conv_succ`), so no appeal to `allMono` is needed. (3) `term_all`: by induction on `k` = `M - depth`: `genElem`
  refuses when `depth ≥ M ≥ depthLimit`; otherwise it dispatches one level deeper. `<reuse>` re-enters arbitrary
  templates, but only through `processNodes` / `genElem` at the deeper level, so no measure on the document is
  needed. The text shorthand of `genContainer` re-enters `genElem` at the SAME depth with `kids = none`, which can
  never reach `genContainer` again: level `k + 1` is proved first for `kids = none` (`TermE0`), then in general.
  Within a level: `loopIter` by induction on `M + 1 - iteration`, `forIter` on its list, `onePass` on the pending
  list, `retry` on `pending.length + (M + 1 - idlePasses)`.
-/
import Svgdx.Proofs.Unroll
import Svgdx.Proofs.ElemName
import Svgdx.Proofs.DefaultsState
import Svgdx.Proofs.DefaultsApply
namespace Svgdx.Ctl
open Svgdx Str Num Gen

variable {ρ : Type}

/-! ## (0) the hypotheses: what the document and the stored templates may contain -/

/-- one attribute of a `<config>` element: a literal for `loop-limit` / `depth-limit` is at most `M` -/
def cfgAttrOk (M : Nat) (kv : Str × Str) : Bool :=
  match Attrs.lookupTable Gen.ConfigElement.keys kv.1 with
  | none => true
  | some field =>
    if field == cs!"loop_limit" || field == cs!"depth_limit" then
      (if kv.2.all isDigit && !kv.2.isEmpty then decide (digitsToNat kv.2 ≤ M) else true)
    else true

/-- an element as written: a `<config>` has no `id` (so it never becomes a reuse template, whose attributes would be
    EVALUATED before `applyConfig` sees them) and its limit literals are at most `M` -/
def elemOk (M : Nat) (e : Elem) : Bool :=
  if e.name == cs!"config" then (e.getAttr cs!"id").isNone && e.attrs.all (cfgAttrOk M) else true

mutual
def nodeOk (M : Nat) : Node → Bool
  | .elem e none _ => elemOk M e
  | .elem e (some ks) _ => elemOk M e && nodesOk M ks
  | .comment _ _ => true
  | .text _ => true
  | .cdata _ => true
def nodesOk (M : Nat) : Nodes → Bool
  | .nil => true
  | .cons n r => nodeOk M n && nodesOk M r
end

def kidsOk (M : Nat) : Option Nodes → Bool
  | none => true
  | some ks => nodesOk M ks

/-- the state: both limits at most `M`, no stored template is a `<config>`, template contents are fine -/
structure Good (M : Nat) (st : St ρ) : Prop where
  depthLimit : st.cfg.depthLimit ≤ M
  loopLimit : st.cfg.loopLimit ≤ M
  tmpl : ∀ t ∈ st.originals, t.2.1.name ≠ cs!"config" ∧ kidsOk M t.2.2 = true

/-! ### the same with `<defaults>` taken into account

  `apply_defaults` is applied to EVERY empty-element tag, `<config/>` included: a stored default such as
  `<_ loop-limit="100000"/>` or `<config depth-limit="…"/>` ends up on the `<config/>` elements that follow. So the
  limits a run can reach are bounded by the literals inside `<defaults>` elements as well, and the state invariant
  has to cover the defaults already stored. `GoodD` / `nodesOkD` are `Good` / `nodesOk` with these two additions;
  they are what the induction runs on. The headline theorems of section 5 keep their hypotheses `Good` / `nodesOk`:
  every finite document and state satisfy the `…D` versions for a larger `M` (`goodD_of_bound`, `nodesOkD_of_bound`). -/

/-- an element as `genElem` / `dispatch` receive it (possibly with defaults applied, possibly a reuse instance):
    the limit literals of a `<config>` are bounded. (That a `<config>` AS WRITTEN has no `id` - `elemOk` - matters
    where templates are registered, which happens before defaults are applied.) -/
def elemOkA (M : Nat) (e : Elem) : Bool :=
  if e.name == cs!"config" then e.attrs.all (cfgAttrOk M) else true

/-- every attribute of the element is fine for a `<config>` -/
def attrsOk (M : Nat) (e : Elem) : Bool := e.attrs.all (cfgAttrOk M)

/-- every element of the subtree, at any depth: what `<defaults>` stores -/
def allAttrsOk (M : Nat) (ks : Nodes) : Bool := (subElemsNodes ks).all (attrsOk M)

/-- the content of a `<defaults>` element is stored: every element in it must be fine on a `<config>` -/
def defKidsOk (M : Nat) (e : Elem) (kids : Option Nodes) : Bool :=
  match kids with
  | some ks => e.name != cs!"defaults" || allAttrsOk M ks
  | none => true

mutual
def nodeOkD (M : Nat) : Node → Bool
  | .elem e none _ => elemOk M e
  | .elem e (some ks) _ => elemOk M e && nodesOkD M ks && defKidsOk M e (some ks)
  | .comment _ _ => true
  | .text _ => true
  | .cdata _ => true
def nodesOkD (M : Nat) : Nodes → Bool
  | .nil => true
  | .cons n r => nodeOkD M n && nodesOkD M r
end

def kidsOkD (M : Nat) : Option Nodes → Bool
  | none => true
  | some ks => nodesOkD M ks

/-- content of an element as `genElem` / `dispatch` see it: fine as a tree, and fine to be stored if the element
    is a `<defaults>` -/
def kidsOkE (M : Nat) (e : Elem) (kids : Option Nodes) : Bool := kidsOkD M kids && defKidsOk M e kids

/-- the state: as `Good`, and a template that is a `<defaults>` element has storable content, and every default
    already stored is fine on a `<config>` -/
structure GoodD (M : Nat) (st : St ρ) : Prop where
  depthLimit : st.cfg.depthLimit ≤ M
  loopLimit : st.cfg.loopLimit ≤ M
  tmpl : ∀ t ∈ st.originals, t.2.1.name ≠ cs!"config" ∧ kidsOkE M t.2.1 t.2.2 = true
  defs : ∀ s ∈ st.scopes, ∀ d ∈ s.defaults, d.2.attrs.all (cfgAttrOk M) = true

theorem kidsOkD_of_E {M : Nat} {e : Elem} {kids : Option Nodes} (h : kidsOkE M e kids = true) : kidsOkD M kids = true := by
  simp only [kidsOkE, Bool.and_eq_true] at h; exact h.1

theorem kidsOkE_none (M : Nat) (e : Elem) : kidsOkE M e none = true := rfl

theorem kidsOkE_of_name {M : Nat} {e e' : Elem} {kids : Option Nodes} (h : kidsOkE M e kids = true)
    (hn : e'.name = cs!"defaults" → e.name = cs!"defaults") : kidsOkE M e' kids = true := by
  simp only [kidsOkE, Bool.and_eq_true] at h ⊢
  refine ⟨h.1, ?_⟩
  cases kids with
  | none => rfl
  | some ks =>
    have h2 := h.2
    simp only [defKidsOk, Bool.or_eq_true, bne_iff_ne, ne_eq] at h2 ⊢
    by_cases hd : e'.name = cs!"defaults"
    · rcases h2 with h2 | h2
      · exact absurd (hn hd) h2
      · exact Or.inr h2
    · exact Or.inl hd

/-- what every function of the block guarantees about the state it returns, whatever the outcome -/
structure Post (M : Nat) (a b : St ρ) : Prop where
  good : GoodD M b
  depth : b.depth = a.depth
  idle : a.idlePasses ≤ b.idlePasses

theorem Post.refl {M : Nat} {a : St ρ} (h : GoodD M a) : Post M a a := ⟨h, rfl, Nat.le_refl _⟩

theorem Post.trans {M : Nat} {a b c : St ρ} (h1 : Post M a b) (h2 : Post M b c) : Post M a c :=
  ⟨h2.good, h2.depth.trans h1.depth, Nat.le_trans h1.idle h2.idle⟩

theorem good_of_fields {M : Nat} {a b : St ρ} (h : GoodD M a) (hc : b.cfg = a.cfg) (ho : b.originals = a.originals)
    (hs : b.scopes = a.scopes := by rfl) : GoodD M b :=
  ⟨by rw [hc]; exact h.depthLimit, by rw [hc]; exact h.loopLimit, by rw [ho]; exact h.tmpl, by rw [hs]; exact h.defs⟩

theorem post_of_fields {M : Nat} {a b : St ρ} (h : GoodD M a) (hc : b.cfg = a.cfg) (ho : b.originals = a.originals)
    (hd : b.depth = a.depth) (hi : b.idlePasses = a.idlePasses) (hs : b.scopes = a.scopes := by rfl) : Post M a b :=
  ⟨good_of_fields h hc ho hs, hd, Nat.le_of_eq hi.symm⟩

/-- the scopes may change as long as no stored default appears that was not there -/
theorem post_of_defs {M : Nat} {a b : St ρ} (h : GoodD M a) (hc : b.cfg = a.cfg) (ho : b.originals = a.originals)
    (hd : b.depth = a.depth) (hi : b.idlePasses = a.idlePasses)
    (hs : ∀ s ∈ b.scopes, ∀ d ∈ s.defaults, ∃ s' ∈ a.scopes, d ∈ s'.defaults) : Post M a b :=
  ⟨⟨by rw [hc]; exact h.depthLimit, by rw [hc]; exact h.loopLimit, by rw [ho]; exact h.tmpl,
    fun s hs' d hd' => by obtain ⟨s', h1, h2⟩ := hs s hs' d hd'; exact h.defs s' h1 d h2⟩, hd, Nat.le_of_eq hi.symm⟩

theorem kidsOkD_of_nodeOkD {M : Nat} {e : Elem} {kids : Option Nodes} {tail : Option Str}
    (h : nodeOkD M (.elem e kids tail) = true) : elemOk M e = true ∧ kidsOkE M e kids = true := by
  cases kids with
  | none => simp_all [nodeOkD, kidsOkD, kidsOkE, defKidsOk]
  | some ks =>
    simp only [nodeOkD, Bool.and_eq_true] at h
    simp only [kidsOkE, kidsOkD, Bool.and_eq_true]
    exact ⟨h.1.1, h.1.2, h.2⟩

theorem elemOk_of_nc {M : Nat} {e : Elem} (h : e.name ≠ cs!"config") : elemOk M e = true := by
  simp [elemOk, h]

theorem elemOkA_of_nc {M : Nat} {e : Elem} (h : e.name ≠ cs!"config") : elemOkA M e = true := by
  simp [elemOkA, h]

theorem elemOkA_of_elemOk {M : Nat} {e : Elem} (h : elemOk M e = true) : elemOkA M e = true := by
  unfold elemOk at h
  unfold elemOkA
  split
  · rename_i hc
    simp only [hc, if_true, Bool.and_eq_true] at h
    exact h.2
  · rfl

/-! ## (1) `Post` for the leaf operations -/

theorem mem_ite_cons {α : Type} {c : Prop} [Decidable c] {x t : α} {l : List α} (h : t ∈ if c then l else x :: l) :
    t = x ∨ t ∈ l := by
  split at h
  · exact Or.inr h
  · exact List.mem_cons.mp h

section leaves
variable {M : Nat}

theorem post_setVar (a : St ρ) (k v : Str) (h : GoodD M a) : Post M a (a.setVar k v) := by
  unfold St.setVar
  cases hs : a.scopes with
  | nil =>
    refine post_of_defs h rfl rfl rfl rfl ?_
    intro s hs' d hd
    simp only [List.mem_cons, List.not_mem_nil, or_false] at hs'
    subst hs'
    cases hd
  | cons s0 rest =>
    refine post_of_defs h rfl rfl rfl rfl ?_
    intro s hs' d hd
    rw [hs]
    rcases List.mem_cons.mp hs' with rfl | hs'
    · exact ⟨s0, List.mem_cons_self, hd⟩
    · exact ⟨s, List.mem_cons_of_mem _ hs', hd⟩

theorem post_foldl_setVar (vars : List (Str × Str)) (a : St ρ) (h : GoodD M a) :
    Post M a (vars.foldl (fun s kv => s.setVar kv.1 kv.2) a) := by
  induction vars generalizing a with
  | nil => exact Post.refl h
  | cons x xs ih =>
    simp only [List.foldl_cons]
    have h1 := post_setVar a x.1 x.2 h
    exact h1.trans (ih _ h1.good)

theorem post_updateElement (ev : Evalr ρ) (a : St ρ) (e : Elem) (h : GoodD M a) (hn : e.name ≠ cs!"config") :
    Post M a (updateElement ev a e) := by
  unfold updateElement
  split
  · exact Post.refl h
  · dsimp only
    refine ⟨⟨h.depthLimit, h.loopLimit, ?_, h.defs⟩, rfl, Nat.le_refl _⟩
    dsimp only
    intro t ht
    rcases mem_ite_cons ht with rfl | ht
    · exact ⟨hn, rfl⟩
    · exact h.tmpl t ht

theorem post_registerOriginal (ev : Evalr ρ) (a : St ρ) (e : Elem) (k : Option Nodes) (h : GoodD M a)
    (he : elemOk M e = true) (hk : kidsOkE M e k = true) : Post M a (registerOriginal ev a e k) := by
  unfold registerOriginal
  split
  · exact Post.refl h
  · rename_i i hi
    dsimp only
    refine ⟨⟨h.depthLimit, h.loopLimit, ?_, h.defs⟩, rfl, Nat.le_refl _⟩
    dsimp only
    intro t ht
    rcases mem_ite_cons ht with rfl | ht
    · refine ⟨?_, hk⟩
      intro hc
      have hc' : e.name = cs!"config" := hc
      unfold elemOk at he
      simp [hc', hi] at he
    · exact h.tmpl t ht

theorem post_setPrev (a : St ρ) (e : Elem) (h : GoodD M a) : Post M a (setPrev a e) :=
  post_of_fields h rfl rfl rfl rfl

/-- sequencing: whatever happens, the state handed on satisfies `Post` -/
theorem post_seq {α β : Type} {a : St ρ} (x : St ρ × Except CErr α) (f : St ρ → α → St ρ × Except CErr β)
    (hx : Post M a x.1) (hf : GoodD M x.1 → ∀ v, x.2 = .ok v → Post M x.1 (f x.1 v).1) : Post M a (seq x f).1 := by
  unfold seq
  split
  · exact hx
  · rename_i v hv
    exact hx.trans (hf hx.good v hv)

theorem post_withRng {α : Type} (st : St ρ) (r : Except Err (α × ρ)) (h : GoodD M st) :
    Post M st (withRng st r).1 := by
  unfold withRng
  split
  · exact post_of_fields h rfl rfl rfl rfl
  · exact Post.refl h

theorem post_genVar (ev : Evalr ρ) (st : St ρ) (e : Elem) (h : GoodD M st) : Post M st (genVar ev st e).1 := by
  unfold genVar
  dsimp only
  split
  · exact Post.refl h
  · rename_i newVars rng _
    have h0 : Post M st { st with rng := rng } := post_of_fields h rfl rfl rfl rfl
    exact h0.trans (post_foldl_setVar newVars _ h0.good)

theorem post_elementEvents (ev : Evalr ρ) (st : St ρ) (e : Elem) (h : GoodD M st) :
    Post M st (elementEvents ev st e).1 := by
  unfold elementEvents
  apply post_seq
  · unfold commentEvents
    split
    · split
      · exact post_of_fields h rfl rfl rfl rfl
      · exact Post.refl h
    · exact Post.refl h
  · intro h1 evs1 _
    exact Post.refl h1

theorem withRng_ok {α : Type} {st : St ρ} {r : Except Err (α × ρ)} {v : α} (h : (withRng st r).2 = .ok v) :
    ∃ rng, r = .ok (v, rng) := by
  unfold withRng at h
  split at h
  · rename_i a rng
    simp only [Except.ok.injEq] at h
    subst h
    exact ⟨rng, rfl⟩
  · cases h

theorem post_genOther (ev : Evalr ρ) (st : St ρ) (e : Elem) (h : GoodD M st) (hn : e.name ≠ cs!"config") :
    Post M st (genOther ev st e).1 := by
  unfold genOther
  apply post_seq _ _ (post_withRng st _ h)
  intro h1 e' he'
  obtain ⟨rng, hr⟩ := withRng_ok he'
  have hn' : e'.name ≠ cs!"config" := otherPipeline_nc ev st e e' rng hr hn
  dsimp only
  have h2 := post_updateElement ev (withRng st (otherPipeline ev st e)).1 e' h1 hn'
  split
  · exact h2
  · apply post_seq
    · have h3 : Post M (updateElement ev (withRng st (otherPipeline ev st e)).1 e')
          (if (‹Option Gen.BoundingBox›).isSome then setPrev (updateElement ev (withRng st (otherPipeline ev st e)).1 e') e'
           else updateElement ev (withRng st (otherPipeline ev st e)).1 e') := by
        split
        · exact post_setPrev _ _ h2.good
        · exact Post.refl h2.good
      exact h2.trans (h3.trans (post_elementEvents ev _ e' h3.good))
    · intro h4 evs _
      exact Post.refl h4

theorem post_finishContainer (ev : Evalr ρ) (st : St ρ) (ne : Elem) bb (h : GoodD M st) (hn : ne.name ≠ cs!"config") :
    Post M st (finishContainer ev st ne bb) := by
  unfold finishContainer
  dsimp only
  have h0 : Post M st (if bb.isSome || notRenderedInPlace ne.name then updateElement ev st { ne with contentBBox := bb } else st) := by
    split
    · exact post_updateElement ev st _ h hn
    · exact Post.refl h
  split
  · exact h0.trans (post_setPrev _ _ h0.good)
  · exact h0

theorem post_preTest (ev : Evalr ρ) (st : St ρ) c w i (h : GoodD M st) : Post M st (preTest ev st c w i).1 := by
  unfold preTest
  split
  · exact Post.refl h
  · exact post_withRng st _ h
  · exact Post.refl h

theorem post_postTest (ev : Evalr ρ) (st : St ρ) u (h : GoodD M st) : Post M st (postTest ev st u).1 := by
  unfold postTest
  split
  · exact post_withRng st _ h
  · exact Post.refl h

theorem post_bindLoopVar (st : St ρ) n v (h : GoodD M st) : Post M st (bindLoopVar st n v) := by
  unfold bindLoopVar
  split
  · exact Post.refl h
  · exact post_setVar st _ _ h

theorem post_bindForVars (st : St ρ) v iv item idx (h : GoodD M st) : Post M st (bindForVars st v iv item idx) := by
  unfold bindForVars
  have h1 := post_setVar st v item h
  dsimp only
  split
  · exact h1.trans (post_setVar _ _ _ h1.good)
  · exact h1

theorem post_registerEarly (ev : Evalr ρ) (st : St ρ) n (h : GoodD M st) (hn : nodeOkD M n = true) :
    Post M st (registerEarly ev st n) := by
  unfold registerEarly
  split
  · have := kidsOkD_of_nodeOkD hn
    exact post_registerOriginal ev st _ _ h this.1 this.2
  · exact Post.refl h

theorem post_push (st : St ρ) (e : Elem) (h : GoodD M st) : Post M st (st.pushElement e) := by
  refine post_of_defs h rfl rfl rfl rfl ?_
  intro s hs d hd
  simp only [St.pushElement, List.mem_cons] at hs
  rcases hs with rfl | hs
  · cases hd
  · exact ⟨s, hs, hd⟩

theorem post_pop (st : St ρ) (h : GoodD M st) : Post M st st.popElement :=
  post_of_defs h rfl rfl rfl rfl (fun s hs d hd => ⟨s, List.mem_of_mem_drop hs, hd⟩)

/-- `<defaults>`: every stored element comes from the content, which is fine on a `<config>` -/
theorem post_genDefaults (st : St ρ) (e : Elem) (kids : Option Nodes) (h : GoodD M st) (hn : e.name = cs!"defaults")
    (hk : kidsOkE M e kids = true) : Post M st (genDefaults st kids).1 := by
  have hall : ∀ ks, kids = some ks → ∀ x ∈ subElemsNodes ks, x.attrs.all (cfgAttrOk M) = true := by
    intro ks hks x hx
    subst hks
    simp only [kidsOkE, defKidsOk, hn, bne_self_eq_false, Bool.false_or, Bool.and_eq_true, allAttrsOk,
      List.all_eq_true] at hk
    exact hk.2 x hx
  have key : ∀ (es : List Elem) (s : St ρ), GoodD M s → (∀ x ∈ es, x.attrs.all (cfgAttrOk M) = true) →
      Post M s (es.foldl St.setElementDefault s) := by
    intro es
    induction es with
    | nil => intro s hs _; exact Post.refl hs
    | cons x xs ih =>
      intro s hs hx
      rw [List.foldl_cons]
      have d := defStep_setElementDefault s x
      have h1 : Post M s (s.setElementDefault x) := by
        refine ⟨⟨by rw [d.cfg]; exact hs.depthLimit, by rw [d.cfg]; exact hs.loopLimit, by rw [d.originals]; exact hs.tmpl, ?_⟩,
          d.depth, Nat.le_of_eq d.idlePasses.symm⟩
        have hxo : (storedDefault x).attrs.all (cfgAttrOk M) = true := by
          rw [List.all_eq_true]
          intro y hy
          exact List.all_eq_true.mp (hx x List.mem_cons_self) y (storedDefault_mem hy)
        unfold St.setElementDefault
        cases hsc : s.scopes with
        | nil =>
          intro s' hs' d' hd'
          simp only [List.mem_cons, List.not_mem_nil, or_false] at hs'
          subst hs'
          simp only [List.mem_cons, List.not_mem_nil, or_false] at hd'
          subst hd'
          exact hxo
        | cons s0 rest =>
          have hdef := hs.defs
          rw [hsc] at hdef
          intro s' hs' d' hd'
          rcases List.mem_cons.mp hs' with rfl | hs'
          · rcases List.mem_append.mp hd' with hd' | hd'
            · exact hdef s0 List.mem_cons_self d' hd'
            · simp only [List.mem_cons, List.not_mem_nil, or_false] at hd'
              subst hd'
              exact hxo
          · exact hdef s' (List.mem_cons_of_mem _ hs') d' hd'
      exact h1.trans (ih _ h1.good (fun y hy => hx y (List.mem_cons_of_mem _ hy)))
  unfold genDefaults
  cases kids with
  | none => exact Post.refl h
  | some ks => exact key _ st h (hall ks rfl)

theorem augKeys_cfgAttrOk (x : Str × Str) (hx : x.1 ∈ augKeys) : cfgAttrOk M x = true := by
  have h1 : Attrs.lookupTable Gen.ConfigElement.keys cs!"style" = none := by decide +kernel
  have h2 : Attrs.lookupTable Gen.ConfigElement.keys cs!"text-style" = none := by decide +kernel
  have h3 : Attrs.lookupTable Gen.ConfigElement.keys cs!"transform" = none := by decide +kernel
  simp only [augKeys, List.mem_cons, List.not_mem_nil, or_false] at hx
  unfold cfgAttrOk
  rcases hx with h | h | h <;> rw [h] <;> simp only [h1, h2, h3]

/-- the element `genNode` hands to `genElem` is still fine: a `<config/>` with the defaults in force applied has only
    bounded limit literals (its own, or those of stored defaults) -/
theorem elemOkA_leafDefaults (st : St ρ) (e : Elem) (kids : Option Nodes) (h : GoodD M st) (he : elemOk M e = true) :
    elemOkA M (leafDefaults st e kids) = true := by
  unfold leafDefaults
  split
  · by_cases hc : e.name = cs!"config"
    · have hea := elemOkA_of_elemOk he
      unfold elemOkA at hea ⊢
      have hc' : (e.name == cs!"config") = true := by simpa using hc
      simp only [applyDefaults_name, hc', if_true] at hea ⊢
      exact applyDefaults_all st e (cfgAttrOk M) hea h.defs augKeys_cfgAttrOk
    · exact elemOkA_of_nc (by rw [applyDefaults_name]; exact hc)
  · exact elemOkA_of_elemOk he

theorem post_groupFinish (ev : Evalr ρ) (st : St ρ) (e : Elem) r (h : GoodD M st) (hn : e.name ≠ cs!"config") :
    Post M st (groupFinish ev st e r).1 := by
  unfold groupFinish
  dsimp only
  have hu := post_updateElement ev st { e with contentBBox := r.2 } h hn
  have hsp := hu.trans (post_setPrev _ { e with contentBBox := r.2 } hu.good)
  have hst : Post M st (if r.2.isSome then setPrev (updateElement ev st { e with contentBBox := r.2 }) { e with contentBBox := r.2 }
      else updateElement ev st { e with contentBBox := r.2 }) := by
    split
    · exact hsp
    · exact hu
  split
  · exact hst
  · split <;> exact hst

theorem post_clipPost (ev : Evalr ρ) (e : Elem) (x : St ρ × Res) (h : GoodD M x.1)
    (hn : e.name ≠ cs!"config" ∨ ∀ evs bb, x.2 ≠ .ok (evs, some bb)) : Post M x.1 (clipPost ev e x).1 := by
  unfold clipPost
  split
  · rename_i evs bb hx
    have hn : e.name ≠ cs!"config" := by
      rcases hn with hn | hn
      · exact hn
      · exact absurd hx (hn evs bb)
    split
    · split
      · exact Post.refl h
      · split
        · split
          · exact Post.refl h
          · exact post_updateElement ev _ _ h hn
          · exact Post.refl h
        · exact Post.refl h
    · exact Post.refl h
  · exact Post.refl h

theorem post_updateIf (ev : Evalr ρ) (st : St ρ) (re : Elem) (b : Bool) (h : GoodD M st) (hn : re.name ≠ cs!"config") :
    Post M st (if b then updateElement ev st re else st) := by
  split
  · exact post_updateElement ev st re h hn
  · exact Post.refl h

theorem lookupTable_mem' {β : Type} (t : List (Str × β)) (k : Str) (v : β)
    (h : Attrs.lookupTable t k = some v) : ∃ k', (k', v) ∈ t := by
  induction t with
  | nil => simp [Attrs.lookupTable] at h
  | cons x xs ih =>
    obtain ⟨k0, v0⟩ := x
    unfold Attrs.lookupTable at h
    split at h
    · cases h
      exact ⟨k0, List.mem_cons_self⟩
    · obtain ⟨k', hk'⟩ := ih h
      exact ⟨k', List.mem_cons_of_mem _ hk'⟩

/-- the instance a `<reuse>` generates is not a `<config>` (its name is the template's, or `g`), and the content
    that comes with it is the template's -/
theorem post_reusePrepare (ev : Evalr ρ) (st : St ρ) (re : Elem) (h : GoodD M st) (hn : re.name ≠ cs!"config") :
    Post M st (reusePrepare ev st re).1 ∧
      ∀ ik, (reusePrepare ev st re).2 = .ok ik → ik.1.name ≠ cs!"config" ∧ kidsOkE M ik.1 ik.2 = true := by
  unfold reusePrepare
  split
  · exact ⟨Post.refl h, fun ik hik => by cases hik⟩
  · split
    · exact ⟨Post.refl h, fun ik hik => by cases hik⟩
    · exact ⟨post_of_fields h rfl rfl rfl rfl, fun ik hik => by cases hik⟩
    · split
      · exact ⟨Post.refl h, fun ik hik => by cases hik⟩
      · rename_i i orig kids hlook
        obtain ⟨k', hk'⟩ := lookupTable_mem' _ _ _ hlook
        have ht := h.tmpl _ hk'
        have hw := post_withRng (M := M) st (evalAttributes ev st orig.expandCompoundSize) h
        unfold seq
        split
        · exact ⟨hw, fun ik hik => by cases hik⟩
        · rename_i inst1 hinst1
          obtain ⟨rng, hr⟩ := withRng_ok hinst1
          have hn1 : inst1.name ≠ cs!"config" := by
            rw [evalAttributes_name ev st _ _ _ hr, expandCompoundSize_name]
            exact ht.1
          have hn2 := reuseInstance_nc re inst1 hn1
          dsimp only
          split
          · exact ⟨hw, fun ik hik => by cases hik⟩
          · split
            · exact ⟨hw, fun ik hik => by cases hik⟩
            · rename_i re2 hre2
              have hnr : re2.name ≠ cs!"config" := by
                rw [resolvePosition_name _ _ _ hre2]; exact hn
              have hst' := hw.trans (post_updateIf ev _ re2 (re2.getAttr cs!"id").isSome hw.good hnr)
              generalize (if (re2.getAttr cs!"id").isSome = true
                then updateElement ev (withRng st (evalAttributes ev st orig.expandCompoundSize)).1 re2
                else (withRng st (evalAttributes ev st orig.expandCompoundSize)).1) = st' at hst' ⊢
              refine ⟨hst', ?_⟩
              intro ik hik
              simp only [Except.ok.injEq] at hik
              subst hik
              refine ⟨?_, ?_⟩
              · dsimp only
                rw [setPositionAttrs_name]
                split
                · split <;> (dsimp only; rw [expandCompoundPos_name]; exact hn2)
                · exact hn2
              · -- the instance is a `<defaults>` only if the template is
                apply kidsOkE_of_name ht.2
                intro hd
                have hd2 : (reuseInstance re inst1).name = cs!"defaults" := by
                  dsimp only at hd
                  rw [setPositionAttrs_name] at hd
                  split at hd
                  · split at hd <;> (dsimp only at hd; rw [expandCompoundPos_name] at hd; exact hd)
                  · exact hd
                have h1n : inst1.name = orig.name := by
                  rw [evalAttributes_name ev st _ _ _ hr, expandCompoundSize_name]
                rcases reuseInstance_name re inst1 with h1 | h1
                · rw [← h1n, ← h1]; exact hd2
                · rw [h1] at hd2; exact absurd hd2 (by decide)

/-- `applyConfig` with bounded literals keeps both limits at most `M` -/
theorem applyConfig_good (e : Elem) (c c' : Cfg) (h : applyConfig c e = .ok c')
    (ha : e.attrs.all (cfgAttrOk M) = true) (h1 : c.depthLimit ≤ M) (h2 : c.loopLimit ≤ M) :
    c'.depthLimit ≤ M ∧ c'.loopLimit ≤ M := by
  unfold applyConfig at h
  generalize e.attrs = l at h ha
  induction l generalizing c with
  | nil =>
    simp only [List.foldlM, pure, Except.pure, Except.ok.injEq] at h
    subst h
    exact ⟨h1, h2⟩
  | cons kv rest ih =>
    simp only [List.all_cons, Bool.and_eq_true] at ha
    simp only [List.foldlM, bind, Except.bind] at h
    split at h
    · cases h
    · rename_i c1 hc1
      have hkv := ha.1
      unfold cfgAttrOk at hkv
      have : c1.depthLimit ≤ M ∧ c1.loopLimit ≤ M := by
        split at hc1
        · cases hc1
        · rename_i field hf
          rw [hf] at hkv
          dsimp only at hkv
          split at hc1
          · rename_i hfl
            simp only [hfl, Bool.true_or, if_true] at hkv
            split at hc1
            · rename_i n hn
              simp only [Except.ok.injEq] at hc1
              subst hc1
              split at hn
              · rename_i hd
                simp only [hd, if_true, decide_eq_true_eq] at hkv
                simp only [Option.some.injEq] at hn
                subst hn
                exact ⟨h1, hkv⟩
              · cases hn
            · cases hc1
          · split at hc1
            · split at hc1
              · simp only [Except.ok.injEq] at hc1
                subst hc1
                exact ⟨h1, h2⟩
              · cases hc1
            · split at hc1
              · rename_i hfl
                simp only [hfl, Bool.or_true, if_true] at hkv
                split at hc1
                · rename_i n hn
                  simp only [Except.ok.injEq] at hc1
                  subst hc1
                  split at hn
                  · rename_i hd
                    simp only [hd, if_true, decide_eq_true_eq] at hkv
                    simp only [Option.some.injEq] at hn
                    subst hn
                    exact ⟨hkv, h2⟩
                  · cases hn
                · cases hc1
              · simp only [Except.ok.injEq] at hc1
                subst hc1
                exact ⟨h1, h2⟩
      apply ih c1 <;> first | exact h | exact ha.2 | exact this.1 | exact this.2

end leaves

/-! ## (2) `Post` for the 15 functions, every fuel, every outcome -/

/-- a `<config>` element never produces a bounding box (so `clipPost` leaves it alone) -/
theorem dispatch_config_nobb (ev : Evalr ρ) (f : Nat) (st : St ρ) (e : Elem) (kids : Option Nodes)
    (hc : e.name = cs!"config") (evs : List Ev) (bb : BoundingBox) : (dispatch ev f st e kids).2 ≠ .ok (evs, some bb) := by
  cases f with
  | zero => simp [Ctl.dispatch]
  | succ f =>
    unfold Ctl.dispatch
    dsimp only
    rw [hc]
    rw [if_neg (by decide), if_pos (by decide)]
    split <;> simp

structure AllPost (ev : Evalr ρ) (M : Nat) (fuel : Nat) : Prop where
  genElem : ∀ (st : St ρ) e kids, GoodD M st → elemOkA M e = true → kidsOkE M e kids = true →
    Post M st (genElem ev fuel st e kids).1
  dispatch : ∀ (st : St ρ) e kids, GoodD M st → elemOkA M e = true → kidsOkE M e kids = true →
    Post M st (dispatch ev fuel st e kids).1
  genSpecs : ∀ (st : St ρ) kids, GoodD M st → kidsOkD M kids = true → Post M st (genSpecs ev fuel st kids).1
  genReuse : ∀ (st : St ρ) e, GoodD M st → e.name ≠ cs!"config" → Post M st (genReuse ev fuel st e).1
  genIf : ∀ (st : St ρ) e kids, GoodD M st → kidsOkD M kids = true → Post M st (genIf ev fuel st e kids).1
  genContainer : ∀ (st : St ρ) e ks, GoodD M st → e.name ≠ cs!"config" → nodesOkD M ks = true →
    Post M st (genContainer ev fuel st e ks).1
  genGroup : ∀ (st : St ρ) e kids, GoodD M st → e.name ≠ cs!"config" → kidsOkD M kids = true →
    Post M st (genGroup ev fuel st e kids).1
  genLoop : ∀ (st : St ρ) e kids, GoodD M st → kidsOkD M kids = true → Post M st (genLoop ev fuel st e kids).1
  loopIter : ∀ (st : St ρ) ks c w u n v s i acc bb, GoodD M st → nodesOkD M ks = true →
    Post M st (loopIter ev fuel st ks c w u n v s i acc bb).1
  genFor : ∀ (st : St ρ) e kids, GoodD M st → kidsOkD M kids = true → Post M st (genFor ev fuel st e kids).1
  forIter : ∀ (st : St ρ) ks v iv items idx acc bb, GoodD M st → nodesOkD M ks = true →
    Post M st (forIter ev fuel st ks v iv items idx acc bb).1
  genNode : ∀ (st : St ρ) n, GoodD M st → nodeOkD M n = true → Post M st (genNode ev fuel st n).1
  onePass : ∀ (st : St ρ) ts outs bb rem, GoodD M st → (∀ t ∈ ts, nodeOkD M t.node = true) →
    Post M st (onePass ev fuel st ts outs bb rem).1
  retry : ∀ (st : St ρ) ts outs bb, GoodD M st → (∀ t ∈ ts, nodeOkD M t.node = true) →
    Post M st (retry ev fuel st ts outs bb).1
  processNodes : ∀ (st : St ρ) ks, GoodD M st → nodesOkD M ks = true → Post M st (processNodes ev fuel st ks).1

theorem allPost_zero (ev : Evalr ρ) (M : Nat) : AllPost ev M 0 := by
  constructor <;> intros <;> simp only [Ctl.genElem, Ctl.dispatch, Ctl.genSpecs, Ctl.genReuse, Ctl.genIf, Ctl.genContainer,
    Ctl.genGroup, Ctl.genLoop, Ctl.loopIter, Ctl.genFor, Ctl.forIter, Ctl.genNode, Ctl.onePass, Ctl.retry,
    Ctl.processNodes] <;> exact Post.refl ‹_›

/-- the pending tags of `onePass` come from its two input lists (a property of the nodes survives), and there are
    no more of them than went in -/
theorem onePass_rem (ev : Evalr ρ) (P : Node → Prop) : ∀ (f : Nat) (ts : List Tag) (st : St ρ)
    (outs : List (Nat × List Ev)) (bb : Option BoundingBox) (rem : List Tag) (s : St ρ) (o : List (Nat × List Ev))
    (b : Option BoundingBox) (rem' : List Tag), onePass ev f st ts outs bb rem = (s, .ok (o, b, rem')) →
    (∀ t ∈ ts, P t.node) → (∀ t ∈ rem, P t.node) →
    rem'.length ≤ ts.length + rem.length ∧ ∀ t ∈ rem', P t.node := by
  intro f
  induction f with
  | zero => intro ts st outs bb rem s o b rem' h; simp [onePass] at h
  | succ f ih =>
    intro ts st outs bb rem s o b rem' h hts hrem
    cases ts with
    | nil =>
      simp only [onePass, Prod.mk.injEq, Except.ok.injEq] at h
      rw [← h.2.2.2]
      exact ⟨by simp, fun t ht => hrem t (List.mem_reverse.mp ht)⟩
    | cons t ts =>
      have hts' : ∀ x ∈ ts, P x.node := fun x hx => hts x (List.mem_cons_of_mem _ hx)
      rw [onePass] at h
      split at h
      · split at h
        · simp at h
        · split at h
          · have := ih _ _ _ _ _ _ _ _ _ h hts' hrem
            exact ⟨by simp only [List.length_cons]; omega, this.2⟩
          · have := ih _ _ _ _ _ _ _ _ _ h hts' (by
              intro x hx
              rcases List.mem_cons.mp hx with rfl | hx
              · exact hts t List.mem_cons_self
              · exact hrem x hx)
            exact ⟨by simp only [List.length_cons] at this ⊢; omega, this.2⟩
      · split at h
        · have := ih _ _ _ _ _ _ _ _ _ h hts' hrem
          exact ⟨by simp only [List.length_cons]; omega, this.2⟩
        · have := ih _ _ _ _ _ _ _ _ _ h hts' hrem
          exact ⟨by simp only [List.length_cons]; omega, this.2⟩

theorem nodesOkD_toList {M : Nat} : ∀ (ks : Nodes), nodesOkD M ks = true → ∀ n ∈ ks.toList, nodeOkD M n = true
  | .nil, _, n, hn => by simp [Nodes.toList] at hn
  | .cons n r, h, x, hx => by
    simp only [nodesOkD, Bool.and_eq_true] at h
    simp only [Nodes.toList, List.mem_cons] at hx
    rcases hx with rfl | hx
    · exact h.1
    · exact nodesOkD_toList r h.2 x hx

theorem tags_ok {M : Nat} (ks : Nodes) (h : nodesOkD M ks = true) :
    ∀ t ∈ (ks.toList.zipIdx.map fun (n, i) => ({ idx := i, node := n } : Tag)), nodeOkD M t.node = true := by
  intro t ht
  simp only [List.mem_map] at ht
  obtain ⟨⟨n, i⟩, hmem, rfl⟩ := ht
  obtain ⟨_, _, hn⟩ := List.mem_zipIdx hmem
  exact nodesOkD_toList ks h n (hn ▸ List.getElem_mem _)

section step
variable (ev : Evalr ρ) (M : Nat) (fuel : Nat) (ih : AllPost ev M fuel)
include ih

theorem genElem_pstep (st : St ρ) e kids (h : GoodD M st) (he : elemOkA M e = true) (hk : kidsOkE M e kids = true) :
    Post M st (Ctl.genElem ev (fuel + 1) st e kids).1 := by
  unfold Ctl.genElem
  split
  · exact Post.refl h
  · dsimp only
    have h1 : GoodD M { st with depth := st.depth + 1 } := good_of_fields h rfl rfl
    have hd := ih.dispatch { st with depth := st.depth + 1 } e kids h1 he hk
    have h0 : Post M st { (Ctl.dispatch ev fuel { st with depth := st.depth + 1 } e kids).1 with
        depth := (Ctl.dispatch ev fuel { st with depth := st.depth + 1 } e kids).1.depth - 1 } := by
      refine ⟨good_of_fields hd.good rfl rfl, ?_, hd.idle⟩
      have := hd.depth
      simp only at this ⊢
      omega
    refine h0.trans (post_clipPost (M := M) ev e
      ({ (Ctl.dispatch ev fuel { st with depth := st.depth + 1 } e kids).1 with
          depth := (Ctl.dispatch ev fuel { st with depth := st.depth + 1 } e kids).1.depth - 1 },
        (Ctl.dispatch ev fuel { st with depth := st.depth + 1 } e kids).2) h0.good ?_)
    by_cases hc : e.name = cs!"config"
    · exact Or.inr fun evs bb => dispatch_config_nobb ev fuel _ e kids hc evs bb
    · exact Or.inl hc

theorem dispatch_pstep (st : St ρ) e kids (h : GoodD M st) (he : elemOkA M e = true) (hk : kidsOkE M e kids = true) :
    Post M st (Ctl.dispatch ev (fuel + 1) st e kids).1 := by
  have hk' := kidsOkD_of_E hk
  unfold Ctl.dispatch
  dsimp only
  split; · exact ih.genLoop st e kids h hk'
  split
  · rename_i hc
    split
    · rename_i c hcfg
      have hc' : e.name = cs!"config" := by simpa using hc
      unfold elemOkA at he
      simp only [hc, if_true] at he
      have := applyConfig_good (M := M) e st.cfg c hcfg he h.depthLimit h.loopLimit
      exact ⟨⟨this.1, this.2, h.tmpl, h.defs⟩, rfl, Nat.le_refl _⟩
    · exact Post.refl h
  rename_i hnc
  have hnc' : e.name ≠ cs!"config" := by simpa using hnc
  split; · exact ih.genReuse st e h hnc'
  split; · exact ih.genSpecs st kids h hk'
  split; · exact post_genVar ev st e h
  split; · exact ih.genIf st e kids h hk'
  split
  · rename_i hdf
    exact post_genDefaults st e kids h (by simpa using hdf) hk
  split; · exact ih.genFor st e kids h hk'
  split; · exact ih.genGroup st e kids h hnc' hk'
  split
  · exact ih.genContainer st e _ h hnc' hk'
  · exact post_genOther ev st e h hnc'

theorem genSpecs_pstep (st : St ρ) kids (h : GoodD M st) (hk : kidsOkD M kids = true) :
    Post M st (Ctl.genSpecs ev (fuel + 1) st kids).1 := by
  unfold Ctl.genSpecs
  split
  · exact Post.refl h
  · split
    · rename_i ks
      have h1 : GoodD M { st with inSpecs := true } := good_of_fields h rfl rfl
      have hp := ih.processNodes { st with inSpecs := true } ks h1 hk
      dsimp only
      exact ⟨good_of_fields hp.good rfl rfl, hp.depth, hp.idle⟩
    · exact Post.refl h

theorem genReuse_pstep (st : St ρ) e (h : GoodD M st) (hn : e.name ≠ cs!"config") :
    Post M st (Ctl.genReuse ev (fuel + 1) st e).1 := by
  unfold Ctl.genReuse
  apply post_seq _ _ (post_withRng st _ h)
  intro h1 re hre
  obtain ⟨rng, hr⟩ := withRng_ok hre
  have hnre : re.name ≠ cs!"config" := by rw [evalAttributes_name ev st e re rng hr]; exact hn
  have hp := post_push (M := M) (withRng st (evalAttributes ev st e)).1 re h1
  have hprep := post_reusePrepare ev _ re hp.good hnre
  have hbody : Post M ((withRng st (evalAttributes ev st e)).1.pushElement re)
      (seq (reusePrepare ev ((withRng st (evalAttributes ev st e)).1.pushElement re) re) fun st1 ik =>
        match ik.2 with
        | some ks => Ctl.processNodes ev fuel st1 (Nodes.cons (.elem ik.1 (some ks) none) .nil)
        | none => Ctl.genElem ev fuel st1 ik.1 none).1 := by
    apply post_seq _ _ hprep.1
    intro h2 ik hik
    have hik' := hprep.2 ik hik
    split
    · rename_i ks hks
      refine ih.processNodes _ _ h2 ?_
      have hE := hik'.2
      rw [hks] at hE
      simp only [kidsOkE, kidsOkD, Bool.and_eq_true] at hE
      simp only [nodesOkD, nodeOkD, elemOk_of_nc hik'.1, hE.1, hE.2, Bool.and_self]
    · exact ih.genElem _ _ _ h2 (elemOkA_of_nc hik'.1) rfl
  exact hp.trans (hbody.trans (post_pop _ hbody.good))

theorem genIf_pstep (st : St ρ) e kids (h : GoodD M st) (hk : kidsOkD M kids = true) :
    Post M st (Ctl.genIf ev (fuel + 1) st e kids).1 := by
  unfold Ctl.genIf
  split
  · exact Post.refl h
  · split
    · apply post_seq _ _ (post_withRng st _ h)
      intro h1 b _
      split
      · exact ih.processNodes _ _ h1 hk
      · exact Post.refl h1
    · exact Post.refl h

theorem genContainer_pstep (st : St ρ) e ks (h : GoodD M st) (hn : e.name ≠ cs!"config") (hk : nodesOkD M ks = true) :
    Post M st (Ctl.genContainer ev (fuel + 1) st e ks).1 := by
  unfold Ctl.genContainer
  split
  · split
    · exact Post.refl h
    · rename_i hd
      dsimp only
      have h1 : GoodD M { st with depth := st.depth - 1 } := good_of_fields h rfl rfl
      have hg := ih.genElem { st with depth := st.depth - 1 } (e.setAttr cs!"text" ‹_›) none h1
        (elemOkA_of_nc (by rw [setAttr_name]; exact hn)) rfl
      refine ⟨good_of_fields hg.good rfl rfl, ?_, hg.idle⟩
      have h1 := hg.depth
      have h2 : st.depth ≠ 0 := by simpa using hd
      simp only at h1 ⊢
      omega
  · split
    · exact Post.refl h
    · apply post_seq _ _ (post_withRng st _ h)
      intro h1 ne hne
      obtain ⟨rng, hr⟩ := withRng_ok hne
      have hnne : ne.name ≠ cs!"config" := by rw [evalAttributes_name ev st e ne rng hr]; exact hn
      apply post_seq
      · split
        · exact Post.refl h1
        · exact ih.processNodes _ _ h1 hk
      · intro h2 r _
        exact post_finishContainer ev _ _ _ h2 hnne

theorem genGroup_pstep (st : St ρ) e kids (h : GoodD M st) (hn : e.name ≠ cs!"config") (hk : kidsOkD M kids = true) :
    Post M st (Ctl.genGroup ev (fuel + 1) st e kids).1 := by
  unfold Ctl.genGroup
  apply post_seq _ _ (post_withRng st _ h)
  intro h1 ne _
  have hp := post_push (M := M) (withRng st (evalAttributes ev st e)).1 e h1
  have hbody : Post M ((withRng st (evalAttributes ev st e)).1.pushElement e)
      (match kids with
        | none => (((withRng st (evalAttributes ev st e)).1.pushElement e), (Except.ok ([Ev.empty (adapt ne)], none) : Res))
        | some ks =>
          seq (Ctl.processNodes ev fuel ((withRng st (evalAttributes ev st e)).1.pushElement e) ks) fun st r =>
            (st, .ok ([Ev.start (adapt ne)] ++ r.1 ++ [Ev.end_ ne.name], r.2))).1 := by
    split
    · exact Post.refl hp.good
    · apply post_seq _ _ (ih.processNodes _ _ hp.good hk)
      intro h2 r _
      exact Post.refl h2
  have hpp : Post M (withRng st (evalAttributes ev st e)).1 (popAfter _).1 :=
    hp.trans (hbody.trans (post_pop _ hbody.good))
  apply post_seq (popAfter _) _ hpp
  intro h3 r _
  exact post_groupFinish ev _ e r h3 hn

theorem loopIter_pstep (st : St ρ) ks c w u n v s i acc bb (h : GoodD M st) (hk : nodesOkD M ks = true) :
    Post M st (Ctl.loopIter ev (fuel + 1) st ks c w u n v s i acc bb).1 := by
  unfold Ctl.loopIter
  apply post_seq _ _ (post_preTest ev st c w i h)
  intro h1 go _
  split
  · exact Post.refl h1
  · have hb := post_bindLoopVar (M := M) (preTest ev st c w i).1 n v h1
    apply post_seq _ _ (hb.trans (ih.processNodes _ _ hb.good hk))
    intro h2 r _
    split
    · exact Post.refl h2
    · apply post_seq _ _ (post_postTest ev _ u h2)
      intro h3 stop _
      split
      · exact Post.refl h3
      · exact ih.loopIter _ _ _ _ _ _ _ _ _ _ _ h3 hk

theorem genLoop_pstep (st : St ρ) e kids (h : GoodD M st) (hk : kidsOkD M kids = true) :
    Post M st (Ctl.genLoop ev (fuel + 1) st e kids).1 := by
  unfold Ctl.genLoop
  dsimp only
  split
  · split
    · exact Post.refl h
    · rename_i cnt name start step rng _
      have h0 : Post M st { st with rng := rng } := post_of_fields h rfl rfl rfl rfl
      exact h0.trans (ih.loopIter _ _ _ _ _ _ _ _ _ _ _ h0.good hk)
  all_goals exact Post.refl h

theorem forIter_pstep (st : St ρ) ks v iv items idx acc bb (h : GoodD M st) (hk : nodesOkD M ks = true) :
    Post M st (Ctl.forIter ev (fuel + 1) st ks v iv items idx acc bb).1 := by
  cases items with
  | nil => unfold Ctl.forIter; exact Post.refl h
  | cons item items =>
    unfold Ctl.forIter
    have hb := post_bindForVars (M := M) st v iv item idx h
    apply post_seq _ _ (hb.trans (ih.processNodes _ _ hb.good hk))
    intro h2 r _
    split
    · exact Post.refl h2
    · exact ih.forIter _ _ _ _ _ _ _ _ h2 hk

theorem genFor_pstep (st : St ρ) e kids (h : GoodD M st) (hk : kidsOkD M kids = true) :
    Post M st (Ctl.genFor ev (fuel + 1) st e kids).1 := by
  unfold Ctl.genFor
  split
  · apply post_seq _ _ (post_withRng st _ h)
    intro h1 items _
    exact ih.forIter _ _ _ _ _ _ _ _ h1 hk
  all_goals exact Post.refl h

theorem genNode_pstep (st : St ρ) n (h : GoodD M st) (hn : nodeOkD M n = true) :
    Post M st (Ctl.genNode ev (fuel + 1) st n).1 := by
  cases n with
  | elem e kids tail =>
    unfold Ctl.genNode
    have := kidsOkD_of_nodeOkD hn
    apply post_seq _ _ (ih.genElem st (leafDefaults st e kids) kids h (elemOkA_leafDefaults st e kids h this.1)
      (kidsOkE_of_name this.2 (fun hd => by rw [leafDefaults_name] at hd; exact hd)))
    intro h1 r _
    exact Post.refl h1
  | comment c tail => unfold Ctl.genNode; exact Post.refl h
  | text t => unfold Ctl.genNode; exact Post.refl h
  | cdata c => unfold Ctl.genNode; exact Post.refl h

theorem onePass_pstep (st : St ρ) ts outs bb rem (h : GoodD M st) (hts : ∀ t ∈ ts, nodeOkD M t.node = true) :
    Post M st (Ctl.onePass ev (fuel + 1) st ts outs bb rem).1 := by
  cases ts with
  | nil => unfold Ctl.onePass; exact Post.refl h
  | cons t ts =>
    unfold Ctl.onePass
    have ht := hts t List.mem_cons_self
    have hts' : ∀ x ∈ ts, nodeOkD M x.node = true := fun x hx => hts x (List.mem_cons_of_mem _ hx)
    have hr := post_registerEarly ev st t.node h ht
    have hg := hr.trans (ih.genNode _ t.node hr.good ht)
    dsimp only
    split
    · split
      · exact hg
      · split
        · exact hg.trans (ih.onePass _ _ _ _ _ hg.good hts')
        · exact hg.trans (ih.onePass _ _ _ _ _ hg.good hts')
    · split
      · exact hg.trans (ih.onePass _ _ _ _ _ hg.good hts')
      · exact hg.trans (ih.onePass _ _ _ _ _ hg.good hts')

theorem retry_pstep (st : St ρ) ts outs bb (h : GoodD M st) (hts : ∀ t ∈ ts, nodeOkD M t.node = true) :
    Post M st (Ctl.retry ev (fuel + 1) st ts outs bb).1 := by
  cases ts with
  | nil => unfold Ctl.retry; exact Post.refl h
  | cons t ts =>
    unfold Ctl.retry
    apply post_seq _ _ (ih.onePass st _ _ _ _ h hts)
    intro h1 r hr
    have hrem : ∀ x ∈ r.2.2, nodeOkD M x.node = true := by
      have := onePass_rem ev (fun n => nodeOkD M n = true) fuel (t :: ts) st outs bb [] _ r.1 r.2.1 r.2.2
        (Prod.ext rfl hr) hts (by simp)
      exact this.2
    split
    · exact Post.refl h1
    · split
      · split
        · exact Post.refl h1
        · split
          · exact ⟨good_of_fields h1 rfl rfl, rfl, Nat.le_succ _⟩
          · have h2 : Post M (Ctl.onePass ev fuel st (t :: ts) outs bb []).1
                { (Ctl.onePass ev fuel st (t :: ts) outs bb []).1 with
                  idlePasses := (Ctl.onePass ev fuel st (t :: ts) outs bb []).1.idlePasses + 1 } :=
              ⟨good_of_fields h1 rfl rfl, rfl, Nat.le_succ _⟩
            exact h2.trans (ih.retry _ _ _ _ h2.good hrem)
      · exact ih.retry _ _ _ _ h1 hrem

theorem processNodes_pstep (st : St ρ) ks (h : GoodD M st) (hk : nodesOkD M ks = true) :
    Post M st (Ctl.processNodes ev (fuel + 1) st ks).1 := by
  unfold Ctl.processNodes
  apply post_seq _ _ (ih.retry st _ _ _ h (tags_ok ks hk))
  intro h1 r _
  exact Post.refl h1

end step

/-- **`Post`, all functions, all fuel, every outcome**: limits stay at most `M`, no `<config>` among the templates,
    the depth counter is restored, the idle-pass counter never decreases -/
theorem allPost (ev : Evalr ρ) (M : Nat) : ∀ fuel, AllPost ev M fuel
  | 0 => allPost_zero ev M
  | fuel + 1 =>
    let ih := allPost ev M fuel
    { genElem := genElem_pstep ev M fuel ih
      dispatch := dispatch_pstep ev M fuel ih
      genSpecs := genSpecs_pstep ev M fuel ih
      genReuse := genReuse_pstep ev M fuel ih
      genIf := genIf_pstep ev M fuel ih
      genContainer := genContainer_pstep ev M fuel ih
      genGroup := genGroup_pstep ev M fuel ih
      genLoop := genLoop_pstep ev M fuel ih
      loopIter := loopIter_pstep ev M fuel ih
      genFor := genFor_pstep ev M fuel ih
      forIter := forIter_pstep ev M fuel ih
      genNode := genNode_pstep ev M fuel ih
      onePass := onePass_pstep ev M fuel ih
      retry := retry_pstep ev M fuel ih
      processNodes := processNodes_pstep ev M fuel ih }

/-! ## (3) convergence: a fuel-indexed computation that settles on a value other than the fuel error -/

/-- from some fuel `F` on the value is constant and is not the fuel error -/
def Conv {α : Type} (X : Nat → St ρ × Except CErr α) : Prop := ∃ F, NF (X F) ∧ ∀ f, F ≤ f → X f = X F

theorem conv_const {α : Type} (x : St ρ × Except CErr α) (h : NF x) : Conv (fun _ => x) := ⟨0, h, fun _ _ => rfl⟩

/-- a function whose body at fuel `f + 1` is `B f` -/
theorem conv_succ {α : Type} {X B : Nat → St ρ × Except CErr α} (h : ∀ f, X (f + 1) = B f) (hb : Conv B) : Conv X := by
  obtain ⟨F, nf, stab⟩ := hb
  refine ⟨F + 1, by rw [h]; exact nf, fun f hf => ?_⟩
  obtain ⟨f0, rfl⟩ : ∃ f0, f = f0 + 1 := ⟨f - 1, by omega⟩
  rw [h, h, stab f0 (by omega)]

/-- it is enough to look at fuels from `F` on -/
theorem conv_after {α : Type} {Y : Nat → St ρ × Except CErr α} (F : Nat) (h : Conv (fun f => Y (F + f))) : Conv Y := by
  obtain ⟨F', nf, stab⟩ := h
  refine ⟨F + F', nf, fun f hf => ?_⟩
  obtain ⟨d, rfl⟩ : ∃ d, f = F + d := ⟨f - F, by omega⟩
  exact stab d (by omega)

theorem conv_shift {α : Type} {Y : Nat → St ρ × Except CErr α} (F : Nat) (h : Conv Y) : Conv (fun f => Y (F + f)) := by
  obtain ⟨F', nf, stab⟩ := h
  refine ⟨F', ?_, fun f hf => ?_⟩
  · show NF (Y (F + F')); rw [stab _ (by omega)]; exact nf
  · show Y (F + f) = Y (F + F'); rw [stab _ (by omega), stab (F + F') (by omega)]

theorem conv_seq {α β : Type} {X : Nat → St ρ × Except CErr α} {G : Nat → St ρ → α → St ρ × Except CErr β}
    (hx : Conv X) (hg : ∀ F a, (X F).2 = .ok a → Conv (fun f => G f (X F).1 a)) :
    Conv (fun f => seq (X f) (G f)) := by
  obtain ⟨F, nf, stab⟩ := hx
  cases hxe : (X F).2 with
  | error e =>
    refine ⟨F, ?_, fun f hf => ?_⟩
    · show NF (seq (X F) (G F))
      unfold seq; rw [hxe]; intro hc; apply nf; rw [hxe]; simpa using hc
    · show seq (X f) (G f) = seq (X F) (G F)
      rw [stab f hf]; unfold seq; rw [hxe]
  | ok a =>
    obtain ⟨F2, nf2, stab2⟩ := hg F a hxe
    beta_reduce at nf2 stab2
    refine ⟨F + F2, ?_, fun f hf => ?_⟩
    · show NF (seq (X (F + F2)) (G (F + F2)))
      rw [stab _ (by omega)]; unfold seq; rw [hxe]
      show NF (G (F + F2) (X F).1 a)
      rw [stab2 (F + F2) (by omega)]; exact nf2
    · show seq (X f) (G f) = seq (X (F + F2)) (G (F + F2))
      rw [stab f (by omega), stab (F + F2) (by omega)]; unfold seq; rw [hxe]
      show G f (X F).1 a = G (F + F2) (X F).1 a
      rw [stab2 f (by omega), stab2 (F + F2) (by omega)]

theorem conv_map {α β : Type} {X : Nat → St ρ × Except CErr α} (g : St ρ × Except CErr α → St ρ × Except CErr β)
    (hg : ∀ x, NF x → NF (g x)) (hx : Conv X) : Conv (fun f => g (X f)) := by
  obtain ⟨F, nf, stab⟩ := hx
  exact ⟨F, hg _ nf, fun f hf => by show g (X f) = g (X F); rw [stab f hf]⟩

theorem conv_ite {α : Type} {c : Prop} [Decidable c] {A B : Nat → St ρ × Except CErr α}
    (ha : c → Conv A) (hb : ¬c → Conv B) : Conv (fun f => if c then A f else B f) := by
  by_cases h : c
  · simp only [h, if_true]; exact ha h
  · simp only [h, if_false]; exact hb h

theorem Conv.exists {α : Type} {X : Nat → St ρ × Except CErr α} (h : Conv X) : ∃ f, (X f).2 ≠ .error .fuel :=
  let ⟨F, nf, _⟩ := h; ⟨F, nf⟩

/-! ### results that are never the fuel error -/

theorem nf_ok {α : Type} (s : St ρ) (a : α) : NF (s, (.ok a : Except CErr α)) := by simp [NF]

theorem nf_withRng {α : Type} (st : St ρ) (r : Except Err (α × ρ)) : NF (withRng st r) := by
  unfold withRng; split <;> simp [NF]

theorem nf_preTest (ev : Evalr ρ) (st : St ρ) c w i : NF (preTest ev st c w i) := by
  unfold preTest; split
  · simp [NF]
  · exact nf_withRng _ _
  · simp [NF]

theorem nf_postTest (ev : Evalr ρ) (st : St ρ) u : NF (postTest ev st u) := by
  unfold postTest; split
  · exact nf_withRng _ _
  · simp [NF]

theorem loopHead_nf (ev : Evalr ρ) (st : St ρ) (e : Elem) (er : CErr) (h : loopHead ev st e = .error er) :
    er ≠ .fuel := by
  unfold loopHead at h
  simp only [bind, Except.bind, pure, Except.pure] at h
  split at h
  · rename_i hq
    cases h
    repeat' (split at hq)
    all_goals (first | (cases hq; simp) | (simp at hq))
  · repeat' (split at h)
    all_goals (first | (cases h; simp) | (simp at h))

theorem nf_err {α : Type} (s : St ρ) {er : CErr} (h : er ≠ .fuel) : NF (s, (.error er : Except CErr α)) := by
  simpa [NF] using h

theorem nf_seq {α β : Type} {x : St ρ × Except CErr α} {g : St ρ → α → St ρ × Except CErr β}
    (hx : NF x) (hg : ∀ a, x.2 = .ok a → NF (g x.1 a)) : NF (seq x g) := by
  unfold seq
  split
  · rename_i e he
    intro hc
    apply hx
    rw [he]
    simpa using hc
  · rename_i a ha
    exact hg a ha

theorem foldlM_nf {α β : Type} (f : α → β → Except CErr α) (hf : ∀ a b er, f a b = .error er → er ≠ .fuel) :
    ∀ (l : List β) (a : α) (er : CErr), l.foldlM f a = .error er → er ≠ .fuel := by
  intro l
  induction l with
  | nil => intro a er h; simp [List.foldlM, pure, Except.pure] at h
  | cons x xs ih =>
    intro a er h
    simp only [List.foldlM, bind, Except.bind] at h
    split at h
    · rename_i e' he'
      cases h
      exact hf _ _ _ he'
    · exact ih _ _ h

theorem applyConfig_nf (c : Cfg) (e : Elem) (er : CErr) (h : applyConfig c e = .error er) : er ≠ .fuel := by
  unfold applyConfig at h
  refine foldlM_nf _ ?_ _ _ _ h
  intro a b er' h'
  dsimp only at h'
  repeat' (split at h')
  all_goals (first | (cases h'; simp) | (simp at h'))

theorem nf_genVar (ev : Evalr ρ) (st : St ρ) (e : Elem) : NF (genVar ev st e) := by
  unfold genVar
  dsimp only
  split
  · rename_i er her
    refine nf_err _ (foldlM_nf _ ?_ _ _ _ her)
    intro a b er' h'
    repeat' (split at h')
    all_goals (first | (cases h'; simp) | (simp [pure, Except.pure] at h'))
  · exact nf_ok _ _

theorem shapeEvents_nf (e : Elem) (er : CErr) (h : shapeEvents e = .error er) : er ≠ .fuel := by
  unfold shapeEvents at h
  dsimp only at h
  repeat' (split at h)
  all_goals (first | (cases h; simp) | (simp at h))

theorem nf_elementEvents (ev : Evalr ρ) (st : St ρ) (e : Elem) : NF (elementEvents ev st e) := by
  unfold elementEvents
  refine nf_seq ?_ ?_
  · unfold commentEvents
    repeat' split
    all_goals simp [NF]
  · intro evs1 _
    cases hs : shapeEvents e with
    | error er => exact nf_err _ (shapeEvents_nf e er hs)
    | ok v => exact nf_ok _ _

theorem nf_genOther (ev : Evalr ρ) (st : St ρ) (e : Elem) : NF (genOther ev st e) := by
  unfold genOther
  refine nf_seq (nf_withRng _ _) ?_
  intro e' _
  dsimp only
  split
  · simp [NF]
  · refine nf_seq (nf_elementEvents _ _ _) ?_
    intro evs _
    exact nf_ok _ _

theorem nf_reusePrepare (ev : Evalr ρ) (st : St ρ) (re : Elem) : NF (reusePrepare ev st re) := by
  unfold reusePrepare
  split
  · simp [NF]
  · split
    · simp [NF]
    · simp [NF]
    · split
      · simp [NF]
      · refine nf_seq (nf_withRng _ _) ?_
        intro inst1 _
        split
        · simp [NF]
        · dsimp only
          split
          · simp [NF]
          · simp [NF]

theorem nf_clipPost (ev : Evalr ρ) (e : Elem) (x : St ρ × Res) (h : NF x) : NF (clipPost ev e x) := by
  unfold clipPost
  repeat' split
  all_goals (first | exact h | simp [NF])

theorem nf_groupFinish (ev : Evalr ρ) (st : St ρ) (e : Elem) r : NF (groupFinish ev st e r) := by
  unfold groupFinish
  dsimp only
  split
  · simp [NF]
  · split <;> simp [NF]

/-! ## (4) termination, level by level (`k` = how far the depth counter is from `M`) -/

def TermN (ev : Evalr ρ) (M k : Nat) : Prop :=
  ∀ (st : St ρ) ks, GoodD M st → M ≤ st.depth + k → nodesOkD M ks = true → Conv (fun f => processNodes ev f st ks)

def TermE (ev : Evalr ρ) (M k : Nat) : Prop :=
  ∀ (st : St ρ) e kids, GoodD M st → M ≤ st.depth + k → elemOkA M e = true → kidsOkE M e kids = true →
    Conv (fun f => genElem ev f st e kids)

/-- `genElem` for an element without content (what the text shorthand of `genContainer` re-enters) -/
def TermE0 (ev : Evalr ρ) (M k : Nat) : Prop :=
  ∀ (st : St ρ) e, GoodD M st → M ≤ st.depth + k → elemOkA M e = true → Conv (fun f => genElem ev f st e none)

section level
variable (ev : Evalr ρ) (M k : Nat) (HN : TermN ev M k)
include HN

theorem loopIter_body (ks : Nodes) (hk : nodesOkD M ks = true) c w u n s (i : Nat)
    (IH : i + 1 ≤ M → ∀ (st : St ρ) v acc bb, GoodD M st → M ≤ st.depth + k →
      Conv (fun f => loopIter ev f st ks c w u n v s (i + 1) acc bb))
    (st : St ρ) v acc bb (hg : GoodD M st) (hl : M ≤ st.depth + k) :
    Conv (fun f => loopIter ev f st ks c w u n v s i acc bb) := by
  refine conv_succ (fun f => by rw [Ctl.loopIter]) ?_
  refine conv_seq (conv_const _ (nf_preTest ev st c w i)) ?_
  intro _ go _
  have h1 := post_preTest (M := M) ev st c w i hg
  refine conv_ite (fun _ => conv_const _ (nf_ok _ _)) (fun _ => ?_)
  have hb := h1.trans (post_bindLoopVar (M := M) (preTest ev st c w i).1 n v h1.good)
  refine conv_seq (HN _ ks hb.good (by rw [hb.depth]; exact hl) hk) ?_
  intro F2 r _
  have hp := hb.trans ((allPost ev M F2).processNodes _ ks hb.good hk)
  refine conv_ite (fun _ => conv_const _ (by simp [NF])) (fun hlim => ?_)
  refine conv_seq (conv_const _ (nf_postTest ev _ u)) ?_
  intro _ stop _
  have hq := hp.trans (post_postTest (M := M) ev _ u hp.good)
  refine conv_ite (fun _ => conv_const _ (nf_ok _ _)) (fun _ => ?_)
  refine IH ?_ _ _ _ _ hq.good (by rw [hq.depth]; exact hl)
  have := hp.good.loopLimit
  omega

theorem loopIter_term (ks : Nodes) (hk : nodesOkD M ks = true) c w u n s :
    ∀ (d i : Nat) (st : St ρ) v acc bb, M + 1 ≤ i + d → GoodD M st → M ≤ st.depth + k →
      Conv (fun f => loopIter ev f st ks c w u n v s i acc bb) := by
  intro d
  induction d with
  | zero =>
    intro i st v acc bb hd hg hl
    exact loopIter_body ev M k HN ks hk c w u n s i (fun h => by omega) st v acc bb hg hl
  | succ d ih =>
    intro i st v acc bb hd hg hl
    exact loopIter_body ev M k HN ks hk c w u n s i
      (fun _ st v acc bb hg hl => ih (i + 1) st v acc bb (by omega) hg hl) st v acc bb hg hl

theorem genLoop_term (st : St ρ) e kids (hg : GoodD M st) (hl : M ≤ st.depth + k) (hk : kidsOkD M kids = true) :
    Conv (fun f => genLoop ev f st e kids) := by
  refine conv_succ (fun f => by unfold Ctl.genLoop; rfl) ?_
  dsimp only
  split
  · split
    · rename_i er her
      exact conv_const _ (nf_err _ (loopHead_nf ev st e er her))
    · rename_i ks _ _ cnt name start step rng _
      exact loopIter_term ev M k HN ks hk _ _ _ _ _ (M + 1) 0 _ _ _ _ (by omega) (good_of_fields hg rfl rfl) hl
  all_goals exact conv_const _ (nf_ok _ _)

theorem forIter_term (ks : Nodes) (hk : nodesOkD M ks = true) v iv :
    ∀ (items : List Str) (st : St ρ) idx acc bb, GoodD M st → M ≤ st.depth + k →
      Conv (fun f => forIter ev f st ks v iv items idx acc bb) := by
  intro items
  induction items with
  | nil =>
    intro st idx acc bb _ _
    exact conv_succ (B := fun _ => (st, .ok (acc, bb))) (fun f => by rw [Ctl.forIter]) (conv_const _ (nf_ok _ _))
  | cons item items ih =>
    intro st idx acc bb hg hl
    refine conv_succ (fun f => by rw [Ctl.forIter]) ?_
    have hb := post_bindForVars (M := M) st v iv item idx hg
    refine conv_seq (HN _ ks hb.good (by rw [hb.depth]; exact hl) hk) ?_
    intro F2 r _
    have hp := hb.trans ((allPost ev M F2).processNodes _ ks hb.good hk)
    refine conv_ite (fun _ => conv_const _ (by simp [NF])) (fun _ => ?_)
    exact ih _ _ _ _ hp.good (by rw [hp.depth]; exact hl)

theorem genFor_term (st : St ρ) e kids (hg : GoodD M st) (hl : M ≤ st.depth + k) (hk : kidsOkD M kids = true) :
    Conv (fun f => genFor ev f st e kids) := by
  refine conv_succ (fun f => by unfold Ctl.genFor; rfl) ?_
  split
  · refine conv_seq (conv_const _ (nf_withRng _ _)) ?_
    intro _ items _
    have h1 := post_withRng (M := M) st (ev.evalList st.geo st.env st.rng ‹_›) hg
    exact forIter_term ev M k HN _ hk _ _ items _ _ _ _ h1.good (by rw [h1.depth]; exact hl)
  all_goals exact conv_const _ (by simp [NF])

theorem genIf_term (st : St ρ) e kids (hg : GoodD M st) (hl : M ≤ st.depth + k) (hk : kidsOkD M kids = true) :
    Conv (fun f => genIf ev f st e kids) := by
  refine conv_succ (fun f => by rw [Ctl.genIf]) ?_
  split
  · exact conv_const _ (by simp [NF])
  · split
    · refine conv_seq (conv_const _ (nf_withRng _ _)) ?_
      intro _ b _
      have h1 := post_withRng (M := M) st (ev.evalCondition st.geo st.env st.rng ‹_›) hg
      refine conv_ite (fun _ => ?_) (fun _ => conv_const _ (nf_ok _ _))
      exact HN _ _ h1.good (by rw [h1.depth]; exact hl) hk
    · exact conv_const _ (nf_ok _ _)

theorem genSpecs_term (st : St ρ) kids (hg : GoodD M st) (hl : M ≤ st.depth + k) (hk : kidsOkD M kids = true) :
    Conv (fun f => genSpecs ev f st kids) := by
  refine conv_succ (fun f => by unfold Ctl.genSpecs; rfl) ?_
  refine conv_ite (fun _ => conv_const _ (by simp [NF])) (fun _ => ?_)
  split
  · rename_i ks
    have := HN { st with inSpecs := true } ks (good_of_fields hg rfl rfl) hl hk
    refine conv_map (fun (r : St ρ × Res) => (({ r.1 with inSpecs := false },
        match r.2 with
        | .ok _ => .ok ([], none)
        | .error er => .error er) : St ρ × Res)) ?_ this
    intro x hx
    unfold NF at hx ⊢
    dsimp only
    split
    · simp
    · rename_i er her
      rw [her] at hx
      exact hx
  · exact conv_const _ (nf_ok _ _)

theorem genGroup_term (st : St ρ) e kids (hg : GoodD M st) (hl : M ≤ st.depth + k)
    (hk : kidsOkD M kids = true) : Conv (fun f => genGroup ev f st e kids) := by
  refine conv_succ (fun f => by rw [Ctl.genGroup]) ?_
  refine conv_seq (conv_const _ (nf_withRng _ _)) ?_
  intro _ ne _
  have h1 := post_withRng (M := M) st (evalAttributes ev st e) hg
  have hp := h1.trans (post_push (M := M) _ e h1.good)
  refine conv_seq ?_ ?_
  · refine conv_map popAfter (fun x hx => hx) ?_
    split
    · exact conv_const _ (nf_ok _ _)
    · refine conv_seq (HN _ _ hp.good (by rw [hp.depth]; exact hl) hk) ?_
      intro _ r _
      exact conv_const _ (nf_ok _ _)
  · intro _ r _
    exact conv_const _ (nf_groupFinish ev _ e r)

theorem genReuse_term (HE0 : TermE0 ev M k) (st : St ρ) e (hg : GoodD M st) (hl : M ≤ st.depth + k)
    (hn : e.name ≠ cs!"config") : Conv (fun f => genReuse ev f st e) := by
  refine conv_succ (fun f => by rw [Ctl.genReuse]) ?_
  refine conv_seq (conv_const _ (nf_withRng _ _)) ?_
  intro _ re hre
  obtain ⟨rng, hr⟩ := withRng_ok hre
  have hnre : re.name ≠ cs!"config" := by rw [evalAttributes_name ev st e re rng hr]; exact hn
  have h1 := post_withRng (M := M) st (evalAttributes ev st e) hg
  have hp := h1.trans (post_push (M := M) _ re h1.good)
  have hprep := post_reusePrepare ev _ re hp.good hnre
  refine conv_map popAfter (fun x hx => hx) ?_
  refine conv_seq (conv_const _ (nf_reusePrepare _ _ _)) ?_
  intro _ ik hik
  have hik' := hprep.2 ik hik
  have hq := hp.trans hprep.1
  split
  · rename_i ks hks
    refine HN _ _ hq.good (by rw [hq.depth]; exact hl) ?_
    have hE := hik'.2
    rw [hks] at hE
    simp only [kidsOkE, kidsOkD, Bool.and_eq_true] at hE
    simp only [nodesOkD, nodeOkD, elemOk_of_nc hik'.1, hE.1, hE.2, Bool.and_self]
  · exact HE0 _ _ hq.good (by rw [hq.depth]; exact hl) (elemOkA_of_nc hik'.1)

theorem genContainer_term (HEup : TermE0 ev M (k + 1)) (st : St ρ) e ks (hg : GoodD M st) (hl : M ≤ st.depth + k)
    (hn : e.name ≠ cs!"config") (hk : nodesOkD M ks = true) : Conv (fun f => genContainer ev f st e ks) := by
  refine conv_succ (fun f => by unfold Ctl.genContainer; rfl) ?_
  split
  · refine conv_ite (fun _ => conv_const _ (by simp [NF])) (fun hd => ?_)
    have hd' : st.depth ≠ 0 := by simpa using hd
    have h1 : GoodD M { st with depth := st.depth - 1 } := good_of_fields hg rfl rfl
    have := HEup { st with depth := st.depth - 1 } (e.setAttr cs!"text" ‹_›) h1 (by simp only; omega)
      (elemOkA_of_nc (by rw [setAttr_name]; exact hn))
    exact conv_map (fun r => ({ r.1 with depth := r.1.depth + 1 }, r.2)) (fun x hx => hx) this
  · refine conv_ite (fun _ => conv_const _ (nf_ok _ _)) (fun _ => ?_)
    refine conv_seq (conv_const _ (nf_withRng _ _)) ?_
    intro _ ne _
    have h1 := post_withRng (M := M) st (evalAttributes ev st e) hg
    refine conv_seq ?_ (fun _ r _ => conv_const _ (nf_ok _ _))
    refine conv_ite (fun _ => conv_const _ (nf_ok _ _)) (fun _ => ?_)
    exact HN _ _ h1.good (by rw [h1.depth]; exact hl) hk

theorem dispatch_term (HE0 : TermE0 ev M k) (st : St ρ) e kids (HC : kids = none ∨ TermE0 ev M (k + 1))
    (hg : GoodD M st) (hl : M ≤ st.depth + k) (hkE : kidsOkE M e kids = true) :
    Conv (fun f => dispatch ev f st e kids) := by
  have hk := kidsOkD_of_E hkE
  refine conv_succ (fun f => by unfold Ctl.dispatch; rfl) ?_
  dsimp only
  refine conv_ite (fun _ => genLoop_term ev M k HN st e kids hg hl hk) (fun _ => ?_)
  refine conv_ite (fun _ => ?_) (fun hnc => ?_)
  · split
    · exact conv_const _ (nf_ok _ _)
    · rename_i er her
      exact conv_const _ (nf_err _ (applyConfig_nf _ _ _ her))
  have hnc' : e.name ≠ cs!"config" := by simpa using hnc
  refine conv_ite (fun _ => genReuse_term ev M k HN HE0 st e hg hl hnc') (fun _ => ?_)
  refine conv_ite (fun _ => genSpecs_term ev M k HN st kids hg hl hk) (fun _ => ?_)
  refine conv_ite (fun _ => conv_const _ (nf_genVar _ _ _)) (fun _ => ?_)
  refine conv_ite (fun _ => genIf_term ev M k HN st e kids hg hl hk) (fun _ => ?_)
  refine conv_ite (fun _ => conv_const _ (nf_ok _ _)) (fun _ => ?_)
  refine conv_ite (fun _ => genFor_term ev M k HN st e kids hg hl hk) (fun _ => ?_)
  refine conv_ite (fun _ => genGroup_term ev M k HN st e kids hg hl hk) (fun _ => ?_)
  cases kids with
  | none => exact conv_const _ (nf_genOther _ _ _)
  | some ks =>
    rcases HC with HC | HC
    · cases HC
    · exact genContainer_term ev M k HN HC st e ks hg hl hnc' hk

end level

section level2
variable (ev : Evalr ρ) (M k : Nat)

theorem genElem_term (st : St ρ) e kids
    (hD : ¬(st.depth + 1 > st.cfg.depthLimit) → Conv (fun f => dispatch ev f { st with depth := st.depth + 1 } e kids)) :
    Conv (fun f => genElem ev f st e kids) := by
  refine conv_succ (fun f => by rw [Ctl.genElem]) ?_
  refine conv_ite (fun _ => conv_const _ (by simp [NF])) (fun h => ?_)
  exact conv_map (fun r => clipPost ev e ({ r.1 with depth := r.1.depth - 1 }, r.2))
    (fun x hx => nf_clipPost _ _ _ hx) (hD h)

variable (HE : TermE ev M k)
include HE

theorem genNode_term (st : St ρ) n (hg : GoodD M st) (hl : M ≤ st.depth + k) (hn : nodeOkD M n = true) :
    Conv (fun f => genNode ev f st n) := by
  cases n with
  | elem e kids tail =>
    have := kidsOkD_of_nodeOkD hn
    refine conv_succ (fun f => by rw [Ctl.genNode]) ?_
    exact conv_seq (HE st (leafDefaults st e kids) kids hg hl (elemOkA_leafDefaults st e kids hg this.1)
      (kidsOkE_of_name this.2 (fun hd => by rw [leafDefaults_name] at hd; exact hd)))
      (fun _ r _ => conv_const _ (nf_ok _ _))
  | comment c tail =>
    exact conv_succ (B := fun _ => (st, .ok ([Ev.comment c] ++ tailEvs tail, none))) (fun f => by rw [Ctl.genNode])
      (conv_const _ (nf_ok _ _))
  | text t =>
    exact conv_succ (B := fun _ => (st, .ok ([Ev.text t], none))) (fun f => by rw [Ctl.genNode]) (conv_const _ (nf_ok _ _))
  | cdata c =>
    exact conv_succ (B := fun _ => (st, .ok ([Ev.cdata c], none))) (fun f => by rw [Ctl.genNode]) (conv_const _ (nf_ok _ _))

theorem onePass_term : ∀ (ts : List Tag) (st : St ρ) outs bb rem, GoodD M st → M ≤ st.depth + k →
    (∀ t ∈ ts, nodeOkD M t.node = true) → Conv (fun f => onePass ev f st ts outs bb rem) := by
  intro ts
  induction ts with
  | nil =>
    intro st outs bb rem _ _ _
    exact conv_succ (B := fun _ => (st, .ok (outs, bb, rem.reverse))) (fun f => by rw [Ctl.onePass])
      (conv_const _ (nf_ok _ _))
  | cons t ts ih =>
    intro st outs bb rem hg hl hts
    have ht := hts t List.mem_cons_self
    have hts' : ∀ x ∈ ts, nodeOkD M x.node = true := fun x hx => hts x (List.mem_cons_of_mem _ hx)
    refine conv_succ (fun f => by rw [Ctl.onePass]) ?_
    have hr := post_registerEarly ev st t.node hg ht
    obtain ⟨F, nf, stab⟩ := genNode_term ev M k HE (registerEarly ev st t.node) t.node hr.good
      (by rw [hr.depth]; exact hl) ht
    beta_reduce at nf stab
    refine conv_after F ?_
    have hs : ∀ f, genNode ev (F + f) (registerEarly ev st t.node) t.node
        = genNode ev F (registerEarly ev st t.node) t.node := fun f => stab _ (by omega)
    simp only [hs]
    have hp := hr.trans ((allPost ev M F).genNode _ _ hr.good ht)
    generalize genNode ev F (registerEarly ev st t.node) t.node = r at nf hp
    have hl' : M ≤ r.1.depth + k := by rw [hp.depth]; exact hl
    split
    · rename_i er her
      refine conv_ite (fun _ => conv_const _ ?_) (fun _ => ?_)
      · unfold NF at nf ⊢
        rw [her] at nf
        intro h
        have : er = .fuel := by simpa using h
        exact nf (by rw [this])
      · refine conv_ite (fun _ => ?_) (fun _ => ?_)
        · exact conv_shift F (ih _ _ _ _ hp.good hl' hts')
        · exact conv_shift F (ih _ _ _ _ hp.good hl' hts')
    · refine conv_ite (fun _ => ?_) (fun _ => ?_)
      · exact conv_shift F (ih _ _ _ _ hp.good hl' hts')
      · exact conv_shift F (ih _ _ _ _ hp.good hl' hts')

theorem retry_term : ∀ (n : Nat) (ts : List Tag) (st : St ρ) outs bb, ts.length + (M + 1 - st.idlePasses) ≤ n →
    GoodD M st → M ≤ st.depth + k → (∀ t ∈ ts, nodeOkD M t.node = true) → Conv (fun f => retry ev f st ts outs bb) := by
  intro n
  induction n with
  | zero =>
    intro ts st outs bb hn hg hl hts
    cases ts with
    | nil =>
      exact conv_succ (B := fun _ => (st, .ok (outs, bb))) (fun f => by rw [Ctl.retry]) (conv_const _ (nf_ok _ _))
    | cons t ts => simp only [List.length_cons] at hn; omega
  | succ n ih =>
    intro ts st outs bb hn hg hl hts
    cases ts with
    | nil =>
      exact conv_succ (B := fun _ => (st, .ok (outs, bb))) (fun f => by rw [Ctl.retry]) (conv_const _ (nf_ok _ _))
    | cons t ts =>
      refine conv_succ (fun f => by rw [Ctl.retry]) ?_
      refine conv_seq (onePass_term ev M k HE (t :: ts) st outs bb [] hg hl hts) ?_
      intro F r hr
      have hp := (allPost ev M F).onePass st (t :: ts) outs bb [] hg hts
      have hrem := onePass_rem ev (fun n => nodeOkD M n = true) F (t :: ts) st outs bb [] _ r.1 r.2.1 r.2.2
        (Prod.ext rfl hr) hts (by simp)
      have hl' : M ≤ (onePass ev F st (t :: ts) outs bb []).1.depth + k := by rw [hp.depth]; exact hl
      have hidle := hp.idle
      have hlen := hrem.1
      simp only [List.length_cons, List.length_nil, Nat.add_zero] at hlen hn
      refine conv_ite (fun _ => conv_const _ (by simp [NF])) (fun _ => ?_)
      refine conv_ite (fun hlen2 => ?_) (fun hlen2 => ?_)
      · refine conv_ite (fun _ => conv_const _ (by simp [NF])) (fun _ => ?_)
        refine conv_ite (fun _ => conv_const _ (by simp [NF])) (fun hlim => ?_)
        have hll := hp.good.loopLimit
        refine ih _ _ _ _ ?_ (good_of_fields hp.good rfl rfl) hl' hrem.2
        simp only [beq_iff_eq, List.length_cons] at hlen2
        simp only
        omega
      · refine ih _ _ _ _ ?_ hp.good hl' hrem.2
        simp only [beq_iff_eq, List.length_cons] at hlen2
        omega

theorem processNodes_term : TermN ev M k := by
  intro st ks hg hl hk
  refine conv_succ (fun f => by rw [Ctl.processNodes]) ?_
  refine conv_seq (retry_term ev M k HE _ _ st [] none (Nat.le_refl _) hg hl (tags_ok ks hk)) ?_
  intro _ r _
  exact conv_const _ (nf_ok _ _)

end level2

/-- **termination at every level** -/
theorem term_all (ev : Evalr ρ) (M : Nat) : ∀ k, TermE ev M k ∧ TermN ev M k := by
  intro k
  induction k with
  | zero =>
    have hE : TermE ev M 0 := by
      intro st e kids hg hl _ _
      refine genElem_term ev st e kids (fun h => ?_)
      have := hg.depthLimit
      omega
    exact ⟨hE, processNodes_term ev M 0 hE⟩
  | succ k ih =>
    obtain ⟨ihE, ihN⟩ := ih
    have ihE0 : TermE0 ev M k := fun st e hg hl he => ihE st e none hg hl he rfl
    have hE0 : TermE0 ev M (k + 1) := by
      intro st e hg hl he
      refine genElem_term ev st e none (fun _ => ?_)
      exact dispatch_term ev M k ihN ihE0 _ e none (Or.inl rfl) (good_of_fields hg rfl rfl) (by simp only; omega) rfl
    have hE : TermE ev M (k + 1) := by
      intro st e kids hg hl he hk
      refine genElem_term ev st e kids (fun _ => ?_)
      exact dispatch_term ev M k ihN ihE0 _ e kids (Or.inr hE0) (good_of_fields hg rfl rfl) (by simp only; omega) hk
    exact ⟨hE, processNodes_term ev M (k + 1) hE⟩

/-! ## (4b) every document and state are `…D` for some larger `M` -/

/-- what a `loop-limit` / `depth-limit` attribute with this value would set -/
def attrBound (kv : Str × Str) : Nat := if kv.2.all isDigit && !kv.2.isEmpty then digitsToNat kv.2 else 0

def listBound {α : Type} (f : α → Nat) (l : List α) : Nat := l.foldl (fun m x => max m (f x)) 0

theorem foldl_max_le {α : Type} (f : α → Nat) (l : List α) (init : Nat) :
    init ≤ l.foldl (fun m x => max m (f x)) init ∧ ∀ x ∈ l, f x ≤ l.foldl (fun m x => max m (f x)) init := by
  induction l generalizing init with
  | nil => exact ⟨Nat.le_refl _, fun x hx => by cases hx⟩
  | cons y ys ih =>
    rw [List.foldl_cons]
    have := ih (max init (f y))
    refine ⟨Nat.le_trans (Nat.le_max_left _ _) this.1, fun x hx => ?_⟩
    rcases List.mem_cons.mp hx with rfl | hx
    · exact Nat.le_trans (Nat.le_max_right _ _) this.1
    · exact this.2 x hx

theorem le_listBound {α : Type} (f : α → Nat) (l : List α) (x : α) (hx : x ∈ l) : f x ≤ listBound f l :=
  (foldl_max_le f l 0).2 x hx

def elemBound (e : Elem) : Nat := listBound attrBound e.attrs
def nodesBound (ks : Nodes) : Nat := listBound elemBound (subElemsNodes ks)
def kidsBound : Option Nodes → Nat
  | none => 0
  | some ks => nodesBound ks

/-- the largest literal in the content of a stored template or in a stored default -/
def stateBound (st : St ρ) : Nat :=
  max (listBound (fun (t : Str × Elem × Option Nodes) => kidsBound t.2.2) st.originals)
    (listBound (fun (s : Scope) => listBound (fun (d : ElementMatch × Elem) => elemBound d.2) s.defaults) st.scopes)

theorem cfgAttrOk_of_bound {M : Nat} (kv : Str × Str) (h : attrBound kv ≤ M) : cfgAttrOk M kv = true := by
  unfold cfgAttrOk
  unfold attrBound at h
  split
  · rfl
  · split
    · split
      · rename_i hd
        rw [if_pos hd] at h
        simpa using h
      · rfl
    · rfl

theorem attrs_all_of_bound {M : Nat} (e : Elem) (h : elemBound e ≤ M) : e.attrs.all (cfgAttrOk M) = true := by
  rw [List.all_eq_true]
  intro kv hkv
  exact cfgAttrOk_of_bound kv (Nat.le_trans (le_listBound attrBound e.attrs kv hkv) h)

theorem allAttrsOk_of_bound {M : Nat} (ks : Nodes) (h : nodesBound ks ≤ M) : allAttrsOk M ks = true := by
  unfold allAttrsOk
  rw [List.all_eq_true]
  intro e he
  exact attrs_all_of_bound e (Nat.le_trans (le_listBound elemBound _ e he) h)

theorem elemOk_of_bound {M M' : Nat} (e : Elem) (h : elemOk M e = true) (hb : e.attrs.all (cfgAttrOk M') = true) :
    elemOk M' e = true := by
  unfold elemOk at h ⊢
  split
  · rename_i hc
    simp only [hc, if_true, Bool.and_eq_true] at h
    simp only [Bool.and_eq_true]
    exact ⟨h.1, hb⟩
  · rfl

mutual
theorem nodeOkD_of_bound {M M' : Nat} : ∀ (n : Node), nodeOk M n = true →
    (∀ e ∈ subElemsNode n, e.attrs.all (cfgAttrOk M') = true) → nodeOkD M' n = true
  | .elem e none _, h, hb => by
    simp only [nodeOk] at h
    simp only [nodeOkD]
    exact elemOk_of_bound e h (hb e (by simp [subElemsNode]))
  | .elem e (some ks) _, h, hb => by
    simp only [nodeOk, Bool.and_eq_true] at h
    have hsub : ∀ x ∈ subElemsNodes ks, x.attrs.all (cfgAttrOk M') = true :=
      fun x hx => hb x (by simp [subElemsNode, hx])
    simp only [nodeOkD, Bool.and_eq_true]
    refine ⟨⟨elemOk_of_bound e h.1 (hb e (by simp [subElemsNode])), nodesOkD_of_bound ks h.2 hsub⟩, ?_⟩
    simp only [defKidsOk, Bool.or_eq_true]
    right
    unfold allAttrsOk attrsOk
    rw [List.all_eq_true]
    exact hsub
  | .comment _ _, _, _ => rfl
  | .text _, _, _ => rfl
  | .cdata _, _, _ => rfl
theorem nodesOkD_of_bound {M M' : Nat} : ∀ (ks : Nodes), nodesOk M ks = true →
    (∀ e ∈ subElemsNodes ks, e.attrs.all (cfgAttrOk M') = true) → nodesOkD M' ks = true
  | .nil, _, _ => rfl
  | .cons n r, h, hb => by
    simp only [nodesOk, Bool.and_eq_true] at h
    simp only [nodesOkD, Bool.and_eq_true]
    exact ⟨nodeOkD_of_bound n h.1 (fun e he => hb e (by simp [subElemsNodes, he])),
      nodesOkD_of_bound r h.2 (fun e he => hb e (by simp [subElemsNodes, he]))⟩
end

/-- a document that is `nodesOk M` is `nodesOkD M'` as soon as `M'` is at least every literal in it -/
theorem nodesOkD_of_nodesOk {M M' : Nat} (ks : Nodes) (h : nodesOk M ks = true) (hb : nodesBound ks ≤ M') :
    nodesOkD M' ks = true :=
  nodesOkD_of_bound ks h (fun e he => attrs_all_of_bound e (Nat.le_trans (le_listBound elemBound _ e he) hb))

/-- a state that is `Good M` is `GoodD M'` as soon as `M'` is at least `M` and every literal stored in it -/
theorem goodD_of_good {M M' : Nat} (st : St ρ) (h : Good M st) (hM : M ≤ M') (hb : stateBound st ≤ M') : GoodD M' st := by
  refine ⟨Nat.le_trans h.depthLimit hM, Nat.le_trans h.loopLimit hM, fun t ht => ⟨(h.tmpl t ht).1, ?_⟩, fun s hs d hd => ?_⟩
  · have hkb : kidsBound t.2.2 ≤ M' :=
      Nat.le_trans (le_listBound (fun (t : Str × Elem × Option Nodes) => kidsBound t.2.2) _ t ht)
        (Nat.le_trans (Nat.le_max_left _ _) hb)
    have hk := (h.tmpl t ht).2
    cases hkids : t.2.2 with
    | none => rfl
    | some ks =>
      rw [hkids] at hk hkb
      simp only [kidsOk] at hk
      simp only [kidsBound] at hkb
      simp only [kidsOkE, kidsOkD, defKidsOk, Bool.and_eq_true, Bool.or_eq_true]
      exact ⟨nodesOkD_of_nodesOk ks hk hkb, Or.inr (allAttrsOk_of_bound ks hkb)⟩
  · apply attrs_all_of_bound
    have h1 := le_listBound (fun (d : ElementMatch × Elem) => elemBound d.2) s.defaults d hd
    have h2 := le_listBound (fun (s : Scope) => listBound (fun (d : ElementMatch × Elem) => elemBound d.2) s.defaults)
      st.scopes s hs
    exact Nat.le_trans h1 (Nat.le_trans h2 (Nat.le_trans (Nat.le_max_right _ _) hb))

/-- **the hypotheses of the induction can always be met**: a `Good M` state and an `nodesOk M` document are
    `GoodD M'` / `nodesOkD M'` for `M'` = the maximum of `M` and the literals stored / written -/
theorem exists_D {M : Nat} (st : St ρ) (ks : Nodes) (hst : Good M st) (hks : nodesOk M ks = true) :
    ∃ M', M ≤ M' ∧ GoodD M' st ∧ nodesOkD M' ks = true :=
  ⟨max M (max (stateBound st) (nodesBound ks)), Nat.le_max_left _ _,
    goodD_of_good st hst (Nat.le_max_left _ _) (Nat.le_trans (Nat.le_max_left _ _) (Nat.le_max_right _ _)),
    nodesOkD_of_nodesOk ks hks (Nat.le_trans (Nat.le_max_right _ _) (Nat.le_max_right _ _))⟩

/-! ## (5) the theorems -/

/-- **TERMINATION (stable form)**: from some fuel on, `processNodes` returns one and the same (state, result), and
    that result is not the fuel error. Hypotheses: both limits of the state are at most `M`, no stored reuse template
    is a `<config>` element, every `<config>` written in the document (or inside a template) has no `id` and sets
    `loop-limit` / `depth-limit` to literals of at most `M`. (Without "a `<config>` is not a reuse template" the
    statement is FALSE: see `NonTermination` below.) -/
theorem processNodes_stable (ev : Evalr ρ) (M : Nat) (st : St ρ) (ks : Nodes) (hst : Good M st)
    (hks : nodesOk M ks = true) :
    ∃ F, (processNodes ev F st ks).2 ≠ .error .fuel ∧ ∀ f, F ≤ f → processNodes ev f st ks = processNodes ev F st ks := by
  obtain ⟨M', _, hst', hks'⟩ := exists_D st ks hst hks
  exact (term_all ev M' M').2 st ks hst' (Nat.le_add_left _ _) hks'

/-- the same from the hypotheses the induction runs on (stored defaults and `<defaults>` content bounded by `M` too) -/
theorem processNodes_stableD (ev : Evalr ρ) (M : Nat) (st : St ρ) (ks : Nodes) (hst : GoodD M st)
    (hks : nodesOkD M ks = true) :
    ∃ F, (processNodes ev F st ks).2 ≠ .error .fuel ∧ ∀ f, F ≤ f → processNodes ev f st ks = processNodes ev F st ks :=
  (term_all ev M M).2 st ks hst (Nat.le_add_left _ _) hks

/-- **TERMINATION**: enough fuel exists -/
theorem processNodes_terminates (ev : Evalr ρ) (M : Nat) (st : St ρ) (ks : Nodes) (hst : Good M st)
    (hks : nodesOk M ks = true) : ∃ f, (processNodes ev f st ks).2 ≠ .error .fuel :=
  let ⟨F, h, _⟩ := processNodes_stable ev M st ks hst hks; ⟨F, h⟩

theorem transformDoc_stable (ev : Evalr ρ) (M : Nat) (st : St ρ) (ks : Nodes) (hst : Good M st)
    (hks : nodesOk M ks = true) :
    ∃ F, (transformDoc ev F st ks).2.2 ≠ .error .fuel ∧ ∀ f, F ≤ f → transformDoc ev f st ks = transformDoc ev F st ks := by
  unfold transformDoc
  split
  · exact ⟨0, by simp, fun _ _ => rfl⟩
  · obtain ⟨F, h, hs⟩ := processNodes_stable ev M st ks hst hks
    exact ⟨F, h, fun f hf => by rw [hs f hf]⟩

theorem transformDoc_terminates (ev : Evalr ρ) (M : Nat) (st : St ρ) (ks : Nodes) (hst : Good M st)
    (hks : nodesOk M ks = true) : ∃ f, (transformDoc ev f st ks).2.2 ≠ .error .fuel :=
  let ⟨F, h, _⟩ := transformDoc_stable ev M st ks hst hks; ⟨F, h⟩

/-- every fuel that avoids the fuel error gives the settled value (with `allMono` of `Svgdx.Proofs.Unroll`) -/
theorem processNodes_value_unique (ev : Evalr ρ) (st : St ρ) (ks : Nodes) (f g : Nat)
    (hf : (processNodes ev f st ks).2 ≠ .error .fuel) (hg : (processNodes ev g st ks).2 ≠ .error .fuel) :
    processNodes ev f st ks = processNodes ev g st ks := by
  rcases Nat.le_total f g with h | h
  · exact (processNodes_fuel_robust ev f g st ks h hf).symm
  · exact processNodes_fuel_robust ev g f st ks h hg

/-! ### the special case without any `<config>` element (`_partial`: carries the no-config hypothesis) -/

mutual
def nodeNoCfg : Node → Bool
  | .elem e none _ => e.name != cs!"config"
  | .elem e (some ks) _ => e.name != cs!"config" && nodesNoCfg ks
  | .comment _ _ => true
  | .text _ => true
  | .cdata _ => true
def nodesNoCfg : Nodes → Bool
  | .nil => true
  | .cons n r => nodeNoCfg n && nodesNoCfg r
end

def kidsNoCfg : Option Nodes → Bool
  | none => true
  | some ks => nodesNoCfg ks

mutual
theorem nodeOk_of_noCfg (M : Nat) : ∀ (n : Node), nodeNoCfg n = true → nodeOk M n = true
  | .elem e none _, h => by
    simp only [nodeNoCfg, bne_iff_ne, ne_eq] at h
    simpa [nodeOk] using elemOk_of_nc h
  | .elem e (some ks) _, h => by
    simp only [nodeNoCfg, Bool.and_eq_true, bne_iff_ne, ne_eq] at h
    simp only [nodeOk, Bool.and_eq_true]
    exact ⟨elemOk_of_nc h.1, nodesOk_of_noCfg M ks h.2⟩
  | .comment _ _, _ => rfl
  | .text _, _ => rfl
  | .cdata _, _ => rfl
theorem nodesOk_of_noCfg (M : Nat) : ∀ (ks : Nodes), nodesNoCfg ks = true → nodesOk M ks = true
  | .nil, _ => rfl
  | .cons n r, h => by
    simp only [nodesNoCfg, Bool.and_eq_true] at h
    simp only [nodesOk, Bool.and_eq_true]
    exact ⟨nodeOk_of_noCfg M n h.1, nodesOk_of_noCfg M r h.2⟩
end

/-- no `<config>` anywhere: the limits of the state are the limits of the whole run -/
theorem processNodes_terminates_partial (ev : Evalr ρ) (st : St ρ) (ks : Nodes) (hks : nodesNoCfg ks = true)
    (hst : ∀ t ∈ st.originals, t.2.1.name ≠ cs!"config" ∧ kidsNoCfg t.2.2 = true) :
    ∃ F, (processNodes ev F st ks).2 ≠ .error .fuel ∧ ∀ f, F ≤ f → processNodes ev f st ks = processNodes ev F st ks := by
  refine processNodes_stable ev (max st.cfg.depthLimit st.cfg.loopLimit) st ks
    ⟨Nat.le_max_left _ _, Nat.le_max_right _ _, fun t ht => ⟨(hst t ht).1, ?_⟩⟩ (nodesOk_of_noCfg _ ks hks)
  have := (hst t ht).2
  cases hk : t.2.2 with
  | none => rfl
  | some ks' => rw [hk] at this; exact nodesOk_of_noCfg _ ks' this

theorem transformDoc_terminates_partial (ev : Evalr ρ) (st : St ρ) (ks : Nodes) (hks : nodesNoCfg ks = true)
    (hst : ∀ t ∈ st.originals, t.2.1.name ≠ cs!"config" ∧ kidsNoCfg t.2.2 = true) :
    ∃ F, (transformDoc ev F st ks).2.2 ≠ .error .fuel ∧ ∀ f, F ≤ f → transformDoc ev f st ks = transformDoc ev F st ks := by
  unfold transformDoc
  split
  · exact ⟨0, by simp, fun _ _ => rfl⟩
  · obtain ⟨F, h, hs⟩ := processNodes_terminates_partial ev st ks hks hst
    exact ⟨F, h, fun f hf => by rw [hs f hf]⟩

/-! ### quantitative by-products -/

/-- LOOPS: in a run from a `Good M` state, pass number `i + 1` of a loop activation (the activation starts at `i = 0`,
    each recursive call adds one) is the last one as soon as `M ≤ i`: the call does not recurse. So one activation
    executes its body at most `M + 1` times (`M` = `loopLimit` when there is no `<config>`). -/
theorem loopIter_last_pass (ev : Evalr ρ) (M f : Nat) (st : St ρ) (ks : Nodes) c w u n v s i acc bb (hg : GoodD M st)
    (hk : nodesOkD M ks = true) (hi : M ≤ i) :
    loopIter ev (f + 1) st ks c w u n v s i acc bb =
      seq (preTest ev st c w i) fun st go =>
        if !go then (st, .ok (acc, bb))
        else seq (processNodes ev f (bindLoopVar st n v) ks) fun st _ =>
          (st, .error (.loopLimit (i + 1) st.cfg.loopLimit)) := by
  rw [Ctl.loopIter]
  have h1 := post_preTest (M := M) ev st c w i hg
  unfold seq
  split
  · rfl
  · dsimp only
    split
    · rfl
    · have hb := post_bindLoopVar (M := M) (preTest ev st c w i).1 n v h1.good
      have hp := (allPost ev M f).processNodes _ ks hb.good hk
      split
      · rfl
      · rw [if_pos]
        have := hp.good.loopLimit
        omega

/-- what bounds the passes of one `retry` activation -/
def retryMeasure (M : Nat) (st : St ρ) (ts : List Tag) : Nat := ts.length + (M + 1 - st.idlePasses)

/-- RETRY: a pass either ends the activation (error, or nothing left - the call does not recurse) or hands on to a
    recursive call whose measure `pending.length + (M + 1 - idlePasses)` is strictly smaller. Every pass starts with
    a non-empty pending list (measure ≥ 1), so one activation makes at most `pending.length + M + 1` passes. -/
theorem retry_measure_decreases (ev : Evalr ρ) (M f : Nat) (st : St ρ) (t : Tag) (ts : List Tag) outs bb
    (hg : GoodD M st) (hts : ∀ x ∈ t :: ts, nodeOkD M x.node = true) :
    (∃ er, (retry ev (f + 1) st (t :: ts) outs bb).2 = .error er) ∨
    ∃ st' ts' outs' bb', retry ev (f + 1) st (t :: ts) outs bb = retry ev f st' ts' outs' bb' ∧
      retryMeasure M st' ts' < retryMeasure M st (t :: ts) ∧ GoodD M st' ∧ ∀ x ∈ ts', nodeOkD M x.node = true := by
  rw [Ctl.retry]
  have hp := (allPost ev M f).onePass st (t :: ts) outs bb [] hg hts
  unfold seq
  split
  · exact Or.inl ⟨_, rfl⟩
  · rename_i r hr
    have hrem := onePass_rem ev (fun n => nodeOkD M n = true) f (t :: ts) st outs bb [] _ r.1 r.2.1 r.2.2
      (Prod.ext rfl hr) hts (by simp)
    have hlen := hrem.1
    have hidle := hp.idle
    simp only [List.length_cons, List.length_nil, Nat.add_zero] at hlen
    dsimp only
    split
    · exact Or.inl ⟨_, rfl⟩
    · split
      · rename_i hlen2
        simp only [beq_iff_eq, List.length_cons] at hlen2
        split
        · exact Or.inl ⟨_, rfl⟩
        · split
          · exact Or.inl ⟨_, rfl⟩
          · rename_i hlim
            have hll := hp.good.loopLimit
            refine Or.inr ⟨_, _, _, _, rfl, ?_, good_of_fields hp.good rfl rfl, hrem.2⟩
            simp only [retryMeasure, List.length_cons]
            omega
      · rename_i hlen2
        simp only [beq_iff_eq, List.length_cons] at hlen2
        refine Or.inr ⟨_, _, _, _, rfl, ?_, hp.good, hrem.2⟩
        simp only [retryMeasure, List.length_cons]
        omega

/-! ## (6) closed instances -/

namespace TermExample

def el (n : Str) (a : List (Str × Str)) (kids : Option Nodes := none) : Node := .elem (Elem.new n a) kids none

/-- a variable, a `<config>` with a literal, a forward reference (`#b` stands later), a group, a count loop, a
    while-style loop counting `$i` down to 0, the referenced element, a reuse of it -/
def doc : Nodes := Nodes.ofList [
  el cs!"var" [(cs!"i", cs!"3")],
  el cs!"config" [(cs!"loop-limit", cs!"50")],
  el cs!"rect" [(cs!"id", cs!"a"), (cs!"xy", cs!"#b|h 2"), (cs!"wh", cs!"4")],
  el cs!"g" [] (some (Nodes.ofList [el cs!"rect" [(cs!"wh", cs!"1")]])),
  el cs!"loop" [(cs!"count", cs!"2")] (some (Nodes.ofList [el cs!"rect" [(cs!"wh", cs!"2")]])),
  el cs!"loop" [(cs!"while", cs!"$i"), (cs!"loop-var", cs!"i"), (cs!"start", cs!"3"), (cs!"step", cs!"-1")]
    (some (Nodes.ofList [el cs!"rect" [(cs!"wh", cs!"$i")]])),
  el cs!"rect" [(cs!"id", cs!"b"), (cs!"xy", cs!"0 0"), (cs!"wh", cs!"4")],
  el cs!"reuse" [(cs!"href", cs!"#b"), (cs!"x", cs!"10")]]

def st0 : St Nat := { rng := 0, scopes := [{}] }

/-- the hypotheses of the theorem hold for this document with `M = 1000` (the default loop limit) -/
theorem st0_good : Good 1000 st0 := ⟨by decide, by decide, fun t ht => by simp [st0] at ht⟩

theorem doc_ok : nodesOk 1000 doc = true := by decide +kernel

theorem st0_goodD : GoodD 1000 st0 :=
  ⟨by decide, by decide, fun t ht => by simp [st0] at ht, fun s hs d hd => by
    simp only [st0, List.mem_cons, List.not_mem_nil, or_false] at hs; subst hs; cases hd⟩

theorem doc_okD : nodesOkD 1000 doc = true := by decide +kernel

theorem doc_terminates : ∃ f, (processNodes simpleEvalr f st0 doc).2 ≠ .error .fuel :=
  processNodes_terminates simpleEvalr 1000 st0 doc st0_good doc_ok

def isOk {α : Type} : Except CErr α → Bool
  | .ok _ => true
  | .error _ => false

def isFuel {α : Type} : Except CErr α → Bool
  | .error .fuel => true
  | _ => false

/-- (is it the fuel error, is it a success, the loop limit in force at the end) -/
def summary {α : Type} (x : St Nat × Except CErr α) : Bool × Bool × Nat := (isFuel x.2, isOk x.2, x.1.cfg.loopLimit)

/-- … and the run itself: with fuel 30 the document is transformed (the forward reference needs a second pass of
    the retry loop) and the `<config>` took effect -/
theorem doc_run : summary (processNodes simpleEvalr 30 st0 doc) = (false, true, 50) := by decide +kernel

/-- the `_partial` form on the part of the document without the `<config>` element -/
def docNoCfg : Nodes := Nodes.ofList (doc.toList.filter fun n => (tagElem n).all (·.name != cs!"config"))

theorem docNoCfg_stable : ∃ F, (processNodes simpleEvalr F st0 docNoCfg).2 ≠ .error .fuel ∧
    ∀ f, F ≤ f → processNodes simpleEvalr f st0 docNoCfg = processNodes simpleEvalr F st0 docNoCfg :=
  processNodes_terminates_partial simpleEvalr st0 docNoCfg (by decide +kernel) (fun t ht => by simp [st0] at ht)

end TermExample

/-! ### why "a `<config>` is not a reuse template" cannot be dropped -/

namespace NonTermination
open TermExample

/-- `<specs><config id="c" loop-limit="$n"/></specs><loop while="1" loop-var="n" start="5"><reuse href="#c"/></loop>`:
    `<reuse>` EVALUATES the attributes of its template, so each pass sets the loop limit to the loop variable
    (5, 6, 7, …), always above the pass counter (1, 2, 3, …): the loop never reaches its limit. svgdx itself does not
    return on this document (20 s time-out; with the literal `loop-limit="7"` it fails at once with
    `LoopLimitError(8, 7)`, as the model does). -/
def cfgEl : Elem := Elem.new cs!"config" [(cs!"id", cs!"c"), (cs!"loop-limit", cs!"$n")]

def doc : Nodes := Nodes.ofList [
  el cs!"specs" [] (some (Nodes.ofList [.elem cfgEl none none])),
  el cs!"loop" [(cs!"while", cs!"1"), (cs!"loop-var", cs!"n"), (cs!"start", cs!"5")]
    (some (Nodes.ofList [el cs!"reuse" [(cs!"href", cs!"#c")]]))]

/-- the hypothesis of the theorem fails for every `M` (the `<config>` has an `id`) -/
theorem cfgEl_not_ok (M : Nat) : elemOk M cfgEl = false := by
  have h1 : (cfgEl.name == cs!"config") = true := by decide +kernel
  have h2 : (cfgEl.getAttr cs!"id").isNone = false := by decide +kernel
  simp [elemOk, h1, h2]

theorem doc_not_ok (M : Nat) : nodesOk M doc = false := by
  simp [doc, Nodes.ofList, nodesOk, nodeOk, el, cfgEl_not_ok]

/-- the model runs out of fuel, and the loop limit in force has grown with the fuel (`fuel - 13`) -/
theorem doc_fuel : summary (processNodes simpleEvalr 40 st0 doc) = (true, false, 27) ∧
    summary (processNodes simpleEvalr 70 st0 doc) = (true, false, 57) := by
  decide +kernel

/-- the control: the same document with a literal limit stops with the limit error -/
def docLit : Nodes := Nodes.ofList [
  el cs!"specs" [] (some (Nodes.ofList [el cs!"config" [(cs!"id", cs!"c"), (cs!"loop-limit", cs!"7")]])),
  el cs!"loop" [(cs!"while", cs!"1"), (cs!"loop-var", cs!"n"), (cs!"start", cs!"5")]
    (some (Nodes.ofList [el cs!"reuse" [(cs!"href", cs!"#c")]]))]

def errOf {α : Type} : Except CErr α → Option CErr
  | .error e => some e
  | .ok _ => none

theorem docLit_limit : errOf (processNodes simpleEvalr 40 st0 docLit).2 = some (.loopLimit 8 7) := by decide +kernel

end NonTermination

#print axioms term_all
#print axioms processNodes_stable
#print axioms processNodes_stableD
#print axioms exists_D
#print axioms processNodes_terminates
#print axioms transformDoc_stable
#print axioms transformDoc_terminates
#print axioms processNodes_terminates_partial
#print axioms transformDoc_terminates_partial
#print axioms loopIter_last_pass
#print axioms retry_measure_decreases
#print axioms allPost
#print axioms TermExample.doc_terminates
#print axioms TermExample.doc_run
#print axioms TermExample.docNoCfg_stable
#print axioms NonTermination.doc_not_ok
#print axioms NonTermination.doc_fuel
#print axioms NonTermination.docLit_limit

end Svgdx.Ctl
