/-
  Svgdx.Proofs.ExprIdem — an attribute value without `$` and without `{{` is left alone by `eval_attr`:
  same text, random source untouched.  (Elements are resolved more than once; what the first
  evaluation left behind — numbers in `fstr` form — is not evaluated again.)
-/
import Svgdx.Expr.Eval
namespace Svgdx
namespace Expr
open Str

theorem breakOn_none (f : Char → Bool) (s : Str) (h : ∀ c ∈ s, f c = false) :
    breakOn f s = (s, none) := by
  induction s with
  | nil => simp [breakOn]
  | cons c r ih =>
    have hc := h c (by simp)
    have := ih (fun d hd => h d (by simp [hd]))
    simp [breakOn, hc, this]

theorem evalVars_plain (env : Env) (s : Str) (h : '$' ∉ s) : evalVars env s = s := by
  have hb : breakOn (· == VAR_PREFIX) s = (s, none) := by
    apply breakOn_none
    intro c hc
    simp only [VAR_PREFIX, beq_eq_false_iff_ne, ne_eq]
    intro heq
    exact h (heq ▸ hc)
  simp [evalVars, evalVarsAux, hb]

section
variable {α σ : Type} (o : Ops α σ)

theorem evalExpr_plain (env : Env) (elref : Str → Res α) (s : Str) (st : σ)
    (h : findSub ['{', '{'] s = none) : evalExpr o env elref s st = .ok (s, st) := by
  simp [evalExpr, evalExprAux, splitOnSub, h]

theorem evalAttr_plain (env : Env) (elref : Str → Res α) (s : Str) (st : σ)
    (h1 : '$' ∉ s) (h2 : findSub ['{', '{'] s = none) :
    evalAttr o env elref s st = .ok (s, st) := by
  simp [evalAttr, evalVars_plain env s h1, evalExpr_plain o env elref s st h2]

end
end Expr
end Svgdx
