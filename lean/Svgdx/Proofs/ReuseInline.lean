/-
  Svgdx.Proofs.ReuseInline — C18 "reuse instantiates templates as if written out by hand" (model `Svgdx.Ctl.Gen`).

  (a) `genReuse_eq`: the closed formula of `genReuse ev (fuel+1) st e`, for every outcome, in terms of
      `evalAttributes`, `reusePrepare` and ONE run (`instRun`) of the instance node in the state prepared from
      `st.pushElement re`, followed by `popElement`; rewrite rules `genReuse_of_prepared`, `genReuse_of_attr_error`,
      `genReuse_of_prepare_error`; `reusePrepare_frame` (preparing leaves the scopes alone), hence
      `reuse_is_instance_in_scope`: events and box are those of the instance node evaluated with the reuse element's
      attributes as the innermost variable scope.
  (b) among siblings / as a group: `genNode_reuse` (the `<reuse/>` tag, every outcome), `reuse_repl`,
      `reuse_among_siblings` (first-try), `genGroup_unfold`, `genNode_group_instance`.
  (c) the frame of a reuse: `allGrow` (the table of originals only grows, all 15 functions, every outcome),
      `reuse_frame`, `reuse_keeps_template`, `instances_independent`.
  (d) a closed instance (`ReuseExample`).
  (P) Props-level corollaries, namespace `Svgdx.Props.C18x`.
-/
import Svgdx.Props.C18
import Svgdx.Proofs.Unroll2
import Svgdx.Proofs.DefaultsApply
namespace Svgdx.Ctl
open Svgdx Gen Attrs Props

variable {ρ : Type}

/-! ## (a) `genReuse` = the dressed copy processed in the reuse element's scope -/

/-- the instance as a node of the tree: the dressed, placed copy with the template's content -/
def instNode (ik : Elem × Option Nodes) : Node := .elem ik.1 ik.2 none

/-- the ONE recursive call of `genReuse`: a template with content is processed as a one-element sibling list (so it
    is registered early and retried like any tag), an empty-element template is generated directly (no defaults) -/
def instRun (ev : Evalr ρ) (fuel : Nat) (st1 : St ρ) (ik : Elem × Option Nodes) : St ρ × Res :=
  match ik.2 with
  | some ks => processNodes ev fuel st1 (Nodes.cons (.elem ik.1 (some ks) none) .nil)
  | none => genElem ev fuel st1 ik.1 none

theorem instRun_some (ev : Evalr ρ) (fuel : Nat) (st1 : St ρ) (inst : Elem) (ks : Nodes) :
    instRun ev fuel st1 (inst, some ks) = processNodes ev fuel st1 (Nodes.ofList [instNode (inst, some ks)]) := rfl

theorem instRun_none (ev : Evalr ρ) (fuel : Nat) (st1 : St ρ) (inst : Elem) :
    instRun ev fuel st1 (inst, none) = genElem ev fuel st1 inst none := rfl

/-- **the closed formula of `<reuse>`, for every outcome** -/
theorem genReuse_eq (ev : Evalr ρ) (fuel : Nat) (st : St ρ) (e : Elem) :
    genReuse ev (fuel + 1) st e =
      match evalAttributes ev st e with
      | .error er => (st, .error (.geom er))
      | .ok (re, rng) =>
        match reusePrepare ev (({ st with rng := rng } : St ρ).pushElement re) re with
        | (st1, .error er) => (st1.popElement, .error er)
        | (st1, .ok ik) => popAfter (instRun ev fuel st1 ik) := by
  rw [genReuse]
  cases h : evalAttributes ev st e with
  | error er => simp [seq, withRng]
  | ok x =>
    obtain ⟨re, rng⟩ := x
    simp only [seq, withRng, popAfter]
    cases hp : reusePrepare ev (({ st with rng := rng } : St ρ).pushElement re) re with
    | mk st1 r =>
      cases r with
      | error er => rfl
      | ok ik =>
        simp only [instRun]
        cases ik.2 <;> rfl

/-- rewrite rule: the attributes of the reuse element evaluate to `re`, the copy is prepared: the reuse is the run of
    the instance from the prepared state, then the scope is popped -/
theorem genReuse_of_prepared (ev : Evalr ρ) (fuel : Nat) (st st1 : St ρ) (e re : Elem) (rng : ρ)
    (ik : Elem × Option Nodes) (hre : evalAttributes ev st e = .ok (re, rng))
    (hp : reusePrepare ev (({ st with rng := rng } : St ρ).pushElement re) re = (st1, .ok ik)) :
    genReuse ev (fuel + 1) st e = popAfter (instRun ev fuel st1 ik) := by
  rw [genReuse_eq, hre]; simp only [hp]

theorem genReuse_of_attr_error (ev : Evalr ρ) (fuel : Nat) (st : St ρ) (e : Elem) (er : Err)
    (hre : evalAttributes ev st e = .error er) : genReuse ev (fuel + 1) st e = (st, .error (.geom er)) := by
  rw [genReuse_eq, hre]

theorem genReuse_of_prepare_error (ev : Evalr ρ) (fuel : Nat) (st st1 : St ρ) (e re : Elem) (rng : ρ) (er : CErr)
    (hre : evalAttributes ev st e = .ok (re, rng))
    (hp : reusePrepare ev (({ st with rng := rng } : St ρ).pushElement re) re = (st1, .error er)) :
    genReuse ev (fuel + 1) st e = (st1.popElement, .error er) := by
  rw [genReuse_eq, hre]; simp only [hp]

/-- the fields preparing an instance never touches -/
structure SameCtl (a b : St ρ) : Prop where
  scopes : b.scopes = a.scopes
  elemStack : b.elemStack = a.elemStack
  depth : b.depth = a.depth
  inSpecs : b.inSpecs = a.inSpecs
  cfg : b.cfg = a.cfg
  idlePasses : b.idlePasses = a.idlePasses

theorem SameCtl.refl (a : St ρ) : SameCtl a a := ⟨rfl, rfl, rfl, rfl, rfl, rfl⟩

theorem SameCtl.trans {a b c : St ρ} (h1 : SameCtl a b) (h2 : SameCtl b c) : SameCtl a c :=
  ⟨h2.scopes.trans h1.scopes, h2.elemStack.trans h1.elemStack, h2.depth.trans h1.depth, h2.inSpecs.trans h1.inSpecs,
    h2.cfg.trans h1.cfg, h2.idlePasses.trans h1.idlePasses⟩

theorem sameCtl_updateElement (ev : Evalr ρ) (a : St ρ) (e : Elem) : SameCtl a (updateElement ev a e) := by
  unfold updateElement
  split <;> exact ⟨rfl, rfl, rfl, rfl, rfl, rfl⟩

theorem sameCtl_withRng {α : Type} (st : St ρ) (r : Except Err (α × ρ)) : SameCtl st (withRng st r).1 := by
  unfold withRng
  split <;> exact ⟨rfl, rfl, rfl, rfl, rfl, rfl⟩

theorem sameCtl_seq {α β : Type} {a : St ρ} (x : St ρ × Except CErr α) (f : St ρ → α → St ρ × Except CErr β)
    (hx : SameCtl a x.1) (hf : ∀ v, SameCtl x.1 (f x.1 v).1) : SameCtl a (seq x f).1 := by
  unfold seq
  split
  · exact hx
  · exact hx.trans (hf _)

/-- **preparing the copy leaves the variable scopes (and stack, depth, flags, limits) alone**: only registrations
    (`geo`, `originals`, `gen`), the random state and the `outside` marker can change -/
theorem reusePrepare_frame (ev : Evalr ρ) (st : St ρ) (re : Elem) : SameCtl st (reusePrepare ev st re).1 := by
  unfold reusePrepare
  split
  · exact SameCtl.refl st
  · split
    · exact SameCtl.refl st
    · exact ⟨rfl, rfl, rfl, rfl, rfl, rfl⟩
    · split
      · exact SameCtl.refl st
      · apply sameCtl_seq _ _ (sameCtl_withRng st _)
        intro inst1
        split
        · exact SameCtl.refl _
        · dsimp only
          split
          · exact SameCtl.refl _
          · dsimp only
            split
            · exact sameCtl_updateElement ev _ _
            · exact SameCtl.refl _

/-- the scopes in which the instance runs: the (evaluated) reuse element's attributes, innermost, around the scopes
    of the place of use -/
theorem prepared_scopes (ev : Evalr ρ) (st : St ρ) (re : Elem) (rng : ρ) :
    (reusePrepare ev (({ st with rng := rng } : St ρ).pushElement re) re).1.scopes
      = { vars := re.attrs, defaults := [] } :: st.scopes :=
  (reusePrepare_frame ev _ re).scopes

theorem prepared_env (ev : Evalr ρ) (st : St ρ) (re : Elem) (rng : ρ) :
    (reusePrepare ev (({ st with rng := rng } : St ρ).pushElement re) re).1.env = re.attrs ++ st.env := by
  simp only [St.env, prepared_scopes, List.flatMap_cons]

/-- the variable lookup seen by the instance: the reuse element's attributes shadow the outer variables -/
theorem prepared_lookup (ev : Evalr ρ) (st : St ρ) (re : Elem) (rng : ρ) (k : Str) :
    (reusePrepare ev (({ st with rng := rng } : St ρ).pushElement re) re).1.lookup k
      = match Attrs.lookupTable re.attrs k with
        | some v => some v
        | none => st.lookup k := by
  simp only [St.lookup, prepared_scopes, getVar]
  rfl

/-- **events and box of a `<reuse>` are exactly those of the instance node evaluated with the reuse element's
    attributes as the innermost variable scope**; the state afterwards is the state after that run, the scope popped -/
theorem reuse_is_instance_in_scope (ev : Evalr ρ) (fuel : Nat) (st st1 : St ρ) (e re : Elem) (rng : ρ)
    (ik : Elem × Option Nodes) (hre : evalAttributes ev st e = .ok (re, rng))
    (hp : reusePrepare ev (({ st with rng := rng } : St ρ).pushElement re) re = (st1, .ok ik)) :
    (genReuse ev (fuel + 1) st e).2 = (instRun ev fuel st1 ik).2 ∧
    (genReuse ev (fuel + 1) st e).1 = (instRun ev fuel st1 ik).1.popElement ∧
    st1.scopes = { vars := re.attrs, defaults := [] } :: st.scopes ∧ st1.env = re.attrs ++ st.env ∧
    st1.elemStack = re :: st.elemStack ∧ st1.depth = st.depth ∧ st1.cfg = st.cfg ∧ st1.inSpecs = st.inSpecs := by
  have hf := reusePrepare_frame ev (({ st with rng := rng } : St ρ).pushElement re) re
  have hs := prepared_scopes ev st re rng
  have he := prepared_env ev st re rng
  rw [hp] at hf hs he
  rw [genReuse_of_prepared ev fuel st st1 e re rng ik hre hp]
  exact ⟨rfl, rfl, hs, he, hf.elemStack, hf.depth, hf.cfg, hf.inSpecs⟩

/-! ## (b) the `<reuse/>` tag among its siblings, and a group template as a group -/

theorem dispatch_reuse (ev : Evalr ρ) (f : Nat) (st : St ρ) (e : Elem) (kids : Option Nodes) (h : e.name = cs!"reuse") :
    dispatch ev (f + 1) st e kids = genReuse ev f st e := by
  unfold dispatch
  simp only [h, show (cs!"reuse" == cs!"loop") = false from by decide,
    show (cs!"reuse" == cs!"config") = false from by decide, show (cs!"reuse" == cs!"reuse") = true from by decide,
    Bool.false_eq_true, if_false, if_true]

/-- one nesting level up again (what `genElem` does to the state its dispatch returns) -/
def down (st : St ρ) : St ρ := { st with depth := st.depth - 1 }

/-- **the `<reuse/>` tag, for every outcome**: within the depth limit and without a `clip-path` of its own, the tag is
    `genReuse` on the element with the defaults in force applied, one level deeper; trailing text follows the output -/
theorem genNode_reuse (ev : Evalr ρ) (f : Nat) (st : St ρ) (e : Elem) (tail : Option Str) (hname : e.name = cs!"reuse")
    (hclip : (applyDefaults st e).getAttr cs!"clip-path" = none) (hdepth : st.depth + 1 ≤ st.cfg.depthLimit) :
    genNode ev (f + 3) st (.elem e none tail) =
      seq (down (genReuse ev f (up st) (applyDefaults st e)).1, (genReuse ev f (up st) (applyDefaults st e)).2)
        fun st r => (st, .ok (withTail tail r.1, r.2)) := by
  have hd' : ¬ (st.depth + 1 > st.cfg.depthLimit) := by omega
  have hn : (applyDefaults st e).name = cs!"reuse" := by rw [applyDefaults_name]; exact hname
  simp only [genNode, leafDefaults, genElem, if_neg hd', clipPost_none ev _ _ hclip]
  have hd := dispatch_reuse ev f (up st) (applyDefaults st e) none hn
  simp only [up] at hd
  rw [hd]
  rfl

/-- a first-try run of a one-element list is what `instRun` does on a template with content, on every large fuel -/
theorem instRun_of_FT {ev : Evalr ρ} {st1 S2 : St ρ} {inst : Elem} {ks : Nodes} {evs : List Ev} {b : Option BoundingBox}
    (hok : Ok st1) (hft : FT ev st1 [instNode (inst, some ks)] S2 evs b) :
    ∃ G, ∀ g, G ≤ g → instRun ev g st1 (inst, some ks) = (S2, .ok (evs, b)) := by
  have hft' : FT ev st1 (Nodes.cons (.elem inst (some ks) none) .nil).toList S2 evs b := hft
  obtain ⟨G, hG⟩ := processNodes_NF_of_FT _ hft' hok
  exact ⟨G, fun g hg => processNodes_of_FT _ hft' g hok (hG g hg)⟩

/-- **a `<reuse/>` that succeeds at its first attempt**: the tag `rn` standing in state `s1` does what the instance
    node does in the prepared state `st1` (scopes: the reuse element's attributes around those of `s1`), and leaves
    the state that run leaves, the scope popped -/
theorem reuse_first_try (ev : Evalr ρ) (g : Nat) (s1 st1 S2 : St ρ) (e re : Elem) (tail : Option Str) (rng : ρ)
    (ik : Elem × Option Nodes) (evs : List Ev) (b : Option BoundingBox)
    (hname : e.name = cs!"reuse")
    (hclip : (applyDefaults (registerEarly ev s1 (.elem e none tail)) e).getAttr cs!"clip-path" = none)
    (hdepth : s1.depth + 1 ≤ s1.cfg.depthLimit)
    (hre : evalAttributes ev (registerEarly ev s1 (.elem e none tail))
      (applyDefaults (registerEarly ev s1 (.elem e none tail)) e) = .ok (re, rng))
    (hp : reusePrepare ev (({ up (registerEarly ev s1 (.elem e none tail)) with rng := rng } : St ρ).pushElement re) re
      = (st1, .ok ik))
    (hrun : instRun ev g st1 ik = (S2, .ok (evs, b))) :
    genNode ev (g + 4) (registerEarly ev s1 (.elem e none tail)) (.elem e none tail)
      = (down S2.popElement, .ok (withTail tail evs, b)) ∧
    FT ev s1 [.elem e none tail] (down S2.popElement) (withTail tail evs) b := by
  have hdc := registerEarly_depth_cfg ev s1 (.elem e none tail)
  have hg : genNode ev (g + 4) (registerEarly ev s1 (.elem e none tail)) (.elem e none tail)
      = (down S2.popElement, .ok (withTail tail evs, b)) := by
    rw [genNode_reuse ev (g + 1) _ e tail hname hclip (by rw [hdc.1, hdc.2]; exact hdepth),
      genReuse_of_prepared ev g (up (registerEarly ev s1 (.elem e none tail))) st1 _ re rng ik hre hp, hrun]
    rfl
  exact ⟨hg, FT_single hg⟩

/-- **`<reuse/>` among its siblings** (first-try): the sibling list renders what the siblings before render, then what
    the instance node renders in the reuse element's scope, then what the siblings after render from the state the
    instance leaves; on every fuel that avoids the fuel error, and such fuels exist -/
theorem reuse_among_siblings (ev : Evalr ρ) (g : Nat) (st s1 st1 S2 s3 : St ρ) (e re : Elem) (tail : Option Str) (rng : ρ)
    (ik : Elem × Option Nodes) (pre post : List Node) (e1 evs e3 : List Ev) (b1 b b3 : Option BoundingBox)
    (hok : Ok st) (hpre : FT ev st pre s1 e1 b1)
    (hname : e.name = cs!"reuse")
    (hclip : (applyDefaults (registerEarly ev s1 (.elem e none tail)) e).getAttr cs!"clip-path" = none)
    (hdepth : s1.depth + 1 ≤ s1.cfg.depthLimit)
    (hre : evalAttributes ev (registerEarly ev s1 (.elem e none tail))
      (applyDefaults (registerEarly ev s1 (.elem e none tail)) e) = .ok (re, rng))
    (hp : reusePrepare ev (({ up (registerEarly ev s1 (.elem e none tail)) with rng := rng } : St ρ).pushElement re) re
      = (st1, .ok ik))
    (hrun : instRun ev g st1 ik = (S2, .ok (evs, b)))
    (hpost : FT ev (down S2.popElement) post s3 e3 b3) :
    FT ev st (pre ++ .elem e none tail :: post) s3 (e1 ++ (withTail tail evs ++ e3)) (unionOpt b1 (unionOpt b b3)) ∧
    (∀ F, NF (processNodes ev F st (Nodes.ofList (pre ++ .elem e none tail :: post))) →
      processNodes ev F st (Nodes.ofList (pre ++ .elem e none tail :: post))
        = (s3, .ok (e1 ++ (withTail tail evs ++ e3), unionOpt b1 (unionOpt b b3)))) ∧
    ∃ F0, ∀ F, F0 ≤ F → NF (processNodes ev F st (Nodes.ofList (pre ++ .elem e none tail :: post))) := by
  obtain ⟨hg, _⟩ := reuse_first_try ev g s1 st1 S2 e re tail rng ik evs b hname hclip hdepth hre hp hrun
  have hall : FT ev st (pre ++ .elem e none tail :: post) s3 (e1 ++ (withTail tail evs ++ e3))
      (unionOpt b1 (unionOpt b b3)) := FT_append hpre (FT.cons hg hpost)
  have hall' : FT ev st (Nodes.ofList (pre ++ .elem e none tail :: post)).toList s3 (e1 ++ (withTail tail evs ++ e3))
      (unionOpt b1 (unionOpt b b3)) := by rw [toList_ofList]; exact hall
  exact ⟨hall, fun F hF => processNodes_of_FT _ hall' F hok hF, processNodes_NF_of_FT _ hall' hok⟩

/-- **a group, unfolded**: its attributes are evaluated where it stands, its (unevaluated) attributes become a variable
    scope around the content, then it is registered with the content's box -/
theorem genGroup_unfold (ev : Evalr ρ) (f : Nat) (st S : St ρ) (e ne : Elem) (rng : ρ) (ks : Nodes) (evs : List Ev)
    (b : Option BoundingBox) (hne : evalAttributes ev st e = .ok (ne, rng))
    (hks : processNodes ev f (({ st with rng := rng } : St ρ).pushElement e) ks = (S, .ok (evs, b))) :
    genGroup ev (f + 1) st e (some ks)
      = groupFinish ev S.popElement e ([Ev.start (adapt ne)] ++ evs ++ [Ev.end_ ne.name], b) := by
  rw [genGroup]
  simp only [seq, withRng, hne, popAfter, hks]

theorem dispatch_group (ev : Evalr ρ) (f : Nat) (st : St ρ) (e : Elem) (kids : Option Nodes) (h : e.name = ['g']) :
    dispatch ev (f + 1) st e kids = genGroup ev f st e kids := by
  unfold dispatch
  simp only [h, show (['g'] == cs!"loop") = false from by decide, show (['g'] == cs!"config") = false from by decide,
    show (['g'] == cs!"reuse") = false from by decide, show (['g'] == cs!"specs") = false from by decide,
    show (['g'] == cs!"var") = false from by decide, show (['g'] == cs!"if") = false from by decide,
    show (['g'] == cs!"defaults") = false from by decide, show (['g'] == cs!"for") = false from by decide,
    show ((['g'] : Str) == ['g']) = true from by decide, Bool.true_or, Bool.false_eq_true, if_false, if_true]

theorem seq_withTail_none (x : St ρ × Res) : seq x (fun st r => (st, .ok (withTail none r.1, r.2))) = x := by
  obtain ⟨s, r⟩ := x
  cases r with
  | error e => rfl
  | ok v => obtain ⟨evs, b⟩ := v; cases evs <;> rfl

/-- **the instance of a group template, as a tag**: standing in state `sI` (for a reuse: the prepared state, whose
    innermost scope is the reuse element's attributes) it renders `<g …>` with its evaluated attributes, then the
    template's content processed with the instance's own attributes as a further scope around it, then `</g>`, and is
    registered with the content's box (`groupFinish`) — exactly what a `<g>` written there by hand does -/
theorem genNode_group_instance (ev : Evalr ρ) (f : Nat) (sI S : St ρ) (inst ne : Elem) (rng : ρ) (ks : Nodes)
    (evsK : List Ev) (bK : Option BoundingBox)
    (hname : inst.name = ['g']) (hclip : inst.getAttr cs!"clip-path" = none)
    (hdepth : sI.depth + 1 ≤ sI.cfg.depthLimit)
    (hne : evalAttributes ev sI inst = .ok (ne, rng))
    (hks : processNodes ev f (({ up sI with rng := rng } : St ρ).pushElement inst) ks = (S, .ok (evsK, bK))) :
    genNode ev (f + 4) sI (instNode (inst, some ks)) =
      (down (groupFinish ev S.popElement inst ([Ev.start (adapt ne)] ++ evsK ++ [Ev.end_ ne.name], bK)).1,
       (groupFinish ev S.popElement inst ([Ev.start (adapt ne)] ++ evsK ++ [Ev.end_ ne.name], bK)).2) := by
  have hd' : ¬ (sI.depth + 1 > sI.cfg.depthLimit) := by omega
  have hg := genGroup_unfold ev f (up sI) S inst ne rng ks evsK bK hne hks
  have hdisp := dispatch_group ev (f + 1) (up sI) inst (some ks) hname
  simp only [up] at hdisp hg
  simp only [instNode, genNode, leafDefaults, genElem, if_neg hd', clipPost_none ev _ _ hclip]
  rw [hdisp, hg]
  exact seq_withTail_none _

/-! ## (c) the frame of a reuse: the table of originals only grows (all functions, every outcome) -/

/-- every template known in `a` is the same template in `b` -/
def Grow (a b : St ρ) : Prop :=
  ∀ (i : Str) (x : Elem × Option Nodes), lookupTable a.originals i = some x → lookupTable b.originals i = some x

theorem Grow.refl (a : St ρ) : Grow a a := fun _ _ h => h

theorem Grow.trans {a b c : St ρ} (h1 : Grow a b) (h2 : Grow b c) : Grow a c := fun i x h => h2 i x (h1 i x h)

theorem grow_of_eq {a b : St ρ} (h : b.originals = a.originals) : Grow a b := fun i x hx => by rw [h]; exact hx

theorem grow_setVar (a : St ρ) (k v : Str) : Grow a (a.setVar k v) := by
  apply grow_of_eq
  unfold St.setVar
  split <;> rfl

theorem grow_foldl_setVar (vars : List (Str × Str)) (a : St ρ) :
    Grow a (vars.foldl (fun s kv => s.setVar kv.1 kv.2) a) := by
  induction vars generalizing a with
  | nil => exact Grow.refl a
  | cons x xs ih => simp only [List.foldl_cons]; exact (grow_setVar a x.1 x.2).trans (ih _)

theorem grow_updateElement (ev : Evalr ρ) (a : St ρ) (e : Elem) : Grow a (updateElement ev a e) :=
  fun i x h => C18.update_keeps_originals ev a e i x h

theorem grow_registerOriginal (ev : Evalr ρ) (a : St ρ) (e : Elem) (k : Option Nodes) :
    Grow a (registerOriginal ev a e k) :=
  fun i x h => C18.register_keeps_originals ev a e k i x h

theorem grow_setPrev (a : St ρ) (e : Elem) : Grow a (setPrev a e) := grow_of_eq rfl

theorem grow_seq {α β : Type} {a : St ρ} (x : St ρ × Except CErr α) (f : St ρ → α → St ρ × Except CErr β)
    (hx : Grow a x.1) (hf : ∀ v, Grow x.1 (f x.1 v).1) : Grow a (seq x f).1 := by
  unfold seq
  split
  · exact hx
  · exact hx.trans (hf _)

theorem grow_withRng {α : Type} (st : St ρ) (r : Except Err (α × ρ)) : Grow st (withRng st r).1 := by
  unfold withRng
  split <;> exact grow_of_eq rfl

theorem grow_genVar (ev : Evalr ρ) (st : St ρ) (e : Elem) : Grow st (genVar ev st e).1 := by
  unfold genVar
  dsimp only
  split
  · exact Grow.refl st
  · rename_i newVars rng _
    have h0 : Grow st { st with rng := rng } := grow_of_eq rfl
    exact h0.trans (grow_foldl_setVar newVars _)

theorem grow_elementEvents (ev : Evalr ρ) (st : St ρ) (e : Elem) : Grow st (elementEvents ev st e).1 := by
  unfold elementEvents
  apply grow_seq
  · unfold commentEvents
    split
    · split
      · exact grow_of_eq rfl
      · exact Grow.refl st
    · exact Grow.refl st
  · intro evs1
    exact Grow.refl _

theorem grow_genOther (ev : Evalr ρ) (st : St ρ) (e : Elem) : Grow st (genOther ev st e).1 := by
  unfold genOther
  apply grow_seq _ _ (grow_withRng st _)
  intro e'
  dsimp only
  have h2 := grow_updateElement ev (withRng st (otherPipeline ev st e)).1 e'
  split
  · exact h2
  · apply grow_seq
    · refine h2.trans (Grow.trans ?_ (grow_elementEvents ev _ e'))
      split
      · exact grow_setPrev _ _
      · exact Grow.refl _
    · intro evs
      exact Grow.refl _

theorem grow_finishContainer (ev : Evalr ρ) (st : St ρ) ne bb : Grow st (finishContainer ev st ne bb) := by
  unfold finishContainer
  dsimp only
  have h0 : Grow st (if bb.isSome || notRenderedInPlace ne.name then updateElement ev st { ne with contentBBox := bb } else st) := by
    split
    · exact grow_updateElement ev st _
    · exact Grow.refl st
  split
  · exact h0.trans (grow_setPrev _ _)
  · exact h0

theorem grow_preTest (ev : Evalr ρ) (st : St ρ) c w i : Grow st (preTest ev st c w i).1 := by
  unfold preTest
  split
  · exact Grow.refl st
  · exact grow_withRng st _
  · exact Grow.refl st

theorem grow_postTest (ev : Evalr ρ) (st : St ρ) u : Grow st (postTest ev st u).1 := by
  unfold postTest
  split
  · exact grow_withRng st _
  · exact Grow.refl st

theorem grow_bindLoopVar (st : St ρ) n v : Grow st (bindLoopVar st n v) := by
  unfold bindLoopVar
  split
  · exact Grow.refl st
  · exact grow_setVar st _ _

theorem grow_bindForVars (st : St ρ) v iv item idx : Grow st (bindForVars st v iv item idx) := by
  unfold bindForVars
  have h1 := grow_setVar st v item
  dsimp only
  split
  · exact h1.trans (grow_setVar _ _ _)
  · exact h1

theorem grow_registerEarly (ev : Evalr ρ) (st : St ρ) n : Grow st (registerEarly ev st n) := by
  unfold registerEarly
  split
  · exact grow_registerOriginal ev st _ _
  · exact Grow.refl st

theorem grow_push (st : St ρ) (e : Elem) : Grow st (st.pushElement e) := grow_of_eq rfl

theorem grow_pop (st : St ρ) : Grow st st.popElement := grow_of_eq rfl

theorem grow_groupFinish (ev : Evalr ρ) (st : St ρ) e r : Grow st (groupFinish ev st e r).1 := by
  unfold groupFinish
  dsimp only
  have hu := grow_updateElement ev st { e with contentBBox := r.2 }
  have hsp := hu.trans (grow_setPrev _ { e with contentBBox := r.2 })
  have hst : Grow st (if r.2.isSome then setPrev (updateElement ev st { e with contentBBox := r.2 }) { e with contentBBox := r.2 }
      else updateElement ev st { e with contentBBox := r.2 }) := by
    split
    · exact hsp
    · exact hu
  split
  · exact hst
  · split <;> exact hst

theorem grow_clipPost (ev : Evalr ρ) (e : Elem) (x : St ρ × Res) : Grow x.1 (clipPost ev e x).1 := by
  unfold clipPost
  split
  · split
    · split
      · exact Grow.refl _
      · split
        · split
          · exact Grow.refl _
          · exact grow_updateElement ev _ _
          · exact Grow.refl _
        · exact Grow.refl _
    · exact Grow.refl _
  · exact Grow.refl _

theorem grow_reusePrepare (ev : Evalr ρ) (st : St ρ) (re : Elem) : Grow st (reusePrepare ev st re).1 :=
  fun i x h => C18.prepare_keeps_originals ev st re i x h

theorem grow_genDefaults (st : St ρ) (kids : Option Nodes) : Grow st (genDefaults st kids).1 :=
  grow_of_eq (defStep_genDefaults st kids).originals

/-- the statement for every function of the mutual block at a given fuel -/
structure AllGrow (ev : Evalr ρ) (fuel : Nat) : Prop where
  genElem : ∀ (st : St ρ) e kids, Grow st (genElem ev fuel st e kids).1
  dispatch : ∀ (st : St ρ) e kids, Grow st (dispatch ev fuel st e kids).1
  genSpecs : ∀ (st : St ρ) kids, Grow st (genSpecs ev fuel st kids).1
  genReuse : ∀ (st : St ρ) e, Grow st (genReuse ev fuel st e).1
  genIf : ∀ (st : St ρ) e kids, Grow st (genIf ev fuel st e kids).1
  genContainer : ∀ (st : St ρ) e ks, Grow st (genContainer ev fuel st e ks).1
  genGroup : ∀ (st : St ρ) e kids, Grow st (genGroup ev fuel st e kids).1
  genLoop : ∀ (st : St ρ) e kids, Grow st (genLoop ev fuel st e kids).1
  loopIter : ∀ (st : St ρ) ks c w u n v s i acc bb, Grow st (loopIter ev fuel st ks c w u n v s i acc bb).1
  genFor : ∀ (st : St ρ) e kids, Grow st (genFor ev fuel st e kids).1
  forIter : ∀ (st : St ρ) ks v iv items idx acc bb, Grow st (forIter ev fuel st ks v iv items idx acc bb).1
  genNode : ∀ (st : St ρ) n, Grow st (genNode ev fuel st n).1
  onePass : ∀ (st : St ρ) ts outs bb rem, Grow st (onePass ev fuel st ts outs bb rem).1
  retry : ∀ (st : St ρ) ts outs bb, Grow st (retry ev fuel st ts outs bb).1
  processNodes : ∀ (st : St ρ) ks, Grow st (processNodes ev fuel st ks).1

theorem allGrow_zero (ev : Evalr ρ) : AllGrow ev 0 := by
  constructor <;> intros <;> simp only [Ctl.genElem, Ctl.dispatch, Ctl.genSpecs, Ctl.genReuse, Ctl.genIf, Ctl.genContainer,
    Ctl.genGroup, Ctl.genLoop, Ctl.loopIter, Ctl.genFor, Ctl.forIter, Ctl.genNode, Ctl.onePass, Ctl.retry,
    Ctl.processNodes] <;> exact Grow.refl _

section growstep
variable (ev : Evalr ρ) (fuel : Nat) (ih : AllGrow ev fuel)
include ih

theorem genElem_gstep (st : St ρ) e kids : Grow st (Ctl.genElem ev (fuel + 1) st e kids).1 := by
  unfold Ctl.genElem
  split
  · exact Grow.refl st
  · dsimp only
    have hd := ih.dispatch { st with depth := st.depth + 1 } e kids
    have h0 : Grow st { (Ctl.dispatch ev fuel { st with depth := st.depth + 1 } e kids).1 with
        depth := (Ctl.dispatch ev fuel { st with depth := st.depth + 1 } e kids).1.depth - 1 } := hd
    exact h0.trans (grow_clipPost ev e
      ({ (Ctl.dispatch ev fuel { st with depth := st.depth + 1 } e kids).1 with
          depth := (Ctl.dispatch ev fuel { st with depth := st.depth + 1 } e kids).1.depth - 1 },
        (Ctl.dispatch ev fuel { st with depth := st.depth + 1 } e kids).2))

theorem dispatch_gstep (st : St ρ) e kids : Grow st (Ctl.dispatch ev (fuel + 1) st e kids).1 := by
  unfold Ctl.dispatch
  dsimp only
  split; · exact ih.genLoop st e kids
  split
  · split
    · exact grow_of_eq rfl
    · exact Grow.refl st
  split; · exact ih.genReuse st e
  split; · exact ih.genSpecs st kids
  split; · exact grow_genVar ev st e
  split; · exact ih.genIf st e kids
  split; · exact grow_genDefaults st kids
  split; · exact ih.genFor st e kids
  split; · exact ih.genGroup st e kids
  split
  · exact ih.genContainer st e _
  · exact grow_genOther ev st e

theorem genSpecs_gstep (st : St ρ) kids : Grow st (Ctl.genSpecs ev (fuel + 1) st kids).1 := by
  unfold Ctl.genSpecs
  split
  · exact Grow.refl st
  · split
    · rename_i ks
      exact ih.processNodes { st with inSpecs := true } ks
    · exact Grow.refl st

theorem genReuse_gstep (st : St ρ) e : Grow st (Ctl.genReuse ev (fuel + 1) st e).1 := by
  unfold Ctl.genReuse
  apply grow_seq _ _ (grow_withRng st _)
  intro re
  refine Grow.trans (b := ((withRng st (evalAttributes ev st e)).1.pushElement re)) (grow_push _ _) ?_
  refine Grow.trans ?_ (grow_pop _)
  apply grow_seq _ _ (grow_reusePrepare ev _ re)
  intro ik
  split
  · exact ih.processNodes _ _
  · exact ih.genElem _ _ _

theorem genIf_gstep (st : St ρ) e kids : Grow st (Ctl.genIf ev (fuel + 1) st e kids).1 := by
  unfold Ctl.genIf
  split
  · exact Grow.refl st
  · split
    · apply grow_seq _ _ (grow_withRng st _)
      intro b
      split
      · exact ih.processNodes _ _
      · exact Grow.refl _
    · exact Grow.refl st

theorem genContainer_gstep (st : St ρ) e ks : Grow st (Ctl.genContainer ev (fuel + 1) st e ks).1 := by
  unfold Ctl.genContainer
  split
  · split
    · exact Grow.refl st
    · dsimp only
      exact ih.genElem { st with depth := st.depth - 1 } (e.setAttr cs!"text" ‹_›) none
  · split
    · exact Grow.refl st
    · apply grow_seq _ _ (grow_withRng st _)
      intro ne
      apply grow_seq
      · split
        · exact Grow.refl _
        · exact ih.processNodes _ _
      · intro r
        exact grow_finishContainer ev _ _ _

theorem genGroup_gstep (st : St ρ) e kids : Grow st (Ctl.genGroup ev (fuel + 1) st e kids).1 := by
  unfold Ctl.genGroup
  apply grow_seq _ _ (grow_withRng st _)
  intro ne
  apply grow_seq (popAfter _) _
  · refine Grow.trans (b := ((withRng st (evalAttributes ev st e)).1.pushElement e)) (grow_push _ _) ?_
    refine Grow.trans ?_ (grow_pop _)
    split
    · exact Grow.refl _
    · apply grow_seq _ _ (ih.processNodes _ _)
      intro r
      exact Grow.refl _
  · intro r
    exact grow_groupFinish ev _ e r

theorem loopIter_gstep (st : St ρ) ks c w u n v s i acc bb :
    Grow st (Ctl.loopIter ev (fuel + 1) st ks c w u n v s i acc bb).1 := by
  unfold Ctl.loopIter
  apply grow_seq _ _ (grow_preTest ev st c w i)
  intro go
  split
  · exact Grow.refl _
  · have hb := grow_bindLoopVar (preTest ev st c w i).1 n v
    apply grow_seq _ _ (hb.trans (ih.processNodes _ _))
    intro r
    split
    · exact Grow.refl _
    · apply grow_seq _ _ (grow_postTest ev _ u)
      intro stop
      split
      · exact Grow.refl _
      · exact ih.loopIter _ _ _ _ _ _ _ _ _ _ _

theorem genLoop_gstep (st : St ρ) e kids : Grow st (Ctl.genLoop ev (fuel + 1) st e kids).1 := by
  unfold Ctl.genLoop
  dsimp only
  split
  · split
    · exact Grow.refl st
    · rename_i cnt name start step rng _
      have h0 : Grow st { st with rng := rng } := grow_of_eq rfl
      exact h0.trans (ih.loopIter _ _ _ _ _ _ _ _ _ _ _)
  all_goals exact Grow.refl st

theorem forIter_gstep (st : St ρ) ks v iv items idx acc bb :
    Grow st (Ctl.forIter ev (fuel + 1) st ks v iv items idx acc bb).1 := by
  cases items with
  | nil => unfold Ctl.forIter; exact Grow.refl st
  | cons item items =>
    unfold Ctl.forIter
    have hb := grow_bindForVars st v iv item idx
    apply grow_seq _ _ (hb.trans (ih.processNodes _ _))
    intro r
    split
    · exact Grow.refl _
    · exact ih.forIter _ _ _ _ _ _ _ _

theorem genFor_gstep (st : St ρ) e kids : Grow st (Ctl.genFor ev (fuel + 1) st e kids).1 := by
  unfold Ctl.genFor
  split
  · apply grow_seq _ _ (grow_withRng st _)
    intro items
    exact ih.forIter _ _ _ _ _ _ _ _
  all_goals exact Grow.refl st

theorem genNode_gstep (st : St ρ) n : Grow st (Ctl.genNode ev (fuel + 1) st n).1 := by
  cases n with
  | elem e kids tail =>
    unfold Ctl.genNode
    apply grow_seq _ _ (ih.genElem st (leafDefaults st e kids) kids)
    intro r
    exact Grow.refl _
  | comment c tail => unfold Ctl.genNode; exact Grow.refl st
  | text t => unfold Ctl.genNode; exact Grow.refl st
  | cdata c => unfold Ctl.genNode; exact Grow.refl st

theorem onePass_gstep (st : St ρ) ts outs bb rem : Grow st (Ctl.onePass ev (fuel + 1) st ts outs bb rem).1 := by
  cases ts with
  | nil => unfold Ctl.onePass; exact Grow.refl st
  | cons t ts =>
    unfold Ctl.onePass
    have hr := grow_registerEarly ev st t.node
    have hg := hr.trans (ih.genNode _ t.node)
    dsimp only
    split
    · split
      · exact hg
      · split
        · exact hg.trans (ih.onePass _ _ _ _ _)
        · exact hg.trans (ih.onePass _ _ _ _ _)
    · split
      · exact hg.trans (ih.onePass _ _ _ _ _)
      · exact hg.trans (ih.onePass _ _ _ _ _)

theorem retry_gstep (st : St ρ) ts outs bb : Grow st (Ctl.retry ev (fuel + 1) st ts outs bb).1 := by
  cases ts with
  | nil => unfold Ctl.retry; exact Grow.refl st
  | cons t ts =>
    unfold Ctl.retry
    apply grow_seq _ _ (ih.onePass st _ _ _ _)
    intro r
    split
    · exact Grow.refl _
    · split
      · split
        · exact Grow.refl _
        · split
          · exact grow_of_eq rfl
          · refine Grow.trans ?_ (ih.retry _ _ _ _)
            exact grow_of_eq rfl
      · exact ih.retry _ _ _ _

theorem processNodes_gstep (st : St ρ) ks : Grow st (Ctl.processNodes ev (fuel + 1) st ks).1 := by
  unfold Ctl.processNodes
  apply grow_seq _ _ (ih.retry st _ _ _)
  intro r
  exact Grow.refl _

end growstep

/-- **templates are never replaced or lost**: whatever is processed, whatever the outcome, every known original stays
    the original of its id -/
theorem allGrow (ev : Evalr ρ) : ∀ fuel, AllGrow ev fuel
  | 0 => allGrow_zero ev
  | fuel + 1 =>
    let ih := allGrow ev fuel
    { genElem := genElem_gstep ev fuel ih
      dispatch := dispatch_gstep ev fuel ih
      genSpecs := genSpecs_gstep ev fuel ih
      genReuse := genReuse_gstep ev fuel ih
      genIf := genIf_gstep ev fuel ih
      genContainer := genContainer_gstep ev fuel ih
      genGroup := genGroup_gstep ev fuel ih
      genLoop := genLoop_gstep ev fuel ih
      loopIter := loopIter_gstep ev fuel ih
      genFor := genFor_gstep ev fuel ih
      forIter := forIter_gstep ev fuel ih
      genNode := genNode_gstep ev fuel ih
      onePass := onePass_gstep ev fuel ih
      retry := retry_gstep ev fuel ih
      processNodes := processNodes_gstep ev fuel ih }

/-! ### the frame statement and independence of instances -/

/-- the whole scope stack (not only its tail) is as before, for every outcome -/
theorem reuse_scopes_restored (ev : Evalr ρ) (fuel : Nat) (st : St ρ) (e : Elem) (h : st.scopes ≠ []) :
    (genReuse ev fuel st e).1.scopes = st.scopes := by
  cases fuel with
  | zero => simp [genReuse]
  | succ fuel =>
    rw [genReuse_eq]
    cases hre : evalAttributes ev st e with
    | error er => rfl
    | ok x =>
      obtain ⟨re, rng⟩ := x
      dsimp only
      have h1 : ({ st with rng := rng } : St ρ).scopes ≠ [] := h
      have hp : (({ st with rng := rng } : St ρ).pushElement re).scopes ≠ [] := by simp [St.pushElement]
      have hprep := inv_reusePrepare ev _ re hp
      cases hpr : reusePrepare ev (({ st with rng := rng } : St ρ).pushElement re) re with
      | mk st1 r =>
        rw [hpr] at hprep
        cases r with
        | error er => exact (inv_push_pop re hprep h1).2
        | ok ik =>
          have hrun : Inv st1 (instRun ev fuel st1 ik).1 := by
            unfold instRun
            split
            · exact (allInv ev fuel).processNodes _ _ hprep.2.2.1
            · exact (allInv ev fuel).genElem _ _ _ hprep.2.2.1
          exact (inv_push_pop re (hprep.trans hrun) h1).2

/-- what a `<reuse>` leaves exactly as it found it, whatever its outcome (success, unknown template, failing content,
    limit error, out of fuel): all variable scopes, the element stack, the depth, the in-specs flag; and every template
    known before is still the template of its id -/
structure Frame (a b : St ρ) : Prop where
  scopes : b.scopes = a.scopes
  elemStack : b.elemStack = a.elemStack
  depth : b.depth = a.depth
  inSpecs : b.inSpecs = a.inSpecs
  originals : Grow a b

/-- **the frame of a reuse** -/
theorem reuse_frame (ev : Evalr ρ) (fuel : Nat) (st : St ρ) (e : Elem) (h : st.scopes ≠ []) :
    Frame st (genReuse ev fuel st e).1 :=
  have hi := (allInv ev fuel).genReuse st e h
  ⟨reuse_scopes_restored ev fuel st e h, hi.2.2.2.1, hi.1, hi.2.2.2.2, (allGrow ev fuel).genReuse st e⟩

/-- the same as an equation: the state after a reuse is the state before with new values in AT MOST the fields `geo`
    (registrations of the reuse element and of the instance's elements, the previous element), `originals` (which only
    grows, `reuse_frame.originals`), `cfg` (a template may contain `<config>`), `rng`, `outside`, `idlePasses`, `gen` -/
theorem reuse_frame_eq (ev : Evalr ρ) (fuel : Nat) (st : St ρ) (e : Elem) (h : st.scopes ≠ []) :
    (genReuse ev fuel st e).1 =
      { st with geo := (genReuse ev fuel st e).1.geo, originals := (genReuse ev fuel st e).1.originals,
                cfg := (genReuse ev fuel st e).1.cfg, rng := (genReuse ev fuel st e).1.rng,
                outside := (genReuse ev fuel st e).1.outside, idlePasses := (genReuse ev fuel st e).1.idlePasses,
                gen := (genReuse ev fuel st e).1.gen } := by
  have hf := reuse_frame ev fuel st e h
  generalize (genReuse ev fuel st e).1 = s' at hf
  obtain ⟨g1, o1, s1, e1, d1, i1, c1, r1, u1, p1, n1⟩ := s'
  obtain ⟨hs, he, hd, hi, _⟩ := hf
  simp only at hs he hd hi
  subst hs he hd hi
  rfl

/-- **the template is untouched by its instances**: after a reuse (of this or any other template) the id `i` still
    names the same original, as written -/
theorem reuse_keeps_template (ev : Evalr ρ) (fuel : Nat) (st : St ρ) (e : Elem) (i : Str) (x : Elem × Option Nodes)
    (hx : lookupTable st.originals i = some x) :
    lookupTable (genReuse ev fuel st e).1.originals i = some x :=
  (allGrow ev fuel).genReuse st e i x hx

/-- the part of the state a `<reuse href="#i">` is guaranteed to find unchanged after another reuse -/
structure SameFrame (i : Str) (a b : St ρ) : Prop where
  scopes : b.scopes = a.scopes
  elemStack : b.elemStack = a.elemStack
  depth : b.depth = a.depth
  inSpecs : b.inSpecs = a.inSpecs
  template : lookupTable b.originals i = lookupTable a.originals i

theorem reuse_sameFrame (ev : Evalr ρ) (fuel : Nat) (st : St ρ) (e : Elem) (i : Str) (h : st.scopes ≠ [])
    (hk : (lookupTable st.originals i).isSome = true) : SameFrame i st (genReuse ev fuel st e).1 := by
  have hf := reuse_frame ev fuel st e h
  refine ⟨hf.scopes, hf.elemStack, hf.depth, hf.inSpecs, ?_⟩
  cases hx : lookupTable st.originals i with
  | none => rw [hx] at hk; cases hk
  | some x => exact hf.originals i x hx

/-- **instances are independent of one another**: a second `<reuse href="#i">` after a first reuse (of any template, any
    outcome) finds the same variable scopes and the same template; so if its outcome does not depend on what is outside
    this frame (registrations in `geo`, the random state, the counters `gen` / `idlePasses`, `outside`, `cfg`) — the
    hypothesis `hblind` — its events and box are those it has without the first -/
theorem instances_independent (ev : Evalr ρ) (f1 f2 : Nat) (st : St ρ) (e1 e2 : Elem) (i : Str) (h : st.scopes ≠ [])
    (hk : (lookupTable st.originals i).isSome = true)
    (hblind : ∀ a b : St ρ, SameFrame i a b → (genReuse ev f2 b e2).2 = (genReuse ev f2 a e2).2) :
    (genReuse ev f2 (genReuse ev f1 st e1).1 e2).2 = (genReuse ev f2 st e2).2 :=
  hblind _ _ (reuse_sameFrame ev f1 st e1 i h hk)

/-- … and the instance of the second is prepared in the same scopes: its own attributes around those of the place of
    use, with nothing left over from the first -/
theorem second_instance_scopes (ev : Evalr ρ) (f1 : Nat) (st : St ρ) (e1 re : Elem) (rng : ρ) (h : st.scopes ≠ []) :
    (reusePrepare ev (({ (genReuse ev f1 st e1).1 with rng := rng } : St ρ).pushElement re) re).1.scopes
      = { vars := re.attrs, defaults := [] } :: st.scopes := by
  rw [prepared_scopes, reuse_scopes_restored ev f1 st e1 h]


/-! ## (d) a closed instance: template `<specs><g id="t"><rect wh="$w 2"/></g></specs>`, two reuses -/

/-- the value of a successful result -/
def okVal {ε α : Type} (r : Except ε α) (h : r.toOption.isSome = true) : α := r.toOption.get h

theorem eq_ok_of_isOk {ε α : Type} (r : Except ε α) (h : r.toOption.isSome = true) : r = .ok (okVal r h) := by
  cases r with
  | error e => cases h
  | ok a => rfl

theorem pair_eq_ok_of_isOk {σ ε α : Type} (x : σ × Except ε α) (h : x.2.toOption.isSome = true) : x = (x.1, .ok (okVal x.2 h)) := by
  obtain ⟨s, r⟩ := x
  cases r with
  | error e => cases h
  | ok a => rfl

namespace ReuseExample
open Svgdx Ctl Gen

def rectT : Elem := { name := cs!"rect", attrs := [(cs!"wh", cs!"$w 2")] }
def gT : Elem := { name := ['g'], attrs := [(cs!"id", ['t'])] }
def kidsT : Nodes := .cons (.elem rectT none none) .nil
def tmpl : Node := .elem gT (some kidsT) none
def specsN : Node := .elem { name := cs!"specs", attrs := [] } (some (.cons tmpl .nil)) none
def re1 : Elem :=
  { name := cs!"reuse", attrs := [(cs!"id", cs!"i1"), (cs!"href", cs!"#t"), (['w'], ['3']), (['x'], cs!"10"), (['y'], cs!"20")],
    classes := [cs!"c1"] }
def re2 : Elem :=
  { name := cs!"reuse", attrs := [(cs!"id", cs!"i2"), (cs!"href", cs!"#t"), (['w'], ['5']), (['x'], cs!"30"), (['y'], ['0'])] }
def st0 : St Nat := { rng := 0, scopes := [{}] }
def doc : Nodes := Nodes.ofList [specsN, .elem re1 none none, .elem re2 none none]

/-- the copy written out by hand: `<g id=… class=… transform=…><rect wh="w 2"/></g>` -/
def hand (i : Str) (cls : List Str) (tr w : Str) : Node :=
  .elem { name := ['g'], attrs := [(cs!"id", i), (cs!"transform", tr)], classes := cls }
    (some (.cons (.elem { name := cs!"rect", attrs := [(cs!"wh", w ++ cs!" 2")] } none none) .nil)) none

/-- … and what it renders -/
def copyEvs (i : Str) (cls : List Str) (tr w : Str) : List Ev :=
  [Ev.start { name := ['g'], attrs := [(cs!"id", i), (cs!"transform", tr)], classes := cls },
   Ev.empty { name := cs!"rect", attrs := [(cs!"width", w), (cs!"height", ['2'])] },
   Ev.end_ ['g']]

theorem hand1_events :
    (processNodes simpleEvalr 30 st0 (Nodes.ofList [hand cs!"i1" [cs!"c1", ['t']] cs!"translate(10, 20)" ['3']])).2
      = .ok (copyEvs cs!"i1" [cs!"c1", ['t']] cs!"translate(10, 20)" ['3'], some ⟨10, 20, 13, 22⟩) := by decide +kernel

theorem hand2_events :
    (processNodes simpleEvalr 30 st0 (Nodes.ofList [hand cs!"i2" [['t']] cs!"translate(30, 0)" ['5']])).2
      = .ok (copyEvs cs!"i2" [['t']] cs!"translate(30, 0)" ['5'], some ⟨30, 0, 35, 2⟩) := by decide +kernel

/-- **the document with the two `<reuse>` renders the two hand-written copies, one after the other** -/
theorem doc_events :
    (processNodes simpleEvalr 30 st0 doc).2
      = .ok (copyEvs cs!"i1" [cs!"c1", ['t']] cs!"translate(10, 20)" ['3'] ++ copyEvs cs!"i2" [['t']] cs!"translate(30, 0)" ['5'],
          some ⟨10, 0, 35, 22⟩) := by decide +kernel

/-- the state after `<specs>`: the template is known -/
def stT : St Nat := { rng := 0, scopes := [{}], originals := [(['t'], gT, some kidsT)] }

theorem r1_events : (genReuse simpleEvalr 20 stT re1).2
    = .ok (copyEvs cs!"i1" [cs!"c1", ['t']] cs!"translate(10, 20)" ['3'], some ⟨10, 20, 13, 22⟩) := by decide +kernel

theorem r2_events : (genReuse simpleEvalr 20 stT re2).2
    = .ok (copyEvs cs!"i2" [['t']] cs!"translate(30, 0)" ['5'], some ⟨30, 0, 35, 2⟩) := by decide +kernel

/-- independence, computed: the second instance after the first is the second instance alone -/
theorem r2_after_r1 : (genReuse simpleEvalr 20 (genReuse simpleEvalr 20 stT re1).1 re2).2
    = (genReuse simpleEvalr 20 stT re2).2 := by decide +kernel


/-! the hypotheses of `reuse_first_try` / `genReuse_of_prepared` / `reuse_is_instance_in_scope` on this input -/

def rn1 : Node := .elem re1 none none
def sR : St Nat := registerEarly simpleEvalr stT rn1

theorem re1_attrs_ok : (evalAttributes simpleEvalr sR (applyDefaults sR re1)).toOption.isSome = true := by decide +kernel
def reV : Elem × Nat := okVal _ re1_attrs_ok

def prep := reusePrepare simpleEvalr (({ up sR with rng := reV.2 } : St Nat).pushElement reV.1) reV.1
theorem prep_ok : prep.2.toOption.isSome = true := by decide +kernel
def ik1 : Elem × Option Nodes := okVal _ prep_ok

theorem run_ok : (instRun simpleEvalr 20 prep.1 ik1).2.toOption.isSome = true := by decide +kernel
def out1 : List Ev × Option BoundingBox := okVal _ run_ok

/-- `reuse_first_try` applied: the `<reuse/>` tag is the run of the instance node in the reuse element's scope -/
theorem reuse1_is_instance :
    genNode simpleEvalr 24 sR rn1 = (down (instRun simpleEvalr 20 prep.1 ik1).1.popElement, .ok (withTail none out1.1, out1.2)) ∧
    FT simpleEvalr stT [rn1] (down (instRun simpleEvalr 20 prep.1 ik1).1.popElement) (withTail none out1.1) out1.2 :=
  reuse_first_try simpleEvalr 20 stT prep.1 _ re1 reV.1 none reV.2 ik1 out1.1 out1.2 (by decide) (by decide +kernel)
    (by decide) (eq_ok_of_isOk _ re1_attrs_ok) (pair_eq_ok_of_isOk prep prep_ok)
    (pair_eq_ok_of_isOk _ run_ok)

/-- the instance is a group template's dressed copy, and it renders the hand-written copy -/
theorem instance1_is : ik1.1.name = ['g'] ∧ ik1.1.getAttr cs!"id" = some cs!"i1" ∧ ik1.1.classes = [cs!"c1", ['t']] ∧
    ik1.1.getAttr cs!"transform" = some cs!"translate(10, 20)" ∧ ik1.2.isSome = true ∧
    out1 = (copyEvs cs!"i1" [cs!"c1", ['t']] cs!"translate(10, 20)" ['3'], some ⟨10, 20, 13, 22⟩) := by decide +kernel

/-- FINDING (why `cfg` is in the list of `reuse_frame_eq`): a template that contains `<config>` changes the limits at
    the place of use, for the rest of the document -/
def cfgT : Nodes := .cons (.elem { name := cs!"config", attrs := [(cs!"depth-limit", ['7'])] } none none) .nil
def stC : St Nat := { rng := 0, scopes := [{}], originals := [(['t'], gT, some cfgT)] }
theorem reuse_can_change_config :
    stC.cfg.depthLimit = 100 ∧ (genReuse simpleEvalr 20 stC re2).1.cfg.depthLimit = 7 ∧
    (genReuse simpleEvalr 20 stC re2).2.isOk = true := by decide +kernel

end ReuseExample

end Svgdx.Ctl

/-! ## (P) the Props-level statements -/

namespace Svgdx.Props.C18x
open Svgdx Ctl Gen Attrs

variable {ρ : Type}

/-- **`<reuse>` in closed form, every outcome**: attribute evaluation of the reuse element, preparation of the copy in
    the scope of the reuse element, ONE run of the instance node, the scope popped -/
theorem reuse_closed_form (ev : Evalr ρ) (fuel : Nat) (st : St ρ) (e : Elem) :
    genReuse ev (fuel + 1) st e =
      match evalAttributes ev st e with
      | .error er => (st, .error (.geom er))
      | .ok (re, rng) =>
        match reusePrepare ev (({ st with rng := rng } : St ρ).pushElement re) re with
        | (st1, .error er) => (st1.popElement, .error er)
        | (st1, .ok ik) => popAfter (instRun ev fuel st1 ik) :=
  genReuse_eq ev fuel st e

/-- **a reuse renders its instance node, evaluated with the reuse element's attributes bound as the innermost
    variables**: same events, same box; the state afterwards is the state after that run with the scope popped -/
theorem reuse_equals_instance_in_scope (ev : Evalr ρ) (fuel : Nat) (st st1 : St ρ) (e re : Elem) (rng : ρ)
    (ik : Elem × Option Nodes) (hre : evalAttributes ev st e = .ok (re, rng))
    (hp : reusePrepare ev (({ st with rng := rng } : St ρ).pushElement re) re = (st1, .ok ik)) :
    (genReuse ev (fuel + 1) st e).2 = (instRun ev fuel st1 ik).2 ∧
    (genReuse ev (fuel + 1) st e).1 = (instRun ev fuel st1 ik).1.popElement ∧
    st1.scopes = { vars := re.attrs, defaults := [] } :: st.scopes ∧ st1.env = re.attrs ++ st.env ∧
    st1.elemStack = re :: st.elemStack ∧ st1.depth = st.depth ∧ st1.cfg = st.cfg ∧ st1.inSpecs = st.inSpecs :=
  reuse_is_instance_in_scope ev fuel st st1 e re rng ik hre hp

/-- the variables the instance sees: the reuse element's attributes shadow those of the place of use -/
theorem instance_variable_lookup (ev : Evalr ρ) (st : St ρ) (re : Elem) (rng : ρ) (k : Str) :
    (reusePrepare ev (({ st with rng := rng } : St ρ).pushElement re) re).1.lookup k
      = match Attrs.lookupTable re.attrs k with
        | some v => some v
        | none => st.lookup k :=
  prepared_lookup ev st re rng k

/-- **`<reuse/>` among its siblings is its instance, evaluated in the reuse element's scope, among those siblings** -/
theorem reuse_tag_among_siblings (ev : Evalr ρ) (g : Nat) (st s1 st1 S2 s3 : St ρ) (e re : Elem) (tail : Option Str)
    (rng : ρ) (ik : Elem × Option Nodes) (pre post : List Node) (e1 evs e3 : List Ev) (b1 b b3 : Option BoundingBox)
    (hok : Ok st) (hpre : FT ev st pre s1 e1 b1)
    (hname : e.name = cs!"reuse")
    (hclip : (applyDefaults (registerEarly ev s1 (.elem e none tail)) e).getAttr cs!"clip-path" = none)
    (hdepth : s1.depth + 1 ≤ s1.cfg.depthLimit)
    (hre : evalAttributes ev (registerEarly ev s1 (.elem e none tail))
      (applyDefaults (registerEarly ev s1 (.elem e none tail)) e) = .ok (re, rng))
    (hp : reusePrepare ev (({ up (registerEarly ev s1 (.elem e none tail)) with rng := rng } : St ρ).pushElement re) re
      = (st1, .ok ik))
    (hrun : instRun ev g st1 ik = (S2, .ok (evs, b)))
    (hpost : FT ev (down S2.popElement) post s3 e3 b3) :
    FT ev st (pre ++ .elem e none tail :: post) s3 (e1 ++ (withTail tail evs ++ e3)) (unionOpt b1 (unionOpt b b3)) ∧
    (∀ F, NF (processNodes ev F st (Nodes.ofList (pre ++ .elem e none tail :: post))) →
      processNodes ev F st (Nodes.ofList (pre ++ .elem e none tail :: post))
        = (s3, .ok (e1 ++ (withTail tail evs ++ e3), unionOpt b1 (unionOpt b b3)))) ∧
    ∃ F0, ∀ F, F0 ≤ F → NF (processNodes ev F st (Nodes.ofList (pre ++ .elem e none tail :: post))) :=
  reuse_among_siblings ev g st s1 st1 S2 s3 e re tail rng ik pre post e1 evs e3 b1 b b3 hok hpre hname hclip hdepth hre hp
    hrun hpost

/-- **the instance of a group template is rendered as a `<g>` written there by hand**: its evaluated attributes on the
    start tag, the template's content processed inside one more variable scope (the instance's own attributes; around it,
    for a reuse, the scope of the reuse element's attributes), the end tag, registration with the content's box -/
theorem group_instance_is_a_group (ev : Evalr ρ) (f : Nat) (sI S : St ρ) (inst ne : Elem) (rng : ρ) (ks : Nodes)
    (evsK : List Ev) (bK : Option BoundingBox)
    (hname : inst.name = ['g']) (hclip : inst.getAttr cs!"clip-path" = none)
    (hdepth : sI.depth + 1 ≤ sI.cfg.depthLimit)
    (hne : evalAttributes ev sI inst = .ok (ne, rng))
    (hks : processNodes ev f (({ up sI with rng := rng } : St ρ).pushElement inst) ks = (S, .ok (evsK, bK))) :
    genNode ev (f + 4) sI (instNode (inst, some ks)) =
      (down (groupFinish ev S.popElement inst ([Ev.start (adapt ne)] ++ evsK ++ [Ev.end_ ne.name], bK)).1,
       (groupFinish ev S.popElement inst ([Ev.start (adapt ne)] ++ evsK ++ [Ev.end_ ne.name], bK)).2) :=
  genNode_group_instance ev f sI S inst ne rng ks evsK bK hname hclip hdepth hne hks

/-- **templates are never replaced or lost**, whatever is processed and whatever the outcome -/
theorem templates_only_grow (ev : Evalr ρ) (fuel : Nat) (st : St ρ) (ks : Nodes) (i : Str) (x : Elem × Option Nodes)
    (hx : lookupTable st.originals i = some x) :
    lookupTable (processNodes ev fuel st ks).1.originals i = some x :=
  (allGrow ev fuel).processNodes st ks i x hx

/-- **the frame of a reuse**, every outcome -/
theorem reuse_frame (ev : Evalr ρ) (fuel : Nat) (st : St ρ) (e : Elem) (h : st.scopes ≠ []) :
    Frame st (genReuse ev fuel st e).1 :=
  Ctl.reuse_frame ev fuel st e h

theorem reuse_changes_at_most (ev : Evalr ρ) (fuel : Nat) (st : St ρ) (e : Elem) (h : st.scopes ≠ []) :
    (genReuse ev fuel st e).1 =
      { st with geo := (genReuse ev fuel st e).1.geo, originals := (genReuse ev fuel st e).1.originals,
                cfg := (genReuse ev fuel st e).1.cfg, rng := (genReuse ev fuel st e).1.rng,
                outside := (genReuse ev fuel st e).1.outside, idlePasses := (genReuse ev fuel st e).1.idlePasses,
                gen := (genReuse ev fuel st e).1.gen } :=
  reuse_frame_eq ev fuel st e h

/-- **instances are independent of the template**: it stays as written -/
theorem template_untouched (ev : Evalr ρ) (fuel : Nat) (st : St ρ) (e : Elem) (i : Str) (x : Elem × Option Nodes)
    (hx : lookupTable st.originals i = some x) :
    lookupTable (genReuse ev fuel st e).1.originals i = some x :=
  reuse_keeps_template ev fuel st e i x hx

/-- **instances are independent of one another** (see `Ctl.instances_independent`) -/
theorem instances_independent (ev : Evalr ρ) (f1 f2 : Nat) (st : St ρ) (e1 e2 : Elem) (i : Str) (h : st.scopes ≠ [])
    (hk : (lookupTable st.originals i).isSome = true)
    (hblind : ∀ a b : St ρ, SameFrame i a b → (genReuse ev f2 b e2).2 = (genReuse ev f2 a e2).2) :
    (genReuse ev f2 (genReuse ev f1 st e1).1 e2).2 = (genReuse ev f2 st e2).2 :=
  Ctl.instances_independent ev f1 f2 st e1 e2 i h hk hblind

end Svgdx.Props.C18x

#print axioms Svgdx.Ctl.genReuse_eq
#print axioms Svgdx.Ctl.genReuse_of_prepared
#print axioms Svgdx.Ctl.reusePrepare_frame
#print axioms Svgdx.Ctl.reuse_is_instance_in_scope
#print axioms Svgdx.Ctl.genNode_reuse
#print axioms Svgdx.Ctl.reuse_first_try
#print axioms Svgdx.Ctl.reuse_among_siblings
#print axioms Svgdx.Ctl.genGroup_unfold
#print axioms Svgdx.Ctl.genNode_group_instance
#print axioms Svgdx.Ctl.allGrow
#print axioms Svgdx.Ctl.reuse_scopes_restored
#print axioms Svgdx.Ctl.reuse_frame
#print axioms Svgdx.Ctl.reuse_frame_eq
#print axioms Svgdx.Ctl.reuse_keeps_template
#print axioms Svgdx.Ctl.instances_independent
#print axioms Svgdx.Ctl.second_instance_scopes
#print axioms Svgdx.Ctl.ReuseExample.hand1_events
#print axioms Svgdx.Ctl.ReuseExample.hand2_events
#print axioms Svgdx.Ctl.ReuseExample.doc_events
#print axioms Svgdx.Ctl.ReuseExample.r1_events
#print axioms Svgdx.Ctl.ReuseExample.r2_events
#print axioms Svgdx.Ctl.ReuseExample.r2_after_r1
#print axioms Svgdx.Ctl.ReuseExample.reuse1_is_instance
#print axioms Svgdx.Ctl.ReuseExample.instance1_is
#print axioms Svgdx.Ctl.ReuseExample.reuse_can_change_config
#print axioms Svgdx.Props.C18x.reuse_closed_form
#print axioms Svgdx.Props.C18x.reuse_equals_instance_in_scope
#print axioms Svgdx.Props.C18x.instance_variable_lookup
#print axioms Svgdx.Props.C18x.reuse_tag_among_siblings
#print axioms Svgdx.Props.C18x.group_instance_is_a_group
#print axioms Svgdx.Props.C18x.templates_only_grow
#print axioms Svgdx.Props.C18x.reuse_frame
#print axioms Svgdx.Props.C18x.reuse_changes_at_most
#print axioms Svgdx.Props.C18x.template_untouched
#print axioms Svgdx.Props.C18x.instances_independent
