/-
  Svgdx.Proofs.XmlNames — every element name and attribute name in the transformer's output is a name of the
  input document or one of the constants the model writes (`genNames`, `genKeys`), so that "all names are XML
  Names" is a hypothesis about the INPUT only.
-/
import Svgdx.Proofs.XmlOutput
namespace Svgdx
open Str Attrs PassThrough

/-! ## more `KeysIn` rules -/

namespace KeysIn
variable {K : List Str} {e0 e e' : Elem}

theorem left_attrs_eq {e0' : Elem} (F : KeysIn K e0 e) (h : e0'.attrs = e0.attrs) : KeysIn K e0' e :=
  ⟨F.nodup, fun k hk => by rw [h]; exact F.keys k hk⟩

end KeysIn

theorem keys_foldl_insert (l : List (Str × Str)) (acc : Attrs) (hn : NodupKeys acc) :
    NodupKeys (l.foldl (fun a kv => Attrs.insert a kv.1 kv.2) acc) ∧
    ∀ k ∈ Attrs.keys (l.foldl (fun a kv => Attrs.insert a kv.1 kv.2) acc), k ∈ Attrs.keys acc ∨ k ∈ Attrs.keys l := by
  induction l generalizing acc with
  | nil => exact ⟨hn, fun k hk => Or.inl hk⟩
  | cons kv l ih =>
    rw [List.foldl_cons]
    obtain ⟨h1, h2⟩ := ih _ (insert_nodup hn kv.1 kv.2)
    refine ⟨h1, fun k hk => ?_⟩
    rcases h2 k hk with h | h
    · rcases Attrs.keys_insert_subset acc kv.1 kv.2 k h with rfl | h'
      · exact Or.inr (by simp [Attrs.keys])
      · exact Or.inl h'
    · exact Or.inr (by simp only [Attrs.keys, List.map_cons, List.mem_cons] at h ⊢; exact Or.inr h)

/-- `Elem.new`: attribute names come from the list given -/
theorem elem_new_keys (name : Str) (l : List (Str × Str)) :
    ∀ k ∈ Attrs.keys (Elem.new name l).attrs, k ∈ Attrs.keys l := by
  unfold Elem.new
  have key : ∀ (l' : List (Str × Str)) (acc : Attrs × List Str),
      (∀ k ∈ Attrs.keys acc.1, k ∈ Attrs.keys l) → (∀ kv ∈ l', kv.1 ∈ Attrs.keys l) →
      ∀ k ∈ Attrs.keys (l'.foldl (fun (acc : Attrs × List Str) (kv : Str × Str) =>
        if kv.1 == cs!"class" then (acc.1, (splitBy (· == ' ') kv.2).foldl classInsert acc.2)
        else (Attrs.insert acc.1 kv.1 kv.2, acc.2)) acc).1, k ∈ Attrs.keys l := by
    intro l'
    induction l' with
    | nil => intro acc h1 _; exact h1
    | cons kv rest ih =>
      intro acc h1 h2
      simp only [List.foldl_cons]
      split
      · exact ih _ h1 (fun x hx => h2 x (by simp [hx]))
      · apply ih _ _ (fun x hx => h2 x (by simp [hx]))
        intro k hk
        rcases Attrs.keys_insert_subset acc.1 kv.1 kv.2 k hk with rfl | h
        · exact h2 kv (by simp)
        · exact h1 k h
  have := key l ([], []) (by simp [Attrs.keys]) (fun kv hkv => List.mem_map.mpr ⟨kv, hkv, rfl⟩)
  dsimp only at this ⊢
  exact this

/-- `with_attrs_from`: name of the first, attribute names of both -/
theorem withAttrsFrom_keys (self other : Elem) (hs : NodupKeys self.attrs) :
    NodupKeys (self.withAttrsFrom other).attrs ∧
    ∀ k ∈ Attrs.keys (self.withAttrsFrom other).attrs, k ∈ Attrs.keys self.attrs ∨ k ∈ Attrs.keys other.attrs :=
  keys_foldl_insert other.attrs self.attrs hs

theorem withoutAttr_keys (e : Elem) (k : Str) (hn : NodupKeys e.attrs) :
    NodupKeys (e.withoutAttr k).attrs ∧ ∀ x ∈ Attrs.keys (e.withoutAttr k).attrs, x ∈ Attrs.keys e.attrs := by
  unfold Elem.withoutAttr Attrs.ofList
  dsimp only
  have hp := keys_perm (reorder_perm (e.attrs.filter (fun kv => kv.1 != k)))
  have hsub : (Attrs.keys (e.attrs.filter (fun kv => kv.1 != k))).Sublist (Attrs.keys e.attrs) :=
    (List.filter_sublist).map _
  refine ⟨?_, fun x hx => hsub.subset (hp.mem_iff.mp hx)⟩
  exact (nodupKeys_perm (reorder_perm _)).mpr (hn.sublist hsub)

/-! ## connectors -/

namespace Conn

def connKeys : List Str := [cs!"x1", cs!"y1", cs!"x2", cs!"y2", cs!"points"]

theorem fromElement_source_eq (c : Ctx) (e : Elem) (ct : ConnType) (k : Connector)
    (h : fromElement c e ct = .ok k) :
    k.source = (((e.popAttr cs!"start").1.popAttr cs!"end").1.popAttr cs!"corner-offset").1 := by
  unfold fromElement at h
  simp only [] at h
  obtain ⟨s1, -, h⟩ := bind_ok h
  obtain ⟨s2, -, h⟩ := bind_ok h
  obtain ⟨off, -, h⟩ := bind_ok h
  obtain ⟨s, -, h⟩ := bind_ok h
  obtain ⟨t, -, h⟩ := bind_ok h
  obtain ⟨p, -, h⟩ := bind_ok h
  have := pure_ok h
  rw [← this]

/-- what a rendered connector looks like: a `line` / `polyline` whose attribute names are the source's or the
    coordinates -/
def Rendered (src r : Elem) : Prop :=
  (r.name = cs!"line" ∨ r.name = cs!"polyline") ∧ KeysIn connKeys src r

theorem rendered_new (n : Str) (l : List (Str × Str)) (src : Elem) (hn : n = cs!"line" ∨ n = cs!"polyline")
    (hl : ∀ k ∈ Attrs.keys l, k ∈ connKeys) : Rendered src ((Elem.new n l).withAttrsFrom src) := by
  refine ⟨?_, ?_⟩
  · show (Elem.new n l).name = _ ∨ (Elem.new n l).name = _
    rw [Ctl.new_name]; exact hn
  · obtain ⟨h1, h2⟩ := withAttrsFrom_keys (Elem.new n l) src (Xml.elem_new_ustrong n l).1
    exact ⟨h1, fun k hk => by
      rcases h2 k hk with h | h
      · exact Or.inr (hl k (elem_new_keys n l k h))
      · exact Or.inl h⟩

theorem rendered_line (x1 y1 x2 y2 : Rat) (src : Elem) : Rendered src (lineElem x1 y1 x2 y2 src) :=
  rendered_new _ _ src (Or.inl rfl) (by simp [Attrs.keys, connKeys])

theorem render_rendered (c : Ctx) (k : Connector) (r : Elem) (h : render c k = .ok r) : Rendered k.source r := by
  unfold render at h
  simp only [] at h
  split at h
  · obtain ⟨mid, -, h⟩ := bind_ok h
    rw [← pure_ok h]; exact rendered_line _ _ _ _ _
  · obtain ⟨mid, -, h⟩ := bind_ok h
    rw [← pure_ok h]; exact rendered_line _ _ _ _ _
  · rw [← pure_ok h]; exact rendered_line _ _ _ _ _
  · obtain ⟨pts, -, h⟩ := bind_ok h
    split at h
    · rw [← pure_ok h]; exact rendered_line _ _ _ _ _
    · rw [← pure_ok h]; exact rendered_new _ _ _ (Or.inr rfl) (by simp [Attrs.keys, connKeys])

/-- **the connector step**: the element unchanged, or a `line` / `polyline` with names from it and `connKeys` -/
theorem transmuteConnector_keysIn (c : Ctx) (e e' : Elem) (hn : NodupKeys e.attrs)
    (h : transmuteConnector c e = .ok e') :
    KeysIn connKeys e e' ∧ (e'.name = e.name ∨ e'.name = cs!"line" ∨ e'.name = cs!"polyline") := by
  unfold transmuteConnector at h
  split at h
  · dsimp only at h
    split at h
    · rename_i k hk
      cases hr : render c k with
      | error er => rw [hr] at h; cases h
      | ok r =>
        rw [hr] at h
        simp only [Except.map] at h
        cases h
        obtain ⟨hname, hkeys⟩ := render_rendered c k r hr
        have hsrc := fromElement_source_eq c e _ k hk
        have hs : KeysIn connKeys e k.source := by
          rw [hsrc]; exact (((KeysIn.refl hn).pop _).pop _).pop _
        obtain ⟨w1, w2⟩ := withoutAttr_keys r cs!"edge-type" hkeys.nodup
        refine ⟨hs.trans (hkeys.trans ⟨w1, fun x hx => Or.inl (w2 x hx)⟩), Or.inr ?_⟩
        exact hname
    · cases h
  · cases h
    exact ⟨KeysIn.refl hn, Or.inl rfl⟩

end Conn

/-! ## the text shorthand -/

theorem foldl_inv_mem {α β : Type} (P : α → Prop) (f : α → β → α) (l : List β)
    (hf : ∀ a b, b ∈ l → P a → P (f a b)) (a : α) (ha : P a) : P (l.foldl f a) := by
  induction l generalizing a with
  | nil => exact ha
  | cons x xs ih =>
    rw [List.foldl_cons]
    exact ih (fun a b hb => hf a b (by simp [hb])) _ (hf a x (by simp) ha)

namespace Text

theorem textPosition_keysIn (e e' : Elem) (pos : TextPos) (hn : NodupKeys e.attrs)
    (h : textPosition e = .ok (e', pos)) : KeysIn [] e e' ∧ e'.name = e.name := by
  unfold textPosition at h
  simp only [] at h
  obtain ⟨p0, -, h⟩ := bind_ok h
  obtain ⟨tdx, -, h⟩ := bind_ok h
  obtain ⟨tdy, -, h⟩ := bind_ok h
  obtain ⟨loc, -, h⟩ := bind_ok h
  obtain ⟨offset, -, h⟩ := bind_ok h
  obtain ⟨bbo, -, h⟩ := bind_ok h
  cases bbo with
  | none => cases h
  | some bb =>
    have h1 := congrArg Prod.fst (pure_ok h)
    dsimp only at h1
    rw [← h1]
    have F := (((((KeysIn.refl (K := []) hn).pop cs!"text-dx").pop cs!"text-dy").pop cs!"text-dxy").pop
      cs!"text-loc").pop cs!"text-offset"
    exact ⟨F.of_attrs_eq rfl, rfl⟩

/-- attribute names the text shorthand writes on the generated `text` / `tspan` elements -/
def textKeys : List Str :=
  [['x'], ['y'], cs!"style", cs!"writing-mode", cs!"dx", cs!"dy"] ++ Gen.Text.text_presentation_attrs

theorem keysIn_new (K : List Str) (e : Elem) (n : Str) : KeysIn K e (Elem.new n []) := by
  have h := (Elem.new_nil n).1
  exact ⟨by rw [h]; simp [NodupKeys, Attrs.keys], fun k hk => by rw [h] at hk; simp [Attrs.keys] at hk⟩

theorem keysIn_vertical {K : List Str} {e x : Elem} (v : Bool) (k val : Str) (hk : k ∈ K) (h : KeysIn K e x) :
    KeysIn K e (if v = true then x.setAttr k val else x) := by
  split
  · exact h.set (Or.inr hk) _
  · exact h

/-- **the text shorthand**: the shape keeps (some of) its own attribute names and its name; the generated text
    elements carry names of the shape or of `textKeys` -/
theorem processTextAttr_keysIn (e orig : Elem) (tes : List TextEl) (hn : NodupKeys e.attrs)
    (h : processTextAttr e = .ok (orig, tes)) :
    (KeysIn [] e orig ∧ orig.name = e.name) ∧ ∀ t ∈ tes, KeysIn textKeys e t.el := by
  unfold processTextAttr at h
  simp only [] at h
  obtain ⟨p0, hp0, h⟩ := bind_ok h
  obtain ⟨sp, -, h⟩ := bind_ok h
  have hx := textPosition_keysIn (e.popAttr cs!"text").1 p0.1 p0.2 ((KeysIn.refl (K := []) hn).pop _).nodup hp0
  have h1 : KeysIn [] e p0.1 := ((KeysIn.refl hn).pop cs!"text").trans hx.1
  have hname : p0.1.name = e.name := hx.2
  have hO : KeysIn [] e ((p0.1.popAttr cs!"text-lsp").1.popAttr cs!"text-style").1 := (h1.pop _).pop _
  have hT0 : KeysIn textKeys e (if (p0.1.name == cs!"text") = true then p0.1 else Elem.new cs!"text" []) := by
    split
    · exact h1.mono (by simp)
    · exact keysIn_new _ _ _
  have hT1 := (hT0.set (k := ['x']) (Or.inr (by decide)) (Num.fstr p0.2.x)).set (k := ['y']) (Or.inr (by decide))
    (Num.fstr p0.2.y)
  have hT2 : KeysIn textKeys e (match ((p0.1.popAttr cs!"text-lsp").1.popAttr cs!"text-style").2 with
      | some s => (((if (p0.1.name == cs!"text") = true then p0.1 else Elem.new cs!"text" []).setAttr ['x']
          (Num.fstr p0.2.x)).setAttr ['y'] (Num.fstr p0.2.y)).setAttr cs!"style" s
      | none => ((if (p0.1.name == cs!"text") = true then p0.1 else Elem.new cs!"text" []).setAttr ['x']
          (Num.fstr p0.2.x)).setAttr ['y'] (Num.fstr p0.2.y)) := by
    split
    · exact hT1.set (Or.inr (by decide)) _
    · exact hT1
  -- the presentation attributes move from the shape to the text element
  have hwm : cs!"writing-mode" ∈ textKeys := by decide
  have hspan0 : KeysIn textKeys e (match ((p0.1.popAttr cs!"text-lsp").1.popAttr cs!"text-style").2 with
      | some s => (Elem.new cs!"tspan" []).setAttr cs!"style" s
      | none => Elem.new cs!"tspan" []) := by
    split
    · exact (keysIn_new _ _ _).set (Or.inr (by decide)) _
    · exact keysIn_new _ _ _
  -- the presentation attributes move from the shape to the text element
  generalize hr : List.foldl _ _ Gen.Text.text_presentation_attrs = r at h
  have hP : KeysIn [] e r.1 ∧ KeysIn textKeys e r.2 ∧ r.1.name = e.name := by
    rw [← hr]
    refine foldl_inv_mem (fun (q : Elem × Elem) => KeysIn [] e q.1 ∧ KeysIn textKeys e q.2 ∧ q.1.name = e.name)
      _ _ ?_ _ ⟨hO.of_attrs_eq rfl, keysIn_vertical _ _ _ hwm (hT2.of_attrs_eq rfl), hname⟩
    intro a b hb ha
    split
    · rename_i o v heq
      have ho : o = (a.1.popAttr b).1 := by rw [heq]
      refine ⟨?_, ha.2.1.set (Or.inr (List.mem_append_right _ hb)) _, ?_⟩
      · rw [ho]; exact ha.1.pop _
      · rw [ho]; exact ha.2.2
    · exact ha
  clear hr
  split at h
  · have h2 := pure_ok h
    simp only [Prod.mk.injEq] at h2
    obtain ⟨ho, ht⟩ := h2
    rw [← ho, ← ht]
    refine ⟨⟨hP.1, hP.2.2⟩, ?_⟩
    intro t htm
    simp only [List.mem_singleton] at htm
    subst htm
    exact hP.2.1
  · have h2 := pure_ok h
    simp only [Prod.mk.injEq] at h2
    obtain ⟨ho, ht⟩ := h2
    rw [← ho, ← ht]
    refine ⟨⟨hP.1, hP.2.2⟩, ?_⟩
    intro t htm
    simp only [List.mem_cons, List.mem_map] at htm
    rcases htm with rfl | ⟨q, -, rfl⟩
    · exact hP.2.1
    · dsimp only
      refine KeysIn.set ?_ (Or.inr ?_) _
      · split
        · exact hspan0.set (Or.inr (by decide)) _
        · exact hspan0.set (Or.inr (by decide)) _
      · split <;> decide

end Text

/-! ## names of the reuse instance -/

namespace Ctl
variable {ρ : Type}

theorem reuseOverride_keeps_name (re inst : Elem) : (reuseOverride re inst).name = inst.name := by
  unfold reuseOverride
  apply foldl_name
  intro a b
  split
  · rfl
  · split
    · rfl
    · split <;> rfl

theorem reuseDress_keeps_name (re inst : Elem) : (reuseDress re inst).name = inst.name := by
  unfold reuseDress
  dsimp only
  have hid : ∀ x : Elem, (match re.getAttr cs!"id" with
      | some i => x.setAttr cs!"id" i
      | none => x).name = x.name := by intro x; split <;> rfl
  have hstyle : ∀ x : Elem, (match re.getAttr cs!"style" with
      | some s => x.setAttr cs!"style" s
      | none => x).name = x.name := by intro x; split <;> rfl
  have hfold : ∀ x : Elem, (re.classes.foldl (fun (a : Elem) c => a.addClass c) x).name = x.name :=
    fun x => foldl_name (fun (a : Elem) c => a.addClass c) (fun _ _ => rfl) _ _
  split
  · exact (hfold _).trans ((hstyle _).trans ((hid _).trans rfl))
  · exact (hfold _).trans ((hstyle _).trans ((hid _).trans rfl))

theorem reuseInstance_name_cases (re inst : Elem) :
    (reuseInstance re inst).name = inst.name ∨ (reuseInstance re inst).name = ['g'] := by
  unfold reuseInstance
  dsimp only
  split
  · right
    show (Elem.new ['g'] []).name = ['g']
    exact new_name _ _
  · left
    rw [reuseDress_keeps_name, reuseOverride_keeps_name]

theorem reuse_chain_name (ev : Evalr ρ) (st : St ρ) (re orig inst1 : Elem) (rng : ρ) (pos : Gen.Position)
    (hn : NodupKeys orig.attrs) (h : evalAttributes ev st orig.expandCompoundSize = .ok (inst1, rng)) :
    ((Elem.setPositionAttrs pos (reuseInstance re inst1)).name = orig.name ∨
      (Elem.setPositionAttrs pos (reuseInstance re inst1)).name = ['g']) ∧
    ((Elem.setPositionAttrs pos (reuseInstance re inst1).expandCompoundPos).name = orig.name ∨
      (Elem.setPositionAttrs pos (reuseInstance re inst1).expandCompoundPos).name = ['g']) := by
  have F1 := expandCompoundSize_frame compoundSizeKeys_sub (Frame.refl (K := touchedKeys) hn)
  have n1 : inst1.name = orig.name := (evalAttributes_name ev st _ inst1 rng h).trans F1.name
  have k2 := evalAttributes_keysIn ev st _ inst1 rng F1.nodup h
  have k3 := reuseInstance_keysIn re inst1 k2.nodup
  have F4 := expandCompoundPos_frame compoundPosKeys_sub (Frame.refl (K := touchedKeys) k3.nodup)
  have F5 := setPositionAttrs_frame setPosKeys_sub pos (Frame.refl (K := touchedKeys) k3.nodup)
  have F6 := setPositionAttrs_frame setPosKeys_sub pos (Frame.refl (K := touchedKeys) F4.nodup)
  rw [F5.name, F6.name, F4.name]
  rcases reuseInstance_name_cases re inst1 with h1 | h1
  · rw [h1, n1]; exact ⟨Or.inl rfl, Or.inl rfl⟩
  · rw [h1]; exact ⟨Or.inr rfl, Or.inr rfl⟩

/-- `adapt` keeps the name and drops attributes -/
theorem adapt_keysIn (e : Elem) : KeysIn [] e (adapt e) := by
  unfold adapt
  dsimp only
  refine KeysIn.of_attrs_eq (e := e.attrs.foldl
      (fun (acc : Elem) (kv : Str × Str) =>
        if kv.1 == cs!"class" || kv.1 == cs!"data-src-line" || kv.1 == ['_'] || kv.1 == cs!"__" then acc
        else acc.setAttr kv.1 kv.2) (Elem.new e.name [])) ?_ rfl
  apply KeysIn.foldl
  · intro a b hb ha
    split
    · exact ha
    · exact ha.set (Or.inl (List.mem_map.mpr ⟨b, hb, rfl⟩)) _
  · exact Text.keysIn_new _ _ _

end Ctl

/-! ## the closure conditions for names -/

namespace Xml
open Ctl Ctl.Emit Spec
variable {ρ : Type}

/-- attribute names the model itself writes -/
def genKeys : List Str := Ctl.instKeys ++ Conn.connKeys ++ Text.textKeys ++ [cs!"text"]

/-- element names the model itself writes -/
def genNames : List Str := [['g'], cs!"line", cs!"polyline", cs!"text", cs!"tspan"]

theorem genKeys_names : ∀ k ∈ genKeys, isName k = true := by decide +kernel
theorem genNames_names : ∀ k ∈ genNames, isName k = true := by decide +kernel

/-- element and attribute names are XML Names (and attribute names unique, which the frame lemmas need) -/
def NameD (e : Elem) : Prop :=
  NodupKeys e.attrs ∧ isName e.name = true ∧ ∀ k ∈ Attrs.keys e.attrs, isName k = true

theorem named_of_keysIn {K : List Str} {e0 e : Elem} (F : KeysIn K e0 e) (hK : ∀ k ∈ K, k ∈ genKeys)
    (hn : e.name = e0.name ∨ e.name ∈ genNames) (h0 : NameD e0) : NameD e := by
  refine ⟨F.nodup, ?_, fun k hk => ?_⟩
  · rcases hn with h | h
    · rw [h]; exact h0.2.1
    · exact genNames_names _ h
  · rcases F.keys k hk with h | h
    · exact h0.2.2 k h
    · exact genKeys_names k (hK k h)

theorem touched_sub_gen : ∀ k ∈ touchedKeys, k ∈ genKeys := by decide +kernel
theorem inst_sub_gen : ∀ k ∈ Ctl.instKeys, k ∈ genKeys := by decide +kernel
theorem conn_sub_gen : ∀ k ∈ Conn.connKeys, k ∈ genKeys := by decide +kernel
theorem text_sub_gen : ∀ k ∈ Text.textKeys, k ∈ genKeys := by decide +kernel

theorem resolvePosition_named (c : Ctx) (e e' : Elem) (hd : NameD e) (h : e.resolvePosition c = .ok e') : NameD e' := by
  have F := resolvePosition_frame c hd.1 h
  exact named_of_keysIn ((KeysIn.of_frame F).left_attrs_eq (e0' := e) rfl) touched_sub_gen (Or.inl F.name) hd

theorem evalAttributes_named (ev : Evalr ρ) (st : St ρ) (e e' : Elem) (rng : ρ) (hd : NameD e)
    (h : evalAttributes ev st e = .ok (e', rng)) : NameD e' :=
  named_of_keysIn (evalAttributes_keysIn ev st e e' rng hd.1 h) (by simp)
    (Or.inl (evalAttributes_name ev st e e' rng h)) hd

theorem otherPipeline_named (ev : Evalr ρ) (st : St ρ) (e e' : Elem) (rng : ρ) (hd : NameD e)
    (h : otherPipeline ev st e = .ok (e', rng)) : NameD e' := by
  unfold otherPipeline at h
  obtain ⟨p1, h1, h⟩ := bind_ok h
  obtain ⟨e2, h2, h⟩ := bind_ok h
  obtain ⟨e3, h3, h⟩ := bind_ok h
  obtain ⟨e4, h4, h⟩ := bind_ok h
  obtain ⟨p5, h5, h⟩ := bind_ok h
  obtain ⟨e6, h6, h⟩ := bind_ok h
  have := pure_ok h
  simp only [Prod.mk.injEq] at this
  obtain ⟨rfl, -⟩ := this
  have d1 : NameD p1.1 := evalAttributes_named ev st e p1.1 p1.2 hd h1
  have d2 : NameD e2 := resolvePosition_named _ _ _ d1 h2
  have d3 : NameD e3 := by
    obtain ⟨k3, n3⟩ := Conn.transmuteConnector_keysIn _ e2 e3 d2.1 h3
    refine named_of_keysIn k3 conn_sub_gen ?_ d2
    rcases n3 with h | h | h
    · exact Or.inl h
    · exact Or.inr (by rw [h]; decide)
    · exact Or.inr (by rw [h]; decide)
  have d4 : NameD e4 := by
    have F := transmuteDxDy_frame (K := touchedKeys) dxdyKeys_sub (Frame.refl d3.1) h4
    exact named_of_keysIn (KeysIn.of_frame F) touched_sub_gen (Or.inl F.name) d3
  have d5 : NameD p5.1 := evalAttributes_named ev _ e4 p5.1 p5.2 d4 h5
  exact resolvePosition_named _ _ _ d5 h6

theorem augKeys_names : ∀ k ∈ Ctl.augKeys, isName k = true := by decide +kernel

/-- a tree element stored as a default (without `id` / `match`) still has unique Names as attribute names -/
theorem storedDefault_named (e : Elem) (hd : NameD e) : NameD (storedDefault e) := by
  refine ⟨storedDefault_nodup hd.1, hd.2.1, fun k hk => ?_⟩
  obtain ⟨x, hx, rfl⟩ := List.mem_map.mp hk
  exact hd.2.2 x.1 (List.mem_map.mpr ⟨x, storedDefault_mem hx, rfl⟩)

/-- `apply_defaults` writes attribute names of the element, of the stored defaults, and `style` / `text-style` /
    `transform` -/
theorem applyDefaultList_named (defs : List (ElementMatch × Elem)) (e : Elem) (hd : NameD e)
    (hdefs : ∀ d ∈ defs, NameD d.2) : NameD (applyDefaultList defs e) := by
  refine ⟨applyDefaultList_nodup defs hd.1, by rw [applyDefaultList_name]; exact hd.2.1, fun k hk => ?_⟩
  obtain ⟨x, hx, rfl⟩ := List.mem_map.mp hk
  rcases applyDefaultList_mem hx with h | ⟨d, hdm, h⟩ | h
  · exact hd.2.2 x.1 (List.mem_map.mpr ⟨x, h, rfl⟩)
  · exact (hdefs d hdm).2.2 x.1 (List.mem_map.mpr ⟨x, h, rfl⟩)
  · exact augKeys_names x.1 h

theorem closed_names (ev : Evalr ρ) : Closed NameD NameD NameD ev where
  storeD := fun e h => storedDefault_named e h
  applyD := fun defs e hd hdefs => applyDefaultList_named defs e hd hdefs
  tD := fun _ h => h
  adapt := fun e hd => named_of_keysIn (adapt_keysIn e) (by simp) (Or.inl (adapt_name e)) hd
  evalAttrs := fun st e e' rng hd h => evalAttributes_named ev st e e' rng hd h
  pipeline := fun st e e' rng hd h => otherPipeline_named ev st e e' rng hd h
  textAttr := fun e orig tes hd h => by
    obtain ⟨⟨k1, n1⟩, k2⟩ := Text.processTextAttr_keysIn e orig tes hd.1 h
    have hn := processTextAttr_names e orig tes h
    refine ⟨named_of_keysIn k1 (by simp) (Or.inl n1) hd, fun t ht => ?_⟩
    refine named_of_keysIn (k2 t ht) text_sub_gen (Or.inr ?_) hd
    cases tes with
    | nil => cases ht
    | cons t0 spans =>
      rcases List.mem_cons.mp ht with rfl | hsp
      · rw [hn.1]; decide
      · rw [hn.2 t hsp]; decide
  setText := fun e t hd => named_of_keysIn ((KeysIn.refl (K := [cs!"text"]) hd.1).set (Or.inr (by simp)) t)
    (by decide) (Or.inl rfl) hd
  withBB := fun e bb hd => hd
  resolvePos := fun c e e' hd h => resolvePosition_named c e e' hd h
  reuseD := fun st re orig inst1 rng pos _ ho h => by
    obtain ⟨f1, f2⟩ := Ctl.reuse_chain_keysIn ev st re orig inst1 rng pos ho.1 h
    obtain ⟨n1, n2⟩ := Ctl.reuse_chain_name ev st re orig inst1 rng pos ho.1 h
    exact ⟨named_of_keysIn f1 inst_sub_gen (n1.imp id (fun h => by rw [h]; decide)) ho,
      named_of_keysIn f2 inst_sub_gen (n2.imp id (fun h => by rw [h]; decide)) ho⟩
  reuseT := fun st re orig inst1 rng pos _ ho h => by
    obtain ⟨f1, f2⟩ := Ctl.reuse_chain_keysIn ev st re orig inst1 rng pos ho.1 h
    obtain ⟨n1, n2⟩ := Ctl.reuse_chain_name ev st re orig inst1 rng pos ho.1 h
    exact ⟨named_of_keysIn f1 inst_sub_gen (n1.imp id (fun h => by rw [h]; decide)) ho,
      named_of_keysIn f2 inst_sub_gen (n2.imp id (fun h => by rw [h]; decide)) ho⟩

/-- the input condition: every element of the document tree has unique attribute names, and they and the element
    name are XML Names (the reader guarantees the first and, for a conforming parser, the second) -/
def DocNames (ks : Nodes) : Prop := NodesT NameD ks

def StateNames (st : St ρ) : Prop := SInv NameD NameD st

/-- no stored default anywhere in the scope stack (the initial state) -/
def NoDefaults (st : St ρ) : Prop := ∀ s ∈ st.scopes, s.defaults = []

theorem stateNames_of_nil (st : St ρ) (h : st.originals = []) (hdf : NoDefaults st) : StateNames st := by
  unfold StateNames SInv OrigOK
  rw [h]
  refine ⟨?_, fun s hs d hd => ?_⟩
  · intro p hp
    cases hp
  · rw [hdf s hs] at hd
    cases hd

/-- **every element name and attribute name of the output is an XML Name if those of the input are**: names in the
    output are names of the input or constants of the model (`genNames`, `genKeys`), all of which are Names -/
theorem transformDoc_namesOk (ev : Evalr ρ) (fuel : Nat) (st : St ρ) (ks : Nodes) (evs : List Ev)
    (bb : Option Gen.BoundingBox) (hst : StateNames st) (hks : DocNames ks)
    (h : (transformDoc ev fuel st ks).2.2 = .ok (evs, bb)) : NamesOk evs := by
  have := transformDoc_emits (closed_names ev) fuel st ks hst hks evs bb h
  unfold NamesOk
  rw [List.all_eq_true]
  intro x hx
  have hx' := this x hx
  have conv : ∀ e : Elem, NameD e → (isName e.name && e.attrs.all fun kv => isName kv.1) = true := by
    intro e hd
    simp only [Bool.and_eq_true, List.all_eq_true]
    exact ⟨hd.2.1, fun kv hkv => hd.2.2 kv.1 (List.mem_map.mpr ⟨kv, hkv, rfl⟩)⟩
  cases x with
  | start e => exact conv e (hx'.elim id id)
  | empty e => exact conv e (hx'.elim id id)
  | _ => rfl

/-- **C02 + C05 for the transformer's own output, all hypotheses on the INPUT**: for every document whose elements
    are as the reader builds them (unique attribute names, `class` in the class list) with XML Names, every
    evaluator, state without prior templates and fuel — a successful result is written as well-formed XML content
    and is reproduced byte for byte by a second read-and-write pass -/
theorem transformDoc_wellformed_fixed_of_input (ev : Evalr ρ) (fuel : Nat) (st : St ρ) (ks : Nodes) (evs : List Ev)
    (bb : Option Gen.BoundingBox) (hst : st.originals = []) (hdf : NoDefaults st) (hu : DocUnique ks) (hn : DocNames ks)
    (h : (transformDoc ev fuel st ks).2.2 = .ok (evs, bb)) :
    Spec.wfContent (write evs) = true ∧ passThroughW (write evs) = some (write evs) :=
  transformDoc_output_wellformed_fixed ev fuel st ks evs bb (stateUnique_of_nil st hst) hu h
    (transformDoc_namesOk ev fuel st ks evs bb (stateNames_of_nil st hst hdf) hn h)

/-- one condition on an input element: as the reader builds it, with XML Names -/
def InputElemOk (e : Elem) : Prop :=
  UStrong e ∧ isName e.name = true ∧ ∀ k ∈ Attrs.keys e.attrs, isName k = true

/-- the same theorem with a single hypothesis on the document tree -/
theorem transformDoc_wellformed_fixed_of_input' (ev : Evalr ρ) (fuel : Nat) (st : St ρ) (ks : Nodes) (evs : List Ev)
    (bb : Option Gen.BoundingBox) (hst : st.originals = []) (hdf : NoDefaults st) (hks : NodesT InputElemOk ks)
    (h : (transformDoc ev fuel st ks).2.2 = .ok (evs, bb)) :
    Spec.wfContent (write evs) = true ∧ passThroughW (write evs) = some (write evs) :=
  transformDoc_wellformed_fixed_of_input ev fuel st ks evs bb hst hdf
    (nodesT_mono (fun _ h => h.1) ks hks) (nodesT_mono (fun _ h => ⟨h.1.1, h.2.1, h.2.2⟩) ks hks) h

/-- the events that get written: a real SVG document as it is, anything else after the root rewrite -/
def finalEvents (cfg : Doc.RootCfg) (real : Bool) (evs : List Ev) (bb : Option Gen.BoundingBox) : Option (List Ev) :=
  if real then some evs else Doc.postprocess cfg evs bb

/-- the hypotheses of well-formedness survive the last step before writing -/
theorem finalEvents_ok (cfg : Doc.RootCfg) (real : Bool) (evs fin : List Ev) (bb : Option Gen.BoundingBox)
    (hf : finalEvents cfg real evs bb = some fin) (hb : Balanced evs) (hn : NamesOk evs) (hu : AttrsUnique evs) :
    Balanced fin ∧ NamesOk fin ∧ AttrsUnique fin := by
  unfold finalEvents at hf
  split at hf
  · cases hf; exact ⟨hb, hn, hu⟩
  · exact ⟨postprocess_balanced cfg evs fin bb hb hf, postprocess_preserves cfg evs fin bb hf hn hu⟩

/-- **C02 (strict) + C05 for a whole successful run, hypotheses on the INPUT only**: the transformation succeeds,
    the root rewrite succeeds and the guarded writer (`writeChecked`, the `XmlCharGuard` of fix 031e68d) returns a
    text — then that text is well-formed XML content in the strict sense (every character an XML `Char`) and a
    second read-and-write pass reproduces it byte for byte -/
theorem transformDoc_written_strict (ev : Evalr ρ) (fuel : Nat) (st st' : St ρ) (ks : Nodes) (real : Bool)
    (evs fin : List Ev) (bb : Option Gen.BoundingBox) (cfg : Doc.RootCfg) (out : Str)
    (hst : st.originals = []) (hdf : NoDefaults st) (hks : NodesT InputElemOk ks)
    (h : transformDoc ev fuel st ks = (real, st', .ok (evs, bb)))
    (hf : finalEvents cfg real evs bb = some fin) (hw : writeChecked fin = some out) :
    Spec.wfContentStrict out = true ∧ passThroughW out = some out := by
  have h' : (transformDoc ev fuel st ks).2.2 = .ok (evs, bb) := by rw [h]
  have hu := transformDoc_attrsUnique ev fuel st ks evs bb (stateUnique_of_nil st hst)
    (nodesT_mono (fun _ h => h.1) ks hks) h'
  have hn := transformDoc_namesOk ev fuel st ks evs bb (stateNames_of_nil st hst hdf)
    (nodesT_mono (fun _ h => ⟨h.1.1, h.2.1, h.2.2⟩) ks hks) h'
  have hb := transformDoc_balanced ev fuel st ks evs bb h'
  obtain ⟨fb, fn, fu⟩ := finalEvents_ok cfg real evs fin bb hf hb hn hu
  refine ⟨writeChecked_wellformed_strict fin out hw fb fn fu, ?_⟩
  rw [writeChecked_eq fin out hw]
  exact write_passthrough fin (namesOk_writable fin fb fn)

end Xml

end Svgdx
