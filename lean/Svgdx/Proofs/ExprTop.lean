/-
  Svgdx.Proofs.ExprTop — the size of a tree is linear in the length of its printed form, so the fuel
  the entry point `evaluate` supplies (`fuelFor`) is enough; the top-level form of `eval_print`.
-/
import Svgdx.Proofs.ExprOk
namespace Svgdx
namespace Expr
open Str

section
variable {α : Type}

mutual
theorem szPrim_le (p : Prim α) : szPrim p + 15 ≤ 16 * (pPrim p).length := by
  cases p with
  | num x => simp [szPrim, pPrim]
  | str s => simp [szPrim, pPrim]
  | var v => simp [szPrim, pPrim]
  | elref v => simp [szPrim, pPrim]
  | paren a => have := szArgs_le a; simp [szPrim, pPrim]; omega
  | neg q => have := szPrim_le q; simp [szPrim, pPrim]; omega
  | call f a => have := szArgs_le a; simp [szPrim, pPrim]; omega
theorem szFact_le (f : Fact α) : szFact f + 13 ≤ 16 * (pFact f).length := by
  cases f with
  | mk p tl => have := szPrim_le p; have := szMulTail_le tl; simp [szFact, pFact]; omega
theorem szMulTail_le (tl : MulTail α) : szMulTail tl ≤ 16 * (pMulTail tl).length + 1 := by
  cases tl with
  | nil => simp [szMulTail, pMulTail]
  | cons op p tl => have := szPrim_le p; have := szMulTail_le tl; simp [szMulTail, pMulTail]; omega
theorem szTerm_le (t : Term α) : szTerm t + 11 ≤ 16 * (pTerm t).length := by
  cases t with
  | mk f tl => have := szFact_le f; have := szAddTail_le tl; simp [szTerm, pTerm]; omega
theorem szAddTail_le (tl : AddTail α) : szAddTail tl ≤ 16 * (pAddTail tl).length + 1 := by
  cases tl with
  | nil => simp [szAddTail, pAddTail]
  | cons b f tl => have := szFact_le f; have := szAddTail_le tl; simp [szAddTail, pAddTail]; omega
theorem szCmp_le (c : Cmp α) : szCmp c + 10 ≤ 16 * (pCmp c).length := by
  cases c with
  | single t => have := szTerm_le t; simp [szCmp, pCmp]; omega
  | pair t op t2 => have := szTerm_le t; have := szTerm_le t2; simp [szCmp, pCmp]; omega
theorem szLogic_le (e : Logic α) : szLogic e + 8 ≤ 16 * (pLogic e).length := by
  cases e with
  | mk c tl => have := szCmp_le c; have := szLogTail_le tl; simp [szLogic, pLogic]; omega
theorem szLogTail_le (tl : LogTail α) : szLogTail tl ≤ 16 * (pLogTail tl).length + 1 := by
  cases tl with
  | nil => simp [szLogTail, pLogTail]
  | cons op c tl => have := szCmp_le c; have := szLogTail_le tl; simp [szLogTail, pLogTail]; omega
theorem szEList_le (l : EList α) : szEList l + 7 ≤ 16 * (pEList l).length := by
  cases l with
  | mk e tl => have := szLogic_le e; have := szETail_le tl; simp [szEList, pEList]; omega
theorem szETail_le (tl : ETail α) : szETail tl ≤ 16 * (pETail tl).length := by
  cases tl with
  | nil => simp [szETail, pETail]
  | cons e tl => have := szLogic_le e; have := szETail_le tl; simp [szETail, pETail]; omega
theorem szArgs_le (a : Args α) : szArgs a ≤ 16 * (pArgs a).length + 1 := by
  cases a with
  | none => simp [szArgs, pArgs]
  | some l => have := szEList_le l; simp [szArgs, pArgs]; omega
end

end

section
variable {α σ : Type} (o : Ops α σ) (lk : Lookup α σ) (elref : Str → Res α)

/-- `evaluate` (the body of `{{…}}` after tokenizing) on the printed form of a comma list -/
theorem evaluate_print (l : EList α) (ck : List Str) (st st' : σ) (v : Value α)
    (hd : dEList o lk elref l ck st = .ok (v, st')) :
    evaluate o lk elref ck (pEList l) st = .ok (v, st') := by
  have hsz := szEList_le l
  obtain ⟨k, hk, hle⟩ := succ_of_le (n := szEList l) (m := fuelFor (pEList l))
    (by simp [fuelFor]; omega)
  have h := elist_ok o lk elref l ck st st' v [] k hd hle (by simp [headLevel])
  simp only [List.append_nil] at h
  have hne := isClose_pEList l []
  simp only [List.append_nil] at hne
  unfold evaluate
  rw [hk, exprList_not_close o lk elref k ck false _ st hne, h]

end
end Expr
end Svgdx
