/-
  Svgdx.Proofs.ExprInvAll — the invariant of ExprInv holds for every function of the descent, at every
  fuel, on every token list.
-/
import Svgdx.Proofs.ExprInv
namespace Svgdx
namespace Expr
open Str

section
variable {α σ : Type} (o : Ops α σ) (lk : Lookup α σ) (elref : Str → Res α)

structure AllInv (n : Nat) : Prop where
  primary : ∀ ck ts st, Inv lk elref ts (primary o lk elref n ck ts st)
  factorLoop : ∀ ck acc ts st, Inv lk elref ts (factorLoop o lk elref n ck acc ts st)
  factor : ∀ ck ts st, Inv lk elref ts (factor o lk elref n ck ts st)
  termLoop : ∀ ck acc ts st, Inv lk elref ts (termLoop o lk elref n ck acc ts st)
  term : ∀ ck ts st, Inv lk elref ts (term o lk elref n ck ts st)
  comparison : ∀ ck ts st, Inv lk elref ts (comparison o lk elref n ck ts st)
  logicalLoop : ∀ ck acc ts st, Inv lk elref ts (logicalLoop o lk elref n ck acc ts st)
  logical : ∀ ck ts st, Inv lk elref ts (logical o lk elref n ck ts st)
  exprListLoop : ∀ ck out ts st, Inv lk elref ts (exprListLoop o lk elref n ck out ts st)
  exprList : ∀ ck b ts st, Inv lk elref ts (exprList o lk elref n ck b ts st)

theorem allInv_zero : AllInv o lk elref 0 := by
  constructor <;> intros <;> intro v ts' st' h <;>
    simp [primary, factorLoop, factor, termLoop, term, comparison, logicalLoop, logical,
      exprListLoop, exprList] at h

theorem primary_step (n : Nat) (ih : AllInv o lk elref n) (ck : List Str) (ts : List (Token α))
    (st : σ) : Inv lk elref ts (primary o lk elref (n + 1) ck ts st) := by
  intro v ts' st' h
  cases ts with
  | nil => simp [primary] at h
  | cons t r =>
    cases t with
    | number x =>
      simp [primary] at h
      obtain ⟨_, rfl, _⟩ := h
      exact Pre.cons lk elref trivial rfl (Pre.refl lk elref _)
    | string s =>
      simp [primary] at h
      obtain ⟨_, rfl, _⟩ := h
      exact Pre.cons lk elref trivial rfl (Pre.refl lk elref _)
    | var x =>
      cases hl : lk x ck st with
      | error e => simp [primary, hl] at h
      | ok res =>
        obtain ⟨e, st1⟩ := res
        simp [primary, hl] at h
        obtain ⟨_, rfl, _⟩ := h
        exact Pre.cons lk elref ⟨ck, st, _, hl⟩ rfl (Pre.refl lk elref _)
    | elref x =>
      cases hl : elref x with
      | error e => simp [primary, hl] at h
      | ok y =>
        simp [primary, hl] at h
        obtain ⟨_, rfl, _⟩ := h
        exact Pre.cons lk elref ⟨y, hl⟩ rfl (Pre.refl lk elref _)
    | openParen =>
      cases hx : exprList o lk elref n ck true r st with
      | error e => simp [primary, hx] at h
      | ok res =>
        obtain ⟨e, ts1, st1⟩ := res
        have hp := ih.exprList ck true r st e ts1 st1 hx
        cases ts1 with
        | nil => simp [primary, hx] at h
        | cons t1 ts2 =>
          cases t1 <;> simp [primary, hx] at h
          obtain ⟨_, rfl, _⟩ := h
          exact Pre.paren lk elref hp
    | sub =>
      cases hx : primary o lk elref n ck r st with
      | error e => simp [primary, hx] at h
      | ok res =>
        obtain ⟨v1, ts1, st1⟩ := res
        have hp := ih.primary ck r st v1 ts1 st1 hx
        cases hn : v1.oneNumber with
        | error e => simp [primary, hx, hn] at h
        | ok x =>
          simp [primary, hx, hn] at h
          obtain ⟨_, rfl, _⟩ := h
          exact Pre.cons lk elref trivial rfl hp
    | symbol name =>
      cases hf : parseFunction name with
      | unknown => simp [primary, hf] at h
      | unmodelled => simp [primary, hf] at h
      | known f =>
        cases r with
        | nil => simp [primary, hf] at h
        | cons t0 ts1 =>
          cases t0 <;> simp [primary, hf] at h
          cases hx : exprList o lk elref n ck true ts1 st with
          | error e => simp [hx] at h
          | ok res =>
            obtain ⟨args, ts2, st1⟩ := res
            have hp := ih.exprList ck true ts1 st args ts2 st1 hx
            cases he : evalFunction o f args st1 with
            | error e => simp [hx, he] at h
            | ok res2 =>
              obtain ⟨e, st2⟩ := res2
              cases ts2 with
              | nil => simp [hx, he] at h
              | cons t2 ts3 =>
                cases t2 <;> simp [hx, he] at h
                obtain ⟨_, rfl, _⟩ := h
                exact Pre.cons lk elref (Or.inl ⟨f, hf⟩) rfl (Pre.paren lk elref hp)
    | closeParen => simp [primary] at h
    | comma => simp [primary] at h
    | add => simp [primary] at h
    | mul => simp [primary] at h
    | div => simp [primary] at h
    | mod => simp [primary] at h

theorem factorLoop_step (n : Nat) (ih : AllInv o lk elref n) (ck : List Str) (acc : α)
    (ts : List (Token α)) (st : σ) : Inv lk elref ts (factorLoop o lk elref (n + 1) ck acc ts st) := by
  intro v ts' st' h
  cases ts with
  | nil =>
    simp [factorLoop] at h
    obtain ⟨_, rfl, _⟩ := h
    exact Pre.refl lk elref _
  | cons t r =>
    cases t with
    | number x =>
      simp [factorLoop] at h
      obtain ⟨_, rfl, _⟩ := h
      exact Pre.refl lk elref _
    | var x =>
      simp [factorLoop] at h
      obtain ⟨_, rfl, _⟩ := h
      exact Pre.refl lk elref _
    | elref x =>
      simp [factorLoop] at h
      obtain ⟨_, rfl, _⟩ := h
      exact Pre.refl lk elref _
    | string x =>
      simp [factorLoop] at h
      obtain ⟨_, rfl, _⟩ := h
      exact Pre.refl lk elref _
    | symbol x =>
      simp [factorLoop] at h
      obtain ⟨_, rfl, _⟩ := h
      exact Pre.refl lk elref _
    | openParen =>
      simp [factorLoop] at h
      obtain ⟨_, rfl, _⟩ := h
      exact Pre.refl lk elref _
    | closeParen =>
      simp [factorLoop] at h
      obtain ⟨_, rfl, _⟩ := h
      exact Pre.refl lk elref _
    | comma =>
      simp [factorLoop] at h
      obtain ⟨_, rfl, _⟩ := h
      exact Pre.refl lk elref _
    | add =>
      simp [factorLoop] at h
      obtain ⟨_, rfl, _⟩ := h
      exact Pre.refl lk elref _
    | sub =>
      simp [factorLoop] at h
      obtain ⟨_, rfl, _⟩ := h
      exact Pre.refl lk elref _
    | mul =>
      cases hx : primary o lk elref n ck r st with
      | error e => simp [factorLoop, hx] at h
      | ok res =>
        obtain ⟨v1, ts1, st1⟩ := res
        have hp := ih.primary ck r st v1 ts1 st1 hx
        cases hn : v1.oneNumber with
        | error e => simp [factorLoop, hx, hn] at h
        | ok y =>
          simp [factorLoop, hx, hn] at h
          have hl := ih.factorLoop ck _ ts1 st1 v ts' st' h
          exact Pre.cons lk elref trivial rfl (Pre.trans lk elref hp hl)
    | div =>
      cases hx : primary o lk elref n ck r st with
      | error e => simp [factorLoop, hx] at h
      | ok res =>
        obtain ⟨v1, ts1, st1⟩ := res
        have hp := ih.primary ck r st v1 ts1 st1 hx
        cases hn : v1.oneNumber with
        | error e => simp [factorLoop, hx, hn] at h
        | ok y =>
          simp [factorLoop, hx, hn] at h
          have hl := ih.factorLoop ck _ ts1 st1 v ts' st' h
          exact Pre.cons lk elref trivial rfl (Pre.trans lk elref hp hl)
    | mod =>
      cases hx : primary o lk elref n ck r st with
      | error e => simp [factorLoop, hx] at h
      | ok res =>
        obtain ⟨v1, ts1, st1⟩ := res
        have hp := ih.primary ck r st v1 ts1 st1 hx
        cases hn : v1.oneNumber with
        | error e => simp [factorLoop, hx, hn] at h
        | ok y =>
          simp [factorLoop, hx, hn] at h
          have hl := ih.factorLoop ck _ ts1 st1 v ts' st' h
          exact Pre.cons lk elref trivial rfl (Pre.trans lk elref hp hl)

theorem termLoop_step (n : Nat) (ih : AllInv o lk elref n) (ck : List Str) (acc : α)
    (ts : List (Token α)) (st : σ) : Inv lk elref ts (termLoop o lk elref (n + 1) ck acc ts st) := by
  intro v ts' st' h
  cases ts with
  | nil =>
    simp [termLoop] at h
    obtain ⟨_, rfl, _⟩ := h
    exact Pre.refl lk elref _
  | cons t r =>
    cases t with
    | number x =>
      simp [termLoop] at h
      obtain ⟨_, rfl, _⟩ := h
      exact Pre.refl lk elref _
    | var x =>
      simp [termLoop] at h
      obtain ⟨_, rfl, _⟩ := h
      exact Pre.refl lk elref _
    | elref x =>
      simp [termLoop] at h
      obtain ⟨_, rfl, _⟩ := h
      exact Pre.refl lk elref _
    | string x =>
      simp [termLoop] at h
      obtain ⟨_, rfl, _⟩ := h
      exact Pre.refl lk elref _
    | symbol x =>
      simp [termLoop] at h
      obtain ⟨_, rfl, _⟩ := h
      exact Pre.refl lk elref _
    | openParen =>
      simp [termLoop] at h
      obtain ⟨_, rfl, _⟩ := h
      exact Pre.refl lk elref _
    | closeParen =>
      simp [termLoop] at h
      obtain ⟨_, rfl, _⟩ := h
      exact Pre.refl lk elref _
    | comma =>
      simp [termLoop] at h
      obtain ⟨_, rfl, _⟩ := h
      exact Pre.refl lk elref _
    | add =>
      cases hx : factor o lk elref n ck r st with
      | error e => simp [termLoop, hx] at h
      | ok res =>
        obtain ⟨v1, ts1, st1⟩ := res
        have hp := ih.factor ck r st v1 ts1 st1 hx
        cases hn : v1.oneNumber with
        | error e => simp [termLoop, hx, hn] at h
        | ok y =>
          simp [termLoop, hx, hn] at h
          have hl := ih.termLoop ck _ ts1 st1 v ts' st' h
          exact Pre.cons lk elref trivial rfl (Pre.trans lk elref hp hl)
    | sub =>
      cases hx : factor o lk elref n ck r st with
      | error e => simp [termLoop, hx] at h
      | ok res =>
        obtain ⟨v1, ts1, st1⟩ := res
        have hp := ih.factor ck r st v1 ts1 st1 hx
        cases hn : v1.oneNumber with
        | error e => simp [termLoop, hx, hn] at h
        | ok y =>
          simp [termLoop, hx, hn] at h
          have hl := ih.termLoop ck _ ts1 st1 v ts' st' h
          exact Pre.cons lk elref trivial rfl (Pre.trans lk elref hp hl)
    | mul =>
      simp [termLoop] at h
      obtain ⟨_, rfl, _⟩ := h
      exact Pre.refl lk elref _
    | div =>
      simp [termLoop] at h
      obtain ⟨_, rfl, _⟩ := h
      exact Pre.refl lk elref _
    | mod =>
      simp [termLoop] at h
      obtain ⟨_, rfl, _⟩ := h
      exact Pre.refl lk elref _

theorem factor_step (n : Nat) (ih : AllInv o lk elref n) (ck : List Str) (ts : List (Token α))
    (st : σ) : Inv lk elref ts (factor o lk elref (n + 1) ck ts st) := by
  intro v ts' st' h
  cases hx : primary o lk elref n ck ts st with
  | error e => simp [factor, hx] at h
  | ok res =>
    obtain ⟨v1, ts1, st1⟩ := res
    have hp := ih.primary ck ts st v1 ts1 st1 hx
    cases hn : v1.oneNumber with
    | error e =>
      simp [factor, hx, hn] at h
      obtain ⟨_, rfl, _⟩ := h
      exact hp
    | ok x =>
      cases hl : factorLoop o lk elref n ck x ts1 st1 with
      | error e => simp [factor, hx, hn, hl] at h
      | ok res2 =>
        obtain ⟨y, ts2, st2⟩ := res2
        have hq := ih.factorLoop ck x ts1 st1 y ts2 st2 hl
        simp [factor, hx, hn, hl] at h
        obtain ⟨_, rfl, _⟩ := h
        exact Pre.trans lk elref hp hq

theorem term_step (n : Nat) (ih : AllInv o lk elref n) (ck : List Str) (ts : List (Token α))
    (st : σ) : Inv lk elref ts (term o lk elref (n + 1) ck ts st) := by
  intro v ts' st' h
  cases hx : factor o lk elref n ck ts st with
  | error e => simp [term, hx] at h
  | ok res =>
    obtain ⟨v1, ts1, st1⟩ := res
    have hp := ih.factor ck ts st v1 ts1 st1 hx
    cases hn : v1.oneNumber with
    | error e =>
      simp [term, hx, hn] at h
      obtain ⟨_, rfl, _⟩ := h
      exact hp
    | ok x =>
      cases hl : termLoop o lk elref n ck x ts1 st1 with
      | error e => simp [term, hx, hn, hl] at h
      | ok res2 =>
        obtain ⟨y, ts2, st2⟩ := res2
        have hq := ih.termLoop ck x ts1 st1 y ts2 st2 hl
        simp [term, hx, hn, hl] at h
        obtain ⟨_, rfl, _⟩ := h
        exact Pre.trans lk elref hp hq

theorem comparison_step (n : Nat) (ih : AllInv o lk elref n) (ck : List Str) (ts : List (Token α))
    (st : σ) : Inv lk elref ts (comparison o lk elref (n + 1) ck ts st) := by
  intro v ts' st' h
  cases hx : term o lk elref n ck ts st with
  | error e => simp [comparison, hx] at h
  | ok res =>
    obtain ⟨v1, ts1, st1⟩ := res
    have hp := ih.term ck ts st v1 ts1 st1 hx
    cases hn : v1.oneNumber with
    | error e =>
      simp [comparison, hx, hn] at h
      obtain ⟨_, rfl, _⟩ := h
      exact hp
    | ok first =>
      cases ts1 with
      | nil => simp [comparison, hx, hn] at h; obtain ⟨_, h2, _⟩ := h; subst h2; exact hp
      | cons t r =>
        cases t with
        | symbol s =>
          cases hc : parseCmpOp s with
          | none => simp [comparison, hx, hn, hc] at h; obtain ⟨_, h2, _⟩ := h; subst h2; exact hp
          | some op =>
            cases hx2 : term o lk elref n ck r st1 with
            | error e => simp [comparison, hx, hn, hc, hx2] at h
            | ok res2 =>
              obtain ⟨v2, ts2, st2⟩ := res2
              have hq := ih.term ck r st1 v2 ts2 st2 hx2
              cases hn2 : v2.oneNumber with
              | error e => simp [comparison, hx, hn, hc, hx2, hn2] at h
              | ok second =>
                simp [comparison, hx, hn, hc, hx2, hn2] at h
                obtain ⟨_, rfl, _⟩ := h
                exact Pre.trans lk elref hp
                  (Pre.cons lk elref (Or.inr (Or.inl (by simp [hc]))) rfl hq)
        | _ => simp [comparison, hx, hn] at h; obtain ⟨_, h2, _⟩ := h; subst h2; exact hp

theorem logicalLoop_step (n : Nat) (ih : AllInv o lk elref n) (ck : List Str) (acc : Value α)
    (ts : List (Token α)) (st : σ) :
    Inv lk elref ts (logicalLoop o lk elref (n + 1) ck acc ts st) := by
  intro v ts' st' h
  cases ts with
  | nil =>
    simp [logicalLoop] at h
    obtain ⟨_, rfl, _⟩ := h
    exact Pre.refl lk elref _
  | cons t r =>
    cases t with
    | symbol s =>
      cases hc : parseLogOp s with
      | none =>
        simp [logicalLoop, hc] at h
        obtain ⟨_, rfl, _⟩ := h
        exact Pre.refl lk elref _
      | some op =>
        cases hx : comparison o lk elref n ck r st with
        | error e => simp [logicalLoop, hc, hx] at h
        | ok res =>
          obtain ⟨v1, ts1, st1⟩ := res
          have hp := ih.comparison ck r st v1 ts1 st1 hx
          cases hn : v1.oneNumber with
          | error e => simp [logicalLoop, hc, hx, hn] at h
          | ok other =>
            cases ha : acc.oneNumber with
            | error e => simp [logicalLoop, hc, hx, hn, ha] at h
            | ok x =>
              simp [logicalLoop, hc, hx, hn, ha] at h
              have hl := ih.logicalLoop ck _ ts1 st1 v ts' st' h
              exact Pre.cons lk elref (Or.inr (Or.inr (by simp [hc]))) rfl
                (Pre.trans lk elref hp hl)
    | _ =>
      simp [logicalLoop] at h
      obtain ⟨_, rfl, _⟩ := h
      exact Pre.refl lk elref _

theorem logical_step (n : Nat) (ih : AllInv o lk elref n) (ck : List Str) (ts : List (Token α))
    (st : σ) : Inv lk elref ts (logical o lk elref (n + 1) ck ts st) := by
  intro v ts' st' h
  cases hx : comparison o lk elref n ck ts st with
  | error e => simp [logical, hx] at h
  | ok res =>
    obtain ⟨v1, ts1, st1⟩ := res
    have hp := ih.comparison ck ts st v1 ts1 st1 hx
    simp [logical, hx] at h
    exact Pre.trans lk elref hp (ih.logicalLoop ck v1 ts1 st1 v ts' st' h)

theorem exprListLoop_step (n : Nat) (ih : AllInv o lk elref n) (ck : List Str)
    (out : List (Atom α)) (ts : List (Token α)) (st : σ) :
    Inv lk elref ts (exprListLoop o lk elref (n + 1) ck out ts st) := by
  intro v ts' st' h
  cases hx : logical o lk elref n ck ts st with
  | error e => simp [exprListLoop, hx] at h
  | ok res =>
    obtain ⟨v1, ts1, st1⟩ := res
    have hp := ih.logical ck ts st v1 ts1 st1 hx
    cases ts1 with
    | nil =>
      simp [exprListLoop, hx] at h
      obtain ⟨_, rfl, _⟩ := h
      exact hp
    | cons t r =>
      cases t with
      | comma =>
        simp [exprListLoop, hx] at h
        exact Pre.trans lk elref hp
          (Pre.cons lk elref trivial rfl (ih.exprListLoop ck _ r st1 v ts' st' h))
      | _ =>
        simp [exprListLoop, hx] at h
        obtain ⟨_, rfl, _⟩ := h
        exact hp

theorem exprList_step (n : Nat) (ih : AllInv o lk elref n) (ck : List Str) (b : Bool)
    (ts : List (Token α)) (st : σ) : Inv lk elref ts (exprList o lk elref (n + 1) ck b ts st) := by
  intro v ts' st' h
  have loop : exprListLoop o lk elref n ck [] ts st = .ok (v, ts', st') → Pre lk elref ts ts' :=
    ih.exprListLoop ck [] ts st v ts' st'
  cases b with
  | false => simp [exprList] at h; exact loop h
  | true =>
    cases ts with
    | nil => simp [exprList] at h; exact loop h
    | cons t r =>
      cases t with
      | closeParen =>
        simp [exprList] at h
        obtain ⟨_, rfl, _⟩ := h
        exact Pre.refl lk elref _
      | _ => simp [exprList] at h; exact loop h

theorem allInv : ∀ n, AllInv o lk elref n
  | 0 => allInv_zero o lk elref
  | n + 1 =>
    have ih := allInv n
    { primary := primary_step o lk elref n ih
      factorLoop := factorLoop_step o lk elref n ih
      factor := factor_step o lk elref n ih
      termLoop := termLoop_step o lk elref n ih
      term := term_step o lk elref n ih
      comparison := comparison_step o lk elref n ih
      logicalLoop := logicalLoop_step o lk elref n ih
      logical := logical_step o lk elref n ih
      exprListLoop := exprListLoop_step o lk elref n ih
      exprList := exprList_step o lk elref n ih }

/-- what a successful `evaluate` has seen: balanced parentheses and only good tokens -/
theorem evaluate_ok_inv (ck : List Str) (ts : List (Token α)) (st st' : σ) (v : Value α)
    (h : evaluate o lk elref ck ts st = .ok (v, st')) :
    bal ts = 0 ∧ ∀ t ∈ ts, GoodTok lk elref t := by
  unfold evaluate at h
  cases hx : exprList o lk elref (fuelFor ts) ck false ts st with
  | error e => simp [hx] at h
  | ok res =>
    obtain ⟨e, ts1, st1⟩ := res
    have hp := (allInv o lk elref (fuelFor ts)).exprList ck false ts st e ts1 st1 hx
    cases ts1 with
    | cons t r => simp [hx] at h
    | nil =>
      obtain ⟨pre, hpre, hb, hg⟩ := hp
      simp at hpre
      subst hpre
      exact ⟨hb, hg⟩

end
end Expr
end Svgdx
