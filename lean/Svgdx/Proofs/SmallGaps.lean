/-
  Svgdx.Proofs.SmallGaps — two small gaps closed.

  (e) C14: the hypotheses of `eval_once_per_element_partial` ("no `$`, no `{{` in the string the first
      evaluation produced") are true of every number in `fstr` form: every character of `Num.fstr q` is a
      digit, `-` or `.`; hence evaluating it again returns it unchanged (`eval_once_for_numeric_results`).

  (f) C17: a flat document (any number of sibling comments / text / cdata / leaf elements other than
      `reuse` and `config`) never ends in the depth-limit error when one more level fits
      (`flat_document_never_hits_depth_limit`).  It is the corollary of the general statement, also proved here
      (`allG`, by induction on fuel over the mutual block, `genReuse` excluded):
      `nesting_within_limit_never_hits_depth_limit` — a reuse-free, config-free forest with
      `st.depth + nestingDepths ks ≤ st.cfg.depthLimit` is never rejected with the depth-limit error, and the
      configuration is unchanged (`nesting_within_limit_keeps_cfg`).
-/
import Svgdx.Props.C14
import Svgdx.Proofs.DepthShift
import Svgdx.Proofs.DefaultsApply
import Svgdx.Ctl.SimpleEval

/-! ## (e) the characters of `fstr` -/

namespace Svgdx.Num
open Str

/-- a digit, a minus sign or a decimal point -/
def NumCh (c : Char) : Prop := Str.isDigit c = true ∨ c = '-' ∨ c = '.'

theorem isDigit_eq_core (c : Char) : Str.isDigit c = c.isDigit := by
  simp only [Str.isDigit, Char.isDigit, Char.le_def]

theorem natToStr_digits (n : Nat) : ∀ c ∈ natToStr n, Str.isDigit c = true := by
  intro c hc
  rw [isDigit_eq_core]
  have : natToStr n = Nat.toDigits 10 n := by
    simp only [natToStr, Nat.toString_eq_repr, Nat.toList_repr]
  rw [this] at hc
  exact Nat.isDigit_of_mem_toDigits (by decide) (by decide) hc

theorem natToStr_numCh (n : Nat) : ∀ c ∈ natToStr n, NumCh c :=
  fun c hc => Or.inl (natToStr_digits n c hc)

theorem intToStr_numCh (i : Int) : ∀ c ∈ intToStr i, NumCh c := by
  intro c hc
  unfold intToStr at hc
  split at hc
  · rcases List.mem_cons.1 hc with h | h
    · exact Or.inr (Or.inl h)
    · exact natToStr_numCh _ c h
  · exact natToStr_numCh _ c hc

theorem padLeft_numCh (n : Nat) (s : Str) (hs : ∀ c ∈ s, NumCh c) : ∀ c ∈ padLeft n '0' s, NumCh c := by
  intro c hc
  unfold padLeft at hc
  rcases List.mem_append.1 hc with h | h
  · rw [List.mem_replicate] at h
    exact Or.inl (by rw [h.2]; decide)
  · exact hs c h

theorem fmt3_numCh (x : Rat) : ∀ c ∈ fmt3 x, NumCh c := by
  intro c hc
  unfold fmt3 at hc
  simp only [List.mem_append] at hc
  rcases hc with ((h | h) | h) | h
  · split at h
    · rw [List.mem_singleton] at h; exact Or.inr (Or.inl h)
    · cases h
  · exact natToStr_numCh _ c h
  · rw [List.mem_singleton] at h; exact Or.inr (Or.inr h)
  · exact padLeft_numCh 3 _ (natToStr_numCh _) c h

theorem mem_of_mem_trimEndMatches (d : Char) (s : Str) (c : Char) (h : c ∈ trimEndMatches d s) : c ∈ s := by
  unfold trimEndMatches at h
  rw [List.mem_reverse] at h
  exact List.mem_reverse.1 ((List.dropWhile_sublist _).mem h)

/-- **every character of `fstr q` is a digit, `-` or `.`** -/
theorem fstr_numCh (q : Rat) : ∀ c ∈ fstr q, NumCh c := by
  intro c hc
  unfold fstr at hc
  split at hc
  · rw [List.mem_singleton] at hc
    exact Or.inl (by rw [hc]; decide)
  · split at hc
    · exact intToStr_numCh _ c hc
    · exact fmt3_numCh q c (mem_of_mem_trimEndMatches _ _ c (mem_of_mem_trimEndMatches _ _ c hc))

theorem numCh_ne_dollar {c : Char} (h : NumCh c) : c ≠ '$' := by
  rintro rfl
  rcases h with h | h | h <;> revert h <;> decide

theorem numCh_ne_brace {c : Char} (h : NumCh c) : c ≠ '{' := by
  rintro rfl
  rcases h with h | h | h <;> revert h <;> decide

/-- a string without `{` has no `{{` -/
theorem findSub_braces_none (s : Str) (h : ∀ c ∈ s, c ≠ '{') : Str.findSub ['{', '{'] s = none := by
  induction s with
  | nil => rfl
  | cons c cs ih =>
    have hc : ('{' == c) = false := by
      rw [beq_eq_false_iff_ne]
      exact fun e => h c (by simp) e.symm
    have hsw : startsWith ['{', '{'] (c :: cs) = false := by
      simp [startsWith, stripPrefix, hc]
    rw [findSub, hsw, ih (fun d hd => h d (by simp [hd]))]
    rfl

theorem fstr_no_dollar (q : Rat) : '$' ∉ fstr q :=
  fun h => numCh_ne_dollar (fstr_numCh q _ h) rfl

theorem fstr_no_braces (q : Rat) : Str.findSub ['{', '{'] (fstr q) = none :=
  findSub_braces_none _ (fun c hc => numCh_ne_brace (fstr_numCh q c hc))

example : fstr (-7 / 2) = cs!"-3.5" := by decide +kernel
example : fstr (1 / 3) = cs!"0.333" := by decide +kernel
example : fstr 12 = cs!"12" := by decide +kernel

end Svgdx.Num

namespace Svgdx.Props.C14x
open Svgdx Svgdx.Expr

section
variable {α σ : Type} (o : Ops α σ) (elref : Str → Res α)

/-- **eval_once_for_numeric_results** (the unconditional form of `C14.eval_once_per_element_partial` for
    numbers): a number in `fstr` form is left alone by `eval_attr`: same text, random source untouched. -/
theorem eval_once_for_numeric_results (env : Env) (q : Rat) (st : σ) :
    evalAttr o env elref (Num.fstr q) st = .ok (Num.fstr q, st) :=
  evalAttr_plain o env elref (Num.fstr q) st (Num.fstr_no_dollar q) (Num.fstr_no_braces q)

end

/-- the same with the formatter taken from the operations record, for the exact-rational instance: what
    `o.fstr` produces is a fixed point of `eval_attr` under these very operations -/
theorem eval_once_for_numeric_results_ratOps {σ : Type} (m : Libm Rat) (rnd : σ → Rat × σ)
    (rint : Int → Int → σ → Rat × σ) (elref : Str → Res Rat) (env : Env) (q : Rat) (st : σ) :
    evalAttr (ratOps m rnd rint) env elref ((ratOps m rnd rint).fstr q) st
      = .ok ((ratOps m rnd rint).fstr q, st) :=
  eval_once_for_numeric_results (ratOps m rnd rint) elref env q st

end Svgdx.Props.C14x


/-! ## (f) nesting depth, not length -/

namespace Svgdx.Ctl
open Svgdx Gen

variable {ρ : Type}

/-- the invariant of `CtlInv` plus: the configuration is untouched -/
def K (a b : St ρ) : Prop := Inv a b ∧ b.cfg = a.cfg

theorem K.refl (a : St ρ) (h : a.scopes ≠ []) : K a a := ⟨Inv.refl a h, rfl⟩
theorem K.trans {a b c : St ρ} (h1 : K a b) (h2 : K b c) : K a c := ⟨h1.1.trans h2.1, h2.2.trans h1.2⟩
theorem K.ne {a b : St ρ} (h : K a b) : b.scopes ≠ [] := h.1.2.2.1
theorem K.depth {a b : St ρ} (h : K a b) : b.depth = a.depth := h.1.1

/-- `n` more nesting levels fit under the limit -/
def Fits (st : St ρ) (n : Nat) : Prop := st.depth + n ≤ st.cfg.depthLimit

theorem K.fits {a b : St ρ} (h : K a b) {n : Nat} (hf : Fits a n) : Fits b n := by
  unfold Fits at *
  rw [h.depth, h.2]
  exact hf

/-- the state is handed on with depth, scopes, configuration intact, and the outcome is not the depth-limit error -/
def G {α : Type} (a : St ρ) (x : St ρ × Except CErr α) : Prop := K a x.1 ∧ ND x

theorem nd_mk_ok {α : Type} (s : St ρ) (a : α) : ND (s, (.ok a : Except CErr α)) := ND_of_ok rfl

theorem nd_mk_err {α : Type} (s : St ρ) (er : CErr) (h : isDepthErr er = false) :
    ND (s, (.error er : Except CErr α)) := by
  intro e he
  cases he
  exact h

theorem g_ok {α : Type} (a : St ρ) (h : a.scopes ≠ []) (v : α) : G a (a, (.ok v : Except CErr α)) :=
  ⟨K.refl a h, nd_mk_ok _ _⟩

theorem g_err {α : Type} (a : St ρ) (h : a.scopes ≠ []) (er : CErr) (hd : isDepthErr er = false) :
    G a (a, (.error er : Except CErr α)) :=
  ⟨K.refl a h, nd_mk_err _ _ hd⟩

theorem G.left {α : Type} {a b : St ρ} {x : St ρ × Except CErr α} (h : K a b) (hx : G b x) : G a x :=
  ⟨h.trans hx.1, hx.2⟩

theorem g_seq {α β : Type} {a : St ρ} (x : St ρ × Except CErr α) (f : St ρ → α → St ρ × Except CErr β)
    (hx : G a x) (hf : K a x.1 → ∀ v, x.2 = .ok v → G x.1 (f x.1 v)) : G a (seq x f) := by
  unfold seq
  split
  · rename_i e he
    exact ⟨hx.1, nd_mk_err _ _ (hx.2 e he)⟩
  · rename_i v hv
    exact G.left hx.1 (hf hx.1 v hv)

theorem k_of_fields (a b : St ρ) (h : a.scopes ≠ []) (h1 : b.depth = a.depth) (h2 : b.scopes = a.scopes)
    (h3 : b.elemStack = a.elemStack) (h4 : b.inSpecs = a.inSpecs) (h5 : b.cfg = a.cfg) : K a b :=
  ⟨inv_of_fields a b h h1 h2 h3 h4, h5⟩

theorem cfg_setVar (a : St ρ) (k v : Str) : (a.setVar k v).cfg = a.cfg := by
  unfold St.setVar
  split <;> rfl

theorem k_setVar (a : St ρ) (k v : Str) (h : a.scopes ≠ []) : K a (a.setVar k v) :=
  ⟨inv_setVar a k v h, cfg_setVar a k v⟩

theorem k_foldl_setVar (vars : List (Str × Str)) (a : St ρ) (h : a.scopes ≠ []) :
    K a (vars.foldl (fun s kv => s.setVar kv.1 kv.2) a) := by
  induction vars generalizing a with
  | nil => exact K.refl a h
  | cons x xs ih =>
    simp only [List.foldl_cons]
    have h1 := k_setVar a x.1 x.2 h
    exact h1.trans (ih _ h1.ne)

theorem k_updateElement (ev : Evalr ρ) (a : St ρ) (e : Elem) (h : a.scopes ≠ []) : K a (updateElement ev a e) := by
  refine ⟨inv_updateElement ev a e h, ?_⟩
  unfold updateElement
  split <;> rfl

theorem k_registerOriginal (ev : Evalr ρ) (a : St ρ) (e : Elem) (k : Option Nodes) (h : a.scopes ≠ []) :
    K a (registerOriginal ev a e k) := by
  refine ⟨inv_registerOriginal ev a e k h, ?_⟩
  unfold registerOriginal
  split <;> rfl

theorem k_setPrev (a : St ρ) (e : Elem) (h : a.scopes ≠ []) : K a (setPrev a e) := ⟨inv_setPrev a e h, rfl⟩

theorem k_registerEarly (ev : Evalr ρ) (st : St ρ) (n : Node) (h : st.scopes ≠ []) : K st (registerEarly ev st n) := by
  unfold registerEarly
  split
  · exact k_registerOriginal ev st _ _ h
  · exact K.refl st h

theorem g_withRng {α : Type} (st : St ρ) (r : Except Err (α × ρ)) (h : st.scopes ≠ []) : G st (withRng st r) := by
  unfold withRng
  split
  · exact ⟨k_of_fields _ _ h rfl rfl rfl rfl rfl, nd_mk_ok _ _⟩
  · exact g_err st h _ rfl

/-- an error of a fold is an error of one of its steps -/
theorem foldlM_nd {β γ : Type} (f : β → γ → Except CErr β)
    (hf : ∀ b c e, f b c = .error e → isDepthErr e = false) :
    ∀ (l : List γ) (b : β) (e : CErr), l.foldlM f b = .error e → isDepthErr e = false := by
  intro l
  induction l with
  | nil => intro b e h; cases h
  | cons c cs ih =>
    intro b e h
    rw [List.foldlM_cons] at h
    cases hb : f b c with
    | error e' =>
      rw [hb] at h
      cases h
      exact hf b c _ hb
    | ok b' =>
      rw [hb] at h
      exact ih b' e h

theorem g_genVar (ev : Evalr ρ) (st : St ρ) (e : Elem) (h : st.scopes ≠ []) : G st (genVar ev st e) := by
  unfold genVar
  dsimp only
  split
  · rename_i er heq
    refine g_err st h er ?_
    refine foldlM_nd _ ?_ _ _ _ heq
    intro b c e' hb
    split at hb
    · cases hb
    · split at hb
      · cases hb; rfl
      · split at hb
        · cases hb; rfl
        · cases hb
  · rename_i newVars rng _
    have h0 : K st { st with rng := rng } := k_of_fields _ _ h rfl rfl rfl rfl rfl
    exact ⟨h0.trans (k_foldl_setVar newVars _ h), nd_mk_ok _ _⟩

theorem shapeEvents_nd (e : Elem) (er : CErr) (h : shapeEvents e = .error er) : isDepthErr er = false := by
  by_cases hc : e.hasAttr cs!"text" = true
  · cases hp : Text.processTextAttr e with
    | error e1 =>
      simp only [shapeEvents, hc, hp, if_true, Except.error.injEq] at h
      subst h
      rfl
    | ok v =>
      simp only [shapeEvents, hc, hp, if_true, reduceCtorEq] at h
  · simp only [shapeEvents, hc, if_false, reduceCtorEq] at h

theorem g_commentEvents (ev : Evalr ρ) (st : St ρ) (e : Elem) (h : st.scopes ≠ []) : G st (commentEvents ev st e) := by
  unfold commentEvents
  split
  · split
    · exact ⟨k_of_fields _ _ h rfl rfl rfl rfl rfl, nd_mk_ok _ _⟩
    · exact g_err st h _ rfl
  · exact g_ok st h _

theorem g_elementEvents (ev : Evalr ρ) (st : St ρ) (e : Elem) (h : st.scopes ≠ []) : G st (elementEvents ev st e) := by
  unfold elementEvents
  have hc := g_commentEvents ev st e h
  refine g_seq _ _ hc ?_
  intro _ evs1 _
  refine ⟨K.refl _ hc.1.ne, ?_⟩
  intro er her
  cases hs : shapeEvents e with
  | error e' =>
    rw [hs] at her
    cases her
    exact shapeEvents_nd e _ hs
  | ok v =>
    rw [hs] at her
    cases her

theorem g_genOther (ev : Evalr ρ) (st : St ρ) (e : Elem) (h : st.scopes ≠ []) : G st (genOther ev st e) := by
  unfold genOther
  apply g_seq _ _ (g_withRng st _ h)
  intro _ e' _
  have h1 : (withRng st (otherPipeline ev st e)).1.scopes ≠ [] := (g_withRng st (otherPipeline ev st e) h).1.ne
  dsimp only
  have h2 := k_updateElement ev (withRng st (otherPipeline ev st e)).1 e' h1
  split
  · exact ⟨h2, nd_mk_err _ _ rfl⟩
  · apply G.left h2
    have h3 : K (updateElement ev (withRng st (otherPipeline ev st e)).1 e')
        (if (‹Option Gen.BoundingBox›).isSome then setPrev (updateElement ev (withRng st (otherPipeline ev st e)).1 e') e'
         else updateElement ev (withRng st (otherPipeline ev st e)).1 e') := by
      split
      · exact k_setPrev _ _ h2.ne
      · exact K.refl _ h2.ne
    have h4 := g_elementEvents ev _ e' h3.ne
    refine g_seq _ _ (G.left h3 h4) ?_
    intro _ evs _
    exact g_ok _ h4.1.ne _

theorem k_finishContainer (ev : Evalr ρ) (st : St ρ) ne bb (h : st.scopes ≠ []) :
    K st (finishContainer ev st ne bb) := by
  unfold finishContainer
  dsimp only
  have h0 : K st (if bb.isSome || notRenderedInPlace ne.name then updateElement ev st { ne with contentBBox := bb } else st) := by
    split
    · exact k_updateElement ev st _ h
    · exact K.refl st h
  split
  · exact h0.trans (k_setPrev _ _ h0.ne)
  · exact h0

theorem g_preTest (ev : Evalr ρ) (st : St ρ) c w i (h : st.scopes ≠ []) : G st (preTest ev st c w i) := by
  unfold preTest
  split
  · exact g_ok st h _
  · exact g_withRng st _ h
  · exact g_ok st h _

theorem g_postTest (ev : Evalr ρ) (st : St ρ) u (h : st.scopes ≠ []) : G st (postTest ev st u) := by
  unfold postTest
  split
  · exact g_withRng st _ h
  · exact g_ok st h _

theorem k_bindLoopVar (st : St ρ) n v (h : st.scopes ≠ []) : K st (bindLoopVar st n v) := by
  unfold bindLoopVar
  split
  · exact K.refl st h
  · exact k_setVar st _ _ h

theorem k_bindForVars (st : St ρ) v iv item idx (h : st.scopes ≠ []) : K st (bindForVars st v iv item idx) := by
  unfold bindForVars
  have h1 := k_setVar st v item h
  dsimp only
  split
  · exact h1.trans (k_setVar _ _ _ h1.ne)
  · exact h1

theorem g_push_pop {α : Type} {a : St ρ} {x : St ρ × Except CErr α} (e : Elem) (hx : G (a.pushElement e) x)
    (ha : a.scopes ≠ []) : G a (popAfter x) :=
  ⟨⟨(inv_push_pop e hx.1.1 ha).1, hx.1.2⟩, hx.2⟩

theorem g_groupFinish (ev : Evalr ρ) (st : St ρ) e r (h : st.scopes ≠ []) : G st (groupFinish ev st e r) := by
  unfold groupFinish
  dsimp only
  have hu := k_updateElement ev st { e with contentBBox := r.2 } h
  have hsp := hu.trans (k_setPrev _ { e with contentBBox := r.2 } hu.ne)
  have hst : K st (if r.2.isSome then setPrev (updateElement ev st { e with contentBBox := r.2 }) { e with contentBBox := r.2 }
      else updateElement ev st { e with contentBBox := r.2 }) := by
    split
    · exact hsp
    · exact hu
  split
  · exact ⟨hst, nd_mk_ok _ _⟩
  · split
    · exact ⟨hst, nd_mk_ok _ _⟩
    · exact ⟨hst, nd_mk_err _ _ rfl⟩

/-- `clipPost` may turn a result into a `.geom` error, never into the depth-limit error -/
theorem g_clipPost (ev : Evalr ρ) (e : Elem) (x : St ρ × Res) (h : x.1.scopes ≠ []) (hnd : ND x) :
    G x.1 (clipPost ev e x) := by
  unfold clipPost
  split
  · split
    · split
      · exact g_err _ h _ rfl
      · split
        · split
          · exact g_err _ h _ rfl
          · exact ⟨k_updateElement ev _ _ h, nd_mk_ok _ _⟩
          · exact ⟨K.refl _ h, hnd⟩
        · exact ⟨K.refl _ h, hnd⟩
    · exact ⟨K.refl _ h, hnd⟩
  · exact ⟨K.refl _ h, hnd⟩

theorem g_genDefaults (st : St ρ) (kids : Option Nodes) (h : st.scopes ≠ []) : G st (genDefaults st kids) :=
  ⟨⟨inv_genDefaults st kids h, (defStep_genDefaults st kids).cfg⟩, by unfold genDefaults; exact nd_mk_ok _ _⟩

theorem loopHead_nd (ev : Evalr ρ) (st : St ρ) (e : Elem) (er : CErr) (h : loopHead ev st e = .error er) :
    isDepthErr er = false := by
  unfold loopHead at h
  simp only [bind, Except.bind] at h
  repeat' split at h
  all_goals first
    | (cases h; rfl)
    | (cases h; done)
    | (cases h
       rename_i hq
       repeat' split at hq
       all_goals first | (cases hq; rfl) | cases hq)

/-! ### the trees -/

/-- not `reuse` (jumps into a template), not `config` (changes the limit for what follows) -/
def okName (e : Elem) : Bool := e.name != cs!"reuse" && e.name != cs!"config"

mutual
/-- no `reuse`, no `config`, at any level -/
def cleanNode : Node → Bool
  | .elem e none _ => okName e
  | .elem e (some ks) _ => okName e && cleanNodes ks
  | .comment _ _ => true
  | .text _ => true
  | .cdata _ => true
def cleanNodes : Nodes → Bool
  | .nil => true
  | .cons n r => cleanNode n && cleanNodes r
end

mutual
/-- how many element levels a node adds: siblings do not add up, children do -/
def nestingDepth : Node → Nat
  | .elem _ none _ => 1
  | .elem _ (some ks) _ => 1 + nestingDepths ks
  | .comment _ _ => 0
  | .text _ => 0
  | .cdata _ => 0
def nestingDepths : Nodes → Nat
  | .nil => 0
  | .cons n r => max (nestingDepth n) (nestingDepths r)
end

def cleanOpt : Option Nodes → Bool
  | none => true
  | some ks => cleanNodes ks

def ndOpt : Option Nodes → Nat
  | none => 0
  | some ks => nestingDepths ks

theorem cleanNode_elem (e : Elem) (kids : Option Nodes) (t : Option Str) :
    cleanNode (.elem e kids t) = (okName e && cleanOpt kids) := by
  cases kids <;> simp [cleanNode, cleanOpt]

theorem nestingDepth_elem (e : Elem) (kids : Option Nodes) (t : Option Str) :
    nestingDepth (.elem e kids t) = 1 + ndOpt kids := by
  cases kids <;> simp [nestingDepth, ndOpt]

theorem mem_toList_ok : ∀ (ks : Nodes) (n : Node), n ∈ ks.toList → cleanNodes ks = true →
    cleanNode n = true ∧ nestingDepth n ≤ nestingDepths ks
  | .nil, n, h, _ => by simp [Nodes.toList] at h
  | .cons m r, n, h, hc => by
    simp only [Nodes.toList, List.mem_cons] at h
    simp only [cleanNodes, Bool.and_eq_true] at hc
    simp only [nestingDepths]
    rcases h with rfl | h
    · exact ⟨hc.1, Nat.le_max_left _ _⟩
    · have := mem_toList_ok r n h hc.2
      exact ⟨this.1, Nat.le_trans this.2 (Nat.le_max_right _ _)⟩

theorem okName_false (e : Elem) (h : okName e = true) :
    (e.name == cs!"reuse") = false ∧ (e.name == cs!"config") = false := by
  simp only [okName, Bool.and_eq_true, bne_iff_ne, ne_eq] at h
  exact ⟨beq_eq_false_iff_ne.2 h.1, beq_eq_false_iff_ne.2 h.2⟩

theorem okName_leafDefaults (st : St ρ) (e : Elem) (kids : Option Nodes) (h : okName e = true) :
    okName (leafDefaults st e kids) = true := by
  unfold leafDefaults
  cases kids with
  | none => simpa only [okName, applyDefaults_name] using h
  | some _ => exact h

theorem Fits.mono {st : St ρ} {m n : Nat} (h : m ≤ n) (hf : Fits st n) : Fits st m := by
  unfold Fits at *
  omega

def TagsOk (st : St ρ) (ts : List Tag) : Prop :=
  ∀ t ∈ ts, cleanNode t.node = true ∧ Fits st (nestingDepth t.node)

theorem tagsOk_iff {a b : St ρ} (h : K a b) (ts : List Tag) : TagsOk a ts ↔ TagsOk b ts := by
  unfold TagsOk Fits
  rw [h.depth, h.2]

/-- `G`, and the tags left pending are tags that were handed in -/
def GP (a : St ρ) (x : St ρ × Except CErr (List (Nat × List Ev) × Option BoundingBox × List Tag)) : Prop :=
  G a x ∧ ∀ r, x.2 = .ok r → TagsOk a r.2.2

theorem GP.left {a b : St ρ} {x} (h : K a b) (hx : GP b x) : GP a x :=
  ⟨G.left h hx.1, fun r hr => (tagsOk_iff h _).2 (hx.2 r hr)⟩

/-- for reuse-free, config-free trees whose nesting fits under the limit: state handed on intact, never the depth error -/
structure AllG (ev : Evalr ρ) (fuel : Nat) : Prop where
  genElem : ∀ (st : St ρ) e kids, st.scopes ≠ [] → okName e = true → cleanOpt kids = true →
    Fits st (1 + ndOpt kids) → G st (genElem ev fuel st e kids)
  dispatch : ∀ (st : St ρ) e kids, st.scopes ≠ [] → okName e = true → cleanOpt kids = true →
    Fits st (ndOpt kids) → 1 ≤ st.depth → G st (dispatch ev fuel st e kids)
  genSpecs : ∀ (st : St ρ) kids, st.scopes ≠ [] → cleanOpt kids = true → Fits st (ndOpt kids) →
    G st (genSpecs ev fuel st kids)
  genIf : ∀ (st : St ρ) e kids, st.scopes ≠ [] → cleanOpt kids = true → Fits st (ndOpt kids) →
    G st (genIf ev fuel st e kids)
  genContainer : ∀ (st : St ρ) e ks, st.scopes ≠ [] → okName e = true → cleanNodes ks = true →
    Fits st (nestingDepths ks) → 1 ≤ st.depth → G st (genContainer ev fuel st e ks)
  genGroup : ∀ (st : St ρ) e kids, st.scopes ≠ [] → cleanOpt kids = true → Fits st (ndOpt kids) →
    G st (genGroup ev fuel st e kids)
  genLoop : ∀ (st : St ρ) e kids, st.scopes ≠ [] → cleanOpt kids = true → Fits st (ndOpt kids) →
    G st (genLoop ev fuel st e kids)
  loopIter : ∀ (st : St ρ) ks c w u n v s i acc bb, st.scopes ≠ [] → cleanNodes ks = true →
    Fits st (nestingDepths ks) → G st (loopIter ev fuel st ks c w u n v s i acc bb)
  genFor : ∀ (st : St ρ) e kids, st.scopes ≠ [] → cleanOpt kids = true → Fits st (ndOpt kids) →
    G st (genFor ev fuel st e kids)
  forIter : ∀ (st : St ρ) ks v iv items idx acc bb, st.scopes ≠ [] → cleanNodes ks = true →
    Fits st (nestingDepths ks) → G st (forIter ev fuel st ks v iv items idx acc bb)
  genNode : ∀ (st : St ρ) n, st.scopes ≠ [] → cleanNode n = true → Fits st (nestingDepth n) →
    G st (genNode ev fuel st n)
  onePass : ∀ (st : St ρ) ts outs bb rem, st.scopes ≠ [] → TagsOk st ts → TagsOk st rem →
    GP st (onePass ev fuel st ts outs bb rem)
  retry : ∀ (st : St ρ) ts outs bb, st.scopes ≠ [] → TagsOk st ts → G st (retry ev fuel st ts outs bb)
  processNodes : ∀ (st : St ρ) ks, st.scopes ≠ [] → cleanNodes ks = true → Fits st (nestingDepths ks) →
    G st (processNodes ev fuel st ks)

theorem allG_zero (ev : Evalr ρ) : AllG ev 0 := by
  constructor <;> intros <;> simp only [Ctl.genElem, Ctl.dispatch, Ctl.genSpecs, Ctl.genIf, Ctl.genContainer,
    Ctl.genGroup, Ctl.genLoop, Ctl.loopIter, Ctl.genFor, Ctl.forIter, Ctl.genNode, Ctl.onePass, Ctl.retry,
    Ctl.processNodes]
  all_goals first
    | exact g_err _ ‹_› _ rfl
    | exact ⟨g_err _ ‹_› _ rfl, fun r hr => by cases hr⟩

section gstep
variable (ev : Evalr ρ) (fuel : Nat) (ih : AllG ev fuel)
include ih

theorem genElem_gstep (st : St ρ) e kids (h : st.scopes ≠ []) (hn : okName e = true) (hc : cleanOpt kids = true)
    (hf : Fits st (1 + ndOpt kids)) : G st (Ctl.genElem ev (fuel + 1) st e kids) := by
  unfold Ctl.genElem
  split
  · rename_i hgt
    unfold Fits at hf
    omega
  · dsimp only
    have hd := ih.dispatch { st with depth := st.depth + 1 } e kids h hn hc
      (by unfold Fits at *; simp only; omega) (by simp only; omega)
    have h0 : K st { (Ctl.dispatch ev fuel { st with depth := st.depth + 1 } e kids).1 with
        depth := (Ctl.dispatch ev fuel { st with depth := st.depth + 1 } e kids).1.depth - 1 } := by
      refine ⟨⟨?_, hd.1.1.2.1, hd.1.1.2.2.1, hd.1.1.2.2.2.1, hd.1.1.2.2.2.2⟩, hd.1.2⟩
      have := hd.1.1.1
      simp only at this ⊢
      omega
    exact G.left h0 (g_clipPost ev e _ h0.ne (fun e' he' => hd.2 e' he'))

theorem dispatch_gstep (st : St ρ) e kids (h : st.scopes ≠ []) (hn : okName e = true) (hc : cleanOpt kids = true)
    (hf : Fits st (ndOpt kids)) (h1 : 1 ≤ st.depth) : G st (Ctl.dispatch ev (fuel + 1) st e kids) := by
  obtain ⟨hr, hcfg⟩ := okName_false e hn
  unfold Ctl.dispatch
  dsimp only
  split; · exact ih.genLoop st e kids h hc hf
  split
  · rename_i hx; rw [hcfg] at hx; cases hx
  split
  · rename_i hx; rw [hr] at hx; cases hx
  split; · exact ih.genSpecs st kids h hc hf
  split; · exact g_genVar ev st e h
  split; · exact ih.genIf st e kids h hc hf
  split; · exact g_genDefaults st kids h
  split; · exact ih.genFor st e kids h hc hf
  split; · exact ih.genGroup st e kids h hc hf
  split
  · exact ih.genContainer st e _ h hn hc hf h1
  · exact g_genOther ev st e h

theorem genSpecs_gstep (st : St ρ) kids (h : st.scopes ≠ []) (hc : cleanOpt kids = true) (hf : Fits st (ndOpt kids)) :
    G st (Ctl.genSpecs ev (fuel + 1) st kids) := by
  unfold Ctl.genSpecs
  split
  · exact g_err st h _ rfl
  · rename_i hs
    split
    · rename_i ks
      have hp := ih.processNodes { st with inSpecs := true } ks h hc hf
      dsimp only
      refine ⟨⟨⟨hp.1.1.1, hp.1.1.2.1, hp.1.1.2.2.1, hp.1.1.2.2.2.1, ?_⟩, hp.1.2⟩, ?_⟩
      · simp only [Bool.not_eq_true] at hs
        simp [hs]
      · intro er her
        dsimp only at her
        split at her
        · cases her
        · rename_i e' he'
          cases her
          exact hp.2 _ he'
    · exact g_ok st h _

theorem genIf_gstep (st : St ρ) e kids (h : st.scopes ≠ []) (hc : cleanOpt kids = true) (hf : Fits st (ndOpt kids)) :
    G st (Ctl.genIf ev (fuel + 1) st e kids) := by
  unfold Ctl.genIf
  split
  · exact g_err st h _ rfl
  · split
    · apply g_seq _ _ (g_withRng st _ h)
      intro hk b _
      split
      · exact ih.processNodes _ _ hk.ne hc (hk.fits hf)
      · exact g_ok _ hk.ne _
    · exact g_ok st h _

theorem genContainer_gstep (st : St ρ) e ks (h : st.scopes ≠ []) (hn : okName e = true) (hc : cleanNodes ks = true)
    (hf : Fits st (nestingDepths ks)) (h1 : 1 ≤ st.depth) : G st (Ctl.genContainer ev (fuel + 1) st e ks) := by
  unfold Ctl.genContainer
  split
  · split
    · exact g_err st h _ rfl
    · dsimp only
      have hg := ih.genElem { st with depth := st.depth - 1 } (e.setAttr cs!"text" ‹_›) none h hn rfl
        (by unfold Fits at *; simp only [ndOpt]; omega)
      refine ⟨⟨⟨?_, hg.1.1.2.1, hg.1.1.2.2.1, hg.1.1.2.2.2.1, hg.1.1.2.2.2.2⟩, hg.1.2⟩, fun e' he' => hg.2 e' he'⟩
      have h1' := hg.1.1.1
      simp only at h1' ⊢
      omega
  · split
    · exact g_ok st h _
    · apply g_seq _ _ (g_withRng st _ h)
      intro hk ne _
      apply g_seq
      · split
        · exact g_ok _ hk.ne _
        · exact ih.processNodes _ _ hk.ne hc (hk.fits hf)
      · intro hk2 r _
        exact ⟨k_finishContainer ev _ _ _ hk2.ne, nd_mk_ok _ _⟩

theorem genGroup_gstep (st : St ρ) e kids (h : st.scopes ≠ []) (hc : cleanOpt kids = true) (hf : Fits st (ndOpt kids)) :
    G st (Ctl.genGroup ev (fuel + 1) st e kids) := by
  unfold Ctl.genGroup
  apply g_seq _ _ (g_withRng st _ h)
  intro hk ne _
  have hp : ((withRng st (evalAttributes ev st e)).1.pushElement e).scopes ≠ [] := by simp [St.pushElement]
  have hbody : G ((withRng st (evalAttributes ev st e)).1.pushElement e)
      (match kids with
        | none => (((withRng st (evalAttributes ev st e)).1.pushElement e), (Except.ok ([Ev.empty (adapt ne)], none) : Res))
        | some ks =>
          seq (Ctl.processNodes ev fuel ((withRng st (evalAttributes ev st e)).1.pushElement e) ks) fun st r =>
            (st, .ok ([Ev.start (adapt ne)] ++ r.1 ++ [Ev.end_ ne.name], r.2))) := by
    split
    · exact g_ok _ hp _
    · apply g_seq _ _ (ih.processNodes _ _ hp hc (hk.fits hf))
      intro hk2 r _
      exact g_ok _ hk2.ne _
  have hpp := g_push_pop e hbody hk.ne
  apply g_seq (popAfter _) _ hpp
  intro hk3 r _
  exact g_groupFinish ev _ e r hk3.ne

theorem loopIter_gstep (st : St ρ) ks c w u n v s i acc bb (h : st.scopes ≠ []) (hc : cleanNodes ks = true)
    (hf : Fits st (nestingDepths ks)) : G st (Ctl.loopIter ev (fuel + 1) st ks c w u n v s i acc bb) := by
  unfold Ctl.loopIter
  apply g_seq _ _ (g_preTest ev st c w i h)
  intro hk go _
  split
  · exact g_ok _ hk.ne _
  · have hb := k_bindLoopVar (preTest ev st c w i).1 n v hk.ne
    apply g_seq _ _ (G.left hb (ih.processNodes _ _ hb.ne hc ((hk.trans hb).fits hf)))
    intro hk2 r _
    split
    · exact g_err _ hk2.ne _ rfl
    · apply g_seq _ _ (g_postTest ev _ u hk2.ne)
      intro hk3 stop _
      split
      · exact g_ok _ hk3.ne _
      · exact ih.loopIter _ _ _ _ _ _ _ _ _ _ _ hk3.ne hc (((hk.trans hk2).trans hk3).fits hf)

theorem genLoop_gstep (st : St ρ) e kids (h : st.scopes ≠ []) (hc : cleanOpt kids = true) (hf : Fits st (ndOpt kids)) :
    G st (Ctl.genLoop ev (fuel + 1) st e kids) := by
  unfold Ctl.genLoop
  dsimp only
  split
  · split
    · rename_i er her
      exact g_err st h _ (loopHead_nd ev st e er her)
    · rename_i cnt name start step rng _
      have h0 : K st { st with rng := rng } := k_of_fields _ _ h rfl rfl rfl rfl rfl
      exact G.left h0 (ih.loopIter _ _ _ _ _ _ _ _ _ _ _ h hc hf)
  all_goals exact g_ok st h _

theorem forIter_gstep (st : St ρ) ks v iv items idx acc bb (h : st.scopes ≠ []) (hc : cleanNodes ks = true)
    (hf : Fits st (nestingDepths ks)) : G st (Ctl.forIter ev (fuel + 1) st ks v iv items idx acc bb) := by
  cases items with
  | nil => unfold Ctl.forIter; exact g_ok st h _
  | cons item items =>
    unfold Ctl.forIter
    have hb := k_bindForVars st v iv item idx h
    apply g_seq _ _ (G.left hb (ih.processNodes _ _ hb.ne hc (hb.fits hf)))
    intro hk2 r _
    split
    · exact g_err _ hk2.ne _ rfl
    · exact ih.forIter _ _ _ _ _ _ _ _ hk2.ne hc (hk2.fits hf)

theorem genFor_gstep (st : St ρ) e kids (h : st.scopes ≠ []) (hc : cleanOpt kids = true) (hf : Fits st (ndOpt kids)) :
    G st (Ctl.genFor ev (fuel + 1) st e kids) := by
  unfold Ctl.genFor
  split
  · apply g_seq _ _ (g_withRng st _ h)
    intro hk items _
    exact ih.forIter _ _ _ _ _ _ _ _ hk.ne hc (hk.fits hf)
  all_goals exact g_err st h _ rfl

theorem genNode_gstep (st : St ρ) n (h : st.scopes ≠ []) (hc : cleanNode n = true) (hf : Fits st (nestingDepth n)) :
    G st (Ctl.genNode ev (fuel + 1) st n) := by
  cases n with
  | elem e kids tail =>
    unfold Ctl.genNode
    rw [cleanNode_elem, Bool.and_eq_true] at hc
    rw [nestingDepth_elem] at hf
    apply g_seq _ _ (ih.genElem st (leafDefaults st e kids) kids h (okName_leafDefaults st e kids hc.1) hc.2 hf)
    intro hk r _
    exact g_ok _ hk.ne _
  | comment c tail => unfold Ctl.genNode; exact g_ok st h _
  | text t => unfold Ctl.genNode; exact g_ok st h _
  | cdata c => unfold Ctl.genNode; exact g_ok st h _

theorem onePass_gstep (st : St ρ) ts outs bb rem (h : st.scopes ≠ []) (hts : TagsOk st ts) (hrem : TagsOk st rem) :
    GP st (Ctl.onePass ev (fuel + 1) st ts outs bb rem) := by
  cases ts with
  | nil =>
    unfold Ctl.onePass
    refine ⟨g_ok st h _, ?_⟩
    intro r hr
    cases hr
    intro t ht
    exact hrem t (List.mem_reverse.1 ht)
  | cons t ts =>
    unfold Ctl.onePass
    have ht := hts t (List.mem_cons_self ..)
    have hts1 : TagsOk st ts := fun t' ht' => hts t' (List.mem_cons_of_mem _ ht')
    have hr := k_registerEarly ev st t.node h
    have hg := G.left hr (ih.genNode _ t.node hr.ne ht.1 (hr.fits ht.2))
    have hts' := (tagsOk_iff hg.1 ts).1 hts1
    have hrem' := (tagsOk_iff hg.1 rem).1 hrem
    dsimp only
    split
    · rename_i er her
      split
      · exact ⟨⟨hg.1, nd_mk_err _ _ (hg.2 er her)⟩, fun r hr => by cases hr⟩
      · split
        · exact GP.left hg.1 (ih.onePass _ _ _ _ _ hg.1.ne hts' hrem')
        · refine GP.left hg.1 (ih.onePass _ _ _ _ _ hg.1.ne hts' ?_)
          intro t' ht'
          rcases List.mem_cons.1 ht' with rfl | ht'
          · exact (tagsOk_iff hg.1 [t]).1 (fun t'' ht'' => by
              rw [List.mem_singleton] at ht''; subst ht''; exact ht) t (List.mem_singleton.2 rfl)
          · exact hrem' t' ht'
    · split
      · exact GP.left hg.1 (ih.onePass _ _ _ _ _ hg.1.ne hts' hrem')
      · exact GP.left hg.1 (ih.onePass _ _ _ _ _ hg.1.ne hts' hrem')

theorem retry_gstep (st : St ρ) ts outs bb (h : st.scopes ≠ []) (hts : TagsOk st ts) :
    G st (Ctl.retry ev (fuel + 1) st ts outs bb) := by
  cases ts with
  | nil => unfold Ctl.retry; exact g_ok st h _
  | cons t ts =>
    unfold Ctl.retry
    have ho := ih.onePass st (t :: ts) outs bb [] h hts (fun t' ht' => by cases ht')
    apply g_seq _ _ ho.1
    intro hk r hr
    have hrem := (tagsOk_iff hk _).1 (ho.2 r hr)
    split
    · exact g_err _ hk.ne _ rfl
    · split
      · split
        · exact g_err _ hk.ne _ rfl
        · split
          · exact ⟨k_of_fields _ _ hk.ne rfl rfl rfl rfl rfl, nd_mk_err _ _ rfl⟩
          · have hk' : K (Ctl.onePass ev fuel st (t :: ts) outs bb []).1
                { (Ctl.onePass ev fuel st (t :: ts) outs bb []).1 with
                  idlePasses := (Ctl.onePass ev fuel st (t :: ts) outs bb []).1.idlePasses + 1 } :=
              k_of_fields _ _ hk.ne rfl rfl rfl rfl rfl
            exact G.left hk' (ih.retry _ _ _ _ hk'.ne ((tagsOk_iff hk' _).1 hrem))
      · exact ih.retry _ _ _ _ hk.ne hrem

theorem processNodes_gstep (st : St ρ) ks (h : st.scopes ≠ []) (hc : cleanNodes ks = true)
    (hf : Fits st (nestingDepths ks)) : G st (Ctl.processNodes ev (fuel + 1) st ks) := by
  unfold Ctl.processNodes
  have htags : TagsOk st (ks.toList.zipIdx.map fun (n, i) => ({ idx := i, node := n } : Tag)) := by
    intro t ht
    simp only [List.mem_map] at ht
    obtain ⟨⟨n, i⟩, hm, rfl⟩ := ht
    have := mem_toList_ok ks n (List.fst_mem_of_mem_zipIdx hm) hc
    exact ⟨this.1, Fits.mono this.2 hf⟩
  apply g_seq _ _ (ih.retry st _ _ _ h htags)
  intro hk r _
  exact g_ok _ hk.ne _

end gstep

/-- **nesting fits ⇒ never the depth-limit error**, all functions, all fuel -/
theorem allG (ev : Evalr ρ) : ∀ fuel, AllG ev fuel
  | 0 => allG_zero ev
  | fuel + 1 =>
    let ih := allG ev fuel
    { genElem := genElem_gstep ev fuel ih
      dispatch := dispatch_gstep ev fuel ih
      genSpecs := genSpecs_gstep ev fuel ih
      genIf := genIf_gstep ev fuel ih
      genContainer := genContainer_gstep ev fuel ih
      genGroup := genGroup_gstep ev fuel ih
      genLoop := genLoop_gstep ev fuel ih
      loopIter := loopIter_gstep ev fuel ih
      genFor := genFor_gstep ev fuel ih
      forIter := forIter_gstep ev fuel ih
      genNode := genNode_gstep ev fuel ih
      onePass := onePass_gstep ev fuel ih
      retry := retry_gstep ev fuel ih
      processNodes := processNodes_gstep ev fuel ih }

/-- **depth means nesting**: a reuse-free, config-free forest whose nesting depth fits under the limit, counted
    from the current depth, is never rejected with the depth-limit error — whatever its length, whatever the
    evaluator returns, whatever else fails, at any fuel -/
theorem nesting_within_limit_never_hits_depth_limit (ev : Evalr ρ) (fuel : Nat) (st : St ρ) (ks : Nodes)
    (hs : st.scopes ≠ []) (hc : cleanNodes ks = true)
    (hd : st.depth + nestingDepths ks ≤ st.cfg.depthLimit) :
    ∀ er, (processNodes ev fuel st ks).2 = .error er → isDepthErr er = false :=
  ((allG ev fuel).processNodes st ks hs hc hd).2

/-- … and the configuration (hence the limit) is what it was -/
theorem nesting_within_limit_keeps_cfg (ev : Evalr ρ) (fuel : Nat) (st : St ρ) (ks : Nodes)
    (hs : st.scopes ≠ []) (hc : cleanNodes ks = true)
    (hd : st.depth + nestingDepths ks ≤ st.cfg.depthLimit) :
    (processNodes ev fuel st ks).1.cfg = st.cfg :=
  ((allG ev fuel).processNodes st ks hs hc hd).1.2

/-- a flat node: a comment, text, cdata, or an empty-element tag other than `reuse` / `config` -/
def flatNode : Node → Bool
  | .elem e none _ => e.name != cs!"reuse" && e.name != cs!"config"
  | .elem _ (some _) _ => false
  | .comment _ _ => true
  | .text _ => true
  | .cdata _ => true

theorem flatNode_ok (n : Node) (h : flatNode n = true) : cleanNode n = true ∧ nestingDepth n ≤ 1 := by
  cases n with
  | elem e kids tail =>
    cases kids with
    | none => exact ⟨by simpa only [cleanNode, okName, flatNode] using h, by simp [nestingDepth]⟩
    | some ks => simp [flatNode] at h
  | comment c tail => exact ⟨rfl, by simp [nestingDepth]⟩
  | text t => exact ⟨rfl, by simp [nestingDepth]⟩
  | cdata c => exact ⟨rfl, by simp [nestingDepth]⟩

theorem flat_ok : ∀ (ks : Nodes), (∀ n ∈ ks.toList, flatNode n = true) →
    cleanNodes ks = true ∧ nestingDepths ks ≤ 1
  | .nil, _ => ⟨rfl, by simp [nestingDepths]⟩
  | .cons n r, h => by
    have hn := flatNode_ok n (h n (by simp [Nodes.toList]))
    have hr := flat_ok r (fun m hm => h m (by simp [Nodes.toList, hm]))
    refine ⟨by simp only [cleanNodes, hn.1, hr.1, Bool.and_self], ?_⟩
    simp only [nestingDepths]
    exact Nat.max_le.2 ⟨hn.2, hr.2⟩

/-- **a flat document of any length is accepted by the depth limit**: if one more level fits, a sibling list of
    ANY length made of comments, text, cdata and leaf elements (other than `reuse`, `config`) never ends in the
    depth-limit error -/
theorem flat_document_never_hits_depth_limit (ev : Evalr ρ) (fuel : Nat) (st : St ρ) (ks : Nodes)
    (hs : st.scopes ≠ []) (hd : st.depth + 1 ≤ st.cfg.depthLimit)
    (hflat : ∀ n ∈ ks.toList, flatNode n = true) :
    ∀ er, (processNodes ev fuel st ks).2 = .error er → isDepthErr er = false := by
  have h := flat_ok ks hflat
  exact nesting_within_limit_never_hits_depth_limit ev fuel st ks hs h.1 (by have := h.2; omega)

namespace FlatExample

def rect (x : Str) : Elem :=
  { name := cs!"rect", attrs := [(['x'], x), (['y'], ['0']), (cs!"width", ['5']), (cs!"height", ['5'])] }

/-- three sibling leaf rects -/
def doc : Nodes :=
  .cons (.elem (rect ['0']) none none) (.cons (.elem (rect cs!"10") none none) (.cons (.elem (rect cs!"20") none none) .nil))

/-- depth 0, limit 1: exactly one level fits -/
def st1 : St Nat := { rng := 0, scopes := [{}], cfg := { depthLimit := 1 } }

def isOk {ε α : Type} : Except ε α → Bool
  | .ok _ => true
  | .error _ => false

/-- the hypotheses of `flat_document_never_hits_depth_limit` hold … -/
theorem hyps : st1.scopes ≠ [] ∧ st1.depth + 1 ≤ st1.cfg.depthLimit ∧ ∀ n ∈ doc.toList, flatNode n = true := by
  decide +kernel

/-- … and the three siblings are processed at limit 1 -/
theorem accepted : isOk (processNodes simpleEvalr 20 st1 doc).2 = true := by decide +kernel

/-- at limit 0 the hypothesis fails and so does the document, with the depth-limit error -/
theorem rejected_at_zero :
    (match (processNodes simpleEvalr 20 { st1 with cfg := { depthLimit := 0 } } doc).2 with
      | .error er => isDepthErr er
      | .ok _ => false) = true := by decide +kernel

/-- the nested form: the same three rects inside two groups have nesting depth 3 -/
def nested : Nodes :=
  .cons (.elem { name := ['g'], attrs := [] } (some (.cons (.elem { name := ['g'], attrs := [] } (some doc) none) .nil)) none) .nil

theorem nested_hyps : cleanNodes nested = true ∧ nestingDepths nested = 3 := by decide +kernel

theorem nested_accepted_at_3 :
    isOk (processNodes simpleEvalr 30 { st1 with cfg := { depthLimit := 3 } } nested).2 = true := by decide +kernel

theorem nested_rejected_at_2 :
    (match (processNodes simpleEvalr 30 { st1 with cfg := { depthLimit := 2 } } nested).2 with
      | .error er => isDepthErr er
      | .ok _ => false) = true := by decide +kernel

end FlatExample

end Svgdx.Ctl

namespace Svgdx.Props.C17x
open Svgdx Ctl

variable {ρ : Type}

/-- **C17, depth means nesting, not length — the accepting direction.**  For every evaluator, every fuel, every
    state with a scope in which one more nesting level fits, and every sibling list OF ANY LENGTH made of comments,
    text, cdata and empty-element tags other than `reuse` and `config`: processing never ends in the depth-limit
    error. -/
theorem flat_document_never_hits_depth_limit (ev : Evalr ρ) (fuel : Nat) (st : St ρ) (ks : Nodes)
    (hs : st.scopes ≠ []) (hd : st.depth + 1 ≤ st.cfg.depthLimit)
    (hflat : ∀ n ∈ ks.toList, flatNode n = true) :
    ∀ er, (processNodes ev fuel st ks).2 = .error er → isDepthErr er = false :=
  Ctl.flat_document_never_hits_depth_limit ev fuel st ks hs hd hflat

/-- the general form: any reuse-free, config-free forest whose nesting depth fits under the limit -/
theorem nesting_within_limit_never_hits_depth_limit (ev : Evalr ρ) (fuel : Nat) (st : St ρ) (ks : Nodes)
    (hs : st.scopes ≠ []) (hc : cleanNodes ks = true)
    (hd : st.depth + nestingDepths ks ≤ st.cfg.depthLimit) :
    ∀ er, (processNodes ev fuel st ks).2 = .error er → isDepthErr er = false :=
  Ctl.nesting_within_limit_never_hits_depth_limit ev fuel st ks hs hc hd

end Svgdx.Props.C17x

#print axioms Svgdx.Num.fstr_numCh
#print axioms Svgdx.Num.fstr_no_dollar
#print axioms Svgdx.Num.fstr_no_braces
#print axioms Svgdx.Props.C14x.eval_once_for_numeric_results
#print axioms Svgdx.Props.C14x.eval_once_for_numeric_results_ratOps
#print axioms Svgdx.Ctl.allG
#print axioms Svgdx.Ctl.nesting_within_limit_never_hits_depth_limit
#print axioms Svgdx.Ctl.nesting_within_limit_keeps_cfg
#print axioms Svgdx.Ctl.flat_document_never_hits_depth_limit
#print axioms Svgdx.Ctl.FlatExample.hyps
#print axioms Svgdx.Ctl.FlatExample.accepted
#print axioms Svgdx.Ctl.FlatExample.rejected_at_zero
#print axioms Svgdx.Ctl.FlatExample.nested_hyps
#print axioms Svgdx.Ctl.FlatExample.nested_accepted_at_3
#print axioms Svgdx.Ctl.FlatExample.nested_rejected_at_2
#print axioms Svgdx.Props.C17x.flat_document_never_hits_depth_limit
#print axioms Svgdx.Props.C17x.nesting_within_limit_never_hits_depth_limit
