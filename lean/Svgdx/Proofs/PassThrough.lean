/-
  Svgdx.Proofs.PassThrough — the positioning pipeline touches only a fixed, explicit set of attribute
  names (`touchedKeys`); every other attribute of an element comes out exactly as it went in.

  Method: `Frame K e e'` says that `e'` has unique keys and agrees with `e` on name, classes,
  content box, emptiness and on `getAttr k` for every `k ∉ K`. Each stage of `Elem.resolvePosition`
  (and of `Elem.transmuteDxDy`) is shown to be a frame for its own literal key list, for ANY superset
  `K`; the stage lists are then shown (by `decide`) to lie inside `touchedKeys`, and the frames composed.

  Main results (section "Public statements"):
    `resolvePosition_preserves`, `resolvePosition_preserves_plain`, `resolvePosition_nodup`,
    `transmuteDxDy_preserves`, `process_preserves` (non-connectors; no extra hypotheses),
    `presentation_attrs_untouched`, and concrete instances `exRect_resolves`, `exSurround_resolves`.

  One thing is NOT preserved: `handle_containment` appends the class `d-surround` / `d-inside` when the
  element has a `surround` / `inside` attribute, so the class list is `containmentClasses e`, which is
  `e.classes` exactly when neither attribute is present (`exSurround_resolves` is a concrete witness).
  The element name never changes in `resolvePosition` or `transmuteDxDy` (only `transmuteConnector`,
  excluded from `process_preserves` by `¬ isConnector`, builds a new element).
-/
import Svgdx.Geom.Connector
import Svgdx.Proofs.Attrs
namespace Svgdx
open Str Attrs

namespace PassThrough

/-! ## Attribute-map lemmas not in `Svgdx.Proofs.Attrs` -/

theorem lookup_pop_other (a : Attrs) (k k2 : Str) (hne : k2 ≠ k) :
    lookupTable (pop a k).1 k2 = lookupTable a k2 := by
  induction a with
  | nil => rfl
  | cons x xs ih =>
    obtain ⟨k', v'⟩ := x
    simp only [pop]
    by_cases hk : k' = k
    · subst hk
      have : (k' == k2) = false := by simpa using (fun e => hne e.symm)
      simp [lookupTable, this]
    · have hb : (k' == k) = false := by simpa using hk
      simp only [hb, Bool.false_eq_true, if_false, lookupTable, ih]

theorem get_remove_other (a : Attrs) (k k2 : Str) (hne : k2 ≠ k) :
    get (remove a k) k2 = get a k2 := lookup_pop_other a k k2 hne

theorem get_removeAll_other (a : Attrs) (ks : List Str) (k2 : Str) (h : k2 ∉ ks) :
    get (removeAll a ks) k2 = get a k2 := by
  induction ks generalizing a with
  | nil => rfl
  | cons k ks ih =>
    simp only [removeAll, List.foldl_cons]
    have h1 : k2 ≠ k := fun e => h (by simp [e])
    have h2 : k2 ∉ ks := fun e => h (by simp [e])
    exact (ih (remove a k) h2).trans (get_remove_other a k k2 h1)

theorem insertFirst_nodup {a : Attrs} (h : NodupKeys a) (k v : Str) : NodupKeys (insertFirst a k v) := by
  unfold insertFirst
  split
  · exact h
  · exact insert_nodup h k v

theorem get_insertFirst_other {a : Attrs} (h : NodupKeys a) (k v k2 : Str) (hne : k2 ≠ k) :
    get (insertFirst a k v) k2 = get a k2 := by
  unfold insertFirst
  split
  · rfl
  · exact get_insert_other h k v k2 hne

/-! ## Frames -/

/-- `Frame K e e'`: `e'` is a well-formed element that agrees with `e` on everything except
    (possibly) the attributes named in `K`. -/
structure Frame (K : List Str) (e e' : Elem) : Prop where
  nodup : NodupKeys e'.attrs
  name : e'.name = e.name
  classes : e'.classes = e.classes
  cbb : e'.contentBBox = e.contentBBox
  empty : e'.isEmpty = e.isEmpty
  get : ∀ k, k ∉ K → e'.getAttr k = e.getAttr k

namespace Frame
variable {K : List Str} {e0 e e' : Elem}

theorem refl (h : NodupKeys e.attrs) : Frame K e e := ⟨h, rfl, rfl, rfl, rfl, fun _ _ => rfl⟩

theorem trans (F : Frame K e0 e) (G : Frame K e e') : Frame K e0 e' :=
  ⟨G.nodup, G.name.trans F.name, G.classes.trans F.classes, G.cbb.trans F.cbb, G.empty.trans F.empty,
   fun k hk => (G.get k hk).trans (F.get k hk)⟩

theorem mono {K' : List Str} (F : Frame K e e') (hs : ∀ k ∈ K, k ∈ K') : Frame K' e e' :=
  ⟨F.nodup, F.name, F.classes, F.cbb, F.empty, fun k hk => F.get k (fun h => hk (hs k h))⟩

theorem set (F : Frame K e0 e) {k : Str} (hk : k ∈ K) (v : Str) : Frame K e0 (e.setAttr k v) :=
  ⟨insert_nodup F.nodup k v, F.name, F.classes, F.cbb, F.empty, fun k2 hk2 =>
    (get_insert_other F.nodup k v k2 (fun h => hk2 (h ▸ hk))).trans (F.get k2 hk2)⟩

theorem setDefault (F : Frame K e0 e) {k : Str} (hk : k ∈ K) (v : Str) :
    Frame K e0 (e.setDefaultAttr k v) := by
  unfold Elem.setDefaultAttr
  split
  · exact F
  · exact F.set hk v

theorem pop (F : Frame K e0 e) {k : Str} (hk : k ∈ K) : Frame K e0 (e.popAttr k).1 :=
  ⟨remove_nodup F.nodup k, F.name, F.classes, F.cbb, F.empty, fun k2 hk2 =>
    (get_remove_other e.attrs k k2 (fun h => hk2 (h ▸ hk))).trans (F.get k2 hk2)⟩

theorem remove (F : Frame K e0 e) {ks : List Str} (hks : ∀ k ∈ ks, k ∈ K) :
    Frame K e0 (e.removeAttrs ks) :=
  ⟨removeAll_nodup F.nodup ks, F.name, F.classes, F.cbb, F.empty, fun k2 hk2 =>
    (get_removeAll_other e.attrs ks k2 (fun h => hk2 (hks k2 h))).trans (F.get k2 hk2)⟩

theorem insFirst (F : Frame K e0 e) {k : Str} (hk : k ∈ K) (v : Str) :
    Frame K e0 { e with attrs := e.attrs.insertFirst k v } :=
  ⟨insertFirst_nodup F.nodup k v, F.name, F.classes, F.cbb, F.empty, fun k2 hk2 =>
    (get_insertFirst_other F.nodup k v k2 (fun h => hk2 (h ▸ hk))).trans (F.get k2 hk2)⟩

end Frame


theorem bind_ok {α β : Type} {x : Except Err α} {f : α → Except Err β} {b : β}
    (h : (x >>= f) = .ok b) : ∃ a, x = .ok a ∧ f a = .ok b := by
  cases x with
  | error er => cases h
  | ok a => exact ⟨a, rfl, h⟩

/-- membership in a literal key list -/
macro "kmem" : tactic => `(tactic| decide)

/-! ## Stage 1: containment -/

def containKeys : List Str :=
  [['x'], ['y'], cs!"width", cs!"height", cs!"cx", cs!"cy", ['r'], cs!"rx", cs!"ry",
   cs!"surround", cs!"inside", cs!"margin"]

theorem positionFromBBox_frame {K : List Str} (hK : ∀ k ∈ containKeys, k ∈ K) {e0 e : Elem}
    (F : Frame K e0 e) (b : Gen.BoundingBox) (ins : Bool) :
    Frame K e0 (e.positionFromBBox b ins) := by
  unfold Elem.positionFromBBox
  simp only []
  split
  · exact (((F.set (hK _ (by kmem)) _).set (hK _ (by kmem)) _).set (hK _ (by kmem)) _).set (hK _ (by kmem)) _
  · split
    · exact ((F.set (hK _ (by kmem)) _).set (hK _ (by kmem)) _).set (hK _ (by kmem)) _
    · split
      · exact (((F.set (hK _ (by kmem)) _).set (hK _ (by kmem)) _).set (hK _ (by kmem)) _).set (hK _ (by kmem)) _
      · exact F

theorem Frame.addClass {K : List Str} {e0 e : Elem} (F : Frame K e0 e) (c : Str) :
    Frame K (e0.addClass c) (e.addClass c) :=
  ⟨F.nodup, F.name, by simp [Elem.addClass, F.classes], F.cbb, F.empty, F.get⟩

/-- the class list after `handle_containment` -/
def containmentClasses (e : Elem) : List Str :=
  match e.getAttr cs!"surround", e.getAttr cs!"inside" with
  | none, none => e.classes
  | some _, _ => classInsert e.classes cs!"d-surround"
  | none, some _ => classInsert e.classes cs!"d-inside"

theorem pure_ok {α : Type} {a b : α} (h : (pure a : Except Err α) = .ok b) : a = b := by
  cases h; rfl

theorem contain_tail {K : List Str} (hK : ∀ k ∈ containKeys, k ∈ K) {e : Elem} (hn : NodupKeys e.attrs)
    (bbox : Option Gen.BoundingBox) (ins : Bool) (cls : Str) :
    Frame K (e.addClass cls)
      (((match bbox with
          | some b => e.positionFromBBox b ins
          | none => e).addClass cls).removeAttrs [cs!"surround", cs!"inside", cs!"margin"]) := by
  have F0 : Frame K e (match bbox with
          | some b => e.positionFromBBox b ins
          | none => e) := by
    cases bbox with
    | none => exact Frame.refl hn
    | some b => exact positionFromBBox_frame hK (Frame.refl hn) b ins
  refine (F0.addClass cls).remove ?_
  intro k hk
  apply hK
  revert k
  decide

theorem handleContainment_frame {K : List Str} (hK : ∀ k ∈ containKeys, k ∈ K) (c : Ctx) {e e' : Elem}
    (hn : NodupKeys e.attrs) (h : e.handleContainment c = .ok e') :
    Frame K { e with classes := containmentClasses e } e' := by
  unfold Elem.handleContainment at h
  cases hs : e.getAttr cs!"surround" <;> cases hi : e.getAttr cs!"inside" <;>
    simp only [hs, hi] at h
  · cases h
    simp only [containmentClasses, hs, hi]
    exact Frame.refl hn
  · obtain ⟨boxes, -, h⟩ := bind_ok h
    obtain ⟨bbox, -, h⟩ := bind_ok h
    have h := pure_ok h
    subst h
    simp only [containmentClasses, hs, hi]
    exact contain_tail hK hn bbox _ _
  · obtain ⟨boxes, -, h⟩ := bind_ok h
    obtain ⟨bbox, -, h⟩ := bind_ok h
    have h := pure_ok h
    subst h
    simp only [containmentClasses, hs, hi]
    exact contain_tail hK hn bbox _ _
  · cases h

/-! ## Stages 2 and 7: compound attributes -/

theorem expandPair_frame {K : List Str} {e0 e : Elem} (F : Frame K e0 e) {k k1 k2 : Str}
    (hk : k ∈ K) (h1 : k1 ∈ K) (h2 : k2 ∈ K) : Frame K e0 (e.expandPair k k1 k2) := by
  unfold Elem.expandPair
  split
  · rename_i e1 v heq
    have : e1 = (e.popAttr k).1 := by rw [heq]
    subst this
    exact ((F.pop hk).insFirst h1 _).insFirst h2 _
  · exact F

def compoundSizeKeys : List Str :=
  [cs!"wh", cs!"width", cs!"height", cs!"rxy", cs!"rx", cs!"ry", cs!"dwh", cs!"dw", cs!"dh"]

theorem expandCompoundSize_frame {K : List Str} (hK : ∀ k ∈ compoundSizeKeys, k ∈ K) {e0 e : Elem}
    (F : Frame K e0 e) : Frame K e0 e.expandCompoundSize := by
  unfold Elem.expandCompoundSize
  simp only []
  have F1 := expandPair_frame F (hK cs!"wh" (by kmem)) (hK cs!"width" (by kmem)) (hK cs!"height" (by kmem))
  apply expandPair_frame _ (hK cs!"dwh" (by kmem)) (hK cs!"dw" (by kmem)) (hK cs!"dh" (by kmem))
  exact expandPair_frame F1 (hK cs!"rxy" (by kmem)) (hK cs!"rx" (by kmem)) (hK cs!"ry" (by kmem))

def compoundPosKeys : List Str :=
  [cs!"xy", cs!"xy-loc", ['x'], ['y'], cs!"cxy", cs!"cx", cs!"cy", cs!"xy1", cs!"x1", cs!"y1",
   cs!"xy2", cs!"x2", cs!"y2", cs!"dxy", cs!"dx", cs!"dy"]

/-- both target names of `xy` under any `xy-loc` are position attributes -/
theorem xyLoc_mem (loc : Option Str) :
    (Elem.xyLoc loc).1 ∈ compoundPosKeys ∧ (Elem.xyLoc loc).2 ∈ compoundPosKeys := by
  unfold Elem.xyLoc
  split
  · split
    · rename_i l p hp
      simp only [Gen.Element.xyLocTable, List.map, lookupTable] at hp
      repeat' split at hp
      all_goals (cases hp <;> decide)
    · decide
  · decide

theorem expandCompoundPos_frame {K : List Str} (hK : ∀ k ∈ compoundPosKeys, k ∈ K) {e0 e : Elem}
    (F : Frame K e0 e) : Frame K e0 e.expandCompoundPos := by
  unfold Elem.expandCompoundPos
  simp only []
  refine Frame.pop ?_ (hK cs!"xy-loc" (by kmem))
  apply expandPair_frame _ (hK cs!"dxy" (by kmem)) (hK cs!"dx" (by kmem)) (hK cs!"dy" (by kmem))
  apply expandPair_frame _ (hK cs!"xy2" (by kmem)) (hK cs!"x2" (by kmem)) (hK cs!"y2" (by kmem))
  apply expandPair_frame _ (hK cs!"xy1" (by kmem)) (hK cs!"x1" (by kmem)) (hK cs!"y1" (by kmem))
  apply expandPair_frame _ (hK cs!"cxy" (by kmem)) (hK cs!"cx" (by kmem)) (hK cs!"cy" (by kmem))
  split
  · rename_i e1 v heq
    have : e1 = (e.popAttr cs!"xy").1 := by rw [heq]
    subst this
    have F1 := (F.pop (hK cs!"xy" (by kmem))).pop (hK cs!"xy-loc" (by kmem))
    exact (F1.insFirst (hK _ (xyLoc_mem _).1) _).insFirst (hK _ (xyLoc_mem _).2) _
  · exact F

/-! ## Stages 3 and 8: relative attributes (a fold over the attribute snapshot) -/

theorem foldlM_frame {K : List Str} {e0 : Elem} (f : Elem → Str × Str → Except Err Elem)
    (hf : ∀ acc kv r, Frame K e0 acc → f acc kv = .ok r → Frame K e0 r) :
    ∀ (l : List (Str × Str)) (e r : Elem), Frame K e0 e → l.foldlM f e = .ok r → Frame K e0 r := by
  intro l
  induction l with
  | nil =>
    intro e r F h
    have := pure_ok h
    subst this
    exact F
  | cons kv l ih =>
    intro e r F h
    rw [List.foldlM_cons] at h
    obtain ⟨e1, h1, h2⟩ := bind_ok h
    exact ih e1 r (hf e kv e1 F h1) h2

def relAttrKeys : List Str :=
  [cs!"width", cs!"height", ['r'], cs!"rx", cs!"ry",
   ['x'], ['y'], cs!"x1", cs!"y1", cs!"x2", cs!"y2", cs!"cx", cs!"cy"]

theorem isSizeAttr_mem {e : Elem} {k : Str} (h : e.isSizeAttr k = true) : k ∈ relAttrKeys := by
  unfold Elem.isSizeAttr at h
  split at h
  · cases h
  · simp only [Bool.or_eq_true, Bool.and_eq_true, beq_iff_eq] at h
    rcases h with ((h | h) | ⟨_, h⟩) | ⟨_, h | h⟩ <;> subst h <;> decide

theorem isPosAttr_mem {k : Str} (h : Elem.isPosAttr k = true) : k ∈ relAttrKeys := by
  unfold Elem.isPosAttr at h
  simp only [Bool.or_eq_true, beq_iff_eq] at h
  rcases h with ((((((h | h) | h) | h) | h) | h) | h) | h <;> subst h <;> decide

theorem evalRelAttributes_frame {K : List Str} (hK : ∀ k ∈ relAttrKeys, k ∈ K) (c : Ctx) {e0 e e' : Elem}
    (F : Frame K e0 e) (h : e.evalRelAttributes c = .ok e') : Frame K e0 e' := by
  unfold Elem.evalRelAttributes at h
  refine foldlM_frame _ ?_ e.attrs e e' F h
  intro acc kv r Fa hr
  split at hr
  · rename_i hsz
    obtain ⟨v, -, hr⟩ := bind_ok hr
    have hr := pure_ok hr
    subst hr
    split
    · exact Fa.set (hK _ (isSizeAttr_mem hsz)) _
    · exact Fa
  · split at hr
    · rename_i hps
      obtain ⟨v, -, hr⟩ := bind_ok hr
      have hr := pure_ok hr
      subst hr
      split
      · exact Fa.set (hK _ (isPosAttr_mem hps)) _
      · exact Fa
    · have hr := pure_ok hr
      subst hr
      exact Fa

/-! ## Stage 4: size deltas -/

def sizeDeltaKeys : List Str := [cs!"dw", cs!"dh", cs!"width", cs!"height"]

theorem popAdjust_frame {K : List Str} {e0 e : Elem} (F : Frame K e0 e) {k k' : Str}
    (hk : k ∈ K) (hk' : k' ∈ K) (w : Option Rat) :
    Frame K e0 (match e.popAttr k with
      | (e', some dw) =>
        match parseLength dw, w with
        | some l, some x => e'.setAttr k' (Num.fstr (l.adjust x))
        | _, _ => e'
      | (_, none) => e) := by
  split
  · rename_i e1 v heq
    have : e1 = (e.popAttr k).1 := by rw [heq]
    subst this
    split
    · exact (F.pop hk).set hk' _
    · exact F.pop hk
  · exact F

theorem resolveSizeDelta_frame {K : List Str} (hK : ∀ k ∈ sizeDeltaKeys, k ∈ K) {e0 e : Elem}
    (F : Frame K e0 e) : Frame K e0 e.resolveSizeDelta := by
  unfold Elem.resolveSizeDelta
  simp only []
  generalize (if e.name == cs!"circle" then _ else _ : Option Rat × Option Rat) = wh
  obtain ⟨w, h⟩ := wh
  exact popAdjust_frame (popAdjust_frame F (hK cs!"dw" (by kmem)) (hK cs!"width" (by kmem)) w)
    (hK cs!"dh" (by kmem)) (hK cs!"height" (by kmem)) h

/-! ## Stage 5: text anchor -/

theorem evalTextAnchor_frame {K : List Str} (hK : cs!"text-loc" ∈ K) (c : Ctx) {e0 e e' : Elem}
    (F : Frame K e0 e) (h : e.evalTextAnchor c = .ok e') : Frame K e0 e' := by
  unfold Elem.evalTextAnchor at h
  split at h
  · cases h; exact F
  · obtain ⟨p, -, h⟩ := bind_ok h
    simp only [] at h
    split at h
    · split at h
      · cases h
      all_goals (have h := pure_ok h; subst h; exact F.setDefault hK _)
    · split at h
      · split at h
        · cases h
        · have h := pure_ok h; subst h; exact F.setDefault hK _
      · have h := pure_ok h; subst h; exact F

/-! ## Stage 6: relative position -/

theorem placeAt_frame {K : List Str} (hx : ['x'] ∈ K) (hy : ['y'] ∈ K) (c : Ctx) {e0 e e' : Elem}
    (x y : Rat) (F : Frame K e0 e) (h : e.placeAt c x y = .ok e') : Frame K e0 e' := by
  unfold Elem.placeAt at h
  split at h
  · obtain ⟨t, -, h⟩ := bind_ok h
    obtain ⟨b, -, h⟩ := bind_ok h
    split at h
    · have h := pure_ok h; subst h; exact (F.set hx _).set hy _
    · have h := pure_ok h; subst h; exact F
  · have h := pure_ok h; subst h; exact (F.set hx _).set hy _

def relPosKeys : List Str := [cs!"xy", ['x'], ['y']]

theorem evalRelPosition_frame {K : List Str} (hK : ∀ k ∈ relPosKeys, k ∈ K) (c : Ctx) {e0 e e' : Elem}
    (F : Frame K e0 e) (h : e.evalRelPosition c = .ok e') : Frame K e0 e' := by
  unfold Elem.evalRelPosition at h
  split at h
  · cases h; exact F
  · obtain ⟨p, -, h⟩ := bind_ok h
    split at h
    · have h := pure_ok h; subst h; exact F
    · obtain ⟨bbox, -, h⟩ := bind_ok h
      split at h
      · simp only [] at h
        split at h
        · cases h
        · obtain ⟨sz, -, h⟩ := bind_ok h
          obtain ⟨gap, -, h⟩ := bind_ok h
          exact placeAt_frame (hK _ (by kmem)) (hK _ (by kmem)) c _ _ (F.pop (hK cs!"xy" (by kmem))) h
      · have h := pure_ok h; subst h; exact F

/-! ## Stages 9 and 10: `points` / `d`, and `set_position_attrs` -/

def setPosKeys : List Str :=
  [['x'], ['y'], cs!"width", cs!"height", cs!"transform", cs!"cx", cs!"cy", ['r'], cs!"rx", cs!"ry",
   cs!"x1", cs!"y1", cs!"x2", cs!"y2", cs!"dx", cs!"dy", cs!"dw", cs!"dh"]

theorem lookupTable_mem {β : Type} (t : List (Str × β)) (k : Str) (v : β)
    (h : lookupTable t k = some v) : ∃ k', (k', v) ∈ t := by
  induction t with
  | nil => cases h
  | cons x xs ih =>
    obtain ⟨k', v'⟩ := x
    simp only [lookupTable] at h
    split at h
    · cases h; exact ⟨k', by simp⟩
    · obtain ⟨k'', hk⟩ := ih h
      exact ⟨k'', by simp [hk]⟩

/-- every row of the generated `Position::set_position_attrs` removal table lies inside `setPosKeys` -/
theorem removeAttrs_table_sub :
    ∀ p ∈ Gen.Position.removeAttrs, ∀ k ∈ p.2, k ∈ setPosKeys := by decide

theorem removeList_sub (n : Str) : ∀ k ∈ Elem.removeList n, k ∈ setPosKeys := by
  unfold Elem.removeList
  cases h : lookupTable Gen.Position.removeAttrs n with
  | none => simp
  | some ks =>
    obtain ⟨k', hk'⟩ := lookupTable_mem _ _ _ h
    exact removeAttrs_table_sub _ hk'

theorem positionViaTransform_frame {K : List Str} (hK : ∀ k ∈ setPosKeys, k ∈ K) {e0 e : Elem}
    (p : Gen.Position) (F : Frame K e0 e) : Frame K e0 (Elem.positionViaTransform p e) := by
  unfold Elem.positionViaTransform
  simp only []
  split
  · refine (F.set (hK cs!"transform" (by kmem)) _).remove ?_
    intro k hk
    apply hK
    revert k
    decide
  · exact F

theorem lineCoord_frame {K : List Str} {e0 e : Elem} {k : Str} (hk : k ∈ K) (v : Rat) (d : Option Rat)
    (F : Frame K e0 e) : Frame K e0 (e.lineCoord k v d) := by
  unfold Elem.lineCoord
  split
  · exact F.set hk _
  · split
    · split
      · exact F.set hk _
      · exact F
    · exact F

theorem setPositionAttrs_frame {K : List Str} (hK : ∀ k ∈ setPosKeys, k ∈ K) {e0 e : Elem}
    (p : Gen.Position) (F : Frame K e0 e) : Frame K e0 (Elem.setPositionAttrs p e) := by
  have hrm : ∀ n, ∀ k ∈ Elem.removeList n, k ∈ K := fun n k hk => hK k (removeList_sub n k hk)
  unfold Elem.setPositionAttrs
  split
  · simp only []
    repeat' split
    all_goals
      repeat (first
        | exact F
        | refine Frame.set ?_ (hK _ (by decide)) _
        | refine Frame.remove ?_ (hrm _)
        | refine lineCoord_frame (hK _ (by decide)) _ _ ?_)
  · split
    · exact positionViaTransform_frame hK p F
    · exact F

/-! ## The whole of `resolve_position` -/

/-- Every attribute name `resolve_position` (and `transmute`'s dx/dy step) may insert, change or remove. -/
def touchedKeys : List Str :=
  [ -- SVG geometry
    ['x'], ['y'], cs!"x1", cs!"y1", cs!"x2", cs!"y2", cs!"cx", cs!"cy", ['r'], cs!"rx", cs!"ry",
    cs!"width", cs!"height",
    -- svgdx compound / relative / delta attributes
    cs!"xy", cs!"cxy", cs!"xy1", cs!"xy2", cs!"wh", cs!"rxy", cs!"dxy", cs!"dwh",
    cs!"dx", cs!"dy", cs!"dw", cs!"dh", cs!"xy-loc",
    -- containment
    cs!"surround", cs!"inside", cs!"margin",
    -- relspec expansion, transform positioning, text anchoring
    cs!"points", ['d'], cs!"transform", cs!"text-loc" ]

theorem containKeys_sub : ∀ k ∈ containKeys, k ∈ touchedKeys := by decide
theorem compoundSizeKeys_sub : ∀ k ∈ compoundSizeKeys, k ∈ touchedKeys := by decide
theorem compoundPosKeys_sub : ∀ k ∈ compoundPosKeys, k ∈ touchedKeys := by decide
theorem relAttrKeys_sub : ∀ k ∈ relAttrKeys, k ∈ touchedKeys := by decide
theorem sizeDeltaKeys_sub : ∀ k ∈ sizeDeltaKeys, k ∈ touchedKeys := by decide
theorem relPosKeys_sub : ∀ k ∈ relPosKeys, k ∈ touchedKeys := by decide
theorem setPosKeys_sub : ∀ k ∈ setPosKeys, k ∈ touchedKeys := by decide

/-- conversely, `touchedKeys` is exactly the union of the per-stage lists plus `points`, `d`, `text-loc` -/
theorem touchedKeys_exact : ∀ k ∈ touchedKeys,
    k ∈ containKeys ++ compoundSizeKeys ++ compoundPosKeys ++ relAttrKeys ++ sizeDeltaKeys ++ relPosKeys
      ++ setPosKeys ++ [cs!"points", ['d'], cs!"text-loc"] := by decide

theorem relspecStep_frame {K : List Str} {e0 e : Elem} (F : Frame K e0 e) {k : Str} (hk : k ∈ K)
    (b : Bool) (f : Str → Str) :
    Frame K e0 (if b = true then
        match e.getAttr k with
        | some v => e.setAttr k (f v)
        | none => e
      else e) := by
  split
  · split
    · exact F.set hk _
    · exact F
  · exact F

theorem useWriteBack_frame {K : List Str} (hx : ['x'] ∈ K) (hy : ['y'] ∈ K) {e0 e e' : Elem}
    {o : Option (Rat × Rat)} (F : Frame K e0 e) (h : e.useWriteBack o = .ok e') : Frame K e0 e' := by
  unfold Elem.useWriteBack at h
  split at h
  · have h := pure_ok h; subst h; exact F
  · obtain ⟨ex, h1, h⟩ := bind_ok h
    have Fx : Frame K e0 ex := by
      split at h1
      · obtain ⟨n, -, h1⟩ := bind_ok h1
        have h1 := pure_ok h1; subst h1; exact F.set hx _
      · have h1 := pure_ok h1; subst h1; exact F
    split at h
    · obtain ⟨n, -, h⟩ := bind_ok h
      have h := pure_ok h; subst h; exact Fx.set hy _
    · have h := pure_ok h; subst h; exact Fx

/-- `resolve_position` after `handle_containment` (verbatim the rest of `Elem.resolvePosition`) -/
def resolveTail (c : Ctx) (e : Elem) : Except Err Elem := do
  let e := e.expandCompoundSize
  let e ← e.evalRelAttributes c
  let e := e.resolveSizeDelta
  let e ← (if e.name == cs!"text" && e.hasAttr cs!"text" then e.evalTextAnchor c else pure e)
  let e ← e.evalRelPosition c
  let e := e.expandCompoundPos
  let e ← e.evalRelAttributes c
  let e := (if e.name == cs!"polyline" || e.name == cs!"polygon" then
      match e.getAttr cs!"points" with
      | some pts => e.setAttr cs!"points" (Elem.expandRelspec c pts)
      | none => e
    else e)
  let e := (if e.name == cs!"path" then
      match e.getAttr ['d'] with
      | some d => e.setAttr ['d'] (Elem.expandRelspec c d)
      | none => e
    else e)
  let po ← Elem.usePosition c e e.toPosition
  Elem.useWriteBack (Elem.setPositionAttrs po.1 e) po.2

theorem resolvePosition_eq (c : Ctx) (e : Elem) :
    e.resolvePosition c = e.handleContainment c >>= resolveTail c := rfl

/-- the names the pipeline can touch after `handle_containment` -/
def laterKeys : List Str :=
  [ ['x'], ['y'], cs!"x1", cs!"y1", cs!"x2", cs!"y2", cs!"cx", cs!"cy", ['r'], cs!"rx", cs!"ry",
    cs!"width", cs!"height",
    cs!"xy", cs!"cxy", cs!"xy1", cs!"xy2", cs!"wh", cs!"rxy", cs!"dxy", cs!"dwh",
    cs!"dx", cs!"dy", cs!"dw", cs!"dh", cs!"xy-loc",
    cs!"points", ['d'], cs!"transform", cs!"text-loc" ]

theorem laterKeys_sub : ∀ k ∈ laterKeys, k ∈ touchedKeys := by decide

theorem resolveTail_frame {K : List Str} (hK : ∀ k ∈ laterKeys, k ∈ K) (c : Ctx) {e0 e1 e' : Elem}
    (F1 : Frame K e0 e1) (h : resolveTail c e1 = .ok e') : Frame K e0 e' := by
  have sub : ∀ {L : List Str}, (∀ k ∈ L, k ∈ laterKeys) → ∀ k ∈ L, k ∈ K := fun hL k hk => hK k (hL k hk)
  unfold resolveTail at h
  have F2 := expandCompoundSize_frame (sub (by decide)) F1
  obtain ⟨e3, h3, h⟩ := bind_ok h
  have F3 := evalRelAttributes_frame (sub (by decide)) c F2 h3
  have F4 := resolveSizeDelta_frame (sub (by decide)) F3
  obtain ⟨e5, h5, h⟩ := bind_ok h
  have F5 : Frame K e0 e5 := by
    split at h5
    · exact evalTextAnchor_frame (hK _ (by decide)) c F4 h5
    · have h5 := pure_ok h5; subst h5; exact F4
  obtain ⟨e6, h6, h⟩ := bind_ok h
  have F6 := evalRelPosition_frame (sub (by decide)) c F5 h6
  have F7 := expandCompoundPos_frame (sub (by decide)) F6
  obtain ⟨e8, h8, h⟩ := bind_ok h
  have F8 := evalRelAttributes_frame (sub (by decide)) c F7 h8
  simp only [] at h
  obtain ⟨po, -, h⟩ := bind_ok h
  refine useWriteBack_frame (hK _ (by decide)) (hK _ (by decide)) ?_ h
  apply setPositionAttrs_frame (sub (by decide))
  exact relspecStep_frame (relspecStep_frame F8 (k := cs!"points") (hK _ (by decide)) _ _)
    (k := ['d']) (hK _ (by decide)) _ _

/-- **Frame theorem for `resolve_position`.** -/
theorem resolvePosition_frame (c : Ctx) {e e' : Elem} (hn : NodupKeys e.attrs)
    (h : e.resolvePosition c = .ok e') :
    Frame touchedKeys { e with classes := containmentClasses e } e' := by
  rw [resolvePosition_eq] at h
  obtain ⟨e1, h1, h⟩ := bind_ok h
  exact resolveTail_frame laterKeys_sub c (handleContainment_frame containKeys_sub c hn h1) h

/-- after `handle_containment` neither `surround` nor `inside` is present -/
theorem handleContainment_post (c : Ctx) {e e' : Elem} (hn : NodupKeys e.attrs)
    (h : e.handleContainment c = .ok e') :
    e'.getAttr cs!"surround" = none ∧ e'.getAttr cs!"inside" = none := by
  unfold Elem.handleContainment at h
  have key : ∀ (e1 : Elem), NodupKeys e1.attrs →
      (e1.removeAttrs [cs!"surround", cs!"inside", cs!"margin"]).getAttr cs!"surround" = none ∧
      (e1.removeAttrs [cs!"surround", cs!"inside", cs!"margin"]).getAttr cs!"inside" = none := by
    intro e1 h1
    have a := contains_removeAll h1 [cs!"surround", cs!"inside", cs!"margin"] cs!"surround" (by decide)
    have b := contains_removeAll h1 [cs!"surround", cs!"inside", cs!"margin"] cs!"inside" (by decide)
    simp only [contains, Option.isSome_eq_false_iff, Option.isNone_iff_eq_none] at a b
    exact ⟨a, b⟩
  cases hs : e.getAttr cs!"surround" <;> cases hi : e.getAttr cs!"inside" <;>
    simp only [hs, hi] at h
  · cases h; exact ⟨hs, hi⟩
  · obtain ⟨boxes, -, h⟩ := bind_ok h
    obtain ⟨bbox, -, h⟩ := bind_ok h
    have h := pure_ok h
    subst h
    apply key
    cases bbox with
    | none => exact hn
    | some b => exact (positionFromBBox_frame (K := containKeys) (fun _ h => h) (Frame.refl hn) b _).nodup
  · obtain ⟨boxes, -, h⟩ := bind_ok h
    obtain ⟨bbox, -, h⟩ := bind_ok h
    have h := pure_ok h
    subst h
    apply key
    cases bbox with
    | none => exact hn
    | some b => exact (positionFromBBox_frame (K := containKeys) (fun _ h => h) (Frame.refl hn) b _).nodup
  · cases h

/-- … and the rest of `resolve_position` cannot bring them back -/
theorem resolvePosition_post (c : Ctx) {e e' : Elem} (hn : NodupKeys e.attrs)
    (h : e.resolvePosition c = .ok e') :
    e'.getAttr cs!"surround" = none ∧ e'.getAttr cs!"inside" = none := by
  rw [resolvePosition_eq] at h
  obtain ⟨e1, h1, h⟩ := bind_ok h
  have F1 := handleContainment_frame containKeys_sub c hn h1
  have F := resolveTail_frame (fun _ h => h) c (Frame.refl F1.nodup) h
  have P := handleContainment_post c hn h1
  exact ⟨(F.get _ (by decide)).trans P.1, (F.get _ (by decide)).trans P.2⟩

/-! ## `transmute`'s dx/dy step -/

def dxdyKeys : List Str :=
  [cs!"dx", cs!"dy", ['x'], cs!"cx", cs!"x1", cs!"x2", ['y'], cs!"cy", cs!"y1", cs!"y2"]

theorem dxdyKeys_sub : ∀ k ∈ dxdyKeys, k ∈ touchedKeys := by decide

theorem translated_frame {K : List Str} (hK : ∀ k ∈ dxdyKeys, k ∈ K) {e0 e e' : Elem} (dx dy : Rat)
    (F : Frame K e0 e) (h : e.translated dx dy = .ok e') : Frame K e0 e' := by
  unfold Elem.translated at h
  refine foldlM_frame _ ?_ e.attrs e e' F h
  intro acc kv r Fa hr
  split at hr
  · rename_i hx
    obtain ⟨v, -, hr⟩ := bind_ok hr
    have hr := pure_ok hr
    subst hr
    refine Fa.set (hK _ ?_) _
    simp only [Bool.or_eq_true, beq_iff_eq] at hx
    rcases hx with ((hx | hx) | hx) | hx <;> rw [hx] <;> decide
  · split at hr
    · rename_i hy
      obtain ⟨v, -, hr⟩ := bind_ok hr
      have hr := pure_ok hr
      subst hr
      refine Fa.set (hK _ ?_) _
      simp only [Bool.or_eq_true, beq_iff_eq] at hy
      rcases hy with ((hy | hy) | hy) | hy <;> rw [hy] <;> decide
    · have hr := pure_ok hr
      subst hr
      exact Fa

theorem transmuteDxDy_frame {K : List Str} (hK : ∀ k ∈ dxdyKeys, k ∈ K) {e0 e e' : Elem}
    (F : Frame K e0 e) (h : e.transmuteDxDy = .ok e') : Frame K e0 e' := by
  unfold Elem.transmuteDxDy at h
  split at h
  · cases h; exact F
  · simp only [] at h
    obtain ⟨dx, -, h⟩ := bind_ok h
    obtain ⟨dy, -, h⟩ := bind_ok h
    have F2 : Frame K e0 ((e.popAttr cs!"dx").1.popAttr cs!"dy").1 :=
      (F.pop (hK _ (by decide))).pop (hK _ (by decide))
    split at h
    · exact translated_frame hK _ _ F2 h
    · have h := pure_ok h; subst h; exact F2

/-! ## The whole non-connector pipeline -/

theorem isConnector_congr {e e1 : Elem} (hs : e1.getAttr cs!"start" = e.getAttr cs!"start")
    (he : e1.getAttr cs!"end" = e.getAttr cs!"end") (hn : e1.name = e.name) :
    Conn.isConnector e1 = Conn.isConnector e := by
  simp only [Elem.getAttr] at hs he
  simp only [Conn.isConnector, Elem.hasAttr, contains, hs, he, hn]

theorem process_frame (c : Ctx) {e e' : Elem} (hn : NodupKeys e.attrs)
    (hc : Conn.isConnector e = false) (h : e.process c = .ok e') :
    Frame touchedKeys { e with classes := containmentClasses e } e' := by
  unfold Elem.process at h
  obtain ⟨e1, h1, h⟩ := bind_ok h
  have F1 := resolvePosition_frame c hn h1
  have P1 := resolvePosition_post c hn h1
  obtain ⟨e2, h2, h⟩ := bind_ok h
  have hc1 : Conn.isConnector e1 = false :=
    (isConnector_congr (F1.get _ (by decide)) (F1.get _ (by decide)) F1.name).trans hc
  simp only [Conn.transmuteConnector, hc1, Bool.false_eq_true, if_false] at h2
  cases h2
  obtain ⟨e3, h3, h⟩ := bind_ok h
  have G3 : Frame dxdyKeys e1 e3 := transmuteDxDy_frame (fun _ h => h) (Frame.refl F1.nodup) h3
  have F3 : Frame touchedKeys { e with classes := containmentClasses e } e3 :=
    F1.trans (G3.mono dxdyKeys_sub)
  have G4 := resolvePosition_frame c F3.nodup h
  have hcl : containmentClasses e3 = e3.classes := by
    have a : e3.getAttr cs!"surround" = none := (G3.get _ (by decide)).trans P1.1
    have b : e3.getAttr cs!"inside" = none := (G3.get _ (by decide)).trans P1.2
    simp only [containmentClasses, a, b]
  rw [hcl] at G4
  exact F3.trans G4

/-! ## Public statements -/

set_option linter.unusedVariables false in
/-- helper (exported): removing keys does not disturb any other key. (`ha` is not needed.) -/
theorem get_removeAll_of_not_mem {a : Attrs} (ha : Attrs.NodupKeys a) (ks : List Str) (k : Str)
    (hk : k ∉ ks) : Attrs.get (Attrs.removeAll a ks) k = Attrs.get a k :=
  get_removeAll_other a ks k hk

/-- **Main theorem.** `resolve_position` leaves every attribute outside `touchedKeys` exactly as it
    was, never changes the element name, and changes the class list only by the containment marker
    (`d-surround` / `d-inside`) when `surround` / `inside` is present. -/
theorem resolvePosition_preserves (c : Ctx) (e e' : Elem) (hk : Attrs.NodupKeys e.attrs)
    (h : e.resolvePosition c = .ok e') (k : Str) (hkk : k ∉ touchedKeys) :
    e'.getAttr k = e.getAttr k ∧ e'.classes = containmentClasses e ∧ e'.name = e.name :=
  have F := resolvePosition_frame c hk h
  ⟨F.get k hkk, F.classes, F.name⟩

/-- the same with the class list literally unchanged, for elements without `surround` / `inside` -/
theorem resolvePosition_preserves_plain (c : Ctx) (e e' : Elem) (hk : Attrs.NodupKeys e.attrs)
    (h : e.resolvePosition c = .ok e') (hs : e.getAttr cs!"surround" = none)
    (hi : e.getAttr cs!"inside" = none) (k : Str) (hkk : k ∉ touchedKeys) :
    e'.getAttr k = e.getAttr k ∧ e'.classes = e.classes ∧ e'.name = e.name := by
  have F := resolvePosition_frame c hk h
  refine ⟨F.get k hkk, ?_, F.name⟩
  have := F.classes
  simpa only [containmentClasses, hs, hi] using this

theorem resolvePosition_nodup (c : Ctx) (e e' : Elem) (hk : Attrs.NodupKeys e.attrs)
    (h : e.resolvePosition c = .ok e') : Attrs.NodupKeys e'.attrs :=
  (resolvePosition_frame c hk h).nodup

/-- the remaining fields of the element record are untouched as well -/
theorem resolvePosition_preserves_meta (c : Ctx) (e e' : Elem) (hk : Attrs.NodupKeys e.attrs)
    (h : e.resolvePosition c = .ok e') :
    e'.contentBBox = e.contentBBox ∧ e'.isEmpty = e.isEmpty :=
  have F := resolvePosition_frame c hk h
  ⟨F.cbb, F.empty⟩

/-- a resolved element carries neither `surround` nor `inside` -/
theorem resolvePosition_no_containment (c : Ctx) (e e' : Elem) (hk : Attrs.NodupKeys e.attrs)
    (h : e.resolvePosition c = .ok e') :
    e'.getAttr cs!"surround" = none ∧ e'.getAttr cs!"inside" = none :=
  resolvePosition_post c hk h

/-- `transmute`'s dx/dy step touches only `dxdyKeys` (⊆ `touchedKeys`, see `dxdyKeys_sub`). -/
theorem transmuteDxDy_preserves (e e' : Elem) (hk : Attrs.NodupKeys e.attrs)
    (h : e.transmuteDxDy = .ok e') (k : Str) (hkk : k ∉ dxdyKeys) :
    e'.getAttr k = e.getAttr k ∧ e'.classes = e.classes ∧ e'.name = e.name :=
  have F := transmuteDxDy_frame (fun _ h => h) (Frame.refl hk) h
  ⟨F.get k hkk, F.classes, F.name⟩

theorem transmuteDxDy_preserves_touched (e e' : Elem) (hk : Attrs.NodupKeys e.attrs)
    (h : e.transmuteDxDy = .ok e') (k : Str) (hkk : k ∉ touchedKeys) :
    e'.getAttr k = e.getAttr k ∧ e'.classes = e.classes ∧ e'.name = e.name :=
  transmuteDxDy_preserves e e' hk h k (fun hm => hkk (dxdyKeys_sub k hm))

theorem transmuteDxDy_nodup (e e' : Elem) (hk : Attrs.NodupKeys e.attrs)
    (h : e.transmuteDxDy = .ok e') : Attrs.NodupKeys e'.attrs :=
  (transmuteDxDy_frame (K := dxdyKeys) (fun _ h => h) (Frame.refl hk) h).nodup

/-- **The whole `OtherElement` pipeline** (resolve; transmute; resolve) for a non-connector: no
    extra hypotheses are needed. -/
theorem process_preserves (c : Ctx) (e e' : Elem) (hk : Attrs.NodupKeys e.attrs)
    (hc : ¬ Conn.isConnector e = true) (h : e.process c = .ok e') (k : Str) (hkk : k ∉ touchedKeys) :
    e'.getAttr k = e.getAttr k ∧ e'.classes = containmentClasses e ∧ e'.name = e.name :=
  have F := process_frame c hk (by simpa using hc) h
  ⟨F.get k hkk, F.classes, F.name⟩

theorem process_nodup (c : Ctx) (e e' : Elem) (hk : Attrs.NodupKeys e.attrs)
    (hc : ¬ Conn.isConnector e = true) (h : e.process c = .ok e') : Attrs.NodupKeys e'.attrs :=
  (process_frame c hk (by simpa using hc) h).nodup

/-! ## Presentation and metadata attributes -/

/-- standard SVG presentation / metadata attributes, and the svgdx attributes handled elsewhere -/
def presentationAttrs : List Str :=
  [ cs!"id", cs!"style", cs!"fill", cs!"fill-opacity", cs!"fill-rule", cs!"stroke", cs!"stroke-width",
    cs!"stroke-dasharray", cs!"stroke-dashoffset", cs!"stroke-linecap", cs!"stroke-linejoin",
    cs!"stroke-miterlimit", cs!"stroke-opacity", cs!"opacity", cs!"color", cs!"visibility", cs!"display",
    cs!"font-size", cs!"font-family", cs!"font-weight", cs!"font-style", cs!"text-anchor",
    cs!"dominant-baseline", cs!"letter-spacing", cs!"href", cs!"xlink:href", cs!"clip-path", cs!"clip-rule",
    cs!"mask", cs!"filter", cs!"marker-start", cs!"marker-mid", cs!"marker-end", cs!"pointer-events",
    cs!"viewBox", cs!"preserveAspectRatio", cs!"xmlns", cs!"xmlns:xlink", cs!"pathLength", cs!"tabindex",
    cs!"lang", cs!"role", cs!"aria-label",
    -- svgdx attributes consumed by other passes
    cs!"text", cs!"start", cs!"end", cs!"edge-type", cs!"corner-offset" ]

theorem presentationAttrs_not_touched : ∀ k ∈ presentationAttrs, k ∉ touchedKeys := by decide

theorem presentation_attrs_untouched (c : Ctx) (e e' : Elem) (hk : Attrs.NodupKeys e.attrs)
    (h : e.resolvePosition c = .ok e') :
    ∀ k ∈ presentationAttrs, e'.getAttr k = e.getAttr k :=
  fun k hm => (resolvePosition_preserves c e e' hk h k (presentationAttrs_not_touched k hm)).1

theorem presentation_attrs_untouched_process (c : Ctx) (e e' : Elem) (hk : Attrs.NodupKeys e.attrs)
    (hc : ¬ Conn.isConnector e = true) (h : e.process c = .ok e') :
    ∀ k ∈ presentationAttrs, e'.getAttr k = e.getAttr k :=
  fun k hm => (process_preserves c e e' hk hc h k (presentationAttrs_not_touched k hm)).1

/-! ## Non-vacuity -/

/-- `<rect id="a" x="1" y="2" width="10" height="5" dx="3" fill="red" stroke="black"/>` -/
def exRect : Elem :=
  { name := cs!"rect",
    attrs := [(cs!"id", cs!"a"), (['x'], cs!"1"), (['y'], cs!"2"), (cs!"width", cs!"10"),
              (cs!"height", cs!"5"), (cs!"dx", cs!"3"), (cs!"fill", cs!"red"), (cs!"stroke", cs!"black")] }

/-- what the pipeline makes of it: `dx` consumed into `x`, everything else in place -/
def exRectOut : Elem :=
  { name := cs!"rect",
    attrs := [(cs!"id", cs!"a"), (['x'], cs!"4"), (['y'], cs!"2"), (cs!"width", cs!"10"),
              (cs!"height", cs!"5"), (cs!"fill", cs!"red"), (cs!"stroke", cs!"black")] }

theorem exRect_nodup : Attrs.NodupKeys exRect.attrs := by
  show (exRect.attrs.map Prod.fst).Nodup
  decide

set_option maxRecDepth 100000 in
theorem exRect_resolves : exRect.resolvePosition {} = .ok exRectOut := by
  with_unfolding_all rfl

set_option maxRecDepth 100000 in
theorem exRect_processes : exRect.process {} = .ok exRectOut := by
  with_unfolding_all rfl

theorem exRect_not_connector : ¬ Conn.isConnector exRect = true := by decide

/-- the hypotheses of the main theorem are satisfiable, and its conclusion is what one computes -/
example : exRectOut.getAttr cs!"fill" = some cs!"red" ∧ exRectOut.getAttr cs!"stroke" = some cs!"black"
    ∧ exRectOut.getAttr cs!"id" = some cs!"a" := by
  have H := presentation_attrs_untouched {} exRect exRectOut exRect_nodup exRect_resolves
  exact ⟨(H _ (by decide)).trans (by decide), (H _ (by decide)).trans (by decide),
    (H _ (by decide)).trans (by decide)⟩

/-- … and `touchedKeys` is not over-generous here: `dx` really is consumed and `x` really changes -/
example : exRectOut.getAttr cs!"dx" = none ∧ exRect.getAttr cs!"dx" = some cs!"3"
    ∧ exRectOut.getAttr ['x'] = some cs!"4" ∧ exRect.getAttr ['x'] = some cs!"1" := by decide

/-- the class list does change under containment: a `surround` element gains `d-surround`
    (and loses `surround` / `margin`), while `fill` passes through -/
def exSurround : Elem :=
  { name := cs!"rect", attrs := [(cs!"surround", cs!"#a"), (cs!"margin", cs!"1"), (cs!"fill", cs!"none")] }

def exCtx : Ctx := { elems := [(['a'], exRectOut)] }

def exSurroundOut : Elem :=
  { name := cs!"rect",
    attrs := [(['x'], cs!"3"), (['y'], cs!"1"), (cs!"width", cs!"12"), (cs!"height", cs!"7"),
              (cs!"fill", cs!"none")],
    classes := [cs!"d-surround"] }

set_option maxRecDepth 100000 in
theorem exSurround_resolves : exSurround.resolvePosition exCtx = .ok exSurroundOut := by
  with_unfolding_all rfl

example : exSurroundOut.classes ≠ exSurround.classes ∧ exSurroundOut.classes = containmentClasses exSurround
    ∧ exSurroundOut.getAttr cs!"fill" = exSurround.getAttr cs!"fill" := by decide

section Axioms
#print axioms resolvePosition_preserves
#print axioms resolvePosition_preserves_plain
#print axioms resolvePosition_nodup
#print axioms resolvePosition_preserves_meta
#print axioms resolvePosition_no_containment
#print axioms transmuteDxDy_preserves
#print axioms transmuteDxDy_preserves_touched
#print axioms transmuteDxDy_nodup
#print axioms process_preserves
#print axioms process_nodup
#print axioms presentationAttrs_not_touched
#print axioms presentation_attrs_untouched
#print axioms presentation_attrs_untouched_process
#print axioms get_removeAll_of_not_mem
#print axioms exRect_resolves
#print axioms exRect_processes
#print axioms exSurround_resolves
end Axioms

end PassThrough
end Svgdx
