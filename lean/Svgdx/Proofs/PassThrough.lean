import Svgdx.Geom.Connector
import Svgdx.Proofs.Attrs
namespace Svgdx
open Str Attrs

namespace PassThrough

/-! ## Attribute-map lemmas not in `Svgdx.Proofs.Attrs` -/

theorem lookup_pop_other (a : Attrs) (k k2 : Str) (hne : k2 ≠ k) :
    lookupTable (pop a k).1 k2 = lookupTable a k2 := by
  induction a with
  | nil => rfl
  | cons x xs ih =>
    obtain ⟨k', v'⟩ := x
    simp only [pop]
    by_cases hk : k' = k
    · subst hk
      have : (k' == k2) = false := by simpa using (fun e => hne e.symm)
      simp [lookupTable, this]
    · have hb : (k' == k) = false := by simpa using hk
      simp only [hb, Bool.false_eq_true, if_false, lookupTable, ih]

theorem get_remove_other (a : Attrs) (k k2 : Str) (hne : k2 ≠ k) :
    get (remove a k) k2 = get a k2 := lookup_pop_other a k k2 hne

theorem get_removeAll_other (a : Attrs) (ks : List Str) (k2 : Str) (h : k2 ∉ ks) :
    get (removeAll a ks) k2 = get a k2 := by
  induction ks generalizing a with
  | nil => rfl
  | cons k ks ih =>
    simp only [removeAll, List.foldl_cons]
    have h1 : k2 ≠ k := fun e => h (by simp [e])
    have h2 : k2 ∉ ks := fun e => h (by simp [e])
    exact (ih (remove a k) h2).trans (get_remove_other a k k2 h1)

theorem insertFirst_nodup {a : Attrs} (h : NodupKeys a) (k v : Str) : NodupKeys (insertFirst a k v) := by
  unfold insertFirst
  split
  · exact h
  · exact insert_nodup h k v

theorem get_insertFirst_other {a : Attrs} (h : NodupKeys a) (k v k2 : Str) (hne : k2 ≠ k) :
    get (insertFirst a k v) k2 = get a k2 := by
  unfold insertFirst
  split
  · rfl
  · exact get_insert_other h k v k2 hne

/-! ## Frames -/

/-- `Frame K e e'`: `e'` is a well-formed element that agrees with `e` on everything except
    (possibly) the attributes named in `K`. -/
structure Frame (K : List Str) (e e' : Elem) : Prop where
  nodup : NodupKeys e'.attrs
  name : e'.name = e.name
  classes : e'.classes = e.classes
  cbb : e'.contentBBox = e.contentBBox
  empty : e'.isEmpty = e.isEmpty
  get : ∀ k, k ∉ K → e'.getAttr k = e.getAttr k

namespace Frame
variable {K : List Str} {e0 e e' : Elem}

theorem refl (h : NodupKeys e.attrs) : Frame K e e := ⟨h, rfl, rfl, rfl, rfl, fun _ _ => rfl⟩

theorem trans (F : Frame K e0 e) (G : Frame K e e') : Frame K e0 e' :=
  ⟨G.nodup, G.name.trans F.name, G.classes.trans F.classes, G.cbb.trans F.cbb, G.empty.trans F.empty,
   fun k hk => (G.get k hk).trans (F.get k hk)⟩

theorem mono {K' : List Str} (F : Frame K e e') (hs : ∀ k ∈ K, k ∈ K') : Frame K' e e' :=
  ⟨F.nodup, F.name, F.classes, F.cbb, F.empty, fun k hk => F.get k (fun h => hk (hs k h))⟩

theorem set (F : Frame K e0 e) {k : Str} (hk : k ∈ K) (v : Str) : Frame K e0 (e.setAttr k v) :=
  ⟨insert_nodup F.nodup k v, F.name, F.classes, F.cbb, F.empty, fun k2 hk2 =>
    (get_insert_other F.nodup k v k2 (fun h => hk2 (h ▸ hk))).trans (F.get k2 hk2)⟩

theorem setDefault (F : Frame K e0 e) {k : Str} (hk : k ∈ K) (v : Str) :
    Frame K e0 (e.setDefaultAttr k v) := by
  unfold Elem.setDefaultAttr
  split
  · exact F
  · exact F.set hk v

theorem pop (F : Frame K e0 e) {k : Str} (hk : k ∈ K) : Frame K e0 (e.popAttr k).1 :=
  ⟨remove_nodup F.nodup k, F.name, F.classes, F.cbb, F.empty, fun k2 hk2 =>
    (get_remove_other e.attrs k k2 (fun h => hk2 (h ▸ hk))).trans (F.get k2 hk2)⟩

theorem remove (F : Frame K e0 e) {ks : List Str} (hks : ∀ k ∈ ks, k ∈ K) :
    Frame K e0 (e.removeAttrs ks) :=
  ⟨removeAll_nodup F.nodup ks, F.name, F.classes, F.cbb, F.empty, fun k2 hk2 =>
    (get_removeAll_other e.attrs ks k2 (fun h => hk2 (hks k2 h))).trans (F.get k2 hk2)⟩

theorem insFirst (F : Frame K e0 e) {k : Str} (hk : k ∈ K) (v : Str) :
    Frame K e0 { e with attrs := e.attrs.insertFirst k v } :=
  ⟨insertFirst_nodup F.nodup k v, F.name, F.classes, F.cbb, F.empty, fun k2 hk2 =>
    (get_insertFirst_other F.nodup k v k2 (fun h => hk2 (h ▸ hk))).trans (F.get k2 hk2)⟩

end Frame


theorem bind_ok {α β : Type} {x : Except Err α} {f : α → Except Err β} {b : β}
    (h : (x >>= f) = .ok b) : ∃ a, x = .ok a ∧ f a = .ok b := by
  cases x with
  | error er => cases h
  | ok a => exact ⟨a, rfl, h⟩

/-- membership in a literal key list -/
macro "kmem" : tactic => `(tactic| decide)

/-! ## Stage 1: containment -/

def containKeys : List Str :=
  [['x'], ['y'], cs!"width", cs!"height", cs!"cx", cs!"cy", ['r'], cs!"rx", cs!"ry",
   cs!"surround", cs!"inside", cs!"margin"]

theorem positionFromBBox_frame {K : List Str} (hK : ∀ k ∈ containKeys, k ∈ K) {e0 e : Elem}
    (F : Frame K e0 e) (b : Gen.BoundingBox) (ins : Bool) :
    Frame K e0 (e.positionFromBBox b ins) := by
  unfold Elem.positionFromBBox
  simp only []
  split
  · exact (((F.set (hK _ (by kmem)) _).set (hK _ (by kmem)) _).set (hK _ (by kmem)) _).set (hK _ (by kmem)) _
  · split
    · exact ((F.set (hK _ (by kmem)) _).set (hK _ (by kmem)) _).set (hK _ (by kmem)) _
    · split
      · exact (((F.set (hK _ (by kmem)) _).set (hK _ (by kmem)) _).set (hK _ (by kmem)) _).set (hK _ (by kmem)) _
      · exact F

theorem Frame.addClass {K : List Str} {e0 e : Elem} (F : Frame K e0 e) (c : Str) :
    Frame K (e0.addClass c) (e.addClass c) :=
  ⟨F.nodup, F.name, by simp [Elem.addClass, F.classes], F.cbb, F.empty, F.get⟩

/-- the class list after `handle_containment` -/
def containmentClasses (e : Elem) : List Str :=
  match e.getAttr cs!"surround", e.getAttr cs!"inside" with
  | none, none => e.classes
  | some _, _ => classInsert e.classes cs!"d-surround"
  | none, some _ => classInsert e.classes cs!"d-inside"

theorem pure_ok {α : Type} {a b : α} (h : (pure a : Except Err α) = .ok b) : a = b := by
  cases h; rfl

theorem contain_tail {K : List Str} (hK : ∀ k ∈ containKeys, k ∈ K) {e : Elem} (hn : NodupKeys e.attrs)
    (bbox : Option Gen.BoundingBox) (ins : Bool) (cls : Str) :
    Frame K (e.addClass cls)
      (((match bbox with
          | some b => e.positionFromBBox b ins
          | none => e).addClass cls).removeAttrs [cs!"surround", cs!"inside", cs!"margin"]) := by
  have F0 : Frame K e (match bbox with
          | some b => e.positionFromBBox b ins
          | none => e) := by
    cases bbox with
    | none => exact Frame.refl hn
    | some b => exact positionFromBBox_frame hK (Frame.refl hn) b ins
  refine (F0.addClass cls).remove ?_
  intro k hk
  apply hK
  revert k
  decide

theorem handleContainment_frame {K : List Str} (hK : ∀ k ∈ containKeys, k ∈ K) (c : Ctx) {e e' : Elem}
    (hn : NodupKeys e.attrs) (h : e.handleContainment c = .ok e') :
    Frame K { e with classes := containmentClasses e } e' := by
  unfold Elem.handleContainment at h
  cases hs : e.getAttr cs!"surround" <;> cases hi : e.getAttr cs!"inside" <;>
    simp only [hs, hi] at h
  · cases h
    simp only [containmentClasses, hs, hi]
    exact Frame.refl hn
  · obtain ⟨boxes, -, h⟩ := bind_ok h
    obtain ⟨bbox, -, h⟩ := bind_ok h
    have h := pure_ok h
    subst h
    simp only [containmentClasses, hs, hi]
    exact contain_tail hK hn bbox _ _
  · obtain ⟨boxes, -, h⟩ := bind_ok h
    obtain ⟨bbox, -, h⟩ := bind_ok h
    have h := pure_ok h
    subst h
    simp only [containmentClasses, hs, hi]
    exact contain_tail hK hn bbox _ _
  · cases h

/-! ## Stages 2 and 7: compound attributes -/

theorem expandPair_frame {K : List Str} {e0 e : Elem} (F : Frame K e0 e) {k k1 k2 : Str}
    (hk : k ∈ K) (h1 : k1 ∈ K) (h2 : k2 ∈ K) : Frame K e0 (e.expandPair k k1 k2) := by
  unfold Elem.expandPair
  split
  · rename_i e1 v heq
    have : e1 = (e.popAttr k).1 := by rw [heq]
    subst this
    exact ((F.pop hk).insFirst h1 _).insFirst h2 _
  · exact F

def compoundSizeKeys : List Str :=
  [cs!"wh", cs!"width", cs!"height", cs!"rxy", cs!"rx", cs!"ry", cs!"dwh", cs!"dw", cs!"dh"]

theorem expandCompoundSize_frame {K : List Str} (hK : ∀ k ∈ compoundSizeKeys, k ∈ K) {e0 e : Elem}
    (F : Frame K e0 e) : Frame K e0 e.expandCompoundSize := by
  unfold Elem.expandCompoundSize
  simp only []
  have F1 := expandPair_frame F (hK cs!"wh" (by kmem)) (hK cs!"width" (by kmem)) (hK cs!"height" (by kmem))
  apply expandPair_frame _ (hK cs!"dwh" (by kmem)) (hK cs!"dw" (by kmem)) (hK cs!"dh" (by kmem))
  split
  · exact expandPair_frame F1 (hK cs!"rxy" (by kmem)) (hK cs!"rx" (by kmem)) (hK cs!"ry" (by kmem))
  · exact F1

def compoundPosKeys : List Str :=
  [cs!"xy", cs!"xy-loc", ['x'], ['y'], cs!"cxy", cs!"cx", cs!"cy", cs!"xy1", cs!"x1", cs!"y1",
   cs!"xy2", cs!"x2", cs!"y2", cs!"dxy", cs!"dx", cs!"dy"]

/-- both target names of `xy` under any `xy-loc` are position attributes -/
theorem xyLoc_mem (loc : Option Str) :
    (Elem.xyLoc loc).1 ∈ compoundPosKeys ∧ (Elem.xyLoc loc).2 ∈ compoundPosKeys := by
  unfold Elem.xyLoc
  split
  · split
    · rename_i l p hp
      simp only [Gen.Element.xyLocTable, List.map, lookupTable] at hp
      repeat' split at hp
      all_goals (cases hp <;> decide)
    · decide
  · decide

theorem expandCompoundPos_frame {K : List Str} (hK : ∀ k ∈ compoundPosKeys, k ∈ K) {e0 e : Elem}
    (F : Frame K e0 e) : Frame K e0 e.expandCompoundPos := by
  unfold Elem.expandCompoundPos
  simp only []
  apply expandPair_frame _ (hK cs!"dxy" (by kmem)) (hK cs!"dx" (by kmem)) (hK cs!"dy" (by kmem))
  apply expandPair_frame _ (hK cs!"xy2" (by kmem)) (hK cs!"x2" (by kmem)) (hK cs!"y2" (by kmem))
  apply expandPair_frame _ (hK cs!"xy1" (by kmem)) (hK cs!"x1" (by kmem)) (hK cs!"y1" (by kmem))
  apply expandPair_frame _ (hK cs!"cxy" (by kmem)) (hK cs!"cx" (by kmem)) (hK cs!"cy" (by kmem))
  split
  · rename_i e1 v heq
    have : e1 = (e.popAttr cs!"xy").1 := by rw [heq]
    subst this
    have F1 := (F.pop (hK cs!"xy" (by kmem))).pop (hK cs!"xy-loc" (by kmem))
    exact (F1.insFirst (hK _ (xyLoc_mem _).1) _).insFirst (hK _ (xyLoc_mem _).2) _
  · exact F

/-! ## Stages 3 and 8: relative attributes (a fold over the attribute snapshot) -/

theorem foldlM_frame {K : List Str} {e0 : Elem} (f : Elem → Str × Str → Except Err Elem)
    (hf : ∀ acc kv r, Frame K e0 acc → f acc kv = .ok r → Frame K e0 r) :
    ∀ (l : List (Str × Str)) (e r : Elem), Frame K e0 e → l.foldlM f e = .ok r → Frame K e0 r := by
  intro l
  induction l with
  | nil =>
    intro e r F h
    have := pure_ok h
    subst this
    exact F
  | cons kv l ih =>
    intro e r F h
    rw [List.foldlM_cons] at h
    obtain ⟨e1, h1, h2⟩ := bind_ok h
    exact ih e1 r (hf e kv e1 F h1) h2

def relAttrKeys : List Str :=
  [cs!"width", cs!"height", ['r'], cs!"rx", cs!"ry",
   ['x'], ['y'], cs!"x1", cs!"y1", cs!"x2", cs!"y2", cs!"cx", cs!"cy"]

theorem isSizeAttr_mem {e : Elem} {k : Str} (h : e.isSizeAttr k = true) : k ∈ relAttrKeys := by
  unfold Elem.isSizeAttr at h
  split at h
  · cases h
  · simp only [Bool.or_eq_true, Bool.and_eq_true, beq_iff_eq] at h
    rcases h with ((h | h) | ⟨_, h⟩) | ⟨_, h | h⟩ <;> subst h <;> decide

theorem isPosAttr_mem {k : Str} (h : Elem.isPosAttr k = true) : k ∈ relAttrKeys := by
  unfold Elem.isPosAttr at h
  simp only [Bool.or_eq_true, beq_iff_eq] at h
  rcases h with ((((((h | h) | h) | h) | h) | h) | h) | h <;> subst h <;> decide

theorem evalRelAttributes_frame {K : List Str} (hK : ∀ k ∈ relAttrKeys, k ∈ K) (c : Ctx) {e0 e e' : Elem}
    (F : Frame K e0 e) (h : e.evalRelAttributes c = .ok e') : Frame K e0 e' := by
  unfold Elem.evalRelAttributes at h
  refine foldlM_frame _ ?_ e.attrs e e' F h
  intro acc kv r Fa hr
  split at hr
  · rename_i hsz
    obtain ⟨v, -, hr⟩ := bind_ok hr
    have hr := pure_ok hr
    subst hr
    split
    · exact Fa.set (hK _ (isSizeAttr_mem hsz)) _
    · exact Fa
  · split at hr
    · rename_i hps
      obtain ⟨v, -, hr⟩ := bind_ok hr
      have hr := pure_ok hr
      subst hr
      split
      · exact Fa.set (hK _ (isPosAttr_mem hps)) _
      · exact Fa
    · have hr := pure_ok hr
      subst hr
      exact Fa

end PassThrough
end Svgdx
