/-
  Svgdx.Proofs.XmlWrite — attribute uniqueness of emitted elements and root attributes.
-/
import Svgdx.Xml.Write
import Svgdx.Doc.Root
import Svgdx.Proofs.Attrs
namespace Svgdx
open Str

theorem Attrs.keys_insert_subset (a : Attrs) (k v : Str) : ∀ x ∈ Attrs.keys (Attrs.insert a k v), x = k ∨ x ∈ Attrs.keys a := by
  intro x hx
  unfold Attrs.insert at hx
  have hp := Attrs.keys_perm (Attrs.reorder_perm (if Attrs.contains a k then Attrs.updateInPlace k v a else a ++ [(k, v)]))
  have hx' := hp.mem_iff.mp hx
  split at hx'
  · right; rwa [Attrs.keys_updateInPlace] at hx'
  · simp only [Attrs.keys, List.map_append, List.map_cons, List.map_nil, List.mem_append, List.mem_singleton] at hx'
    rcases hx' with h | h
    · right; exact h
    · left; exact h

theorem Elem.new_nil (name : Str) : (Elem.new name []).attrs = [] ∧ (Elem.new name []).classes = [] := by
  simp [Elem.new]

/-- the attribute list of every emitted element has unique names, none of them `class`
    (the class list is written separately, once) -/
theorem adapt_attrs_unique (e : Elem) :
    Attrs.NodupKeys (Ctl.adapt e).attrs ∧ cs!"class" ∉ Attrs.keys (Ctl.adapt e).attrs := by
  unfold Ctl.adapt
  dsimp only
  -- invariant of the fold
  have key : ∀ (l : List (Str × Str)) (acc : Elem),
      Attrs.NodupKeys acc.attrs → cs!"class" ∉ Attrs.keys acc.attrs →
      let r := l.foldl (fun (acc : Elem) (kv : Str × Str) =>
        if kv.1 == cs!"class" || kv.1 == cs!"data-src-line" || kv.1 == ['_'] || kv.1 == cs!"__" then acc
        else acc.setAttr kv.1 kv.2) acc
      Attrs.NodupKeys r.attrs ∧ cs!"class" ∉ Attrs.keys r.attrs := by
    intro l
    induction l with
    | nil => intro acc h1 h2; exact ⟨h1, h2⟩
    | cons kv rest ih =>
      intro acc h1 h2
      simp only [List.foldl_cons]
      split
      · exact ih acc h1 h2
      · rename_i hc
        apply ih
        · exact Attrs.insert_nodup h1 _ _
        · intro hmem
          rcases Attrs.keys_insert_subset acc.attrs kv.1 kv.2 _ hmem with h | h
          · apply hc
            simp [← h]
          · exact h2 h
  have h0 := Elem.new_nil e.name
  have := key e.attrs (Elem.new e.name []) (by rw [h0.1]; simp [Attrs.NodupKeys, Attrs.keys]) (by rw [h0.1]; simp [Attrs.keys])
  exact this

theorem Attrs.contains_insert_self {a : Attrs} (h : Attrs.NodupKeys a) (k v : Str) :
    Attrs.contains (Attrs.insert a k v) k = true := by
  simp [Attrs.contains, Attrs.get_insert_self h]

theorem Attrs.contains_insert_mono {a : Attrs} (h : Attrs.NodupKeys a) (k v k2 : Str)
    (hc : Attrs.contains a k2 = true) : Attrs.contains (Attrs.insert a k v) k2 = true := by
  by_cases hk : k2 = k
  · subst hk; exact Attrs.contains_insert_self h _ _
  · simpa [Attrs.contains, Attrs.get_insert_other h k v k2 hk] using hc

namespace Doc

/-- both steps only add or replace attributes -/
def Grows (a b : Attrs) : Prop := Attrs.NodupKeys b ∧ ∀ k, Attrs.contains a k = true → Attrs.contains b k = true

theorem grows_refl {a : Attrs} (h : Attrs.NodupKeys a) : Grows a a := ⟨h, fun _ hk => hk⟩

theorem grows_insert {a b : Attrs} (h : Grows a b) (k v : Str) : Grows a (Attrs.insert b k v) :=
  ⟨Attrs.insert_nodup h.1 k v, fun k2 hk => Attrs.contains_insert_mono h.1 k v k2 (h.2 k2 hk)⟩

theorem rootBase_spec (cfg : RootCfg) (orig : Attrs) (hn : Attrs.NodupKeys orig) :
    Grows orig (rootBase cfg orig) ∧ Attrs.contains (rootBase cfg orig) cs!"xmlns" = true ∧
    Attrs.contains (rootBase cfg orig) cs!"version" = true := by
  unfold rootBase
  dsimp only
  -- step 1: version
  have s1 : Grows orig (if orig.contains cs!"version" then orig else orig.insert cs!"version" cs!"1.1") ∧
      Attrs.contains (if orig.contains cs!"version" then orig else orig.insert cs!"version" cs!"1.1") cs!"version" = true := by
    split
    · rename_i h; exact ⟨grows_refl hn, h⟩
    · exact ⟨grows_insert (grows_refl hn) _ _, Attrs.contains_insert_self hn _ _⟩
  generalize (if orig.contains cs!"version" then orig else orig.insert cs!"version" cs!"1.1") = a1 at s1
  -- step 2: xmlns
  have s2 : Grows orig (if orig.contains cs!"xmlns" then a1 else a1.insert cs!"xmlns" svgNs) ∧
      Attrs.contains (if orig.contains cs!"xmlns" then a1 else a1.insert cs!"xmlns" svgNs) cs!"xmlns" = true ∧
      Attrs.contains (if orig.contains cs!"xmlns" then a1 else a1.insert cs!"xmlns" svgNs) cs!"version" = true := by
    split
    · rename_i h; exact ⟨s1.1, s1.1.2 _ h, s1.2⟩
    · exact ⟨grows_insert s1.1 _ _, Attrs.contains_insert_self s1.1.1 _ _, Attrs.contains_insert_mono s1.1.1 _ _ _ s1.2⟩
  generalize (if orig.contains cs!"xmlns" then a1 else a1.insert cs!"xmlns" svgNs) = a2 at s2
  -- steps 3, 4: id and style only insert
  have s3 : ∀ a3 : Attrs, (a3 = a2 ∨ ∃ i, a3 = a2.insert cs!"id" i) →
      Grows orig a3 ∧ Attrs.contains a3 cs!"xmlns" = true ∧ Attrs.contains a3 cs!"version" = true := by
    intro a3 h3
    rcases h3 with rfl | ⟨i, rfl⟩
    · exact s2
    · exact ⟨grows_insert s2.1 _ _, Attrs.contains_insert_mono s2.1.1 _ _ _ s2.2.1, Attrs.contains_insert_mono s2.1.1 _ _ _ s2.2.2⟩
  have h3 := s3 (if orig.contains cs!"id" then a2 else match cfg.localId with | some i => a2.insert cs!"id" i | none => a2)
    (by split
        · left; rfl
        · split
          · right; exact ⟨_, rfl⟩
          · left; rfl)
  generalize (if orig.contains cs!"id" then a2 else match cfg.localId with | some i => a2.insert cs!"id" i | none => a2) = a3 at h3
  split
  · exact ⟨grows_insert h3.1 _ _, Attrs.contains_insert_mono h3.1.1 _ _ _ h3.2.1, Attrs.contains_insert_mono h3.1.1 _ _ _ h3.2.2⟩
  · exact h3

theorem rootGeom_grows (cfg : RootCfg) (orig : Attrs) (bb : Gen.BoundingBox) (a b : Attrs)
    (ha : Attrs.NodupKeys a) (h : rootGeom cfg orig bb a = some b) : Grows a b := by
  unfold rootGeom at h
  dsimp only at h
  obtain ⟨a', h1, h2⟩ := Option.map_eq_some_iff.mp h
  have g1 : Grows a a' := by
    split at h1
    · cases h1; exact grows_insert (grows_insert (grows_refl ha) _ _) _ _
    · split at h1
      · obtain ⟨p, _, hp⟩ := Option.map_eq_some_iff.mp h1
        rw [← hp]; exact grows_insert (grows_refl ha) _ _
      · cases h1; exact grows_refl ha
    · split at h1
      · obtain ⟨p, _, hp⟩ := Option.map_eq_some_iff.mp h1
        rw [← hp]; exact grows_insert (grows_refl ha) _ _
      · cases h1; exact grows_refl ha
    · cases h1; exact grows_refl ha
  rw [← h2]
  split
  · exact g1
  · exact grows_insert g1 _ _

/-- **the root always declares a namespace and a version** (the author's if supplied, else SVG's and
    1.1), and every attribute the author wrote on the root is still there -/
theorem rootAttrs_namespace_version (cfg : RootCfg) (orig a : Attrs) (bb : Option Gen.BoundingBox)
    (hn : Attrs.NodupKeys orig) (h : rootAttrs cfg orig bb = some a) :
    Attrs.contains a cs!"xmlns" = true ∧ Attrs.contains a cs!"version" = true ∧
    (∀ k, Attrs.contains orig k = true → Attrs.contains a k = true) ∧ Attrs.NodupKeys a := by
  have hb := rootBase_spec cfg orig hn
  unfold rootAttrs at h
  split at h
  · cases h
    exact ⟨hb.2.1, hb.2.2, hb.1.2, hb.1.1⟩
  · have hg := rootGeom_grows cfg orig _ _ _ hb.1.1 h
    exact ⟨hg.2 _ hb.2.1, hg.2 _ hb.2.2, fun k hk => hg.2 k (hb.1.2 k hk), hg.1⟩

end Doc
end Svgdx

namespace Svgdx.Doc
open Svgdx Str

/-- without an author-supplied namespace the root declares exactly the SVG namespace -/
theorem rootBase_xmlns_value (cfg : RootCfg) (orig : Attrs) (hn : Attrs.NodupKeys orig)
    (hx : Attrs.contains orig cs!"xmlns" = false) :
    Attrs.get (rootBase cfg orig) cs!"xmlns" = some svgNs := by
  unfold rootBase
  dsimp only
  have n1 : Attrs.NodupKeys (if orig.contains cs!"version" then orig else orig.insert cs!"version" cs!"1.1") := by
    split
    · exact hn
    · exact Attrs.insert_nodup hn _ _
  generalize (if orig.contains cs!"version" then orig else orig.insert cs!"version" cs!"1.1") = a1 at n1
  simp only [hx, Bool.false_eq_true, if_false]
  have g2 : Attrs.get (a1.insert cs!"xmlns" svgNs) cs!"xmlns" = some svgNs := Attrs.get_insert_self n1 _ _
  have n2 := Attrs.insert_nodup n1 cs!"xmlns" svgNs
  generalize a1.insert cs!"xmlns" svgNs = a2 at g2 n2
  have s3 : ∀ a3 : Attrs, (a3 = a2 ∨ ∃ i, a3 = a2.insert cs!"id" i) →
      Attrs.NodupKeys a3 ∧ Attrs.get a3 cs!"xmlns" = some svgNs := by
    intro a3 h3
    rcases h3 with rfl | ⟨i, rfl⟩
    · exact ⟨n2, g2⟩
    · exact ⟨Attrs.insert_nodup n2 _ _, by rw [Attrs.get_insert_other n2 _ _ _ (by decide)]; exact g2⟩
  have h3 := s3 (if orig.contains cs!"id" then a2 else match cfg.localId with | some i => a2.insert cs!"id" i | none => a2)
    (by split
        · left; rfl
        · split
          · right; exact ⟨_, rfl⟩
          · left; rfl)
  generalize (if orig.contains cs!"id" then a2 else match cfg.localId with | some i => a2.insert cs!"id" i | none => a2) = a3 at h3
  split
  · rw [Attrs.get_insert_other h3.1 _ _ _ (by decide)]; exact h3.2
  · exact h3.2

theorem rootGeom_keeps_xmlns (cfg : RootCfg) (orig : Attrs) (bb : Gen.BoundingBox) (a b : Attrs)
    (ha : Attrs.NodupKeys a) (h : rootGeom cfg orig bb a = some b) :
    Attrs.get b cs!"xmlns" = Attrs.get a cs!"xmlns" := by
  unfold rootGeom at h
  dsimp only at h
  obtain ⟨a', h1, h2⟩ := Option.map_eq_some_iff.mp h
  have g1 : Attrs.NodupKeys a' ∧ Attrs.get a' cs!"xmlns" = Attrs.get a cs!"xmlns" := by
    split at h1
    · cases h1
      have n1 := Attrs.insert_nodup ha cs!"width" (Num.fstr ((extent cfg bb).width * cfg.scale) ++ cs!"mm")
      exact ⟨Attrs.insert_nodup n1 _ _, by
        rw [Attrs.get_insert_other n1 _ _ _ (by decide), Attrs.get_insert_other ha _ _ _ (by decide)]⟩
    · split at h1
      · obtain ⟨p, _, hp⟩ := Option.map_eq_some_iff.mp h1
        rw [← hp]; exact ⟨Attrs.insert_nodup ha _ _, Attrs.get_insert_other ha _ _ _ (by decide)⟩
      · cases h1; exact ⟨ha, rfl⟩
    · split at h1
      · obtain ⟨p, _, hp⟩ := Option.map_eq_some_iff.mp h1
        rw [← hp]; exact ⟨Attrs.insert_nodup ha _ _, Attrs.get_insert_other ha _ _ _ (by decide)⟩
      · cases h1; exact ⟨ha, rfl⟩
    · cases h1; exact ⟨ha, rfl⟩
  rw [← h2]
  split
  · exact g1.2
  · rw [Attrs.get_insert_other g1.1 _ _ _ (by decide)]; exact g1.2

end Svgdx.Doc
