/-
  Svgdx.Proofs.ThemeSort — `strLt` is a strict total order on strings and `sortU` yields the
  strictly increasing list with the same members; hence `sortU` depends only on membership
  (the C06 permutation-invariance argument for the pattern classes).
-/
import Svgdx.Theme.Build
namespace Svgdx.Theme
open Svgdx Str

theorem strLt_irrefl (a : Str) : strLt a a = false := by
  induction a with
  | nil => rfl
  | cons x xs ih => simp [strLt, ih]

theorem strLt_trans {a b c : Str} (h1 : strLt a b = true) (h2 : strLt b c = true) : strLt a c = true := by
  induction a generalizing b c with
  | nil =>
    cases b with
    | nil => simp [strLt] at h1
    | cons y ys =>
      cases c with
      | nil => simp [strLt] at h2
      | cons z zs => rfl
  | cons x xs ih =>
    cases b with
    | nil => simp [strLt] at h1
    | cons y ys =>
      cases c with
      | nil => simp [strLt] at h2
      | cons z zs =>
        simp only [strLt, Bool.or_eq_true, decide_eq_true_eq, Bool.and_eq_true, beq_iff_eq] at h1 h2 ⊢
        rcases h1 with h1 | ⟨e1, h1⟩
        · rcases h2 with h2 | ⟨e2, _⟩
          · left; omega
          · left; omega
        · rcases h2 with h2 | ⟨e2, h2⟩
          · left; omega
          · right; exact ⟨by omega, ih h1 h2⟩

theorem strLt_asymm {a b : Str} (h1 : strLt a b = true) (h2 : strLt b a = true) : False := by
  have := strLt_trans h1 h2
  simp [strLt_irrefl] at this

theorem char_eq_of_toNat_eq {a b : Char} (h : a.toNat = b.toNat) : a = b := by
  apply Char.ext
  apply UInt32.toNat_inj.mp
  exact h

theorem strLt_total {a b : Str} (h1 : strLt a b = false) (h2 : a ≠ b) : strLt b a = true := by
  induction a generalizing b with
  | nil =>
    cases b with
    | nil => exact absurd rfl h2
    | cons y ys => simp [strLt] at h1
  | cons x xs ih =>
    cases b with
    | nil => rfl
    | cons y ys =>
      simp only [strLt, Bool.or_eq_false_iff, decide_eq_false_iff_not, Bool.and_eq_false_iff, beq_eq_false_iff_ne, ne_eq] at h1
      simp only [strLt, Bool.or_eq_true, decide_eq_true_eq, Bool.and_eq_true, beq_iff_eq]
      by_cases hxy : x.toNat = y.toNat
      · right
        refine ⟨hxy.symm, ?_⟩
        have hc : x = y := char_eq_of_toNat_eq hxy
        subst hc
        rcases h1.2 with h | h
        · exact absurd rfl h
        · exact ih h (fun e => h2 (by rw [e]))
      · left; omega

/-- strictly increasing -/
def StrictSorted (l : List Str) : Prop := l.Pairwise (fun a b => strLt a b = true)

theorem mem_insertU {x y : Str} {l : List Str} : y ∈ insertU x l ↔ y = x ∨ y ∈ l := by
  induction l with
  | nil => simp [insertU]
  | cons z zs ih =>
    simp only [insertU]
    split
    · simp
    · split
      · rename_i hxz
        have : x = z := by simpa using hxz
        subst this
        simp
      · simp only [List.mem_cons, ih]
        constructor
        · rintro (h | h | h)
          · right; left; exact h
          · left; exact h
          · right; right; exact h
        · rintro (h | h | h)
          · right; left; exact h
          · left; exact h
          · right; right; exact h

theorem strictSorted_insertU {x : Str} {l : List Str} (h : StrictSorted l) : StrictSorted (insertU x l) := by
  induction l with
  | nil => simp [insertU, StrictSorted]
  | cons z zs ih =>
    have hz := List.pairwise_cons.mp h
    simp only [insertU]
    split
    · rename_i hxz
      refine List.pairwise_cons.mpr ⟨?_, h⟩
      intro b hb
      rcases List.mem_cons.mp hb with rfl | hb
      · exact hxz
      · exact strLt_trans hxz (hz.1 b hb)
    · rename_i hxz
      split
      · exact h
      · rename_i hne
        have hne' : x ≠ z := by simpa using hne
        have hzx : strLt z x = true := strLt_total (by simpa using hxz) hne'
        refine List.pairwise_cons.mpr ⟨?_, ih hz.2⟩
        intro b hb
        rcases mem_insertU.mp hb with rfl | hb
        · exact hzx
        · exact hz.1 b hb

theorem mem_sortU {y : Str} {l : List Str} : y ∈ sortU l ↔ y ∈ l := by
  induction l with
  | nil => simp [sortU]
  | cons x xs ih =>
    have : sortU (x :: xs) = insertU x (sortU xs) := rfl
    rw [this, mem_insertU, ih]
    simp

theorem strictSorted_sortU (l : List Str) : StrictSorted (sortU l) := by
  induction l with
  | nil => simp [sortU, StrictSorted]
  | cons x xs ih =>
    have : sortU (x :: xs) = insertU x (sortU xs) := rfl
    rw [this]
    exact strictSorted_insertU ih

theorem strictSorted_nodup {l : List Str} (h : StrictSorted l) : l.Nodup := by
  refine List.Pairwise.imp ?_ h
  intro a b hab e
  subst e
  simp [strLt_irrefl] at hab

/-- a strictly increasing list is determined by its members -/
theorem strictSorted_ext {l l' : List Str} (h : StrictSorted l) (h' : StrictSorted l')
    (hm : ∀ x, x ∈ l ↔ x ∈ l') : l = l' := by
  induction l generalizing l' with
  | nil =>
    cases l' with
    | nil => rfl
    | cons b bs => exact absurd ((hm b).mpr (by simp)) (by simp)
  | cons a as ih =>
    cases l' with
    | nil => exact absurd ((hm a).mp (by simp)) (by simp)
    | cons b bs =>
      have ha := List.pairwise_cons.mp h
      have hb := List.pairwise_cons.mp h'
      have hab : a = b := by
        by_cases e : a = b
        · exact e
        · exfalso
          have h1 : a ∈ bs := by
            have := (hm a).mp (by simp)
            rcases List.mem_cons.mp this with h | h
            · exact absurd h e
            · exact h
          have h2 : b ∈ as := by
            have := (hm b).mpr (by simp)
            rcases List.mem_cons.mp this with h | h
            · exact absurd h.symm e
            · exact h
          exact strLt_asymm (ha.1 b h2) (hb.1 a h1)
      subst hab
      congr 1
      apply ih ha.2 hb.2
      intro x
      constructor
      · intro hx
        have := (hm x).mp (by simp [hx])
        rcases List.mem_cons.mp this with h | h
        · subst h
          have := ha.1 x hx
          simp [strLt_irrefl] at this
        · exact h
      · intro hx
        have := (hm x).mpr (by simp [hx])
        rcases List.mem_cons.mp this with h | h
        · subst h
          have := hb.1 x hx
          simp [strLt_irrefl] at this
        · exact h

theorem sortU_congr {l l' : List Str} (hm : ∀ x, x ∈ l ↔ x ∈ l') : sortU l = sortU l' :=
  strictSorted_ext (strictSorted_sortU l) (strictSorted_sortU l')
    (fun x => by rw [mem_sortU, mem_sortU]; exact hm x)

end Svgdx.Theme
