/-
  Svgdx.Proofs.Theme — every entry of `stylesT` is well tagged: the class read off the rule
  text (`keyOf`) is the tag, a tagged rule's class is in the class list, and a rule for a class
  of the text family is only there when a `text` element is.  Finite facts about the generated
  tables are discharged by `decide` on the tables as they are NOW (re-run on every check).
-/
import Svgdx.Proofs.ThemeStr
import Svgdx.Proofs.ThemeSort
namespace Svgdx.Theme
open Svgdx Str

/-- the classes handled by `append_text_styles` -/
def textKeys : List Str :=
  Gen.Theme.append_text_styles_table0.map (·.1) ++ Gen.Theme.append_text_styles_table1.map (·.1) ++
  Gen.Theme.append_text_styles_table2.map (·.1)

/-- reserved classes with a fixed name -/
def fixedKeys : List Str :=
  [nth bs 6] ++ Gen.Theme.append_stroke_width_styles_table0.map (·.1) ++ textKeys ++ [nth ars 0, nth ars 2] ++
  flowTable.map (·.1) ++ [nth dss (dashBase + 2), nth dss (dashBase + 4), nth dss (dashBase + 6), nth dss (dashBase + 8)] ++
  Gen.Theme.build_table.map (·.1)

/-- the four classes of every colour -/
def colourKeys : List Str :=
  Gen.COLOUR_LIST.flatMap fun c => [fillClass c, strokeClass c, textColClass c, textOlColClass c]

/-- a pattern class: a pattern prefix, bare or followed by `-` and a `u32` not above the limit -/
def isPatternClass (c : Str) : Bool :=
  patternRows.any fun row => c == row.cls || (getSpacing (specClass row) c).isSome

/-- the reserved class vocabulary: the classes the builder has a rule for -/
def isReserved (k : Str) : Bool := fixedKeys.contains k || colourKeys.contains k || isPatternClass k

/-- entry `e` is well tagged -/
def Ok (cs es : List Str) (e : Tagged) : Prop :=
  keyOf e.2 = e.1 ∧ ∀ k, e.1 = some k → k ∈ cs ∧ (k ∈ textKeys → hasText es = true) ∧ isReserved k = true

theorem has_iff {cs : List Str} {k : Str} : has cs k = true ↔ k ∈ cs := by
  simp [has]

theorem mem_guarded {cs : List Str} {k : Str} {rules : List Str} {e : Tagged} :
    e ∈ guarded cs k rules ↔ has cs k = true ∧ ∃ r ∈ rules, e = (some k, r) := by
  unfold guarded
  split
  · rename_i h
    simp only [List.mem_map, h, true_and]
    constructor
    · rintro ⟨r, hr, rfl⟩; exact ⟨r, hr, rfl⟩
    · rintro ⟨r, hr, rfl⟩; exact ⟨r, hr, rfl⟩
  · rename_i h
    simp [h]

theorem mem_untagged {rules : List Str} {e : Tagged} : e ∈ untagged rules ↔ ∃ r ∈ rules, e = (none, r) := by
  unfold untagged
  simp only [List.mem_map]
  constructor
  · rintro ⟨r, hr, rfl⟩; exact ⟨r, hr, rfl⟩
  · rintro ⟨r, hr, rfl⟩; exact ⟨r, hr, rfl⟩

theorem ok_guarded {cs es : List Str} {k : Str} {rules : List Str}
    (hkey : ∀ r ∈ rules, keyOf r = some k) (htext : k ∈ textKeys → hasText es = true)
    (hres : isReserved k = true) :
    ∀ e ∈ guarded cs k rules, Ok cs es e := by
  intro e he
  obtain ⟨hh, r, hr, rfl⟩ := mem_guarded.mp he
  refine ⟨hkey r hr, ?_⟩
  intro k' hk'
  simp only [Option.some.injEq] at hk'
  subst hk'
  exact ⟨has_iff.mp hh, htext, hres⟩

theorem ok_untagged {cs es : List Str} {rules : List Str} (hkey : ∀ r ∈ rules, keyOf r = none) :
    ∀ e ∈ untagged rules, Ok cs es e := by
  intro e he
  obtain ⟨r, hr, rfl⟩ := mem_untagged.mp he
  exact ⟨hkey r hr, by simp⟩

/-! ### facts about the generated tables (decided on their current content) -/

theorem fill_facts : ∀ c ∈ Gen.COLOUR_LIST,
    keyOf (fillRule c) = some (fillClass c) ∧ keyOf (fillTextRule c) = some (fillClass c) ∧
    fillClass c ∉ textKeys := by decide +kernel

theorem stroke_facts : ∀ c ∈ Gen.COLOUR_LIST,
    keyOf (strokeRule c) = some (strokeClass c) ∧ keyOf (strokeTextRule c) = some (strokeClass c) ∧
    strokeClass c ∉ textKeys := by decide +kernel

theorem textCol_facts : ∀ c ∈ Gen.COLOUR_LIST,
    keyOf (textColRule c) = some (textColClass c) ∧ textColClass c ∉ textKeys := by decide +kernel

theorem textOlCol_facts : ∀ c ∈ Gen.COLOUR_LIST,
    keyOf (textOlColRule c) = some (textOlColClass c) ∧ textOlColClass c ∉ textKeys := by decide +kernel

theorem colour_reserved {c : Str} (hc : c ∈ Gen.COLOUR_LIST) :
    isReserved (fillClass c) = true ∧ isReserved (strokeClass c) = true ∧
    isReserved (textColClass c) = true ∧ isReserved (textOlColClass c) = true := by
  have h : ∀ k ∈ [fillClass c, strokeClass c, textColClass c, textOlColClass c], isReserved k = true := by
    intro k hk
    have : k ∈ colourKeys := List.mem_flatMap.mpr ⟨c, hc, hk⟩
    simp [isReserved, this]
  exact ⟨h _ (by simp), h _ (by simp), h _ (by simp), h _ (by simp)⟩

theorem surround_facts : keyOf (nth bs 7) = some (nth bs 6) ∧ nth bs 6 ∉ textKeys ∧ isReserved (nth bs 6) = true := by
  decide +kernel

theorem strokeWidth_facts : ∀ p ∈ Gen.Theme.append_stroke_width_styles_table0,
    plain p.1 = true ∧ p.1 ∉ textKeys ∧ isReserved p.1 = true := by decide +kernel

theorem text0_facts : ∀ p ∈ Gen.Theme.append_text_styles_table0, keyOf p.2 = some p.1 ∧ isReserved p.1 = true := by
  decide +kernel
theorem text1_facts : ∀ p ∈ Gen.Theme.append_text_styles_table1, plain p.1 = true ∧ isReserved p.1 = true := by
  decide +kernel
theorem text2_facts : ∀ p ∈ Gen.Theme.append_text_styles_table2, plain p.1 = true ∧ isReserved p.1 = true := by
  decide +kernel

theorem arrow_facts :
    keyOf (nth ars 1) = some (nth ars 0) ∧ keyOf (nth ars 3) = some (nth ars 2) ∧ keyOf (nth ars 4) = none ∧
    nth ars 0 ∉ textKeys ∧ nth ars 2 ∉ textKeys ∧ isReserved (nth ars 0) = true ∧ isReserved (nth ars 2) = true := by
  decide +kernel

theorem flow_facts : ∀ p ∈ flowTable, keyOf (flowRule p.1 p.2) = some p.1 ∧ p.1 ∉ textKeys ∧ isReserved p.1 = true := by
  decide +kernel

theorem dash_facts :
    keyOf (nth dss (dashBase + 1)) = none ∧
    keyOf (nth dss (dashBase + 3)) = some (nth dss (dashBase + 2)) ∧ nth dss (dashBase + 2) ∉ textKeys ∧
    keyOf (nth dss (dashBase + 5)) = some (nth dss (dashBase + 4)) ∧ nth dss (dashBase + 4) ∉ textKeys ∧
    keyOf (nth dss (dashBase + 7)) = some (nth dss (dashBase + 6)) ∧ nth dss (dashBase + 6) ∉ textKeys ∧
    keyOf (nth dss (dashBase + 9)) = some (nth dss (dashBase + 8)) ∧ nth dss (dashBase + 8) ∉ textKeys ∧
    isReserved (nth dss (dashBase + 2)) = true ∧ isReserved (nth dss (dashBase + 4)) = true ∧
    isReserved (nth dss (dashBase + 6)) = true ∧ isReserved (nth dss (dashBase + 8)) = true := by
  decide +kernel

theorem shadow_facts : ∀ p ∈ Gen.Theme.build_table,
    keyOf (nth (shadowStrings p.2) 0) = some p.1 ∧ p.1 ∉ textKeys ∧ isReserved p.1 = true := by decide +kernel

theorem row_facts : ∀ row ∈ patternRows,
    plain row.cls = true ∧ plain (specClass row) = true ∧ row.cls ∉ textKeys ∧
    (∀ k ∈ textKeys, startsWith (specClass row) k = false) := by decide +kernel

theorem theme_styles_facts : ∀ t ∈ ThemeKind.all, ∀ key ∈ [cs!"append_early_styles", cs!"append_late_styles"],
    ∀ r ∈ themeStyles t key, keyOf r = none := by decide +kernel

theorem themeKind_mem_all (t : ThemeKind) : t ∈ ThemeKind.all := by cases t <;> decide

/-! ### symbolic rule texts -/

theorem strokeWidthRule_eq (cfg : ThemeCfg) (k e : Str) :
    strokeWidthRule cfg k e = '.' :: (k ++ ' ' :: (cs!"{ stroke-width: " ++
      (Num.fstr (themeStrokeWidth cfg.theme * factorOf e) ++ cs!"; }"))) := by rfl

theorem textSizeRule_eq (cfg : ThemeCfg) (k e : Str) :
    textSizeRule cfg k e = 't' :: 'e' :: 'x' :: 't' :: '.' :: (k ++ ',' :: (cs!" text." ++ (k ++
      (cs!" * { font-size: " ++ (Num.fstr (cfg.fontSize * factorOf e) ++ cs!"px; }"))))) := by rfl

theorem textOlWidthRule_eq (k e : Str) :
    textOlWidthRule k e = 't' :: 'e' :: 'x' :: 't' :: '.' :: (k ++ ',' :: (cs!" text." ++ (k ++
      (cs!" * { stroke-width: " ++ (Num.fstr (factorOf e) ++ cs!"; }"))))) := by rfl

theorem patternRule_eq (c : Str) :
    patternRule c = '.' :: (c ++ ' ' :: (cs!"{fill: url(#" ++ (ptnId c ++ cs!")}"))) := by rfl

/-! ### pattern classes -/

theorem parseU32_chars {s : Str} {n : Nat} (h : parseU32 s = some n) :
    s ≠ [] ∧ ∀ x ∈ s, x = '+' ∨ isDigit x = true := by
  unfold parseU32 at h
  split at h
  · rename_i r
    simp only [Bool.or_eq_true, List.isEmpty_iff, Bool.not_eq_true'] at h
    split at h
    · simp at h
    · rename_i hcond
      have hall : r.all isDigit = true := by
        by_cases ha : r.all isDigit = true
        · exact ha
        · exfalso; apply hcond; right; simpa using ha
      refine ⟨by simp, ?_⟩
      intro x hx
      rcases List.mem_cons.mp hx with rfl | hx
      · left; rfl
      · right; exact List.all_eq_true.mp hall x hx
  · rename_i r hne
    simp only [Bool.or_eq_true, List.isEmpty_iff, Bool.not_eq_true'] at h
    split at h
    · simp at h
    · rename_i hcond
      have hall : s.all isDigit = true := by
        by_cases ha : s.all isDigit = true
        · exact ha
        · exfalso; apply hcond; right; simpa using ha
      refine ⟨?_, ?_⟩
      · intro e; apply hcond; left; exact e
      · intro x hx
        right; exact List.all_eq_true.mp hall x hx

theorem plain_of_parseU32 {s : Str} {n : Nat} (h : parseU32 s = some n) : plain s = true := by
  apply plain_iff.mpr
  intro x hx
  rcases (parseU32_chars h).2 x hx with rfl | hd
  · decide
  · simp only [isDigit, Bool.and_eq_true, decide_eq_true_eq] at hd
    simp only [selStop, Bool.not_eq_true', Bool.or_eq_false_iff, beq_eq_false_iff_ne, ne_eq]
    refine ⟨⟨?_, ?_⟩, ?_⟩ <;> (intro e; subst e; revert hd; decide)

theorem getSpacing_some {pfx c : Str} {n : Nat} (h : getSpacing pfx c = some n) :
    ∃ suf, c = pfx ++ suf ∧ parseU32 suf = some n ∧ n ≤ spacingLimit := by
  unfold getSpacing at h
  split at h
  · rename_i suf hs
    split at h
    · rename_i m hm
      split at h
      · rename_i hle
        simp only [Option.some.injEq] at h
        subst h
        exact ⟨suf, stripPrefix_eq_some hs, hm, hle⟩
      · simp at h
    · simp at h
  · simp at h

/-- what a member of `patternItems` is -/
theorem mem_patternItems {order : List Str → List Str} {stroke : Str} {cs : List Str} {it : Tagged × Str} :
    it ∈ patternItems order stroke cs ↔
    ∃ row ∈ patternRows,
      (has cs row.cls = true ∧ it = patternItem stroke row row.cls defaultSpacing) ∨
      (∃ c n, c ∈ order (cs.filter (startsWith (specClass row))) ∧
        getSpacing (specClass row) c = some n ∧ it = patternItem stroke row c n) := by
  simp only [patternItems, List.mem_flatMap, rowItems, List.mem_append, List.mem_filterMap]
  constructor
  · rintro ⟨row, hrow, h | ⟨c, hc, hm⟩⟩
    · refine ⟨row, hrow, Or.inl ?_⟩
      split at h
      · rename_i hh; simp at h; exact ⟨hh, h⟩
      · simp at h
    · refine ⟨row, hrow, Or.inr ?_⟩
      cases hg : getSpacing (specClass row) c with
      | none => simp [hg] at hm
      | some n => simp [hg] at hm; exact ⟨c, n, hc, hg, hm.symm⟩
  · rintro ⟨row, hrow, ⟨hh, rfl⟩ | ⟨c, n, hc, hg, rfl⟩⟩
    · exact ⟨row, hrow, Or.inl (by simp [hh])⟩
    · exact ⟨row, hrow, Or.inr ⟨c, hc, by simp [hg]⟩⟩

theorem isReserved_of_pattern {c : Str} (h : isPatternClass c = true) : isReserved c = true := by
  simp [isReserved, h]

theorem ok_pattern {order : List Str → List Str} (hord : ∀ l x, x ∈ order l → x ∈ l)
    {stroke : Str} {cs es : List Str} :
    ∀ e ∈ (patternItems order stroke cs).map (·.1), Ok cs es e := by
  intro e he
  obtain ⟨it, hit, rfl⟩ := List.mem_map.mp he
  obtain ⟨row, hrow, h⟩ := mem_patternItems.mp hit
  have hf := row_facts row hrow
  rcases h with ⟨hh, rfl⟩ | ⟨c, n, hc, hg, rfl⟩
  · refine ⟨?_, ?_⟩
    · show keyOf (patternRule row.cls) = some row.cls
      rw [patternRule_eq]
      exact keyOf_dot _ _ ' ' hf.1 (by decide)
    · intro k hk
      simp only [patternItem, Option.some.injEq] at hk
      subst hk
      refine ⟨has_iff.mp hh, fun ht => absurd ht hf.2.2.1, ?_⟩
      exact isReserved_of_pattern (List.any_eq_true.mpr ⟨row, hrow, by simp⟩)
  · obtain ⟨suf, rfl, hp, _⟩ := getSpacing_some hg
    refine ⟨?_, ?_⟩
    · show keyOf (patternRule (specClass row ++ suf)) = some (specClass row ++ suf)
      rw [patternRule_eq]
      exact keyOf_dot _ _ ' ' (plain_append hf.2.1 (plain_of_parseU32 hp)) (by decide)
    · intro k hk
      simp only [patternItem, Option.some.injEq] at hk
      subst hk
      have hmem := hord _ _ hc
      refine ⟨(List.mem_filter.mp hmem).1, ?_, ?_⟩
      · intro ht
        have := hf.2.2.2 _ ht
        rw [startsWith_append] at this
        simp at this
      · exact isReserved_of_pattern (List.any_eq_true.mpr ⟨row, hrow, by simp [hg]⟩)

end Svgdx.Theme
