/-
  Svgdx.Proofs.Unroll2 — `<if>`, `<for>`, `while` / `until` loops render what their manual unrolling renders, and a
  control element among its siblings is its unrolling among those siblings (model `Svgdx.Ctl.Gen`).
  Extends `Svgdx/Proofs/Unroll.lean` (count loops, compared from the same state). Uses `Svgdx/Proofs/DepthShift.lean`.

  Style as in `Unroll.lean`: the premise is FIRST-TRY SUCCESS of every element of every copy (the relation `FT`), stated
  in the states actually reached; fuel is handled by `allMono` (a result that is not the fuel error is the result on
  every larger fuel), so every equation holds on all fuels on which neither side reports the fuel error, and such fuels
  exist.

  (0) tools: `FT` is deterministic (`FT_det`), splits at `++` (`FT_split`), and a first-try run one level deeper is a
      first-try run (`FT_unshift`, from the depth shift); `Repl ev s n ms s' evs b` — the node `n`, first attempt from
      `s`, does what the first-try run of the sibling list `ms` does; `FT_replace`, `processNodes_replace`.
  (1) `<if>`: `genIf_true_eq` (true test: `genIf` = `processNodes` on the body from the state the test leaves — the
      random state is threaded), `genIf_false_eq` (false test: the empty list, same remark); no first-try premise needed.
  (2) `<for>`: `ForRun` (the trace), `for_eq_unroll`, `genFor_eq_unroll`, `for_unroll_fuel_exists`: the element equals the
      sibling list `<var v="a₀" i="0"/> body <var v="a₁" i="1"/> body …` (`unrollFor`; item variable FIRST).
  (3) `<loop>` in ALL modes: `LoopRun` (the trace hypothesis: outcome of the test before / after each pass in the states
      reached, tests leave the state alone, bodies first-try), `loopRun_eq_unroll`, `genLoop_eq_unrollG`,
      `loopRun_unroll_fuel_exists`; `LoopRun.while_stop/_pass`, `LoopRun.until_last/_pass`, `LoopRun.count_stop` give the
      trace in the evaluator's terms; loops without loop variable unroll to N bare copies (`unrollG`, `hdr`);
      `loopRun_of_passes`: the count-loop theorem of `Unroll.lean` is the case `cnt = some N`.
  (4) the embedding: `genNode_ctl`, `repl_of_dispatch`, `if_true_repl`, `if_false_repl`, `for_repl`, `loop_repl`, and at the
      level of `processNodes`: `if_true_embedded`, `if_false_embedded`, `for_embedded`, `loop_embedded`,
      `processNodes_embed_fuel`; trailing text: `repl_tail_nonempty`, `repl_tail_empty`.
  (B) decidable forms of the premises: `ftB`, `loopRunB`, `forRunB` with soundness lemmas.
  (C) closed instances (`Unroll2Example`) and FINDINGS (closed counterexamples `Unroll2Example.for_var_order_matters`,
      `for_item_not_literal`, `for_binds_beyond_var_limit`, `depth_limit_distinguishes`, `if_test_rng_is_threaded`,
      `id_on_loop_is_registered`).
  (P) the Props-level statements, namespace `Svgdx.Props.C16x`.

  Side conditions and why (each has a counterexample in (C) or is visible in the model):
   * `e.getAttr "id" = none`, loop / item / index variable not `id`: `registerEarly` records an element with an `id`
     as a reuse template before it is processed;
   * `e.getAttr "clip-path" = none`: `clipPost` (tail of `genElem`) applies to EVERY element name, also `<loop>`;
   * variable names not `_`, `__`: `<var>` treats them as comments;
   * `Lit` / `LitEval`: the loop binds the value as it is, `<var>` evaluates it;
   * `HdrOk` / `ForHdrOk`: the `<var>` of the unrolling passes the depth check and the `var-limit` check, the loop's
     own binding passes neither;
   * in the embedding, the head / test / `data` evaluation must not draw random numbers (nothing in the unrolled
     program could advance the random state in its place); the hypothesis is that the version WITH the control element
     runs first-try — it implies the depth limit is not hit one level deeper; the converse fails at the limit.
-/
import Svgdx.Proofs.Unroll
import Svgdx.Proofs.DepthShift
namespace Svgdx.Ctl
open Svgdx Gen Props

variable {ρ : Type}

/-! ## (0) tools about the first-try relation `FT` -/

theorem FT_det {ev : Evalr ρ} {st s1 s2 : St ρ} {ns : List Node} {e1 e2 : List Ev} {b1 b2 : Option BoundingBox}
    (h1 : FT ev st ns s1 e1 b1) (h2 : FT ev st ns s2 e2 b2) : s1 = s2 ∧ e1 = e2 ∧ b1 = b2 := by
  induction h1 generalizing s2 e2 b2 with
  | nil st => cases h2; exact ⟨rfl, rfl, rfl⟩
  | @cons g st n sa evs b ns sb evs' bb hg _ ih =>
    cases h2 with
    | @cons g' _ _ sa' evsa ba _ _ evsb bbb hg' hrest =>
      have := genNode_agree ev g g' _ n (NF_of_ok hg) (NF_of_ok hg')
      rw [hg, hg'] at this
      simp only [Prod.mk.injEq, Except.ok.injEq] at this
      obtain ⟨rfl, rfl, rfl⟩ := this
      obtain ⟨rfl, rfl, rfl⟩ := ih hrest
      exact ⟨rfl, rfl, rfl⟩

theorem FT_split {ev : Evalr ρ} {ns ms : List Node} : ∀ {st s2 : St ρ} {evs : List Ev} {b : Option BoundingBox},
    FT ev st (ns ++ ms) s2 evs b →
    ∃ s1 e1 b1 e2 b2, FT ev st ns s1 e1 b1 ∧ FT ev s1 ms s2 e2 b2 ∧ evs = e1 ++ e2 ∧ b = unionOpt b1 b2 := by
  induction ns with
  | nil =>
    intro st s2 evs b h
    exact ⟨st, [], none, evs, b, FT.nil st, h, rfl, (C16.unionOpt_none_left _).symm⟩
  | cons n ns ih =>
    intro st s2 evs b h
    cases h with
    | @cons g _ _ sa evsa ba _ _ evsb bbb hg hrest =>
      obtain ⟨s1, e1, b1, e2, b2, h1, h2, rfl, rfl⟩ := ih hrest
      exact ⟨s1, evsa ++ e1, unionOpt ba b1, e2, b2, FT.cons hg h1, h2, by simp, (C16.unionOpt_assoc _ _ _).symm⟩

theorem FT_single {ev : Evalr ρ} {g : Nat} {st s1 : St ρ} {n : Node} {evs : List Ev} {b : Option BoundingBox}
    (hg : genNode ev g (registerEarly ev st n) n = (s1, .ok (evs, b))) : FT ev st [n] s1 evs b :=
  (FT.cons hg (FT.nil s1)).cast rfl (by simp) (unionOpt_none_right _).symm

theorem FT_single_inv {ev : Evalr ρ} {st s1 : St ρ} {n : Node} {evs : List Ev} {b : Option BoundingBox}
    (h : FT ev st [n] s1 evs b) : ∃ g, genNode ev g (registerEarly ev st n) n = (s1, .ok (evs, b)) := by
  cases h with
  | @cons g _ _ sa evsa ba _ _ evsb bbb hg hrest =>
    cases hrest
    exact ⟨g, by simpa [unionOpt_none_right] using hg⟩

theorem ok_up {st : St ρ} (h : Ok st) : Ok (up st) := ⟨h.inSpecs, h.scopes⟩

theorem ok_of_up {st : St ρ} (h : Ok (up st)) : Ok st := ⟨h.inSpecs, h.scopes⟩

theorem ok_rng {st : St ρ} (h : Ok st) (rng : ρ) : Ok ({ st with rng := rng } : St ρ) := ⟨h.inSpecs, h.scopes⟩

/-- a first-try run one level deeper is a first-try run at the level itself (nothing in it hit the depth limit) -/
theorem FT_unshift {ev : Evalr ρ} {ns : List Node} : ∀ {st S2 : St ρ} {evs : List Ev} {b : Option BoundingBox},
    Ok st → FT ev (up st) ns S2 evs b → ∃ s2, S2 = up s2 ∧ FT ev st ns s2 evs b := by
  induction ns with
  | nil => intro st S2 evs b _ h; cases h; exact ⟨st, rfl, FT.nil st⟩
  | cons n ns ih =>
    intro st S2 evs b hok h
    cases h with
    | @cons g _ _ sa evsa ba _ _ evsb bbb hg hrest =>
      rw [up_registerEarly] at hg
      have h1 : Ok (registerEarly ev st n) := ok_registerEarly ev st n hok
      have hsh := (allShift ev g).genNode _ n h1.scopes (ND_of_ok hg)
      rw [hg] at hsh
      have hsa : sa = up (genNode ev g (registerEarly ev st n) n).1 := congrArg Prod.fst hsh
      have hres : (genNode ev g (registerEarly ev st n) n).2 = .ok (evsa, ba) := (congrArg Prod.snd hsh).symm
      have h2 : Ok (genNode ev g (registerEarly ev st n) n).1 := (allOk ev g).genNode _ n h1
      subst hsa
      obtain ⟨s2, rfl, hft⟩ := ih h2 hrest
      refine ⟨s2, rfl, FT.cons (g := g) ?_ hft⟩
      rw [← hres]

/-! ### a node that does, at its first attempt, what a sibling list does -/

/-- from `s1`, the node `n` succeeds at its first attempt and ends where the first-try run of the list `ms` ends, with the
    same events and box -/
def Repl (ev : Evalr ρ) (s1 : St ρ) (n : Node) (ms : List Node) (s2 : St ρ) (evs : List Ev) (b : Option BoundingBox) :
    Prop :=
  (∃ g, genNode ev g (registerEarly ev s1 n) n = (s2, .ok (evs, b))) ∧ FT ev s1 ms s2 evs b

/-- **replacement among siblings**: both sibling lists run first-try to the same final state, events and box -/
theorem FT_replace {ev : Evalr ρ} {st s1 s2 s3 : St ρ} {pre post ms : List Node} {n : Node}
    {e1 evs e3 : List Ev} {b1 b b3 : Option BoundingBox}
    (hpre : FT ev st pre s1 e1 b1) (h : Repl ev s1 n ms s2 evs b) (hpost : FT ev s2 post s3 e3 b3) :
    FT ev st (pre ++ n :: post) s3 (e1 ++ (evs ++ e3)) (unionOpt b1 (unionOpt b b3)) ∧
    FT ev st (pre ++ (ms ++ post)) s3 (e1 ++ (evs ++ e3)) (unionOpt b1 (unionOpt b b3)) := by
  obtain ⟨⟨g, hg⟩, hms⟩ := h
  exact ⟨FT_append hpre (FT.cons hg hpost), FT_append hpre (FT_append hms hpost)⟩

/-- the same, from the hypothesis that the list WITH the node runs first-try -/
theorem FT_replace_of_all {ev : Evalr ρ} {st s1 s2 s3 : St ρ} {pre post ms : List Node} {n : Node}
    {e1 evs eall : List Ev} {b1 b ball : Option BoundingBox}
    (hpre : FT ev st pre s1 e1 b1) (h : Repl ev s1 n ms s2 evs b) (hall : FT ev st (pre ++ n :: post) s3 eall ball) :
    FT ev st (pre ++ (ms ++ post)) s3 eall ball := by
  obtain ⟨s1', e1', b1', e2, b2, h1, h2, rfl, rfl⟩ := FT_split hall
  obtain ⟨rfl, rfl, rfl⟩ := FT_det hpre h1
  cases h2 with
  | @cons g _ _ sa evsa ba _ _ evsb bbb hg hrest =>
    obtain ⟨⟨g', hg'⟩, hms⟩ := h
    have := genNode_agree ev g g' _ n (NF_of_ok hg) (NF_of_ok hg')
    rw [hg, hg'] at this
    simp only [Prod.mk.injEq, Except.ok.injEq] at this
    obtain ⟨rfl, rfl, rfl⟩ := this
    exact FT_append hpre (FT_append hms hrest)

/-- … and at the level of `processNodes`: the two sibling lists give the same final state, the same events (flattened, in
    document order) and the same box, on every fuel on which neither reports the fuel error -/
theorem processNodes_replace {ev : Evalr ρ} {st s1 s2 s3 : St ρ} {pre post ms : List Node} {n : Node}
    {e1 evs eall : List Ev} {b1 b ball : Option BoundingBox} (hok : Ok st)
    (hpre : FT ev st pre s1 e1 b1) (h : Repl ev s1 n ms s2 evs b) (hall : FT ev st (pre ++ n :: post) s3 eall ball)
    (fL fU : Nat) (hL : NF (processNodes ev fL st (Nodes.ofList (pre ++ n :: post))))
    (hU : NF (processNodes ev fU st (Nodes.ofList (pre ++ (ms ++ post))))) :
    processNodes ev fL st (Nodes.ofList (pre ++ n :: post)) = (s3, .ok (eall, ball)) ∧
    processNodes ev fU st (Nodes.ofList (pre ++ (ms ++ post))) = (s3, .ok (eall, ball)) := by
  have hU' := FT_replace_of_all hpre h hall
  constructor
  · exact processNodes_of_FT _ (by rw [toList_ofList]; exact hall) fL hok hL
  · exact processNodes_of_FT _ (by rw [toList_ofList]; exact hU') fU hok hU

/-- such fuels exist -/
theorem processNodes_replace_fuel {ev : Evalr ρ} {st s1 s2 s3 : St ρ} {pre post ms : List Node} {n : Node}
    {e1 evs eall : List Ev} {b1 b ball : Option BoundingBox} (hok : Ok st)
    (hpre : FT ev st pre s1 e1 b1) (h : Repl ev s1 n ms s2 evs b) (hall : FT ev st (pre ++ n :: post) s3 eall ball) :
    ∃ F, ∀ f, F ≤ f → NF (processNodes ev f st (Nodes.ofList (pre ++ n :: post))) ∧
      NF (processNodes ev f st (Nodes.ofList (pre ++ (ms ++ post)))) := by
  have hU' := FT_replace_of_all hpre h hall
  obtain ⟨G1, hG1⟩ := processNodes_NF_of_FT (Nodes.ofList (pre ++ n :: post)) (by rw [toList_ofList]; exact hall) hok
  obtain ⟨G2, hG2⟩ := processNodes_NF_of_FT (Nodes.ofList (pre ++ (ms ++ post))) (by rw [toList_ofList]; exact hU') hok
  exact ⟨max G1 G2, fun f hf => ⟨hG1 f (by omega), hG2 f (by omega)⟩⟩


/-! ### two fuels that both avoid the fuel error agree -/

theorem processNodes_agree (ev : Evalr ρ) (f g : Nat) (st : St ρ) (ks : Nodes)
    (hf : NF (processNodes ev f st ks)) (hg : NF (processNodes ev g st ks)) :
    processNodes ev f st ks = processNodes ev g st ks := by
  rcases Nat.le_total f g with h | h
  · exact ((allMono ev f).processNodes st ks g h hf).symm
  · exact (allMono ev g).processNodes st ks f h hg

theorem dispatch_agree (ev : Evalr ρ) (f g : Nat) (st : St ρ) e kids
    (hf : NF (dispatch ev f st e kids)) (hg : NF (dispatch ev g st e kids)) :
    dispatch ev f st e kids = dispatch ev g st e kids := by
  rcases Nat.le_total f g with h | h
  · exact ((allMono ev f).dispatch st e kids g h hf).symm
  · exact (allMono ev g).dispatch st e kids f h hg

/-- the empty sibling list renders nothing and changes nothing -/
theorem processNodes_nil (ev : Evalr ρ) (f : Nat) (st : St ρ) : processNodes ev (f + 2) st .nil = (st, .ok ([], none)) := by
  simp [processNodes, retry, seq, Nodes.toList, sortOuts]

theorem processNodes_nil_of_NF (ev : Evalr ρ) (f : Nat) (st : St ρ) (h : NF (processNodes ev f st .nil)) :
    processNodes ev f st .nil = (st, .ok ([], none)) := by
  match f, h with
  | 0, h => simp [processNodes, NF] at h
  | 1, h => simp [processNodes, retry, seq, NF] at h
  | f + 2, _ => exact processNodes_nil ev f st

/-! ## (4a) a control element among its siblings: the node-level lemma -/

/-- a control element with content and no trailing text -/
def ctlNode (e : Elem) (ks : Nodes) : Node := .elem e (some ks) none

theorem registerEarly_ctl (ev : Evalr ρ) (st : St ρ) (e : Elem) (ks : Nodes) (hid : e.getAttr cs!"id" = none) :
    registerEarly ev st (ctlNode e ks) = st := by
  simp only [registerEarly, ctlNode, registerOriginal, hid]

theorem clipPost_none (ev : Evalr ρ) (e : Elem) (x : St ρ × Res) (hclip : e.getAttr cs!"clip-path" = none) :
    clipPost ev e x = x := by
  unfold clipPost
  split
  · simp only [hclip, Option.bind_none]
  · rfl

theorem down_up (s : St ρ) : ({ up s with depth := (up s).depth - 1 } : St ρ) = s := by
  obtain ⟨g1, o1, s1, e1, d1, i1, c1, r1, u1, p1, n1⟩ := s
  simp [up]

/-- the first attempt at a control element that stands at nesting depth `d` is its dispatch at depth `d + 1` -/
theorem genNode_ctl (ev : Evalr ρ) (f : Nat) (st s2 : St ρ) (e : Elem) (ks : Nodes) (evs : List Ev)
    (bb : Option BoundingBox) (hid : e.getAttr cs!"id" = none) (hclip : e.getAttr cs!"clip-path" = none)
    (hdepth : st.depth + 1 ≤ st.cfg.depthLimit)
    (hd : dispatch ev f (up st) e (some ks) = (up s2, .ok (evs, bb))) :
    genNode ev (f + 2) (registerEarly ev st (ctlNode e ks)) (ctlNode e ks) = (s2, .ok (evs, bb)) := by
  have hd' : ¬ (st.depth + 1 > st.cfg.depthLimit) := by omega
  have hd2 : dispatch ev f { st with depth := st.depth + 1 } e (some ks) = (up s2, .ok (evs, bb)) := hd
  rw [registerEarly_ctl ev st e ks hid]
  simp only [ctlNode, genNode, leafDefaults, genElem, if_neg hd', hd2, clipPost_none ev e _ hclip, seq, withTail, down_up]

theorem repl_of_dispatch {ev : Evalr ρ} {s1 S2 : St ρ} {e : Elem} {ks : Nodes} {ms : List Node} {evs : List Ev}
    {bb : Option BoundingBox} {f : Nat} (hok : Ok s1) (hid : e.getAttr cs!"id" = none)
    (hclip : e.getAttr cs!"clip-path" = none) (hdepth : s1.depth + 1 ≤ s1.cfg.depthLimit)
    (hd : dispatch ev f (up s1) e (some ks) = (S2, .ok (evs, bb))) (hft : FT ev (up s1) ms S2 evs bb) :
    ∃ s2, S2 = up s2 ∧ Repl ev s1 (ctlNode e ks) ms s2 evs bb := by
  obtain ⟨s2, rfl, hft'⟩ := FT_unshift hok hft
  exact ⟨s2, rfl, ⟨f + 2, genNode_ctl ev f s1 s2 e ks evs bb hid hclip hdepth hd⟩, hft'⟩

theorem dispatch_if (ev : Evalr ρ) (f : Nat) (st : St ρ) (e : Elem) (kids : Option Nodes) (h : e.name = cs!"if") :
    dispatch ev (f + 1) st e kids = genIf ev f st e kids := by
  unfold dispatch
  simp only [h, show (cs!"if" == cs!"loop") = false from by decide, show (cs!"if" == cs!"config") = false from by decide,
    show (cs!"if" == cs!"reuse") = false from by decide, show (cs!"if" == cs!"specs") = false from by decide,
    show (cs!"if" == cs!"var") = false from by decide, show (cs!"if" == cs!"if") = true from by decide,
    Bool.false_eq_true, if_false, if_true]

theorem dispatch_loop (ev : Evalr ρ) (f : Nat) (st : St ρ) (e : Elem) (kids : Option Nodes) (h : e.name = cs!"loop") :
    dispatch ev (f + 1) st e kids = genLoop ev f st e kids := by
  unfold dispatch
  simp only [h, show (cs!"loop" == cs!"loop") = true from by decide, if_true]

theorem dispatch_for (ev : Evalr ρ) (f : Nat) (st : St ρ) (e : Elem) (kids : Option Nodes) (h : e.name = cs!"for") :
    dispatch ev (f + 1) st e kids = genFor ev f st e kids := by
  unfold dispatch
  simp only [h, show (cs!"for" == cs!"loop") = false from by decide, show (cs!"for" == cs!"config") = false from by decide,
    show (cs!"for" == cs!"reuse") = false from by decide, show (cs!"for" == cs!"specs") = false from by decide,
    show (cs!"for" == cs!"var") = false from by decide, show (cs!"for" == cs!"if") = false from by decide,
    show (cs!"for" == cs!"defaults") = false from by decide, show (cs!"for" == cs!"for") = true from by decide,
    Bool.false_eq_true, if_false, if_true]

/-! ## (1) `<if>` -/

/-- **`<if>` with a true test is its body written in place**: same final state, events and box as the body's sibling list
    processed from the state the test evaluation leaves (`rng` threaded), on all fuels that avoid the fuel error -/
theorem genIf_true_eq (ev : Evalr ρ) (e : Elem) (ks : Nodes) (st : St ρ) (test : Str) (rng : ρ)
    (ht : e.getAttr cs!"test" = some test)
    (hc : ev.evalCondition st.geo st.env st.rng test = .ok (true, rng))
    (fI fP : Nat) (hI : NF (genIf ev fI st e (some ks))) (hP : NF (processNodes ev fP { st with rng := rng } ks)) :
    genIf ev fI st e (some ks) = processNodes ev fP { st with rng := rng } ks := by
  cases fI with
  | zero => simp [genIf, NF] at hI
  | succ f =>
    rw [C16.if_true_renders_body ev f st e ks test rng ht hc] at hI ⊢
    exact processNodes_agree ev f fP _ ks hI hP

/-- **`<if>` with a false test is nothing** (the empty sibling list), again from the state the test evaluation leaves -/
theorem genIf_false_eq (ev : Evalr ρ) (e : Elem) (ks : Nodes) (st : St ρ) (test : Str) (rng : ρ)
    (ht : e.getAttr cs!"test" = some test)
    (hc : ev.evalCondition st.geo st.env st.rng test = .ok (false, rng))
    (fI fP : Nat) (hI : NF (genIf ev fI st e (some ks))) (hP : NF (processNodes ev fP { st with rng := rng } .nil)) :
    genIf ev fI st e (some ks) = processNodes ev fP { st with rng := rng } .nil ∧
    genIf ev fI st e (some ks) = ({ st with rng := rng }, .ok ([], none)) := by
  cases fI with
  | zero => simp [genIf, NF] at hI
  | succ f =>
    rw [C16.if_false_renders_nothing ev f st e ks test rng ht hc, processNodes_nil_of_NF ev fP _ hP]
    exact ⟨rfl, rfl⟩

/-- `<if>` among its siblings, true test that draws no random number: the element does what its body does in place.
    `hbody` is the first-try premise for the body where it actually runs — one level deeper -/
theorem if_true_repl (ev : Evalr ρ) (e : Elem) (ks : Nodes) (s1 S2 : St ρ) (test : Str) (evs : List Ev)
    (b : Option BoundingBox) (hname : e.name = cs!"if") (hid : e.getAttr cs!"id" = none)
    (hclip : e.getAttr cs!"clip-path" = none) (hok : Ok s1) (hdepth : s1.depth + 1 ≤ s1.cfg.depthLimit)
    (ht : e.getAttr cs!"test" = some test)
    (hc : ev.evalCondition s1.geo s1.env s1.rng test = .ok (true, s1.rng))
    (hbody : FT ev (up s1) ks.toList S2 evs b) :
    ∃ s2, S2 = up s2 ∧ Repl ev s1 (ctlNode e ks) ks.toList s2 evs b := by
  obtain ⟨G, hG⟩ := processNodes_NF_of_FT ks hbody (ok_up hok)
  have hp := processNodes_of_FT ks hbody G (ok_up hok) (hG G (Nat.le_refl _))
  have hd : dispatch ev (G + 2) (up s1) e (some ks) = (S2, .ok (evs, b)) := by
    rw [dispatch_if ev (G + 1) (up s1) e (some ks) hname,
      C16.if_true_renders_body ev G (up s1) e ks test s1.rng ht hc]
    exact hp
  exact repl_of_dispatch hok hid hclip hdepth hd hbody

/-- … false test: the element does what no element does -/
theorem if_false_repl (ev : Evalr ρ) (e : Elem) (ks : Nodes) (s1 : St ρ) (test : Str)
    (hname : e.name = cs!"if") (hid : e.getAttr cs!"id" = none)
    (hclip : e.getAttr cs!"clip-path" = none) (hok : Ok s1) (hdepth : s1.depth + 1 ≤ s1.cfg.depthLimit)
    (ht : e.getAttr cs!"test" = some test)
    (hc : ev.evalCondition s1.geo s1.env s1.rng test = .ok (false, s1.rng)) :
    Repl ev s1 (ctlNode e ks) [] s1 [] none := by
  have hd : dispatch ev 2 (up s1) e (some ks) = (up s1, .ok ([], none)) := by
    rw [dispatch_if ev 1 (up s1) e (some ks) hname,
      C16.if_false_renders_nothing ev 0 (up s1) e ks test s1.rng ht hc]
    rfl
  obtain ⟨s2, h2, hr⟩ := repl_of_dispatch hok hid hclip hdepth hd (FT.nil (up s1))
  rw [← up_injective h2] at hr
  exact hr


/-! ## (2) `<for>` -/

/-- the evaluator returns this string unchanged and draws no random number (a literal) -/
def Lit (ev : Evalr ρ) (s : Str) : Prop := ∀ geo env rng, ev.evalAttr geo env rng s = .ok (s, rng)

/-- a name `<var>` treats as a variable (not a comment attribute) and `registerEarly` does not take for an id -/
def LegalVar (name : Str) : Prop := name ≠ ['_'] ∧ name ≠ cs!"__" ∧ name ≠ cs!"id"

/-- the element the manual unrolling of `<for var=v idx-var=i>` writes before each copy: `<var v="item" i="idx"/>`,
    the item variable FIRST (see `for_var_order_matters`) -/
def forVarElem (v : Str) (iv : Option Str) (item : Str) (idx : Nat) : Elem :=
  { name := cs!"var", attrs := (v, item) :: (match iv with | some i => [(i, Str.natToStr idx)] | none => []) }

def forVarNode (v : Str) (iv : Option Str) (item : Str) (idx : Nat) : Node := .elem (forVarElem v iv item idx) none none

/-- the manual unrolling of a `<for>`: `<var v="a₀" i="0"/> body <var v="a₁" i="1"/> body …` as one sibling list -/
def unrollFor (v : Str) (iv : Option Str) (items : List Str) (idx0 : Nat) (ks : Nodes) : Nodes :=
  Nodes.ofList ((items.zipIdx idx0).flatMap fun (a, k) => forVarNode v iv a k :: ks.toList)

/-- what the `<var>` element of one unrolled pass needs and the `<for>` does not: room for one more nesting level,
    values within `var-limit` (`<for>` binds items of any length; `<var>` refuses long values) -/
def ForHdrOk (st : St ρ) (iv : Option Str) (item : Str) (idx : Nat) : Prop :=
  st.depth + 1 ≤ st.cfg.depthLimit ∧ (String.ofList item).utf8ByteSize ≤ st.cfg.varLimit ∧
  (iv.isSome = true → (String.ofList (Str.natToStr idx)).utf8ByteSize ≤ st.cfg.varLimit)

/-- … and no default in force applies to it: `apply_defaults` treats `<var …/>` like any other empty-element tag, so a
    default for `_` or `var` would add its attributes - more variables than the `<for>` binds -/
def ForVarUntouched (st : St ρ) (v : Str) (iv : Option Str) (item : Str) (idx : Nat) : Prop :=
  applyDefaults st (forVarElem v iv item idx) = forVarElem v iv item idx

instance (st : St ρ) (v : Str) (iv : Option Str) (item : Str) (idx : Nat) : Decidable (ForVarUntouched st v iv item idx) := by
  unfold ForVarUntouched; infer_instance

/-- the run of a `<for>` over `items` from index `idx` in which every element of every copy succeeds at its first attempt
    and the loop limit is not hit -/
inductive ForRun (ev : Evalr ρ) (v : Str) (iv : Option Str) (ks : Nodes) :
    List Str → St ρ → Nat → St ρ → List Ev → Option BoundingBox → Prop
  | done (st : St ρ) (idx : Nat) : ForRun ev v iv ks [] st idx st [] none
  | pass {item : Str} {items : List Str} {st : St ρ} {idx : Nat} {s1 : St ρ} {evs : List Ev} {b : Option BoundingBox}
      {s2 : St ρ} {evs' : List Ev} {bb : Option BoundingBox} :
      ForHdrOk st iv item idx → ForVarUntouched st v iv item idx →
      FT ev (bindForVars st v iv item idx) ks.toList s1 evs b →
      idx + 1 ≤ s1.cfg.loopLimit → ForRun ev v iv ks items s1 (idx + 1) s2 evs' bb →
      ForRun ev v iv ks (item :: items) st idx s2 (evs ++ evs') (unionOpt b bb)

theorem ok_bindForVars (st : St ρ) v iv item idx (h : Ok st) : Ok (bindForVars st v iv item idx) :=
  ok_of_inv h (inv_bindForVars st v iv item idx h.scopes)

/-- `<var v="item" i="idx"/>` with literal values binds exactly like `<for>` binds before a pass -/
theorem genVar_forVar (ev : Evalr ρ) (st : St ρ) (v : Str) (iv : Option Str) (item : Str) (idx : Nat)
    (hv : LegalVar v) (hi : ∀ i, iv = some i → LegalVar i) (hitem : Lit ev item)
    (hidx : iv.isSome = true → Lit ev (Str.natToStr idx))
    (hsz : (String.ofList item).utf8ByteSize ≤ st.cfg.varLimit)
    (hsz2 : iv.isSome = true → (String.ofList (Str.natToStr idx)).utf8ByteSize ≤ st.cfg.varLimit) :
    genVar ev st (forVarElem v iv item idx) = (bindForVars st v iv item idx, .ok ([], none)) := by
  have h3 : ¬ ((String.ofList item).utf8ByteSize > st.cfg.varLimit) := by omega
  cases iv with
  | none =>
    simp [genVar, forVarElem, bindForVars, List.foldlM, hv.1, hv.2.1, hitem _ _ _, h3, bind, Except.bind, pure, Except.pure]
  | some i =>
    have hi' := hi i rfl
    have h4 : ¬ ((String.ofList (Str.natToStr idx)).utf8ByteSize > st.cfg.varLimit) := by
      have := hsz2 rfl; omega
    simp [genVar, forVarElem, bindForVars, List.foldlM, hv.1, hv.2.1, hi'.1, hi'.2.1, hitem _ _ _, hidx rfl _ _ _, h3, h4,
      bind, Except.bind, pure, Except.pure]

theorem dispatch_var (ev : Evalr ρ) (f : Nat) (st : St ρ) (e : Elem) (kids : Option Nodes) (h : e.name = cs!"var") :
    dispatch ev (f + 1) st e kids = genVar ev st e := by
  unfold dispatch
  simp only [h, show (cs!"var" == cs!"loop") = false from by decide, show (cs!"var" == cs!"config") = false from by decide,
    show (cs!"var" == cs!"reuse") = false from by decide, show (cs!"var" == cs!"specs") = false from by decide,
    show (cs!"var" == cs!"var") = true from by decide, Bool.false_eq_true, if_false, if_true]

/-- a `<var>` element as a node: depth accounting around `genVar` -/
theorem genNode_var (ev : Evalr ρ) (g : Nat) (st s2 : St ρ) (e : Elem) (hname : e.name = cs!"var")
    (hdepth : st.depth + 1 ≤ st.cfg.depthLimit) (hdef : applyDefaults st e = e)
    (hv : genVar ev st e = (s2, .ok ([], none))) :
    genNode ev (g + 3) st (.elem e none none) = (s2, .ok ([], none)) := by
  have hd' : ¬ (st.depth + 1 > st.cfg.depthLimit) := by omega
  have hd2 : dispatch ev (g + 1) { st with depth := st.depth + 1 } e none = (up s2, .ok ([], none)) := by
    rw [dispatch_var ev g _ e none hname]
    show genVar ev (up st) e = _
    rw [up_genVar, hv]; rfl
  simp only [genNode, leafDefaults, hdef, genElem, if_neg hd', hd2, clipPost, seq, withTail, down_up]

theorem registerEarly_forVarNode (ev : Evalr ρ) (st : St ρ) (v : Str) (iv : Option Str) (item : Str) (idx : Nat)
    (hv : LegalVar v) (hi : ∀ i, iv = some i → LegalVar i) :
    registerEarly ev st (forVarNode v iv item idx) = st := by
  have : (forVarElem v iv item idx).getAttr cs!"id" = none := by
    cases iv with
    | none => simp [forVarElem, Elem.getAttr, Attrs.get, Attrs.lookupTable, hv.2.2]
    | some i => simp [forVarElem, Elem.getAttr, Attrs.get, Attrs.lookupTable, hv.2.2, (hi i rfl).2.2]
  simp only [registerEarly, forVarNode, registerOriginal, this]

/-- FOR SIDE -/
theorem forIter_of_run {ev : Evalr ρ} {v : Str} {iv : Option Str} {ks : Nodes} {items : List Str} {st : St ρ}
    {idx : Nat} {s2 : St ρ} {evs : List Ev} {bb : Option BoundingBox}
    (hp : ForRun ev v iv ks items st idx s2 evs bb) :
    ∀ (f : Nat) (acc : List Ev) (bb0 : Option BoundingBox), Ok st →
    NF (forIter ev f st ks v iv items idx acc bb0) →
    forIter ev f st ks v iv items idx acc bb0 = (s2, .ok (acc ++ evs, unionOpt bb0 bb)) := by
  induction hp with
  | done st idx =>
    intro f acc bb0 _ hnf
    cases f with
    | zero => simp [forIter, NF] at hnf
    | succ f => rw [C16.for_done]; simp [unionOpt_none_right]
  | @pass item items st idx s1 evs b s2 evs' bb hh hdf hft hlim _ ih =>
    intro f acc bb0 hok hnf
    cases f with
    | zero => simp [forIter, NF] at hnf
    | succ f =>
      have hokb : Ok (bindForVars st v iv item idx) := ok_bindForVars st v iv item idx hok
      have hnfb : NF (processNodes ev f (bindForVars st v iv item idx) ks) := by
        intro hfu; apply hnf
        rw [forIter]; simp only [seq]; simp [hfu]
      have hbody := processNodes_of_FT ks hft f hokb hnfb
      have hok1 : Ok s1 := FT_ok hft hokb
      have hstep := C16.for_iteration ev f st s1 ks v iv item items idx acc bb0 (evs, b) hbody hlim
      rw [hstep] at hnf ⊢
      rw [ih f _ _ hok1 hnf, List.append_assoc, C16.unionOpt_assoc]

/-- UNROLL SIDE -/
theorem FT_unrollFor_of_run {ev : Evalr ρ} {v : Str} {iv : Option Str} {ks : Nodes}
    (hv : LegalVar v) (hi : ∀ i, iv = some i → LegalVar i)
    {items : List Str} {st : St ρ} {idx : Nat} {s2 : St ρ} {evs : List Ev} {bb : Option BoundingBox}
    (hp : ForRun ev v iv ks items st idx s2 evs bb) : (∀ a ∈ items, Lit ev a) →
    (iv.isSome = true → ∀ k, idx ≤ k → k < idx + items.length → Lit ev (Str.natToStr k)) →
    FT ev st (unrollFor v iv items idx ks).toList s2 evs bb := by
  induction hp with
  | done st idx => intro _ _; exact (FT.nil st).cast (by simp [unrollFor, toList_ofList]) rfl rfl
  | @pass item items st idx s1 evs b s2 evs' bb hh hdf hft hlim _ ih =>
    intro hlit hidx
    have hvar : genNode ev (0 + 3) (registerEarly ev st (forVarNode v iv item idx)) (forVarNode v iv item idx)
        = (bindForVars st v iv item idx, .ok ([], none)) := by
      rw [registerEarly_forVarNode ev st v iv item idx hv hi]
      exact genNode_var ev 0 st _ _ rfl hh.1 hdf
        (genVar_forVar ev st v iv item idx hv hi (hlit item (by simp))
          (fun h => hidx h idx (Nat.le_refl _) (by simp)) hh.2.1 hh.2.2)
    have h := FT.cons hvar (FT_append hft (ih (fun a ha => hlit a (by simp [ha]))
      (fun h k hk1 hk2 => hidx h k (by omega) (by simp only [List.length_cons]; omega))))
    refine h.cast ?_ (by simp) (C16.unionOpt_none_left _).symm
    simp [unrollFor, toList_ofList, List.zipIdx_cons]

theorem forIter_NF_of_run {ev : Evalr ρ} {v : Str} {iv : Option Str} {ks : Nodes} {items : List Str} {st : St ρ}
    {idx : Nat} {s2 : St ρ} {evs : List Ev} {bb : Option BoundingBox}
    (hp : ForRun ev v iv ks items st idx s2 evs bb) : Ok st →
    ∃ G, ∀ f, G ≤ f → ∀ (acc : List Ev) (bb0 : Option BoundingBox), NF (forIter ev f st ks v iv items idx acc bb0) := by
  induction hp with
  | done st idx =>
    intro _
    refine ⟨1, fun f hf acc bb0 => ?_⟩
    obtain ⟨f, rfl⟩ : ∃ f', f = f' + 1 := ⟨f - 1, by omega⟩
    rw [C16.for_done]; simp [NF]
  | @pass item items st idx s1 evs b s2 evs' bb hh hdf hft hlim _ ih =>
    intro hok
    have hokb : Ok (bindForVars st v iv item idx) := ok_bindForVars st v iv item idx hok
    have hok1 : Ok s1 := FT_ok hft hokb
    obtain ⟨G1, hG1⟩ := processNodes_NF_of_FT ks hft hokb
    obtain ⟨G2, hG2⟩ := ih hok1
    refine ⟨max G1 G2 + 1, fun f hf acc bb0 => ?_⟩
    obtain ⟨f, rfl⟩ : ∃ f', f = f' + 1 := ⟨f - 1, by omega⟩
    have hbody := processNodes_of_FT ks hft f hokb (hG1 f (by omega))
    rw [C16.for_iteration ev f st s1 ks v iv item items idx acc bb0 (evs, b) hbody hlim]
    exact hG2 f (by omega) _ _

/-- **a `<for>` renders what its manual unrolling renders**: the iteration over the evaluated items and the sibling list
    `<var v="a₀" i="0"/> body <var v="a₁" i="1"/> body …`, from the same state, give the same final state (all fields),
    the same events and the same box -/
theorem for_eq_unroll (ev : Evalr ρ) (v : Str) (iv : Option Str) (items : List Str) (ks : Nodes) (st s2 : St ρ)
    (evs : List Ev) (bb : Option BoundingBox)
    (hv : LegalVar v) (hi : ∀ i, iv = some i → LegalVar i) (hok : Ok st)
    (hlit : ∀ a ∈ items, Lit ev a) (hidx : iv.isSome = true → ∀ k, k < items.length → Lit ev (Str.natToStr k))
    (hrun : ForRun ev v iv ks items st 0 s2 evs bb)
    (fL fU : Nat)
    (hL : NF (forIter ev fL st ks v iv items 0 [] none))
    (hU : NF (processNodes ev fU st (unrollFor v iv items 0 ks))) :
    forIter ev fL st ks v iv items 0 [] none = processNodes ev fU st (unrollFor v iv items 0 ks) ∧
    forIter ev fL st ks v iv items 0 [] none = (s2, .ok (evs, bb)) := by
  have hl := forIter_of_run hrun fL [] none hok hL
  simp only [List.nil_append, C16.unionOpt_none_left] at hl
  have hu := processNodes_of_FT _ (FT_unrollFor_of_run hv hi hrun hlit
    (fun h k _ hk => hidx h k (by omega))) fU hok hU
  rw [hl, hu]; exact ⟨rfl, rfl⟩

/-- the fuel hypotheses can be met -/
theorem for_unroll_fuel_exists (ev : Evalr ρ) (v : Str) (iv : Option Str) (items : List Str) (ks : Nodes) (st s2 : St ρ)
    (evs : List Ev) (bb : Option BoundingBox)
    (hv : LegalVar v) (hi : ∀ i, iv = some i → LegalVar i) (hok : Ok st)
    (hlit : ∀ a ∈ items, Lit ev a) (hidx : iv.isSome = true → ∀ k, k < items.length → Lit ev (Str.natToStr k))
    (hrun : ForRun ev v iv ks items st 0 s2 evs bb) :
    ∃ F, ∀ f, F ≤ f → NF (forIter ev f st ks v iv items 0 [] none) ∧
      NF (processNodes ev f st (unrollFor v iv items 0 ks)) := by
  obtain ⟨G1, hG1⟩ := forIter_NF_of_run hrun hok
  obtain ⟨G2, hG2⟩ := processNodes_NF_of_FT _ (FT_unrollFor_of_run hv hi hrun hlit
    (fun h k _ hk => hidx h k (by omega))) hok
  exact ⟨max G1 G2, fun f hf => ⟨hG1 f (by omega) [] none, hG2 f (by omega)⟩⟩

theorem genFor_unfold (ev : Evalr ρ) (f : Nat) (e : Elem) (v d : Str) (ks : Nodes) (st : St ρ) (items : List Str)
    (rng : ρ) (hvar : e.getAttr cs!"var" = some v) (hdata : e.getAttr cs!"data" = some d)
    (hlist : ev.evalList st.geo st.env st.rng d = .ok (items, rng)) :
    genFor ev (f + 1) st e (some ks)
      = forIter ev f { st with rng := rng } ks v (e.getAttr cs!"idx-var") items 0 [] none := by
  simp [genFor, hvar, hdata, hlist, seq, withRng]

/-- the same for the `<for>` ELEMENT: when `data` evaluates to `items` (leaving the random state `rng`), `genFor` on the
    element is `processNodes` on the unrolling -/
theorem genFor_eq_unroll (ev : Evalr ρ) (e : Elem) (v d : Str) (ks : Nodes) (st s2 : St ρ) (items : List Str) (rng : ρ)
    (evs : List Ev) (bb : Option BoundingBox)
    (hvar : e.getAttr cs!"var" = some v) (hdata : e.getAttr cs!"data" = some d)
    (hlist : ev.evalList st.geo st.env st.rng d = .ok (items, rng))
    (hv : LegalVar v) (hi : ∀ i, e.getAttr cs!"idx-var" = some i → LegalVar i) (hok : Ok st)
    (hlit : ∀ a ∈ items, Lit ev a)
    (hidx : (e.getAttr cs!"idx-var").isSome = true → ∀ k, k < items.length → Lit ev (Str.natToStr k))
    (hrun : ForRun ev v (e.getAttr cs!"idx-var") ks items { st with rng := rng } 0 s2 evs bb)
    (fL fU : Nat)
    (hL : NF (genFor ev fL st e (some ks)))
    (hU : NF (processNodes ev fU { st with rng := rng } (unrollFor v (e.getAttr cs!"idx-var") items 0 ks))) :
    genFor ev fL st e (some ks)
      = processNodes ev fU { st with rng := rng } (unrollFor v (e.getAttr cs!"idx-var") items 0 ks) ∧
    genFor ev fL st e (some ks) = (s2, .ok (evs, bb)) := by
  cases fL with
  | zero => simp [genFor, NF] at hL
  | succ f =>
    rw [genFor_unfold ev f e v d ks st items rng hvar hdata hlist] at hL ⊢
    exact for_eq_unroll ev v _ items ks _ s2 evs bb hv hi (ok_rng hok rng) hlit hidx hrun f fU hL hU

/-- `<for>` among its siblings (`data` evaluated without a random draw): the element does what its unrolling does in
    place. `hrun` is the first-try premise for the copies where they actually run — one level deeper -/
theorem for_repl (ev : Evalr ρ) (e : Elem) (v d : Str) (ks : Nodes) (s1 S2 : St ρ) (items : List Str)
    (evs : List Ev) (bb : Option BoundingBox)
    (hname : e.name = cs!"for") (hid : e.getAttr cs!"id" = none) (hclip : e.getAttr cs!"clip-path" = none)
    (hvar : e.getAttr cs!"var" = some v) (hdata : e.getAttr cs!"data" = some d)
    (hlist : ev.evalList s1.geo s1.env s1.rng d = .ok (items, s1.rng))
    (hv : LegalVar v) (hi : ∀ i, e.getAttr cs!"idx-var" = some i → LegalVar i) (hok : Ok s1)
    (hdepth : s1.depth + 1 ≤ s1.cfg.depthLimit)
    (hlit : ∀ a ∈ items, Lit ev a)
    (hidx : (e.getAttr cs!"idx-var").isSome = true → ∀ k, k < items.length → Lit ev (Str.natToStr k))
    (hrun : ForRun ev v (e.getAttr cs!"idx-var") ks items (up s1) 0 S2 evs bb) :
    ∃ s2, S2 = up s2 ∧
      Repl ev s1 (ctlNode e ks) (unrollFor v (e.getAttr cs!"idx-var") items 0 ks).toList s2 evs bb := by
  have hft := FT_unrollFor_of_run hv hi hrun hlit (fun h k _ hk => hidx h k (by omega))
  obtain ⟨G, hG⟩ := forIter_NF_of_run hrun (ok_up hok)
  have hl := forIter_of_run hrun G [] none (ok_up hok) (hG G (Nat.le_refl _) [] none)
  simp only [List.nil_append, C16.unionOpt_none_left] at hl
  have hd : dispatch ev (G + 2) (up s1) e (some ks) = (S2, .ok (evs, bb)) := by
    rw [dispatch_for ev (G + 1) (up s1) e (some ks) hname,
      genFor_unfold ev G e v d ks (up s1) items s1.rng hvar hdata hlist]
    exact hl
  exact repl_of_dispatch hok hid hclip hdepth hd hft


/-! ## (3) `<loop>` in all its modes: `count`, `while`, `until`; with or without loop variable -/

/-- no loop variable, or a name `<var>` can bind -/
def LegalOrNone (name : Str) : Prop := name = [] ∨ LegalVar name

/-- what the unrolling writes before a copy: `<var name="v"/>`, or nothing for a loop without loop variable -/
def hdr (name : Str) (v : Rat) : List Node := if name.isEmpty then [] else [varNode name v]

/-- the manual unrolling: header and body, once per value -/
def unrollG (name : Str) (vals : List Rat) (ks : Nodes) : Nodes :=
  Nodes.ofList (vals.flatMap fun v => hdr name v ++ ks.toList)

theorem unrollG_eq_unroll (name : Str) (vals : List Rat) (ks : Nodes) (h : name ≠ []) :
    unrollG name vals ks = unroll name vals ks := by
  have : name.isEmpty = false := by cases name <;> simp_all
  simp [unrollG, unroll, hdr, this]

/-- what the `<var>` of one unrolled pass needs and the loop does not: room for one more nesting level, the rendered
    value within `var-limit` -/
def HdrOk (st : St ρ) (name : Str) (v : Rat) : Prop :=
  name = [] ∨ (st.depth + 1 ≤ st.cfg.depthLimit ∧ (String.ofList (loopVarStr v)).utf8ByteSize ≤ st.cfg.varLimit ∧
    VarUntouched st name v)

/-- THE TRACE HYPOTHESIS: a run of `n` passes of a loop (pass number `it`, value `v`, state `st` at its start) in which
    * the test before each of the `n` passes says "go" and — unless the run ends by the test after the `n`-th pass — the
      test before pass `n + 1` says "stop" (`count`: `it < N`; `while`: the condition in the state actually reached),
    * the test after each pass but the last says "go on" (`until`: the condition in the state reached after the pass),
    * THE TESTS LEAVE THE STATE AS IT IS (they draw no random number; the unrolled program has no tests),
    * every element of every copy succeeds at its first attempt, and the loop limit is not hit. -/
inductive LoopRun (ev : Evalr ρ) (cnt : Option Nat) (w u : Option Str) (name : Str) (step : Rat) (ks : Nodes) :
    Nat → St ρ → Rat → Nat → St ρ → List Ev → Option BoundingBox → Prop
  | stop {st : St ρ} {v : Rat} {it : Nat} :
      preTest ev st cnt w it = (st, .ok false) → LoopRun ev cnt w u name step ks 0 st v it st [] none
  | last {st : St ρ} {v : Rat} {it : Nat} {s1 : St ρ} {evs : List Ev} {b : Option BoundingBox} :
      preTest ev st cnt w it = (st, .ok true) → HdrOk st name v →
      FT ev (bindLoopVar st name v) ks.toList s1 evs b → it + 1 ≤ s1.cfg.loopLimit →
      postTest ev s1 u = (s1, .ok true) → LoopRun ev cnt w u name step ks 1 st v it s1 evs b
  | pass {n : Nat} {st : St ρ} {v : Rat} {it : Nat} {s1 : St ρ} {evs : List Ev} {b : Option BoundingBox}
      {s2 : St ρ} {evs' : List Ev} {bb : Option BoundingBox} :
      preTest ev st cnt w it = (st, .ok true) → HdrOk st name v →
      FT ev (bindLoopVar st name v) ks.toList s1 evs b → it + 1 ≤ s1.cfg.loopLimit →
      postTest ev s1 u = (s1, .ok false) → LoopRun ev cnt w u name step ks n s1 (v + step) (it + 1) s2 evs' bb →
      LoopRun ev cnt w u name step ks (n + 1) st v it s2 (evs ++ evs') (unionOpt b bb)

theorem bindLoopVar_nil (st : St ρ) (v : Rat) : bindLoopVar st [] v = st := rfl

/-- the header binds like the loop -/
theorem FT_hdr (ev : Evalr ρ) (st : St ρ) (name : Str) (v : Rat) (hname : LegalOrNone name) (hh : HdrOk st name v)
    (hlit : name = [] ∨ Lit ev (loopVarStr v)) : FT ev st (hdr name v) (bindLoopVar st name v) [] none := by
  by_cases hn : name = []
  · subst hn
    exact FT.nil st
  · have hl : LegalVar name := hname.resolve_left hn
    have hh' := hh.resolve_left hn
    have hlit' := hlit.resolve_left hn
    have he : name.isEmpty = false := by cases name <;> simp_all
    have hvar : genNode ev (0 + 3) (registerEarly ev st (varNode name v)) (varNode name v)
        = (bindLoopVar st name v, .ok ([], none)) := by
      rw [registerEarly_varNode ev st name v hl.2.2]
      exact genNode_varNode ev 0 st name v ⟨hn, hl.1, hl.2.1, hl.2.2⟩ hh'.1 hh'.2.1 hh'.2.2 hlit'
    exact (FT_single hvar).cast (by simp [hdr, he]) rfl rfl

/-- LOOP SIDE -/
theorem loopIter_of_run {ev : Evalr ρ} {cnt : Option Nat} {w u : Option Str} {name : Str} {step : Rat} {ks : Nodes}
    {n : Nat} {st : St ρ} {v : Rat} {it : Nat} {s2 : St ρ} {evs : List Ev} {bb : Option BoundingBox}
    (hp : LoopRun ev cnt w u name step ks n st v it s2 evs bb) :
    ∀ (f : Nat) (acc : List Ev) (bb0 : Option BoundingBox), Ok st →
    NF (loopIter ev f st ks cnt w u name v step it acc bb0) →
    loopIter ev f st ks cnt w u name v step it acc bb0 = (s2, .ok (acc ++ evs, unionOpt bb0 bb)) := by
  induction hp with
  | @stop st v it hpre =>
    intro f acc bb0 _ hnf
    cases f with
    | zero => simp [loopIter, NF] at hnf
    | succ f => rw [C16.loop_stops_before_pass ev f st st ks cnt w u name v step it acc bb0 hpre]; simp [unionOpt_none_right]
  | @last st v it s1 evs b hpre hh hft hlim hpost =>
    intro f acc bb0 hok hnf
    cases f with
    | zero => simp [loopIter, NF] at hnf
    | succ f =>
      have hokb : Ok (bindLoopVar st name v) := ok_bindLoopVar st name v hok
      have hnfb : NF (processNodes ev f (bindLoopVar st name v) ks) := by
        intro hfu; apply hnf
        rw [loopIter]; simp only [seq, hpre]; simp [hfu]
      have hbody := processNodes_of_FT ks hft f hokb hnfb
      exact C16.until_stops_after_pass ev f st st s1 s1 ks cnt w u name v step it acc bb0 (evs, b) hpre hbody hlim hpost
  | @pass n st v it s1 evs b s2 evs' bb hpre hh hft hlim hpost _ ih =>
    intro f acc bb0 hok hnf
    cases f with
    | zero => simp [loopIter, NF] at hnf
    | succ f =>
      have hokb : Ok (bindLoopVar st name v) := ok_bindLoopVar st name v hok
      have hnfb : NF (processNodes ev f (bindLoopVar st name v) ks) := by
        intro hfu; apply hnf
        rw [loopIter]; simp only [seq, hpre]; simp [hfu]
      have hbody := processNodes_of_FT ks hft f hokb hnfb
      have hok1 : Ok s1 := FT_ok hft hokb
      have hstep := C16.loop_iteration ev f st st s1 s1 ks cnt w u name v step it acc bb0 (evs, b) hpre hbody hlim hpost
      rw [hstep] at hnf ⊢
      rw [ih f _ _ hok1 hnf, List.append_assoc, C16.unionOpt_assoc]

/-- UNROLL SIDE -/
theorem FT_unrollG_of_run {ev : Evalr ρ} {cnt : Option Nat} {w u : Option Str} {name : Str} {step : Rat} {ks : Nodes}
    (hname : LegalOrNone name)
    {n : Nat} {st : St ρ} {v : Rat} {it : Nat} {s2 : St ρ} {evs : List Ev} {bb : Option BoundingBox}
    (hp : LoopRun ev cnt w u name step ks n st v it s2 evs bb) : (name = [] ∨ LitEval ev (loopVals v step n)) →
    FT ev st (unrollG name (loopVals v step n) ks).toList s2 evs bb := by
  induction hp with
  | @stop st v it hpre => intro _; exact (FT.nil st).cast (by simp [unrollG, loopVals, toList_ofList]) rfl rfl
  | @last st v it s1 evs b hpre hh hft hlim hpost =>
    intro hev
    have hlit : name = [] ∨ Lit ev (loopVarStr v) := hev.imp id (fun h => h v (by simp [loopVals]))
    have h := FT_append (FT_hdr ev st name v hname hh hlit) hft
    exact h.cast (by simp [unrollG, loopVals, toList_ofList]) (by simp) (C16.unionOpt_none_left _).symm
  | @pass n st v it s1 evs b s2 evs' bb hpre hh hft hlim hpost _ ih =>
    intro hev
    have hlit : name = [] ∨ Lit ev (loopVarStr v) := hev.imp id (fun h => h v (by simp [loopVals]))
    have hev2 : name = [] ∨ LitEval ev (loopVals (v + step) step n) :=
      hev.imp id (fun h x hx => h x (by simp [loopVals, hx]))
    have h := FT_append (FT_hdr ev st name v hname hh hlit) (FT_append hft (ih hev2))
    exact h.cast (by simp [unrollG, loopVals, toList_ofList]) (by simp) (C16.unionOpt_none_left _).symm

theorem loopIter_NF_of_run {ev : Evalr ρ} {cnt : Option Nat} {w u : Option Str} {name : Str} {step : Rat} {ks : Nodes}
    {n : Nat} {st : St ρ} {v : Rat} {it : Nat} {s2 : St ρ} {evs : List Ev} {bb : Option BoundingBox}
    (hp : LoopRun ev cnt w u name step ks n st v it s2 evs bb) : Ok st →
    ∃ G, ∀ f, G ≤ f → ∀ (acc : List Ev) (bb0 : Option BoundingBox),
      NF (loopIter ev f st ks cnt w u name v step it acc bb0) := by
  induction hp with
  | @stop st v it hpre =>
    intro _
    refine ⟨1, fun f hf acc bb0 => ?_⟩
    obtain ⟨f, rfl⟩ : ∃ f', f = f' + 1 := ⟨f - 1, by omega⟩
    rw [C16.loop_stops_before_pass ev f st st ks cnt w u name v step it acc bb0 hpre]; simp [NF]
  | @last st v it s1 evs b hpre hh hft hlim hpost =>
    intro hok
    have hokb : Ok (bindLoopVar st name v) := ok_bindLoopVar st name v hok
    obtain ⟨G1, hG1⟩ := processNodes_NF_of_FT ks hft hokb
    refine ⟨G1 + 1, fun f hf acc bb0 => ?_⟩
    obtain ⟨f, rfl⟩ : ∃ f', f = f' + 1 := ⟨f - 1, by omega⟩
    have hbody := processNodes_of_FT ks hft f hokb (hG1 f (by omega))
    rw [C16.until_stops_after_pass ev f st st s1 s1 ks cnt w u name v step it acc bb0 (evs, b) hpre hbody hlim hpost]
    simp [NF]
  | @pass n st v it s1 evs b s2 evs' bb hpre hh hft hlim hpost _ ih =>
    intro hok
    have hokb : Ok (bindLoopVar st name v) := ok_bindLoopVar st name v hok
    have hok1 : Ok s1 := FT_ok hft hokb
    obtain ⟨G1, hG1⟩ := processNodes_NF_of_FT ks hft hokb
    obtain ⟨G2, hG2⟩ := ih hok1
    refine ⟨max G1 G2 + 1, fun f hf acc bb0 => ?_⟩
    obtain ⟨f, rfl⟩ : ∃ f', f = f' + 1 := ⟨f - 1, by omega⟩
    have hbody := processNodes_of_FT ks hft f hokb (hG1 f (by omega))
    rw [C16.loop_iteration ev f st st s1 s1 ks cnt w u name v step it acc bb0 (evs, b) hpre hbody hlim hpost]
    exact hG2 f (by omega) _ _

/-- **a loop — `count`, `while` or `until`, with or without loop variable — renders what its manual unrolling
    renders**: under the trace hypothesis `LoopRun` (N passes), `loopIter` and `processNodes` on the N copies (each preceded
    by `<var name="value"/>` when there is a loop variable) give, from the same state, the same final state (all fields),
    the same events and the same box -/
theorem loopRun_eq_unroll (ev : Evalr ρ) (cnt : Option Nat) (w u : Option Str) (name : Str) (start step : Rat) (N : Nat)
    (ks : Nodes) (st s2 : St ρ) (evs : List Ev) (bb : Option BoundingBox)
    (hname : LegalOrNone name) (hok : Ok st) (hev : name = [] ∨ LitEval ev (loopVals start step N))
    (hrun : LoopRun ev cnt w u name step ks N st start 0 s2 evs bb)
    (fL fU : Nat)
    (hL : NF (loopIter ev fL st ks cnt w u name start step 0 [] none))
    (hU : NF (processNodes ev fU st (unrollG name (loopVals start step N) ks))) :
    loopIter ev fL st ks cnt w u name start step 0 [] none
      = processNodes ev fU st (unrollG name (loopVals start step N) ks) ∧
    loopIter ev fL st ks cnt w u name start step 0 [] none = (s2, .ok (evs, bb)) := by
  have hl := loopIter_of_run hrun fL [] none hok hL
  simp only [List.nil_append, C16.unionOpt_none_left] at hl
  have hu := processNodes_of_FT _ (FT_unrollG_of_run hname hrun hev) fU hok hU
  rw [hl, hu]; exact ⟨rfl, rfl⟩

/-- the fuel hypotheses can be met -/
theorem loopRun_unroll_fuel_exists (ev : Evalr ρ) (cnt : Option Nat) (w u : Option Str) (name : Str) (start step : Rat)
    (N : Nat) (ks : Nodes) (st s2 : St ρ) (evs : List Ev) (bb : Option BoundingBox)
    (hname : LegalOrNone name) (hok : Ok st) (hev : name = [] ∨ LitEval ev (loopVals start step N))
    (hrun : LoopRun ev cnt w u name step ks N st start 0 s2 evs bb) :
    ∃ F, ∀ f, F ≤ f → NF (loopIter ev f st ks cnt w u name start step 0 [] none) ∧
      NF (processNodes ev f st (unrollG name (loopVals start step N) ks)) := by
  obtain ⟨G1, hG1⟩ := loopIter_NF_of_run hrun hok
  obtain ⟨G2, hG2⟩ := processNodes_NF_of_FT _ (FT_unrollG_of_run hname hrun hev) hok
  exact ⟨max G1 G2, fun f hf => ⟨hG1 f (by omega) [] none, hG2 f (by omega)⟩⟩

/-! ### the trace hypothesis in the evaluator's terms -/

theorem preTest_while (ev : Evalr ρ) (st : St ρ) (w : Str) (it : Nat) (b : Bool)
    (h : ev.evalCondition st.geo st.env st.rng w = .ok (b, st.rng)) : preTest ev st none (some w) it = (st, .ok b) := by
  simp [preTest, withRng, h]

theorem postTest_until (ev : Evalr ρ) (st : St ρ) (u : Str) (b : Bool)
    (h : ev.evalCondition st.geo st.env st.rng u = .ok (b, st.rng)) : postTest ev st (some u) = (st, .ok b) := by
  simp [postTest, withRng, h]

/-- `while`: the condition is zero before the next pass -/
theorem LoopRun.while_stop {ev : Evalr ρ} {w : Str} {name : Str} {step : Rat} {ks : Nodes} {st : St ρ} {v : Rat}
    {it : Nat} (h : ev.evalCondition st.geo st.env st.rng w = .ok (false, st.rng)) :
    LoopRun ev none (some w) none name step ks 0 st v it st [] none :=
  LoopRun.stop (preTest_while ev st w it false h)

/-- `while`: the condition is non-zero, the pass is made (first-try), the run continues -/
theorem LoopRun.while_pass {ev : Evalr ρ} {w : Str} {name : Str} {step : Rat} {ks : Nodes} {n : Nat} {st : St ρ}
    {v : Rat} {it : Nat} {s1 : St ρ} {evs : List Ev} {b : Option BoundingBox} {s2 : St ρ} {evs' : List Ev}
    {bb : Option BoundingBox} (h : ev.evalCondition st.geo st.env st.rng w = .ok (true, st.rng))
    (hh : HdrOk st name v) (hft : FT ev (bindLoopVar st name v) ks.toList s1 evs b) (hlim : it + 1 ≤ s1.cfg.loopLimit)
    (hrest : LoopRun ev none (some w) none name step ks n s1 (v + step) (it + 1) s2 evs' bb) :
    LoopRun ev none (some w) none name step ks (n + 1) st v it s2 (evs ++ evs') (unionOpt b bb) :=
  LoopRun.pass (preTest_while ev st w it true h) hh hft hlim rfl hrest

/-- `until`: the pass is made whatever the condition says; it is non-zero afterwards: the run ends -/
theorem LoopRun.until_last {ev : Evalr ρ} {u : Str} {name : Str} {step : Rat} {ks : Nodes} {st : St ρ}
    {v : Rat} {it : Nat} {s1 : St ρ} {evs : List Ev} {b : Option BoundingBox}
    (hh : HdrOk st name v) (hft : FT ev (bindLoopVar st name v) ks.toList s1 evs b) (hlim : it + 1 ≤ s1.cfg.loopLimit)
    (h : ev.evalCondition s1.geo s1.env s1.rng u = .ok (true, s1.rng)) :
    LoopRun ev none none (some u) name step ks 1 st v it s1 evs b :=
  LoopRun.last rfl hh hft hlim (postTest_until ev s1 u true h)

/-- `until`: the condition is zero after the pass: the run continues -/
theorem LoopRun.until_pass {ev : Evalr ρ} {u : Str} {name : Str} {step : Rat} {ks : Nodes} {n : Nat} {st : St ρ}
    {v : Rat} {it : Nat} {s1 : St ρ} {evs : List Ev} {b : Option BoundingBox} {s2 : St ρ} {evs' : List Ev}
    {bb : Option BoundingBox}
    (hh : HdrOk st name v) (hft : FT ev (bindLoopVar st name v) ks.toList s1 evs b) (hlim : it + 1 ≤ s1.cfg.loopLimit)
    (h : ev.evalCondition s1.geo s1.env s1.rng u = .ok (false, s1.rng))
    (hrest : LoopRun ev none none (some u) name step ks n s1 (v + step) (it + 1) s2 evs' bb) :
    LoopRun ev none none (some u) name step ks (n + 1) st v it s2 (evs ++ evs') (unionOpt b bb) :=
  LoopRun.pass rfl hh hft hlim (postTest_until ev s1 u false h) hrest

/-- `count`: the count is reached -/
theorem LoopRun.count_stop {ev : Evalr ρ} {N : Nat} {w u : Option Str} {name : Str} {step : Rat} {ks : Nodes} {st : St ρ}
    {v : Rat} {it : Nat} (h : N ≤ it) : LoopRun ev (some N) w u name step ks 0 st v it st [] none :=
  LoopRun.stop (by simp [preTest]; omega)

/-- the first-try passes of `Unroll.lean` are a run of a count loop -/
theorem loopRun_of_passes {ev : Evalr ρ} {name : Str} {step : Rat} {ks : Nodes} {n : Nat} {st : St ρ} {v : Rat}
    {it : Nat} {s2 : St ρ} {evs : List Ev} {bb : Option BoundingBox}
    (hp : Passes ev name step ks n st v it s2 evs bb) :
    LoopRun ev (some (it + n)) none none name step ks n st v it s2 evs bb := by
  induction hp with
  | done st v it => exact LoopRun.count_stop (by omega)
  | @pass n st v it s1 evs b s2 evs' bb hd hv hdf hft hlim _ ih =>
    have hidx : it + (n + 1) = it + 1 + n := by omega
    rw [hidx]
    exact LoopRun.pass (by simp [preTest]; omega) (Or.inr ⟨hd, hv, hdf⟩) hft hlim rfl ih

/-! ### the `<loop>` element -/

/-- the `while` / `until` expressions `genLoop` hands to the iteration: `count` wins over `while` wins over `until` -/
def loopW (e : Elem) (cnt : Option Nat) : Option Str := if cnt.isSome then none else e.getAttr cs!"while"
def loopU (e : Elem) (cnt : Option Nat) : Option Str :=
  if cnt.isSome then none else (if (e.getAttr cs!"while").isSome then none else e.getAttr cs!"until")

theorem genLoop_unfold (ev : Evalr ρ) (f : Nat) (e : Elem) (ks : Nodes) (st : St ρ) (cnt : Option Nat) (name : Str)
    (start step : Rat) (rng : ρ)
    (htype : ((e.getAttr cs!"count").isSome || (e.getAttr cs!"while").isSome || (e.getAttr cs!"until").isSome) = true)
    (hhead : loopHead ev st e = .ok (cnt, name, start, step, rng)) :
    genLoop ev (f + 1) st e (some ks)
      = loopIter ev f { st with rng := rng } ks cnt (loopW e cnt) (loopU e cnt) name start step 0 [] none := by
  rw [genLoop]
  · simp only [hhead, loopW, loopU]
  · exact htype

/-- **the `<loop>` ELEMENT, any mode**: when its head evaluates to `(cnt, name, start, step)` (leaving the random state
    `rng`), `genLoop` on the element is `processNodes` on the unrolling -/
theorem genLoop_eq_unrollG (ev : Evalr ρ) (e : Elem) (cnt : Option Nat) (name : Str) (start step : Rat) (N : Nat)
    (ks : Nodes) (st s2 : St ρ) (rng : ρ) (evs : List Ev) (bb : Option BoundingBox)
    (htype : ((e.getAttr cs!"count").isSome || (e.getAttr cs!"while").isSome || (e.getAttr cs!"until").isSome) = true)
    (hhead : loopHead ev st e = .ok (cnt, name, start, step, rng))
    (hname : LegalOrNone name) (hok : Ok st) (hev : name = [] ∨ LitEval ev (loopVals start step N))
    (hrun : LoopRun ev cnt (loopW e cnt) (loopU e cnt) name step ks N { st with rng := rng } start 0 s2 evs bb)
    (fL fU : Nat)
    (hL : NF (genLoop ev fL st e (some ks)))
    (hU : NF (processNodes ev fU { st with rng := rng } (unrollG name (loopVals start step N) ks))) :
    genLoop ev fL st e (some ks)
      = processNodes ev fU { st with rng := rng } (unrollG name (loopVals start step N) ks) ∧
    genLoop ev fL st e (some ks) = (s2, .ok (evs, bb)) := by
  cases fL with
  | zero => simp [genLoop, NF] at hL
  | succ f =>
    rw [genLoop_unfold ev f e ks st cnt name start step rng htype hhead] at hL ⊢
    exact loopRun_eq_unroll ev cnt _ _ name start step N ks _ s2 evs bb hname (ok_rng hok rng) hev hrun f fU hL hU

/-- `<loop>` among its siblings (head evaluated without a random draw): the element does what its unrolling does in
    place. `hrun` is the trace hypothesis where the loop actually runs — one level deeper -/
theorem loop_repl (ev : Evalr ρ) (e : Elem) (cnt : Option Nat) (name : Str) (start step : Rat) (N : Nat)
    (ks : Nodes) (s1 S2 : St ρ) (evs : List Ev) (bb : Option BoundingBox)
    (hname' : e.name = cs!"loop") (hid : e.getAttr cs!"id" = none) (hclip : e.getAttr cs!"clip-path" = none)
    (htype : ((e.getAttr cs!"count").isSome || (e.getAttr cs!"while").isSome || (e.getAttr cs!"until").isSome) = true)
    (hhead : loopHead ev s1 e = .ok (cnt, name, start, step, s1.rng))
    (hname : LegalOrNone name) (hok : Ok s1) (hdepth : s1.depth + 1 ≤ s1.cfg.depthLimit)
    (hev : name = [] ∨ LitEval ev (loopVals start step N))
    (hrun : LoopRun ev cnt (loopW e cnt) (loopU e cnt) name step ks N (up s1) start 0 S2 evs bb) :
    ∃ s2, S2 = up s2 ∧ Repl ev s1 (ctlNode e ks) (unrollG name (loopVals start step N) ks).toList s2 evs bb := by
  have hft := FT_unrollG_of_run hname hrun hev
  obtain ⟨G, hG⟩ := loopIter_NF_of_run hrun (ok_up hok)
  have hl := loopIter_of_run hrun G [] none (ok_up hok) (hG G (Nat.le_refl _) [] none)
  simp only [List.nil_append, C16.unionOpt_none_left] at hl
  have hd : dispatch ev (G + 2) (up s1) e (some ks) = (S2, .ok (evs, bb)) := by
    rw [dispatch_loop ev (G + 1) (up s1) e (some ks) hname',
      genLoop_unfold ev G e ks (up s1) cnt name start step s1.rng htype hhead]
    exact hl
  exact repl_of_dispatch hok hid hclip hdepth hd hft


/-! ## (4b) the embedding among siblings -/

theorem registerEarly_depth_cfg (ev : Evalr ρ) (st : St ρ) (n : Node) :
    (registerEarly ev st n).depth = st.depth ∧ (registerEarly ev st n).cfg = st.cfg := by
  unfold registerEarly
  split
  · unfold registerOriginal
    split <;> exact ⟨rfl, rfl⟩
  · exact ⟨rfl, rfl⟩

/-- an element that succeeded did not stand at the depth limit -/
theorem depth_ok_of_genNode_elem (ev : Evalr ρ) (g : Nat) (st s : St ρ) (e : Elem) (kids : Option Nodes)
    (tail : Option Str) (r : List Ev × Option BoundingBox)
    (h : genNode ev g st (.elem e kids tail) = (s, .ok r)) : st.depth + 1 ≤ st.cfg.depthLimit := by
  match g, h with
  | 0, h => simp [genNode] at h
  | 1, h => simp [genNode, genElem, seq] at h
  | g + 2, h =>
    by_cases hd : st.depth + 1 > st.cfg.depthLimit
    · simp [genNode, genElem, seq, hd] at h
    · omega

theorem depth_ok_of_all {ev : Evalr ρ} {st s1 s3 : St ρ} {pre post : List Node} {e : Elem} {kids : Option Nodes}
    {tail : Option Str} {e1 eall : List Ev} {b1 ball : Option BoundingBox}
    (hpre : FT ev st pre s1 e1 b1) (hall : FT ev st (pre ++ .elem e kids tail :: post) s3 eall ball) :
    s1.depth + 1 ≤ s1.cfg.depthLimit := by
  obtain ⟨s1', e1', b1', e2, b2, h1, h2, _, _⟩ := FT_split hall
  obtain ⟨rfl, _, _⟩ := FT_det hpre h1
  cases h2 with
  | @cons g _ _ sa evsa ba _ _ evsb bbb hg hrest =>
    have := depth_ok_of_genNode_elem ev g _ _ e kids tail _ hg
    rw [(registerEarly_depth_cfg ev s1 _).1, (registerEarly_depth_cfg ev s1 _).2] at this
    exact this

/-- the general form: a node replaced by a sibling list that does the same -/
theorem processNodes_embed {ev : Evalr ρ} {st s1 s2 s3 : St ρ} {pre post ms : List Node} {n : Node}
    {e1 evs eall : List Ev} {b1 b ball : Option BoundingBox} (hok : Ok st)
    (hpre : FT ev st pre s1 e1 b1) (h : Repl ev s1 n ms s2 evs b) (hall : FT ev st (pre ++ n :: post) s3 eall ball)
    (fL fU : Nat) (hL : NF (processNodes ev fL st (Nodes.ofList (pre ++ n :: post))))
    (hU : NF (processNodes ev fU st (Nodes.ofList (pre ++ (ms ++ post))))) :
    processNodes ev fL st (Nodes.ofList (pre ++ n :: post))
      = processNodes ev fU st (Nodes.ofList (pre ++ (ms ++ post))) ∧
    processNodes ev fL st (Nodes.ofList (pre ++ n :: post)) = (s3, .ok (eall, ball)) := by
  obtain ⟨h1, h2⟩ := processNodes_replace hok hpre h hall fL fU hL hU
  rw [h1, h2]; exact ⟨rfl, rfl⟩

/-! ### the text after the element's end tag -/

theorem genNode_tail (ev : Evalr ρ) (g : Nat) (st s2 : St ρ) (e : Elem) (kids : Option Nodes) (evs : List Ev)
    (b : Option BoundingBox) (t : Str) (h : genNode ev g st (.elem e kids none) = (s2, .ok (evs, b))) :
    genNode ev g st (.elem e kids (some t)) = (s2, .ok (withTail (some t) evs, b)) := by
  cases g with
  | zero => simp [genNode] at h
  | succ g =>
    simp only [genNode, seq] at h ⊢
    split at h
    · simp at h
    · rename_i a ha
      simp only [withTail, Prod.mk.injEq, Except.ok.injEq] at h
      obtain ⟨rfl, rfl, rfl⟩ := h
      rfl

/-- trailing text after an element that rendered something is that text as a sibling of the replacement -/
theorem repl_tail_nonempty {ev : Evalr ρ} {s1 s2 : St ρ} {e : Elem} {kids : Option Nodes} {ms : List Node}
    {evs : List Ev} {b : Option BoundingBox} (t : Str)
    (h : Repl ev s1 (.elem e kids none) ms s2 evs b) (hne : evs ≠ []) :
    Repl ev s1 (.elem e kids (some t)) (ms ++ [.text t]) s2 (evs ++ [Ev.text t]) b := by
  obtain ⟨⟨g, hg⟩, hms⟩ := h
  constructor
  · refine ⟨g, ?_⟩
    have := genNode_tail ev g _ s2 e kids evs b t hg
    cases evs with
    | nil => exact absurd rfl hne
    | cons x xs => exact this
  · have ht : genNode ev 1 (registerEarly ev s2 (.text t)) (.text t) = (s2, .ok ([Ev.text t], none)) := rfl
    exact (FT_append hms (FT_single ht)).cast rfl rfl (unionOpt_none_right _).symm

/-- … and after an element that rendered nothing it is dropped (`withTail`): the replacement has no text either -/
theorem repl_tail_empty {ev : Evalr ρ} {s1 s2 : St ρ} {e : Elem} {kids : Option Nodes} {ms : List Node}
    {b : Option BoundingBox} (t : Str)
    (h : Repl ev s1 (.elem e kids none) ms s2 [] b) :
    Repl ev s1 (.elem e kids (some t)) ms s2 [] b := by
  obtain ⟨⟨g, hg⟩, hms⟩ := h
  exact ⟨⟨g, genNode_tail ev g _ s2 e kids [] b t hg⟩, hms⟩

/-! ### `<if>`, `<for>`, `<loop>` among their siblings -/

/-- **`<if>` with a true test among its siblings is its body among those siblings** -/
theorem if_true_embedded (ev : Evalr ρ) (e : Elem) (ks : Nodes) (test : Str) (pre post : List Node)
    (st s1 S2 s3 : St ρ) (e1 evs eall : List Ev) (b1 b ball : Option BoundingBox)
    (hok : Ok st) (hpre : FT ev st pre s1 e1 b1)
    (hall : FT ev st (pre ++ ctlNode e ks :: post) s3 eall ball)
    (hname : e.name = cs!"if") (hid : e.getAttr cs!"id" = none) (hclip : e.getAttr cs!"clip-path" = none)
    (ht : e.getAttr cs!"test" = some test)
    (hc : ev.evalCondition s1.geo s1.env s1.rng test = .ok (true, s1.rng))
    (hbody : FT ev (up s1) ks.toList S2 evs b)
    (fL fU : Nat) (hL : NF (processNodes ev fL st (Nodes.ofList (pre ++ ctlNode e ks :: post))))
    (hU : NF (processNodes ev fU st (Nodes.ofList (pre ++ (ks.toList ++ post))))) :
    processNodes ev fL st (Nodes.ofList (pre ++ ctlNode e ks :: post))
      = processNodes ev fU st (Nodes.ofList (pre ++ (ks.toList ++ post))) ∧
    processNodes ev fL st (Nodes.ofList (pre ++ ctlNode e ks :: post)) = (s3, .ok (eall, ball)) := by
  obtain ⟨s2, _, hr⟩ := if_true_repl ev e ks s1 S2 test evs b hname hid hclip (FT_ok hpre hok)
    (depth_ok_of_all hpre hall) ht hc hbody
  exact processNodes_embed hok hpre hr hall fL fU hL hU

/-- **`<if>` with a false test among its siblings is those siblings** -/
theorem if_false_embedded (ev : Evalr ρ) (e : Elem) (ks : Nodes) (test : Str) (pre post : List Node)
    (st s1 s3 : St ρ) (e1 eall : List Ev) (b1 ball : Option BoundingBox)
    (hok : Ok st) (hpre : FT ev st pre s1 e1 b1)
    (hall : FT ev st (pre ++ ctlNode e ks :: post) s3 eall ball)
    (hname : e.name = cs!"if") (hid : e.getAttr cs!"id" = none) (hclip : e.getAttr cs!"clip-path" = none)
    (ht : e.getAttr cs!"test" = some test)
    (hc : ev.evalCondition s1.geo s1.env s1.rng test = .ok (false, s1.rng))
    (fL fU : Nat) (hL : NF (processNodes ev fL st (Nodes.ofList (pre ++ ctlNode e ks :: post))))
    (hU : NF (processNodes ev fU st (Nodes.ofList (pre ++ post)))) :
    processNodes ev fL st (Nodes.ofList (pre ++ ctlNode e ks :: post))
      = processNodes ev fU st (Nodes.ofList (pre ++ post)) ∧
    processNodes ev fL st (Nodes.ofList (pre ++ ctlNode e ks :: post)) = (s3, .ok (eall, ball)) := by
  have hr := if_false_repl ev e ks s1 test hname hid hclip (FT_ok hpre hok) (depth_ok_of_all hpre hall) ht hc
  exact processNodes_embed (ms := []) hok hpre hr hall fL fU hL hU

/-- **`<for>` among its siblings is its unrolling among those siblings** -/
theorem for_embedded (ev : Evalr ρ) (e : Elem) (v d : Str) (ks : Nodes) (items : List Str) (pre post : List Node)
    (st s1 S2 s3 : St ρ) (e1 evs eall : List Ev) (b1 bb ball : Option BoundingBox)
    (hok : Ok st) (hpre : FT ev st pre s1 e1 b1)
    (hall : FT ev st (pre ++ ctlNode e ks :: post) s3 eall ball)
    (hname : e.name = cs!"for") (hid : e.getAttr cs!"id" = none) (hclip : e.getAttr cs!"clip-path" = none)
    (hvar : e.getAttr cs!"var" = some v) (hdata : e.getAttr cs!"data" = some d)
    (hlist : ev.evalList s1.geo s1.env s1.rng d = .ok (items, s1.rng))
    (hv : LegalVar v) (hi : ∀ i, e.getAttr cs!"idx-var" = some i → LegalVar i)
    (hlit : ∀ a ∈ items, Lit ev a)
    (hidx : (e.getAttr cs!"idx-var").isSome = true → ∀ k, k < items.length → Lit ev (Str.natToStr k))
    (hrun : ForRun ev v (e.getAttr cs!"idx-var") ks items (up s1) 0 S2 evs bb)
    (fL fU : Nat) (hL : NF (processNodes ev fL st (Nodes.ofList (pre ++ ctlNode e ks :: post))))
    (hU : NF (processNodes ev fU st
      (Nodes.ofList (pre ++ ((unrollFor v (e.getAttr cs!"idx-var") items 0 ks).toList ++ post))))) :
    processNodes ev fL st (Nodes.ofList (pre ++ ctlNode e ks :: post))
      = processNodes ev fU st
          (Nodes.ofList (pre ++ ((unrollFor v (e.getAttr cs!"idx-var") items 0 ks).toList ++ post))) ∧
    processNodes ev fL st (Nodes.ofList (pre ++ ctlNode e ks :: post)) = (s3, .ok (eall, ball)) := by
  obtain ⟨s2, _, hr⟩ := for_repl ev e v d ks s1 S2 items evs bb hname hid hclip hvar hdata hlist hv hi
    (FT_ok hpre hok) (depth_ok_of_all hpre hall) hlit hidx hrun
  exact processNodes_embed hok hpre hr hall fL fU hL hU

/-- **`<loop>` (any mode) among its siblings is its unrolling among those siblings**: same final state, same events
    (flattened, in document order — the shifted tag indices do not matter), same box. The loop version is assumed to run
    first-try (`hall`; in particular the depth limit is not hit although the body runs one level deeper than the copies);
    `hrun` is the trace hypothesis in the states actually reached, one level deeper -/
theorem loop_embedded (ev : Evalr ρ) (e : Elem) (cnt : Option Nat) (name : Str) (start step : Rat) (N : Nat)
    (ks : Nodes) (pre post : List Node) (st s1 S2 s3 : St ρ) (e1 evs eall : List Ev) (b1 bb ball : Option BoundingBox)
    (hok : Ok st) (hpre : FT ev st pre s1 e1 b1)
    (hall : FT ev st (pre ++ ctlNode e ks :: post) s3 eall ball)
    (hname' : e.name = cs!"loop") (hid : e.getAttr cs!"id" = none) (hclip : e.getAttr cs!"clip-path" = none)
    (htype : ((e.getAttr cs!"count").isSome || (e.getAttr cs!"while").isSome || (e.getAttr cs!"until").isSome) = true)
    (hhead : loopHead ev s1 e = .ok (cnt, name, start, step, s1.rng))
    (hname : LegalOrNone name) (hev : name = [] ∨ LitEval ev (loopVals start step N))
    (hrun : LoopRun ev cnt (loopW e cnt) (loopU e cnt) name step ks N (up s1) start 0 S2 evs bb)
    (fL fU : Nat) (hL : NF (processNodes ev fL st (Nodes.ofList (pre ++ ctlNode e ks :: post))))
    (hU : NF (processNodes ev fU st
      (Nodes.ofList (pre ++ ((unrollG name (loopVals start step N) ks).toList ++ post))))) :
    processNodes ev fL st (Nodes.ofList (pre ++ ctlNode e ks :: post))
      = processNodes ev fU st (Nodes.ofList (pre ++ ((unrollG name (loopVals start step N) ks).toList ++ post))) ∧
    processNodes ev fL st (Nodes.ofList (pre ++ ctlNode e ks :: post)) = (s3, .ok (eall, ball)) := by
  obtain ⟨s2, _, hr⟩ := loop_repl ev e cnt name start step N ks s1 S2 evs bb hname' hid hclip htype hhead hname
    (FT_ok hpre hok) (depth_ok_of_all hpre hall) hev hrun
  exact processNodes_embed hok hpre hr hall fL fU hL hU

/-- the fuel hypotheses of the four embedding theorems can be met (general form) -/
theorem processNodes_embed_fuel {ev : Evalr ρ} {st s1 s2 s3 : St ρ} {pre post ms : List Node} {n : Node}
    {e1 evs eall : List Ev} {b1 b ball : Option BoundingBox} (hok : Ok st)
    (hpre : FT ev st pre s1 e1 b1) (h : Repl ev s1 n ms s2 evs b) (hall : FT ev st (pre ++ n :: post) s3 eall ball) :
    ∃ F, ∀ f, F ≤ f → NF (processNodes ev f st (Nodes.ofList (pre ++ n :: post))) ∧
      NF (processNodes ev f st (Nodes.ofList (pre ++ (ms ++ post)))) :=
  processNodes_replace_fuel hok hpre h hall


/-! ## decidable forms of the premises (for concrete instances) -/

/-- one `onePass` at fuel `g` over the sibling list leaves nothing pending: `(final state, events, box)` -/
def ftB (ev : Evalr ρ) (g : Nat) (st : St ρ) (ks : Nodes) : Option (St ρ × List Ev × Option BoundingBox) :=
  match onePass ev g st (tagsOf ks) [] none [] with
  | (st', .ok (outs, bb, [])) => some (st', outs.flatMap (·.2), bb)
  | _ => none

theorem FT_of_ftB (ev : Evalr ρ) (g : Nat) (st s1 : St ρ) (ks : Nodes) (evs : List Ev) (b : Option BoundingBox)
    (hok : Ok st) (h : ftB ev g st ks = some (s1, evs, b)) : FT ev st ks.toList s1 evs b := by
  unfold ftB at h
  split at h
  · rename_i st' outs bb heq
    simp only [Option.some.injEq, Prod.mk.injEq] at h
    obtain ⟨rfl, rfl, rfl⟩ := h
    obtain ⟨evs, b, hft, hbb, outs₁, ho, hfl⟩ := FT_of_onePass ev (tagsOf ks) g st [] none st' outs bb hok heq
    rw [tagsOf_node] at hft
    simp only [List.nil_append] at ho
    subst ho
    rw [C16.unionOpt_none_left] at hbb
    subst hbb
    rw [hfl]; exact hft
  · cases h

theorem ftB_get (ev : Evalr ρ) (g : Nat) (st : St ρ) (ks : Nodes) (h : (ftB ev g st ks).isSome = true) :
    ftB ev g st ks = some ((ftB ev g st ks).get h) := (Option.some_get h).symm

theorem FT_of_ftB_get (ev : Evalr ρ) (g : Nat) (st : St ρ) (ks : Nodes) (hok : Ok st)
    (h : (ftB ev g st ks).isSome = true) :
    FT ev st ks.toList ((ftB ev g st ks).get h).1 ((ftB ev g st ks).get h).2.1 ((ftB ev g st ks).get h).2.2 :=
  FT_of_ftB ev g st _ ks _ _ hok (ftB_get ev g st ks h)

/-- a test that says `b` and leaves the random state alone -/
def condB [DecidableEq ρ] (ev : Evalr ρ) (st : St ρ) (c : Str) : Option Bool :=
  match ev.evalCondition st.geo st.env st.rng c with
  | .ok (b, r) => if r = st.rng then some b else none
  | .error _ => none

theorem condB_sound [DecidableEq ρ] (ev : Evalr ρ) (st : St ρ) (c : Str) (b : Bool) (h : condB ev st c = some b) :
    ev.evalCondition st.geo st.env st.rng c = .ok (b, st.rng) := by
  unfold condB at h
  split at h
  · rename_i b' r heq
    split at h
    · rename_i hr
      simp only [Option.some.injEq] at h
      subst h; subst hr; exact heq
    · cases h
  · cases h

def preB [DecidableEq ρ] (ev : Evalr ρ) (st : St ρ) (cnt : Option Nat) (w : Option Str) (it : Nat) : Option Bool :=
  match cnt, w with
  | some c, _ => some (decide (it < c))
  | none, some w => condB ev st w
  | none, none => some true

theorem preB_sound [DecidableEq ρ] (ev : Evalr ρ) (st : St ρ) (cnt : Option Nat) (w : Option Str) (it : Nat) (b : Bool)
    (h : preB ev st cnt w it = some b) : preTest ev st cnt w it = (st, .ok b) := by
  unfold preB at h
  split at h
  · simp only [Option.some.injEq] at h; subst h; rfl
  · exact preTest_while ev st _ it b (condB_sound ev st _ b h)
  · simp only [Option.some.injEq] at h; subst h; rfl

def postB [DecidableEq ρ] (ev : Evalr ρ) (st : St ρ) (u : Option Str) : Option Bool :=
  match u with
  | some u => condB ev st u
  | none => some false

theorem postB_sound [DecidableEq ρ] (ev : Evalr ρ) (st : St ρ) (u : Option Str) (b : Bool)
    (h : postB ev st u = some b) : postTest ev st u = (st, .ok b) := by
  unfold postB at h
  split at h
  · exact postTest_until ev st _ b (condB_sound ev st _ b h)
  · simp only [Option.some.injEq] at h; subst h; rfl

instance (st : St ρ) (name : Str) (v : Rat) : Decidable (HdrOk st name v) := by
  unfold HdrOk; exact inferInstance

instance (st : St ρ) (iv : Option Str) (item : Str) (idx : Nat) : Decidable (ForHdrOk st iv item idx) := by
  unfold ForHdrOk; exact inferInstance

/-- `LoopRun` computed, one fuel `g` for every pass, at most `k` tests before a pass: `(passes, final state, events, box)` -/
def loopRunB [DecidableEq ρ] (ev : Evalr ρ) (cnt : Option Nat) (w u : Option Str) (name : Str) (step : Rat) (ks : Nodes)
    (g : Nat) : Nat → St ρ → Rat → Nat → Option (Nat × St ρ × List Ev × Option BoundingBox)
  | 0, _, _, _ => none
  | k + 1, st, v, it =>
    match preB ev st cnt w it with
    | none => none
    | some false => some (0, st, [], none)
    | some true =>
      if HdrOk st name v then
        match ftB ev g (bindLoopVar st name v) ks with
        | none => none
        | some (s1, evs, b) =>
          if it + 1 ≤ s1.cfg.loopLimit then
            match postB ev s1 u with
            | none => none
            | some true => some (1, s1, evs, b)
            | some false =>
              match loopRunB ev cnt w u name step ks g k s1 (v + step) (it + 1) with
              | none => none
              | some (n, s2, evs', bb) => some (n + 1, s2, evs ++ evs', unionOpt b bb)
          else none
      else none

theorem loopRun_of_B [DecidableEq ρ] (ev : Evalr ρ) (cnt : Option Nat) (w u : Option Str) (name : Str) (step : Rat)
    (ks : Nodes) (g : Nat) : ∀ (k : Nat) (st : St ρ) (v : Rat) (it n : Nat) (s2 : St ρ) (evs : List Ev)
    (bb : Option BoundingBox), Ok st → loopRunB ev cnt w u name step ks g k st v it = some (n, s2, evs, bb) →
    LoopRun ev cnt w u name step ks n st v it s2 evs bb := by
  intro k
  induction k with
  | zero => intro st v it n s2 evs bb _ h; simp [loopRunB] at h
  | succ k ih =>
    intro st v it n s2 evs bb hok h
    unfold loopRunB at h
    split at h
    · cases h
    · rename_i hpre
      simp only [Option.some.injEq, Prod.mk.injEq] at h
      obtain ⟨rfl, rfl, rfl, rfl⟩ := h
      exact LoopRun.stop (preB_sound ev st cnt w it false hpre)
    · rename_i hpre
      have hpre' := preB_sound ev st cnt w it true hpre
      split at h
      · rename_i hh
        split at h
        · cases h
        · rename_i s1 evs1 b1 hft
          have hokb : Ok (bindLoopVar st name v) := ok_bindLoopVar st name v hok
          have hft' := FT_of_ftB ev g _ s1 ks evs1 b1 hokb hft
          split at h
          · rename_i hlim
            split at h
            · cases h
            · rename_i hpost
              simp only [Option.some.injEq, Prod.mk.injEq] at h
              obtain ⟨rfl, rfl, rfl, rfl⟩ := h
              exact LoopRun.last hpre' hh hft' hlim (postB_sound ev _ u true hpost)
            · rename_i hpost
              split at h
              · cases h
              · rename_i n' s2' evs' bb' hrec
                simp only [Option.some.injEq, Prod.mk.injEq] at h
                obtain ⟨rfl, rfl, rfl, rfl⟩ := h
                exact LoopRun.pass hpre' hh hft' hlim (postB_sound ev _ u false hpost)
                  (ih _ _ _ _ _ _ _ (FT_ok hft' hokb) hrec)
          · cases h
      · cases h

theorem loopRun_exists_of_B [DecidableEq ρ] (ev : Evalr ρ) (cnt : Option Nat) (w u : Option Str) (name : Str)
    (step : Rat) (ks : Nodes) (g k : Nat) (st : St ρ) (v : Rat) (it n : Nat) (hok : Ok st)
    (h : (loopRunB ev cnt w u name step ks g k st v it).map (·.1) = some n) :
    ∃ s2 evs bb, LoopRun ev cnt w u name step ks n st v it s2 evs bb := by
  cases hr : loopRunB ev cnt w u name step ks g k st v it with
  | none => rw [hr] at h; cases h
  | some x =>
    obtain ⟨n', s2, evs, bb⟩ := x
    rw [hr] at h
    simp only [Option.map_some, Option.some.injEq] at h
    subst h
    exact ⟨s2, evs, bb, loopRun_of_B ev cnt w u name step ks g k st v it _ s2 evs bb hok hr⟩

/-- `ForRun` computed, one fuel `g` for every pass -/
def forRunB (ev : Evalr ρ) (v : Str) (iv : Option Str) (ks : Nodes) (g : Nat) :
    List Str → St ρ → Nat → Option (St ρ × List Ev × Option BoundingBox)
  | [], st, _ => some (st, [], none)
  | item :: items, st, idx =>
    if ForHdrOk st iv item idx ∧ ForVarUntouched st v iv item idx then
      match ftB ev g (bindForVars st v iv item idx) ks with
      | none => none
      | some (s1, evs, b) =>
        if idx + 1 ≤ s1.cfg.loopLimit then
          match forRunB ev v iv ks g items s1 (idx + 1) with
          | none => none
          | some (s2, evs', bb) => some (s2, evs ++ evs', unionOpt b bb)
        else none
    else none

theorem forRun_of_B (ev : Evalr ρ) (v : Str) (iv : Option Str) (ks : Nodes) (g : Nat) :
    ∀ (items : List Str) (st : St ρ) (idx : Nat) (s2 : St ρ) (evs : List Ev) (bb : Option BoundingBox), Ok st →
    forRunB ev v iv ks g items st idx = some (s2, evs, bb) → ForRun ev v iv ks items st idx s2 evs bb := by
  intro items
  induction items with
  | nil =>
    intro st idx s2 evs bb _ h
    simp only [forRunB, Option.some.injEq, Prod.mk.injEq] at h
    obtain ⟨rfl, rfl, rfl⟩ := h
    exact ForRun.done _ _
  | cons item items ih =>
    intro st idx s2 evs bb hok h
    unfold forRunB at h
    split at h
    · rename_i hh
      split at h
      · cases h
      · rename_i s1 evs1 b1 hft
        have hokb : Ok (bindForVars st v iv item idx) := ok_bindForVars st v iv item idx hok
        have hft' := FT_of_ftB ev g _ s1 ks evs1 b1 hokb hft
        split at h
        · rename_i hlim
          split at h
          · cases h
          · rename_i s2' evs' bb' hrec
            simp only [Option.some.injEq, Prod.mk.injEq] at h
            obtain ⟨rfl, rfl, rfl⟩ := h
            exact ForRun.pass hh.1 hh.2 hft' hlim (ih _ _ _ _ _ (FT_ok hft' hokb) hrec)
        · cases h
    · cases h

theorem forRun_exists_of_B (ev : Evalr ρ) (v : Str) (iv : Option Str) (ks : Nodes) (g : Nat) (items : List Str)
    (st : St ρ) (idx : Nat) (hok : Ok st) (h : (forRunB ev v iv ks g items st idx).isSome = true) :
    ∃ s2 evs bb, ForRun ev v iv ks items st idx s2 evs bb := by
  cases hr : forRunB ev v iv ks g items st idx with
  | none => rw [hr] at h; cases h
  | some x =>
    obtain ⟨s2, evs, bb⟩ := x
    exact ⟨s2, evs, bb, forRun_of_B ev v iv ks g items st idx s2 evs bb hok hr⟩


/-! ## (C) closed worked instances (kernel evaluation), evaluator `simpleEvalr` -/

namespace Unroll2Example
open UnrollExample

def rectAt (x y : Str) : Elem :=
  { name := cs!"rect", attrs := [(['x'], x), (['y'], y), (cs!"width", ['5']), (cs!"height", ['5'])] }

def varEl (k v : Str) : Elem := { name := cs!"var", attrs := [(k, v)] }

theorem lit0 : Lit simpleEvalr ['0'] := fun _ _ _ => rfl
theorem lit1 : Lit simpleEvalr ['1'] := fun _ _ _ => rfl
theorem lit10 : Lit simpleEvalr cs!"10" := fun _ _ _ => rfl
theorem lit20 : Lit simpleEvalr cs!"20" := fun _ _ _ => rfl

/-! ### `<if>` among siblings

  `<rect x="0"/> <if test="$t"> <rect x="7"/> <var t="0"/> </if> <rect x="20"/>` with `t = 1` beforehand, against
  `<rect x="0"/> <rect x="7"/> <var t="0"/> <rect x="20"/>`. -/
section If

def ifEl : Elem := { name := cs!"if", attrs := [(cs!"test", cs!"$t")] }
def ifBody : Nodes := .cons (.elem (rectAt ['7'] ['0']) none none) (.cons (.elem (varEl ['t'] ['0']) none none) .nil)
def ifPre : List Node := [.elem (rectAt ['0'] ['0']) none none]
def ifPost : List Node := [.elem (rectAt cs!"20" ['0']) none none]
def stIf : St Nat := { rng := 0, scopes := [{ vars := [(['t'], ['1'])] }] }
theorem stIf_ok : Ok stIf := ⟨rfl, by simp [stIf]⟩

theorem if_pre_some : (ftB simpleEvalr 8 stIf (Nodes.ofList ifPre)).isSome = true := by decide +kernel
def ifPreR := (ftB simpleEvalr 8 stIf (Nodes.ofList ifPre)).get if_pre_some
def ifS1 : St Nat := ifPreR.1
theorem if_pre : FT simpleEvalr stIf ifPre ifS1 ifPreR.2.1 ifPreR.2.2 := by
  have := FT_of_ftB_get simpleEvalr 8 stIf (Nodes.ofList ifPre) stIf_ok if_pre_some
  rwa [toList_ofList] at this

theorem if_all_some : (ftB simpleEvalr 20 stIf (Nodes.ofList (ifPre ++ ctlNode ifEl ifBody :: ifPost))).isSome = true := by
  decide +kernel
def ifAllR := (ftB simpleEvalr 20 stIf (Nodes.ofList (ifPre ++ ctlNode ifEl ifBody :: ifPost))).get if_all_some
theorem if_all : FT simpleEvalr stIf (ifPre ++ ctlNode ifEl ifBody :: ifPost) ifAllR.1 ifAllR.2.1 ifAllR.2.2 := by
  have := FT_of_ftB_get simpleEvalr 20 stIf _ stIf_ok if_all_some
  rwa [toList_ofList] at this

theorem if_body_some : (ftB simpleEvalr 8 (up ifS1) ifBody).isSome = true := by decide +kernel
def ifBodyR := (ftB simpleEvalr 8 (up ifS1) ifBody).get if_body_some
theorem if_body : FT simpleEvalr (up ifS1) ifBody.toList ifBodyR.1 ifBodyR.2.1 ifBodyR.2.2 :=
  FT_of_ftB_get simpleEvalr 8 (up ifS1) ifBody (ok_up (FT_ok if_pre stIf_ok)) if_body_some

theorem if_test : simpleEvalr.evalCondition ifS1.geo ifS1.env ifS1.rng cs!"$t" = .ok (true, ifS1.rng) := by
  decide +kernel

theorem if_nf : NF (processNodes simpleEvalr 20 stIf (Nodes.ofList (ifPre ++ ctlNode ifEl ifBody :: ifPost))) ∧
    NF (processNodes simpleEvalr 20 stIf (Nodes.ofList (ifPre ++ (ifBody.toList ++ ifPost)))) := by
  unfold NF; decide +kernel

/-- the theorem applied: same final state, same result -/
theorem if_is_body_in_place :
    processNodes simpleEvalr 20 stIf (Nodes.ofList (ifPre ++ ctlNode ifEl ifBody :: ifPost))
      = processNodes simpleEvalr 20 stIf (Nodes.ofList (ifPre ++ (ifBody.toList ++ ifPost))) :=
  (if_true_embedded simpleEvalr ifEl ifBody cs!"$t" ifPre ifPost stIf ifS1 _ _ _ _ _ _ _ _ stIf_ok if_pre if_all
    rfl rfl rfl rfl if_test if_body 20 20 if_nf.1 if_nf.2).1

/-- … computed independently by the kernel: three rectangles, in document order -/
theorem if_events :
    (processNodes simpleEvalr 20 stIf (Nodes.ofList (ifPre ++ ctlNode ifEl ifBody :: ifPost))).2
      = .ok ([Ev.empty (rectAt ['0'] ['0']), Ev.empty (rectAt ['7'] ['0']), Ev.empty (rectAt cs!"20" ['0'])],
          some ⟨0, 0, 25, 5⟩) := by
  decide +kernel

/-- the same sibling list with `t = 0`: the `<if>` renders nothing, as if it were not there -/
def stIf0 : St Nat := { rng := 0, scopes := [{ vars := [(['t'], ['0'])] }] }
theorem stIf0_ok : Ok stIf0 := ⟨rfl, by simp [stIf0]⟩

theorem if0_pre_some : (ftB simpleEvalr 8 stIf0 (Nodes.ofList ifPre)).isSome = true := by decide +kernel
def if0PreR := (ftB simpleEvalr 8 stIf0 (Nodes.ofList ifPre)).get if0_pre_some
theorem if0_pre : FT simpleEvalr stIf0 ifPre if0PreR.1 if0PreR.2.1 if0PreR.2.2 := by
  have := FT_of_ftB_get simpleEvalr 8 stIf0 (Nodes.ofList ifPre) stIf0_ok if0_pre_some
  rwa [toList_ofList] at this

theorem if0_all_some :
    (ftB simpleEvalr 20 stIf0 (Nodes.ofList (ifPre ++ ctlNode ifEl ifBody :: ifPost))).isSome = true := by
  decide +kernel
def if0AllR := (ftB simpleEvalr 20 stIf0 (Nodes.ofList (ifPre ++ ctlNode ifEl ifBody :: ifPost))).get if0_all_some
theorem if0_all : FT simpleEvalr stIf0 (ifPre ++ ctlNode ifEl ifBody :: ifPost) if0AllR.1 if0AllR.2.1 if0AllR.2.2 := by
  have := FT_of_ftB_get simpleEvalr 20 stIf0 _ stIf0_ok if0_all_some
  rwa [toList_ofList] at this

theorem if0_test :
    simpleEvalr.evalCondition if0PreR.1.geo if0PreR.1.env if0PreR.1.rng cs!"$t" = .ok (false, if0PreR.1.rng) := by
  decide +kernel

theorem if0_nf : NF (processNodes simpleEvalr 20 stIf0 (Nodes.ofList (ifPre ++ ctlNode ifEl ifBody :: ifPost))) ∧
    NF (processNodes simpleEvalr 20 stIf0 (Nodes.ofList (ifPre ++ ifPost))) := by
  unfold NF; decide +kernel

theorem if_false_is_nothing :
    processNodes simpleEvalr 20 stIf0 (Nodes.ofList (ifPre ++ ctlNode ifEl ifBody :: ifPost))
      = processNodes simpleEvalr 20 stIf0 (Nodes.ofList (ifPre ++ ifPost)) :=
  (if_false_embedded simpleEvalr ifEl ifBody cs!"$t" ifPre ifPost stIf0 if0PreR.1 _ _ _ _ _ stIf0_ok if0_pre if0_all
    rfl rfl rfl rfl if0_test 20 20 if0_nf.1 if0_nf.2).1

theorem if_false_events :
    (processNodes simpleEvalr 20 stIf0 (Nodes.ofList (ifPre ++ ctlNode ifEl ifBody :: ifPost))).2
      = .ok ([Ev.empty (rectAt ['0'] ['0']), Ev.empty (rectAt cs!"20" ['0'])], some ⟨0, 0, 25, 5⟩) := by
  decide +kernel

end If

/-! ### `<for>`

  `<for var="v" idx-var="i" data="10, 20"><rect x="$v" y="$i"/></for>` against
  `<var v="10" i="0"/><rect …/><var v="20" i="1"/><rect …/>`. -/
section For

def forEl : Elem := { name := cs!"for", attrs := [(cs!"var", ['v']), (cs!"idx-var", ['i']), (cs!"data", cs!"10, 20")] }
def forBody : Nodes := .cons (.elem (rectAt cs!"$v" cs!"$i") none none) .nil
def forItems : List Str := [cs!"10", cs!"20"]

theorem for_list : simpleEvalr.evalList st0.geo st0.env st0.rng cs!"10, 20" = .ok (forItems, st0.rng) := by
  decide +kernel

theorem for_legal_v : LegalVar ['v'] := by unfold LegalVar; decide
theorem for_legal_i : ∀ i, forEl.getAttr cs!"idx-var" = some i → LegalVar i := by
  intro i h
  have : i = ['i'] := by
    have h' : forEl.getAttr cs!"idx-var" = some ['i'] := by decide +kernel
    rw [h'] at h; exact (Option.some.inj h).symm
  subst this; unfold LegalVar; decide

theorem for_lit : ∀ a ∈ forItems, Lit simpleEvalr a := by
  intro a ha
  simp only [forItems, List.mem_cons, List.not_mem_nil, or_false] at ha
  rcases ha with rfl | rfl
  · exact lit10
  · exact lit20

theorem for_idx_lit : (forEl.getAttr cs!"idx-var").isSome = true → ∀ k, k < forItems.length →
    Lit simpleEvalr (Str.natToStr k) := by
  intro _ k hk
  have h0 : Str.natToStr 0 = ['0'] := by decide +kernel
  have h1 : Str.natToStr 1 = ['1'] := by decide +kernel
  simp only [forItems, List.length_cons, List.length_nil] at hk
  match k, hk with
  | 0, _ => rw [h0]; exact lit0
  | 1, _ => rw [h1]; exact lit1

theorem for_run_some : (forRunB simpleEvalr ['v'] (forEl.getAttr cs!"idx-var") forBody 8 forItems st0 0).isSome = true := by
  decide +kernel

theorem for_nf : NF (genFor simpleEvalr 20 st0 forEl (some forBody)) ∧
    NF (processNodes simpleEvalr 20 st0 (unrollFor ['v'] (forEl.getAttr cs!"idx-var") forItems 0 forBody)) := by
  unfold NF; decide +kernel

/-- the theorem applied: same final state, same result -/
theorem for_is_unrolling :
    genFor simpleEvalr 20 st0 forEl (some forBody)
      = processNodes simpleEvalr 20 st0 (unrollFor ['v'] (forEl.getAttr cs!"idx-var") forItems 0 forBody) := by
  obtain ⟨s2, evs, bb, hrun⟩ := forRun_exists_of_B simpleEvalr ['v'] (forEl.getAttr cs!"idx-var") forBody 8 forItems
    st0 0 st0_ok for_run_some
  exact (genFor_eq_unroll simpleEvalr forEl ['v'] cs!"10, 20" forBody st0 s2 forItems st0.rng evs bb rfl rfl for_list
    for_legal_v for_legal_i st0_ok for_lit for_idx_lit hrun 20 20 for_nf.1 for_nf.2).1

/-- the unrolled program, written out -/
theorem for_unrolled_is :
    (unrollFor ['v'] (forEl.getAttr cs!"idx-var") forItems 0 forBody).toList
      = [.elem { name := cs!"var", attrs := [(['v'], cs!"10"), (['i'], ['0'])] } none none,
         .elem (rectAt cs!"$v" cs!"$i") none none,
         .elem { name := cs!"var", attrs := [(['v'], cs!"20"), (['i'], ['1'])] } none none,
         .elem (rectAt cs!"$v" cs!"$i") none none] := by
  rfl

theorem for_events :
    (genFor simpleEvalr 20 st0 forEl (some forBody)).2
      = .ok ([Ev.empty (rectAt cs!"10" ['0']), Ev.empty (rectAt cs!"20" ['1'])], some ⟨10, 0, 25, 6⟩) := by
  decide +kernel

/-! … and among siblings: `<rect x="100"/> <for …>…</for> <rect x="200"/>` -/

def fPre : List Node := [.elem (rectAt cs!"100" ['0']) none none]
def fPost : List Node := [.elem (rectAt cs!"200" ['0']) none none]

theorem f_pre_some : (ftB simpleEvalr 8 st0 (Nodes.ofList fPre)).isSome = true := by decide +kernel
def fPreR := (ftB simpleEvalr 8 st0 (Nodes.ofList fPre)).get f_pre_some
theorem f_pre : FT simpleEvalr st0 fPre fPreR.1 fPreR.2.1 fPreR.2.2 := by
  have := FT_of_ftB_get simpleEvalr 8 st0 (Nodes.ofList fPre) st0_ok f_pre_some
  rwa [toList_ofList] at this

theorem f_all_some : (ftB simpleEvalr 24 st0 (Nodes.ofList (fPre ++ ctlNode forEl forBody :: fPost))).isSome = true := by
  decide +kernel
def fAllR := (ftB simpleEvalr 24 st0 (Nodes.ofList (fPre ++ ctlNode forEl forBody :: fPost))).get f_all_some
theorem f_all : FT simpleEvalr st0 (fPre ++ ctlNode forEl forBody :: fPost) fAllR.1 fAllR.2.1 fAllR.2.2 := by
  have := FT_of_ftB_get simpleEvalr 24 st0 _ st0_ok f_all_some
  rwa [toList_ofList] at this

theorem f_list : simpleEvalr.evalList fPreR.1.geo fPreR.1.env fPreR.1.rng cs!"10, 20" = .ok (forItems, fPreR.1.rng) := by
  decide +kernel

theorem f_run_some :
    (forRunB simpleEvalr ['v'] (forEl.getAttr cs!"idx-var") forBody 8 forItems (up fPreR.1) 0).isSome = true := by
  decide +kernel

theorem f_nf : NF (processNodes simpleEvalr 24 st0 (Nodes.ofList (fPre ++ ctlNode forEl forBody :: fPost))) ∧
    NF (processNodes simpleEvalr 24 st0 (Nodes.ofList
      (fPre ++ ((unrollFor ['v'] (forEl.getAttr cs!"idx-var") forItems 0 forBody).toList ++ fPost)))) := by
  unfold NF; decide +kernel

theorem embedded_for_is_unrolling :
    processNodes simpleEvalr 24 st0 (Nodes.ofList (fPre ++ ctlNode forEl forBody :: fPost))
      = processNodes simpleEvalr 24 st0 (Nodes.ofList
          (fPre ++ ((unrollFor ['v'] (forEl.getAttr cs!"idx-var") forItems 0 forBody).toList ++ fPost))) := by
  obtain ⟨S2, evs, bb, hrun⟩ := forRun_exists_of_B simpleEvalr ['v'] (forEl.getAttr cs!"idx-var") forBody 8 forItems
    (up fPreR.1) 0 (ok_up (FT_ok f_pre st0_ok)) f_run_some
  exact (for_embedded simpleEvalr forEl ['v'] cs!"10, 20" forBody forItems fPre fPost st0 fPreR.1 S2 _ _ evs _ _ bb _
    st0_ok f_pre f_all rfl rfl rfl rfl rfl f_list for_legal_v for_legal_i for_lit for_idx_lit hrun 24 24 f_nf.1 f_nf.2).1

end For

/-! ### `while`, with loop variable, as an ELEMENT

  `<loop while="$c" loop-var="i" step="10"><rect x="$i"/><var c="$d"/><var d="0"/></loop>` from `c = 1, d = 1`: the
  condition holds before passes 1 and 2 and fails before a third. Against
  `<var i="0"/> body <var i="10"/> body`. -/
section While

def whileEl : Elem :=
  { name := cs!"loop", attrs := [(cs!"while", cs!"$c"), (cs!"loop-var", ['i']), (cs!"step", cs!"10")] }
def whileBody : Nodes :=
  .cons (.elem (rectAt cs!"$i" ['0']) none none)
    (.cons (.elem (varEl ['c'] cs!"$d") none none) (.cons (.elem (varEl ['d'] ['0']) none none) .nil))
def stW : St Nat := { rng := 0, scopes := [{ vars := [(['c'], ['1']), (['d'], ['1'])] }] }
theorem stW_ok : Ok stW := ⟨rfl, by simp [stW]⟩

theorem while_head : loopHead simpleEvalr stW whileEl = .ok (none, ['i'], 0, 10, stW.rng) := by decide +kernel

theorem while_two_passes :
    (loopRunB simpleEvalr none (loopW whileEl none) (loopU whileEl none) ['i'] 10 whileBody 8 5 stW 0 0).map (·.1)
      = some 2 := by
  decide +kernel

theorem while_lit : LitEval simpleEvalr (loopVals 0 10 2) := by
  have h : (loopVals 0 10 2).map loopVarStr = [['0'], ['1', '0']] := by decide +kernel
  simp only [loopVals, List.map_cons, List.map_nil, List.cons.injEq, and_true] at h
  obtain ⟨h0, h1⟩ := h
  intro v hv geo env rng
  simp only [loopVals, List.mem_cons, List.not_mem_nil, or_false] at hv
  rcases hv with rfl | rfl
  · rw [h0]; rfl
  · rw [h1]; rfl

theorem while_nf : NF (genLoop simpleEvalr 20 stW whileEl (some whileBody)) ∧
    NF (processNodes simpleEvalr 20 stW (unrollG ['i'] (loopVals 0 10 2) whileBody)) := by
  unfold NF; decide +kernel

/-- the theorem applied: same final state, same result -/
theorem while_is_unrolling :
    genLoop simpleEvalr 20 stW whileEl (some whileBody)
      = processNodes simpleEvalr 20 stW (unrollG ['i'] (loopVals 0 10 2) whileBody) := by
  obtain ⟨s2, evs, bb, hrun⟩ := loopRun_exists_of_B simpleEvalr none (loopW whileEl none) (loopU whileEl none) ['i'] 10
    whileBody 8 5 stW 0 0 2 stW_ok while_two_passes
  exact (genLoop_eq_unrollG simpleEvalr whileEl none ['i'] 0 10 2 whileBody stW s2 stW.rng evs bb rfl while_head
    (Or.inr (by unfold LegalVar; decide)) stW_ok (Or.inr while_lit) hrun 20 20 while_nf.1 while_nf.2).1

theorem while_events :
    (genLoop simpleEvalr 20 stW whileEl (some whileBody)).2
      = .ok ([Ev.empty (rectAt ['0'] ['0']), Ev.empty (rectAt cs!"10" ['0'])], some ⟨0, 0, 15, 5⟩) := by
  decide +kernel

end While

/-! ### `until`, without loop variable

  `until="$c"` over `<rect x="5"/><var c="$d"/><var d="1"/>` from `c = 0, d = 0`: the condition is zero after pass 1 and
  non-zero after pass 2. Against the body written twice. -/
section Until

def untilBody : Nodes :=
  .cons (.elem (rectAt ['5'] ['0']) none none)
    (.cons (.elem (varEl ['c'] cs!"$d") none none) (.cons (.elem (varEl ['d'] ['1']) none none) .nil))
def stU : St Nat := { rng := 0, scopes := [{ vars := [(['c'], ['0']), (['d'], ['0'])] }] }
theorem stU_ok : Ok stU := ⟨rfl, by simp [stU]⟩

theorem until_two_passes :
    (loopRunB simpleEvalr none none (some cs!"$c") [] 1 untilBody 8 5 stU 0 0).map (·.1) = some 2 := by
  decide +kernel

theorem until_nf : NF (loopIter simpleEvalr 20 stU untilBody none none (some cs!"$c") [] 0 1 0 [] none) ∧
    NF (processNodes simpleEvalr 20 stU (unrollG [] (loopVals 0 1 2) untilBody)) := by
  unfold NF; decide +kernel

theorem until_is_unrolling :
    loopIter simpleEvalr 20 stU untilBody none none (some cs!"$c") [] 0 1 0 [] none
      = processNodes simpleEvalr 20 stU (unrollG [] (loopVals 0 1 2) untilBody) := by
  obtain ⟨s2, evs, bb, hrun⟩ := loopRun_exists_of_B simpleEvalr none none (some cs!"$c") [] 1 untilBody 8 5 stU 0 0 2
    stU_ok until_two_passes
  exact (loopRun_eq_unroll simpleEvalr none none (some cs!"$c") [] 0 1 2 untilBody stU s2 evs bb (Or.inl rfl) stU_ok
    (Or.inl rfl) hrun 20 20 until_nf.1 until_nf.2).1

/-- the unrolling of a loop without loop variable is the body, N times -/
theorem until_unrolled_is : (unrollG [] (loopVals 0 1 2) untilBody).toList = untilBody.toList ++ untilBody.toList := by
  rfl

theorem until_events :
    (loopIter simpleEvalr 20 stU untilBody none none (some cs!"$c") [] 0 1 0 [] none).2
      = .ok ([Ev.empty (rectAt ['5'] ['0']), Ev.empty (rectAt ['5'] ['0'])], some ⟨5, 0, 10, 5⟩) := by
  decide +kernel

end Until

/-! ### a count loop among siblings

  `<rect x="100"/> <loop count="3" loop-var="i" step="10"><rect x="$i"/></loop> <rect x="200"/>` against
  `<rect x="100"/> <var i="0"/><rect x="$i"/> <var i="10"/><rect x="$i"/> <var i="20"/><rect x="$i"/> <rect x="200"/>`. -/
section Embedded

def loopEl : Elem :=
  { name := cs!"loop", attrs := [(cs!"count", ['3']), (cs!"loop-var", ['i']), (cs!"step", cs!"10")] }
def ePre : List Node := [.elem (rectAt cs!"100" ['0']) none none]
def ePost : List Node := [.elem (rectAt cs!"200" ['0']) none none]

theorem e_pre_some : (ftB simpleEvalr 8 st0 (Nodes.ofList ePre)).isSome = true := by decide +kernel
def ePreR := (ftB simpleEvalr 8 st0 (Nodes.ofList ePre)).get e_pre_some
def eS1 : St Nat := ePreR.1
theorem e_pre : FT simpleEvalr st0 ePre eS1 ePreR.2.1 ePreR.2.2 := by
  have := FT_of_ftB_get simpleEvalr 8 st0 (Nodes.ofList ePre) st0_ok e_pre_some
  rwa [toList_ofList] at this

theorem e_all_some : (ftB simpleEvalr 24 st0 (Nodes.ofList (ePre ++ ctlNode loopEl body :: ePost))).isSome = true := by
  decide +kernel
def eAllR := (ftB simpleEvalr 24 st0 (Nodes.ofList (ePre ++ ctlNode loopEl body :: ePost))).get e_all_some
theorem e_all : FT simpleEvalr st0 (ePre ++ ctlNode loopEl body :: ePost) eAllR.1 eAllR.2.1 eAllR.2.2 := by
  have := FT_of_ftB_get simpleEvalr 24 st0 _ st0_ok e_all_some
  rwa [toList_ofList] at this

theorem e_head : loopHead simpleEvalr eS1 loopEl = .ok (some 3, ['i'], 0, 10, eS1.rng) := by decide +kernel

theorem e_three_passes :
    (loopRunB simpleEvalr (some 3) (loopW loopEl (some 3)) (loopU loopEl (some 3)) ['i'] 10 body 8 5 (up eS1) 0 0).map (·.1)
      = some 3 := by
  decide +kernel

theorem e_nf : NF (processNodes simpleEvalr 24 st0 (Nodes.ofList (ePre ++ ctlNode loopEl body :: ePost))) ∧
    NF (processNodes simpleEvalr 24 st0
      (Nodes.ofList (ePre ++ ((unrollG ['i'] (loopVals 0 10 3) body).toList ++ ePost)))) := by
  unfold NF; decide +kernel

/-- the theorem applied: same final state, same result -/
theorem embedded_loop_is_unrolling :
    processNodes simpleEvalr 24 st0 (Nodes.ofList (ePre ++ ctlNode loopEl body :: ePost))
      = processNodes simpleEvalr 24 st0
          (Nodes.ofList (ePre ++ ((unrollG ['i'] (loopVals 0 10 3) body).toList ++ ePost))) := by
  obtain ⟨S2, evs, bb, hrun⟩ := loopRun_exists_of_B simpleEvalr (some 3) (loopW loopEl (some 3)) (loopU loopEl (some 3))
    ['i'] 10 body 8 5 (up eS1) 0 0 3 (ok_up (FT_ok e_pre st0_ok)) e_three_passes
  exact (loop_embedded simpleEvalr loopEl (some 3) ['i'] 0 10 3 body ePre ePost st0 eS1 S2 _ _ evs _ _ bb _ st0_ok
    e_pre e_all rfl rfl rfl rfl e_head (Or.inr (by unfold LegalVar; decide)) (Or.inr litEval) hrun 24 24 e_nf.1 e_nf.2).1

theorem embedded_events :
    (processNodes simpleEvalr 24 st0 (Nodes.ofList (ePre ++ ctlNode loopEl body :: ePost))).2
      = .ok ([Ev.empty (rectAt cs!"100" ['0']), Ev.empty (rect ['0']), Ev.empty (rect cs!"10"), Ev.empty (rect cs!"20"),
          Ev.empty (rectAt cs!"200" ['0'])], some ⟨0, 0, 205, 5⟩) := by
  decide +kernel

end Embedded


/-! ### FINDINGS: where a control element and its manual unrolling differ in the model (closed counterexamples)

  Each is the reason for one hypothesis of the theorems above. -/
section Findings

/-- (F1) ATTRIBUTE ORDER of the unrolled `<var>`. `bindForVars` assigns the item variable, then the index variable;
    `<var v=… i=…/>` evaluates all right-hand sides in the pre-state and then assigns IN ATTRIBUTE ORDER. With the item
    variable first the two coincide (`genVar_forVar`); with `<var i="0" v="10"/>` every lookup still agrees, but the
    innermost scope lists the two variables in the other order — the final STATES differ (the environment handed to the
    evaluator is that list). The statement that is true is the one with `v` before `i`. -/
theorem for_var_order_matters :
    let swapped : Elem := { name := cs!"var", attrs := [(['i'], ['0']), (['v'], cs!"10")] }
    (genVar simpleEvalr st0 swapped).1.scopes.map (·.vars) ≠
        (bindForVars st0 ['v'] (some ['i']) cs!"10" 0).scopes.map (·.vars) ∧
    (genVar simpleEvalr st0 (forVarElem ['v'] (some ['i']) cs!"10" 0)).1.scopes.map (·.vars) =
        (bindForVars st0 ['v'] (some ['i']) cs!"10" 0).scopes.map (·.vars) ∧
    (genVar simpleEvalr st0 swapped).1.lookup ['v'] = (bindForVars st0 ['v'] (some ['i']) cs!"10" 0).lookup ['v'] ∧
    (genVar simpleEvalr st0 swapped).1.lookup ['i'] = (bindForVars st0 ['v'] (some ['i']) cs!"10" 0).lookup ['i'] := by
  decide +kernel

/-- (F2) `<for>` binds an item AS IT IS; `<var>` EVALUATES its right-hand side. For an item that is not a literal
    (here the text `$i`, with `i = 5`) the loop binds `v = "$i"` and the unrolling binds `v = "5"` — hence `Lit`. -/
theorem for_item_not_literal :
    let st : St Nat := { rng := 0, scopes := [{ vars := [(['i'], ['5'])] }] }
    (bindForVars st ['v'] none cs!"$i" 0).lookup ['v'] = some cs!"$i" ∧
    (genVar simpleEvalr st (forVarElem ['v'] none cs!"$i" 0)).1.lookup ['v'] = some ['5'] := by
  decide +kernel

/-- (F3) `var-limit` applies to `<var>` and not to the binding a `<for>` (or a `<loop>`) makes: with `var-limit = 1` the
    loop over the item `10` succeeds and its unrolling stops with `VarLimitError` — hence `ForHdrOk` / `HdrOk`. -/
theorem for_binds_beyond_var_limit :
    let st : St Nat := { rng := 0, scopes := [{}], cfg := { varLimit := 1 } }
    (forIter simpleEvalr 20 st .nil ['v'] none [cs!"10"] 0 [] none).2 = .ok ([], none) ∧
    (processNodes simpleEvalr 20 st (unrollFor ['v'] none [cs!"10"] 0 .nil)).2 = .error (.varLimit ['v'] 2 1) := by
  decide +kernel

/-- (F4) THE DEPTH LIMIT tells a loop from its unrolling: the body of a control element runs one level deeper than the
    copies written in place. With `depth-limit = 1`, `<loop count="1" …><rect/></loop>` stops with `DepthLimitExceeded`
    and its unrolling renders — hence the hypothesis that the LOOP version succeeds (not the unrolled one). -/
theorem depth_limit_distinguishes :
    let st : St Nat := { rng := 0, scopes := [{}], cfg := { depthLimit := 1 } }
    let loop1 : Elem := { name := cs!"loop", attrs := [(cs!"count", ['1']), (cs!"loop-var", ['i'])] }
    (processNodes simpleEvalr 24 st (Nodes.ofList [ctlNode loop1 body])).2 = .error (.depthLimit 2 1) ∧
    (processNodes simpleEvalr 24 st (unrollG ['i'] (loopVals 0 1 1) body)).2
      = .ok ([Ev.empty (rect ['0'])], some ⟨0, 0, 5, 5⟩) := by
  decide +kernel

/-- an evaluator whose conditions draw a random number -/
def drawEvalr : Evalr Nat :=
  { simpleEvalr with evalCondition := fun _ _ rng _ => .ok (true, rng + 1) }

/-- (F5) THE RANDOM STATE IS THREADED THROUGH THE TEST of an `<if>` (and of `while` / `until`, and through the head of
    `<loop>` / `<for>`): the element leaves the random state the test produced, the body written in place never sees it —
    hence "from the state the test leaves" in `genIf_true_eq`, and "the test draws nothing" in the embedding. -/
theorem if_test_rng_is_threaded :
    let ifE : Elem := { name := cs!"if", attrs := [(cs!"test", ['1'])] }
    (genIf drawEvalr 12 st0 ifE (some body)).1.rng = 1 ∧ (processNodes drawEvalr 12 st0 body).1.rng = 0 ∧
    (processNodes drawEvalr 12 { st0 with rng := 1 } body).1.rng = 1 := by
  decide +kernel

/-- (F6) AN `id` ON THE CONTROL ELEMENT is seen by `registerEarly`: `<loop id="x" …>` is recorded as a reuse template
    (and moves the generation counter), which no element of the unrolling does — hence `e.getAttr "id" = none`. -/
theorem id_on_loop_is_registered :
    let loopX : Elem := { name := cs!"loop", attrs := [(cs!"id", ['x']), (cs!"count", ['1']), (cs!"loop-var", ['i'])] }
    (processNodes simpleEvalr 24 st0 (Nodes.ofList [ctlNode loopX body])).1.originals.length = 1 ∧
    (processNodes simpleEvalr 24 st0 (unrollG ['i'] (loopVals 0 1 1) body)).1.originals.length = 0 ∧
    (processNodes simpleEvalr 24 st0 (Nodes.ofList [ctlNode loopX body])).2
      = (processNodes simpleEvalr 24 st0 (unrollG ['i'] (loopVals 0 1 1) body)).2 := by
  decide +kernel

/-- (F7) ELEMENT DEFAULTS APPLY TO THE `<var/>` OF THE UNROLLING: `apply_defaults` is run on every empty-element tag,
    svgdx's own elements included. With the default `<_ extra="1"/>` in force the unrolled `<var i="0"/>` becomes
    `<var i="0" extra="1"/>` and binds `extra` too; the loop binds its variable directly. Same events, different final
    states - hence `VarUntouched` in `FirstTryLoop` / `HdrOk` and `ForVarUntouched` in `ForRun`. -/
theorem defaults_reach_the_unrolled_var :
    let d : ElementMatch × Elem := defaultEntry (Elem.new ['_'] [(cs!"extra", ['1'])])
    let st : St Nat := { rng := 0, scopes := [{ defaults := [d] }] }
    let loop1 : Elem := { name := cs!"loop", attrs := [(cs!"count", ['1']), (cs!"loop-var", ['i'])] }
    ¬ VarUntouched st ['i'] 0 ∧
    (processNodes simpleEvalr 24 st (Nodes.ofList [ctlNode loop1 body])).1.lookup cs!"extra" = none ∧
    (processNodes simpleEvalr 24 st (unrollG ['i'] (loopVals 0 1 1) body)).1.lookup cs!"extra" = some ['1'] ∧
    (processNodes simpleEvalr 24 st (Nodes.ofList [ctlNode loop1 body])).2
      = (processNodes simpleEvalr 24 st (unrollG ['i'] (loopVals 0 1 1) body)).2 := by
  decide +kernel

end Findings

end Unroll2Example

end Svgdx.Ctl

/-! ## (P) the Props-level statements (what `Svgdx/Props/C16.lean` can claim in addition) -/

namespace Svgdx.Props.C16x
open Svgdx Ctl Gen
variable {ρ : Type}

/-! ### `<if>` -/

/-- **`<if>` renders its body exactly when its test is non-zero — true test**: the element is its body's sibling list
    processed in place: same final state, same events, same box. The test's effect on the random state is threaded: the
    body starts from the state the test leaves. Holds on all fuels on which neither side reports the fuel error. -/
theorem if_true_equals_body (ev : Evalr ρ) (e : Elem) (ks : Nodes) (st : St ρ) (test : Str) (rng : ρ)
    (ht : e.getAttr cs!"test" = some test)
    (hc : ev.evalCondition st.geo st.env st.rng test = .ok (true, rng))
    (fI fP : Nat) (hI : NF (genIf ev fI st e (some ks))) (hP : NF (processNodes ev fP { st with rng := rng } ks)) :
    genIf ev fI st e (some ks) = processNodes ev fP { st with rng := rng } ks :=
  genIf_true_eq ev e ks st test rng ht hc fI fP hI hP

/-- **… false test**: the element is the empty sibling list: nothing is rendered, no box, and the state is the one the
    test leaves -/
theorem if_false_equals_nothing (ev : Evalr ρ) (e : Elem) (ks : Nodes) (st : St ρ) (test : Str) (rng : ρ)
    (ht : e.getAttr cs!"test" = some test)
    (hc : ev.evalCondition st.geo st.env st.rng test = .ok (false, rng))
    (fI fP : Nat) (hI : NF (genIf ev fI st e (some ks))) (hP : NF (processNodes ev fP { st with rng := rng } .nil)) :
    genIf ev fI st e (some ks) = processNodes ev fP { st with rng := rng } .nil ∧
    genIf ev fI st e (some ks) = ({ st with rng := rng }, .ok ([], none)) :=
  genIf_false_eq ev e ks st test rng ht hc fI fP hI hP

/-- **replacing an `<if>` (true test) by its body gives the same output**: the sibling lists `pre ++ [<if>] ++ post` and
    `pre ++ body ++ post` give the same final state, events (document order) and box. Premises: the version with the
    `<if>` runs first-try (`hall`), so does the body where it runs, one level deeper (`hbody`), the test draws no random
    number (`hc`), no `id` / `clip-path` on the `<if>`. -/
theorem if_true_among_siblings (ev : Evalr ρ) (e : Elem) (ks : Nodes) (test : Str) (pre post : List Node)
    (st s1 S2 s3 : St ρ) (e1 evs eall : List Ev) (b1 b ball : Option BoundingBox)
    (hok : Ok st) (hpre : FT ev st pre s1 e1 b1)
    (hall : FT ev st (pre ++ ctlNode e ks :: post) s3 eall ball)
    (hname : e.name = cs!"if") (hid : e.getAttr cs!"id" = none) (hclip : e.getAttr cs!"clip-path" = none)
    (ht : e.getAttr cs!"test" = some test)
    (hc : ev.evalCondition s1.geo s1.env s1.rng test = .ok (true, s1.rng))
    (hbody : FT ev (up s1) ks.toList S2 evs b)
    (fL fU : Nat) (hL : NF (processNodes ev fL st (Nodes.ofList (pre ++ ctlNode e ks :: post))))
    (hU : NF (processNodes ev fU st (Nodes.ofList (pre ++ (ks.toList ++ post))))) :
    processNodes ev fL st (Nodes.ofList (pre ++ ctlNode e ks :: post))
      = processNodes ev fU st (Nodes.ofList (pre ++ (ks.toList ++ post))) ∧
    processNodes ev fL st (Nodes.ofList (pre ++ ctlNode e ks :: post)) = (s3, .ok (eall, ball)) :=
  if_true_embedded ev e ks test pre post st s1 S2 s3 e1 evs eall b1 b ball hok hpre hall hname hid hclip ht hc hbody
    fL fU hL hU

/-- **replacing an `<if>` (false test) by nothing gives the same output** -/
theorem if_false_among_siblings (ev : Evalr ρ) (e : Elem) (ks : Nodes) (test : Str) (pre post : List Node)
    (st s1 s3 : St ρ) (e1 eall : List Ev) (b1 ball : Option BoundingBox)
    (hok : Ok st) (hpre : FT ev st pre s1 e1 b1)
    (hall : FT ev st (pre ++ ctlNode e ks :: post) s3 eall ball)
    (hname : e.name = cs!"if") (hid : e.getAttr cs!"id" = none) (hclip : e.getAttr cs!"clip-path" = none)
    (ht : e.getAttr cs!"test" = some test)
    (hc : ev.evalCondition s1.geo s1.env s1.rng test = .ok (false, s1.rng))
    (fL fU : Nat) (hL : NF (processNodes ev fL st (Nodes.ofList (pre ++ ctlNode e ks :: post))))
    (hU : NF (processNodes ev fU st (Nodes.ofList (pre ++ post)))) :
    processNodes ev fL st (Nodes.ofList (pre ++ ctlNode e ks :: post))
      = processNodes ev fU st (Nodes.ofList (pre ++ post)) ∧
    processNodes ev fL st (Nodes.ofList (pre ++ ctlNode e ks :: post)) = (s3, .ok (eall, ball)) :=
  if_false_embedded ev e ks test pre post st s1 s3 e1 eall b1 ball hok hpre hall hname hid hclip ht hc fL fU hL hU

/-! ### `<for>` -/

/-- **`<for>` binds each list item (and optional index) in turn, and renders what its unrolling renders**: the
    iteration over `items` and the sibling list `<var v="a₀" i="0"/> body <var v="a₁" i="1"/> body …` (item variable
    first, then the index variable) give the same final state, events and box. Premises: legal variable names, a
    well-formed state, items and indices are literals for the evaluator, `ForRun` (every element of every copy succeeds at
    its first attempt; the values fit `var-limit`; loop and depth limits not hit). -/
theorem for_equals_unrolling (ev : Evalr ρ) (v : Str) (iv : Option Str) (items : List Str) (ks : Nodes) (st s2 : St ρ)
    (evs : List Ev) (bb : Option BoundingBox)
    (hv : LegalVar v) (hi : ∀ i, iv = some i → LegalVar i) (hok : Ok st)
    (hlit : ∀ a ∈ items, Lit ev a) (hidx : iv.isSome = true → ∀ k, k < items.length → Lit ev (Str.natToStr k))
    (hrun : ForRun ev v iv ks items st 0 s2 evs bb)
    (fL fU : Nat)
    (hL : NF (forIter ev fL st ks v iv items 0 [] none))
    (hU : NF (processNodes ev fU st (unrollFor v iv items 0 ks))) :
    forIter ev fL st ks v iv items 0 [] none = processNodes ev fU st (unrollFor v iv items 0 ks) ∧
    forIter ev fL st ks v iv items 0 [] none = (s2, .ok (evs, bb)) :=
  for_eq_unroll ev v iv items ks st s2 evs bb hv hi hok hlit hidx hrun fL fU hL hU

/-- … and the fuel hypotheses can be met -/
theorem for_and_unrolling_succeed (ev : Evalr ρ) (v : Str) (iv : Option Str) (items : List Str) (ks : Nodes)
    (st s2 : St ρ) (evs : List Ev) (bb : Option BoundingBox)
    (hv : LegalVar v) (hi : ∀ i, iv = some i → LegalVar i) (hok : Ok st)
    (hlit : ∀ a ∈ items, Lit ev a) (hidx : iv.isSome = true → ∀ k, k < items.length → Lit ev (Str.natToStr k))
    (hrun : ForRun ev v iv ks items st 0 s2 evs bb) :
    ∃ F, ∀ f, F ≤ f → NF (forIter ev f st ks v iv items 0 [] none) ∧
      NF (processNodes ev f st (unrollFor v iv items 0 ks)) :=
  for_unroll_fuel_exists ev v iv items ks st s2 evs bb hv hi hok hlit hidx hrun

/-- the same for the `<for>` ELEMENT with its `var`, `idx-var`, `data` attributes; the random state left by the
    evaluation of `data` is threaded -/
theorem for_element_equals_unrolling (ev : Evalr ρ) (e : Elem) (v d : Str) (ks : Nodes) (st s2 : St ρ)
    (items : List Str) (rng : ρ) (evs : List Ev) (bb : Option BoundingBox)
    (hvar : e.getAttr cs!"var" = some v) (hdata : e.getAttr cs!"data" = some d)
    (hlist : ev.evalList st.geo st.env st.rng d = .ok (items, rng))
    (hv : LegalVar v) (hi : ∀ i, e.getAttr cs!"idx-var" = some i → LegalVar i) (hok : Ok st)
    (hlit : ∀ a ∈ items, Lit ev a)
    (hidx : (e.getAttr cs!"idx-var").isSome = true → ∀ k, k < items.length → Lit ev (Str.natToStr k))
    (hrun : ForRun ev v (e.getAttr cs!"idx-var") ks items { st with rng := rng } 0 s2 evs bb)
    (fL fU : Nat)
    (hL : NF (genFor ev fL st e (some ks)))
    (hU : NF (processNodes ev fU { st with rng := rng } (unrollFor v (e.getAttr cs!"idx-var") items 0 ks))) :
    genFor ev fL st e (some ks)
      = processNodes ev fU { st with rng := rng } (unrollFor v (e.getAttr cs!"idx-var") items 0 ks) ∧
    genFor ev fL st e (some ks) = (s2, .ok (evs, bb)) :=
  genFor_eq_unroll ev e v d ks st s2 items rng evs bb hvar hdata hlist hv hi hok hlit hidx hrun fL fU hL hU

/-- **replacing a `<for>` by its unrolling gives the same output** -/
theorem for_among_siblings (ev : Evalr ρ) (e : Elem) (v d : Str) (ks : Nodes) (items : List Str) (pre post : List Node)
    (st s1 S2 s3 : St ρ) (e1 evs eall : List Ev) (b1 bb ball : Option BoundingBox)
    (hok : Ok st) (hpre : FT ev st pre s1 e1 b1)
    (hall : FT ev st (pre ++ ctlNode e ks :: post) s3 eall ball)
    (hname : e.name = cs!"for") (hid : e.getAttr cs!"id" = none) (hclip : e.getAttr cs!"clip-path" = none)
    (hvar : e.getAttr cs!"var" = some v) (hdata : e.getAttr cs!"data" = some d)
    (hlist : ev.evalList s1.geo s1.env s1.rng d = .ok (items, s1.rng))
    (hv : LegalVar v) (hi : ∀ i, e.getAttr cs!"idx-var" = some i → LegalVar i)
    (hlit : ∀ a ∈ items, Lit ev a)
    (hidx : (e.getAttr cs!"idx-var").isSome = true → ∀ k, k < items.length → Lit ev (Str.natToStr k))
    (hrun : ForRun ev v (e.getAttr cs!"idx-var") ks items (up s1) 0 S2 evs bb)
    (fL fU : Nat) (hL : NF (processNodes ev fL st (Nodes.ofList (pre ++ ctlNode e ks :: post))))
    (hU : NF (processNodes ev fU st
      (Nodes.ofList (pre ++ ((unrollFor v (e.getAttr cs!"idx-var") items 0 ks).toList ++ post))))) :
    processNodes ev fL st (Nodes.ofList (pre ++ ctlNode e ks :: post))
      = processNodes ev fU st
          (Nodes.ofList (pre ++ ((unrollFor v (e.getAttr cs!"idx-var") items 0 ks).toList ++ post))) ∧
    processNodes ev fL st (Nodes.ofList (pre ++ ctlNode e ks :: post)) = (s3, .ok (eall, ball)) :=
  for_embedded ev e v d ks items pre post st s1 S2 s3 e1 evs eall b1 bb ball hok hpre hall hname hid hclip hvar hdata
    hlist hv hi hlit hidx hrun fL fU hL hU

/-! ### `<loop>`: `while`, `until` (and `count` again), with or without loop variable -/

/-- **`while` repeats as long as its condition is non-zero, tested before each pass — and renders what N copies of the
    body render**, N being the number of passes before which the condition held: under the trace hypothesis
    `LoopRun ev none (some w) none …` (built by `LoopRun.while_pass` — condition non-zero in the state reached, the pass
    runs first-try — and `LoopRun.while_stop` — condition zero; the condition draws no random number), the loop and the N
    copies (each preceded by `<var name="value"/>` if there is a loop variable) give the same final state, events, box -/
theorem while_loop_equals_unrolling (ev : Evalr ρ) (w : Str) (name : Str) (start step : Rat) (N : Nat)
    (ks : Nodes) (st s2 : St ρ) (evs : List Ev) (bb : Option BoundingBox)
    (hname : LegalOrNone name) (hok : Ok st) (hev : name = [] ∨ LitEval ev (loopVals start step N))
    (hrun : LoopRun ev none (some w) none name step ks N st start 0 s2 evs bb)
    (fL fU : Nat)
    (hL : NF (loopIter ev fL st ks none (some w) none name start step 0 [] none))
    (hU : NF (processNodes ev fU st (unrollG name (loopVals start step N) ks))) :
    loopIter ev fL st ks none (some w) none name start step 0 [] none
      = processNodes ev fU st (unrollG name (loopVals start step N) ks) ∧
    loopIter ev fL st ks none (some w) none name start step 0 [] none = (s2, .ok (evs, bb)) :=
  loopRun_eq_unroll ev none (some w) none name start step N ks st s2 evs bb hname hok hev hrun fL fU hL hU

/-- **`until` repeats until its condition is non-zero, tested after each pass and so at least once — and renders what
    N copies of the body render**, N ≥ 1 being the number of the pass after which the condition first held
    (`LoopRun.until_pass`, `LoopRun.until_last`) -/
theorem until_loop_equals_unrolling (ev : Evalr ρ) (u : Str) (name : Str) (start step : Rat) (N : Nat)
    (ks : Nodes) (st s2 : St ρ) (evs : List Ev) (bb : Option BoundingBox)
    (hname : LegalOrNone name) (hok : Ok st) (hev : name = [] ∨ LitEval ev (loopVals start step N))
    (hrun : LoopRun ev none none (some u) name step ks N st start 0 s2 evs bb)
    (fL fU : Nat)
    (hL : NF (loopIter ev fL st ks none none (some u) name start step 0 [] none))
    (hU : NF (processNodes ev fU st (unrollG name (loopVals start step N) ks))) :
    loopIter ev fL st ks none none (some u) name start step 0 [] none
      = processNodes ev fU st (unrollG name (loopVals start step N) ks) ∧
    loopIter ev fL st ks none none (some u) name start step 0 [] none = (s2, .ok (evs, bb)) :=
  loopRun_eq_unroll ev none none (some u) name start step N ks st s2 evs bb hname hok hev hrun fL fU hL hU

/-- an `until` run makes at least one pass -/
theorem until_at_least_once (ev : Evalr ρ) (u : Str) (name : Str) (step : Rat) (N : Nat) (ks : Nodes) (st s2 : St ρ)
    (v : Rat) (it : Nat) (evs : List Ev) (bb : Option BoundingBox)
    (hrun : LoopRun ev none none (some u) name step ks N st v it s2 evs bb) : 1 ≤ N := by
  cases hrun with
  | stop h => simp [preTest] at h
  | last => exact Nat.le_refl 1
  | pass => omega

/-- the `<loop>` ELEMENT in any mode, head attributes evaluated (random state threaded) -/
theorem loop_element_any_mode_equals_unrolling (ev : Evalr ρ) (e : Elem) (cnt : Option Nat) (name : Str)
    (start step : Rat) (N : Nat) (ks : Nodes) (st s2 : St ρ) (rng : ρ) (evs : List Ev) (bb : Option BoundingBox)
    (htype : ((e.getAttr cs!"count").isSome || (e.getAttr cs!"while").isSome || (e.getAttr cs!"until").isSome) = true)
    (hhead : loopHead ev st e = .ok (cnt, name, start, step, rng))
    (hname : LegalOrNone name) (hok : Ok st) (hev : name = [] ∨ LitEval ev (loopVals start step N))
    (hrun : LoopRun ev cnt (loopW e cnt) (loopU e cnt) name step ks N { st with rng := rng } start 0 s2 evs bb)
    (fL fU : Nat)
    (hL : NF (genLoop ev fL st e (some ks)))
    (hU : NF (processNodes ev fU { st with rng := rng } (unrollG name (loopVals start step N) ks))) :
    genLoop ev fL st e (some ks)
      = processNodes ev fU { st with rng := rng } (unrollG name (loopVals start step N) ks) ∧
    genLoop ev fL st e (some ks) = (s2, .ok (evs, bb)) :=
  genLoop_eq_unrollG ev e cnt name start step N ks st s2 rng evs bb htype hhead hname hok hev hrun fL fU hL hU

/-- … and the fuel hypotheses can be met -/
theorem loop_and_unrolling_succeed (ev : Evalr ρ) (cnt : Option Nat) (w u : Option Str) (name : Str) (start step : Rat)
    (N : Nat) (ks : Nodes) (st s2 : St ρ) (evs : List Ev) (bb : Option BoundingBox)
    (hname : LegalOrNone name) (hok : Ok st) (hev : name = [] ∨ LitEval ev (loopVals start step N))
    (hrun : LoopRun ev cnt w u name step ks N st start 0 s2 evs bb) :
    ∃ F, ∀ f, F ≤ f → NF (loopIter ev f st ks cnt w u name start step 0 [] none) ∧
      NF (processNodes ev f st (unrollG name (loopVals start step N) ks)) :=
  loopRun_unroll_fuel_exists ev cnt w u name start step N ks st s2 evs bb hname hok hev hrun

/-! ### the embedding -/

/-- **replacing a `<loop>` (any mode) by its unrolling gives the same output**: `pre ++ [<loop>] ++ post` and
    `pre ++ copies ++ post` give the same final state, the same events (flattened, in document order — the tag indices of
    `post` shift by the number of inserted nodes and do not matter), the same box. Premises: the version with the loop
    runs first-try (`hall`: so the depth limit is not hit, although the body runs one level deeper than the copies), the
    trace hypothesis in the states actually reached (`hrun`, at depth + 1), the head draws no random number, no `id` /
    `clip-path` on the `<loop>`. -/
theorem loop_among_siblings (ev : Evalr ρ) (e : Elem) (cnt : Option Nat) (name : Str) (start step : Rat) (N : Nat)
    (ks : Nodes) (pre post : List Node) (st s1 S2 s3 : St ρ) (e1 evs eall : List Ev) (b1 bb ball : Option BoundingBox)
    (hok : Ok st) (hpre : FT ev st pre s1 e1 b1)
    (hall : FT ev st (pre ++ ctlNode e ks :: post) s3 eall ball)
    (hname' : e.name = cs!"loop") (hid : e.getAttr cs!"id" = none) (hclip : e.getAttr cs!"clip-path" = none)
    (htype : ((e.getAttr cs!"count").isSome || (e.getAttr cs!"while").isSome || (e.getAttr cs!"until").isSome) = true)
    (hhead : loopHead ev s1 e = .ok (cnt, name, start, step, s1.rng))
    (hname : LegalOrNone name) (hev : name = [] ∨ LitEval ev (loopVals start step N))
    (hrun : LoopRun ev cnt (loopW e cnt) (loopU e cnt) name step ks N (up s1) start 0 S2 evs bb)
    (fL fU : Nat) (hL : NF (processNodes ev fL st (Nodes.ofList (pre ++ ctlNode e ks :: post))))
    (hU : NF (processNodes ev fU st
      (Nodes.ofList (pre ++ ((unrollG name (loopVals start step N) ks).toList ++ post))))) :
    processNodes ev fL st (Nodes.ofList (pre ++ ctlNode e ks :: post))
      = processNodes ev fU st (Nodes.ofList (pre ++ ((unrollG name (loopVals start step N) ks).toList ++ post))) ∧
    processNodes ev fL st (Nodes.ofList (pre ++ ctlNode e ks :: post)) = (s3, .ok (eall, ball)) :=
  loop_embedded ev e cnt name start step N ks pre post st s1 S2 s3 e1 evs eall b1 bb ball hok hpre hall hname' hid hclip
    htype hhead hname hev hrun fL fU hL hU

/-- the general principle behind the four "among siblings" statements, with its fuel clause -/
theorem replacement_among_siblings {ev : Evalr ρ} {st s1 s2 s3 : St ρ} {pre post ms : List Node} {n : Node}
    {e1 evs eall : List Ev} {b1 b ball : Option BoundingBox} (hok : Ok st)
    (hpre : FT ev st pre s1 e1 b1) (h : Repl ev s1 n ms s2 evs b) (hall : FT ev st (pre ++ n :: post) s3 eall ball) :
    (∀ fL fU, NF (processNodes ev fL st (Nodes.ofList (pre ++ n :: post))) →
      NF (processNodes ev fU st (Nodes.ofList (pre ++ (ms ++ post)))) →
      processNodes ev fL st (Nodes.ofList (pre ++ n :: post))
        = processNodes ev fU st (Nodes.ofList (pre ++ (ms ++ post)))) ∧
    ∃ F, ∀ f, F ≤ f → NF (processNodes ev f st (Nodes.ofList (pre ++ n :: post))) ∧
      NF (processNodes ev f st (Nodes.ofList (pre ++ (ms ++ post)))) :=
  ⟨fun fL fU hL hU => (processNodes_embed hok hpre h hall fL fU hL hU).1, processNodes_embed_fuel hok hpre h hall⟩

/-- **the nesting depth is not observable until its limit is hit**: a sibling list processed one level deeper, if it does
    not end in the depth-limit error, is processed exactly as at the level itself (same result, same state but for the
    depth counter) -/
theorem depth_not_observable (ev : Evalr ρ) (f : Nat) (st : St ρ) (ks : Nodes) (hs : st.scopes ≠ [])
    (hnd : ND (processNodes ev f (up st) ks)) :
    processNodes ev f (up st) ks = upR (processNodes ev f st ks) :=
  processNodes_depth_shift ev f st ks hs hnd

end Svgdx.Props.C16x

#print axioms Svgdx.Ctl.FT_det
#print axioms Svgdx.Ctl.FT_unshift
#print axioms Svgdx.Ctl.processNodes_replace
#print axioms Svgdx.Ctl.genIf_true_eq
#print axioms Svgdx.Ctl.genIf_false_eq
#print axioms Svgdx.Ctl.if_true_repl
#print axioms Svgdx.Ctl.if_false_repl
#print axioms Svgdx.Ctl.genVar_forVar
#print axioms Svgdx.Ctl.for_eq_unroll
#print axioms Svgdx.Ctl.for_unroll_fuel_exists
#print axioms Svgdx.Ctl.genFor_eq_unroll
#print axioms Svgdx.Ctl.for_repl
#print axioms Svgdx.Ctl.loopRun_eq_unroll
#print axioms Svgdx.Ctl.loopRun_unroll_fuel_exists
#print axioms Svgdx.Ctl.loopRun_of_passes
#print axioms Svgdx.Ctl.genLoop_eq_unrollG
#print axioms Svgdx.Ctl.loop_repl
#print axioms Svgdx.Ctl.repl_tail_nonempty
#print axioms Svgdx.Ctl.repl_tail_empty
#print axioms Svgdx.Ctl.if_true_embedded
#print axioms Svgdx.Ctl.if_false_embedded
#print axioms Svgdx.Ctl.for_embedded
#print axioms Svgdx.Ctl.loop_embedded
#print axioms Svgdx.Ctl.processNodes_embed_fuel
#print axioms Svgdx.Ctl.loopRun_of_B
#print axioms Svgdx.Ctl.forRun_of_B
#print axioms Svgdx.Ctl.Unroll2Example.if_is_body_in_place
#print axioms Svgdx.Ctl.Unroll2Example.if_events
#print axioms Svgdx.Ctl.Unroll2Example.if_false_is_nothing
#print axioms Svgdx.Ctl.Unroll2Example.if_false_events
#print axioms Svgdx.Ctl.Unroll2Example.for_is_unrolling
#print axioms Svgdx.Ctl.Unroll2Example.for_events
#print axioms Svgdx.Ctl.Unroll2Example.embedded_for_is_unrolling
#print axioms Svgdx.Ctl.Unroll2Example.while_is_unrolling
#print axioms Svgdx.Ctl.Unroll2Example.while_events
#print axioms Svgdx.Ctl.Unroll2Example.until_is_unrolling
#print axioms Svgdx.Ctl.Unroll2Example.until_events
#print axioms Svgdx.Ctl.Unroll2Example.embedded_loop_is_unrolling
#print axioms Svgdx.Ctl.Unroll2Example.embedded_events
#print axioms Svgdx.Ctl.Unroll2Example.for_var_order_matters
#print axioms Svgdx.Ctl.Unroll2Example.for_item_not_literal
#print axioms Svgdx.Ctl.Unroll2Example.for_binds_beyond_var_limit
#print axioms Svgdx.Ctl.Unroll2Example.depth_limit_distinguishes
#print axioms Svgdx.Ctl.Unroll2Example.if_test_rng_is_threaded
#print axioms Svgdx.Ctl.Unroll2Example.id_on_loop_is_registered
#print axioms Svgdx.Props.C16x.if_true_equals_body
#print axioms Svgdx.Props.C16x.if_false_equals_nothing
#print axioms Svgdx.Props.C16x.if_true_among_siblings
#print axioms Svgdx.Props.C16x.if_false_among_siblings
#print axioms Svgdx.Props.C16x.for_equals_unrolling
#print axioms Svgdx.Props.C16x.for_and_unrolling_succeed
#print axioms Svgdx.Props.C16x.for_element_equals_unrolling
#print axioms Svgdx.Props.C16x.for_among_siblings
#print axioms Svgdx.Props.C16x.while_loop_equals_unrolling
#print axioms Svgdx.Props.C16x.until_loop_equals_unrolling
#print axioms Svgdx.Props.C16x.until_at_least_once
#print axioms Svgdx.Props.C16x.loop_element_any_mode_equals_unrolling
#print axioms Svgdx.Props.C16x.loop_and_unrolling_succeed
#print axioms Svgdx.Props.C16x.loop_among_siblings
#print axioms Svgdx.Props.C16x.replacement_among_siblings
#print axioms Svgdx.Props.C16x.depth_not_observable
