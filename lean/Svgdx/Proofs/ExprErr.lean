/-
  Svgdx.Proofs.ExprErr — error direction: whenever the conventional denotation of a tree is an error,
  the evaluator run on the printed tree does not produce a value either.  At the levels below a
  delimiter the evaluator may first hand back a non-numeric value in front of an operator it did not
  consume ("stuck"); the enclosing `( … )`, function call or end of input then rejects it.
-/
import Svgdx.Proofs.ExprTop
namespace Svgdx
namespace Expr
open Str

section
variable {α σ : Type}

def BadE {β : Type} (r : Res (β × List (Token α) × σ)) : Prop := ∃ e, r = .error e

/-- an error, or a non-number in front of an unconsumed operator -/
def BadV (r : Res (Value α × List (Token α) × σ)) : Prop :=
  (∃ e, r = .error e) ∨
    ∃ v ts st e, r = .ok (v, ts, st) ∧ v.oneNumber = .error e ∧ 3 ≤ headLevel ts

/-- an error, or anything in front of an unconsumed operator -/
def BadL (r : Res (Value α × List (Token α) × σ)) : Prop :=
  (∃ e, r = .error e) ∨ ∃ v ts st, r = .ok (v, ts, st) ∧ 3 ≤ headLevel ts

theorem parseLogOp_of_cmp (s : Str) (h : (parseCmpOp s).isSome) : parseLogOp s = none := by
  unfold parseCmpOp at h
  simp only [Gen.ComparisonOp.names, assoc] at h
  repeat' split at h
  all_goals first
    | (rename_i hs; have hs' := eq_of_beq hs; subst hs'; rfl)
    | simp at h

variable (o : Ops α σ) (lk : Lookup α σ) (elref : Str → Res α)

/-- the `and/or/xor` loop does not touch an operator of a tighter level -/
theorem logicalLoop_stuck (k : Nat) (ck : List Str) (acc : Value α) (ts : List (Token α)) (st : σ)
    (h : 3 ≤ headLevel ts) :
    logicalLoop o lk elref (k + 1) ck acc ts st = .ok (acc, ts, st) := by
  cases ts with
  | nil => simp [headLevel] at h
  | cons t r =>
    cases t with
    | symbol s =>
      have hl : parseLogOp s = none := by
        apply parseLogOp_of_cmp
        simp [headLevel, tokLevel] at h
        split at h
        · assumption
        · split at h <;> omega
      simp [logicalLoop, hl]
    | _ => simp [logicalLoop]

theorem exprListLoop_stuck_ne_comma (ts : List (Token α)) (h : 3 ≤ headLevel ts) :
    ∀ r, ts ≠ .comma :: r := by
  intro r hr
  subst hr
  simp [headLevel, tokLevel] at h

theorem BadV.of_error {e : Err} : BadV (α := α) (σ := σ) (.error e) := Or.inl ⟨e, rfl⟩
theorem BadL.of_error {e : Err} : BadL (α := α) (σ := σ) (.error e) := Or.inl ⟨e, rfl⟩

mutual
theorem primary_err (p : Prim α) (ck : List Str) (st : σ) (e : Err) (rest : List (Token α))
    (fuel : Nat) (hd : dPrim o lk elref p ck st = .error e) (hf : szPrim p ≤ fuel) :
    BadE (primary o lk elref fuel ck (pPrim p ++ rest) st) := by
  cases p with
  | num x => simp [dPrim] at hd
  | str s => simp [dPrim] at hd
  | var x =>
    obtain ⟨k, rfl, _⟩ := succ_of_le (n := 0) (by simpa [szPrim] using hf)
    simp [dPrim] at hd
    exact ⟨e, by simp [pPrim, primary, hd]⟩
  | elref x =>
    obtain ⟨k, rfl, _⟩ := succ_of_le (n := 0) (by simpa [szPrim] using hf)
    cases he : elref x with
    | error e' => exact ⟨e', by simp [pPrim, primary, he]⟩
    | ok y => simp [dPrim, he] at hd
  | paren a =>
    obtain ⟨k, rfl, hk⟩ := succ_of_le (n := szArgs a) (by simpa [szPrim] using hf)
    simp [dPrim] at hd
    rcases args_err a ck st e rest k hd hk with ⟨e', he'⟩ | ⟨v, ts, st1, hok, hlev⟩
    · exact ⟨e', by simp [pPrim, primary, he']⟩
    · refine ⟨.parse, ?_⟩
      cases ts with
      | nil => simp [pPrim, primary, hok]
      | cons t r => cases t <;> simp_all [pPrim, primary, headLevel, tokLevel]
  | neg q =>
    obtain ⟨k, rfl, hk⟩ := succ_of_le (n := szPrim q) (by simpa [szPrim] using hf)
    cases hq : dPrim o lk elref q ck st with
    | error e' =>
      obtain ⟨e'', he''⟩ := primary_err q ck st e' rest k hq hk
      exact ⟨e'', by simp [pPrim, primary, he'']⟩
    | ok r =>
      obtain ⟨v1, st1⟩ := r
      have ih := primary_ok o lk elref q ck st st1 v1 rest k hq hk
      cases hn : v1.oneNumber with
      | error e' => exact ⟨e', by simp [pPrim, primary, ih, hn]⟩
      | ok x => simp [dPrim, hq, hn] at hd
  | call f a =>
    obtain ⟨k, rfl, hk⟩ := succ_of_le (n := szArgs a) (by simpa [szPrim] using hf)
    cases ha : dArgs o lk elref a ck st with
    | error e' =>
      rcases args_err a ck st e' rest k ha hk with ⟨e'', he''⟩ | ⟨v, ts, st1, hok, hlev⟩
      · exact ⟨e'', by simp [pPrim, primary, parseFunction_name, he'']⟩
      · cases hfn : evalFunction o f v st1 with
        | error e'' => exact ⟨e'', by simp [pPrim, primary, parseFunction_name, hok, hfn]⟩
        | ok r2 =>
          refine ⟨.parse, ?_⟩
          cases ts with
          | nil => simp [pPrim, primary, parseFunction_name, hok, hfn]
          | cons t r =>
            cases t <;> simp_all [pPrim, primary, parseFunction_name, headLevel, tokLevel]
    | ok r =>
      obtain ⟨args, st1⟩ := r
      simp [dPrim, ha] at hd
      have ih := args_ok o lk elref a ck st st1 args rest k ha hk
      exact ⟨e, by simp [pPrim, primary, parseFunction_name, ih, hd]⟩

theorem factorLoop_err (tl : MulTail α) (ck : List Str) (acc : α) (st : σ) (e : Err)
    (rest : List (Token α)) (fuel : Nat)
    (hd : dMulTail o lk elref acc tl ck st = .error e) (hf : szMulTail tl ≤ fuel)
    (hr : headLevel rest < 5) :
    BadE (factorLoop o lk elref fuel ck acc (pMulTail tl ++ rest) st) := by
  cases tl with
  | nil => simp [dMulTail] at hd
  | cons op p tl =>
    obtain ⟨k, rfl, hk⟩ := succ_of_le (n := szPrim p + szMulTail tl) (by simpa [szMulTail] using hf)
    cases hp : dPrim o lk elref p ck st with
    | error e' =>
      obtain ⟨e'', he''⟩ := primary_err p ck st e' (pMulTail tl ++ rest) k hp (by omega)
      exact ⟨e'', by cases op <;> simp_all [pMulTail, factorLoop, MulOp.tok]⟩
    | ok r =>
      obtain ⟨v1, st1⟩ := r
      have ih1 := primary_ok o lk elref p ck st st1 v1 (pMulTail tl ++ rest) k hp (by omega)
      cases hn : v1.oneNumber with
      | error e' => exact ⟨e', by cases op <;> simp_all [pMulTail, factorLoop, MulOp.tok]⟩
      | ok x =>
        simp [dMulTail, hp, hn] at hd
        obtain ⟨e'', he''⟩ := factorLoop_err tl ck (op.apply o acc x) st1 e rest k hd (by omega) hr
        exact ⟨e'', by cases op <;> simp_all [pMulTail, factorLoop, MulOp.tok, MulOp.apply]⟩

theorem factor_err (f : Fact α) (ck : List Str) (st : σ) (e : Err) (rest : List (Token α))
    (fuel : Nat) (hd : dFact o lk elref f ck st = .error e) (hf : szFact f ≤ fuel)
    (hr : headLevel rest < 5) :
    BadV (factor o lk elref fuel ck (pFact f ++ rest) st) := by
  cases f with
  | mk p tl =>
    obtain ⟨k, rfl, hk⟩ := succ_of_le (n := szPrim p + szMulTail tl) (by simpa [szFact] using hf)
    cases hp : dPrim o lk elref p ck st with
    | error e' =>
      obtain ⟨e'', he''⟩ := primary_err p ck st e' (pMulTail tl ++ rest) k hp (by omega)
      exact Or.inl ⟨e'', by simp [pFact, List.append_assoc, factor, he'']⟩
    | ok r =>
      obtain ⟨v1, st1⟩ := r
      have ih1 := primary_ok o lk elref p ck st st1 v1 (pMulTail tl ++ rest) k hp (by omega)
      cases hn : v1.oneNumber with
      | error e' =>
        cases tl with
        | nil => simp [dFact, hp, hn] at hd
        | cons op q tl =>
          refine Or.inr ⟨v1, pMulTail (.cons op q tl) ++ rest, st1, e', ?_, hn, ?_⟩
          · simp [pFact, List.append_assoc, factor, ih1, hn]
          · cases op <;> simp [pMulTail, headLevel, tokLevel, MulOp.tok]
      | ok x =>
        cases ht : dMulTail o lk elref x tl ck st1 with
        | error e' =>
          obtain ⟨e'', he''⟩ := factorLoop_err tl ck x st1 e' rest k ht (by omega) hr
          exact Or.inl ⟨e'', by simp [pFact, List.append_assoc, factor, ih1, hn, he'']⟩
        | ok r2 => obtain ⟨y, st2⟩ := r2; simp [dFact, hp, hn, ht] at hd

theorem termLoop_err (tl : AddTail α) (ck : List Str) (acc : α) (st : σ) (e : Err)
    (rest : List (Token α)) (fuel : Nat)
    (hd : dAddTail o lk elref acc tl ck st = .error e) (hf : szAddTail tl ≤ fuel)
    (hr : headLevel rest < 4) :
    BadE (termLoop o lk elref fuel ck acc (pAddTail tl ++ rest) st) := by
  cases tl with
  | nil => simp [dAddTail] at hd
  | cons isAdd f tl =>
    obtain ⟨k, rfl, hk⟩ := succ_of_le (n := szFact f + szAddTail tl) (by simpa [szAddTail] using hf)
    cases hp : dFact o lk elref f ck st with
    | error e' =>
      rcases factor_err f ck st e' (pAddTail tl ++ rest) k hp (by omega)
        (headLevel_addTail tl rest hr) with ⟨e'', he''⟩ | ⟨v, ts, st1, e'', hok, hnn, _⟩
      · exact ⟨e'', by cases isAdd <;> simp_all [pAddTail, termLoop]⟩
      · exact ⟨e'', by cases isAdd <;> simp_all [pAddTail, termLoop]⟩
    | ok r =>
      obtain ⟨v1, st1⟩ := r
      have ih1 := factor_ok o lk elref f ck st st1 v1 (pAddTail tl ++ rest) k hp (by omega)
        (headLevel_addTail tl rest hr)
      cases hn : v1.oneNumber with
      | error e' => exact ⟨e', by cases isAdd <;> simp_all [pAddTail, termLoop]⟩
      | ok x =>
        simp [dAddTail, hp, hn] at hd
        obtain ⟨e'', he''⟩ := termLoop_err tl ck _ st1 e rest k hd (by omega) hr
        exact ⟨e'', by cases isAdd <;> simp_all [pAddTail, termLoop]⟩

theorem term_err (t : Term α) (ck : List Str) (st : σ) (e : Err) (rest : List (Token α))
    (fuel : Nat) (hd : dTerm o lk elref t ck st = .error e) (hf : szTerm t ≤ fuel)
    (hr : headLevel rest < 4) :
    BadV (term o lk elref fuel ck (pTerm t ++ rest) st) := by
  cases t with
  | mk f tl =>
    obtain ⟨k, rfl, hk⟩ := succ_of_le (n := szFact f + szAddTail tl) (by simpa [szTerm] using hf)
    cases hp : dFact o lk elref f ck st with
    | error e' =>
      rcases factor_err f ck st e' (pAddTail tl ++ rest) k hp (by omega)
        (headLevel_addTail tl rest hr) with ⟨e'', he''⟩ | ⟨v, ts, st1, e'', hok, hnn, hlev⟩
      · exact Or.inl ⟨e'', by simp [pTerm, List.append_assoc, term, he'']⟩
      · exact Or.inr ⟨v, ts, st1, e'', by simp [pTerm, List.append_assoc, term, hok, hnn], hnn, hlev⟩
    | ok r =>
      obtain ⟨v1, st1⟩ := r
      have ih1 := factor_ok o lk elref f ck st st1 v1 (pAddTail tl ++ rest) k hp (by omega)
        (headLevel_addTail tl rest hr)
      cases hn : v1.oneNumber with
      | error e' =>
        cases tl with
        | nil => simp [dTerm, hp, hn] at hd
        | cons b q tl =>
          refine Or.inr ⟨v1, pAddTail (.cons b q tl) ++ rest, st1, e', ?_, hn, ?_⟩
          · simp [pTerm, List.append_assoc, term, ih1, hn]
          · cases b <;> simp [pAddTail, headLevel, tokLevel]
      | ok x =>
        cases ht : dAddTail o lk elref x tl ck st1 with
        | error e' =>
          obtain ⟨e'', he''⟩ := termLoop_err tl ck x st1 e' rest k ht (by omega) hr
          exact Or.inl ⟨e'', by simp [pTerm, List.append_assoc, term, ih1, hn, he'']⟩
        | ok r2 => obtain ⟨y, st2⟩ := r2; simp [dTerm, hp, hn, ht] at hd

theorem comparison_err (c : Cmp α) (ck : List Str) (st : σ) (e : Err) (rest : List (Token α))
    (fuel : Nat) (hd : dCmp o lk elref c ck st = .error e) (hf : szCmp c ≤ fuel)
    (hr : headLevel rest < 3) :
    BadV (comparison o lk elref fuel ck (pCmp c ++ rest) st) := by
  cases c with
  | single t =>
    obtain ⟨k, rfl, hk⟩ := succ_of_le (n := szTerm t) (by simpa [szCmp] using hf)
    cases hp : dTerm o lk elref t ck st with
    | error e' =>
      rcases term_err t ck st e' rest k hp hk (by omega) with
        ⟨e'', he''⟩ | ⟨v, ts, st1, e'', hok, hnn, hlev⟩
      · exact Or.inl ⟨e'', by simp [pCmp, comparison, he'']⟩
      · exact Or.inr ⟨v, ts, st1, e'', by simp [pCmp, comparison, hok, hnn], hnn, hlev⟩
    | ok r => simp [dCmp, hp] at hd
  | pair t op t2 =>
    obtain ⟨k, rfl, hk⟩ := succ_of_le (n := szTerm t + szTerm t2) (by simpa [szCmp] using hf)
    have hlv : headLevel (Token.symbol op.name :: (pTerm t2 ++ rest)) < 4 := by
      simp [headLevel, tokLevel_cmp]
    cases hp : dTerm o lk elref t ck st with
    | error e' =>
      rcases term_err t ck st e' (.symbol op.name :: (pTerm t2 ++ rest)) k hp (by omega) hlv with
        ⟨e'', he''⟩ | ⟨v, ts, st1, e'', hok, hnn, hlev⟩
      · exact Or.inl ⟨e'', by simp [pCmp, List.append_assoc, comparison, he'']⟩
      · exact Or.inr ⟨v, ts, st1, e'',
          by simp [pCmp, List.append_assoc, comparison, hok, hnn], hnn, hlev⟩
    | ok r =>
      obtain ⟨v1, st1⟩ := r
      have ih1 := term_ok o lk elref t ck st st1 v1 (.symbol op.name :: (pTerm t2 ++ rest)) k hp
        (by omega) hlv
      cases hn : v1.oneNumber with
      | error e' =>
        refine Or.inr ⟨v1, .symbol op.name :: (pTerm t2 ++ rest), st1, e', ?_, hn, ?_⟩
        · simp [pCmp, List.append_assoc, comparison, ih1, hn]
        · simp [headLevel, tokLevel_cmp]
      | ok a =>
        cases hp2 : dTerm o lk elref t2 ck st1 with
        | error e' =>
          rcases term_err t2 ck st1 e' rest k hp2 (by omega) (by omega) with
            ⟨e'', he''⟩ | ⟨v, ts, st2, e'', hok, hnn, hlev⟩
          · exact Or.inl ⟨e'', by
              simp [pCmp, List.append_assoc, comparison, ih1, hn, parseCmpOp_name, he'']⟩
          · exact Or.inl ⟨e'', by
              simp [pCmp, List.append_assoc, comparison, ih1, hn, parseCmpOp_name, hok, hnn]⟩
        | ok r2 =>
          obtain ⟨v2, st2⟩ := r2
          have ih2 := term_ok o lk elref t2 ck st1 st2 v2 rest k hp2 (by omega) (by omega)
          cases hn2 : v2.oneNumber with
          | error e' => exact Or.inl ⟨e', by
              simp [pCmp, List.append_assoc, comparison, ih1, hn, parseCmpOp_name, ih2, hn2]⟩
          | ok b => simp [dCmp, hp, hn, hp2, hn2] at hd

theorem logicalLoop_err (tl : LogTail α) (ck : List Str) (acc : Value α) (st : σ) (e : Err)
    (rest : List (Token α)) (fuel : Nat)
    (hd : dLogTail o lk elref acc tl ck st = .error e) (hf : szLogTail tl ≤ fuel)
    (hr : headLevel rest < 2) :
    BadE (logicalLoop o lk elref fuel ck acc (pLogTail tl ++ rest) st) := by
  cases tl with
  | nil => simp [dLogTail] at hd
  | cons op c tl =>
    obtain ⟨k, rfl, hk⟩ := succ_of_le (n := szCmp c + szLogTail tl) (by simpa [szLogTail] using hf)
    cases hp : dCmp o lk elref c ck st with
    | error e' =>
      rcases comparison_err c ck st e' (pLogTail tl ++ rest) k hp (by omega)
        (headLevel_logTail tl rest hr) with ⟨e'', he''⟩ | ⟨v, ts, st1, e'', hok, hnn, _⟩
      · exact ⟨e'', by simp [pLogTail, List.append_assoc, logicalLoop, parseLogOp_name, he'']⟩
      · exact ⟨e'', by
          simp [pLogTail, List.append_assoc, logicalLoop, parseLogOp_name, hok, hnn]⟩
    | ok r =>
      obtain ⟨v1, st1⟩ := r
      have ih1 := comparison_ok o lk elref c ck st st1 v1 (pLogTail tl ++ rest) k hp (by omega)
        (headLevel_logTail tl rest hr)
      cases hn : v1.oneNumber with
      | error e' => exact ⟨e', by
          simp [pLogTail, List.append_assoc, logicalLoop, parseLogOp_name, ih1, hn]⟩
      | ok b =>
        cases ha : acc.oneNumber with
        | error e' => exact ⟨e', by
            simp [pLogTail, List.append_assoc, logicalLoop, parseLogOp_name, ih1, hn, ha]⟩
        | ok a =>
          simp [dLogTail, hp, hn, ha] at hd
          obtain ⟨e'', he''⟩ := logicalLoop_err tl ck _ st1 e rest k hd (by omega) hr
          exact ⟨e'', by
            simp [pLogTail, List.append_assoc, logicalLoop, parseLogOp_name, ih1, hn, ha, he'']⟩

theorem logical_err (x : Logic α) (ck : List Str) (st : σ) (e : Err) (rest : List (Token α))
    (fuel : Nat) (hd : dLogic o lk elref x ck st = .error e) (hf : szLogic x ≤ fuel)
    (hr : headLevel rest < 2) :
    BadL (logical o lk elref fuel ck (pLogic x ++ rest) st) := by
  cases x with
  | mk c tl =>
    obtain ⟨k, rfl, hk⟩ := succ_of_le (n := szCmp c + szLogTail tl) (by simpa [szLogic] using hf)
    cases hp : dCmp o lk elref c ck st with
    | error e' =>
      rcases comparison_err c ck st e' (pLogTail tl ++ rest) k hp (by omega)
        (headLevel_logTail tl rest hr) with ⟨e'', he''⟩ | ⟨v, ts, st1, e'', hok, hnn, hlev⟩
      · exact Or.inl ⟨e'', by simp [pLogic, List.append_assoc, logical, he'']⟩
      · obtain ⟨j, rfl, _⟩ := succ_of_le (n := 0) (m := k) (by
          have : 1 ≤ szLogTail tl := by cases tl <;> simp [szLogTail]
          omega)
        have hs := logicalLoop_stuck o lk elref j ck v ts st1 hlev
        exact Or.inr ⟨v, ts, st1, by simp [pLogic, List.append_assoc, logical, hok, hs], hlev⟩
    | ok r =>
      obtain ⟨v1, st1⟩ := r
      simp [dLogic, hp] at hd
      have ih1 := comparison_ok o lk elref c ck st st1 v1 (pLogTail tl ++ rest) k hp (by omega)
        (headLevel_logTail tl rest hr)
      obtain ⟨e'', he''⟩ := logicalLoop_err tl ck v1 st1 e rest k hd (by omega) hr
      exact Or.inl ⟨e'', by simp [pLogic, List.append_assoc, logical, ih1, he'']⟩

theorem etail_err (tl : ETail α) (ck : List Str) (out : List (Atom α)) (v1 : Value α) (e : Err)
    (ts rest : List (Token α)) (st st1 : σ) (k : Nat)
    (h1 : logical o lk elref k ck ts st = .ok (v1, pETail tl ++ rest, st1))
    (hd : dETail o lk elref (out ++ v1.flatten) tl ck st1 = .error e)
    (hf : szETail tl ≤ k) (hr : headLevel rest < 1) :
    BadL (exprListLoop o lk elref (k + 1) ck out ts st) := by
  cases tl with
  | nil => simp [dETail] at hd
  | cons x tl =>
    obtain ⟨j, rfl, hj⟩ := succ_of_le (n := szLogic x + szETail tl) (by simpa [szETail] using hf)
    simp [pETail, List.append_assoc] at h1
    cases hp : dLogic o lk elref x ck st1 with
    | error e' =>
      rcases logical_err x ck st1 e' (pETail tl ++ rest) j hp (by omega)
        (headLevel_eTail tl rest hr) with ⟨e'', he''⟩ | ⟨v, ts2, st2, hok, hlev⟩
      · refine Or.inl ⟨e'', ?_⟩
        rw [exprListLoop, h1]
        simp [exprListLoop, he'']
      · refine Or.inr ⟨.list ((out ++ v1.flatten) ++ v.flatten), ts2, st2, ?_, hlev⟩
        rw [exprListLoop, h1]
        cases ts2 with
        | nil => simp [headLevel] at hlev
        | cons t r =>
          cases t <;> simp_all [exprListLoop, headLevel, tokLevel]
    | ok r =>
      obtain ⟨v2, st2⟩ := r
      simp [dETail, hp] at hd
      have ihl := logical_ok o lk elref x ck st1 st2 v2 (pETail tl ++ rest) j hp (by omega)
        (headLevel_eTail tl rest hr)
      have ih2 := etail_err tl ck (out ++ v1.flatten) v2 e (pLogic x ++ (pETail tl ++ rest)) rest
        st1 st2 j ihl (by simpa [List.append_assoc] using hd) (by omega) hr
      rw [exprListLoop, h1]
      exact ih2

theorem elist_err (l : EList α) (ck : List Str) (st : σ) (e : Err) (rest : List (Token α))
    (fuel : Nat) (hd : dEList o lk elref l ck st = .error e) (hf : szEList l ≤ fuel)
    (hr : headLevel rest < 1) :
    BadL (exprListLoop o lk elref fuel ck [] (pEList l ++ rest) st) := by
  cases l with
  | mk x tl =>
    obtain ⟨k, rfl, hk⟩ := succ_of_le (n := szLogic x + szETail tl) (by simpa [szEList] using hf)
    cases hp : dLogic o lk elref x ck st with
    | error e' =>
      rcases logical_err x ck st e' (pETail tl ++ rest) k hp (by omega)
        (headLevel_eTail tl rest hr) with ⟨e'', he''⟩ | ⟨v, ts2, st2, hok, hlev⟩
      · exact Or.inl ⟨e'', by simp [pEList, List.append_assoc, exprListLoop, he'']⟩
      · refine Or.inr ⟨.list ([] ++ v.flatten), ts2, st2, ?_, hlev⟩
        cases ts2 with
        | nil => simp [headLevel] at hlev
        | cons t r =>
          cases t <;> simp_all [pEList, List.append_assoc, exprListLoop, headLevel, tokLevel]
    | ok r =>
      obtain ⟨v1, st1⟩ := r
      simp [dEList, hp] at hd
      have ihl := logical_ok o lk elref x ck st st1 v1 (pETail tl ++ rest) k hp (by omega)
        (headLevel_eTail tl rest hr)
      have := etail_err tl ck [] v1 e (pLogic x ++ (pETail tl ++ rest)) rest st st1 k ihl
        (by simpa using hd) (by omega) hr
      simpa [pEList, List.append_assoc] using this

theorem args_err (a : Args α) (ck : List Str) (st : σ) (e : Err) (rest : List (Token α))
    (fuel : Nat) (hd : dArgs o lk elref a ck st = .error e) (hf : szArgs a ≤ fuel) :
    BadL (exprList o lk elref fuel ck true (pArgs a ++ .closeParen :: rest) st) := by
  cases a with
  | none => simp [dArgs] at hd
  | some l =>
    obtain ⟨k, rfl, hk⟩ := succ_of_le (n := szEList l) (by simpa [szArgs] using hf)
    simp [dArgs] at hd
    have ih := elist_err l ck st e (.closeParen :: rest) k hd hk (by simp [headLevel, tokLevel])
    rw [pArgs, exprList_not_close o lk elref k ck true _ st (isClose_pEList l _)]
    exact ih
end

/-- `evaluate` on the printed form of a comma list whose denotation is an error: an error -/
theorem evaluate_print_err (l : EList α) (ck : List Str) (st : σ) (e : Err)
    (hd : dEList o lk elref l ck st = .error e) :
    ∃ e', evaluate o lk elref ck (pEList l) st = .error e' := by
  have hsz := szEList_le l
  obtain ⟨k, hk, hle⟩ := succ_of_le (n := szEList l) (m := fuelFor (pEList l))
    (by simp [fuelFor]; omega)
  have h := elist_err o lk elref l ck st e [] k hd hle (by simp [headLevel])
  simp only [List.append_nil] at h
  have hne := isClose_pEList l []
  simp only [List.append_nil] at hne
  unfold evaluate
  rw [hk, exprList_not_close o lk elref k ck false _ st hne]
  rcases h with ⟨e', he'⟩ | ⟨v, ts, st1, hok, hlev⟩
  · exact ⟨e', by simp [he']⟩
  · refine ⟨.parse, ?_⟩
    cases ts with
    | nil => simp [headLevel] at hlev
    | cons t r => simp [hok]

end
end Expr
end Svgdx
