/-
  Svgdx.Proofs.ExprOk — success direction: whenever the conventional denotation of a tree is a value,
  the evaluator run on the printed tree (followed by any admissible rest) returns that value, the rest,
  and the same state of the random source.  Fuel = size of the tree.
-/
import Svgdx.Proofs.Expr
namespace Svgdx
namespace Expr
open Str

section
variable {α σ : Type} (o : Ops α σ) (lk : Lookup α σ) (elref : Str → Res α)

theorem headLevel_addTail (tl : AddTail α) (rest : List (Token α)) (h : headLevel rest < 4) :
    headLevel (pAddTail tl ++ rest) < 5 := by
  cases tl with
  | nil => simpa [pAddTail] using Nat.lt_succ_of_lt h
  | cons isAdd f tl => cases isAdd <;> simp [pAddTail, headLevel, tokLevel]

theorem headLevel_logTail (tl : LogTail α) (rest : List (Token α)) (h : headLevel rest < 2) :
    headLevel (pLogTail tl ++ rest) < 3 := by
  cases tl with
  | nil => simpa [pLogTail] using Nat.lt_succ_of_lt h
  | cons op c tl => simp [pLogTail, headLevel, tokLevel_log]

theorem headLevel_eTail (tl : ETail α) (rest : List (Token α)) (h : headLevel rest < 1) :
    headLevel (pETail tl ++ rest) < 2 := by
  cases tl with
  | nil => simpa [pETail] using Nat.lt_succ_of_lt h
  | cons e tl => simp [pETail, headLevel, tokLevel]

mutual
theorem primary_ok (p : Prim α) (ck : List Str) (st st' : σ) (v : Value α) (rest : List (Token α))
    (fuel : Nat) (hd : dPrim o lk elref p ck st = .ok (v, st')) (hf : szPrim p ≤ fuel) :
    primary o lk elref fuel ck (pPrim p ++ rest) st = .ok (v, rest, st') := by
  cases p with
  | num x =>
    obtain ⟨k, rfl, _⟩ := succ_of_le (n := 0) (by simpa [szPrim] using hf)
    simp [dPrim] at hd
    obtain ⟨rfl, rfl⟩ := hd
    simp [pPrim, primary]
  | str s =>
    obtain ⟨k, rfl, _⟩ := succ_of_le (n := 0) (by simpa [szPrim] using hf)
    simp [dPrim] at hd
    obtain ⟨rfl, rfl⟩ := hd
    simp [pPrim, primary]
  | var x =>
    obtain ⟨k, rfl, _⟩ := succ_of_le (n := 0) (by simpa [szPrim] using hf)
    simp [dPrim] at hd
    simp [pPrim, primary, hd]
  | elref x =>
    obtain ⟨k, rfl, _⟩ := succ_of_le (n := 0) (by simpa [szPrim] using hf)
    cases he : elref x with
    | error e => simp [dPrim, he] at hd
    | ok y =>
      simp [dPrim, he] at hd
      obtain ⟨rfl, rfl⟩ := hd
      simp [pPrim, primary, he]
  | paren a =>
    obtain ⟨k, rfl, hk⟩ := succ_of_le (n := szArgs a) (by simpa [szPrim] using hf)
    simp [dPrim] at hd
    have ih := args_ok a ck st st' v rest k hd hk
    simp [pPrim, primary, ih]
  | neg q =>
    obtain ⟨k, rfl, hk⟩ := succ_of_le (n := szPrim q) (by simpa [szPrim] using hf)
    cases hq : dPrim o lk elref q ck st with
    | error e => simp [dPrim, hq] at hd
    | ok r =>
      obtain ⟨v1, st1⟩ := r
      have ih := primary_ok q ck st st1 v1 rest k hq hk
      cases hn : v1.oneNumber with
      | error e => simp [dPrim, hq, hn] at hd
      | ok x =>
        simp [dPrim, hq, hn] at hd
        obtain ⟨rfl, rfl⟩ := hd
        simp [pPrim, primary, ih, hn]
  | call f a =>
    obtain ⟨k, rfl, hk⟩ := succ_of_le (n := szArgs a) (by simpa [szPrim] using hf)
    cases ha : dArgs o lk elref a ck st with
    | error e => simp [dPrim, ha] at hd
    | ok r =>
      obtain ⟨args, st1⟩ := r
      simp [dPrim, ha] at hd
      have ih := args_ok a ck st st1 args rest k ha hk
      simp [pPrim, primary, parseFunction_name, ih, hd]

theorem factorLoop_ok (tl : MulTail α) (ck : List Str) (acc y : α) (st st' : σ)
    (rest : List (Token α)) (fuel : Nat)
    (hd : dMulTail o lk elref acc tl ck st = .ok (y, st')) (hf : szMulTail tl ≤ fuel)
    (hr : headLevel rest < 5) :
    factorLoop o lk elref fuel ck acc (pMulTail tl ++ rest) st = .ok (y, rest, st') := by
  cases tl with
  | nil =>
    obtain ⟨k, rfl, _⟩ := succ_of_le (n := 0) (by simpa [szMulTail] using hf)
    simp [dMulTail] at hd
    obtain ⟨rfl, rfl⟩ := hd
    simpa [pMulTail] using factorLoop_stop o lk elref k ck acc rest st hr
  | cons op p tl =>
    obtain ⟨k, rfl, hk⟩ := succ_of_le (n := szPrim p + szMulTail tl) (by simpa [szMulTail] using hf)
    cases hp : dPrim o lk elref p ck st with
    | error e => simp [dMulTail, hp] at hd
    | ok r =>
      obtain ⟨v1, st1⟩ := r
      have ih1 := primary_ok p ck st st1 v1 (pMulTail tl ++ rest) k hp (by omega)
      cases hn : v1.oneNumber with
      | error e => simp [dMulTail, hp, hn] at hd
      | ok x =>
        simp [dMulTail, hp, hn] at hd
        have ih2 := factorLoop_ok tl ck (op.apply o acc x) y st1 st' rest k hd (by omega) hr
        cases op <;> simp_all [pMulTail, factorLoop, MulOp.tok, MulOp.apply]

theorem factor_ok (f : Fact α) (ck : List Str) (st st' : σ) (v : Value α) (rest : List (Token α))
    (fuel : Nat) (hd : dFact o lk elref f ck st = .ok (v, st')) (hf : szFact f ≤ fuel)
    (hr : headLevel rest < 5) :
    factor o lk elref fuel ck (pFact f ++ rest) st = .ok (v, rest, st') := by
  cases f with
  | mk p tl =>
    obtain ⟨k, rfl, hk⟩ := succ_of_le (n := szPrim p + szMulTail tl) (by simpa [szFact] using hf)
    cases hp : dPrim o lk elref p ck st with
    | error e => simp [dFact, hp] at hd
    | ok r =>
      obtain ⟨v1, st1⟩ := r
      have ih1 := primary_ok p ck st st1 v1 (pMulTail tl ++ rest) k hp (by omega)
      cases hn : v1.oneNumber with
      | error e =>
        cases tl with
        | nil =>
          simp [dFact, hp, hn] at hd
          obtain ⟨rfl, rfl⟩ := hd
          simp [pFact, pMulTail] at ih1 ⊢
          simp [factor, ih1, hn]
        | cons op q tl => simp [dFact, hp, hn] at hd
      | ok x =>
        cases ht : dMulTail o lk elref x tl ck st1 with
        | error e => simp [dFact, hp, hn, ht] at hd
        | ok r2 =>
          obtain ⟨y, st2⟩ := r2
          simp [dFact, hp, hn, ht] at hd
          obtain ⟨rfl, rfl⟩ := hd
          have ih2 := factorLoop_ok tl ck x y st1 st2 rest k ht (by omega) hr
          simp [pFact, List.append_assoc, factor, ih1, hn, ih2]

theorem termLoop_ok (tl : AddTail α) (ck : List Str) (acc y : α) (st st' : σ)
    (rest : List (Token α)) (fuel : Nat)
    (hd : dAddTail o lk elref acc tl ck st = .ok (y, st')) (hf : szAddTail tl ≤ fuel)
    (hr : headLevel rest < 4) :
    termLoop o lk elref fuel ck acc (pAddTail tl ++ rest) st = .ok (y, rest, st') := by
  cases tl with
  | nil =>
    obtain ⟨k, rfl, _⟩ := succ_of_le (n := 0) (by simpa [szAddTail] using hf)
    simp [dAddTail] at hd
    obtain ⟨rfl, rfl⟩ := hd
    simpa [pAddTail] using termLoop_stop o lk elref k ck acc rest st hr
  | cons isAdd f tl =>
    obtain ⟨k, rfl, hk⟩ := succ_of_le (n := szFact f + szAddTail tl) (by simpa [szAddTail] using hf)
    cases hp : dFact o lk elref f ck st with
    | error e => simp [dAddTail, hp] at hd
    | ok r =>
      obtain ⟨v1, st1⟩ := r
      have ih1 := factor_ok f ck st st1 v1 (pAddTail tl ++ rest) k hp (by omega)
        (headLevel_addTail tl rest hr)
      cases hn : v1.oneNumber with
      | error e => simp [dAddTail, hp, hn] at hd
      | ok x =>
        simp [dAddTail, hp, hn] at hd
        have ih2 := termLoop_ok tl ck _ y st1 st' rest k hd (by omega) hr
        cases isAdd <;> simp_all [pAddTail, termLoop]

theorem term_ok (t : Term α) (ck : List Str) (st st' : σ) (v : Value α) (rest : List (Token α))
    (fuel : Nat) (hd : dTerm o lk elref t ck st = .ok (v, st')) (hf : szTerm t ≤ fuel)
    (hr : headLevel rest < 4) :
    term o lk elref fuel ck (pTerm t ++ rest) st = .ok (v, rest, st') := by
  cases t with
  | mk f tl =>
    obtain ⟨k, rfl, hk⟩ := succ_of_le (n := szFact f + szAddTail tl) (by simpa [szTerm] using hf)
    cases hp : dFact o lk elref f ck st with
    | error e => simp [dTerm, hp] at hd
    | ok r =>
      obtain ⟨v1, st1⟩ := r
      have ih1 := factor_ok f ck st st1 v1 (pAddTail tl ++ rest) k hp (by omega)
        (headLevel_addTail tl rest hr)
      cases hn : v1.oneNumber with
      | error e =>
        cases tl with
        | nil =>
          simp [dTerm, hp, hn] at hd
          obtain ⟨rfl, rfl⟩ := hd
          simp [pTerm, pAddTail] at ih1 ⊢
          simp [term, ih1, hn]
        | cons b q tl => simp [dTerm, hp, hn] at hd
      | ok x =>
        cases ht : dAddTail o lk elref x tl ck st1 with
        | error e => simp [dTerm, hp, hn, ht] at hd
        | ok r2 =>
          obtain ⟨y, st2⟩ := r2
          simp [dTerm, hp, hn, ht] at hd
          obtain ⟨rfl, rfl⟩ := hd
          have ih2 := termLoop_ok tl ck x y st1 st2 rest k ht (by omega) hr
          simp [pTerm, List.append_assoc, term, ih1, hn, ih2]

theorem comparison_ok (c : Cmp α) (ck : List Str) (st st' : σ) (v : Value α)
    (rest : List (Token α)) (fuel : Nat) (hd : dCmp o lk elref c ck st = .ok (v, st'))
    (hf : szCmp c ≤ fuel) (hr : headLevel rest < 3) :
    comparison o lk elref fuel ck (pCmp c ++ rest) st = .ok (v, rest, st') := by
  cases c with
  | single t =>
    obtain ⟨k, rfl, hk⟩ := succ_of_le (n := szTerm t) (by simpa [szCmp] using hf)
    cases hp : dTerm o lk elref t ck st with
    | error e => simp [dCmp, hp] at hd
    | ok r =>
      obtain ⟨v1, st1⟩ := r
      have ih1 := term_ok t ck st st1 v1 rest k hp hk (by omega)
      simp [dCmp, hp] at hd
      obtain ⟨rfl, rfl⟩ := hd
      cases hn : v1.oneNumber with
      | error e => simp [pCmp, comparison, ih1, hn, normalize]
      | ok x =>
        have hstop := cmp_stop rest hr
        cases rest with
        | nil =>
          simp at ih1
          simp [pCmp, comparison, ih1, hn, normalize]
        | cons tk ts =>
          cases tk with
          | symbol s =>
            have := hstop s ts rfl
            simp [pCmp, comparison, ih1, hn, normalize, this]
          | _ => simp [pCmp, comparison, ih1, hn, normalize]
  | pair t op t2 =>
    obtain ⟨k, rfl, hk⟩ := succ_of_le (n := szTerm t + szTerm t2) (by simpa [szCmp] using hf)
    cases hp : dTerm o lk elref t ck st with
    | error e => simp [dCmp, hp] at hd
    | ok r =>
      obtain ⟨v1, st1⟩ := r
      have ih1 := term_ok t ck st st1 v1 (.symbol op.name :: (pTerm t2 ++ rest)) k hp (by omega)
        (by simp [headLevel, tokLevel_cmp])
      cases hn : v1.oneNumber with
      | error e => simp [dCmp, hp, hn] at hd
      | ok a =>
        cases hp2 : dTerm o lk elref t2 ck st1 with
        | error e => simp [dCmp, hp, hn, hp2] at hd
        | ok r2 =>
          obtain ⟨v2, st2⟩ := r2
          have ih2 := term_ok t2 ck st1 st2 v2 rest k hp2 (by omega) (by omega)
          cases hn2 : v2.oneNumber with
          | error e => simp [dCmp, hp, hn, hp2, hn2] at hd
          | ok b =>
            simp [dCmp, hp, hn, hp2, hn2] at hd
            obtain ⟨rfl, rfl⟩ := hd
            simp [pCmp, List.append_assoc, comparison, ih1, hn, parseCmpOp_name, ih2, hn2]

theorem logicalLoop_ok (tl : LogTail α) (ck : List Str) (acc v : Value α) (st st' : σ)
    (rest : List (Token α)) (fuel : Nat)
    (hd : dLogTail o lk elref acc tl ck st = .ok (v, st')) (hf : szLogTail tl ≤ fuel)
    (hr : headLevel rest < 2) :
    logicalLoop o lk elref fuel ck acc (pLogTail tl ++ rest) st = .ok (v, rest, st') := by
  cases tl with
  | nil =>
    obtain ⟨k, rfl, _⟩ := succ_of_le (n := 0) (by simpa [szLogTail] using hf)
    simp [dLogTail] at hd
    obtain ⟨rfl, rfl⟩ := hd
    simpa [pLogTail] using logicalLoop_stop o lk elref k ck acc rest st hr
  | cons op c tl =>
    obtain ⟨k, rfl, hk⟩ := succ_of_le (n := szCmp c + szLogTail tl) (by simpa [szLogTail] using hf)
    cases hp : dCmp o lk elref c ck st with
    | error e => simp [dLogTail, hp] at hd
    | ok r =>
      obtain ⟨v1, st1⟩ := r
      have ih1 := comparison_ok c ck st st1 v1 (pLogTail tl ++ rest) k hp (by omega)
        (headLevel_logTail tl rest hr)
      cases hn : v1.oneNumber with
      | error e => simp [dLogTail, hp, hn] at hd
      | ok b =>
        cases ha : acc.oneNumber with
        | error e => simp [dLogTail, hp, hn, ha] at hd
        | ok a =>
          simp [dLogTail, hp, hn, ha] at hd
          have ih2 := logicalLoop_ok tl ck _ v st1 st' rest k hd (by omega) hr
          simp [pLogTail, List.append_assoc, logicalLoop, parseLogOp_name, ih1, hn, ha, ih2]

theorem logical_ok (e : Logic α) (ck : List Str) (st st' : σ) (v : Value α)
    (rest : List (Token α)) (fuel : Nat) (hd : dLogic o lk elref e ck st = .ok (v, st'))
    (hf : szLogic e ≤ fuel) (hr : headLevel rest < 2) :
    logical o lk elref fuel ck (pLogic e ++ rest) st = .ok (v, rest, st') := by
  cases e with
  | mk c tl =>
    obtain ⟨k, rfl, hk⟩ := succ_of_le (n := szCmp c + szLogTail tl) (by simpa [szLogic] using hf)
    cases hp : dCmp o lk elref c ck st with
    | error e => simp [dLogic, hp] at hd
    | ok r =>
      obtain ⟨v1, st1⟩ := r
      simp [dLogic, hp] at hd
      have ih1 := comparison_ok c ck st st1 v1 (pLogTail tl ++ rest) k hp (by omega)
        (headLevel_logTail tl rest hr)
      have ih2 := logicalLoop_ok tl ck v1 v st1 st' rest k hd (by omega) hr
      simp [pLogic, List.append_assoc, logical, ih1, ih2]

theorem etail_ok (tl : ETail α) (ck : List Str) (out : List (Atom α)) (v1 v : Value α)
    (ts rest : List (Token α)) (st st1 st' : σ) (k : Nat)
    (h1 : logical o lk elref k ck ts st = .ok (v1, pETail tl ++ rest, st1))
    (hd : dETail o lk elref (out ++ v1.flatten) tl ck st1 = .ok (v, st'))
    (hf : szETail tl ≤ k) (hr : headLevel rest < 1) :
    exprListLoop o lk elref (k + 1) ck out ts st = .ok (v, rest, st') := by
  cases tl with
  | nil =>
    simp [dETail] at hd
    obtain ⟨rfl, rfl⟩ := hd
    simp [pETail] at h1
    cases rest with
    | nil => simp [exprListLoop, h1]
    | cons t r => cases t <;> simp_all [exprListLoop, headLevel, tokLevel]
  | cons e tl =>
    obtain ⟨j, rfl, hj⟩ := succ_of_le (n := szLogic e + szETail tl) (by simpa [szETail] using hf)
    cases hp : dLogic o lk elref e ck st1 with
    | error er => simp [dETail, hp] at hd
    | ok r =>
      obtain ⟨v2, st2⟩ := r
      simp [dETail, hp] at hd
      have ihl := logical_ok e ck st1 st2 v2 (pETail tl ++ rest) j hp (by omega)
        (headLevel_eTail tl rest hr)
      have ih2 := etail_ok tl ck (out ++ v1.flatten) v2 v (pLogic e ++ (pETail tl ++ rest)) rest
        st1 st2 st' j ihl (by simpa [List.append_assoc] using hd) (by omega) hr
      simp [pETail, List.append_assoc] at h1
      rw [exprListLoop, h1]
      exact ih2

theorem elist_ok (l : EList α) (ck : List Str) (st st' : σ) (v : Value α)
    (rest : List (Token α)) (fuel : Nat) (hd : dEList o lk elref l ck st = .ok (v, st'))
    (hf : szEList l ≤ fuel) (hr : headLevel rest < 1) :
    exprListLoop o lk elref fuel ck [] (pEList l ++ rest) st = .ok (v, rest, st') := by
  cases l with
  | mk e tl =>
    obtain ⟨k, rfl, hk⟩ := succ_of_le (n := szLogic e + szETail tl) (by simpa [szEList] using hf)
    cases hp : dLogic o lk elref e ck st with
    | error er => simp [dEList, hp] at hd
    | ok r =>
      obtain ⟨v1, st1⟩ := r
      simp [dEList, hp] at hd
      have ihl := logical_ok e ck st st1 v1 (pETail tl ++ rest) k hp (by omega)
        (headLevel_eTail tl rest hr)
      have := etail_ok tl ck [] v1 v (pLogic e ++ (pETail tl ++ rest)) rest st st1 st' k ihl
        (by simpa using hd) (by omega) hr
      simpa [pEList, List.append_assoc] using this

theorem args_ok (a : Args α) (ck : List Str) (st st' : σ) (v : Value α)
    (rest : List (Token α)) (fuel : Nat) (hd : dArgs o lk elref a ck st = .ok (v, st'))
    (hf : szArgs a ≤ fuel) :
    exprList o lk elref fuel ck true (pArgs a ++ .closeParen :: rest) st
      = .ok (v, .closeParen :: rest, st') := by
  cases a with
  | none =>
    obtain ⟨k, rfl, _⟩ := succ_of_le (n := 0) (by simpa [szArgs] using hf)
    simp [dArgs] at hd
    obtain ⟨rfl, rfl⟩ := hd
    simp [pArgs, exprList]
  | some l =>
    obtain ⟨k, rfl, hk⟩ := succ_of_le (n := szEList l) (by simpa [szArgs] using hf)
    simp [dArgs] at hd
    have ih := elist_ok l ck st st' v (.closeParen :: rest) k hd hk (by simp [headLevel, tokLevel])
    rw [pArgs, exprList_not_close o lk elref k ck true _ st (isClose_pEList l _)]
    exact ih
end

end
end Expr
end Svgdx
