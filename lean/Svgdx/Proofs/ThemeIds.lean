/-
  Svgdx.Proofs.ThemeIds — the ids declared by the emitted definitions: which they are, that every
  `url(#id)` of an emitted rule / definition is among them, and that they are pairwise different.
-/
import Svgdx.Proofs.ThemeUrl
namespace Svgdx.Theme
open Svgdx Str

/-- the pattern prefix without its leading `d-` -/
def stem (row : PatternRow) : Str := row.cls.drop 2

theorem row_facts2 : ∀ row ∈ patternRows,
    row.cls = 'd' :: '-' :: stem row ∧
    (match stem row with | x :: _ => x != 'd' | [] => false) = true ∧
    specClass row = row.cls ++ cs!"-" ∧
    noCh 'u' (stem row) = true ∧ noCh ')' (stem row) = true ∧ noCh '"' (stem row) = true ∧
    safe idPat (stem row ++ cs!"\"") = true ∧ safe idPat (stem row ++ cs!"-") = true ∧
    safe urlPat (rotStr row.rotate) = true ∧ safe idPat (rotStr row.rotate) = true := by decide +kernel

theorem theme_stroke_safe (t : ThemeKind) : safe urlPat (themeStroke t) = true ∧ safe idPat (themeStroke t) = true := by
  cases t <;> decide +kernel

theorem ptnId_cons (t : Str) (h : stripPrefix cs!"d-" t = none) : ptnId ('d' :: '-' :: t) = t := by
  have h1 : nth pds 1 = cs!"d-" := by decide +kernel
  unfold ptnId trimStartMatches
  rw [h1]
  simp only [List.isEmpty_cons, Bool.false_eq_true, if_false, List.length_cons]
  simp only [trimStartGo, stripPrefix, BEq.rfl, if_true, h]

/-- `c` is a class `row` emits a pattern for -/
def RowClass (row : PatternRow) (c : Str) : Prop :=
  c = row.cls ∨ ∃ n, getSpacing (specClass row) c = some n

/-- shape of such a class: `d-` ++ stem ++ tail, tail empty or `-` ++ valid suffix -/
theorem rowClass_shape {row : PatternRow} (hrow : row ∈ patternRows) {c : Str} (hc : RowClass row c) :
    ∃ tail, c = 'd' :: '-' :: (stem row ++ tail) ∧ ptnId c = stem row ++ tail ∧
      (tail = [] ∨ ∃ suf n, tail = '-' :: suf ∧ parseU32 suf = some n) := by
  have hf := row_facts2 row hrow
  have hstrip : ∀ tail, stripPrefix cs!"d-" (stem row ++ tail) = none := by
    intro tail
    have h2 := hf.2.1
    cases hs : stem row with
    | nil => rw [hs] at h2; simp at h2
    | cons x xs =>
      rw [hs] at h2
      have hx : x ≠ 'd' := by simpa using h2
      simp only [List.cons_append, stripPrefix]
      have : ('d' == x) = false := by
        apply beq_eq_false_iff_ne.mpr
        exact fun e => hx e.symm
      simp [this]
  rcases hc with rfl | ⟨n, hn⟩
  · refine ⟨[], by simpa using hf.1, ?_, Or.inl rfl⟩
    have := ptnId_cons (stem row ++ []) (hstrip [])
    rw [List.append_nil] at this ⊢
    rw [← this]
    congr 1
    exact hf.1
  · obtain ⟨suf, hsuf, hp, _⟩ := getSpacing_some hn
    have e : c = 'd' :: '-' :: (stem row ++ '-' :: suf) := by
      rw [hsuf, hf.2.2.1]
      have h1 := hf.1
      generalize stem row = st at h1 ⊢
      rw [h1]
      simp
    refine ⟨'-' :: suf, e, ?_, Or.inr ⟨suf, n, rfl, hp⟩⟩
    rw [e]
    exact ptnId_cons _ (hstrip _)

/-- character facts about the id of such a class -/
theorem rowClass_id_facts {row : PatternRow} (hrow : row ∈ patternRows) {c : Str} (hc : RowClass row c) :
    noCh 'u' c = true ∧ noCh 'u' (ptnId c) = true ∧ noCh ')' (ptnId c) = true ∧ noCh '"' (ptnId c) = true ∧
    safe idPat (ptnId c ++ ['"']) = true ∧ c = 'd' :: '-' :: ptnId c ∧
    (match ptnId c with | x :: _ => x != 'd' | [] => false) = true := by
  have hf := row_facts2 row hrow
  obtain ⟨tail, hc1, hid, ht⟩ := rowClass_shape hrow hc
  have htail : noCh 'u' tail = true ∧ noCh ')' tail = true ∧ noCh '"' tail = true ∧
      safe idPat (stem row ++ tail ++ ['"']) = true := by
    rcases ht with rfl | ⟨suf, n, rfl, hp⟩
    · refine ⟨rfl, rfl, rfl, ?_⟩
      simpa using hf.2.2.2.2.2.2.1
    · have hu : noCh 'u' suf = true := noCh_of_parseU32 (by decide) hp
      have hp' : noCh ')' suf = true := noCh_of_parseU32 (by decide) hp
      have hq : noCh '"' suf = true := noCh_of_parseU32 (by decide) hp
      have hi : noCh 'i' suf = true := noCh_of_parseU32 (by decide) hp
      refine ⟨noCh_append (s := ['-']) (by decide) hu, noCh_append (s := ['-']) (by decide) hp',
        noCh_append (s := ['-']) (by decide) hq, ?_⟩
      have e : stem row ++ '-' :: suf ++ ['"'] = (stem row ++ cs!"-") ++ (suf ++ ['"']) := by simp
      rw [e]
      exact safe_append hf.2.2.2.2.2.2.2.1
        (safe_of_noCh (a := 'i') rfl (noCh_append hi (by decide)))
  have hhead : (match stem row ++ tail with | x :: _ => x != 'd' | [] => false) = true := by
    have h2 := hf.2.1
    cases hs : stem row with
    | nil => rw [hs] at h2; simp at h2
    | cons x xs => rw [hs] at h2; simpa using h2
  refine ⟨?_, ?_, ?_, ?_, ?_, ?_, ?_⟩
  · rw [hc1]
    exact noCh_append (s := cs!"d-") (by decide) (noCh_append hf.2.2.2.1 htail.1)
  · rw [hid]; exact noCh_append hf.2.2.2.1 htail.1
  · rw [hid]; exact noCh_append hf.2.2.2.2.1 htail.2.1
  · rw [hid]; exact noCh_append hf.2.2.2.2.2.1 htail.2.2.1
  · rw [hid]; exact htail.2.2.2
  · rw [hid]; exact hc1
  · rw [hid]; exact hhead

/-- every member of `patternItems` is `patternItem stroke row c n` for a class `c` of `row` -/
theorem patternItems_rowClass {order : List Str → List Str} {stroke : Str} {cs : List Str} {it : Tagged × Str}
    (h : it ∈ patternItems order stroke cs) :
    ∃ row ∈ patternRows, ∃ c n, RowClass row c ∧ it = patternItem stroke row c n := by
  obtain ⟨row, hrow, h⟩ := mem_patternItems.mp h
  rcases h with ⟨_, rfl⟩ | ⟨c, n, _, hg, rfl⟩
  · exact ⟨row, hrow, row.cls, defaultSpacing, Or.inl rfl, rfl⟩
  · exact ⟨row, hrow, c, n, Or.inr ⟨n, hg⟩, rfl⟩

/-- the class a pattern item is for -/
def itemClass (it : Tagged × Str) : Str := it.1.1.getD []

theorem itemClass_patternItem (stroke : Str) (row : PatternRow) (c : Str) (n : Nat) :
    itemClass (patternItem stroke row c n) = c := rfl

/-- per item: the definition declares the item's id and refers to nothing; the rule refers to that id -/
theorem patternItem_scan {order : List Str → List Str} {cfg : ThemeCfg} {cs : List Str} {it : Tagged × Str}
    (h : it ∈ patternItems order (themeStroke cfg.theme) cs) :
    declIds it.2 = [ptnId (itemClass it)] ∧ urlRefs it.2 = [] ∧ urlRefs it.1.2 = [ptnId (itemClass it)] := by
  obtain ⟨row, hrow, c, n, hc, rfl⟩ := patternItems_rowClass h
  have hf := rowClass_id_facts hrow hc
  have hr := row_facts2 row hrow
  have hs := theme_stroke_safe cfg.theme
  refine ⟨?_, ?_, ?_⟩
  · exact declIds_patternDef n row.ty hs.2 hr.2.2.2.2.2.2.2.2.2 hf.2.2.2.1 hf.2.2.2.2.1
  · exact urlRefs_patternDef n row.ty hs.1 hr.2.2.2.2.2.2.2.2.1 hf.2.1
  · exact urlRefs_patternRule hf.1 hf.2.1 hf.2.2.1

/-! ### the declared ids -/

theorem flatMap_singleton_map {α β : Type} (l : List α) (f : α → List β) (g : α → β)
    (h : ∀ x ∈ l, f x = [g x]) : l.flatMap f = l.map g := by
  induction l with
  | nil => rfl
  | cons x xs ih =>
    simp only [List.flatMap_cons, List.map_cons, h x (by simp)]
    rw [ih (fun y hy => h y (by simp [hy]))]
    rfl

def arrowIds (cs : List Str) : List Str := if hasArrow cs then [cs!"d-arrow"] else []
def patternIds (order : List Str → List Str) (cfg : ThemeCfg) (cs : List Str) : List Str :=
  (patternItems order (themeStroke cfg.theme) cs).map (fun it => ptnId (itemClass it))
def shadowIds (cs : List Str) : List Str := (Gen.Theme.build_table.filter (fun p => has cs p.1)).map (·.1)

/-- the ids the definitions declare, in order -/
def expectedIds (order : List Str → List Str) (cfg : ThemeCfg) (cs : List Str) : List Str :=
  arrowIds cs ++ patternIds order cfg cs ++ shadowIds cs

theorem arrow_shadow_scan :
    declIds (nth ars 5) = [cs!"d-arrow"] ∧ urlRefs (nth ars 5) = [] ∧
    urlRefs (nth ars 1) = [cs!"d-arrow"] ∧ urlRefs (nth ars 3) = [cs!"d-arrow", cs!"d-arrow"] ∧
    (∀ p ∈ Gen.Theme.build_table, declIds (nth (shadowStrings p.2) 1) = [p.1] ∧
      urlRefs (nth (shadowStrings p.2) 1) = [] ∧ urlRefs (nth (shadowStrings p.2) 0) = [p.1]) := by
  decide +kernel

theorem declIds_defs (order : List Str → List Str) (cfg : ThemeCfg) (cs : List Str) :
    (defsOf order cfg cs).flatMap declIds = expectedIds order cfg cs := by
  simp only [defsOf, expectedIds, List.flatMap_append]
  congr 1
  congr 1
  · unfold arrowDefs arrowIds
    split
    · simp [arrow_shadow_scan.1]
    · rfl
  · unfold patternIds
    rw [List.flatMap_map]
    exact flatMap_singleton_map _ _ _ (fun it hit => (patternItem_scan hit).1)
  · unfold shadowDefs shadowIds
    have : ∀ l : List (Str × Str), (∀ p ∈ l, p ∈ Gen.Theme.build_table) →
        (l.flatMap fun p => if has cs p.1 then [nth (shadowStrings p.2) 1] else []).flatMap declIds =
        (l.filter (fun p => has cs p.1)).map (·.1) := by
      intro l hl
      induction l with
      | nil => rfl
      | cons p ps ih =>
        have hp := (arrow_shadow_scan.2.2.2.2 p (hl p (by simp))).1
        have ih' := ih (fun q hq => hl q (by simp [hq]))
        simp only [List.flatMap_cons, List.flatMap_append, List.filter_cons]
        cases hh : has cs p.1
        · simpa using ih'
        · simp only [if_true, List.flatMap_cons, List.flatMap_nil, List.append_nil, hp, List.map_cons]
          rw [← ih']
          simp
    exact this _ (fun _ h => h)

/-! ### every reference of an emitted rule or definition is a declared id -/

theorem colour_norefs : ∀ c ∈ Gen.COLOUR_LIST,
    urlRefs (fillRule c) = [] ∧ urlRefs (fillTextRule c) = [] ∧ urlRefs (strokeRule c) = [] ∧
    urlRefs (strokeTextRule c) = [] ∧ urlRefs (textColRule c) = [] ∧ urlRefs (textOlColRule c) = [] := by
  decide +kernel

theorem fixed_norefs :
    urlRefs (nth bs 7) = [] ∧ (∀ p ∈ Gen.Theme.append_text_styles_table0, urlRefs p.2 = []) ∧
    (∀ p ∈ flowTable, urlRefs (flowRule p.1 p.2) = []) ∧
    urlRefs (nth dss (dashBase + 3)) = [] ∧ urlRefs (nth dss (dashBase + 5)) = [] ∧
    urlRefs (nth dss (dashBase + 7)) = [] ∧ urlRefs (nth dss (dashBase + 9)) = [] ∧
    (∀ p ∈ Gen.Theme.append_stroke_width_styles_table0, safe urlPat p.1 = true) ∧
    (∀ p ∈ Gen.Theme.append_text_styles_table1, safe urlPat p.1 = true) ∧
    (∀ p ∈ Gen.Theme.append_text_styles_table2, safe urlPat p.1 = true) := by decide +kernel

theorem urlRefs_of_safe {s : Str} (h : safe urlPat s = true) : urlRefs s = [] := by
  rw [urlRefs_def]; exact occs_safe h

theorem safe_u_fstr (q : Rat) : safe urlPat (Num.fstr q) = true :=
  safe_of_noCh (a := 'u') rfl (noCh_of_numChar (by decide) (fstr_numChar q))

theorem strokeWidthRule_norefs (cfg : ThemeCfg) {p : Str × Str} (hp : p ∈ Gen.Theme.append_stroke_width_styles_table0) :
    urlRefs (strokeWidthRule cfg p.1 p.2) = [] := by
  have hk := fixed_norefs.2.2.2.2.2.2.2.1 p hp
  rw [strokeWidthRule_eq]
  apply urlRefs_of_safe
  exact safe_append (a := ['.']) (by decide) (safe_append hk (safe_append (a := cs!" { stroke-width: ") (by decide)
    (safe_append (safe_u_fstr _) (by decide))))

theorem textSizeRule_norefs (cfg : ThemeCfg) {p : Str × Str} (hp : p ∈ Gen.Theme.append_text_styles_table1) :
    urlRefs (textSizeRule cfg p.1 p.2) = [] := by
  have hk := fixed_norefs.2.2.2.2.2.2.2.2.1 p hp
  rw [textSizeRule_eq]
  apply urlRefs_of_safe
  exact safe_append (a := cs!"text.") (by decide) (safe_append hk (safe_append (a := cs!", text.") (by decide)
    (safe_append hk (safe_append (a := cs!" * { font-size: ") (by decide) (safe_append (safe_u_fstr _) (by decide))))))

theorem textOlWidthRule_norefs {p : Str × Str} (hp : p ∈ Gen.Theme.append_text_styles_table2) :
    urlRefs (textOlWidthRule p.1 p.2) = [] := by
  have hk := fixed_norefs.2.2.2.2.2.2.2.2.2 p hp
  rw [textOlWidthRule_eq]
  apply urlRefs_of_safe
  exact safe_append (a := cs!"text.") (by decide) (safe_append hk (safe_append (a := cs!", text.") (by decide)
    (safe_append hk (safe_append (a := cs!" * { stroke-width: ") (by decide) (safe_append (safe_u_fstr _) (by decide))))))

/-- the references of entry `e` are declared -/
def RefsOk (order : List Str → List Str) (cfg : ThemeCfg) (cs : List Str) (e : Tagged) : Prop :=
  ∀ id ∈ urlRefs e.2, id ∈ expectedIds order cfg cs

variable {order : List Str → List Str} {cfg : ThemeCfg} {cs es : List Str}

theorem refs_guarded_nil {k : Str} {rules : List Str} (h : ∀ r ∈ rules, urlRefs r = []) :
    ∀ e ∈ guarded cs k rules, RefsOk order cfg cs e := by
  intro e he
  obtain ⟨_, r, hr, rfl⟩ := mem_guarded.mp he
  intro id hid
  rw [h r hr] at hid
  simp at hid

theorem mem_expected_arrow (h : hasArrow cs = true) : cs!"d-arrow" ∈ expectedIds order cfg cs := by
  simp [expectedIds, arrowIds, h]

theorem refs_keyed : ∀ e ∈ stylesT order cfg cs es, e.1.isSome = true → RefsOk order cfg cs e := by
  intro e he hsome
  simp only [stylesT, List.mem_append] at he
  have hunt : ∀ l : List Str, e ∈ untagged l → RefsOk order cfg cs e := by
    intro l hl
    obtain ⟨r, _, rfl⟩ := mem_untagged.mp hl
    simp at hsome
  rcases he with ((((((((((((he | he) | he) | he) | he) | he) | he) | he) | he) | he) | he) | he) | he) | he
  · exact hunt _ he
  · exact hunt _ he
  · exact hunt _ he
  · refine refs_guarded_nil ?_ e he
    intro r hr
    simp only [List.mem_cons, List.not_mem_nil, or_false] at hr
    subst hr; exact fixed_norefs.1
  · exact hunt _ he
  · simp only [colourStyles, fillStyles, strokeStyles, textColStyles, textOlColStyles, List.mem_append,
      List.mem_flatMap] at he
    rcases he with ((⟨c, hc, he⟩ | ⟨c, hc, he⟩) | ⟨c, hc, he⟩) | ⟨c, hc, he⟩
    · refine refs_guarded_nil ?_ e he
      intro r hr
      simp only [List.mem_cons, List.not_mem_nil, or_false] at hr
      rcases hr with rfl | rfl
      · exact (colour_norefs c hc).1
      · exact (colour_norefs c hc).2.1
    · refine refs_guarded_nil ?_ e he
      intro r hr
      rcases List.mem_cons.mp hr with rfl | hr
      · exact (colour_norefs c hc).2.2.1
      · split at hr
        · simp only [List.mem_cons, List.not_mem_nil, or_false] at hr
          subst hr; exact (colour_norefs c hc).2.2.2.1
        · simp at hr
    · refine refs_guarded_nil ?_ e he
      intro r hr
      simp only [List.mem_cons, List.not_mem_nil, or_false] at hr
      subst hr; exact (colour_norefs c hc).2.2.2.2.1
    · refine refs_guarded_nil ?_ e he
      intro r hr
      simp only [List.mem_cons, List.not_mem_nil, or_false] at hr
      subst hr; exact (colour_norefs c hc).2.2.2.2.2
  · obtain ⟨p, hp, he⟩ := List.mem_flatMap.mp he
    refine refs_guarded_nil ?_ e he
    intro r hr
    simp only [List.mem_cons, List.not_mem_nil, or_false] at hr
    subst hr; exact strokeWidthRule_norefs cfg hp
  · unfold textStyles at he
    split at he
    · simp only [List.mem_append] at he
      rcases he with (he | he) | he
      · obtain ⟨p, hp, he⟩ := List.mem_flatMap.mp he
        refine refs_guarded_nil ?_ e he
        intro r hr
        simp only [List.mem_cons, List.not_mem_nil, or_false] at hr
        subst hr; exact fixed_norefs.2.1 p hp
      · obtain ⟨p, hp, he⟩ := List.mem_flatMap.mp he
        refine refs_guarded_nil ?_ e he
        intro r hr
        simp only [List.mem_cons, List.not_mem_nil, or_false] at hr
        subst hr; exact textSizeRule_norefs cfg hp
      · obtain ⟨p, hp, he⟩ := List.mem_flatMap.mp he
        refine refs_guarded_nil ?_ e he
        intro r hr
        simp only [List.mem_cons, List.not_mem_nil, or_false] at hr
        subst hr; exact textOlWidthRule_norefs hp
    · simp at he
  · -- arrows
    simp only [arrowStyles, List.mem_append] at he
    rcases he with (he | he) | he
    · obtain ⟨hh, r, hr, rfl⟩ := mem_guarded.mp he
      simp only [List.mem_cons, List.not_mem_nil, or_false] at hr
      subst hr
      intro id hid
      rw [arrow_shadow_scan.2.2.1] at hid
      simp only [List.mem_cons, List.not_mem_nil, or_false] at hid
      subst hid
      exact mem_expected_arrow (by simp [hasArrow, hh])
    · obtain ⟨hh, r, hr, rfl⟩ := mem_guarded.mp he
      simp only [List.mem_cons, List.not_mem_nil, or_false] at hr
      subst hr
      intro id hid
      rw [arrow_shadow_scan.2.2.2.1] at hid
      simp only [List.mem_cons, List.not_mem_nil, or_false, or_self] at hid
      subst hid
      exact mem_expected_arrow (by simp [hasArrow, hh])
    · split at he
      · exact hunt _ he
      · simp at he
  · -- dash / flow
    simp only [dashStyles, List.mem_append] at he
    rcases he with ((((he | he) | he) | he) | he) | he
    · obtain ⟨p, hp, he⟩ := List.mem_flatMap.mp he
      refine refs_guarded_nil ?_ e he
      intro r hr
      simp only [List.mem_cons, List.not_mem_nil, or_false] at hr
      subst hr; exact fixed_norefs.2.2.1 p hp
    · split at he
      · exact hunt _ he
      · simp at he
    · refine refs_guarded_nil ?_ e he
      intro r hr
      simp only [List.mem_cons, List.not_mem_nil, or_false] at hr
      subst hr; exact fixed_norefs.2.2.2.1
    · refine refs_guarded_nil ?_ e he
      intro r hr
      simp only [List.mem_cons, List.not_mem_nil, or_false] at hr
      subst hr; exact fixed_norefs.2.2.2.2.1
    · refine refs_guarded_nil ?_ e he
      intro r hr
      simp only [List.mem_cons, List.not_mem_nil, or_false] at hr
      subst hr; exact fixed_norefs.2.2.2.2.2.1
    · refine refs_guarded_nil ?_ e he
      intro r hr
      simp only [List.mem_cons, List.not_mem_nil, or_false] at hr
      subst hr; exact fixed_norefs.2.2.2.2.2.2.1
  · -- patterns
    obtain ⟨it, hit, rfl⟩ := List.mem_map.mp he
    intro id hid
    rw [(patternItem_scan hit).2.2] at hid
    simp only [List.mem_cons, List.not_mem_nil, or_false] at hid
    subst hid
    simp only [expectedIds, patternIds, List.mem_append, List.mem_map]
    exact Or.inl (Or.inr ⟨it, hit, rfl⟩)
  · -- shadows
    obtain ⟨p, hp, he⟩ := List.mem_flatMap.mp he
    obtain ⟨hh, r, hr, rfl⟩ := mem_guarded.mp he
    simp only [List.mem_cons, List.not_mem_nil, or_false] at hr
    subst hr
    intro id hid
    rw [(arrow_shadow_scan.2.2.2.2 p hp).2.2] at hid
    simp only [List.mem_cons, List.not_mem_nil, or_false] at hid
    subst hid
    simp only [expectedIds, shadowIds, List.mem_append, List.mem_map, List.mem_filter]
    exact Or.inr ⟨p, ⟨hp, hh⟩, rfl⟩
  · exact hunt _ he
  · exact hunt _ he

/-- the emitted definitions refer to nothing -/
theorem defs_norefs : ∀ d ∈ defsOf order cfg cs, urlRefs d = [] := by
  intro d hd
  simp only [defsOf, List.mem_append] at hd
  rcases hd with (hd | hd) | hd
  · unfold arrowDefs at hd
    split at hd
    · simp only [List.mem_cons, List.not_mem_nil, or_false] at hd
      subst hd; exact arrow_shadow_scan.2.1
    · simp at hd
  · obtain ⟨it, hit, rfl⟩ := List.mem_map.mp hd
    exact (patternItem_scan hit).2.1
  · obtain ⟨p, hp, hd⟩ := List.mem_flatMap.mp hd
    have hd' : d ∈ (if has cs p.1 = true then [nth (shadowStrings p.2) 1] else []) := hd
    split at hd'
    · simp only [List.mem_cons, List.not_mem_nil, or_false] at hd'
      subst hd'; exact (arrow_shadow_scan.2.2.2.2 p hp).2.1
    · simp at hd'

end Svgdx.Theme
