/-
  Svgdx.Proofs.ThemeNodup — the ids declared by the emitted definitions are pairwise different:
  a class is handled by at most one row of the pattern table, a row visits a class once, the id
  of a pattern is its class without the leading `d-`, and no pattern id is `d-arrow` or a shadow id.
-/
import Svgdx.Proofs.ThemeIds
namespace Svgdx.Theme
open Svgdx Str

/-! ### two pattern prefixes never accept the same class -/

theorem stripPrefix_append_both (p a b : Str) : stripPrefix (p ++ a) (p ++ b) = stripPrefix a b := by
  induction p with
  | nil => rfl
  | cons x p ih => simp [stripPrefix, ih]

theorem mism_comm (p q : Str) : mism p q = mism q p := by
  induction p generalizing q with
  | nil => cases q <;> rfl
  | cons a p ih =>
    cases q with
    | nil => rfl
    | cons b q =>
      simp only [mism, ih q]
      rw [bne_comm]

/-- `q = p ++ x :: _` with `x` neither `+` nor a digit -/
def extBad (p q : Str) : Bool :=
  match stripPrefix p q with
  | some (x :: _) => !(x == '+' || isDigit x)
  | _ => false

def rel (p q : Str) : Bool := mism p q || extBad p q || extBad q p

theorem parseU32_head {x : Char} {r : Str} {n : Nat} (h : parseU32 (x :: r) = some n) :
    x = '+' ∨ isDigit x = true := (parseU32_chars h).2 x (by simp)

theorem rel_excl {p q s : Str} {n : Nat} (hr : rel p q = true) (hs : parseU32 s = some n) :
    getSpacing q (p ++ s) = none := by
  simp only [rel, Bool.or_eq_true] at hr
  rcases hr with (hr | hr) | hr
  · have : stripPrefix q (p ++ s) = none := stripPrefix_of_mism (by rw [mism_comm]; exact hr) s
    simp [getSpacing, this]
  · -- q = p ++ x :: u, x bad
    unfold extBad at hr
    split at hr
    · rename_i x u hq
      have hq' := stripPrefix_eq_some hq
      have hx : ¬ (x = '+' ∨ isDigit x = true) := by
        intro h
        rcases h with h | h
        · subst h; simp at hr
        · simp [h] at hr
      have : stripPrefix q (p ++ s) = none := by
        rw [hq', stripPrefix_append_both]
        cases s with
        | nil => rfl
        | cons y s' =>
          have hy := parseU32_head hs
          simp only [stripPrefix]
          split
          · rename_i hxy
            have : x = y := by simpa using hxy
            subst this
            exact absurd hy hx
          · rfl
      simp [getSpacing, this]
    · simp at hr
  · -- p = q ++ x :: u, x bad
    unfold extBad at hr
    split at hr
    · rename_i x u hp
      have hp' := stripPrefix_eq_some hp
      have hx : ¬ (x = '+' ∨ isDigit x = true) := by
        intro h
        rcases h with h | h
        · subst h; simp at hr
        · simp [h] at hr
      have h1 : stripPrefix q (p ++ s) = some (x :: (u ++ s)) := by
        rw [hp', List.append_assoc]
        exact stripPrefix_append _ _
      have h2 : parseU32 (x :: (u ++ s)) = none := by
        cases hh : parseU32 (x :: (u ++ s)) with
        | none => rfl
        | some m => exact absurd (parseU32_head hh) hx
      simp [getSpacing, h1, h2]
    · simp at hr

theorem rows_cross : ∀ a ∈ patternRows, ∀ b ∈ patternRows,
    getSpacing (specClass a) a.cls = none ∧
    (a.cls ≠ b.cls → rel (specClass a) (specClass b) = true ∧ getSpacing (specClass a) b.cls = none) := by
  decide +kernel

theorem rows_pairwise : patternRows.Pairwise (fun a b => a.cls ≠ b.cls) := by decide +kernel

theorem rowClass_excl {a b : PatternRow} (ha : a ∈ patternRows) (hb : b ∈ patternRows) (hne : a.cls ≠ b.cls)
    {c : Str} (h1 : RowClass a c) (h2 : RowClass b c) : False := by
  rcases h1 with rfl | ⟨n, h1⟩
  · rcases h2 with h2 | ⟨m, h2⟩
    · exact hne h2
    · have := ((rows_cross b hb a ha).2 (fun e => hne e.symm)).2
      rw [this] at h2; simp at h2
  · rcases h2 with rfl | ⟨m, h2⟩
    · have := ((rows_cross a ha b hb).2 hne).2
      rw [this] at h1; simp at h1
    · obtain ⟨s, rfl, hs, _⟩ := getSpacing_some h1
      have := rel_excl ((rows_cross a ha b hb).2 hne).1 hs
      rw [this] at h2; simp at h2

/-! ### the classes of the pattern items are pairwise different -/

variable {order : List Str → List Str} {cfg : ThemeCfg} {cs : List Str}

theorem rowItems_rowClass {stroke : Str} {row : PatternRow} {it : Tagged × Str}
    (h : it ∈ rowItems order stroke cs row) : RowClass row (itemClass it) := by
  simp only [rowItems, List.mem_append, List.mem_filterMap] at h
  rcases h with h | ⟨c, _, hm⟩
  · split at h
    · simp only [List.mem_cons, List.not_mem_nil, or_false] at h
      subst h; exact Or.inl rfl
    · simp at h
  · cases hg : getSpacing (specClass row) c with
    | none => simp [hg] at hm
    | some n =>
      simp only [hg, Option.map_some, Option.some.injEq] at hm
      subst hm
      exact Or.inr ⟨n, hg⟩

theorem rowItems_pairwise (hnd : ∀ l, (order l).Nodup) (stroke : Str) {row : PatternRow} (hrow : row ∈ patternRows) :
    (rowItems order stroke cs row).Pairwise (fun x y => itemClass x ≠ itemClass y) := by
  unfold rowItems
  apply List.pairwise_append.mpr
  refine ⟨?_, ?_, ?_⟩
  · split <;> simp
  · refine List.Pairwise.filterMap _ ?_ (hnd _)
    intro a a' hne b hb b' hb'
    cases hg : getSpacing (specClass row) a with
    | none => simp [hg] at hb
    | some n =>
      cases hg' : getSpacing (specClass row) a' with
      | none => simp [hg'] at hb'
      | some n' =>
        simp only [hg, hg', Option.map_some, Option.some.injEq] at hb hb'
        subst hb; subst hb'
        exact hne
  · intro x hx y hy
    split at hx
    · simp only [List.mem_cons, List.not_mem_nil, or_false] at hx
      subst hx
      obtain ⟨c, _, hm⟩ := List.mem_filterMap.mp hy
      cases hg : getSpacing (specClass row) c with
      | none => simp [hg] at hm
      | some n =>
        simp only [hg, Option.map_some, Option.some.injEq] at hm
        subst hm
        intro e
        have e' : row.cls = c := e
        subst e'
        have := (rows_cross row hrow row hrow).1
        rw [this] at hg; simp at hg
    · simp at hx

theorem patternItems_pairwise (hnd : ∀ l, (order l).Nodup) (stroke : Str) :
    (patternItems order stroke cs).Pairwise (fun x y => itemClass x ≠ itemClass y) := by
  unfold patternItems
  apply List.pairwise_flatMap.mpr
  refine ⟨fun row hrow => rowItems_pairwise hnd stroke hrow, ?_⟩
  refine List.Pairwise.imp_of_mem ?_ rows_pairwise
  intro a b ha hb hne x hx y hy e
  have h1 := rowItems_rowClass hx
  have h2 := rowItems_rowClass hy
  rw [e] at h1
  exact rowClass_excl ha hb hne h1 h2

theorem patternIds_nodup (hnd : ∀ l, (order l).Nodup) : (patternIds order cfg cs).Nodup := by
  unfold patternIds
  apply List.pairwise_map.mpr
  refine List.Pairwise.imp_of_mem ?_ (patternItems_pairwise hnd (themeStroke cfg.theme))
  intro x y hx hy hne e
  obtain ⟨r1, hr1, c1, n1, hc1, rfl⟩ := patternItems_rowClass hx
  obtain ⟨r2, hr2, c2, n2, hc2, rfl⟩ := patternItems_rowClass hy
  simp only [itemClass_patternItem] at hne e
  have e1 := (rowClass_id_facts hr1 hc1).2.2.2.2.2.1
  have e2 := (rowClass_id_facts hr2 hc2).2.2.2.2.2.1
  apply hne
  rw [e1, e2, e]

/-! ### all declared ids -/

theorem shadow_keys_facts :
    (Gen.Theme.build_table.map (·.1)).Nodup ∧ cs!"d-arrow" ∉ Gen.Theme.build_table.map (·.1) ∧
    (∀ p ∈ Gen.Theme.build_table, (match p.1 with | x :: _ => x == 'd' | [] => false) = true) := by decide +kernel

/-- does not start with `d` -/
def notD (s : Str) : Bool := match s with | x :: _ => x != 'd' | [] => false

theorem patternIds_head {id : Str} (h : id ∈ patternIds order cfg cs) : notD id = true := by
  obtain ⟨it, hit, hid⟩ := List.mem_map.mp h
  obtain ⟨r, hr, c, n, hc, hit'⟩ := patternItems_rowClass hit
  rw [← hid, hit', itemClass_patternItem]
  exact (rowClass_id_facts hr hc).2.2.2.2.2.2

theorem expectedIds_nodup (hnd : ∀ l, (order l).Nodup) : (expectedIds order cfg cs).Nodup := by
  unfold expectedIds
  have hsh : (shadowIds cs).Nodup := by
    unfold shadowIds
    exact List.Nodup.sublist (List.Sublist.map _ List.filter_sublist) shadow_keys_facts.1
  have hshmem : ∀ id ∈ shadowIds cs, id ∈ Gen.Theme.build_table.map (·.1) := by
    intro id hid
    obtain ⟨p, hp, rfl⟩ := List.mem_map.mp hid
    exact List.mem_map.mpr ⟨p, (List.mem_filter.mp hp).1, rfl⟩
  have harr : ∀ id ∈ arrowIds cs, id = cs!"d-arrow" := by
    intro id hid
    unfold arrowIds at hid
    split at hid
    · simpa using hid
    · simp at hid
  apply List.nodup_append.mpr
  refine ⟨?_, hsh, ?_⟩
  · apply List.nodup_append.mpr
    refine ⟨?_, patternIds_nodup hnd, ?_⟩
    · unfold arrowIds; split <;> simp
    · intro a ha b hb e
      have := harr a ha
      subst this
      subst e
      have := patternIds_head hb
      simp [notD] at this
  · intro a ha b hb e
    subst e
    rcases List.mem_append.mp ha with ha | ha
    · have := harr a ha
      subst this
      exact shadow_keys_facts.2.1 (hshmem _ hb)
    · have h1 := patternIds_head ha
      obtain ⟨p, hp, e⟩ := List.mem_map.mp (hshmem _ hb)
      have h2 := shadow_keys_facts.2.2 p hp
      rw [e] at h2
      cases a with
      | nil => simp [notD] at h1
      | cons x xs =>
        simp only [notD, bne_iff_ne, ne_eq] at h1
        simp only [beq_iff_eq] at h2
        exact h1 h2

theorem sortU_nodup (l : List Str) : (sortU l).Nodup := strictSorted_nodup (strictSorted_sortU l)

/-- every `url(#id)` mentioned by a definition or by a rule for a reserved class is declared by exactly
    one definition -/
theorem url_closure_with (hord : ∀ l x, x ∈ order l → x ∈ l) (hnd : ∀ l, (order l).Nodup) (cfg : ThemeCfg) (cs es : List Str) (s : Str)
    (hs : s ∈ (buildWith order cfg cs es).1 ∨ (s ∈ (buildWith order cfg cs es).2 ∧ (keyOf s).isSome = true)) :
    ∀ id ∈ urlRefs s, (((buildWith order cfg cs es).1).flatMap declIds).count id = 1 := by
  intro id hid
  have hdecl : ((buildWith order cfg cs es).1).flatMap declIds = expectedIds order cfg cs := declIds_defs order cfg cs
  rw [hdecl]
  have hmem : id ∈ expectedIds order cfg cs := by
    rcases hs with hs | ⟨hs, hk⟩
    · rw [defs_norefs s hs] at hid; simp at hid
    · simp only [buildWith, List.mem_map] at hs
      obtain ⟨e, he, rfl⟩ := hs
      have hok := stylesT_ok hord cfg cs es e he
      have hsome : e.1.isSome = true := by rw [← hok.1]; exact hk
      exact refs_keyed e he hsome id hid
  rw [List.Nodup.count (expectedIds_nodup hnd), if_pos hmem]

/-- which ids are declared: the arrow marker iff an arrow class is used, a pattern id per used pattern class,
    a shadow filter per used shadow class — nothing else -/
theorem mem_expectedIds_iff (hmem : ∀ l x, x ∈ order l ↔ x ∈ l) (id : Str) :
    id ∈ expectedIds order cfg cs ↔
      (id = cs!"d-arrow" ∧ hasArrow cs = true) ∨
      (∃ row ∈ patternRows, ∃ c, RowClass row c ∧ c ∈ cs ∧ id = ptnId c) ∨
      (∃ p ∈ Gen.Theme.build_table, id = p.1 ∧ p.1 ∈ cs) := by
  simp only [expectedIds, List.mem_append]
  constructor
  · rintro ((h | h) | h)
    · left
      unfold arrowIds at h
      split at h
      · rename_i ha
        simp only [List.mem_cons, List.not_mem_nil, or_false] at h
        exact ⟨h, ha⟩
      · simp at h
    · right; left
      obtain ⟨it, hit, rfl⟩ := List.mem_map.mp h
      obtain ⟨row, hrow, hh⟩ := mem_patternItems.mp hit
      rcases hh with ⟨hh, rfl⟩ | ⟨c, n, hc, hg, rfl⟩
      · exact ⟨row, hrow, row.cls, Or.inl rfl, has_iff.mp hh, rfl⟩
      · exact ⟨row, hrow, c, Or.inr ⟨n, hg⟩, (List.mem_filter.mp ((hmem _ _).mp hc)).1, rfl⟩
    · right; right
      obtain ⟨p, hp, rfl⟩ := List.mem_map.mp h
      have := List.mem_filter.mp hp
      exact ⟨p, this.1, rfl, has_iff.mp this.2⟩
  · rintro (⟨rfl, ha⟩ | ⟨row, hrow, c, hc, hcs, rfl⟩ | ⟨p, hp, rfl, hcs⟩)
    · left; left; simp [arrowIds, ha]
    · left; right
      rcases hc with rfl | ⟨n, hn⟩
      · exact List.mem_map.mpr ⟨patternItem (themeStroke cfg.theme) row row.cls defaultSpacing,
          mem_patternItems.mpr ⟨row, hrow, Or.inl ⟨has_iff.mpr hcs, rfl⟩⟩, rfl⟩
      · obtain ⟨suf, hsuf, _, _⟩ := getSpacing_some hn
        have hst : startsWith (specClass row) c = true := by rw [hsuf]; exact startsWith_append _ _
        exact List.mem_map.mpr ⟨patternItem (themeStroke cfg.theme) row c n,
          mem_patternItems.mpr ⟨row, hrow, Or.inr ⟨c, n, (hmem _ _).mpr (List.mem_filter.mpr ⟨hcs, hst⟩), hn, rfl⟩⟩, rfl⟩
    · right
      exact List.mem_map.mpr ⟨p, List.mem_filter.mpr ⟨hp, has_iff.mpr hcs⟩, rfl⟩

/-- the id of a pattern class determines the class -/
theorem ptnId_injective {r1 r2 : PatternRow} (h1 : r1 ∈ patternRows) (h2 : r2 ∈ patternRows) {c1 c2 : Str}
    (hc1 : RowClass r1 c1) (hc2 : RowClass r2 c2) (e : ptnId c1 = ptnId c2) : c1 = c2 := by
  rw [(rowClass_id_facts h1 hc1).2.2.2.2.2.1, (rowClass_id_facts h2 hc2).2.2.2.2.2.1, e]

end Svgdx.Theme
