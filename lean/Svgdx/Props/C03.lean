/-
  C03 — Real SVG (namespaced root) passes through with an identical XML infoset.

  Two layers. (1) The reader/writer pair on raw events (`Svgdx.Xml.Raw`, a model of quick-xml's event
  boundaries, tied by the reader/tokens and writer/passthrough-bytes correspondence streams): what is read
  is written back slice by slice. (2) The control skeleton (`Svgdx.Ctl`): a document whose first element
  is `<svg xmlns="http://www.w3.org/2000/svg">`, and any such subtree, is handed on as raw events with
  no evaluation, positioning, text generation or registration.
-/
import Svgdx.Proofs.XmlRaw
import Svgdx.Proofs.CtlInv

namespace Svgdx.Props.C03
open Svgdx Xml Ctl

/-- **read-then-write is the identity on bytes**, for every input the tokenizer accepts: elements,
    attribute spellings and quoting, references, character data, comments, CDATA, PIs, doctype — all
    reproduced exactly, in order (so the infoset is trivially identical) -/
theorem passthrough_identity (s out : Str) (h : passThrough s = some out) : out = s :=
  passThrough_id s out h

theorem tokens_partition_input (fuel : Nat) (s : Str) (ts : List Tok) (h : tokenize fuel s = some ts) :
    render ts = s :=
  render_tokenize fuel s ts h

/-- the implementation's writer departs from the source slice in exactly two places, both outside the
    infoset: blanks before the `>` of an end tag and the blanks after the DOCTYPE keyword -/
theorem writer_form (t : Tok) :
    (t.kind ≠ .end_ → t.kind ≠ .doctype → t.renderW = t.render) ∧
    (t.kind = .end_ → t.renderW = t.opener ++ t.content ++ ['>']) ∧
    (t.kind = .doctype → t.renderW = cs!"<!DOCTYPE " ++ t.content ++ t.closer) := by
  refine ⟨?_, ?_, ?_⟩
  · intro h1 h2
    unfold Tok.renderW
    cases hk : t.kind <;> simp_all
  · intro h; simp [Tok.renderW, h]
  · intro h; simp [Tok.renderW, h]

variable {ρ : Type}

/-- **a real SVG document is not processed at all**: the output events are the input events, nothing
    is evaluated (the RNG state, the variable scopes, the element table and the previous-element are
    untouched) and the flag that switches post-processing off is raised -/
theorem real_svg_untouched (ev : Evalr ρ) (fuel : Nat) (st : St ρ) (ks : Nodes)
    (h : isRealSvg ks.toList = true) :
    transformDoc ev fuel st ks = (true, st, .ok (rawNodes ks, none)) := by
  simp [transformDoc, h]

/-- **post-processing is skipped exactly for real SVG documents**: the flag is a function of the
    document's own first element; everything else is processed, and a namespaced `<svg>` nested in
    it (see `nested_real_svg_untouched`) cannot raise the flag -/
theorem real_flag_is_the_documents (ev : Evalr ρ) (fuel : Nat) (st : St ρ) (ks : Nodes) :
    (transformDoc ev fuel st ks).1 = isRealSvg ks.toList ∧
    (isRealSvg ks.toList = false → (transformDoc ev fuel st ks).2 = processNodes ev fuel st ks) := by
  by_cases h : isRealSvg ks.toList = true <;> simp [transformDoc, h]

/-- **an embedded namespaced `<svg>` subtree is handed on untouched**, with no bounding box contribution -/
theorem nested_real_svg_untouched (ev : Evalr ρ) (fuel : Nat) (st : St ρ) (e : Elem) (ks : Nodes)
    (hn : e.name = cs!"svg") (hx : e.hasAttr cs!"xmlns" = true) :
    genContainer ev (fuel + 1) st e ks = (st, .ok (rawNode (.elem e (some ks) none), none)) := by
  rw [genContainer]
  have hg : isGraphics e.name = false := by
    rw [hn]; decide
  split
  · rename_i h1 _
    rw [hg] at h1; cases h1
  · simp [hn, hx]

/-- what "first element is a namespaced svg" means: leading comments / text are skipped, the first
    element decides -/
theorem isRealSvg_first_element (e : Elem) (k : Option Nodes) (t : Option Str) (rest : List Node) :
    isRealSvg (.elem e k t :: rest) = (e.name == cs!"svg" && e.hasAttr cs!"xmlns") ∧
    (∀ c tl, isRealSvg (.comment c tl :: rest) = isRealSvg rest) ∧
    (∀ x, isRealSvg (.text x :: rest) = isRealSvg rest) := by
  simp [isRealSvg]

/-- worked instance: a document with a reference, odd quoting and blanks inside tags -/
example : passThrough cs!"<svg xmlns='http://www.w3.org/2000/svg' ><t  a=\"x>y\">1 &lt; 2</t><!-- c --></svg>"
    = some cs!"<svg xmlns='http://www.w3.org/2000/svg' ><t  a=\"x>y\">1 &lt; 2</t><!-- c --></svg>" := by
  decide +kernel

end Svgdx.Props.C03

#print axioms Svgdx.Props.C03.passthrough_identity
#print axioms Svgdx.Props.C03.tokens_partition_input
#print axioms Svgdx.Props.C03.writer_form
#print axioms Svgdx.Props.C03.real_svg_untouched
#print axioms Svgdx.Props.C03.nested_real_svg_untouched
#print axioms Svgdx.Props.C03.real_flag_is_the_documents
#print axioms Svgdx.Props.C03.isRealSvg_first_element
