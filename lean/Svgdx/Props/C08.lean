/-
  C08 — Root extent: viewBox, width and height enclose exactly the drawn content.

  About the GENERATED box algebra (`expand`, `round`, `combine`), the root-attribute model `Svgdx.Doc.Root`
  (tied to write_root_svg by the doc/root-and-extent correspondence stream) and the accumulation of
  bounding boxes in the control skeleton `Svgdx.Ctl`.
-/
import Svgdx.Proofs.XmlWrite
import Svgdx.Proofs.CtlInv
import Mathlib.Tactic.Linarith

namespace Svgdx.Props.C08
open Svgdx Gen Doc

def Within (b u : BoundingBox) : Prop := u.x1 ≤ b.x1 ∧ u.y1 ≤ b.y1 ∧ b.x2 ≤ u.x2 ∧ b.y2 ≤ u.y2

theorem floor_le' (q : Rat) : ((q.floor : Int) : Rat) ≤ q := Rat.floor_le q

theorem lt_floor_add_one' (q : Rat) : q < ((q.floor : Int) : Rat) + 1 := by
  have := Rat.lt_floor_add_one q
  simpa [Rat.intCast_add] using this

theorem le_ceil' (q : Rat) : q ≤ ((q.ceil : Int) : Rat) := Rat.le_ceil

theorem ceil_lt_add_one' (q : Rat) : ((q.ceil : Int) : Rat) < q + 1 := Rat.ceil_lt

/-- **rounded outward to integers, and tight**: the rounded box encloses the box, has integral
    coordinates, and each side moves by less than one unit -/
theorem round_encloses_tight (b : BoundingBox) :
    Within b b.round ∧
    b.x1 - 1 < b.round.x1 ∧ b.y1 - 1 < b.round.y1 ∧ b.round.x2 < b.x2 + 1 ∧ b.round.y2 < b.y2 + 1 ∧
    (∃ i j k l : Int, b.round = ⟨i, j, k, l⟩) := by
  simp only [Within, BoundingBox.round, Rq.floor, Rq.ceil]
  refine ⟨⟨floor_le' _, floor_le' _, le_ceil' _, le_ceil' _⟩, ?_, ?_, ?_, ?_, ⟨_, _, _, _, rfl⟩⟩
  · have := lt_floor_add_one' b.x1; linarith
  · have := lt_floor_add_one' b.y1; linarith
  · exact ceil_lt_add_one' _
  · exact ceil_lt_add_one' _

/-- **grown by the configured border**: every side moves outward by exactly the border -/
theorem expand_by_border (b : BoundingBox) (border : Rat) :
    b.expand border border = ⟨b.x1 - border, b.y1 - border, b.x2 + border, b.y2 + border⟩ := by
  simp [BoundingBox.expand]

/-- the advertised extent encloses the content grown by the border, and by less than one unit more -/
theorem extent_encloses (cfg : RootCfg) (b : BoundingBox) :
    Within (b.expand cfg.border cfg.border) (extent cfg b) ∧
    b.x1 - cfg.border - 1 < (extent cfg b).x1 ∧ (extent cfg b).x2 < b.x2 + cfg.border + 1 := by
  have h := round_encloses_tight (b.expand cfg.border cfg.border)
  refine ⟨h.1, ?_, ?_⟩
  · have := h.2.1; simpa [extent, BoundingBox.expand] using this
  · have := h.2.2.2.1; simpa [extent, BoundingBox.expand] using this

/-! ### accumulation: the union of what succeeded, each once, in any order -/

theorem rq_min_comm (a b : Rat) : Rq.min a b = Rq.min b a := by
  unfold Rq.min; split <;> split <;> first | rfl | linarith

theorem rq_max_comm (a b : Rat) : Rq.max a b = Rq.max b a := by
  unfold Rq.max; split <;> split <;> first | rfl | linarith

theorem rq_min_assoc (a b c : Rat) : Rq.min (Rq.min a b) c = Rq.min a (Rq.min b c) := by
  unfold Rq.min; split <;> split <;> (try split) <;> (try split) <;> first | rfl | linarith

theorem rq_max_assoc (a b c : Rat) : Rq.max (Rq.max a b) c = Rq.max a (Rq.max b c) := by
  unfold Rq.max; split <;> split <;> (try split) <;> (try split) <;> first | rfl | linarith

theorem combine_comm (a b : BoundingBox) : a.combine b = b.combine a := by
  simp [BoundingBox.combine, BoundingBox.new, rq_min_comm a.x1, rq_min_comm a.y1, rq_max_comm a.x2, rq_max_comm a.y2]

theorem combine_assoc (a b c : BoundingBox) : (a.combine b).combine c = a.combine (b.combine c) := by
  simp [BoundingBox.combine, BoundingBox.new, rq_min_assoc, rq_max_assoc]

theorem combine_idem (a : BoundingBox) : a.combine a = a := by
  simp [BoundingBox.combine, BoundingBox.new, Rq.min, Rq.max]

/-- the accumulated extent does not depend on the order in which elements succeed (retry passes
    re-order them) nor on how often one is added -/
theorem union_order_independent (a b : Option BoundingBox) (c : BoundingBox) :
    Ctl.unionOpt (Ctl.unionOpt a (some c)) b = Ctl.unionOpt (Ctl.unionOpt a b) (some c) := by
  cases a <;> cases b <;> simp only [Ctl.unionOpt]
  · rw [combine_comm]
  · rw [combine_assoc, combine_assoc, combine_comm c]

/-- elements that add nothing: a `<point>`, and the content of containers that are not rendered in place -/
theorem not_rendered_in_place (n : Str) :
    (n = cs!"clipPath" ∨ n = cs!"marker" ∨ n = cs!"mask" ∨ n = cs!"pattern" ∨ n = cs!"linearGradient" ∨
     n = cs!"radialGradient" ∨ n = cs!"filter") → Ctl.notRenderedInPlace n = true := by
  rintro (h | h | h | h | h | h | h) <;> subst h <;> decide


/-- **a tag that fails in a pass contributes nothing to the extent in that pass**: outputs and the accumulated
    box are passed on unchanged, the tag is queued for the next pass -/
theorem failed_tag_contributes_nothing {ρ : Type} (ev : Ctl.Evalr ρ) (fuel : Nat) (st : Ctl.St ρ) (t : Ctl.Tag)
    (ts : List Ctl.Tag) (outs : List (Nat × List Ctl.Ev)) (bb : Option BoundingBox) (remain : List Ctl.Tag)
    (er : Ctl.CErr)
    (hs : (Ctl.genNode ev fuel (Ctl.registerEarly ev st t.node) t.node).1.inSpecs = false)
    (he : (Ctl.genNode ev fuel (Ctl.registerEarly ev st t.node) t.node).2 = .error er)
    (hl : (er.isLimit || er == .fuel) = false) :
    Ctl.onePass ev (fuel + 1) st (t :: ts) outs bb remain =
      Ctl.onePass ev fuel (Ctl.genNode ev fuel (Ctl.registerEarly ev st t.node) t.node).1 ts outs bb
        ({ t with failGen := some (Ctl.genNode ev fuel (Ctl.registerEarly ev st t.node) t.node).1.gen } :: remain) := by
  rw [Ctl.onePass]
  simp only [hs, he, hl, Bool.false_eq_true, if_false]

/-- **a tag that succeeds is united into the extent exactly once** -/
theorem succeeded_tag_united_once {ρ : Type} (ev : Ctl.Evalr ρ) (fuel : Nat) (st : Ctl.St ρ) (t : Ctl.Tag)
    (ts : List Ctl.Tag) (outs : List (Nat × List Ctl.Ev)) (bb : Option BoundingBox) (remain : List Ctl.Tag)
    (evs : List Ctl.Ev) (b : Option BoundingBox)
    (hs : (Ctl.genNode ev fuel (Ctl.registerEarly ev st t.node) t.node).1.inSpecs = false)
    (he : (Ctl.genNode ev fuel (Ctl.registerEarly ev st t.node) t.node).2 = .ok (evs, b)) :
    Ctl.onePass ev (fuel + 1) st (t :: ts) outs bb remain =
      Ctl.onePass ev fuel (Ctl.genNode ev fuel (Ctl.registerEarly ev st t.node) t.node).1 ts
        (if evs.isEmpty then outs else outs ++ [(t.idx, evs)]) (Ctl.unionOpt bb b) remain := by
  rw [Ctl.onePass]
  simp only [hs, he, Bool.false_eq_true, if_false]

/-! ### the root attributes -/

/-- with nothing supplied by the author: viewBox = extent, width/height = its size times the scale, in mm -/
theorem synthesised_geometry (cfg : RootCfg) (orig : Attrs) (bb : BoundingBox) (a b : Attrs)
    (ha : Attrs.NodupKeys a)
    (hw : Attrs.get orig cs!"width" = none) (hh : Attrs.get orig cs!"height" = none)
    (hv : Attrs.contains orig cs!"viewBox" = false)
    (h : rootGeom cfg orig bb a = some b) :
    let e := extent cfg bb
    Attrs.get b cs!"width" = some (Num.fstr (e.width * cfg.scale) ++ cs!"mm") ∧
    Attrs.get b cs!"height" = some (Num.fstr (e.height * cfg.scale) ++ cs!"mm") ∧
    Attrs.get b cs!"viewBox" =
      some (Num.fstr e.x1 ++ [' '] ++ Num.fstr e.y1 ++ [' '] ++ Num.fstr e.width ++ [' '] ++ Num.fstr e.height) := by
  intro e
  unfold rootGeom at h
  simp only [hw, hh, hv, Option.map_some, Bool.false_eq_true, if_false, Option.some.injEq] at h
  have n1 := Attrs.insert_nodup ha cs!"width" (Num.fstr ((extent cfg bb).width * cfg.scale) ++ cs!"mm")
  have n2 := Attrs.insert_nodup n1 cs!"height" (Num.fstr ((extent cfg bb).height * cfg.scale) ++ cs!"mm")
  rw [← h]
  refine ⟨?_, ?_, ?_⟩
  · rw [Attrs.get_insert_other n2 _ _ _ (by decide), Attrs.get_insert_other n1 _ _ _ (by decide),
      Attrs.get_insert_self ha]
  · rw [Attrs.get_insert_other n2 _ _ _ (by decide), Attrs.get_insert_self n1]
  · rw [Attrs.get_insert_self n2]

/-- **author-supplied width and height are kept verbatim** (and then nothing is derived) -/
theorem author_width_height_verbatim (cfg : RootCfg) (orig : Attrs) (bb : BoundingBox) (a b : Attrs)
    (ha : Attrs.NodupKeys a) (ow oh : Str)
    (hw : Attrs.get orig cs!"width" = some ow) (hh : Attrs.get orig cs!"height" = some oh)
    (h : rootGeom cfg orig bb a = some b) :
    Attrs.get b cs!"width" = Attrs.get a cs!"width" ∧ Attrs.get b cs!"height" = Attrs.get a cs!"height" := by
  unfold rootGeom at h
  simp only [hw, hh, Option.map_some, Option.some.injEq] at h
  rw [← h]
  split
  · exact ⟨rfl, rfl⟩
  · exact ⟨Attrs.get_insert_other ha _ _ _ (by decide), Attrs.get_insert_other ha _ _ _ (by decide)⟩

/-- **a single supplied dimension determines the other from the extent's aspect ratio, with the same unit** -/
theorem width_determines_height (cfg : RootCfg) (orig : Attrs) (bb : BoundingBox) (a b : Attrs)
    (ha : Attrs.NodupKeys a) (ow u : Str) (v : Rat)
    (hw : Attrs.get orig cs!"width" = some ow) (hh : Attrs.get orig cs!"height" = none)
    (hu : splitUnit ow = some (v, u))
    (hr : 0 < (extent cfg bb).width ∧ 0 < (extent cfg bb).height)
    (h : rootGeom cfg orig bb a = some b) :
    Attrs.get b cs!"height" = some (Num.fstr (v / ((extent cfg bb).width / (extent cfg bb).height)) ++ u) ∧
    Attrs.get b cs!"width" = Attrs.get a cs!"width" := by
  unfold rootGeom at h
  simp only [hw, hh, hu, hr.1, hr.2, decide_true, Bool.and_self, if_true, Option.map_some, Option.some.injEq] at h
  have n1 := Attrs.insert_nodup ha cs!"height"
    (Num.fstr (v / ((extent cfg bb).width / (extent cfg bb).height)) ++ u)
  rw [← h]
  split
  · exact ⟨Attrs.get_insert_self ha _ _, Attrs.get_insert_other ha _ _ _ (by decide)⟩
  · refine ⟨?_, ?_⟩
    · rw [Attrs.get_insert_other n1 _ _ _ (by decide)]; exact Attrs.get_insert_self ha _ _
    · rw [Attrs.get_insert_other n1 _ _ _ (by decide)]; exact Attrs.get_insert_other ha _ _ _ (by decide)

/-- version and namespace are added only when missing; everything the author wrote stays -/
theorem version_namespace_only_if_missing (cfg : RootCfg) (orig a : Attrs) (bbox : Option BoundingBox)
    (hn : Attrs.NodupKeys orig) (h : rootAttrs cfg orig bbox = some a) :
    Attrs.contains a cs!"xmlns" = true ∧ Attrs.contains a cs!"version" = true ∧
    (∀ k, Attrs.contains orig k = true → Attrs.contains a k = true) ∧ Attrs.NodupKeys a :=
  rootAttrs_namespace_version cfg orig a bbox hn h

/-- `split_unit` worked instances -/
example : splitUnit cs!"32.5mm" = some ((65 : Rat) / 2, cs!"mm") := by decide +kernel
example : splitUnit cs!"120" = some ((120 : Rat), []) := by decide +kernel
example : splitUnit cs!"12m3" = none := by decide +kernel

end Svgdx.Props.C08

#print axioms Svgdx.Props.C08.round_encloses_tight
#print axioms Svgdx.Props.C08.expand_by_border
#print axioms Svgdx.Props.C08.extent_encloses
#print axioms Svgdx.Props.C08.combine_comm
#print axioms Svgdx.Props.C08.combine_assoc
#print axioms Svgdx.Props.C08.combine_idem
#print axioms Svgdx.Props.C08.union_order_independent
#print axioms Svgdx.Props.C08.failed_tag_contributes_nothing
#print axioms Svgdx.Props.C08.succeeded_tag_united_once
#print axioms Svgdx.Props.C08.not_rendered_in_place
#print axioms Svgdx.Props.C08.synthesised_geometry
#print axioms Svgdx.Props.C08.author_width_height_verbatim
#print axioms Svgdx.Props.C08.width_determines_height
#print axioms Svgdx.Props.C08.version_namespace_only_if_missing
