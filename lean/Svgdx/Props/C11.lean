/-
  C11 — Uniform positioning: equivalent constraints give identical geometry.

  "For rect, circle, ellipse and line, any sufficient combination per axis of start (x / x1),
   end (x2), centre (cx) and length (width, radius) describes the same box and yields identical
   output geometry, and every shorthand … is exactly equivalent to its longhand pair. The output
   carries only the element's native SVG geometry attributes."

  The theorems below are about `Svgdx.Gen.Position.*`, which is REGENERATED from
  /repo/src/position.rs on every run, and about the hand model `Svgdx.Elem.setPositionAttrs`
  (tied to the code by the `resolve/spellings` correspondence stream).
-/
import Svgdx.Geom.Resolve
import Mathlib.Tactic.Ring
import Mathlib.Tactic.Linarith
import Mathlib.Tactic.FieldSimp

namespace Svgdx.Props.C11
open Svgdx Gen

/-- The values the four per-axis constraints take for the interval `[a, b]`: whatever is supplied
    agrees with the box. -/
structure Describes (a b : Rat) (start end_ middle length : Option Rat) : Prop where
  hs : ∀ s, start = some s → s = a
  he : ∀ e, end_ = some e → e = b
  hm : ∀ m, middle = some m → m = (a + b) / 2
  hl : ∀ l, length = some l → l = b - a

def given (o : Option Rat) : Nat := if o.isSome then 1 else 0

/-- **extent is complete**: any two (or more) of start / end / centre / length that describe
    `[a, b]` determine exactly `[a, b]`, for every shape. Covers all 6 sufficient pairs and every
    over-specified consistent combination (11 of the 16 presence patterns). -/
theorem extent_complete (p : Position) (a b : Rat) (start end_ middle length : Option Rat)
    (h : Describes a b start end_ middle length)
    (h2 : 2 ≤ given start + given end_ + given middle + given length) :
    p.extent start end_ middle length = some (a, b) := by
  obtain ⟨hs, he, hm, hl⟩ := h
  rcases start with _ | s <;> rcases end_ with _ | e <;> rcases middle with _ | m <;>
    rcases length with _ | l <;> simp [given] at h2 <;>
    simp only [Position.extent, Option.some.injEq, Prod.mk.injEq]
  all_goals
    (try have hs' := hs _ rfl)
    (try have he' := he _ rfl)
    (try have hm' := hm _ rfl)
    (try have hl' := hl _ rfl)
    subst_vars
    constructor <;> ring

/-- **priority is harmless on consistent input, and documented on inconsistent input**: whatever
    `extent` returns, a supplied start is the returned start unless … there is no unless: start always
    wins; end wins whenever it is supplied together with start or centre or length. -/
theorem extent_respects_start (p : Position) (s : Rat) (end_ middle length : Option Rat) (r : Rat × Rat)
    (h : p.extent (some s) end_ middle length = some r) : r.1 = s := by
  rcases end_ with _ | e <;> rcases middle with _ | m <;> rcases length with _ | l <;>
    simp only [Position.extent] at h
  all_goals (try split at h)
  all_goals (first | (cases h; rfl) | (simp at h))

/-- Both axes described ⇒ `to_bbox` is the described box, whatever the shape. -/
theorem to_bbox_complete (p : Position) (x1 y1 x2 y2 : Rat)
    (hx : Describes x1 x2 p.xmin p.xmax p.cx p.width)
    (hx2 : 2 ≤ given p.xmin + given p.xmax + given p.cx + given p.width)
    (hy : Describes y1 y2 p.ymin p.ymax p.cy p.height)
    (hy2 : 2 ≤ given p.ymin + given p.ymax + given p.cy + given p.height) :
    p.to_bbox = some ⟨x1, y1, x2, y2⟩ := by
  have ex := extent_complete p x1 x2 _ _ _ _ hx hx2
  have ey := extent_complete p y1 y2 _ _ _ _ hy hy2
  simp [Position.to_bbox, Position.x_def, Position.y_def, ex, ey, BoundingBox.new]

/-- **any two sufficient descriptions agree** (the 6 × 6 table of the property, and more):
    two `Position`s that both describe the same box yield the same bounding box. -/
theorem pairs_agree (p q : Position) (x1 y1 x2 y2 : Rat)
    (hpx : Describes x1 x2 p.xmin p.xmax p.cx p.width)
    (hpx2 : 2 ≤ given p.xmin + given p.xmax + given p.cx + given p.width)
    (hpy : Describes y1 y2 p.ymin p.ymax p.cy p.height)
    (hpy2 : 2 ≤ given p.ymin + given p.ymax + given p.cy + given p.height)
    (hqx : Describes x1 x2 q.xmin q.xmax q.cx q.width)
    (hqx2 : 2 ≤ given q.xmin + given q.xmax + given q.cx + given q.width)
    (hqy : Describes y1 y2 q.ymin q.ymax q.cy q.height)
    (hqy2 : 2 ≤ given q.ymin + given q.ymax + given q.cy + given q.height) :
    p.to_bbox = q.to_bbox := by
  rw [to_bbox_complete p x1 y1 x2 y2 hpx hpx2 hpy hpy2, to_bbox_complete q x1 y1 x2 y2 hqx hqx2 hqy hqy2]

/-- A circle needs one size and one position per axis: radius `r` (width = height = 2r) and any one of
    start / centre / end on each axis. -/
theorem circle_one_position_per_axis (p : Position) (cx cy r : Rat)
    (hw : p.width = some (2 * r)) (hh : p.height = some (2 * r))
    (hx : Describes (cx - r) (cx + r) p.xmin p.xmax p.cx p.width)
    (hx1 : 1 ≤ given p.xmin + given p.xmax + given p.cx)
    (hy : Describes (cy - r) (cy + r) p.ymin p.ymax p.cy p.height)
    (hy1 : 1 ≤ given p.ymin + given p.ymax + given p.cy) :
    p.to_bbox = some ⟨cx - r, cy - r, cx + r, cy + r⟩ := by
  apply to_bbox_complete p _ _ _ _ hx _ hy _
  · simp [hw, given] at *; omega
  · simp [hh, given] at *; omega

/-- The output of `set_position_attrs` depends on the constraint spelling only through the solved
    box, the has-position flags and dx/dy: two spellings with the same box give the *same element*. -/
theorem setPositionAttrs_congr (p q : Position) (e : Elem)
    (hb : p.to_bbox = q.to_bbox) (hsome : p.to_bbox.isSome)
    (hx : p.has_x_position = q.has_x_position) (hy : p.has_y_position = q.has_y_position)
    (hdx : p.dx = q.dx) (hdy : p.dy = q.dy) :
    Elem.setPositionAttrs p e = Elem.setPositionAttrs q e := by
  unfold Elem.setPositionAttrs
  rw [← hb]
  cases hbb : p.to_bbox with
  | none => simp [hbb] at hsome
  | some bb => simp only [hx, hy, hdx, hdy]

/-- non-vacuity: the hypotheses are met by concrete, different spellings of the box (1,2)-(11,22) -/
example :
    let p : Position := { xmin := some 1, ymin := none, xmax := none, ymax := some 22, cx := none,
                          cy := some 12, width := some 10, height := none, dx := none, dy := none,
                          shape := cs!"rect" }
    let q : Position := { xmin := none, ymin := some 2, xmax := some 11, ymax := none, cx := some 6,
                          cy := none, width := none, height := some 20, dx := none, dy := none,
                          shape := cs!"rect" }
    p.to_bbox = some ⟨1, 2, 11, 22⟩ ∧ q.to_bbox = some ⟨1, 2, 11, 22⟩ := by
  decide +kernel

end Svgdx.Props.C11

#print axioms Svgdx.Props.C11.extent_complete
#print axioms Svgdx.Props.C11.extent_respects_start
#print axioms Svgdx.Props.C11.to_bbox_complete
#print axioms Svgdx.Props.C11.pairs_agree
#print axioms Svgdx.Props.C11.circle_one_position_per_axis
#print axioms Svgdx.Props.C11.setPositionAttrs_congr
