/-
  C14 — `{{…}}` expressions follow conventional semantics.

  The evaluator under test is the model of svgdx/src/expression.rs + functions.rs in
  `Svgdx.Expr.{Token,Funcs,Eval}` (tied to the code by the `expr/*` correspondence streams of the
  harness, which run it with `Float32` against the implementation).  The specification is
  `Svgdx.Expr.Spec`: a grammar-shaped syntax tree per precedence level, its printer `p…`, and its
  conventional denotation `d…` (compositional, left to right, every operand evaluated exactly once).

  All theorems are PARAMETRIC in the number operations `o : Ops α σ` (so they hold for `f32`
  single-precision arithmetic as well as for exact rationals — both sides apply the same operations in
  the same order), in the variable lookup `lk` and in the element lookup `elref`.

  The language rules that are the grammar's own (and are mirrored, not judged): `1e-3` does not lex
  (`-` always splits), `a lt b lt c` is rejected (one comparison per operand pair), `and/or/xor` share
  one precedence level and associate to the left.
-/
import Svgdx.Proofs.ExprDraws
import Svgdx.Proofs.ExprErr
import Svgdx.Proofs.ExprLex
import Svgdx.Proofs.ExprIdem
import Svgdx.Proofs.ExprInvAll
import Svgdx.Proofs.ExprArity
import Svgdx.Proofs.ExprRat
import Svgdx.Base.Pcg
import Mathlib.Tactic.SplitIfs

namespace Svgdx.Props.C14
open Svgdx Svgdx.Expr

section
variable {α σ : Type} (o : Ops α σ) (lk : Lookup α σ) (elref : Str → Res α)

/-!
### 1. Evaluating the printed form of any tree yields its conventional denotation
-/

/-- **eval_print.**  For every comma list `l` of the grammar (any depth, all operators, function calls,
    variables, parentheses, unary minus): if the conventional denotation of `l` is a value `v` (and
    leaves the random source in state `st'`), then the evaluator, run on the tokens of `l` with the
    fuel the entry point supplies, returns exactly `v` and `st'`. -/
theorem eval_print (l : EList α) (ck : List Str) (st st' : σ) (v : Value α)
    (hd : dEList o lk elref l ck st = .ok (v, st')) :
    evaluate o lk elref ck (pEList l) st = .ok (v, st') :=
  evaluate_print o lk elref l ck st st' v hd

/-- the same for one expression in context: whatever admissible tokens `rest` follow (end of input,
    `)`, `,`), they are left untouched; any fuel ≥ the size of the tree is enough. -/
theorem eval_print_expr (e : Logic α) (ck : List Str) (st st' : σ) (v : Value α)
    (rest : List (Token α)) (fuel : Nat) (hd : dLogic o lk elref e ck st = .ok (v, st'))
    (hf : szLogic e ≤ fuel) (hr : headLevel rest < 2) :
    logical o lk elref fuel ck (pLogic e ++ rest) st = .ok (v, rest, st') :=
  logical_ok o lk elref e ck st st' v rest fuel hd hf hr

/-- **eval_print, error direction.**  If the conventional denotation of `l` is an error (an operator
    applied to a list or a string, a failing function, a failing variable …), evaluating the printed
    form fails too. -/
theorem eval_print_fails (l : EList α) (ck : List Str) (st : σ) (e : Err)
    (hd : dEList o lk elref l ck st = .error e) :
    ∃ e', evaluate o lk elref ck (pEList l) st = .error e' :=
  evaluate_print_err o lk elref l ck st e hd

/-- **eval_print_iff.**  The evaluator yields a value on the printed form of a tree exactly when the
    conventional denotation does, and then it is the same value and the same state. -/
theorem eval_print_iff (l : EList α) (ck : List Str) (st : σ) (r : Value α × σ) :
    evaluate o lk elref ck (pEList l) st = .ok r ↔ dEList o lk elref l ck st = .ok r := by
  constructor
  · intro h
    cases hd : dEList o lk elref l ck st with
    | error e =>
      obtain ⟨e', he'⟩ := eval_print_fails o lk elref l ck st e hd
      rw [he'] at h
      cases h
    | ok r' =>
      obtain ⟨v, st'⟩ := r'
      rw [eval_print o lk elref l ck st st' v hd] at h
      exact h
  · intro h
    obtain ⟨v, st'⟩ := r
    exact eval_print o lk elref l ck st st' v h

/-- **tokenize_render** (lexer round trip).  A token string written out with `renderTok` — numbers by
    any function `pr` whose output is made of ordinary characters and parses back (`Lexable`), strings
    in single quotes with `\\`, `\n`, `\'` escapes — every token followed by a non-empty run of
    blanks or tabs, tokenizes to exactly those tokens.  (Negative literals are not tokens: `-` always
    splits, the printed tree writes `- x`; `#ref` tokens are not covered.) -/
theorem tokenize_render (pr : α → Str) (l : List (Token α × Str))
    (h : ∀ p ∈ l, Lexable o pr p.1 ∧ IsWs p.2) :
    tokenize o (render pr l) = .ok (l.map (·.1)) :=
  tokenize_render' o pr l h

/-- **eval_print on strings.**  The body of a `{{…}}`: the characters of any printed tree, with any
    blank/tab runs `ws` after the tokens, evaluate (`eval_str`) to the display form of the conventional
    denotation of the tree. -/
theorem eval_print_string (env : Env) (pr : α → Str) (l : EList α) (ws : List Str) (st st' : σ)
    (v : Value α) (hlen : (pEList l).length ≤ ws.length)
    (hlex : ∀ p ∈ (pEList l).zip ws, Lexable o pr p.1 ∧ IsWs p.2)
    (hdepth : nestingDepth (pEList l) ≤ maxExprDepth)
    (hd : dEList o (lookup o env elref (nestingDepth (pEList l) + 1)) elref l [] st = .ok (v, st')) :
    evalStr o env elref (render pr ((pEList l).zip ws)) st = .ok (v.display o, st') := by
  unfold evalStr
  rw [tokenize_render o pr _ hlex, List.map_fst_zip hlen]
  have hn : ¬ (nestingDepth (pEList l) > maxExprDepth) := by omega
  simp only [evaluateAt, Nat.zero_add,
    eval_print o (lookup o env elref _) elref l [] st st' v hd, if_neg hn]

/-- **an expression nested too deeply fails before anything is parsed** (and so before anything is
    evaluated): the guard that replaces the stack overflow of the recursive parser -/
theorem too_deep_fails (env : Env) (value : Str) (ts : List (Token α)) (st : σ)
    (ht : tokenize o value = .ok ts) (hd : maxExprDepth < nestingDepth ts) :
    evalStr o env elref value st = .error .depthLimit := by
  unfold evalStr
  rw [ht]
  simp only [evaluateAt, Nat.zero_add, hd, if_true]

/-!
### 2. Precedence and associativity (corollaries on explicit token strings)
-/

private def numF (x : α) : Fact α := .mk (.num x) .nil
private def numT (x : α) : Term α := .mk (numF x) .nil
private def one1 (t : Term α) : EList α := .mk (.mk (.single t) .nil) .nil

/-- `a - b - c = (a - b) - c` -/
theorem sub_left_assoc (a b c : α) (ck : List Str) (st : σ) :
    evaluate o lk elref ck [.number a, .sub, .number b, .sub, .number c] st
      = .ok (.list [.num (o.sub (o.sub a b) c)], st) := by
  have := eval_print o lk elref
    (one1 (.mk (numF a) (.cons false (numF b) (.cons false (numF c) .nil)))) ck st st
    (.list [.num (o.sub (o.sub a b) c)])
    (by simp [one1, numF, dEList, dETail, dLogic, dLogTail, dCmp, dTerm, dAddTail, dFact, dMulTail,
          dPrim, Value.oneNumber, Value.num, normalize, Value.flatten])
  simpa [one1, numF, pEList, pETail, pLogic, pLogTail, pCmp, pTerm, pAddTail, pFact, pMulTail,
    pPrim] using this

/-- `a + b * c = a + (b * c)` -/
theorem mul_binds_tighter (a b c : α) (ck : List Str) (st : σ) :
    evaluate o lk elref ck [.number a, .add, .number b, .mul, .number c] st
      = .ok (.list [.num (o.add a (o.mul b c))], st) := by
  have := eval_print o lk elref
    (one1 (.mk (numF a) (.cons true (.mk (.num b) (.cons .mul (.num c) .nil)) .nil))) ck st st
    (.list [.num (o.add a (o.mul b c))])
    (by simp [one1, numF, dEList, dETail, dLogic, dLogTail, dCmp, dTerm, dAddTail, dFact, dMulTail,
          dPrim, Value.oneNumber, Value.num, normalize, Value.flatten, MulOp.apply])
  simpa [one1, numF, pEList, pETail, pLogic, pLogTail, pCmp, pTerm, pAddTail, pFact, pMulTail,
    pPrim, MulOp.tok] using this

/-- `a * b + c = (a * b) + c` and `a / b % c = (a / b) % c` (left to right among `* / %`) -/
theorem mul_level_left_assoc (a b c : α) (ck : List Str) (st : σ) :
    evaluate o lk elref ck [.number a, .div, .number b, .mod, .number c] st
      = .ok (.list [.num (o.remEuclid (o.div a b) c)], st) := by
  have := eval_print o lk elref
    (one1 (.mk (.mk (.num a) (.cons .div (.num b) (.cons .mod (.num c) .nil))) .nil)) ck st st
    (.list [.num (o.remEuclid (o.div a b) c)])
    (by simp [one1, dEList, dETail, dLogic, dLogTail, dCmp, dTerm, dAddTail, dFact, dMulTail,
          dPrim, Value.oneNumber, Value.num, normalize, Value.flatten, MulOp.apply])
  simpa [one1, pEList, pETail, pLogic, pLogTail, pCmp, pTerm, pAddTail, pFact, pMulTail,
    pPrim, MulOp.tok] using this

/-- unary minus binds tighter than `*`: `-a * b = (-a) * b` -/
theorem neg_binds_tightest (a b : α) (ck : List Str) (st : σ) :
    evaluate o lk elref ck [.sub, .number a, .mul, .number b] st
      = .ok (.list [.num (o.mul (o.neg a) b)], st) := by
  have := eval_print o lk elref
    (one1 (.mk (.mk (.neg (.num a)) (.cons .mul (.num b) .nil)) .nil)) ck st st
    (.list [.num (o.mul (o.neg a) b)])
    (by simp [one1, dEList, dETail, dLogic, dLogTail, dCmp, dTerm, dAddTail, dFact, dMulTail,
          dPrim, Value.oneNumber, Value.num, normalize, Value.flatten, MulOp.apply])
  simpa [one1, pEList, pETail, pLogic, pLogTail, pCmp, pTerm, pAddTail, pFact, pMulTail,
    pPrim, MulOp.tok] using this

/-- parentheses override precedence: `(a + b) * c` -/
theorem parens_override (a b c : α) (ck : List Str) (st : σ) :
    evaluate o lk elref ck
        [.openParen, .number a, .add, .number b, .closeParen, .mul, .number c] st
      = .ok (.list [.num (o.mul (o.add a b) c)], st) := by
  have := eval_print o lk elref
    (one1 (.mk (.mk (.paren (.some (one1 (.mk (numF a) (.cons true (numF b) .nil)))))
      (.cons .mul (.num c) .nil)) .nil)) ck st st
    (.list [.num (o.mul (o.add a b) c)])
    (by simp [one1, numF, dEList, dETail, dLogic, dLogTail, dCmp, dTerm, dAddTail, dFact, dMulTail,
          dPrim, dArgs, Value.oneNumber, Value.num, normalize, Value.flatten, MulOp.apply])
  simpa [one1, numF, pEList, pETail, pLogic, pLogTail, pCmp, pTerm, pAddTail, pFact, pMulTail,
    pPrim, pArgs, MulOp.tok] using this

/-- a comparison yields `1` or `0`, and binds looser than `+`: `a + b lt c` is `(a + b) lt c` -/
theorem comparison_zero_one (a b c : α) (ck : List Str) (st : σ) :
    evaluate o lk elref ck [.number a, .add, .number b, .symbol CmpOp.Lt.name, .number c] st
      = .ok (.list [.num (Expr.bool o (o.lt (o.add a b) c))], st) := by
  have := eval_print o lk elref
    (.mk (.mk (.pair (.mk (numF a) (.cons true (numF b) .nil)) .Lt (numT c)) .nil) .nil) ck st st
    (.list [.num (Expr.bool o (o.lt (o.add a b) c))])
    (by simp [numT, numF, dEList, dETail, dLogic, dLogTail, dCmp, dTerm, dAddTail, dFact, dMulTail,
          dPrim, Value.oneNumber, Value.num, Value.flatten, cmpApply])
  simpa [numT, numF, pEList, pETail, pLogic, pLogTail, pCmp, pTerm, pAddTail, pFact, pMulTail,
    pPrim] using this

/-- every comparison result is `one` or `zero` -/
theorem comparison_result_zero_or_one (op : CmpOp) (a b : α) :
    Expr.bool o (cmpApply o op a b) = o.one ∨ Expr.bool o (cmpApply o op a b) = o.zero := by
  unfold Expr.bool
  split <;> simp

/-- `and / or / xor` share one level and associate to the left: `a or b and c = (a or b) and c`,
    with `1`/`0` results -/
theorem logical_one_level (a b c : α) (ck : List Str) (st : σ) :
    evaluate o lk elref ck
        [.number a, .symbol LogOp.Or.name, .number b, .symbol LogOp.And.name, .number c] st
      = .ok (.list [.num (Expr.bool o (logApply o .And (Expr.bool o (logApply o .Or a b)) c))], st) := by
  have := eval_print o lk elref
    (.mk (.mk (.single (numT a)) (.cons .Or (.single (numT b)) (.cons .And (.single (numT c)) .nil)))
      .nil) ck st st
    (.list [.num (Expr.bool o (logApply o .And (Expr.bool o (logApply o .Or a b)) c))])
    (by simp [numT, numF, dEList, dETail, dLogic, dLogTail, dCmp, dTerm, dAddTail, dFact, dMulTail,
          dPrim, Value.oneNumber, Value.num, normalize, Value.flatten])
  simpa [numT, numF, pEList, pETail, pLogic, pLogTail, pCmp, pTerm, pAddTail, pFact, pMulTail,
    pPrim] using this

/-- a comma list is the list of its values, nested lists flatten: `a, (b, c)` is `a, b, c` -/
theorem list_flattens (a b c : α) (ck : List Str) (st : σ) :
    evaluate o lk elref ck
        [.number a, .comma, .openParen, .number b, .comma, .number c, .closeParen] st
      = .ok (.list [.num a, .num b, .num c], st) := by
  have := eval_print o lk elref
    (.mk (.mk (.single (numT a)) .nil) (.cons (.mk (.single (.mk (.mk (.paren (.some
      (.mk (.mk (.single (numT b)) .nil) (.cons (.mk (.single (numT c)) .nil) .nil)))) .nil) .nil))
      .nil) .nil)) ck st st (.list [.num a, .num b, .num c])
    (by simp [numT, numF, dEList, dETail, dLogic, dLogTail, dCmp, dTerm, dAddTail, dFact, dMulTail,
          dPrim, dArgs, Value.oneNumber, Value.num, normalize, Value.flatten])
  simpa [numT, numF, pEList, pETail, pLogic, pLogTail, pCmp, pTerm, pAddTail, pFact, pMulTail,
    pPrim, pArgs] using this

/-- trigonometry is in degrees: `sin(x)` is the sine of `x·π/180` (whatever `sin` and the
    degree-to-radian conversion of the number operations are) -/
theorem sin_in_degrees (x : α) (st : σ) :
    evalFunction o .Sin (.list [.num x]) st = .ok (Value.num (o.sin (o.toRadians x)), st) := by
  simp [evalFunction, Value.oneNumber]

/-!
### 3. The remainder is never negative
-/

/-- **rem_nonneg.**  Over exact rationals the `%` of the expression language (Rust `rem_euclid`)
    is never negative for a non-zero divisor, and smaller than its magnitude. -/
theorem rem_nonneg (a b : Rat) (hb : b ≠ 0) :
    0 ≤ ratRemEuclid a b ∧ ratRemEuclid a b < Rq.abs b :=
  ⟨ratRemEuclid_nonneg a b hb, ratRemEuclid_lt a b hb⟩

/-- … and it is what the `%` token computes in the rational instance -/
theorem rem_is_percent {τ : Type} (m : Libm Rat) (rnd : τ → Rat × τ) (rint : Int → Int → τ → Rat × τ)
    (lk' : Lookup Rat τ) (er : Str → Res Rat) (a b : Rat) (ck : List Str) (st : τ) :
    evaluate (ratOps m rnd rint) lk' er ck [.number a, .mod, .number b] st
      = .ok (.list [.num (ratRemEuclid a b)], st) := by
  have := eval_print (ratOps m rnd rint) lk' er
    (one1 (.mk (.mk (.num a) (.cons .mod (.num b) .nil)) .nil)) ck st st
    (.list [.num (ratRemEuclid a b)])
    (by simp [one1, dEList, dETail, dLogic, dLogTail, dCmp, dTerm, dAddTail, dFact, dMulTail,
          dPrim, Value.oneNumber, Value.num, normalize, Value.flatten, MulOp.apply, ratOps])
  simpa [one1, pEList, pETail, pLogic, pLogTail, pCmp, pTerm, pAddTail, pFact, pMulTail,
    pPrim, MulOp.tok] using this

/-!
### 4. Random functions advance exactly once per occurrence (no short circuit)
-/

/-- **draws_eq_occurrences.**  Let `m` observe the number of `random()`/`randint()` calls made on a
    state of the random source (`Counts`: each call adds one, evaluating variable `x` adds `vd x`).
    Then a successful evaluation of the printed tree `l` advances it by exactly the number of
    `random`/`randint` call nodes of `l` (+ what its variables draw) — every operand of `and`/`or`,
    every argument of `if(…)`, every list item is evaluated exactly once. -/
theorem draws_eq_occurrences (m : σ → Nat) (vd : Str → Nat) (hc : Counts o lk m vd)
    (l : EList α) (ck : List Str) (st st' : σ) (v : Value α)
    (hd : dEList o lk elref l ck st = .ok (v, st')) :
    evaluate o lk elref ck (pEList l) st = .ok (v, st') ∧ m st' = m st + rcEList vd l :=
  ⟨eval_print o lk elref l ck st st' v hd, dEList_count o lk elref m vd hc l ck st st' v hd⟩

/-- the model of `Pcg32` satisfies the hypothesis with `m = calls` -/
theorem pcg_counts_random (r : Pcg.Rng) : (Pcg.randomF32Num r).2.calls = r.calls + 1 := by
  simp [Pcg.randomF32Num, Pcg.nextU32]

private theorem ite_prop {β : Type} (P : β → Prop) (c : Prop) [Decidable c] (p q : β)
    (hp : P p) (hq : P q) : P (if c then p else q) := by
  split <;> assumption

theorem pcg_counts_randint (lo hi : Int) (r : Pcg.Rng) :
    (Pcg.randomRangeI32 lo hi r).2.calls = r.calls + 1 := by
  unfold Pcg.randomRangeI32
  simp only [Pcg.nextU32]
  refine ite_prop (fun x : Int × Pcg.Rng => x.2.calls = r.calls + 1) _ _ _ rfl ?_
  exact ite_prop (fun x : Int × Pcg.Rng => x.2.calls = r.calls + 1) _ _ _ rfl rfl

/-- … taking one 32-bit word per `random()` and one or two per `randint()` -/
theorem pcg_words (lo hi : Int) (r : Pcg.Rng) :
    (Pcg.randomF32Num r).2.draws = r.draws + 1 ∧
      ((Pcg.randomRangeI32 lo hi r).2.draws = r.draws + 1 ∨
        (Pcg.randomRangeI32 lo hi r).2.draws = r.draws + 2) := by
  refine ⟨by simp [Pcg.randomF32Num, Pcg.nextU32], ?_⟩
  unfold Pcg.randomRangeI32
  simp only [Pcg.nextU32]
  refine ite_prop (fun x : Int × Pcg.Rng => x.2.draws = r.draws + 1 ∨ x.2.draws = r.draws + 2)
    _ _ _ (Or.inl rfl) ?_
  exact ite_prop (fun x : Int × Pcg.Rng => x.2.draws = r.draws + 1 ∨ x.2.draws = r.draws + 2)
    _ _ _ (Or.inr rfl) (Or.inl rfl)

/-- **eval_once_per_element_partial.**  The pipeline resolves an element more than once; the second
    pass sees the strings the first pass produced.  If such a string contains neither `$` nor `{{`
    (true of every number in `fstr` form — that part is the hypothesis, it is a fact about the
    number formatter, checked by the `oracle/doc` stream through the observed draw counts), evaluating
    it again returns it unchanged and does not touch the random source: each expression occurrence is
    evaluated once per rendered element. -/
theorem eval_once_per_element_partial (env : Env) (v r : Str) (st st' : σ)
    (_first : evalAttr o env elref v st = .ok (r, st'))
    (h1 : '$' ∉ r) (h2 : Str.findSub ['{', '{'] r = none) :
    evalAttr o env elref r st' = .ok (r, st') :=
  evalAttr_plain o env elref r st' h1 h2

/-!
### 5. Malformed expressions fail
-/

/-- what a successful evaluation of ANY token string has seen: balanced parentheses, and only names
    that are functions or operators, variables that evaluate, element references that resolve -/
theorem success_needs_wellformed (ck : List Str) (ts : List (Token α)) (st st' : σ) (v : Value α)
    (h : evaluate o lk elref ck ts st = .ok (v, st')) :
    bal ts = 0 ∧ ∀ t ∈ ts, GoodTok lk elref t :=
  evaluate_ok_inv o lk elref ck ts st st' v h

private theorem fails_of_not_ok (r : Res (Value α × σ)) (h : ∀ x, r ≠ .ok x) : ∃ e, r = .error e := by
  cases r with
  | error e => exact ⟨e, rfl⟩
  | ok x => exact absurd rfl (h x)

/-- **unbalanced parentheses** (any token string with more `(` than `)` or vice versa) fail -/
theorem unbalanced_fails (ck : List Str) (ts : List (Token α)) (st : σ) (h : bal ts ≠ 0) :
    ∃ e, evaluate o lk elref ck ts st = .error e := by
  apply fails_of_not_ok
  intro x hx
  exact h (success_needs_wellformed o lk elref ck ts st x.2 x.1 hx).1

/-- **unknown function**: a name that is neither a built-in function nor an operator, anywhere in the
    token string, fails the evaluation -/
theorem unknown_function_fails (ck : List Str) (ts : List (Token α)) (st : σ) (name : Str)
    (hin : Token.symbol name ∈ ts) (hf : parseFunction name = .unknown)
    (hc : parseCmpOp name = none) (hl : parseLogOp name = none) :
    ∃ e, evaluate o lk elref ck ts st = .error e := by
  apply fails_of_not_ok
  intro x hx
  have := (success_needs_wellformed o lk elref ck ts st x.2 x.1 hx).2 _ hin
  simp [GoodTok, hf, hc, hl] at this

/-- **undefined (or otherwise unevaluable) variable**: fails the evaluation of any token string that
    mentions it -/
theorem unevaluable_variable_fails (ck : List Str) (ts : List (Token α)) (st : σ) (x : Str)
    (hin : Token.var x ∈ ts) (hv : ∀ ck' st', ∃ e, lk x ck' st' = .error e) :
    ∃ e, evaluate o lk elref ck ts st = .error e := by
  apply fails_of_not_ok
  intro r hr
  obtain ⟨ck', st', r', h'⟩ := (success_needs_wellformed o lk elref ck ts st r.2 r.1 hr).2 _ hin
  obtain ⟨e, he⟩ := hv ck' st'
  rw [he] at h'
  cases h'

/-- `lookup` of a name the context does not define is a `ParseError` -/
theorem undefined_variable_error (env : Env) (n base : Nat) (x : Str) (ck : List Str) (st : σ)
    (hx : assoc x env = none) (hck : x ∉ ck) :
    lookupN o env elref (n + 1) base x ck st = .error .parse := by
  simp [lookupN, hx, hck]

/-- **undefined variable** at the level of the `{{…}}` body -/
theorem undefined_variable_fails (env : Env) (ts : List (Token α)) (st : σ) (x : Str)
    (hin : Token.var x ∈ ts) (hx : assoc x env = none) :
    ∃ e, evaluateAt o (lookup o env elref) elref 0 [] ts st = .error e := by
  unfold evaluateAt
  split
  · exact ⟨_, rfl⟩
  · apply unevaluable_variable_fails o (lookup o env elref _) elref [] ts st x hin
    intro ck' st'
    unfold lookup lookupN
    split
    · exact ⟨_, rfl⟩
    · simp [hx]

/-- **circular variable**: looking up a variable that is already being expanded is a
    `CircularRefError` -/
theorem circular_variable_error (env : Env) (n base : Nat) (x : Str) (ck : List Str) (st : σ)
    (hck : x ∈ ck) :
    lookupN o env elref (n + 1) base x ck st = .error .circular := by
  simp [lookupN, hck]

/-- a variable whose own value mentions it can never be evaluated, at any nesting budget -/
theorem self_reference_fails (env : Env) (x : Str) (inner : Str) (ts : List (Token α))
    (hx : assoc x env = some inner) (ht : tokenize o inner = .ok ts) (hin : Token.var x ∈ ts) :
    ∀ n base ck st, ∃ e, lookupN o env elref n base x ck st = .error e := by
  intro n
  induction n with
  | zero => intro base ck st; exact ⟨_, rfl⟩
  | succ n ih =>
    intro base ck st
    unfold lookupN
    split
    · exact ⟨_, rfl⟩
    · simp only [hx, ht]
      cases ts with
      | nil => cases hin
      | cons t r =>
        simp only
        unfold evaluateAt
        split
        · exact ⟨_, rfl⟩
        · exact unevaluable_variable_fails o (lookupN o env elref n _) elref (x :: ck) (t :: r) st x hin
            (fun ck' st' => ih _ ck' st')

/-- **wrong arity**: a built-in with a fixed number of parameters applied to another number of
    (flattened) arguments fails -/
theorem wrong_arity_fails (f : Func) (args : Value α) (st : σ) (n : Nat) (ha : f.arity = some n)
    (hn : args.flatten.length ≠ n) : ∃ e, evalFunction o f args st = .error e := by
  cases h : evalFunction o f args st with
  | error e => exact ⟨e, rfl⟩
  | ok r => exact absurd (evalFunction_ok_arity o f args st r n ha h) hn

/-- … so the expression `f(args)` fails whenever the arguments evaluate to the wrong number of values -/
theorem wrong_arity_call_fails (f : Func) (a : Args α) (ck : List Str) (st st1 : σ) (args : Value α)
    (n : Nat) (ha : f.arity = some n) (hargs : dArgs o lk elref a ck st = .ok (args, st1))
    (hn : args.flatten.length ≠ n) :
    ∃ e, evaluate o lk elref ck
      ([.symbol f.name, .openParen] ++ pArgs a ++ [.closeParen]) st = .error e := by
  obtain ⟨e, he⟩ := wrong_arity_fails o f args st1 n ha hn
  have := eval_print_fails o lk elref (one1 (.mk (.mk (.call f a) .nil) .nil)) ck st e
    (by simp [one1, dEList, dLogic, dCmp, dTerm, dFact, dPrim, hargs, he])
  simpa [one1, pEList, pETail, pLogic, pLogTail, pCmp, pTerm, pAddTail, pFact, pMulTail, pPrim]
    using this

end

/-!
### 6. Concrete instances (the hypotheses are satisfiable; the model computes)
-/

/-- a small integer instance (kernel-evaluable: no well-founded recursion), "random" numbers
    10, 11, 12 … with the state counting the calls -/
def showNat : Nat → Nat → Str
  | 0, _ => []
  | fuel + 1, n => if n < 10 then [Char.ofNat (48 + n)] else showNat fuel (n / 10) ++ [Char.ofNat (48 + n % 10)]

def showInt (i : Int) : Str :=
  if i < 0 then '-' :: showNat 20 i.natAbs else showNat 20 i.toNat

def demoOps : Ops Int Nat where
  parse := fun s => if !s.isEmpty && s.all Str.isDigit then some (Num.digitsToNat s : Int) else none
  fstr := showInt
  zero := 0
  one := 1
  add := (· + ·)
  sub := (· - ·)
  mul := (· * ·)
  div := Int.tdiv
  remEuclid := Int.emod
  divEuclid := Int.ediv
  neg := fun x => -x
  lt := fun a b => decide (a < b)
  le := fun a b => decide (a ≤ b)
  eq := fun a b => a == b
  totalLe := fun a b => decide (a ≤ b)
  isNaN := fun _ => false
  floor := id
  ceil := id
  trunc := id
  abs := fun x => (x.natAbs : Int)
  signum := Int.sign
  sqrt := id
  ln := id
  exp := id
  pow := fun a b => a ^ b.toNat
  sin := id
  cos := id
  tan := id
  asin := id
  acos := id
  atan := id
  atan2 := fun a _ => a
  hypot := fun a _ => a
  toRadians := id
  toDegrees := id
  toUsize := Int.toNat
  toI32 := id
  ofNat := fun n => (n : Int)
  random := fun n => ((n : Int) + 10, n + 1)
  randint := fun lo _ n => (lo, n + 1)

def demoEnv : Env := [(cs!"w", cs!"4"), (cs!"pair", cs!"3, 5"), (cs!"loop", cs!"$loop + 1")]

def demoEval (s : Str) : Res (Str × Nat) :=
  evalAttr demoOps demoEnv (fun _ => .error .reference) s 0

example : demoEval cs!"x={{1 + 2 * 3 - 4 - 5}} y={{-2 * 3}} z={{(1 + 2) * 3}}"
    = .ok (cs!"x=-2 y=-6 z=9", 0) := by decide
example : demoEval cs!"{{-7 % 3}} {{7 % -3}} {{divmod(-7, 3)}}" = .ok (cs!"2 1 -3, 2", 0) := by decide
example : demoEval cs!"{{1 lt 2}} {{2 lt 1}} {{1 or 0 and 0}} {{$w * 2, sum($pair)}}"
    = .ok (cs!"1 0 0 8, 8", 0) := by decide
/-- no short circuit: both branches of `if` and both operands of `or` draw -/
example : demoEval cs!"{{if(1, random(), random())}} {{1 or random()}}" = .ok (cs!"10 1", 3) := by
  decide
/-- the lexer round trip on a concrete rendering (blank, tab, two blanks) -/
example : tokenize demoOps (render showInt
      [(.number 12, [' ']), (.mul, ['\t']), (.var cs!"w", [' ', ' ']), (.string cs!"it's", [' '])])
    = .ok [.number 12, .mul, .var cs!"w", .string cs!"it's"] := by rfl
example : Lexable demoOps showInt (.number 12) := by
  refine ⟨by decide, ?_, by rfl⟩
  intro c hc
  have : c = '1' ∨ c = '2' := by simpa [showInt, showNat] using hc
  rcases this with rfl | rfl <;> rfl
example : demoEval cs!"{{(1 + 2}}" = .error .parse := by decide
example : demoEval cs!"{{sine(30)}}" = .error .parse := by decide
example : demoEval cs!"{{abs(1, 2)}}" = .error .parse := by decide
example : demoEval cs!"{{$nosuch}}" = .error .parse := by decide
example : demoEval cs!"{{$loop}}" = .error .circular := by decide
example : demoEval cs!"{{1e-3}}" = .error .parse := by decide
example : demoEval cs!"{{1 lt 2 lt 3}}" = .error .parse := by decide

end Svgdx.Props.C14

#print axioms Svgdx.Props.C14.eval_print
#print axioms Svgdx.Props.C14.eval_print_expr
#print axioms Svgdx.Props.C14.eval_print_fails
#print axioms Svgdx.Props.C14.eval_print_iff
#print axioms Svgdx.Props.C14.tokenize_render
#print axioms Svgdx.Props.C14.eval_print_string
#print axioms Svgdx.Props.C14.too_deep_fails
#print axioms Svgdx.Props.C14.sub_left_assoc
#print axioms Svgdx.Props.C14.mul_binds_tighter
#print axioms Svgdx.Props.C14.mul_level_left_assoc
#print axioms Svgdx.Props.C14.neg_binds_tightest
#print axioms Svgdx.Props.C14.parens_override
#print axioms Svgdx.Props.C14.comparison_zero_one
#print axioms Svgdx.Props.C14.comparison_result_zero_or_one
#print axioms Svgdx.Props.C14.logical_one_level
#print axioms Svgdx.Props.C14.list_flattens
#print axioms Svgdx.Props.C14.sin_in_degrees
#print axioms Svgdx.Props.C14.rem_nonneg
#print axioms Svgdx.Props.C14.rem_is_percent
#print axioms Svgdx.Props.C14.draws_eq_occurrences
#print axioms Svgdx.Props.C14.pcg_counts_random
#print axioms Svgdx.Props.C14.pcg_counts_randint
#print axioms Svgdx.Props.C14.pcg_words
#print axioms Svgdx.Props.C14.eval_once_per_element_partial
#print axioms Svgdx.Props.C14.success_needs_wellformed
#print axioms Svgdx.Props.C14.unbalanced_fails
#print axioms Svgdx.Props.C14.unknown_function_fails
#print axioms Svgdx.Props.C14.unevaluable_variable_fails
#print axioms Svgdx.Props.C14.undefined_variable_error
#print axioms Svgdx.Props.C14.undefined_variable_fails
#print axioms Svgdx.Props.C14.circular_variable_error
#print axioms Svgdx.Props.C14.self_reference_fails
#print axioms Svgdx.Props.C14.wrong_arity_fails
#print axioms Svgdx.Props.C14.wrong_arity_call_fails

