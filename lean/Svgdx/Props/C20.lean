/-
  C20 — Auto-styles are self-consistent, minimal and leave author styles alone
  (and the theme part of C06: the order of generated rules and definitions).

  All theorems are about `Svgdx.Theme.build`, the model of `ThemeBuilder::build` over the GENERATED
  tables of themes.rs / colours.rs (tied to the code by the translator and by the `theme/*`
  correspondence streams of the harness).  They hold for ALL class lists and element lists
  (no bound; the proofs go through the predicates the builder tests), all six themes and all
  background / font / local-id settings (`cfg` is universally quantified everywhere).

  Reading aid.  `keyOf r` is the class a CSS rule is *for*, read off its text: the selector starts
  with `.K`, `text.K` or `line.K`.  `isReserved k` is the reserved vocabulary: the fixed class
  names, the four classes of every colour of `COLOUR_LIST`, and the pattern classes (a pattern prefix,
  bare or followed by `-` and a `u32` ≤ 100).  `textKeys` are the classes of `append_text_styles`.
  `urlRefs s` are the ids referenced as `url(#id)` in `s`, `declIds d` the ids declared as `id="…"`.

  Not modelled here: the splice of the generated `<defs>`/`<style>` block into the event list
  (`write_auto_styles` / `postprocess`): "author content kept" and "nothing injected when disabled or
  without a root <svg>" are checked on the implementation by the `oracle/doc-*` streams only.
-/
import Svgdx.Proofs.ThemeNodup

namespace Svgdx.Props.C20
open Svgdx Svgdx.Theme Str

/-! ### the hand-written control skeleton is the one in the source -/

/-- the order of the `append_*` calls in `Theme::build` (generated) is the order `stylesT` uses;
    the numeric literals of the pattern functions and the theme names are the ones the model reads -/
theorem build_order_checked :
    Gen.Theme.build_order =
      [cs!"append_early_styles", cs!"append_common_styles", cs!"append_colour_styles",
       cs!"append_stroke_width_styles", cs!"append_text_styles", cs!"append_arrow_styles",
       cs!"append_dash_styles", cs!"append_pattern_styles", cs!"d_softshadow", cs!"d_hardshadow",
       cs!"append_late_styles"] ∧
    Gen.Theme.append_pattern_styles_numbers = [cs!"45", cs!"75", cs!"45", cs!"100", cs!"1"] ∧
    Gen.Theme.pattern_defs_numbers = [cs!"10.", cs!"2.", cs!"5."] ∧
    ThemeKind.all.map ThemeKind.variant = Gen.ThemeType.names.map (·.2) ∧
    spacingLimit = 100 ∧ defaultSpacing = 1 := by decide +kernel

/-! ### (a) a rule is emitted iff its class is used -/

/-- MINIMALITY, every family at once: a rule whose selector names class `k` is emitted only if `k` is
    in the class list, `k` is in the reserved vocabulary, and — for the text family — a `text`
    element exists. -/
theorem no_rule_without_class (cfg : ThemeCfg) (classes elements : List Str) (r k : Str)
    (hr : r ∈ (build cfg classes elements).2) (hk : keyOf r = some k) :
    k ∈ classes ∧ isReserved k = true ∧ (k ∈ textKeys → cs!"text" ∈ elements) := by
  have h := key_of_mem_styles sortU_sub hr hk
  exact ⟨h.1, h.2.2, fun ht => hasText_iff.mp (h.2.1 ht)⟩

/-- d-fill-‹colour›: `.d-fill-c { fill: c; }` is emitted iff `d-fill-c` is used -/
theorem fill_rule_iff_used (cfg : ThemeCfg) (classes elements : List Str) (c : Str) (hc : c ∈ Gen.COLOUR_LIST) :
    (cs!".d-fill-" ++ (c ++ (cs!" { fill: " ++ (c ++ cs!"; }")))) ∈ (build cfg classes elements).2 ↔
    (cs!"d-fill-" ++ c) ∈ classes := by
  rw [← fillRule_eq, ← fillClass_eq]
  exact ⟨fun h => (key_of_mem_styles sortU_sub h (fill_facts c hc).1).1, fun h => (present_fill hc h).1⟩

/-- … and so is its companion `text.d-fill-c, text.d-fill-c * { fill: white|black; stroke: black|white; }` -/
theorem fill_text_rule_iff_used (cfg : ThemeCfg) (classes elements : List Str) (c : Str) (hc : c ∈ Gen.COLOUR_LIST) :
    fillTextRule c ∈ (build cfg classes elements).2 ↔ (cs!"d-fill-" ++ c) ∈ classes := by
  rw [← fillClass_eq]
  exact ⟨fun h => (key_of_mem_styles sortU_sub h (fill_facts c hc).2.1).1, fun h => (present_fill hc h).2⟩

/-- d-‹colour›: `.d-c { stroke: c; }` iff `d-c` is used -/
theorem stroke_rule_iff_used (cfg : ThemeCfg) (classes elements : List Str) (c : Str) (hc : c ∈ Gen.COLOUR_LIST) :
    (cs!".d-" ++ (c ++ (cs!" { stroke: " ++ (c ++ cs!"; }")))) ∈ (build cfg classes elements).2 ↔
    (cs!"d-" ++ c) ∈ classes := by
  rw [← strokeRule_eq, ← strokeClass_eq]
  exact ⟨fun h => (key_of_mem_styles sortU_sub h (stroke_facts c hc).1).1, fun h => (present_stroke hc h).1⟩

/-- … with the text rule `text.d-c, text.d-c * { fill: c; stroke: white|black; }` for every colour but `none` -/
theorem stroke_text_rule_iff_used (cfg : ThemeCfg) (classes elements : List Str) (c : Str) (hc : c ∈ Gen.COLOUR_LIST)
    (hnone : c ≠ cs!"none") :
    strokeTextRule c ∈ (build cfg classes elements).2 ↔ (cs!"d-" ++ c) ∈ classes := by
  rw [← strokeClass_eq]
  exact ⟨fun h => (key_of_mem_styles sortU_sub h (stroke_facts c hc).2.1).1, fun h => (present_stroke hc h).2 hnone⟩

/-- d-text-‹colour› -/
theorem text_colour_rule_iff_used (cfg : ThemeCfg) (classes elements : List Str) (c : Str) (hc : c ∈ Gen.COLOUR_LIST) :
    textColRule c ∈ (build cfg classes elements).2 ↔ (cs!"d-text-" ++ c) ∈ classes := by
  rw [← textColClass_eq]
  exact ⟨fun h => (key_of_mem_styles sortU_sub h (textCol_facts c hc).1).1, fun h => present_textCol hc h⟩

/-- d-text-ol-‹colour›: `text.d-text-ol-c, text.d-text-ol-c * { stroke: c; stroke-width: 0.5; }` -/
theorem text_ol_colour_rule_iff_used (cfg : ThemeCfg) (classes elements : List Str) (c : Str)
    (hc : c ∈ Gen.COLOUR_LIST) :
    (cs!"text.d-text-ol-" ++ (c ++ (cs!", text.d-text-ol-" ++ (c ++ (cs!" * { stroke: " ++
      (c ++ cs!"; stroke-width: 0.5; }")))))) ∈ (build cfg classes elements).2 ↔
    (cs!"d-text-ol-" ++ c) ∈ classes := by
  rw [← textOlColRule_eq, ← textOlColClass_eq]
  exact ⟨fun h => (key_of_mem_styles sortU_sub h (textOlCol_facts c hc).1).1, fun h => present_textOlCol hc h⟩

/-- the fixed (class, rule) pairs that are not guarded by a `text` element -/
def plainVocab : List (Str × Str) :=
  [(nth bs 6, nth bs 7), (nth ars 0, nth ars 1), (nth ars 2, nth ars 3)] ++
  flowTable.map (fun p => (p.1, flowRule p.1 p.2)) ++
  [(nth dss (dashBase + 2), nth dss (dashBase + 3)), (nth dss (dashBase + 4), nth dss (dashBase + 5)),
   (nth dss (dashBase + 6), nth dss (dashBase + 7)), (nth dss (dashBase + 8), nth dss (dashBase + 9))] ++
  Gen.Theme.build_table.map (fun p => (p.1, nth (shadowStrings p.2) 0))

/-- what `plainVocab` is on the pinned source -/
theorem plainVocab_classes :
    plainVocab.map (·.1) =
      [cs!"d-surround", cs!"d-arrow", cs!"d-biarrow", cs!"d-flow-slower", cs!"d-flow-slow", cs!"d-flow",
       cs!"d-flow-fast", cs!"d-flow-faster", cs!"d-flow-rev", cs!"d-dash", cs!"d-dot", cs!"d-dot-dash",
       cs!"d-softshadow", cs!"d-hardshadow"] := by decide +kernel

/-- surround / arrow / flow / dash / shadow: the rule is emitted iff the class is used -/
theorem plain_rule_iff_used (cfg : ThemeCfg) (classes elements : List Str) (p : Str × Str) (hp : p ∈ plainVocab) :
    p.2 ∈ (build cfg classes elements).2 ↔ p.1 ∈ classes := by
  simp only [plainVocab, List.mem_append, List.mem_cons, List.not_mem_nil, or_false, List.mem_map] at hp
  rcases hp with (((rfl | rfl | rfl) | ⟨q, hq, rfl⟩) | (rfl | rfl | rfl | rfl)) | ⟨q, hq, rfl⟩
  · exact ⟨fun h => (key_of_mem_styles sortU_sub h surround_facts.1).1, present_surround⟩
  · exact ⟨fun h => (key_of_mem_styles sortU_sub h arrow_facts.1).1, present_arrow.1⟩
  · exact ⟨fun h => (key_of_mem_styles sortU_sub h arrow_facts.2.1).1, present_arrow.2.1⟩
  · exact ⟨fun h => (key_of_mem_styles sortU_sub h (flow_facts q hq).1).1, fun h => (present_flow hq h).1⟩
  · exact ⟨fun h => (key_of_mem_styles sortU_sub h dash_facts.2.1).1, present_dash.1⟩
  · exact ⟨fun h => (key_of_mem_styles sortU_sub h dash_facts.2.2.2.1).1, present_dash.2.1⟩
  · exact ⟨fun h => (key_of_mem_styles sortU_sub h dash_facts.2.2.2.2.2.1).1, present_dash.2.2.1⟩
  · exact ⟨fun h => (key_of_mem_styles sortU_sub h dash_facts.2.2.2.2.2.2.2.1).1, present_dash.2.2.2⟩
  · exact ⟨fun h => (key_of_mem_styles sortU_sub h (shadow_facts q hq).1).1, present_shadow hq⟩

/-- the auxiliary rules come with their classes: `marker path { fill: inherit; }` whenever an arrow class
    is used, `@keyframes d-flow-animation …` whenever a flow-speed class is used -/
theorem aux_rules_present (cfg : ThemeCfg) (classes elements : List Str) :
    ((cs!"d-arrow" ∈ classes ∨ cs!"d-biarrow" ∈ classes) →
      cs!"marker path { fill: inherit; }" ∈ (build cfg classes elements).2) ∧
    ((∃ p ∈ flowTable, p.1 ∈ classes) →
      cs!"@keyframes d-flow-animation { from {stroke-dashoffset: 5;} to {stroke-dashoffset: 0;} }" ∈
        (build cfg classes elements).2) := by
  constructor
  · intro h
    have ha : hasArrow classes = true := by
      simp only [hasArrow, Bool.or_eq_true, has_iff]
      exact h
    exact present_arrow.2.2 ha
  · rintro ⟨p, hp, h⟩
    exact (present_flow hp h).2

/-- stroke widths: `.d-thin { stroke-width: w; }` with `w = fstr(base * factor)` iff the class is used -/
theorem stroke_width_rule_iff_used (cfg : ThemeCfg) (classes elements : List Str) (p : Str × Str)
    (hp : p ∈ Gen.Theme.append_stroke_width_styles_table0) :
    strokeWidthRule cfg p.1 p.2 ∈ (build cfg classes elements).2 ↔ p.1 ∈ classes := by
  have hkey : keyOf (strokeWidthRule cfg p.1 p.2) = some p.1 := by
    rw [strokeWidthRule_eq]; exact keyOf_dot _ _ ' ' (strokeWidth_facts p hp).1 (by decide)
  exact ⟨fun h => (key_of_mem_styles sortU_sub h hkey).1, present_strokeWidth hp⟩

/-- the text family, guard as in the code (`if tb.elements.contains("text")` / `has_element("text")`):
    a rule of `append_text_styles` is emitted iff a `text` element exists AND the class is used -/
theorem text_rule_iff_used (cfg : ThemeCfg) (classes elements : List Str) (p : Str × Str)
    (hp : p ∈ Gen.Theme.append_text_styles_table0) :
    p.2 ∈ (build cfg classes elements).2 ↔ (cs!"text" ∈ elements ∧ p.1 ∈ classes) := by
  have hmem : p.1 ∈ textKeys := by
    simp only [textKeys, List.mem_append, List.mem_map]; exact Or.inl (Or.inl ⟨p, hp, rfl⟩)
  constructor
  · intro h
    have := key_of_mem_styles sortU_sub h (text0_facts p hp).1
    exact ⟨hasText_iff.mp (this.2.1 hmem), this.1⟩
  · rintro ⟨ht, h⟩
    exact present_text0 hp (hasText_iff.mpr ht) h

/-- text sizes `text.d-text-small, text.d-text-small * { font-size: Npx; }`, `N = fstr(font_size * factor)` -/
theorem text_size_rule_iff_used (cfg : ThemeCfg) (classes elements : List Str) (p : Str × Str)
    (hp : p ∈ Gen.Theme.append_text_styles_table1) :
    textSizeRule cfg p.1 p.2 ∈ (build cfg classes elements).2 ↔ (cs!"text" ∈ elements ∧ p.1 ∈ classes) := by
  have hkey : keyOf (textSizeRule cfg p.1 p.2) = some p.1 := by
    rw [textSizeRule_eq]; exact keyOf_text _ _ ',' (text1_facts p hp).1 (by decide)
  have hmem : p.1 ∈ textKeys := by
    simp only [textKeys, List.mem_append, List.mem_map]; exact Or.inl (Or.inr ⟨p, hp, rfl⟩)
  constructor
  · intro h
    have := key_of_mem_styles sortU_sub h hkey
    exact ⟨hasText_iff.mp (this.2.1 hmem), this.1⟩
  · rintro ⟨ht, h⟩
    exact present_text1 hp (hasText_iff.mpr ht) h

/-- text outline widths `text.d-text-ol-thin, … { stroke-width: w; }` -/
theorem text_ol_width_rule_iff_used (cfg : ThemeCfg) (classes elements : List Str) (p : Str × Str)
    (hp : p ∈ Gen.Theme.append_text_styles_table2) :
    textOlWidthRule p.1 p.2 ∈ (build cfg classes elements).2 ↔ (cs!"text" ∈ elements ∧ p.1 ∈ classes) := by
  have hkey : keyOf (textOlWidthRule p.1 p.2) = some p.1 := by
    rw [textOlWidthRule_eq]; exact keyOf_text _ _ ',' (text2_facts p hp).1 (by decide)
  have hmem : p.1 ∈ textKeys := by
    simp only [textKeys, List.mem_append, List.mem_map]; exact Or.inr ⟨p, hp, rfl⟩
  constructor
  · intro h
    have := key_of_mem_styles sortU_sub h hkey
    exact ⟨hasText_iff.mp (this.2.1 hmem), this.1⟩
  · rintro ⟨ht, h⟩
    exact present_text2 hp (hasText_iff.mpr ht) h

/-- patterns: for a pattern prefix `row.cls` (d-grid, d-grid-h, d-grid-v, d-hatch, d-crosshatch,
    d-stipple), the class `c` being the bare prefix, or the prefix followed by `-` and a `u32` (optional `+`,
    ASCII digits) not above 100: `.c {fill: url(#id)}` is emitted iff `c` is used -/
theorem pattern_rule_iff_used (cfg : ThemeCfg) (classes elements : List Str) (row : PatternRow)
    (hrow : row ∈ patternRows) (c : Str)
    (hv : c = row.cls ∨ ∃ suffix n, c = row.cls ++ cs!"-" ++ suffix ∧ parseU32 suffix = some n ∧ n ≤ 100) :
    ('.' :: (c ++ (cs!" {fill: url(#" ++ (ptnId c ++ cs!")}")))) ∈ (build cfg classes elements).2 ↔ c ∈ classes := by
  rw [← patternRule_eq']
  have hf := row_facts row hrow
  have hspec : specClass row = row.cls ++ cs!"-" := rfl
  have hlim : spacingLimit = 100 := by decide +kernel
  have hv' : c = row.cls ∨ (getSpacing (specClass row) c).isSome = true := by
    rcases hv with h | ⟨suf, n, h1, h2, h3⟩
    · exact Or.inl h
    · right
      have : getSpacing (specClass row) c = some n := by
        rw [h1, hspec]
        simp only [getSpacing, stripPrefix_append, h2, hlim]
        simp [h3]
      simp [this]
  have hplain : plain c = true := by
    rcases hv with h | ⟨suf, n, h1, h2, _⟩
    · rw [h]; exact hf.1
    · rw [h1, ← hspec]; exact plain_append hf.2.1 (plain_of_parseU32 h2)
  have hkey : keyOf (patternRule c) = some c := by
    rw [patternRule_eq]; exact keyOf_dot _ _ ' ' hplain (by decide)
  exact ⟨fun h => (key_of_mem_styles sortU_sub h hkey).1,
    fun h => present_pattern (fun _ _ hx => mem_sortU.mpr hx) hrow h hv'⟩

/-- … and a class that merely LOOKS like a pattern class (suffix above 100, not a number, …) gets no rule:
    nothing in the output has a selector naming a class outside the vocabulary -/
theorem no_rule_outside_vocabulary (cfg : ThemeCfg) (classes elements : List Str) (k : Str)
    (hk : isReserved k = false) : ∀ r ∈ (build cfg classes elements).2, keyOf r ≠ some k := by
  intro r hr h
  have := (key_of_mem_styles sortU_sub hr h).2.2
  rw [hk] at this
  exact absurd this (by simp)

example : isReserved cs!"d-grid-100" = true ∧ isReserved cs!"d-grid-101" = false ∧
    isReserved cs!"d-grid-+7" = true ∧ isReserved cs!"d-grid-h-v" = false ∧ isReserved cs!"d-fill-red" = true ∧
    isReserved cs!"d-fill-notacolour" = false := by decide +kernel

/-! ### (b) url closure: every `url(#id)` is defined exactly once -/

/-- every `url(#id)` mentioned by an emitted definition, or by an emitted rule for a reserved class, is declared
    (`id="…"`) by exactly one emitted definition.  (The unconditional rules carry the author-supplied background
    and font family, which may legitimately refer to author definitions; they are not covered.) -/
theorem url_closure (cfg : ThemeCfg) (classes elements : List Str) (s : Str)
    (hs : s ∈ (build cfg classes elements).1 ∨
          (s ∈ (build cfg classes elements).2 ∧ (keyOf s).isSome = true)) :
    ∀ id ∈ urlRefs s, (((build cfg classes elements).1).flatMap declIds).count id = 1 :=
  url_closure_with sortU_sub sortU_nodup cfg classes elements s hs

/-- no id is declared twice -/
theorem declared_ids_nodup (cfg : ThemeCfg) (classes elements : List Str) :
    (((build cfg classes elements).1).flatMap declIds).Nodup := by
  have : ((build cfg classes elements).1).flatMap declIds = expectedIds sortU cfg classes :=
    declIds_defs sortU cfg classes
  rw [this]
  exact expectedIds_nodup sortU_nodup

/-- MINIMALITY of the definitions: an id is declared iff it is the arrow marker and an arrow class is used,
    or the id of a used pattern class, or the id of a used shadow class -/
theorem def_iff_used (cfg : ThemeCfg) (classes elements : List Str) (id : Str) :
    id ∈ ((build cfg classes elements).1).flatMap declIds ↔
      (id = cs!"d-arrow" ∧ (cs!"d-arrow" ∈ classes ∨ cs!"d-biarrow" ∈ classes)) ∨
      (∃ row ∈ patternRows, ∃ c, RowClass row c ∧ c ∈ classes ∧ id = ptnId c) ∨
      (∃ p ∈ Gen.Theme.build_table, id = p.1 ∧ p.1 ∈ classes) := by
  have h1 : ((build cfg classes elements).1).flatMap declIds = expectedIds sortU cfg classes :=
    declIds_defs sortU cfg classes
  have h2 : hasArrow classes = true ↔ (cs!"d-arrow" ∈ classes ∨ cs!"d-biarrow" ∈ classes) := by
    simp only [hasArrow, Bool.or_eq_true, has_iff]
    exact Iff.rfl
  rw [h1, mem_expectedIds_iff (fun _ _ => mem_sortU), h2]

/-- the `d-arrow` marker is defined once even if both `d-arrow` and `d-biarrow` are used -/
theorem arrow_marker_once (cfg : ThemeCfg) (classes elements : List Str)
    (h : cs!"d-arrow" ∈ classes ∨ cs!"d-biarrow" ∈ classes) :
    (((build cfg classes elements).1).flatMap declIds).count cs!"d-arrow" = 1 := by
  rw [List.Nodup.count (declared_ids_nodup cfg classes elements), if_pos]
  exact (def_iff_used cfg classes elements _).mpr (Or.inl ⟨rfl, h⟩)

/-- a shadow filter is defined once -/
theorem shadows_once (cfg : ThemeCfg) (classes elements : List Str) (p : Str × Str)
    (hp : p ∈ Gen.Theme.build_table) (h : p.1 ∈ classes) :
    (((build cfg classes elements).1).flatMap declIds).count p.1 = 1 := by
  rw [List.Nodup.count (declared_ids_nodup cfg classes elements), if_pos]
  exact (def_iff_used cfg classes elements _).mpr (Or.inr (Or.inr ⟨p, hp, rfl, h⟩))

/-- distinct pattern classes have distinct ids (the id is the class without its `d-`) -/
theorem pattern_ids_injective (r1 r2 : PatternRow) (h1 : r1 ∈ patternRows) (h2 : r2 ∈ patternRows) (c1 c2 : Str)
    (hc1 : RowClass r1 c1) (hc2 : RowClass r2 c2) (e : ptnId c1 = ptnId c2) : c1 = c2 :=
  ptnId_injective h1 h2 hc1 hc2 e

/-- … and a class is a pattern class of at most one row of the pattern table -/
theorem pattern_class_one_row (r1 r2 : PatternRow) (h1 : r1 ∈ patternRows) (h2 : r2 ∈ patternRows) (c : Str)
    (hc1 : RowClass r1 c) (hc2 : RowClass r2 c) : r1.cls = r2.cls := by
  cases Classical.em (r1.cls = r2.cls) with
  | inl h => exact h
  | inr hne => exact absurd (rowClass_excl h1 h2 hne hc1 hc2) id

/-- a worked instance: both arrow classes, two grids, a stipple, a shadow, text classes, on the dark theme with a
    local id; every reference is closed and `d-arrow` is declared once -/
def cfg1 : ThemeCfg :=
  { theme := .dark, background := cs!"#fff", fontSize := 12, fontFamily := cs!"monospace", localId := some cs!"svgdx-1" }

def classes1 : List Str :=
  [cs!"d-biarrow", cs!"d-grid-10", cs!"d-arrow", cs!"d-grid-5", cs!"d-stipple", cs!"d-softshadow", cs!"d-text-small",
   cs!"d-fill-red", cs!"d-grid-101", cs!"mine"]

example :
    ((build cfg1 classes1 [cs!"text", cs!"rect"]).1).flatMap declIds =
      [cs!"d-arrow", cs!"grid-10", cs!"grid-5", cs!"stipple", cs!"d-softshadow"] ∧
    ((build cfg1 classes1 [cs!"text", cs!"rect"]).2).flatMap urlRefs =
      [cs!"d-arrow", cs!"d-arrow", cs!"d-arrow", cs!"grid-10", cs!"grid-5", cs!"stipple", cs!"d-softshadow"] ∧
    cs!".d-fill-red { fill: red; }" ∈ (build cfg1 classes1 [cs!"text", cs!"rect"]).2 ∧
    cs!"text.d-text-small, text.d-text-small * { font-size: 8px; }" ∈ (build cfg1 classes1 [cs!"text", cs!"rect"]).2 ∧
    cs!"text.d-text-small, text.d-text-small * { font-size: 8px; }" ∉ (build cfg1 classes1 [cs!"rect"]).2 ∧
    cs!".d-grid-5 {fill: url(#grid-5)}" ∈ (build cfg1 classes1 []).2 ∧
    (build cfg1 classes1 []).2.all (fun r => keyOf r != some cs!"d-grid-101") = true := by
  decide +kernel

/-! ### (c) determinism: the output does not depend on the order (or multiplicity) of the class / element sets -/

/-- `build` looks at the class list and the element list only through membership -/
theorem build_mem_invariant (cfg : ThemeCfg) (classes classes' elements elements' : List Str)
    (hc : ∀ x, x ∈ classes ↔ x ∈ classes') (he : ∀ x, x ∈ elements ↔ x ∈ elements') :
    build cfg classes elements = build cfg classes' elements' :=
  buildWith_congr (fun _ _ h => sortU_congr h) hc he

/-- C06, theme part: any two iteration orders of the hash sets give the same rules and definitions in the same order -/
theorem build_perm_invariant (cfg : ThemeCfg) (classes classes' elements elements' : List Str)
    (hc : classes.Perm classes') (he : elements.Perm elements') :
    build cfg classes elements = build cfg classes' elements' :=
  build_mem_invariant cfg _ _ _ _ (fun _ => hc.mem_iff) (fun _ => he.mem_iff)

def cfg0 : ThemeCfg :=
  { theme := .dflt, background := cs!"default", fontSize := 3, fontFamily := cs!"sans-serif", localId := none }

/-- the builder as it was before the hash-order repair (matching pattern classes visited in the order the
    set yields them) is NOT permutation invariant: two pattern classes suffice -/
theorem C06_witness_unsorted_not_perm_invariant :
    [cs!"d-grid-5", cs!"d-grid-10"].Perm [cs!"d-grid-10", cs!"d-grid-5"] ∧
    buildUnsorted cfg0 [cs!"d-grid-5", cs!"d-grid-10"] [] ≠ buildUnsorted cfg0 [cs!"d-grid-10", cs!"d-grid-5"] [] := by
  refine ⟨List.Perm.swap _ _ _, ?_⟩
  decide +kernel

example : build cfg0 [cs!"d-grid-5", cs!"d-grid-10", cs!"d-arrow"] [cs!"rect", cs!"text"] =
    build cfg0 [cs!"d-arrow", cs!"d-grid-10", cs!"d-grid-5"] [cs!"text", cs!"rect"] :=
  build_perm_invariant _ _ _ _ _ (by decide) (by decide)

/-! ### (d) no reserved class, no rule -/

/-- with no reserved class in use only the base rules are emitted (background, local-id block, the theme's
    early / late styles, the four common rules) and there are no definitions -/
theorem no_class_no_rule (cfg : ThemeCfg) (classes elements : List Str)
    (h : ∀ k ∈ classes, isReserved k = false) :
    build cfg classes elements =
      ([], [backgroundRule cfg] ++ localOpen cfg ++ earlyStyles cfg ++ commonStyles cfg ++ lateStyles cfg ++
        localClose cfg) :=
  stylesT_base sortU_sub h

/-- a worked instance: a junk class, a near-miss pattern class and an author class give exactly the five base
    rules of the default theme and no definitions -/
example : build cfg0 [cs!"mine", cs!"d-grid-101", cs!"d-fill-notacolour"] [cs!"text", cs!"rect"] =
    ([], [cs!"svg { background: none; }", cs!"svg * { stroke-linecap: round; stroke-linejoin: round; }",
          cs!"rect, circle, ellipse, polygon { stroke-width: 0.5; fill: white; stroke: black; }",
          cs!"line, polyline, path { stroke-width: 0.5; fill: none; stroke: black; }",
          cs!"text, tspan { stroke-width: 0; font-family: sans-serif; font-size: 3px; fill: black; paint-order: stroke; stroke: white; }"]) := by
  rw [no_class_no_rule cfg0 _ _ (by decide +kernel)]
  decide +kernel

end Svgdx.Props.C20

#print axioms Svgdx.Props.C20.build_order_checked
#print axioms Svgdx.Props.C20.no_rule_without_class
#print axioms Svgdx.Props.C20.fill_rule_iff_used
#print axioms Svgdx.Props.C20.fill_text_rule_iff_used
#print axioms Svgdx.Props.C20.stroke_rule_iff_used
#print axioms Svgdx.Props.C20.stroke_text_rule_iff_used
#print axioms Svgdx.Props.C20.text_colour_rule_iff_used
#print axioms Svgdx.Props.C20.text_ol_colour_rule_iff_used
#print axioms Svgdx.Props.C20.plainVocab_classes
#print axioms Svgdx.Props.C20.plain_rule_iff_used
#print axioms Svgdx.Props.C20.aux_rules_present
#print axioms Svgdx.Props.C20.stroke_width_rule_iff_used
#print axioms Svgdx.Props.C20.text_rule_iff_used
#print axioms Svgdx.Props.C20.text_size_rule_iff_used
#print axioms Svgdx.Props.C20.text_ol_width_rule_iff_used
#print axioms Svgdx.Props.C20.pattern_rule_iff_used
#print axioms Svgdx.Props.C20.no_rule_outside_vocabulary
#print axioms Svgdx.Props.C20.url_closure
#print axioms Svgdx.Props.C20.declared_ids_nodup
#print axioms Svgdx.Props.C20.def_iff_used
#print axioms Svgdx.Props.C20.arrow_marker_once
#print axioms Svgdx.Props.C20.shadows_once
#print axioms Svgdx.Props.C20.pattern_ids_injective
#print axioms Svgdx.Props.C20.pattern_class_one_row
#print axioms Svgdx.Props.C20.build_mem_invariant
#print axioms Svgdx.Props.C20.build_perm_invariant
#print axioms Svgdx.Props.C20.C06_witness_unsorted_not_perm_invariant
#print axioms Svgdx.Props.C20.no_class_no_rule
