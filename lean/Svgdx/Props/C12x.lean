/-
  C12, extension (Svgdx/Proofs/Contain.lean): what `handle_containment` IS, for every context and element.
  All theorems are about the hand model `Elem.handleContainment c e` (Svgdx/Geom/Resolve.lean, unchanged),
  for ALL `c`, `e`; hypotheses are decidable facts about `e`'s attributes and `c` (`allResolve`, `firstBad`,
  `parsedMargin`, `NonnegMargin` are computable; each has an `example` on the context `C12x.Ex.ctx`).
  Vocabulary: `areaOf c e isS r` = the box one listed reference contributes (bounding box for surround,
  `inscribedBBox` for `e`'s shape for inside; `none` if it does not resolve), `areas` = those of the whole
  list, `gather` = `unionAll` / `intersectAll`, `adjust isS t` = grown / shrunk by the parsed margin,
  `finish e isS bbox` = positionFromBBox (if there is a box) on `e` STILL carrying the three attributes,
  then the class, then the removal - exactly the model's order.

  (a) CLOSED FORM
   * `closed_form`: with exactly one of surround / inside = `list`: the error `refErr` of the FIRST listed
     reference without a box; else the error of an unparsable margin; else
     `.ok (finish e isS ((gather isS (areas …)).map (adjust isS margin)))`.
   * `neither_unchanged`: no surround, no inside -> `.ok e` (unchanged - also a lone `margin`).
   * `both_error`: both -> `.error invalidData` (= `C12.both_is_error`).
   * `surround_closed_form` / `inside_closed_form`: every reference resolves, margin parses, union /
     intersection = some box -> `.ok (((e.positionFromBBox (adjust … box) false/true).addClass
     d-surround/d-inside).removeAttrs [surround, inside, margin])`; `surround_union_exists`: a non-empty
     resolving list has a union.
   * `no_box_no_geometry`: empty intersection (or empty list) -> NO error:
     `.ok ((e.addClass class).removeAttrs [surround, inside, margin])`, nothing else touched.
   * `unresolved_is_error` + `refErr_cases`: a listed reference that does not parse / names nothing / has
     no box (or an erroring box) -> `.error parse` / `reference` / `missingBBox`; never a default box.
   * `bad_margin_is_error`; `ok_shape`: every successful result is `e` or a `finish`.
   * `other_shape_no_geometry`: a name other than rect / box / circle / ellipse gets no geometry at all.
  (b) SURROUND, ELEMENT LEVEL (`g` = union grown by margin)
   * `surround_rect`: x / y / width / height = `fstr` of g's corner and size; under `RoundTrips g`
     (`strp (fstr v) = some v` for those four numbers) `bboxRaw` of the result = g EXACTLY, and `bbox` = g
     if the element has no content box and no `transform`; with `NonnegMargin` every listed box is Within g.
   * `surround_circle`: cx, cy = centre of g, r = ½·max(w,h)·SQRT_2; with `NonnegMargin` EVERY POINT of
     every listed box (corners included) is within r·√(1+10⁻⁷) of the centre (uses
     `C12.surround_circle_circumscribes`).
   * `surround_ellipse`: cx, cy, rx = ½·w·SQRT_2, ry = ½·h·SQRT_2; for 0 < w, h every point of every listed
     box satisfies the ellipse inequality up to 1+10⁻⁷ (uses `C12.surround_ellipse_circumscribes`).
  (c) INSIDE, ELEMENT LEVEL (`g` = intersection of the inscribed areas shrunk by margin)
   * `inside_rect`: attributes / box as for surround; with `NonnegMargin` g is Within the intersection and
     Within every listed area (`intersectAll_within`, `shrink_within`).
   * `inside_circle`: cx, cy = centre of g, r = ½·min(w,h); the square around the circle is Within g
     (no sign condition) and, with `NonnegMargin`, Within every listed area.
   * `inside_ellipse`: rx = ½·w, ry = ½·h: the ellipse's box IS g; Within every listed area.
  (d) FRAME
   * `frame`: for unique keys, a successful result has unique keys, the same name / content box / emptiness,
     classes = old ones plus exactly d-surround / d-inside (unchanged if neither attribute), no `surround`,
     no `inside`, a `margin` ONLY if neither was present (then the result is `e`), and every attribute
     outside [surround, inside, margin] and outside `geomKeys e.name` ([x,y,width,height] / [cx,cy,r] /
     [cx,cy,rx,ry] / []) keeps its value; `id_kept` as an instance; `finish_frame`, `finish_removed`.

  NOT proved: `RoundTrips` is a hypothesis (true on the 3-decimal grid, see C09x); the circle / ellipse
  statements are about the exact radii before `fstr` rounds them to 3 decimals; the `inside` statements take
  the code's notion of inscribed area (`inscribedBBox`: rect in circle / ellipse; every other pair = the
  bounding box, the TODO in element.rs), so a circle inside "#rect #circle" is Within the boxes, not shown
  to be within the listed circle; nothing is said for negative margins beyond the closed form.
  DEVIATION (property vs code, model = code; witness `C12x.Ex.lone`, confirmed with the svgdx binary):
  `<rect xy="0" wh="10" margin="3"/>` keeps `margin="3"` in the output - the early return for "neither
  attribute" skips `remove_attrs`, so "margin never appears in the output" holds only for elements that have
  `surround` or `inside` (`frame` states exactly this).
-/
/-
  C12 / C08, extension (Svgdx/Proofs/BoxListGen.lean): the hand-written list-level box folds EQUAL, for all
  lists, the functions regenerated from the syn AST of /repo/src/position.rs on every run
  (Svgdx/Gen/BoxList.lean: `BoundingBox::union`, an iterator chain; `BoundingBox::intersection`, a `while`
  loop over `next()` translated as a function recursive on the remaining items, `?` on an Option
  returning none; `BoundingBoxBuilder` with `&mut self` methods as state-passing functions).  A change to
  the chain (a `filter`, a different closure), to the loop body or to the builder changes the generated
  definitions and breaks one of these equations.
   * `unionAll_eq_gen`: `Elem.unionAll` (surround) is `BoundingBox::union`: none for no box, else the
     `combine` of ALL boxes, boxes of zero width or height included;
   * `while_loop_eq`, `intersectAll_eq_gen`: `Elem.intersectAll` (inside) is `BoundingBox::intersection`:
     none for no box, and none from the first empty overlap on, whatever boxes follow;
   * `extend_eq`: one `BoundingBoxBuilder::extend` is `Ctl.unionOpt acc (some b)`;
   * `builder_eq_gen` (`builder_from` from any state): `new`, `extend` for every present box of a list of
     optional boxes (the `if let Some(bb) = .. { bbox.extend(bb) }` of the callers), `build` is the fold
     of `Ctl.unionOpt` from none that the control skeleton uses for group / loop / root extents: none iff
     no box is present, the box (0,0,0,0) is a box like any other;
   * `builder_eq_union`: over a list of boxes the builder gives `Elem.unionAll` = `BoundingBox::union`.
  Not regenerated: the callers (which boxes are collected, in transform.rs / loop_el.rs / element.rs).
-/
import Svgdx.Proofs.Contain
import Svgdx.Proofs.BoxListGen

#print axioms Svgdx.Props.C12x.closed_form
#print axioms Svgdx.Props.C12x.neither_unchanged
#print axioms Svgdx.Props.C12x.both_error
#print axioms Svgdx.Props.C12x.surround_closed_form
#print axioms Svgdx.Props.C12x.surround_union_exists
#print axioms Svgdx.Props.C12x.inside_closed_form
#print axioms Svgdx.Props.C12x.no_box_no_geometry
#print axioms Svgdx.Props.C12x.unresolved_is_error
#print axioms Svgdx.Props.C12x.refErr_cases
#print axioms Svgdx.Props.C12x.bad_margin_is_error
#print axioms Svgdx.Props.C12x.ok_shape
#print axioms Svgdx.Props.C12x.other_shape_no_geometry
#print axioms Svgdx.Props.C12x.surround_rect
#print axioms Svgdx.Props.C12x.surround_circle
#print axioms Svgdx.Props.C12x.surround_ellipse
#print axioms Svgdx.Props.C12x.inside_rect
#print axioms Svgdx.Props.C12x.inside_circle
#print axioms Svgdx.Props.C12x.inside_ellipse
#print axioms Svgdx.Props.C12x.finish_frame
#print axioms Svgdx.Props.C12x.finish_removed
#print axioms Svgdx.Props.C12x.frame
#print axioms Svgdx.Props.C12x.id_kept
#print axioms Svgdx.Props.C12g.unionAll_eq_gen
#print axioms Svgdx.Props.C12g.while_loop_eq
#print axioms Svgdx.Props.C12g.intersectAll_eq_gen
#print axioms Svgdx.Props.C12g.extend_eq
#print axioms Svgdx.Props.C12g.builder_from
#print axioms Svgdx.Props.C12g.builder_eq_gen
#print axioms Svgdx.Props.C12g.builder_eq_union
