/-
  C12 / C08, extension (Svgdx/Proofs/BoxListGen.lean): the hand-written list-level box folds EQUAL, for all
  lists, the functions regenerated from the syn AST of /repo/src/position.rs on every run
  (Svgdx/Gen/BoxList.lean: `BoundingBox::union`, an iterator chain; `BoundingBox::intersection`, a `while`
  loop over `next()` translated as a function recursive on the remaining items, `?` on an Option
  returning none; `BoundingBoxBuilder` with `&mut self` methods as state-passing functions).  A change to
  the chain (a `filter`, a different closure), to the loop body or to the builder changes the generated
  definitions and breaks one of these equations.
   * `unionAll_eq_gen`: `Elem.unionAll` (surround) is `BoundingBox::union`: none for no box, else the
     `combine` of ALL boxes, boxes of zero width or height included;
   * `while_loop_eq`, `intersectAll_eq_gen`: `Elem.intersectAll` (inside) is `BoundingBox::intersection`:
     none for no box, and none from the first empty overlap on, whatever boxes follow;
   * `extend_eq`: one `BoundingBoxBuilder::extend` is `Ctl.unionOpt acc (some b)`;
   * `builder_eq_gen` (`builder_from` from any state): `new`, `extend` for every present box of a list of
     optional boxes (the `if let Some(bb) = .. { bbox.extend(bb) }` of the callers), `build` is the fold
     of `Ctl.unionOpt` from none that the control skeleton uses for group / loop / root extents: none iff
     no box is present, the box (0,0,0,0) is a box like any other;
   * `builder_eq_union`: over a list of boxes the builder gives `Elem.unionAll` = `BoundingBox::union`.
  Not regenerated: the callers (which boxes are collected, in transform.rs / loop_el.rs / element.rs).
-/
import Svgdx.Proofs.BoxListGen

#print axioms Svgdx.Props.C12g.unionAll_eq_gen
#print axioms Svgdx.Props.C12g.while_loop_eq
#print axioms Svgdx.Props.C12g.intersectAll_eq_gen
#print axioms Svgdx.Props.C12g.extend_eq
#print axioms Svgdx.Props.C12g.builder_from
#print axioms Svgdx.Props.C12g.builder_eq_gen
#print axioms Svgdx.Props.C12g.builder_eq_union
