/-
  C01 — Totality: every input gives a result or an error, never a crash or a hang.

  What a theorem can carry here is termination and freedom from fuel artefacts of the modelled loops and
  recursions, plus a regenerated inventory of the places where the real code could panic or recurse:
   * the path-data scanner consumes input on every instruction, so it stops (`path_scanner_total`);
   * the expression evaluator's descent, variable lookup and string scanners never exhaust the fuel their
     entry points supply, for ARBITRARY token strings (`expression_*`): the model has no hidden divergence,
     and the nesting the descent reaches is bounded by a scan of the tokens (`nestingDepth`), which is what
     the code's guard refuses past 100 levels (`expression_scan_bounds_recursion`, `guard_is_a_depth_budget`);
   * the bearing rewriting of path data (`B` / `b` commands) consumes input on every instruction
     (`bearing_scanner_total`);
   * the retry loop needs at most n+1 passes and idle passes are bounded (`retry_*`), loops stop at the
     limit and depth is bounded (C17);
   * `panic_sites_reviewed` / `recursion_reviewed`: the tables of unwrap / expect / panic! / index sites and
     of syntactically recursive functions, regenerated from /repo/src on every run, equal the lists
     reviewed below. A new site makes the theorem fail and has to be looked at.
  Memory safety, the allocator, the OS, quick-xml, axum and the Rust runtime are not modelled; panics,
  aborts and hangs of the real code are searched for by the isolated fuzz streams of the check.
-/
import Svgdx.Proofs.PathScan
import Svgdx.Proofs.ExprDepth
import Svgdx.Proofs.Bearing
import Svgdx.Proofs.ExprFuel
import Svgdx.Proofs.Sched
import Svgdx.Props.C10
import Svgdx.Gen.Audit

namespace Svgdx.Props.C01
open Svgdx

/-! ### the path-data scanner -/

/-- **`path_bbox` ends on every `d` string** - with a box, without one, or with a parse error; the loop of
    `PathParser::evaluate` cannot spin (before the repair, `M 0 0 Z 5 5` did) -/
theorem path_scanner_total (d : Str) : Path.pathBBox d ≠ .outOfFuel := Path.pathBBox_total d

/-- each instruction consumes input (and a closepath is never the remembered command) -/
theorem path_instruction_consumes {st st' : Path.PState} (hg : Path.Good st) (h : Path.step st = some st') :
    st'.rest.length < st.rest.length ∧ Path.Good st' := Path.step_lt hg h

/-! ### expressions: arbitrary input, no fuel artefact -/

open Expr in
/-- the recursive descent ends on every token list: fuel linear in the number of tokens always suffices -/
theorem expression_descent_total {α σ : Type} (o : Ops α σ) (lk : Lookup α σ) (elref : Str → Res α)
    (hlk : ∀ v ck st, lk v ck st ≠ .error .outOfFuel) (hel : ∀ v, elref v ≠ .error .outOfFuel)
    (ck : List Str) (ts : List (Token α)) (st : σ) :
    evaluate o lk elref ck ts st ≠ .error .outOfFuel :=
  evaluate_ne_outOfFuel o lk elref hlk hel ck ts st

open Expr in
/-- nested variable lookups end: the cycle check bounds their depth by the number of variables -/
theorem expression_lookup_total {α σ : Type} (o : Ops α σ) (env : Env) (elref : Str → Res α)
    (hel : ∀ v, elref v ≠ .error .outOfFuel) (base : Nat) (v : Str) (ck : List Str) (st : σ) :
    lookup o env elref base v ck st ≠ .error .outOfFuel :=
  lookup_ne_outOfFuel o env elref hel base v ck st

open Expr in
/-- the nesting guard: an expression whose tokens nest deeper than `MAX_EXPR_DEPTH` (together with the
    expressions whose variables led to it) is refused before the recursive parser is entered — this is
    what stands where a stack overflow used to be -/
theorem expression_nesting_guard {α σ : Type} (o : Ops α σ) (lkB : Nat → Lookup α σ) (elref : Str → Res α)
    (base : Nat) (ck : List Str) (ts : List (Token α)) (st : σ)
    (h : maxExprDepth < base + nestingDepth ts) :
    evaluateAt o lkB elref base ck ts st = .error .depthLimit := by
  simp only [evaluateAt, h, if_true]

open Expr in
/-- **the token scan bounds the nesting the descent really reaches.** `evaluateD` is the descent with a
    depth budget that is spent at exactly the three places where `primary` re-enters itself (an open
    parenthesis, a unary minus, a function call) and answers `DepthLimitExceeded` when it runs out; with
    a budget of `nestingDepth ts` it never does - it IS `evaluate`, for every token list, well formed or
    not. So an expression the guard lets through nests at most 100 re-entries deep. -/
theorem expression_scan_bounds_recursion {α σ : Type} (o : Ops α σ) (lk : Lookup α σ) (elref : Str → Res α)
    (d : Nat) (ck : List Str) (ts : List (Token α)) (st : σ) (h : nestingDepth ts ≤ d) :
    evaluateD o lk elref d ck ts st = evaluate o lk elref ck ts st :=
  evaluateD_eq_evaluate o lk elref d ck ts st h

open Expr in
/-- the guard, read as a budget: evaluating at depth `base` what the guard admits is the budgeted descent
    with what is left of the 100 levels -/
theorem guard_is_a_depth_budget {α σ : Type} (o : Ops α σ) (lkB : Nat → Lookup α σ) (elref : Str → Res α)
    (base : Nat) (ck : List Str) (ts : List (Token α)) (st : σ)
    (h : base + nestingDepth ts ≤ maxExprDepth) :
    evaluateAt o lkB elref base ck ts st
      = evaluateD o (lkB (base + nestingDepth ts + 1)) elref (maxExprDepth - base) ck ts st :=
  evaluateAt_eq_evaluateD o lkB elref base ck ts st h

open Expr in
/-- a budget can only ever turn an answer into `DepthLimitExceeded`, never into another answer -/
theorem depth_budget_only_refuses {α σ : Type} (o : Ops α σ) (lk : Lookup α σ) (elref : Str → Res α)
    (d : Nat) (ck : List Str) (ts : List (Token α)) (st : σ) :
    evaluateD o lk elref d ck ts st = evaluate o lk elref ck ts st ∨
      evaluateD o lk elref d ck ts st = .error .depthLimit :=
  evaluateD_eq_or_depthLimit o lk elref d ck ts st

/-- **the bearing rewriting of path data ends on every `d` string**, for any number operations -/
theorem bearing_scanner_total {α σ : Type} (o : Expr.Ops α σ) (d : Str) :
    Bearing.processPathBearing o d ≠ .outOfFuel := Bearing.processPathBearing_total o d

/-- … and what it writes contains no bearing command any more (given that numbers are not printed with a
    `B` or `b` in them) -/
theorem bearing_commands_removed {α σ : Type} (o : Expr.Ops α σ) (hf : ∀ x, Bearing.NoB (o.fstr x))
    (d out : Str) (h : Bearing.processPathBearing o d = .ok out) : Bearing.NoB out :=
  Bearing.processPathBearing_noB_out o hf d out h

open Expr in
/-- … and every variable on the way costs a level: the lookups made while evaluating at depth `d` are
    made at depth `d + 1`, so a chain of variables defined in terms of each other ends after at most
    `MAX_EXPR_DEPTH` links -/
theorem expression_lookup_deeper {α σ : Type} (o : Ops α σ) (lkB : Nat → Lookup α σ) (elref : Str → Res α)
    (base : Nat) (ck : List Str) (ts : List (Token α)) (st : σ)
    (h : base + nestingDepth ts ≤ maxExprDepth) :
    evaluateAt o lkB elref base ck ts st = evaluate o (lkB (base + nestingDepth ts + 1)) elref ck ts st := by
  have hn : ¬ (base + nestingDepth ts > maxExprDepth) := by omega
  simp only [evaluateAt, if_neg hn]

open Expr in
/-- every attribute value, condition and list evaluates to a value or an error -/
theorem expression_entry_points_total {α σ : Type} (o : Ops α σ) (env : Env) (elref : Str → Res α)
    (hel : ∀ v, elref v ≠ .error .outOfFuel) (value : Str) (st : σ) :
    evalAttr o env elref value st ≠ .error .outOfFuel ∧
    evalCondition o env elref value st ≠ .error .outOfFuel ∧
    evalList o env elref value st ≠ .error .outOfFuel :=
  ⟨evalAttr_ne_outOfFuel o env elref hel value st, evalCondition_ne_outOfFuel o env elref hel value st,
   evalList_ne_outOfFuel o env elref hel value st⟩

/-! ### the retry loop -/

/-- n + 1 passes always suffice for n pending elements -/
theorem retry_passes_bounded {ι ν : Type} [DecidableEq ι] (items : List (Sched.Item ι ν)) (fuel : Nat)
    (h : items.length + 1 ≤ fuel) : Sched.retry fuel [] items = Sched.run items :=
  Sched.fuel_irrelevant items fuel h

/-! ### inventories of the real code -/

/-- reviewed panic sites (file, function, kind, occurrences) -/
def reviewedPanicSites : List (Str × Str × Str × Nat) := [
  (cs!"bearing.rs", cs!"PathBearing::process_instruction", cs!"expect", 1),   -- set two lines above / guarded by at_end
  (cs!"bearing.rs", cs!"PathBearing::process_instruction", cs!"unwrap", 1),   -- set two lines above / guarded by at_end
  (cs!"cli.rs", cs!"run", cs!"expect", 1),   -- watcher creation in --watch mode only (not a transform)
  (cs!"connector.rs", cs!"Connector::from_element", cs!"expect", 6),   -- locations set by the preceding match arms; point lists of fixed length
  (cs!"connector.rs", cs!"Connector::render", cs!"index", 4),   -- locations set by the preceding match arms; point lists of fixed length
  (cs!"context.rs", cs!"TransformerContext::ensure_scope", cs!"expect", 1),   -- scope created by ensure_scope; system clock after the epoch (local style id only)
  (cs!"context.rs", cs!"TransformerContext::set_config", cs!"unwrap", 1),   -- scope created by ensure_scope; system clock after the epoch (local style id only)
  (cs!"element.rs", cs!"SvgElement::all_events", cs!"index", 1),   -- slices of the stored event range; one of surround/inside is set; splitn yields a first part
  (cs!"element.rs", cs!"SvgElement::element_events", cs!"index", 2),   -- slices of the stored event range; one of surround/inside is set; splitn yields a first part
  (cs!"element.rs", cs!"SvgElement::handle_containment", cs!"unwrap", 1),   -- slices of the stored event range; one of surround/inside is set; splitn yields a first part
  (cs!"element.rs", cs!"SvgElement::inner_events", cs!"index", 1),   -- slices of the stored event range; one of surround/inside is set; splitn yields a first part
  (cs!"element.rs", cs!"SvgElement::split_compound_attr", cs!"expect", 1),   -- slices of the stored event range; one of surround/inside is set; splitn yields a first part
  (cs!"element.rs", cs!"expand_relspec", cs!"index", 5),   -- slices of the stored event range; one of surround/inside is set; splitn yields a first part
  (cs!"events.rs", cs!"InputEvent::cdata_string", cs!"expect", 1),   -- matched Ok(..) two lines above; ranges from the event indices; UTF-8 validated in from_reader
  (cs!"events.rs", cs!"InputList::from_reader", cs!"expect", 3),   -- matched Ok(..) two lines above; ranges from the event indices; UTF-8 validated in from_reader
  (cs!"events.rs", cs!"InputList::from_reader", cs!"index", 1),   -- matched Ok(..) two lines above; ranges from the event indices; UTF-8 validated in from_reader
  (cs!"events.rs", cs!"InputList::slice", cs!"index", 1),   -- matched Ok(..) two lines above; ranges from the event indices; UTF-8 validated in from_reader
  (cs!"events.rs", cs!"OutputEvent::from", cs!"expect", 4),   -- matched Ok(..) two lines above; ranges from the event indices; UTF-8 validated in from_reader
  (cs!"events.rs", cs!"OutputList::blank_line_remover", cs!"index", 1),   -- matched Ok(..) two lines above; ranges from the event indices; UTF-8 validated in from_reader
  (cs!"events.rs", cs!"SvgElement::try_from", cs!"expect", 2),   -- matched Ok(..) two lines above; ranges from the event indices; UTF-8 validated in from_reader
  (cs!"events.rs", cs!"tagify_events", cs!"index", 2),   -- matched Ok(..) two lines above; ranges from the event indices; UTF-8 validated in from_reader
  (cs!"expression.rs", cs!"eval_expr", cs!"index", 4),   -- slices at positions returned by find on the same string
  (cs!"expression.rs", cs!"eval_vars", cs!"index", 4),   -- slices at positions returned by find on the same string
  (cs!"expression.rs", cs!"valid_variable_name", cs!"index", 1),   -- slices at positions returned by find on the same string
  (cs!"functions.rs", cs!"eval_function", cs!"index", 14),   -- argument counts checked before indexing
  (cs!"lib.rs", cs!"transform_file", cs!"expect", 1),   -- terminal stdin only; output is assembled from strings
  (cs!"lib.rs", cs!"transform_str", cs!"expect", 1),   -- terminal stdin only; output is assembled from strings
  (cs!"path.rs", cs!"(item)", cs!"unwrap", 3),   -- guarded by at_end / at_command; command set above
  (cs!"path.rs", cs!"PathParser::process_instruction", cs!"expect", 1),   -- guarded by at_end / at_command; command set above
  (cs!"position.rs", cs!"TrblLength::from_str", cs!"index", 16),   -- length of the split checked by the surrounding match
  (cs!"reuse.rs", cs!"ReuseElement::generate_events", cs!"index", 1),   -- event range of the original element
  (cs!"server.rs", cs!"(item)", cs!"unwrap", 2),   -- static response builders
  (cs!"server.rs", cs!"start_server", cs!"unwrap", 3),   -- static response builders
  (cs!"server.rs", cs!"static_file", cs!"unwrap", 1),   -- static response builders
  (cs!"server.rs", cs!"transform", cs!"unwrap", 2),   -- static response builders
  (cs!"text.rs", cs!"get_text_value", cs!"expect", 1),   -- caller checks has_attr("text"); index within the pattern just matched
  (cs!"text.rs", cs!"text_string", cs!"index", 2),   -- caller checks has_attr("text"); index within the pattern just matched
  (cs!"transform.rs", cs!"Transformer::write_root_svg", cs!"expect", 2),   -- is_some checked in the enclosing match
  (cs!"transform_attr.rs", cs!"TransformType::from_str", cs!"index", 19),   -- argument counts checked per transform function
  (cs!"types.rs", cs!"svg_number_list", cs!"index", 11)   -- every index is guarded by `i < chars.len()` (or follows the early return); the slice ends at i <= len
]

/-- **no panic site outside the reviewed list**: the table regenerated from the source equals it -/
theorem panic_sites_reviewed : Gen.Audit.panicSites = reviewedPanicSites := rfl

/-- reviewed recursive functions: what bounds each recursion -/
def reviewedRecursiveFns : List (Str × Str) := [
  (cs!"context.rs", cs!"TransformerContext::clipped_element_bbox"),   -- cycle check on the clip paths followed (seen list)
  (cs!"events.rs", cs!"InputEvent::from"),   -- From impl delegating to another From impl (no self call at run time)
  (cs!"events.rs", cs!"SvgElement::try_from"),   -- TryFrom impl delegating to the BytesStart one
  (cs!"expression.rs", cs!"EvalState::lookup"),   -- cycle check (checked_vars): depth <= number of variables; exponential breadth is an open finding
  (cs!"expression.rs", cs!"ExprValue::flatten"),   -- depth of the value = nesting of list literals in the expression
  (cs!"expression.rs", cs!"ExprValue::to_string_vec"),   -- same
  (cs!"expression.rs", cs!"comparison"),   -- recursive descent: depth <= nesting of the expression - UNBOUNDED STACK USE, open finding
  (cs!"expression.rs", cs!"expr"),   -- same
  (cs!"expression.rs", cs!"expr_list"),   -- same
  (cs!"expression.rs", cs!"factor"),   -- same
  (cs!"expression.rs", cs!"logical"),   -- same
  (cs!"expression.rs", cs!"primary"),   -- same
  (cs!"expression.rs", cs!"term"),   -- same
  (cs!"position.rs", cs!"BoundingBox::scalarspec"),   -- one step to the primitive scalar (modelled, terminates structurally)
  (cs!"themes.rs", cs!"ThemeBuilder::build"),   -- builder method named like the trait method it calls
  (cs!"types.rs", cs!"ClassList::contains"),   -- wrapper around the inner container
  (cs!"types.rs", cs!"ClassList::remove")   -- wrapper around the inner container
]

/-- **no recursion outside the reviewed list** (syntactic call graph; trait-object dispatch of
    `generate_events` is bounded by the depth limit, C17) -/
theorem recursion_reviewed : Gen.Audit.recursiveFns = reviewedRecursiveFns := rfl

end Svgdx.Props.C01

#print axioms Svgdx.Props.C01.path_scanner_total
#print axioms Svgdx.Props.C01.path_instruction_consumes
#print axioms Svgdx.Props.C01.expression_descent_total
#print axioms Svgdx.Props.C01.expression_lookup_total
#print axioms Svgdx.Props.C01.expression_nesting_guard
#print axioms Svgdx.Props.C01.expression_lookup_deeper
#print axioms Svgdx.Props.C01.expression_scan_bounds_recursion
#print axioms Svgdx.Props.C01.guard_is_a_depth_budget
#print axioms Svgdx.Props.C01.depth_budget_only_refuses
#print axioms Svgdx.Props.C01.bearing_scanner_total
#print axioms Svgdx.Props.C01.bearing_commands_removed
#print axioms Svgdx.Props.C01.expression_entry_points_total
#print axioms Svgdx.Props.C01.retry_passes_bounded
#print axioms Svgdx.Props.C01.panic_sites_reviewed
#print axioms Svgdx.Props.C01.recursion_reviewed
